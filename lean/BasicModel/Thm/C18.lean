import BasicModel.Gen.Limits
import BasicModel.Lemmas.Link
import BasicModel.Lemmas.StackBound
import BasicModel.Lemmas.Control
import BasicModel.Lemmas.CodegenShape
import BasicModel.Lemmas.ExprCompile
/-
  C18 — Memory pools are bounded at 64K and completed statements leave nothing behind.

  Code, data and the VM stack are the Rust `Stack`s limited to 65 535 entries: every growth goes
  through a checked push that reports OUT OF MEMORY.  Control statements are stack-balanced:
  ON pops its two operands, RETURN removes the frame GOSUB pushed, NEXT either re-pushes the
  FOR frame unchanged or removes it, and ON…GOSUB that selects nothing leaves no return address
  behind (the repaired defect D6).  A successfully evaluated expression of the fragment `Spec.Pure`
  grows the stack by exactly one value (`expr_pushes_one`), and `LET v = e` leaves it as it found it
  (`let_stack_neutral`).
-/
namespace Basic
namespace Thm.C18
open Link
open Basic.Runtime

/-! ### the three pools -/

/-- code segment: a successful `push` leaves at most 65 535 ops; a failed one is OUT OF MEMORY
    "PROGRAM SIZE LIMIT EXCEEDED" -/
theorem Link.push_bounded (l : Link) (op : Opcode) :
    ((l.push op).2 = .ok () ∧ (l.push op).1.ops.size ≤ 65535) ∨
    ((l.push op).2 = .error opsOverflow ∧ l.ops.size ≥ 65535) := by
  unfold Link.push
  simp only [Array.size_push]
  by_cases h : l.ops.size + 1 > Gen.stackMaxLen
  · right; rw [if_pos h]; exact ⟨rfl, by simp only [Gen.stackMaxLen] at h; omega⟩
  · left; rw [if_neg h]; exact ⟨rfl, by simp only [Gen.stackMaxLen] at h; omega⟩

theorem opsOverflow_is_oom :
    opsOverflow.code = Code.outOfMemory ∧ opsOverflow.msg = "PROGRAM SIZE LIMIT EXCEEDED" ∧ Code.outOfMemory = 7 :=
  ⟨rfl, rfl, rfl⟩

/-- data segment: likewise, "DATA SIZE LIMIT EXCEEDED" -/
theorem Link.pushData_bounded (l : Link) (v : Val) :
    ((l.pushData v).2 = .ok () ∧ (l.pushData v).1.data.size ≤ 65535) ∨
    ((l.pushData v).2 = .error dataOverflow ∧ l.data.size ≥ 65535) := by
  unfold Link.pushData
  simp only [Array.size_push]
  by_cases h : l.data.size + 1 > Gen.stackMaxLen
  · right; rw [if_pos h]; exact ⟨rfl, by simp only [Gen.stackMaxLen] at h; omega⟩
  · left; rw [if_neg h]; exact ⟨rfl, by simp only [Gen.stackMaxLen] at h; omega⟩

theorem dataOverflow_is_oom :
    dataOverflow.code = Code.outOfMemory ∧ dataOverflow.msg = "DATA SIZE LIMIT EXCEEDED" := ⟨rfl, rfl⟩

/-- `append`: success bounds both segments; the only failures are ILLEGAL DIRECT (data in a direct
    statement) and the two OUT OF MEMORY errors -/
theorem Link.append_bounded (a b : Link) :
    ((a.append b).2 = .ok () ∧ (a.append b).1.ops.size ≤ 65535 ∧ (a.append b).1.data.size ≤ 65535) ∨
    (a.append b).2 = .error (Error.mk' Code.illegalDirect) ∨
    (a.append b).2 = .error opsOverflow ∨ (a.append b).2 = .error dataOverflow := by
  rcases append_cases a b with ⟨_, _, e⟩ | ⟨_, e⟩ | ⟨_, _, e⟩ | ⟨h1, h2, e⟩
  · right; left; rw [e]
  · right; right; left; rw [e]
  · right; right; right; rw [e]
  · left
    rw [e]
    refine ⟨rfl, ?_, ?_⟩
    · show (a.ops ++ b.ops).size ≤ _
      rw [Array.size_append]; exact h1
    · show (a.data ++ b.data).size ≤ _
      rw [Array.size_append]; exact h2

/-- the VM stack: a successful `push` stays within 65 535 values, a failed one is OUT OF MEMORY "STACK OVERFLOW" -/
theorem Runtime.push_bounded (v : Val) (s : Runtime) :
    (((Runtime.push v).run).run s = (.ok (), { s with stack := s.stack.push v }) ∧ s.stack.size + 1 ≤ 65535) ∨
    (((Runtime.push v).run).run s = (.error stackOverflow, { s with stack := s.stack.push v }) ∧ s.stack.size ≥ 65535) := by
  rw [run_push]
  by_cases h : s.stack.size + 1 > Gen.stackMaxLen
  · right; rw [if_pos h]; exact ⟨rfl, by simp only [Gen.stackMaxLen] at h; omega⟩
  · left; rw [if_neg h]; exact ⟨rfl, by simp only [Gen.stackMaxLen] at h; omega⟩

theorem stackOverflow_is_oom :
    stackOverflow.code = Code.outOfMemory ∧ stackOverflow.msg = "STACK OVERFLOW" := ⟨rfl, rfl⟩

/-! ### the stack bound is an invariant of execution -/

/-- every opcode: if the stack holds at most 65 535 values and `step` succeeds, it still does -/
theorem runtime_stack_bounded_step (env : Env) (hie : Bool) (s s' : Runtime) (r : Step)
    (hs : s.stack.size ≤ 65535) (h : ((step env hie).run).run s = (.ok r, s')) :
    s'.stack.size ≤ 65535 :=
  Good.step env hie s hs r s' h

/-- … and so does any number of instructions -/
theorem runtime_stack_bounded_executeLoop (env : Env) (n : Nat) (s s' : Runtime) (e : Event)
    (hs : s.stack.size ≤ 65535) (h : ((executeLoop env n).run).run s = (.ok e, s')) :
    s'.stack.size ≤ 65535 := by
  have hloop : ∀ (hie : Bool) (k : Nat), Good (executeLoop.loop env hie k) := by
    intro hie k
    induction k with
    | zero => unfold executeLoop.loop; exact Good.pure _
    | succ k ih =>
      unfold executeLoop.loop
      apply Good.bind (Good.step env hie)
      intro r
      cases r with
      | «continue» => exact ih
      | event e => exact Good.pure _
  have : Good (executeLoop env n) := by
    unfold executeLoop
    apply Good.get_bind
    intro s0 _
    exact hloop _ _
  exact this s hs e s' h

/-- the helpers, by name -/
theorem runtime_stack_bounded_helpers :
    (∀ v, Good (Runtime.push v)) ∧ Good Runtime.pop ∧ (∀ f, Good (pop1Push f)) ∧ (∀ f, Good (pop2Push f)) ∧
    (∀ n, Good (doFn n)) ∧ (∀ n, Good (doNext n)) ∧ Good doReturn ∧ Good doSwap ∧ Good doPrint ∧ Good doRead ∧
    (∀ n, Good (doInput n)) ∧ Good doOn ∧ (∀ n, Good (doDef n)) :=
  ⟨Good.push, Good.pop, Good.pop1Push, Good.pop2Push, Good.doFn, Good.doNext, Good.doReturn, Good.doSwap,
   Good.doPrint, Good.doRead, Good.doInput, Good.doOn, Good.doDef⟩

/-! ### stack effects of control statements -/

/-- ON pops exactly its two operands (count and selector) and pushes nothing, on every path -/
theorem doOn_stack_effect (s : Runtime) (σ : Array Val) (lenV selV : Val) (len sel : Int16)
    (hst : s.stack = (σ.push lenV).push selV) (hsel : selV.toI16 = .ok sel) (hlen : lenV.toI16 = .ok len) :
    ((doOn.run).run s).2.stack = σ := by
  rw [run_doOn s σ lenV selV len sel hst hsel hlen]
  split
  · rfl
  · split <;> rfl

/-- RETURN on `σ, ret a`: the frame is gone, control is at `a` -/
theorem gosub_return_balanced (s : Runtime) (σ : Array Val) (a : Nat) (hst : s.stack = σ.push (.ret a)) :
    (doReturn.run).run s = (.ok (), { s with stack := σ, pc := a }) := by
  have := run_doReturn s σ a [] (fun _ h => nomatch h) (by simpa using hst)
  rw [this]; rfl

/-- RETURN on `σ, ret a, v` with `v` a number or string (a function result): `σ, v`, control at `a` -/
theorem fn_return_balanced (s : Runtime) (σ : Array Val) (a : Nat) (v : Val) (hv : isValue v = true)
    (hst : s.stack = (σ.push (.ret a)).push v) (hb : s.stack.size ≤ 65535) :
    (doReturn.run).run s = (.ok (), { s with stack := σ.push v, pc := a }) := by
  have hr : isRet v = false := by cases v <;> simp_all [isRet, isValue]
  have := run_doReturn s σ a [v] (by intro x hx; simp at hx; subst hx; exact hr) (by simpa using hst)
  rw [this]
  simp only [keptTop, keptOf, hv, Bool.true_and, if_true, finishReturn]
  rw [if_neg]
  rw [hst] at hb
  simp only [Array.size_push, Gen.stackMaxLen] at hb ⊢
  omega

/-- RETURN discards abandoned FOR frames (and anything else that is not a return address) above the
    innermost return address -/
theorem return_discards_abandoned_frames (s : Runtime) (σ : Array Val) (a : Nat) (junk : List Val)
    (hj : ∀ v ∈ junk, isRet v = false) (htop : ∀ t, junk.getLast? = some t → isValue t = false)
    (hst : s.stack = σ.push (.ret a) ++ junk.toArray) :
    (doReturn.run).run s = (.ok (), { s with stack := σ, pc := a }) := by
  have := run_doReturn s σ a junk.reverse (by intro v hv; exact hj v (List.mem_reverse.1 hv))
    (by simpa using hst)
  rw [this]
  cases hr : junk.reverse with
  | nil => rfl
  | cons t rest =>
    have : junk.getLast? = some t := by
      rw [← List.head?_reverse, hr]; rfl
    simp only [keptTop, keptOf, htop t this, Bool.and_false, Bool.false_eq_true, if_false]
    rfl

/-- NEXT, loop continues: the 4-value FOR frame is re-pushed unchanged (the stack is what it was) and
    control goes to the loop body; loop finished: the frame is gone (4 values fewer) -/
theorem doNext_frame_balanced (s : Runtime) (σ : Array Val) (toV stepV : Val) (vn name : Str) (addr : Nat)
    (cur0 cur : Val) (vars' : Var) (st : Float) (done : Val)
    (hst : s.stack = σ ++ forFrame toV stepV vn addr)
    (hname : name = [] ∨ vn = name)
    (hfetch : s.vars.fetch vn = .ok cur0) (hsum : Ops.sum cur0 stepV = .ok cur)
    (hstore : s.vars.store vn cur = .ok vars') (hstep : stepV.toF64 = .ok st)
    (hdone : (if st < 0 then Ops.less cur toV else Ops.less toV cur) = .ok done)
    (hb : s.stack.size ≤ 65535) :
    (done ≠ .int (-1) →
      ((doNext name).run).run s = (.ok (), { s with vars := vars', pc := addr }) ∧
      (((doNext name).run).run s).2.stack = s.stack) ∧
    (done = .int (-1) →
      ((doNext name).run).run s = (.ok (), { s with vars := vars', stack := σ }) ∧
      (((doNext name).run).run s).2.stack.size + 4 = s.stack.size) := by
  have := run_doNext s σ toV stepV vn name addr cur0 cur vars' st done hst hname hfetch hsum hstore hstep hdone hb
  constructor
  · intro hd
    rw [this, if_pos hd]
    exact ⟨rfl, rfl⟩
  · intro hd
    rw [this, if_neg (by simp [hd])]
    refine ⟨rfl, ?_⟩
    rw [hst]
    simp [forFrame]

/-! ### ON … GOSUB that selects nothing (D6, repaired) -/

/-- the code of `ON x GOSUB n₁,…,nₖ`: `ret→L, k, ⟨x⟩, on, jump n₁ … jump nₖ, return, L:` — the jump
    table is followed by a `return`, and the return address literal refers to the label `L` placed
    right after it -/
theorem genOn_gosub_shape (g : Codegen.GState) (c : Col) (pre : Array (Col × Link)) (subCol : Col) (varOps : Link)
    (frags : List (Col × Link))
    (hexpr : g.expr = (pre.push (subCol, varOps)) ++ frags.toArray) (hcur : g.cur = {})
    (hlen : frags.length ≤ 32767)
    (hfrag : ∀ x ∈ frags, ∃ n, Codegen.lineNumberOfLink x.2 = .ok (some n))
    (ho : 2 + varOps.ops.size + 1 + frags.length + 1 ≤ 65535)
    (hdd : varOps.data.size ≤ 65535) :
    ∃ col g', ((Codegen.genOn c frags.length true).run).run g = (.ok col, g') ∧
      g'.cur.ops = #[.literal (.ret 0), .literal (.int (Int16.ofNat frags.length))] ++ varOps.ops ++ #[.on]
                ++ Array.replicate frags.length (.jump 0) ++ #[.return] ∧
      g'.cur.unlinked.lookup 0 = some (c, -1) ∧
      g'.cur.symbols.lookup (-1) = some (g'.cur.ops.size, varOps.data.size) := by
  obtain ⟨col, l', h1, h2, h3, h4⟩ := Codegen.genOn_gosub_run g c pre subCol varOps frags hexpr hcur hlen hfrag ho hdd
  exact ⟨col, _, h1, h2, h3, h4⟩

/-- running it: with the `on` at `pc`, `len` jumps after it and the `return` after those, a selector
    of 0 or beyond the list makes `on` skip the table onto the `return`, which pops exactly the
    return address pushed at the start of the statement: two instructions later the stack is what
    it was before the statement and control is at the statement's end label -/
theorem on_gosub_fallthrough_balanced (env : Env) (hie : Bool) (s : Runtime) (σ : Array Val) (R : Nat)
    (lenV selV : Val) (len sel : Int16)
    (htr : s.tron = false)
    (hon : s.program.link.ops[s.pc]? = some .on)
    (hret : s.program.link.ops[s.pc + 1 + len.toInt.toNat]? = some .return)
    (hst : s.stack = ((σ.push (.ret R)).push lenV).push selV)
    (hsel : selV.toI16 = .ok sel) (hlen : lenV.toI16 = .ok len)
    (hlen0 : 0 ≤ len.toInt) (hfall : sel.toInt = 0 ∨ sel.toInt > len.toInt) :
    ((step env hie >>= fun _ => step env hie).run).run s = (.ok .continue, { s with stack := σ, pc := R }) := by
  have hsel0 : ¬ (sel.toInt < 0 ∨ len.toInt < 0) := by omega
  rw [run_bind, run_step_on env hie s htr hon]
  rw [run_doOn _ (σ.push (.ret R)) lenV selV len sel (by simpa using hst) hsel hlen]
  rw [if_neg hsel0, if_pos hfall]
  simp only [asStep]
  rw [run_step_return env hie _ (by simpa using htr) (by simpa using hret)]
  rw [gosub_return_balanced _ σ R (by simp)]
  simp [asStep]

/-! ### non-vacuity -/

def exRt (st : Array Val) : Runtime := { stack := st }

example : ((doOn.run).run (exRt #[.int 9, .int 3, .int 5])).2.stack = #[.int 9] := by decide
example : ((doOn.run).run (exRt #[.int 9, .int 3, .int 5])).2.pc = 3 := by decide
example : ((doOn.run).run (exRt #[.int 9, .int 3, .int 2])).2.pc = 1 := by decide
example : ((doReturn.run).run (exRt #[.int 9, .ret 7])).2.stack = #[.int 9] := by decide
example : ((doReturn.run).run (exRt #[.int 9, .ret 7])).2.pc = 7 := by decide
example : ((doReturn.run).run (exRt #[.int 9, .ret 7, .int 4])).2.stack = #[.int 9, .int 4] := by decide
example : ((doReturn.run).run (exRt #[.ret 7, .int 1, .int 1, .str ['I'], .nxt 3])).2.stack = #[] := by decide
example : ((doReturn.run).run (exRt #[.int 9])).1 = .error (Error.mk' Code.returnWithoutGosub) := by decide
example : (({ ops := Array.replicate 65535 .end } : Link).push .end).2 = .error opsOverflow := by
  simp [Link.push, Gen.stackMaxLen]
example : (({ ops := #[.end] } : Link).push .end).2 = .ok () := by decide

/-- pool limits re-extracted from stack.rs and var.rs; `Gen/Limits.lean` is regenerated from /repo/src on every run, so editing one of these
    constants in the Rust source breaks this obligation -/
theorem generated_limits_documented : Gen.stackMaxLen = 65535 ∧ Gen.stackFullMargin = 32 ∧ Gen.varMaxLen = 65535 := by decide


/-! ### expressions and LET -/

section expressions
open Basic.Spec Basic.Lemmas.ExprCompile

/-- a successfully evaluated expression of the fragment grows the stack by exactly one value — its
    value —, whatever was on the stack stays below it (code `flat e` at `s.pc`, trace off, room for
    `(flat e).length` values) -/
theorem expr_pushes_one (env : Env) (hie : Bool) {e : Expr} (hp : Pure e) (s : Runtime)
    (hcode : CodeAt s.program.link.ops s.pc (flat e)) (htr : s.tron = false)
    (hroom : s.stack.size + (flat e).length ≤ 65535) (v : Val) (hv : eval s.vars e = .ok v) :
    (runOps env hie (flat e) s).2.stack = s.stack.push v ∧
    (runOps env hie (flat e) s).2.stack.size = s.stack.size + 1 ∧
    (runOps env hie (flat e) s).2.pc = s.pc + (flat e).length := by
  have h := ((flat_correct env hie hp s hcode htr hroom).1 v hv).1
  rw [h]
  exact ⟨rfl, Array.size_push _, rfl⟩

/-- `LET v = e` (scalar `v` that is not a zero-argument built-in, `e` in the fragment) compiles to one
    statement fragment, `flat e ++ [pop v]`; wherever that code lies in the code segment of `s`
    (trace off, room on the stack), if `e` evaluates and the store succeeds, running it ends with the
    variable stored, `pc` past the code and the stack exactly as it was found -/
theorem let_stack_neutral (env : Env) (hie : Bool) {e : Expr} (hp : Pure e) (c cv : Col) (i : TIdent)
    (hz : isZeroArg i.name = false) (vs : Codegen.VState) (hlen : (flat e).length + 1 ≤ 65535) :
    ∃ (col : Col) (frag : Link),
      (Codegen.acceptStmt (.let c (.unary cv i) e) vs).g.stmt = vs.g.stmt.push (col, frag) ∧
      (Codegen.acceptStmt (.let c (.unary cv i) e) vs).errors = vs.errors ∧
      frag.ops = (flat e ++ [Opcode.pop i.name]).toArray ∧
      ∀ (s : Runtime), CodeAt s.program.link.ops s.pc frag.ops.toList → s.tron = false →
        s.stack.size + frag.ops.size ≤ 65535 →
        ∀ (v : Val) (vars' : Var), eval s.vars e = .ok v → s.vars.store i.name v = .ok vars' →
          runOps env hie frag.ops.toList s =
            (.ok .continue, { s with pc := s.pc + frag.ops.size, vars := vars' }) ∧
          (runOps env hie frag.ops.toList s).2.stack = s.stack := by
  obtain ⟨col, frag, h1, h2, h3, h4⟩ := compileLet_correct env hie hp c cv i hz vs hlen
  refine ⟨col, frag, h1, h2, h3, ?_⟩
  intro s hcode htr hroom v vars' hv hst
  have h := h4 s hcode htr hroom v vars' hv hst
  exact ⟨h, by rw [h]⟩

/-! non-vacuity: `LET B% = 1 + 2 * A%` -/

/-- `1 + 2 * A%` -/
def exTree : Expr :=
  .bin .add (9, 18) (.integer (9, 10) 1)
    (.bin .multiply (13, 18) (.integer (13, 14) 2) (.var (.unary (17, 18) (.integer "A%".toList))))

def exLetCode : List Opcode := flat exTree ++ [Opcode.pop "B%".toList]

def exEnv : Env := { lex := fun _ => default, lineRenum := fun _ l => l }

/-- the code of the statement at address 1, two values on the stack, `A% = 20` -/
def exLetRt : Runtime :=
  { program := { link := { ops := #[.end] ++ exLetCode.toArray ++ #[.end] } },
    pc := 1, stack := #[.int 7, .ret 3], vars := { vars := [("A%".toList, .int 20)] } }

example : Pure exTree ∧ isZeroArg "B%".toList = false := by decide
example : eval exLetRt.vars exTree = .ok (.int 41) := by decide
example : CodeAt exLetRt.program.link.ops exLetRt.pc exLetCode ∧ exLetRt.tron = false ∧
    exLetRt.stack.size + exLetCode.length ≤ 65535 := by decide
example : ∃ col, Codegen.acceptStmt (.let (0, 18) (.unary (4, 6) (.integer "B%".toList)) exTree) {} =
    { g := { stmt := #[(col, { ops := exLetCode.toArray })] } } :=
  let_codegen_shape (by decide) _ _ _ (by decide) {} (by decide)
example : (runOps exEnv false (flat exTree) exLetRt).2.stack = #[.int 7, .ret 3, .int 41] := by decide
example : (runOps exEnv false exLetCode exLetRt).2.stack = #[.int 7, .ret 3] := by decide
example : (runOps exEnv false exLetCode exLetRt).2.vars.vars = [("B%".toList, .int 41), ("A%".toList, .int 20)] := by
  decide
example : (runOps exEnv false exLetCode exLetRt).2.pc = 7 := by decide

end expressions

end Thm.C18
end Basic
