import BasicModel.Thm.C20
import BasicModel.Lemmas.Layout
/-
  C20 — whole-program layout invariance (the `layout_invariance` target of `Thm/C20.lean`).

  This file sits in the second lemma chain (`BasicModelRt.lean`): the runtime part reuses
  `Runtime.Sim` of `Lemmas/Sim.lean`.  Proofs are in `Lemmas/Layout.lean`.

  Summary of what is true in the model:
  * a code-less line (`REM …`, `' …`, blank, only `:`) compiles to one symbol-table entry — its
    number ↦ (end of code so far, end of data so far) — and nothing else;
  * inserted *before a further line* it leaves the compiled program identical except for that
    entry, whose address is the address of the following line's code; `lineNumberFor` is the same
    function, so error reports and TRON output are unchanged too (`layout_invariance`,
    `layout_invariance_step`, `layout_invariance_slice`);
  * *appended after the last line* it forces an `End` behind the code (its entry is a symbol at
    the very end of the code).  If the linker pushes that `End` anyway — the code does not end with
    `END`, or some symbol already sits at the end of the code: a code-less last line, or (since
    fix D20) a local label such as the ELSE target of a trailing `IF … THEN END` — the code is
    identical (`layout_invariance_append`).  Otherwise — code ending in `END` and nothing can
    branch behind it, e.g. `10 END` — there is one more `End` and `directAddress` is one later
    (`layout_invariance_append_D16`); that `End` is unreachable in the old program's terms, so
    only addresses of the direct segment move.  In both cases the final `End` now belongs to the
    appended line (`appended_line_owns_final_end`): with TRON a program that runs into it traces
    the appended line's number.  This is the one observable difference.
  * (fix D20) every address a reference of the listing can resolve to — line or local label — lies
    strictly below `directAddress` (`branch_targets_inside_program`): no branch can fall into
    the direct line's code.
-/
namespace Basic
namespace Thm.C20
open Link Program

/-! ### layout invariance -/

/-! #### 1. a code-less line adds no code and moves nothing -/

/-- a remark line (`REM …` / `' …`, whitespace in front allowed) compiles to nothing: it parses to
    the empty statement list, and generating that leaves any link unchanged -/
theorem rem_line_codeless (line : Line) (h : Parse.RemTokens line.tokens) : CodeLess line :=
  codeLess_of_rem line h

/-- … and so does every line on which the parser sees no token (blank, whitespace only) -/
theorem blank_line_codeless (line : Line) (h : Parse.Blank line.tokens) : CodeLess line :=
  codeLess_of_blank line h

/-- compiling a code-less line `n` into any program: one entry `n ↦ (|ops|, |data|)`; `ops`, `data`,
    `unlinked`, `whiles`, the label counter and the errors are untouched -/
theorem codeless_line_adds_only_its_entry (p : Program) (r : Line) (n : Nat) (hn : r.number = some n)
    (hc : CodeLess r) :
    p.codegenLine r = { p.withSym (n : Int) (p.link.ops.size, p.link.data.size) with lineNumber := some n } :=
  codegenLine_codeLess p r n hn hc

/-- **layout_invariance** (insertion before a further line).  `pre ++ r :: post` is an ascending
    listing, `r` code-less, `post` not empty, and the program without `r` has no pending reference
    to `r`'s number (`NoRef`; see `noRef_of_clean`).  Then the compiled and linked programs are
    equal except that the symbol table has the additional entry of `r`, and every code address
    belongs to the same line in both. -/
theorem layout_invariance (pre post : List Line) (r : Line) (rn : Nat) (hl : Listed (pre ++ r :: post))
    (hr : r.number = some rn) (hc : CodeLess r) (hne : post ≠ []) (href : NoRef rn (pre ++ post)) :
    compile (pre ++ r :: post) = (compile (pre ++ post)).withSym (rn : Int) (endOf pre) ∧
    ∀ a, (compile (pre ++ r :: post)).link.lineNumberFor a = (compile (pre ++ post)).link.lineNumberFor a :=
  compile_insert_mid pre post r rn hl hr hc hne href

/-- field by field: same code, same data, same diagnostics, same start of the direct segment; every
    symbol other than `rn` has its old entry -/
theorem layout_invariance_fields (pre post : List Line) (r : Line) (rn : Nat) (hl : Listed (pre ++ r :: post))
    (hr : r.number = some rn) (hc : CodeLess r) (hne : post ≠ []) (href : NoRef rn (pre ++ post)) :
    (compile (pre ++ r :: post)).link.ops = (compile (pre ++ post)).link.ops ∧
    (compile (pre ++ r :: post)).link.data = (compile (pre ++ post)).link.data ∧
    (compile (pre ++ r :: post)).indirectErrors = (compile (pre ++ post)).indirectErrors ∧
    (compile (pre ++ r :: post)).errors = (compile (pre ++ post)).errors ∧
    (compile (pre ++ r :: post)).directAddress = (compile (pre ++ post)).directAddress ∧
    (∀ x : Symbol, (compile (pre ++ r :: post)).link.symbols.lookup x =
      if x = (rn : Int) then some (endOf pre) else (compile (pre ++ post)).link.symbols.lookup x) := by
  rw [(layout_invariance pre post r rn hl hr hc hne href).1]
  exact ⟨rfl, rfl, rfl, rfl, rfl, fun x => symInsert_lookup _ _ _ x⟩

/-- the entry of the inserted line carries the address of the code of the line that follows -/
theorem inserted_line_points_to_next (pre tl : List Line) (r hd : Line) (rn m : Nat)
    (hl : Listed (pre ++ r :: hd :: tl)) (hr : r.number = some rn) (hc : CodeLess r) (hm : hd.number = some m)
    (href : NoRef rn (pre ++ hd :: tl)) :
    (compile (pre ++ r :: hd :: tl)).link.symbols.lookup (rn : Int) =
      (compile (pre ++ r :: hd :: tl)).link.symbols.lookup (m : Int) ∧
    (compile (pre ++ r :: hd :: tl)).link.symbols.lookup (m : Int) =
      (compile (pre ++ hd :: tl)).link.symbols.lookup (m : Int) := by
  obtain ⟨h1, h2, h3⟩ := inserted_entry_address pre tl r hd rn m hl hr hc hm href
  exact ⟨h1.trans h2.symm, h2.trans h3.symm⟩

/-- a listing that compiles without errors has no reference to a number it does not contain, so
    for such listings `NoRef` is no extra hypothesis -/
theorem noRef_of_clean (ls : List Line) (hnum : Numbered ls) (n : Nat) (hn : ∀ l ∈ ls, l.number ≠ some n)
    (h : (compile ls).indirectErrors = []) : NoRef n ls :=
  Program.noRef_of_clean ls hnum n hn h

/-- appending a code-less line, general form: an `End` is forced behind the code, the entry of
    the new line points at it -/
theorem layout_invariance_append_general (pre : List Line) (r : Line) (rn : Nat) (hl : Listed (pre ++ [r]))
    (hr : r.number = some rn) (hc : CodeLess r) (href : NoRef rn pre)
    (hclean : (pushEndP (({} : Program).codegenLines pre)).link.link.2 = []) :
    compile (pre ++ [r]) =
      ((markDirect (resolve (pushEndP (({} : Program).codegenLines pre)))).withSym (rn : Int) (endOf pre)).setLN
        (some rn) :=
  compile_append_codeless pre r rn hl hr hc href hclean

/-- appending a code-less line to an error-free listing whose code does not end with `END`, or has
    a symbol at its very end (`hasLineAtEnd`, since fix D20 any symbol: a code-less last line, or a
    local label as in `10 IF 0 THEN END`): only the entry (and the compile-time field `lineNumber`) -/
theorem layout_invariance_append (pre : List Line) (r : Line) (rn : Nat) (hl : Listed (pre ++ [r]))
    (hr : r.number = some rn) (hc : CodeLess r) (hclean : (compile pre).indirectErrors = [])
    (hE : ¬ ((({} : Program).codegenLines pre).link.ops.back? = some .end ∧
            (({} : Program).codegenLines pre).link.hasLineAtEnd = false)) :
    compile (pre ++ [r]) = ((compile pre).withSym (rn : Int) (endOf pre)).setLN (some rn) :=
  compile_append_codeless_same pre r rn hl hr hc hclean hE

/-- the D16 case: code ending with `END` and no symbol at the end of the code (nothing can branch
    behind the `END`).  One more `End`, `directAddress` one later (`bump`), and the entry -/
theorem layout_invariance_append_D16 (pre : List Line) (r : Line) (rn : Nat) (hl : Listed (pre ++ [r]))
    (hr : r.number = some rn) (hc : CodeLess r) (hclean : (compile pre).indirectErrors = [])
    (hE : (({} : Program).codegenLines pre).link.ops.back? = some .end ∧
            (({} : Program).codegenLines pre).link.hasLineAtEnd = false)
    (hroom : (({} : Program).codegenLines pre).link.ops.size < Gen.stackMaxLen) :
    compile (pre ++ [r]) = ((bump (compile pre)).withSym (rn : Int) (endOf pre)).setLN (some rn) ∧
    (bump (compile pre)).link.ops = (compile pre).link.ops.push .end ∧
    (bump (compile pre)).link.data = (compile pre).link.data ∧
    (bump (compile pre)).directAddress = (compile pre).directAddress + 1 ∧
    (bump (compile pre)).indirectErrors = (compile pre).indirectErrors :=
  ⟨compile_append_codeless_D16 pre r rn hl hr hc hclean hE hroom, rfl, rfl, rfl, rfl⟩

/-- **finding**: after appending, the final `End` (at the end of the listing's code) is attributed
    to the appended line — `lineNumberFor` there is the new number, not the last line with code -/
theorem appended_line_owns_final_end (pre : List Line) (r : Line) (rn : Nat) (hl : Listed (pre ++ [r]))
    (hr : r.number = some rn) (hc : CodeLess r) (href : NoRef rn pre)
    (hclean : (pushEndP (({} : Program).codegenLines pre)).link.link.2 = []) :
    (compile (pre ++ [r])).link.lineNumberFor (endOf pre).1 = some rn ∧
    (compile (pre ++ [r])).link.ops[(endOf pre).1]? = some .end :=
  lineNumberFor_appended pre r rn hl hr hc href hclean

/-! #### 2. execution is identical -/

/-- the two compiled programs cannot be told apart by a running program -/
theorem layout_invariance_progSim (pre post : List Line) (r : Line) (rn : Nat) (hl : Listed (pre ++ r :: post))
    (hr : r.number = some rn) (hc : CodeLess r) (hne : post ≠ []) (href : NoRef rn (pre ++ post)) :
    ProgSim (compile (pre ++ post)) (compile (pre ++ r :: post)) :=
  progSim_insert_mid pre post r rn hl hr hc hne href

/-- … nor can the programs the interpreter holds after a direct line (`runProg`: the listing, the
    direct line, linked — what `enterDirect` builds); the direct lines may differ -/
theorem layout_invariance_progSim_run (pre post : List Line) (r : Line) (rn : Nat)
    (hl : Listed (pre ++ r :: post)) (hr : r.number = some rn) (hc : CodeLess r) (hne : post ≠ [])
    (href : NoRef rn (pre ++ post)) (d d' : Line) (hd : d.number = none) (hd' : d'.number = none) :
    ProgSim (runProg (pre ++ post) d) (runProg (pre ++ r :: post) d') :=
  progSim_run_insert_mid pre post r rn hl hr hc hne href d d' hd hd'

/-- **layout_invariance, running program**: a machine state holding the program of the listing
    and the same state holding the program with the code-less line inserted take the same step —
    same result (continue / event / error, TRON trace included), and the successor states are again
    related by `Runtime.Sim` (equal on everything but the symbol table, which agrees up to
    `lineNumberFor`, and the code above `directAddress`).  `InProg`: `pc` below `directAddress`
    and the instruction is not `CONT`. -/
theorem layout_invariance_step (pre post : List Line) (r : Line) (rn : Nat) (hl : Listed (pre ++ r :: post))
    (hr : r.number = some rn) (hc : CodeLess r) (hne : post ≠ []) (href : NoRef rn (pre ++ post))
    (d d' : Line) (hd : d.number = none) (hd' : d'.number = none)
    (env : Env) (h : Bool) (s : Runtime) (hs : s.program = runProg (pre ++ post) d)
    (hin : Runtime.InProg true s) :
    ((Runtime.step env h).run.run { s with program := runProg (pre ++ r :: post) d' }).1 =
      ((Runtime.step env h).run.run s).1 ∧
    Runtime.Sim true ((Runtime.step env h).run.run s).2
      ((Runtime.step env h).run.run { s with program := runProg (pre ++ r :: post) d' }).2 :=
  Runtime.step_sim env h
    ((layout_invariance_progSim_run pre post r rn hl hr hc hne href d d' hd hd').sim true s hs) hin

/-- … and so do whole slices of `n` instructions, as long as the program stays below
    `directAddress`: same event or error, same number of instructions executed -/
theorem layout_invariance_slice (pre post : List Line) (r : Line) (rn : Nat) (hl : Listed (pre ++ r :: post))
    (hr : r.number = some rn) (hc : CodeLess r) (hne : post ≠ []) (href : NoRef rn (pre ++ post))
    (d d' : Line) (hd : d.number = none) (hd' : d'.number = none)
    (env : Env) (h : Bool) (n : Nat) (s : Runtime) (hs : s.program = runProg (pre ++ post) d)
    (hstay : Runtime.StaysInProg true env h n s) :
    (Runtime.sliceRun env h n { s with program := runProg (pre ++ r :: post) d' }).1 =
      (Runtime.sliceRun env h n s).1 ∧
    (Runtime.sliceRun env h n { s with program := runProg (pre ++ r :: post) d' }).2.2 =
      (Runtime.sliceRun env h n s).2.2 ∧
    Runtime.Sim true (Runtime.sliceRun env h n s).2.1
      (Runtime.sliceRun env h n { s with program := runProg (pre ++ r :: post) d' }).2.1 :=
  Runtime.sliceRun_sim env h n
    ((layout_invariance_progSim_run pre post r rn hl hr hc hne href d d' hd hd').sim true s hs) hstay

/-! #### 2b. branch targets lie inside the program (fix D20) -/

/-- every statement fragment the generator builds keeps its symbol addresses within its code
    (end included); expression fragments have no symbols -/
theorem fragments_symbols_bounded (ast : List Stmt) :
    ∀ x ∈ (Codegen.acceptStmts ast {}).g.stmt.toList, x.2.SymBounded :=
  Codegen.fragments_symBounded ast

/-- **no branch can fall into the direct line's code**: the table with which the linker resolves
    every reference of the listing (`linkOne` patches an operand with `symbols.lookup sym`; the
    table is that of the compile state after `ensureEnd` and does not change during the pass) has
    all its code addresses — line numbers and local labels — strictly below `directAddress` -/
theorem branch_targets_inside_program (ls : List Line) (hnum : Numbered ls) (sym : Symbol) (o d : Nat)
    (h : (ensureEnd (({} : Program).codegenLines ls)).link.symbols.lookup sym = some (o, d)) :
    o < (compile ls).directAddress :=
  resolved_target_below_direct ls hnum sym o d h

/-- in the linked program every line starts strictly below `directAddress`; only the mark of the
    direct segment (key 65530) sits at it -/
theorem line_addresses_inside_program (ls : List Line) (hnum : Numbered ls) (p : Symbol × (Nat × Nat))
    (hp : p ∈ (compile ls).link.symbols) (hk : p.1 ≠ (Gen.maxLineNumber : Int) + 1) :
    p.2.1 < (compile ls).directAddress :=
  line_address_below_direct ls hnum p hp hk

/-! #### 3. empty statements -/

/-- an empty statement (`:` with nothing before it) is not represented in the AST: the statement
    loop consumes the colon and goes on with the same accumulator — so it generates no fragment -/
theorem empty_statement_not_in_ast (fuel : Nat) (ec : Bool) (acc : List Stmt) (s : Parse.PState)
    (ts' : List Token) (rem' : Bool) (cs' ce' : Nat) (hp : s.peeked = none)
    (hn : Parse.nextLoop s.toks s.rem s.cs s.ce = (some .colon, ts', rem', cs', ce')) :
    (Parse.statements (fuel + 1) ec acc).run s =
      (Parse.statements fuel false acc).run { s with toks := ts', rem := rem', cs := cs', ce := ce' } :=
  Parse.statements_colon fuel ec acc s ts' rem' cs' ce' hp hn

/-- `::` is no statement at all, `:END::` is the one statement `END` -/
theorem empty_statement_examples (n : Option Nat) :
    Parse.parse n [.colon, .colon] = .ok [] ∧
    Parse.parse n [.colon, .word .end, .colon, .colon] = .ok [.end (1, 4)] :=
  ⟨Parse.parse_colons n, Parse.parse_colon_end n⟩

/-- a numbered line of empty statements only is code-less -/
example : CodeLess ⟨some 20, [.colon, .colon]⟩ := ⟨[], Parse.parse_colons _, fun _ => rfl⟩

/-! #### 4. non-vacuity

  The kernel cannot evaluate the parser on numerals (`Float32.ofNat` is opaque, and every line
  number operand of GOTO/GOSUB/THEN/… is a `Single` literal), so the concrete programs branch
  through WHILE/WEND (references to local labels, resolved to code addresses by the same linker
  pass) and `END`.  For `10 GOTO 30 / 30 END` vs `10 GOTO 30 / 20 REM / 30 END` the compiled
  model (`#eval`, not kernel-checked) gives `ops=[Jump:1;End]` for both, symbols
  `{10:0/0,30:1/0,65530:2/0}` vs `{10:0/0,20:1/0,30:1/0,65530:2/0}`. -/

def exW : Line := ⟨some 10, [.word .while, .whitespace 1, .ident (.plain ['A'])]⟩
def exR : Line := ⟨some 20, [.word .rem1, .unknown " layout".toList]⟩
def exE : Line := ⟨some 30, [.word .wend]⟩
def exEnd : Line := ⟨some 10, [.word .end]⟩
def exCls : Line := ⟨some 10, [.word .cls]⟩

theorem exR_codeless : CodeLess exR := rem_line_codeless exR (.rem _ _ rfl)

/-- the compile state of `10 WHILE A / 30 WEND` -/
theorem exState : ({} : Program).codegenLines [exW, exE] =
    { lineNumber := some 30,
      link := { currentSymbol := -2, ops := #[.push ['A'], .ifNot 0, .jump 0],
                symbols := [(-2, (3, 0)), (-1, (0, 0)), (10, (0, 0)), (30, (2, 0))],
                whiles := [(true, (0, 5), 1, -1), (false, (0, 4), 2, -2)] } } := by
  unfold codegenLines
  simp only [List.foldl_cons, List.foldl_nil, exW, exE, codegenLine_of_parse _ _ _ _ (Parse.parse_while_a _),
    codegenLine_of_parse _ _ _ _ (Parse.parse_wend _)]
  decide +kernel

/-- the end of the code and data of `10 WHILE A` -/
theorem exEndOf : endOf [exW] = (2, 0) := by
  unfold endOf codegenLines
  simp only [List.foldl_cons, List.foldl_nil, exW, codegenLine_of_parse _ _ _ _ (Parse.parse_while_a _)]
  decide +kernel

theorem exNoRef : NoRef 20 [exW, exE] := by
  unfold NoRef
  rw [exState]
  decide +kernel

theorem exListed : Listed ([exW] ++ exR :: [exE]) := listed_of_check _ (by decide)

/-- `10 WHILE A / 20 REM layout / 30 WEND` compiles to the program of `10 WHILE A / 30 WEND` plus
    the entry `20 ↦ (2, 0)` — the hypotheses of `layout_invariance` are satisfiable -/
example : compile [exW, exR, exE] = (compile [exW, exE]).withSym 20 (endOf [exW]) :=
  (layout_invariance [exW] [exE] exR 20 exListed rfl exR_codeless (List.cons_ne_nil _ _) exNoRef).1

/-- … and, computed independently: the linked code with both branches resolved, and the tables -/
example : (compile [exW, exE]).link.ops = #[.push ['A'], .ifNot 3, .jump 0, .end] ∧
    (compile [exW, exE]).link.symbols = [(10, (0, 0)), (30, (2, 0)), (65530, (4, 0))] ∧
    (compile [exW, exE]).indirectErrors = [] := by
  unfold compile
  rw [exState]
  decide +kernel

example : (compile [exW, exR, exE]).link.ops = #[.push ['A'], .ifNot 3, .jump 0, .end] ∧
    (compile [exW, exR, exE]).link.symbols = [(10, (0, 0)), (20, (2, 0)), (30, (2, 0)), (65530, (4, 0))] := by
  have h := (layout_invariance [exW] [exE] exR 20 exListed rfl exR_codeless (List.cons_ne_nil _ _) exNoRef).1
  change compile [exW, exR, exE] = (compile [exW, exE]).withSym 20 (endOf [exW]) at h
  rw [h, exEndOf]
  unfold compile
  rw [exState]
  decide +kernel

theorem exEndState : ({} : Program).codegenLines [exEnd] =
    { lineNumber := some 10, link := { ops := #[.end], symbols := [(10, (0, 0))] } } := by
  unfold codegenLines
  simp only [List.foldl_cons, List.foldl_nil, exEnd, codegenLine_of_parse _ _ _ _ (Parse.parse_end _)]
  decide +kernel

theorem exClsState : ({} : Program).codegenLines [exCls] =
    { lineNumber := some 10, link := { ops := #[.cls], symbols := [(10, (0, 0))] } } := by
  unfold codegenLines
  simp only [List.foldl_cons, List.foldl_nil, exCls, codegenLine_of_parse _ _ _ _ (Parse.parse_cls _)]
  decide +kernel

/-- D16: `10 END` compiles to `#[End]`; `10 END / 20 REM` to `#[End, End]`, direct segment at 2 -/
example : compile [exEnd, exR] = ((bump (compile [exEnd])).withSym 20 (endOf [exEnd])).setLN (some 20) :=
  (layout_invariance_append_D16 [exEnd] exR 20 (listed_of_check _ (by decide)) rfl exR_codeless
    (by unfold compile; rw [exEndState]; decide +kernel)
    (by rw [exEndState]; decide +kernel)
    (by rw [exEndState]; decide +kernel)).1

example : (compile [exEnd]).link.ops = #[.end] ∧ (compile [exEnd]).directAddress = 1 := by
  unfold compile; rw [exEndState]; decide +kernel

example : (bump (compile [exEnd])).link.ops = #[.end, .end] ∧ (bump (compile [exEnd])).directAddress = 2 := by
  unfold compile; rw [exEndState]; decide +kernel

/-- no D16 `End` for `10 CLS` + `20 REM`: same code `#[Cls, End]` … -/
example : compile [exCls, exR] = ((compile [exCls]).withSym 20 (endOf [exCls])).setLN (some 20) :=
  layout_invariance_append [exCls] exR 20 (listed_of_check _ (by decide)) rfl exR_codeless
    (by unfold compile; rw [exClsState]; decide +kernel)
    (by rw [exClsState]; decide +kernel)

/-- … but the final `End` (address 1) changes its line from 10 to 20: the TRON-visible difference -/
example : (compile [exCls]).link.lineNumberFor 1 = some 10 ∧ (compile [exCls]).link.ops[1]? = some .end := by
  unfold compile; rw [exClsState]; decide +kernel

example : (compile [exCls, exR]).link.lineNumberFor 1 = some 20 ∧ (compile [exCls, exR]).link.ops[1]? = some .end := by
  have h := appended_line_owns_final_end [exCls] exR 20 (listed_of_check _ (by decide)) rfl exR_codeless
    (by unfold NoRef; rw [exClsState]; decide +kernel)
    (by rw [exClsState]; decide +kernel)
  have e : (endOf [exCls]).1 = 1 := by unfold endOf; rw [exClsState]; rfl
  rw [e] at h
  exact h

/-! fix D20: `10 IF 0 THEN END` — the ELSE label sits at the end of the code, so the closing `End`
    is there without any REM, and appending `20 REM` no longer changes the code -/

def exIf : Line := ⟨some 10, [.word .if, .whitespace 1, .literal (.integer ['0']), .whitespace 1, .word .then,
      .whitespace 1, .word .end]⟩

theorem exIfState : ({} : Program).codegenLines [exIf] =
    { lineNumber := some 10,
      link := { currentSymbol := -1, ops := #[.literal (.int 0), .ifNot 0, .end],
                symbols := [(-1, (3, 0)), (10, (0, 0))], unlinked := [(1, ((0, 2), -1))] } } := by
  unfold codegenLines
  simp only [List.foldl_cons, List.foldl_nil, exIf, codegenLine_of_parse _ _ _ _ (Parse.parse_if0_end _)]
  decide +kernel

/-- the label `-1` is at address 3 = end of the code: `hasLineAtEnd`, although no *line* is -/
example : (({} : Program).codegenLines [exIf]).link.hasLineAtEnd = true := by rw [exIfState]; decide +kernel

/-- the closing `End` (address 3, the target of the `IfNot`) is present; `directAddress = 4` -/
example : (compile [exIf]).link.ops = #[.literal (.int 0), .ifNot 3, .end, .end] ∧
    (compile [exIf]).directAddress = 4 ∧ (compile [exIf]).indirectErrors = [] := by
  unfold compile; rw [exIfState]; decide +kernel

/-- … so appending `20 REM` changes only the table (not the D16 case any more) -/
example : compile [exIf, exR] = ((compile [exIf]).withSym 20 (endOf [exIf])).setLN (some 20) :=
  layout_invariance_append [exIf] exR 20 (listed_of_check _ (by decide)) rfl exR_codeless
    (by unfold compile; rw [exIfState]; decide +kernel)
    (by rw [exIfState]; decide +kernel)

/-- `branch_targets_inside_program` on the example: the ELSE label resolves to 3 < 4 -/
example : (ensureEnd (({} : Program).codegenLines [exIf])).link.symbols.lookup (-1) = some (3, 0) := by
  rw [exIfState]; decide +kernel

end Thm.C20
end Basic
