import BasicModel.Thm.C03
import BasicModel.Lemmas.NoFaultSession
import BasicModel.Lemmas.RangeCodegen
/-
  C03 (continued) — no reachable state and no event carries a fault.

  In the model a Rust panic is the error code `Code.fault` (`Error.isFault`).  The places where the
  model can produce it at all are, after the repairs D21 and D22 below:
  (i)   `Parse.outOfFuel` (Model/Parse.lean) — the recursion depth of the parser.  PROVED
        UNREACHABLE: the fuel `6 * tokens + 20` covers every token list (`parser_never_faults`).
  (ii)  `Listing.removeRangeR` / `listLineR` (Model/Listing.lean) — `BTreeMap::range` with an
        inverted range.  NOT CALLED by `Model/Runtime.lean`, which uses the total `removeRange` /
        `listLine`; they agree on every range that is not inverted (`rangeR_total_of_not_inverted`),
        the parser only produces ordered ranges (`parsed_range_ordered`), the code of a parsed
        LIST / DELETE hands exactly that range over (section 2, under `LineLiteralRoundTrip`), and
        stepping through a listing never inverts it (`listing_continuation_not_inverted`).
  (iii) `Model/Var.lean` — none any more: `Var.tyOf` looks the DEFtype table up with a checked index
        (fix D21), `Var.defTy` refuses a range whose ends are not letters (fix D22).
  No other definition of `Model/` mentions `fault`.

  RESULT (`no_fault_reachable`).  With the model's own lexer and RENUM rewriter, after ANY list of
  API calls (`execute`, `enter`, `interrupt`, `set_listing` with listings of lexed lines): no state
  holds a fault — not as `state = runtimeError e`, not in `cont`, not among the compile-time
  diagnostics of the program or the listing — and no `execute` returns an `errors` event containing
  one.  The runtime part needs nothing about the program or the stack: one instruction never faults,
  from any state (`instruction_never_faults`).  `names_reachable` (every name operand of compiled
  code starts with a letter) remains true and is no longer needed for this.

  Former finding D21 (repaired; `nextframe_no_fault` is its last step now):
      10 DEF FNA(X,Y,Z)=1
      20 FOR I=1 TO 2
      30 A=FNA(1\0,1\0,"hello")
      RUN / CONT / CONT / NEXT   → was: panic in var.rs `types[idx]` (fetch of the variable `hello`)
  CONT after a run-time error resumes behind the failed instruction with the operand stack one
  value short; after two of them `r#fn` re-pushed `"I"`, the `Next` entry and `"hello"` reversed, and
  a bare `NEXT` took `hello` for the loop variable.  Now: TYPE MISMATCH.

  Former finding D22 (repaired; `deftype_no_fault` is its last step now):
      10 X$="}"+("}"+STR$(3+(1\0)))
      20 ON 1\0 GOTO :CLS:DEFINT A-B
      RUN / GOTO 20 / CONT       → was: panic in var.rs `types[idx] = t` (DEFINT "}"-"}")
  CONT resumed at `On` with the stack one value short: `r#on` took its own count literal `0` for the
  selector and a stale `3` for the count, `pc += 3` landed on `Defint` behind its two literals, and
  `Defint` popped two stale strings.  Now: ILLEGAL FUNCTION CALL.
  (The stack discipline itself — CONT after an error, `r#on` trusting the popped count — is
  unchanged; it no longer leads to a panic site.)
-/
namespace Basic
namespace Thm.C03
open Basic.Runtime Basic.Lemmas.ParseNames Basic.Program

/-! ### 1. names

  (a)–(c) say where the names that reach the variable store come from.  Since fix D21 they are no
  longer needed for the absence of faults (`tyOf_never_faults` holds for any name); they remain
  true, and say that a name not starting with a letter never comes from compiled code. -/

/-- (a) the lexer only produces identifier tokens whose text starts with `A`..`Z` -/
theorem lexer_idents_start_with_letter (src : Str) (i : TIdent) (h : Token.ident i ∈ (Lex.lex src).2) :
    Letter1 i.name :=
  Lemmas.LexIdent.lex_ident_letter1 src i h

/-- … also as a `Line` (`Line::new`), and after the RENUM rewriter -/
theorem lexed_line_ok (src : Str) : LineOk (Lex.lineNew src) := lineOk_lineNew src
theorem renumbered_line_ok (ch : List (Nat × Nat)) (l : Line) (h : LineOk l) : LineOk (Lex.lineRenum ch l) :=
  lineOk_lineRenum ch l h

/-- (b) the parser only puts identifier-token texts into `Variable` nodes — plus the `FNname.`
    prefix of a parameter, `TAB` for the print zones and the empty dummy name of a bare `NEXT`:
    every name in the AST is empty or starts with a letter, every array name starts with a letter -/
theorem parser_names_from_tokens (ln : Option Nat) (ts : List Token) (h : ToksOk ts) (ast : List Stmt)
    (hp : Parse.parse ln ts = .ok ast) : StmtsOk ast :=
  parse_stmtsOk ln ts h ast hp

/-- (c) the code generator only emits name operands taken from those nodes -/
theorem codegen_names_from_ast (link : Link) (ast : List Stmt) (h : StmtsOk ast) (hl : OpsOk link.ops) :
    OpsOk (Codegen.codegen link ast).1.ops :=
  Codegen.codegen_linkOk link ast h hl

/-- hence: in a program compiled from ANY listing lexed by the model's lexer, every name operand
    is empty or starts with a letter, and every array name starts with a letter -/
theorem compiled_names_ok (texts : List Str) :
    OpsOk (Program.compile (texts.map Lex.lineNew)).link.ops :=
  compile_progOk _ (fun l hl => by
    obtain ⟨src, _, rfl⟩ := List.mem_map.1 hl
    exact lexed_line_ok src)

/-- … and with ANY direct line on top of it -/
theorem compiled_direct_names_ok (texts : List Str) (direct : Str) :
    OpsOk ((((({} : Program).codegenLines (texts.map Lex.lineNew)).codegenLine (Lex.lineNew direct)).linkProg).link.ops) :=
  ((ProgOk.empty.codegenLines (fun l hl => by
    obtain ⟨src, _, rfl⟩ := List.mem_map.1 hl
    exact lexed_line_ok src)).codegenLine (lexed_line_ok direct)).linkProg

/-- the type table is looked up with a checked index (fix D21): `tyOf` — hence `fetch`, `store`
    and the array operations — never faults, for ANY name -/
theorem tyOf_never_faults (v : Var) (name : Str) (e : Error) (he : v.tyOf name = .error e) :
    e.isFault = false :=
  (Var.nfe_tyOf v name).out e he

theorem fetch_store_never_fault (v : Var) (name : Str) (x : Val) :
    (∀ e, v.fetch name = .error e → e.isFault = false) ∧ (∀ e, v.store name x = .error e → e.isFault = false) :=
  ⟨(Var.nfe_fetch v name).out, (Var.nfe_store v name x).out⟩

theorem array_ops_never_fault (v : Var) (name : Str) (idx : List Val) (x : Val) :
    (∀ e, (v.fetchArray name idx).2 = .error e → e.isFault = false) ∧
    (∀ e, (v.storeArray name idx x).2 = .error e → e.isFault = false) :=
  ⟨(Var.nfe_fetchArray v name idx).out, (Var.nfe_storeArray v name idx x).out⟩

/-- DEFtype never faults (fix D22): a range whose ends are not letters is ILLEGAL FUNCTION CALL -/
theorem deftype_never_faults (v : Var) (t : VarTy) (frm to : Val) (e : Error)
    (he : v.defTy t frm to = .error e) : e.isFault = false :=
  (Var.nfe_defTy v t frm to).out e he

/-- (d) **one step of the VM never faults**: from ANY state — any program, any stack -/
theorem step_never_faults (env : Env) (hie : Bool) (s : Runtime) (e : Error)
    (he : ((step env hie).run.run s).1 = .error e) : e.isFault = false :=
  step_no_fault env hie s e he

/-- no instruction ever faults: any operands, any state -/
theorem instruction_never_faults (env : Env) (hie : Bool) (op : Opcode) (s : Runtime) (e : Error)
    (he : ((execOp env hie op).run.run s).1 = .error e) : e.isFault = false :=
  (execOp_nfm env hie op).out s e he

/-- a slice of `n` instructions never faults -/
theorem slice_never_faults (env : Env) (n : Nat) (s : Runtime) (e : Error)
    (he : ((executeLoop env n).run.run s).1 = .error e) : e.isFault = false :=
  executeLoop_no_fault env n s e he

/-- the result of an `RM` run is a fault -/
def faults {α : Type} (r : Except Error α × Runtime) : Bool :=
  match r.1 with
  | .error e => e.isFault
  | .ok _ => false

/-- the error code of an `RM` run -/
def errorCode {α : Type} (r : Except Error α × Runtime) : Option Nat :=
  match r.1 with
  | .error e => some e.code
  | .ok _ => none

/-- former finding D21: a non-name string under a `Next` entry.  Since the fix the bare `NEXT`
    reads the default value Single 0 for `hello`; adding the "step" found under it (here the
    `Return` entry) is a TYPE MISMATCH — a BASIC error, no fault -/
def nextFrameState : Runtime :=
  { program := { link := { ops := #[.next []] } }, pc := 0,
    stack := #[.int 2, .int 1, .str "I".toList, .ret 7, .str "hello".toList, .nxt 5] }

theorem nextframe_no_fault :
    faults ((step env0 false).run.run nextFrameState) = false ∧
    errorCode ((step env0 false).run.run nextFrameState) = some Code.typeMismatch := by
  decide

/-- former finding D22: `DEFINT` reached behind its two literals, with two stale strings on top of
    the stack.  Since the fix: ILLEGAL FUNCTION CALL, no fault, and the type table is untouched -/
def defTypeState : Runtime :=
  { program := { link := { ops := #[.cls, .literal (.str "A".toList), .literal (.str "B".toList), .defint] } },
    pc := 3, stack := #[.str "}".toList, .str "}".toList] }

theorem deftype_no_fault :
    faults ((step env0 false).run.run defTypeState) = false ∧
    errorCode ((step env0 false).run.run defTypeState) = some Code.illegalFunctionCall ∧
    ((step env0 false).run.run defTypeState).2.vars.typeLetters = defTypeState.vars.typeLetters := by
  decide

/-- … while the same instruction reached in sequence, after its two literals, runs: A and B become
    Integer -/
example : faults ((step env0 false).run.run
      { defTypeState with stack := #[.str "A".toList, .str "B".toList] }) = false ∧
    (((step env0 false).run.run
      { defTypeState with stack := #[.str "A".toList, .str "B".toList] }).2.vars.typeLetters.take 3) =
      "IIS".toList := by decide

/-! ### 2. ranges

  The runtime model calls the total `Listing.removeRange` / `listLine`; the real code panics in
  `BTreeMap::range` exactly when `Listing.rangeFaults` (a rooted map and an inverted range).  What
  is shown: the range a parsed LIST / DELETE statement hands over is not inverted.  The operands
  travel as Single literals through the generator and the stack; `LineLiteralRoundTrip` (a line
  literal converts back to its number) is the one fact the kernel cannot compute, because
  `Float32.ofNat` is opaque; it is a hypothesis here and is validated by the differential tests. -/

/-- the parser (`expect_line_number_range`) only returns ordered pairs of line literals -/
theorem parsed_range_ordered (st st' : Parse.PState) (a b : Expr)
    (h : Parse.lineNumberRange.run st = .ok ((a, b), st')) :
    ∃ ca cb m n, (a, b) = (Parse.lineExpr ca m, Parse.lineExpr cb n) ∧ m ≤ n ∧ n ≤ maxLineNumber :=
  Parse.lineNumberRange_ordered.out st (a, b) st' h

/-- the code generated for such a statement is `literal m, literal n, list|delete` -/
theorem range_code_generated (hrt : LineLiteralRoundTrip) (isList : Bool) (c ca cb : Col) (m n : Nat)
    (hm : m ≤ maxLineNumber) (hn : n ≤ maxLineNumber) (s : Codegen.VState) :
    (Codegen.acceptStmt (if isList then .list c (Parse.lineExpr ca m) (Parse.lineExpr cb n)
                 else .delete c (Parse.lineExpr ca m) (Parse.lineExpr cb n)) s) =
      { s with g := { s.g with stmt := s.g.stmt.push ((c.1, cb.2),
          { ops := #[Codegen.lineLit m, Codegen.lineLit n, if isList then .list else .delete] }) } } :=
  Codegen.range_fragment hrt isList c ca cb m n hm hn s

/-- executed in sequence, the three instructions of `LIST m-n` enter the listing state
    `(some m, some n)`, which is not inverted -/
theorem list_range_not_inverted (hrt : LineLiteralRoundTrip) (m n : Nat) (hmn : m ≤ n) (hn : n ≤ maxLineNumber)
    (s : Runtime) (hsz : s.stack.size + 2 ≤ Gen.stackMaxLen) :
    (do push (.sng (F.b32 (Float32.ofNat m))); push (.sng (F.b32 (Float32.ofNat n))); doList : RM Unit).run.run s =
      (.ok (), { s with state := .listing (some m) (some n) }) ∧
    Listing.inverted (some m) (some n) = false :=
  list_code_range hrt m n hmn hn s hsz

/-- … those of `DELETE m-n` remove exactly the range `(some m, some n)` -/
theorem delete_range_not_inverted (hrt : LineLiteralRoundTrip) (m n : Nat) (hmn : m ≤ n) (hn : n ≤ maxLineNumber)
    (s : Runtime) (hsz : s.stack.size + 2 ≤ Gen.stackMaxLen) :
    ((do push (.sng (F.b32 (Float32.ofNat m))); push (.sng (F.b32 (Float32.ofNat n))); doDelete : RM Event).run.run s).2.listing =
      (s.listing.removeRange (some m) (some n)).1 ∧
    Listing.inverted (some m) (some n) = false :=
  delete_code_range hrt m n hmn hn s hsz

/-- while a listing is being printed the continuation range is never inverted -/
theorem listing_continuation_not_inverted (l : Listing) (lo hi : Option Nat) (x : Str × List (Nat × Nat))
    (r : Option Nat × Option Nat) (h : l.listLine lo hi = some (x, r)) : Listing.inverted r.1 r.2 = false :=
  Listing.listLine_next_not_inverted l lo hi x r h

/-- on a range that is not inverted the panicking variants agree with the total functions the
    runtime model calls -/
theorem rangeR_total_of_not_inverted (l : Listing) (lo hi : Option Nat) (h : Listing.inverted lo hi = false) :
    l.removeRangeR lo hi = .ok (l.removeRange lo hi) ∧ l.listLineR lo hi = .ok (l.listLine lo hi) := by
  have : l.rangeFaults lo hi = false := by unfold Listing.rangeFaults; rw [h, Bool.and_false]
  unfold Listing.removeRangeR Listing.listLineR
  rw [this]
  exact ⟨rfl, rfl⟩

/-! ### 3. the parser's recursion fuel -/

/-- `Parse.parse` never returns the fuel fault: the fuel `6 * tokens + 20` covers every token list -/
theorem parser_never_faults (ln : Option Nat) (ts : List Token) (e : Error) (h : Parse.parse ln ts = .error e) :
    e.isFault = false :=
  Lemmas.ParseNoFault.parse_never_faults ln ts e h

/-- … and no other compile-time diagnostic is a fault either -/
theorem compile_errors_never_fault (p : Program) (h : PErrOk p) (lines : List Line) (line : Line) :
    PErrOk ((p.codegenLines lines).codegenLine line).linkProg :=
  ((h.codegenLines lines).codegenLine line).linkProg

/-! ### 4. the headline -/

/-- the listings handed to `set_listing` hold lexed lines and non-fault diagnostics -/
def Call.inputOk : Call → Prop
  | .setListing l _ => ListingOk l ∧ LErrOk l
  | _ => True

/-- the states after each call of a history, with the event of each `execute` -/
def trace (env : Env) : List Call → Runtime → List (Runtime × Option Event)
  | [], _ => []
  | .execute n :: cs, s => ((execute env s n).1, some (execute env s n).2) :: trace env cs (execute env s n).1
  | c :: cs, s => (Call.apply env s c, none) :: trace env cs (Call.apply env s c)

/-- nothing in the state is a fault: not `state` / `cont`, not a compile-time diagnostic of the
    program or of the listing (these are all the places of a `Runtime` that hold an `Error`) -/
def StateFaultFree (s : Runtime) : Prop :=
  (∀ e, s.state = .runtimeError e → e.isFault = false) ∧
  (∀ e, s.cont = .runtimeError e → e.isFault = false) ∧
  (∀ e ∈ s.program.errors ++ s.program.indirectErrors, e.isFault = false) ∧
  (∀ e ∈ s.listing.directErrors ++ s.listing.indirectErrors, e.isFault = false)

/-- no error carried by the event is a fault (only `errors` events carry any) -/
def EventFaultFree : Event → Prop
  | .errors es => ∀ e ∈ es, e.isFault = false
  | _ => True

theorem trace_ninv (env : Env) (henv : EnvOk env) (calls : List Call)
    (hin : ∀ c ∈ calls, c.inputOk) (s : Runtime) (hi : NInv s) :
    ∀ x ∈ trace env calls s, NInv x.1 ∧ ∀ ev, x.2 = some ev → EventOk ev := by
  induction calls generalizing s with
  | nil => intro x hx; cases hx
  | cons c cs ih =>
    have hcs : ∀ c ∈ cs, c.inputOk := fun c hc => hin c (List.mem_cons_of_mem _ hc)
    cases c with
    | execute n =>
      have h1 : NInv (execute env s n).1 := execute_ninv env henv s n hi
      intro x hx
      rcases List.mem_cons.1 hx with rfl | hx
      · exact ⟨h1, fun ev hev => by cases hev; exact execute_event_ok env henv s n hi⟩
      · exact ih hcs _ h1 x hx
    | enter line =>
      have h1 : NInv (enter env s line) := ninv_enter env henv s line hi
      intro x hx
      rcases List.mem_cons.1 hx with rfl | hx
      · exact ⟨h1, fun ev hev => nomatch hev⟩
      · exact ih hcs _ h1 x hx
    | interrupt =>
      have h1 : NInv (interrupt s) := ninv_interrupt s hi
      intro x hx
      rcases List.mem_cons.1 hx with rfl | hx
      · exact ⟨h1, fun ev hev => nomatch hev⟩
      · exact ih hcs _ h1 x hx
    | setListing l run =>
      have hl : ListingOk l ∧ LErrOk l := hin _ List.mem_cons_self
      have h1 : NInv (setListing env s l run) := ninv_setListing env henv s l run hl.1 hl.2 hi
      intro x hx
      rcases List.mem_cons.1 hx with rfl | hx
      · exact ⟨h1, fun ev hev => nomatch hev⟩
      · exact ih hcs _ h1 x hx

/-- **Names.**  With the model's own lexer and RENUM rewriter, after ANY list of API calls: every
    name operand in program memory is empty or starts with `A`..`Z` (array names start with a
    letter) and every stored line has such identifiers. -/
theorem names_reachable (env : Env) (h1 : env.lex = Lex.lineNew) (h2 : env.lineRenum = Lex.lineRenum)
    (calls : List Call) (hin : ∀ c ∈ calls, c.inputOk) :
    ∀ x ∈ trace env calls {}, OpsOk x.1.program.link.ops ∧ ListingOk x.1.listing := by
  intro x hx
  have := (trace_ninv env (envOk_model env h1 h2) calls hin {} ninv_init x hx).1
  exact ⟨this.prog, this.lst⟩

/-- **No fault is reachable.**  With the model's own lexer and RENUM rewriter, for every list of API
    calls — `execute` with any quantum, `enter` with any text, `interrupt`, `set_listing` with
    listings of lexed lines (`Call.inputOk`) — from `Runtime::default()`: no state of the history
    carries a fault (`StateFaultFree`: `state`, `cont`, the diagnostics of the program and of the
    listing) and no `execute` returns an event that carries one.
    (The only fault sites left in the model are the parser's fuel, proved unreachable, and the
    `…R` variants of `Listing`, which the runtime model does not call: see the header.) -/
theorem no_fault_reachable (env : Env) (h1 : env.lex = Lex.lineNew) (h2 : env.lineRenum = Lex.lineRenum)
    (calls : List Call) (hin : ∀ c ∈ calls, c.inputOk) :
    ∀ x ∈ trace env calls {}, StateFaultFree x.1 ∧ ∀ ev, x.2 = some ev → EventFaultFree ev := by
  intro x hx
  obtain ⟨hi, hev⟩ := trace_ninv env (envOk_model env h1 h2) calls hin {} ninv_init x hx
  obtain ⟨hs1, hs2⟩ := hi.st
  refine ⟨⟨?_, ?_, ?_, ?_⟩, ?_⟩
  · intro e he; rw [he] at hs1; exact hs1
  · intro e he; rw [he] at hs2; exact hs2
  · intro e he
    rcases List.mem_append.1 he with h | h
    · exact hi.perr.1 e h
    · exact hi.perr.2 e h
  · intro e he
    rcases List.mem_append.1 he with h | h
    · exact hi.lerr.1 e h
    · exact hi.lerr.2 e h
  · intro ev he
    have := hev ev he
    cases ev <;> first | trivial | exact this

/-- in particular the final state: `foldl Call.apply` is the last state of the trace -/
theorem no_fault_final (env : Env) (h1 : env.lex = Lex.lineNew) (h2 : env.lineRenum = Lex.lineRenum)
    (calls : List Call) (hin : ∀ c ∈ calls, c.inputOk) :
    StateFaultFree (calls.foldl (Call.apply env) {}) := by
  have key : ∀ (calls : List Call) (s : Runtime), NInv s → (∀ c ∈ calls, c.inputOk) →
      NInv (calls.foldl (Call.apply env) s) := by
    intro calls
    induction calls with
    | nil => intro s h _; exact h
    | cons c cs ih =>
      intro s h hin
      have henv := envOk_model env h1 h2
      apply ih _ _ (fun c hc => hin c (List.mem_cons_of_mem _ hc))
      cases c with
      | execute n => exact execute_ninv env henv s n h
      | enter line => exact ninv_enter env henv s line h
      | interrupt => exact ninv_interrupt s h
      | setListing l run =>
        have hl : ListingOk l ∧ LErrOk l := hin _ List.mem_cons_self
        exact ninv_setListing env henv s l run hl.1 hl.2 h
  have hi := key calls {} ninv_init hin
  obtain ⟨hs1, hs2⟩ := hi.st
  refine ⟨?_, ?_, ?_, ?_⟩
  · intro e he; rw [he] at hs1; exact hs1
  · intro e he; rw [he] at hs2; exact hs2
  · intro e he
    rcases List.mem_append.1 he with h | h
    · exact hi.perr.1 e h
    · exact hi.perr.2 e h
  · intro e he
    rcases List.mem_append.1 he with h | h
    · exact hi.lerr.1 e h
    · exact hi.lerr.2 e h

/-! ### 5. non-vacuity -/

/-- identifiers the lexer really produces -/
example : Token.ident (.plain "X1".toList) ∈ (Lex.lex "10 forx1=a$".toList).2 := by decide +kernel
example : Letter1 "X1".toList ∧ ¬ Letter1 "1X".toList ∧ NameOk [] ∧ ¬ NameOk "hello".toList := by decide
example : OpOk (.popArr "A".toList) ∧ ¬ OpOk (.pushArr []) ∧ OpOk (.next []) ∧ ¬ OpOk (.pop ",1,".toList) := by
  decide

/-- a state about to store into `A%`: the step really runs -/
def storeState : Runtime :=
  { program := { link := { ops := #[.pop "A%".toList] } }, pc := 0, stack := #[.int 7] }
example : ∀ e, ((step env0 false).run.run storeState).1 = .error e → e.isFault = false :=
  step_never_faults env0 false storeState
example : faults ((step env0 false).run.run storeState) = false ∧
    ((step env0 false).run.run storeState).2.vars.vars = [("A%".toList, .int 7)] := by decide

/-- the same store with a name that does not start with a letter: since fix D21 the store is
    refused with INTERNAL ERROR (it used to be the panic of finding D21); a fetch reads Single 0 -/
example : faults ((step env0 false).run.run
      { storeState with program := { link := { ops := #[.pop "hello".toList] } } }) = false ∧
    errorCode ((step env0 false).run.run
      { storeState with program := { link := { ops := #[.pop "hello".toList] } } }) = some Code.internalError := by
  decide
example : ((step env0 false).run.run
      { storeState with program := { link := { ops := #[.push "hello".toList] } }, stack := #[] }).2.stack
    = #[.sng 0] := by decide

/-- a `Next` frame: `NEXT` runs (here the loop ends) -/
def loopState : Runtime :=
  { program := { link := { ops := #[.next []] } }, pc := 0,
    stack := #[.int 2, .int 1, .str "I%".toList, .nxt 5] }
example : faults ((step env0 false).run.run loopState) = false := by decide

/-- the environment of the headline, and a history to which it applies: the banner, a line of
    text, an interrupt, the BREAK report -/
def envM : Env := { lex := Lex.lineNew, lineRenum := Lex.lineRenum }
def exCalls : List Call := [.execute 5, .enter "10 PRINT A$(1);hello".toList, .interrupt, .execute 5]

theorem exCalls_inputOk : ∀ c ∈ exCalls, c.inputOk := by
  intro c hc
  simp only [exCalls, List.mem_cons, List.not_mem_nil, or_false] at hc
  rcases hc with rfl | rfl | rfl | rfl <;> trivial

example : ∀ x ∈ trace envM exCalls {}, OpsOk x.1.program.link.ops ∧ ListingOk x.1.listing :=
  names_reachable envM rfl rfl exCalls exCalls_inputOk

example : ∀ x ∈ trace envM exCalls {}, StateFaultFree x.1 ∧ ∀ ev, x.2 = some ev → EventFaultFree ev :=
  no_fault_reachable envM rfl rfl exCalls exCalls_inputOk

/-- … and the statement is not empty: the last call of `exCalls` reports the BREAK of the
    interrupt as an `errors` event (code 0), which is not a fault -/
example : (trace envM exCalls {}).length = 4 := rfl

/-- ranges: an inverted range is what the real `BTreeMap::range` panics on; an ordered one is not -/
example : Listing.inverted (some 30) (some 10) = true ∧ Listing.inverted (some 10) (some 30) = false ∧
    Listing.inverted none (some 10) = false := by decide
example : ({ source := [(10, ⟨some 10, [.word .end]⟩)], rooted := true } : Listing).rangeFaults (some 30) (some 10)
    = true := by decide

/-- fuel: a fault is what too little fuel gives (so `parser_never_faults` is about `fuelFor`) -/
example : ((Parse.descend 3 [] 0).run { toks := List.replicate 12 .lparen }).toOption.isNone = true := by decide

end Thm.C03
end Basic
