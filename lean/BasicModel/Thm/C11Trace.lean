import BasicModel.Lemmas.Sim
/-
  C11 (continuation, runtime chain) — the TRON trace `[n]` ADVANCES the print column.

  What the model (= `execute_loop` of `runtime.rs`) does: with `tron` set, before fetching the
  instruction at `pc`, the line number `lineNumberFor pc` is compared with the remembered `tr`; if
  they differ `tr` is updated and, when the new value is `some n`, the step ends there with the event
  `Print("[n]")` and `printCol := printCol + len("[n]")` — the column is advanced by the width of
  the text, NOT reset, NOT left alone; the instruction itself is executed by the next step.

  * `trace_step`: the closed form of such a step — text `"[" ++ toString n ++ "]"`, new column
    `old + (2 + number of decimal digits of n)`, nothing else changes but `tr`;
  * `step_trace_or_instruction`: a step yields that outcome exactly under the trace condition;
    every other step is the instruction at `pc` (with `tr` brought up to date);
  * `KeepCol`, `execOp_keepCol`, `column_changes_only_with_print_event`: no instruction other than
    PRINT touches the column, so a step that changes the column returned a `Print` event (the
    trace's or PRINT's); with trace off it is PRINT's.
-/
namespace Basic
namespace Runtime
variable {α β : Type}

/-! ### `KeepCol`: the print column is left alone -/

structure KeepCol (s t : Runtime) : Prop where
  col : t.printCol = s.printCol

instance : FrameRel KeepCol where
  refl _ := ⟨rfl⟩
  trans h1 h2 := ⟨h2.col.trans h1.col⟩

theorem keepCol_doEnd (s : Runtime) : KeepCol s (doEnd s) := by
  unfold doEnd; dsimp only
  split <;> split <;> exact ⟨rfl⟩
macro_rules | `(tactic| frame_rel) => `(tactic| exact keepCol_doEnd _)

theorem kc_push (v : Val) : Frame KeepCol (push v) := by
  constructor; intro s; rw [run_push]; exact ⟨rfl⟩
macro_rules | `(tactic| frame_known) => `(tactic| with_reducible exact FrameFrom.of_frame (kc_push _))

theorem kc_pop : Frame KeepCol pop := by
  constructor; intro s; rw [run_pop]; split
  · exact ⟨rfl⟩
  · exact FrameRel.refl s
macro_rules | `(tactic| frame_known) => `(tactic| with_reducible exact FrameFrom.of_frame kc_pop)

theorem kc_pop2 : Frame KeepCol pop2 := by unfold pop2; frame
macro_rules | `(tactic| frame_known) => `(tactic| with_reducible exact FrameFrom.of_frame kc_pop2)

theorem kc_popN (n : Nat) : Frame KeepCol (popN n) := by unfold popN; frame
macro_rules | `(tactic| frame_known) => `(tactic| with_reducible exact FrameFrom.of_frame (kc_popN _))

theorem kc_popVec : Frame KeepCol popVec := by unfold popVec; frame
macro_rules | `(tactic| frame_known) => `(tactic| with_reducible exact FrameFrom.of_frame kc_popVec)

theorem kc_pop1Push (f : Val → Res Val) : Frame KeepCol (pop1Push f) := by unfold pop1Push; frame
macro_rules | `(tactic| frame_known) => `(tactic| with_reducible exact FrameFrom.of_frame (kc_pop1Push _))

theorem kc_pop2Push (f : Val → Val → Res Val) : Frame KeepCol (pop2Push f) := by unfold pop2Push; frame
macro_rules | `(tactic| frame_known) => `(tactic| with_reducible exact FrameFrom.of_frame (kc_pop2Push _))

theorem kc_doDef (name : Str) : Frame KeepCol (doDef name) := by unfold doDef; frame
macro_rules | `(tactic| frame_known) => `(tactic| with_reducible exact FrameFrom.of_frame (kc_doDef _))

theorem kc_doDefType (f : Var → Val → Val → Res Var) : Frame KeepCol (doDefType f) := by
  unfold doDefType; frame
macro_rules | `(tactic| frame_known) => `(tactic| with_reducible exact FrameFrom.of_frame (kc_doDefType _))

theorem kc_doFn (name : Str) : Frame KeepCol (doFn name) := by unfold doFn; frame
macro_rules | `(tactic| frame_known) => `(tactic| with_reducible exact FrameFrom.of_frame (kc_doFn _))

theorem kc_doLetMid : Frame KeepCol doLetMid := by unfold doLetMid; frame
macro_rules | `(tactic| frame_known) => `(tactic| with_reducible exact FrameFrom.of_frame kc_doLetMid)

theorem kc_doOn : Frame KeepCol doOn := by unfold doOn; frame
macro_rules | `(tactic| frame_known) => `(tactic| with_reducible exact FrameFrom.of_frame kc_doOn)

theorem kc_doSwap : Frame KeepCol doSwap := by unfold doSwap; frame
macro_rules | `(tactic| frame_known) => `(tactic| with_reducible exact FrameFrom.of_frame kc_doSwap)

theorem kc_doRead : Frame KeepCol doRead := by unfold doRead; frame
macro_rules | `(tactic| frame_known) => `(tactic| with_reducible exact FrameFrom.of_frame kc_doRead)

theorem kc_doNext_loop (name : Str) : ∀ fuel, Frame KeepCol (doNext.loop name fuel) := by
  intro fuel
  induction fuel with
  | zero => unfold doNext.loop; frame
  | succ k ih =>
    have ih' : ∀ s₀, FrameFrom KeepCol s₀ (doNext.loop name k) := fun _ => FrameFrom.of_frame ih
    unfold doNext.loop; frame
    all_goals exact ih' _

theorem kc_doNext (name : Str) : Frame KeepCol (doNext name) := by
  have := kc_doNext_loop name
  unfold doNext
  try dsimp only
  apply Frame.of_from; intro _
  apply FrameFrom.rd_seq; intro s
  exact FrameFrom.of_frame (this _)
macro_rules | `(tactic| frame_known) => `(tactic| with_reducible exact FrameFrom.of_frame (kc_doNext _))

theorem kc_doReturn_loop : ∀ fuel rv first, Frame KeepCol (doReturn.loop fuel rv first) := by
  intro fuel
  induction fuel with
  | zero => intro rv first; unfold doReturn.loop; frame
  | succ k ih =>
    intro rv first
    have ih' : ∀ rv first s₀, FrameFrom KeepCol s₀ (doReturn.loop k rv first) :=
      fun _ _ _ => FrameFrom.of_frame (ih _ _)
    unfold doReturn.loop; frame
    all_goals exact ih' _ _ _

theorem kc_doReturn : Frame KeepCol doReturn := by
  have := kc_doReturn_loop
  unfold doReturn
  try dsimp only
  apply Frame.of_from; intro _
  apply FrameFrom.rd_seq; intro s
  exact FrameFrom.of_frame (this _ _ _)
macro_rules | `(tactic| frame_known) => `(tactic| with_reducible exact FrameFrom.of_frame kc_doReturn)

theorem kc_doCont : Frame KeepCol doCont := by unfold doCont; frame
theorem kc_doInput (n : Str) : Frame KeepCol (doInput n) := by unfold doInput; frame
theorem kc_doList : Frame KeepCol doList := by unfold doList; frame
theorem kc_fileOp (mk : Str → Event) (b : Bool) : Frame KeepCol (fileOp mk b) := by unfold fileOp; frame
theorem kc_doDelete : Frame KeepCol doDelete := by unfold doDelete; frame
theorem kc_doRenum (env : Env) : Frame KeepCol (doRenum env) := by unfold doRenum; frame

macro_rules | `(tactic| frame_known) => `(tactic| with_reducible exact FrameFrom.of_frame kc_doCont)
macro_rules | `(tactic| frame_known) => `(tactic| with_reducible exact FrameFrom.of_frame (kc_doInput _))
macro_rules | `(tactic| frame_known) => `(tactic| with_reducible exact FrameFrom.of_frame kc_doList)
macro_rules | `(tactic| frame_known) => `(tactic| with_reducible exact FrameFrom.of_frame (kc_fileOp _ _))
macro_rules | `(tactic| frame_known) => `(tactic| with_reducible exact FrameFrom.of_frame kc_doDelete)
macro_rules | `(tactic| frame_known) => `(tactic| with_reducible exact FrameFrom.of_frame (kc_doRenum _))

set_option maxHeartbeats 2000000 in
/-- **no instruction other than PRINT touches the print column**, whether it succeeds, throws or
    returns an event -/
theorem execOp_keepCol (env : Env) (h : Bool) (op : Opcode) (hop : op ≠ .print) :
    Frame KeepCol (execOp env h op) := by
  cases op <;> first
    | exact absurd rfl hop
    | (simp only [execOp]; frame)

end Runtime

namespace Thm.C11
open Basic.Runtime RStd

/-! ### the text and its width -/

/-- the number of decimal digits of `n` -/
def decimalDigits (n : Nat) : Nat := (Nat.toDigits 10 n).length

theorem natDigits_eq (k : Nat) : natDigits k = Nat.toDigits 10 k := by
  simp [natDigits]

/-- the trace text is `"[" ++ toString n ++ "]"` -/
theorem traceText_eq (n : Nat) : traceText n = ("[" ++ toString n ++ "]").toList := by
  simp [traceText, natDigits]

/-- its width: two brackets and the decimal digits of `n` -/
theorem traceText_length (n : Nat) : (traceText n).length = 2 + decimalDigits n := by
  simp only [traceText, natDigits_eq, decimalDigits, List.length_cons, List.length_append, List.length_nil]
  omega

/-- `decimalDigits` is the usual notion: at most `k` digits iff below `10 ^ k` -/
theorem decimalDigits_le_iff (n k : Nat) (hk : 0 < k) : decimalDigits n ≤ k ↔ n < 10 ^ k :=
  Nat.length_toDigits_le_iff (by decide) hk

theorem decimalDigits_pos (n : Nat) : 0 < decimalDigits n := Nat.length_toDigits_pos

/-- for line numbers (`≤ 65529`) the trace is 3 to 7 characters wide -/
theorem traceText_width_lineNumber (n : Nat) (hn : n ≤ 65529) :
    3 ≤ (traceText n).length ∧ (traceText n).length ≤ 7 := by
  rw [traceText_length]
  have h1 := decimalDigits_pos n
  have h2 : decimalDigits n ≤ 5 := (decimalDigits_le_iff n 5 (by decide)).2 (by omega)
  omega

/-! ### the trace step -/

/-- **a step that traces line `n`**: the event is `Print "[n]"`, the column is ADVANCED by the width
    of that text — `2 +` the number of decimal digits of `n` — and nothing else changes but `tr` -/
theorem trace_step (env : Env) (h : Bool) (s : Runtime) (n : Nat) (ht : s.tron = true)
    (hl : s.program.link.lineNumberFor s.pc = some n) (hne : s.tr ≠ some n) :
    (step env h).run.run s =
      (.ok (.event (.print ("[" ++ toString n ++ "]").toList)),
       { s with tr := some n, printCol := s.printCol + (2 + decimalDigits n) }) := by
  rw [step_run, if_pos ⟨ht, by rw [hl]; exact fun e => hne e.symm⟩, hl]
  dsimp only
  rw [traceText_length, traceText_eq]

/-- the column after a trace step, spelled out: never reset, never unchanged -/
theorem trace_step_column (env : Env) (h : Bool) (s : Runtime) (n : Nat) (ht : s.tron = true)
    (hl : s.program.link.lineNumberFor s.pc = some n) (hne : s.tr ≠ some n) :
    ((step env h).run.run s).2.printCol = s.printCol + 2 + decimalDigits n ∧
    ((step env h).run.run s).2.printCol > s.printCol + 2 := by
  rw [trace_step env h s n ht hl hne]
  have := decimalDigits_pos n
  exact ⟨by show s.printCol + (2 + decimalDigits n) = _; omega,
         by show s.printCol + (2 + decimalDigits n) > _; omega⟩

/-- every step is a trace step (exactly under the trace condition) or the instruction at `pc`,
    executed with `tr` brought up to date -/
theorem step_trace_or_instruction (env : Env) (h : Bool) (s : Runtime) :
    (∃ n, s.tron = true ∧ s.program.link.lineNumberFor s.pc = some n ∧ s.tr ≠ some n ∧
      (step env h).run.run s =
        (.ok (.event (.print ("[" ++ toString n ++ "]").toList)),
         { s with tr := some n, printCol := s.printCol + (2 + decimalDigits n) })) ∨
    (∃ tr, (s.tron = false → tr = s.tr) ∧
      (step env h).run.run s =
        match s.program.link.ops[s.pc]? with
        | none => (.error ((Error.mk' Code.internalError).withMsg "INVALID PC ADDRESS"), { s with tr := tr })
        | some op => (execOp env h op).run.run { s with tr := tr, pc := s.pc + 1 }) := by
  by_cases hc : s.tron = true ∧ s.program.link.lineNumberFor s.pc ≠ s.tr
  · cases hl : s.program.link.lineNumberFor s.pc with
    | none =>
      right
      refine ⟨none, (fun hf => by rw [hc.1] at hf; cases hf), ?_⟩
      rw [step_run, if_pos hc, hl]
      dsimp only
      rw [run_fetchExec]
      rfl
    | some n =>
      left
      have hne : s.tr ≠ some n := fun e => hc.2 (by rw [hl, e])
      exact ⟨n, hc.1, rfl, hne, trace_step env h s n hc.1 hl hne⟩
  · right
    refine ⟨s.tr, (fun _ => rfl), ?_⟩
    rw [step_run, if_neg hc, run_fetchExec]
    rfl

/-! ### nothing else moves the column -/

/-- PRINT either fails before touching anything but the stack, or returns a `Print` event -/
theorem execOp_print_cases (env : Env) (h : Bool) (s : Runtime) :
    ((execOp env h .print).run.run s).2.printCol = s.printCol ∨
    ∃ text, ((execOp env h .print).run.run s).1 = .ok (.event (.print text)) := by
  simp only [execOp, doPrint, run_bind, run_pop]
  cases s.stack.back? with
  | none => exact .inl rfl
  | some v => exact .inr ⟨_, rfl⟩

/-- **a step that changes the print column returned a `Print` event** (trace on or off) -/
theorem column_changes_only_with_print_event (env : Env) (h : Bool) (s : Runtime)
    (hc : ((step env h).run.run s).2.printCol ≠ s.printCol) :
    ∃ text, ((step env h).run.run s).1 = .ok (.event (.print text)) := by
  rcases step_trace_or_instruction env h s with ⟨n, _, _, _, he⟩ | ⟨tr, _, he⟩
  · exact ⟨_, by rw [he]⟩
  · rw [he] at hc ⊢
    cases hq : s.program.link.ops[s.pc]? with
    | none => rw [hq] at hc; exact (hc rfl).elim
    | some op =>
      rw [hq] at hc
      dsimp only at hc ⊢
      by_cases hp : op = .print
      · subst hp
        rcases execOp_print_cases env h { s with tr := tr, pc := s.pc + 1 } with hk | hk
        · exact (hc hk).elim
        · exact hk
      · exact (hc ((execOp_keepCol env h op hp).run _).col).elim

/-- with trace off: unless the instruction at `pc` is PRINT, the step leaves the column alone -/
theorem troff_step_keeps_column (env : Env) (h : Bool) (s : Runtime) (ht : s.tron = false)
    (hop : s.program.link.ops[s.pc]? ≠ some .print) :
    ((step env h).run.run s).2.printCol = s.printCol := by
  rw [step_troff env h s ht, run_fetchExec]
  cases hq : s.program.link.ops[s.pc]? with
  | none => rfl
  | some op =>
    dsimp only
    exact ((execOp_keepCol env h op (fun e => hop (by rw [hq, e]))).run _).col

/-- with trace off a step never emits a trace: if it changed the column, the instruction at `pc`
    was PRINT and the event is its text -/
theorem troff_column_changes_only_by_print (env : Env) (h : Bool) (s : Runtime) (ht : s.tron = false)
    (hc : ((step env h).run.run s).2.printCol ≠ s.printCol) :
    s.program.link.ops[s.pc]? = some .print ∧
    ∃ text, ((step env h).run.run s).1 = .ok (.event (.print text)) := by
  refine ⟨?_, column_changes_only_with_print_event env h s hc⟩
  apply Classical.byContradiction
  intro hop
  exact hc (troff_step_keeps_column env h s ht hop)

/-! ### non-vacuity -/

/-- `10 CLS` compiled by hand: one instruction, line 10 at address 0; tracing on, column 5 -/
def traced : Runtime :=
  { program := { link := { ops := #[.cls, .end], symbols := [(10, (0, 0))] } },
    pc := 0, tron := true, tr := none, printCol := 5, entryAddress := 2, state := .running }

example : traced.tron = true ∧ traced.program.link.lineNumberFor traced.pc = some 10 ∧
    traced.tr ≠ some 10 := by decide

def envT : Env := { lex := fun _ => ⟨none, []⟩, lineRenum := fun _ l => l }

/-- the trace of line 10 from column 5: text `[10]`, column 9 -/
example : (step envT false).run.run traced =
    (.ok (.event (.print ['[', '1', '0', ']'])), { traced with tr := some 10, printCol := 9 }) := by
  rw [trace_step envT false traced 10 (by decide) (by decide) (by decide)]
  rfl

example : decimalDigits 10 = 2 ∧ decimalDigits 65529 = 5 ∧ decimalDigits 0 = 1 := by decide

/-- trace off, a non-PRINT instruction: `troff_step_keeps_column` applies -/
example : ({ traced with tron := false } : Runtime).program.link.ops[({ traced with tron := false } : Runtime).pc]?
    ≠ some .print := by decide

end Thm.C11
end Basic
