import BasicModel.Lemmas.Renum
import BasicModel.Lemmas.RenumListing
/-
  C14 — RENUM rewrites a line (lexer/parser part: `Line::renum`).

  * `lineRenum_number` / `lineRenum_direct`: the line's own number is mapped through `changes`
    (absent ⇒ unchanged; a direct line stays direct) — for lines that parse;
  * `lineRenum_unparsable`: a line that does not parse is returned untouched (number included: this
    is what the code does);
  * `visitStmts_eq`: the replacements the visitor collects are exactly the line-number operands of
    the AST (`operandsStmts`: GOTO, GOSUB, RESTORE n, RUN n, LIST/DELETE bounds, ON … GOTO/GOSUB
    lists, through IF … THEN … ELSE; not the "no line" sentinels, not operands without a column)
    that are keys of `changes`, in visiting order;
  * `lineRenum_no_refs`: no operand is a key ⇒ the tokens are unchanged;
  * `lineRenum_replacements`: otherwise the tokens are the lexing of the printed text with those
    operands replaced, last first, by character positions.
-/
namespace Basic
namespace Thm
namespace C14
open Lex

/-- the line's own number is mapped through `changes`; a number that is not a key stays -/
theorem lineRenum_number (changes : List (Nat × Nat)) (l : Line) (ast : List Stmt)
    (h : Parse.parse l.number l.tokens = .ok ast) :
    (lineRenum changes l).number = l.number.map fun n => (changes.lookup n).getD n := by
  unfold lineRenum
  simp only [h]
  have : (match l.number with
      | some n => (changes.lookup n).or (some n)
      | none => none) = l.number.map fun n => (changes.lookup n).getD n := by
    cases l.number with
    | none => rfl
    | some n => simp only [Option.map_some]; cases changes.lookup n <;> simp
  split <;> exact this

example : (lineRenum [(10, 500), (100, 1000)] ⟨some 10, []⟩).number = some 500 ∧
    (lineRenum [(100, 1000)] ⟨some 10, []⟩).number = some 10 :=
  ⟨lineRenum_number _ ⟨some 10, []⟩ [] (parse_empty _), lineRenum_number _ ⟨some 10, []⟩ [] (parse_empty _)⟩

/-- a direct line stays direct -/
theorem lineRenum_direct (changes : List (Nat × Nat)) (l : Line) (h : l.number = none) :
    (lineRenum changes l).number = none := by
  unfold lineRenum
  simp only [h]
  split
  · rfl
  · split <;> rfl

example : (lineRenum [(100, 1000)] ⟨none, [.word .cls]⟩).number = none := lineRenum_direct _ _ rfl

/-- (sic) a line that does not parse is left alone entirely — tokens AND number -/
theorem lineRenum_unparsable (changes : List (Nat × Nat)) (l : Line) (e : Error)
    (h : Parse.parse l.number l.tokens = .error e) : lineRenum changes l = l := by
  unfold lineRenum
  simp only [h]

example : lineRenum [(1, 500)] ⟨none, [.literal (.integer ['1'])]⟩ = ⟨none, [.literal (.integer ['1'])]⟩ :=
  (parse_number_first none).elim fun e h => lineRenum_unparsable _ _ e h

/-- a line none of whose line-number operands is a key of `changes` keeps its tokens -/
theorem lineRenum_no_refs (changes : List (Nat × Nat)) (l : Line) (ast : List Stmt)
    (h : Parse.parse l.number l.tokens = .ok ast)
    (hr : ∀ r ∈ operandsStmts ast, changes.lookup r.2 = none) :
    (lineRenum changes l).tokens = l.tokens := by
  have hv : visitStmts changes ast = [] := by
    rw [visitStmts_eq]
    apply List.filterMap_eq_nil_iff.2
    intro r hr'
    simp [rewrite, hr r hr']
  unfold lineRenum
  simp only [h, hv, List.isEmpty_nil, if_true]

example : (lineRenum [(10, 500), (200, 1000)] ⟨some 10, []⟩).tokens = [] :=
  lineRenum_no_refs _ ⟨some 10, []⟩ [] (parse_empty _) (by intro r hr; simp [operandsStmts] at hr)

/-- the collected replacements are the operands that are keys of `changes`, rewritten, in visiting
    order -/
theorem visitor_collects_operands (changes : List (Nat × Nat)) (ast : List Stmt) :
    visitStmts changes ast = (operandsStmts ast).filterMap (rewrite changes) :=
  visitStmts_eq changes ast

/-- 100.0f32, 200.0f32, 300.0f32 and the "no line" sentinel -1.0f32 as the parser stores them -/
def n100 : UInt32 := 0x42C80000
def n200 : UInt32 := 0x43480000
def n300 : UInt32 := 0x43960000
def nNone : UInt32 := 0xBF800000

/-- what a line refers to: every referencing form is seen, in visiting order (IF: THEN part, ELSE
    part); the sentinel of a bare RESTORE and an operand without column are not operands -/
example : (operandsStmts
    [.onGosub (0, 2) (.var (.unary (3, 4) (.plain ['X']))) [.single (11, 14) n100, .single (15, 18) n200],
     .if (19, 21) (.var (.unary (22, 23) (.plain ['A'])))
       [.goto (29, 32) (.single (29, 32) n300)] [.restore (38, 45) (.single (45, 45) nNone)],
     .list (46, 50) (.single (51, 54) n100) (.single (54, 54) n100)]).map (·.2) = [100, 200, 300, 100] := by
  decide +kernel

/-- the replacements are exactly the operands that are keys, rewritten, in visiting order -/
theorem lineRenum_replacements (changes : List (Nat × Nat)) (l : Line) (ast : List Stmt)
    (h : Parse.parse l.number l.tokens = .ok ast)
    (hne : (operandsStmts ast).filterMap (rewrite changes) ≠ []) :
    (lineRenum changes l).tokens =
      (lex (applyReplacements ((operandsStmts ast).filterMap (rewrite changes)) (printTokens l.tokens))).2 := by
  unfold lineRenum
  simp only [h, visitStmts_eq]
  have : ((operandsStmts ast).filterMap (rewrite changes)).isEmpty = false := by
    cases hh : (operandsStmts ast).filterMap (rewrite changes) with
    | nil => exact absurd hh hne
    | cons _ _ => rfl
  simp only [this, Bool.false_eq_true, if_false]

/-- the splice works on characters (the text before the reference is not ASCII) and from the last
    replacement to the first, so earlier columns stay valid -/
example : applyReplacements [((17, 20), 1000), ((21, 24), 5)] "?\"é日本\":ON X GOTO 100,200,300".toList =
    "?\"é日本\":ON X GOTO 1000,5,300".toList := by decide +kernel

example : visitStmts [(100, 1000), (300, 7)]
    [.goto (0, 4) (.single (5, 8) n100), .gosub (9, 14) (.single (15, 18) n200),
     .run (19, 22) (.single (22, 22) nNone)] = [((5, 8), 1000)] := by decide +kernel

/-! ## RENUM on the whole listing (`Listing::renum` with `Line::renum`)

  Lemmas: `Lemmas/RenumListing.lean`.  `l` is the program store before, `l'` after;
  `WF` is the store invariant of C15; `Listing.AllParse l`: every stored line parses (at run time
  `Runtime::renum` (`doRenum`) reports the pending compile errors instead of renumbering when
  `indirect_errors` is not empty, i.e. it only renumbers a listing that compiled — see the finding
  below for what `Listing::renum` does otherwise);
  `ch` is the `changes` map; `Listing.renumMap ch n` is the new number of `n` (`n` itself when `n` is
  not renumbered); `a b c` are `new_start`, `old_start`, `step`.

  * `renum_source`, `renum_lines`, `renum_length`, `renum_order`: the new store is the old one mapped
    line by line; same number of lines, same order, numbers strictly ascending;
  * `renumMap_strictMono`, `renumMap_kept`, `renumMap_new`, `renumMap_le`, `renumMap_not_key`: the
    renumbering function; `wf_renum_full`: the store invariant is kept;
  * `renum_tokens`: tokens change only at line-number operands naming a renumbered line;
  * `renum_refs_consistent`, `renum_position`, `operand_rewrite`: references stay consistent;
  * `renum_error_iff`, `renum_step_zero`, `renum_fails_iff`, `renum_collision`, `renum_overflow`:
    failure returns no new listing, and exactly when it happens;
  * FINDING `renum_unparsable_line_lost`, `renum_unparsable_order_changes`: without `AllParse` a
    line can be lost / the order can change. -/

section Listing
open Thm.C15

/-- RENUM maps the store line by line: the line stored under `k` is stored under `renumMap ch k`
    and becomes `lineRenum ch line`.  Nothing is added, dropped or reordered; the recorded compile
    errors are carried over unchanged; the new map has a root iff it is not empty. -/
theorem renum_source {l l' : Listing} {a b c : Nat} (hl : WF l) (hp : l.AllParse)
    (h : l.renum lineRenum a b c = .ok l') :
    ∃ ch, Listing.renumPlan (l.source.map (·.1)) a b c = .ok ch ∧
      l'.source = l.source.map (fun p => (Listing.renumMap ch p.1, lineRenum ch p.2)) ∧
      l'.indirectErrors = l.indirectErrors ∧ l'.directErrors = l.directErrors ∧
      l'.rooted = !l.source.isEmpty :=
  Listing.renum_source hl hp h

/-- the lines of the new program are the rewritten lines of the old one, in the same order -/
theorem renum_lines {l l' : Listing} {a b c : Nat} (hl : WF l) (hp : l.AllParse)
    (h : l.renum lineRenum a b c = .ok l') :
    ∃ ch, Listing.renumPlan (l.source.map (·.1)) a b c = .ok ch ∧
      l'.lines = l.lines.map (lineRenum ch) :=
  Listing.renum_lines hl hp h

/-- RENUM keeps the number of lines -/
theorem renum_length {l l' : Listing} {a b c : Nat} (hl : WF l) (hp : l.AllParse)
    (h : l.renum lineRenum a b c = .ok l') : l'.source.length = l.source.length :=
  Listing.renum_length hl hp h

/-- the `i`-th line of the new program is the rewritten `i`-th line of the old one -/
theorem renum_nth {l l' : Listing} {a b c : Nat} (hl : WF l) (hp : l.AllParse)
    (h : l.renum lineRenum a b c = .ok l') :
    ∃ ch, Listing.renumPlan (l.source.map (·.1)) a b c = .ok ch ∧
      ∀ i : Nat, l'.source[i]? =
        (l.source[i]?).map (fun p : Nat × Line => (Listing.renumMap ch p.1, lineRenum ch p.2)) :=
  Listing.renum_getElem? hl hp h

/-- the order of the lines is unchanged: the new line numbers are the old ones mapped in place, and
    they are strictly ascending -/
theorem renum_order {l l' : Listing} {a b c : Nat} (hl : WF l) (hp : l.AllParse)
    (h : l.renum lineRenum a b c = .ok l') :
    ∃ ch, Listing.renumPlan (l.source.map (·.1)) a b c = .ok ch ∧
      l'.source.map (·.1) = (l.source.map (·.1)).map (Listing.renumMap ch) ∧
      (l'.source.map (·.1)).Pairwise (· < ·) := by
  obtain ⟨ch, h1, h2⟩ := Listing.renum_keys hl hp h
  exact ⟨ch, h1, h2, Listing.keys_pairwise (Listing.wf_renum_full hl hp h)⟩

/-- the renumbering function is strictly monotone on the line numbers of the program -/
theorem renumMap_strictMono {l : Listing} {a b c : Nat} {ch : List (Nat × Nat)} (hl : WF l)
    (h : Listing.renumPlan (l.source.map (·.1)) a b c = .ok ch) :
    ∀ i j, i ∈ l.source.map (·.1) → j ∈ l.source.map (·.1) → i < j →
      Listing.renumMap ch i < Listing.renumMap ch j :=
  Listing.renumMap_strictMono (Listing.keys_pairwise hl) (Listing.keys_bounded hl) h

/-- numbers below `old_start` are kept (line or not) -/
theorem renumMap_kept {ks : List Nat} {a b c : Nat} {ch : List (Nat × Nat)}
    (h : Listing.renumPlan ks a b c = .ok ch) {k : Nat} (hk : k < b) : Listing.renumMap ch k = k :=
  Listing.renumMap_kept h hk

/-- the lines numbered `≥ old_start` get `new_start, new_start + step, …` in order -/
theorem renumMap_new {l : Listing} {a b c : Nat} {ch : List (Nat × Nat)} (hl : WF l)
    (h : Listing.renumPlan (l.source.map (·.1)) a b c = .ok ch) (i : Nat)
    (hi : i < ((l.source.map (·.1)).filter (fun k => decide (k ≥ b))).length) :
    Listing.renumMap ch (((l.source.map (·.1)).filter (fun k => decide (k ≥ b)))[i]) = a + c * i :=
  Listing.renumMap_new (Listing.keys_pairwise hl) h i hi

/-- every new line number is a line number (≤ 65529) -/
theorem renumMap_le {l : Listing} {a b c : Nat} {ch : List (Nat × Nat)} (hl : WF l)
    (h : Listing.renumPlan (l.source.map (·.1)) a b c = .ok ch) :
    ∀ k ∈ l.source.map (·.1), Listing.renumMap ch k ≤ 65529 :=
  Listing.renumMap_le (Listing.keys_pairwise hl) (Listing.keys_bounded hl) h

/-- a number that names no line of the program is not changed (so a dangling reference stays) -/
theorem renumMap_not_key {ks : List Nat} {a b c : Nat} {ch : List (Nat × Nat)}
    (h : Listing.renumPlan ks a b c = .ok ch) {k : Nat} (hk : k ∉ ks) : Listing.renumMap ch k = k :=
  Listing.renumMap_not_key h hk

/-- RENUM (with the real `Line::renum`) keeps the store invariant -/
theorem wf_renum_full {l l' : Listing} {a b c : Nat} (hl : WF l) (hp : l.AllParse)
    (h : l.renum lineRenum a b c = .ok l') : WF l' :=
  Listing.wf_renum_full hl hp h

/-- what RENUM does to one line-number operand `(col, n)`: replaced by `(col, renumMap ch n)` when
    `n` names a line of the program numbered `≥ old_start`, left alone otherwise -/
theorem operand_rewrite {l : Listing} {a b c : Nat} {ch : List (Nat × Nat)} (hl : WF l)
    (h : Listing.renumPlan (l.source.map (·.1)) a b c = .ok ch) (r : Col × Nat) :
    rewrite ch r =
      if r.2 ∈ l.source.map (·.1) ∧ b ≤ r.2 then some (r.1, Listing.renumMap ch r.2) else none :=
  Listing.rewrite_plan (Listing.keys_pairwise hl) h r

/-- tokens change only at line-number operands: a line none of whose operands names a renumbered
    line (a line of the program numbered `≥ old_start`) keeps its tokens; otherwise its tokens are the
    lexing of its listed text in which exactly those operands (`Listing.renumReps`: in visiting
    order, each with the new number of the line it names) have been replaced by the digits of the
    new numbers -/
theorem renum_tokens {l l' : Listing} {a b c : Nat} (hl : WF l) (hp : l.AllParse)
    (h : l.renum lineRenum a b c = .ok l') :
    ∃ ch, Listing.renumPlan (l.source.map (·.1)) a b c = .ok ch ∧
      l'.lines = l.lines.map (lineRenum ch) ∧
      ∀ p ∈ l.source, ∀ ast, Parse.parse p.2.number p.2.tokens = .ok ast →
        ((∀ r ∈ operandsStmts ast, ¬ (r.2 ∈ l.source.map (·.1) ∧ b ≤ r.2)) →
          (lineRenum ch p.2).tokens = p.2.tokens) ∧
        ((∃ r ∈ operandsStmts ast, r.2 ∈ l.source.map (·.1) ∧ b ≤ r.2) →
          (lineRenum ch p.2).tokens =
            (lex (applyReplacements (Listing.renumReps (l.source.map (·.1)) b ch ast)
              (printTokens p.2.tokens))).2) :=
  Listing.renum_tokens hl hp h

/-- a line number that names a line of the old program names, after renumbering, the line at the
    same position of the new program -/
theorem renum_position {l l' : Listing} {a b c : Nat} (hl : WF l) (hp : l.AllParse)
    (h : l.renum lineRenum a b c = .ok l') :
    ∃ ch, Listing.renumPlan (l.source.map (·.1)) a b c = .ok ch ∧
      ∀ n ∈ l.source.map (·.1),
        Listing.renumMap ch n ∈ l'.source.map (·.1) ∧
        (l'.source.map (·.1)).idxOf (Listing.renumMap ch n) = (l.source.map (·.1)).idxOf n ∧
        ∀ i : Nat, (l.source.map (·.1))[i]? = some n →
          (l'.source.map (·.1))[i]? = some (Listing.renumMap ch n) :=
  Listing.renum_position hl hp h

/-- references are consistent: a line-number operand `(col, n)` of a line of the program that names
    an existing line `n` is, after RENUM, the number `renumMap ch n` of the line at the same position
    of the new program, which is the rewritten old line `n`; the operand's text is rewritten exactly
    when `n ≥ old_start` (otherwise `renumMap ch n = n`).  A dangling operand is not rewritten. -/
theorem renum_refs_consistent {l l' : Listing} {a b c : Nat} (hl : WF l) (hp : l.AllParse)
    (h : l.renum lineRenum a b c = .ok l') :
    ∃ ch, Listing.renumPlan (l.source.map (·.1)) a b c = .ok ch ∧
      ∀ p ∈ l.source, ∀ ast, Parse.parse p.2.number p.2.tokens = .ok ast →
        ∀ r ∈ operandsStmts ast,
          (r.2 ∈ l.source.map (·.1) →
            Listing.renumMap ch r.2 ∈ l'.source.map (·.1) ∧
            (l'.source.map (·.1)).idxOf (Listing.renumMap ch r.2) = (l.source.map (·.1)).idxOf r.2 ∧
            (∀ x, l.get? r.2 = some x → l'.get? (Listing.renumMap ch r.2) = some (lineRenum ch x)) ∧
            (b ≤ r.2 → rewrite ch r = some (r.1, Listing.renumMap ch r.2)) ∧
            (r.2 < b → rewrite ch r = none ∧ Listing.renumMap ch r.2 = r.2)) ∧
          (r.2 ∉ l.source.map (·.1) → rewrite ch r = none ∧ Listing.renumMap ch r.2 = r.2) :=
  Listing.renum_refs_consistent hl hp h

/-- RENUM fails exactly when its plan fails; a failure returns no listing at all (the caller keeps
    the old one), so a failed RENUM changes nothing -/
theorem renum_error_iff (f : List (Nat × Nat) → Line → Line) (l : Listing) (a b c : Nat) :
    (∃ e, l.renum f a b c = .error e) ↔
      (∃ e, Listing.renumPlan (l.source.map (·.1)) a b c = .error e) :=
  Listing.renum_error_iff f l a b c

/-- a step of 0 is refused -/
theorem renum_step_zero (f : List (Nat × Nat) → Line → Line) (l : Listing) (a b : Nat) :
    l.renum f a b 0 = err Code.illegalFunctionCall :=
  Listing.renum_step_zero f l a b

/-- exactly when RENUM fails on a well-formed store: the step is 0; or there is a line to renumber
    (numbered `≥ old_start`) and either a kept line (numbered `< old_start`) is numbered
    `≥ new_start`, or some new number `new_start + step * i` exceeds 65529 or `+ step` overflows `u16` -/
theorem renum_fails_iff (f : List (Nat × Nat) → Line → Line) {l : Listing} (hl : WF l) (a b c : Nat) :
    (∃ e, l.renum f a b c = .error e) ↔
      c = 0 ∨ ((l.source.map (·.1)).filter (fun k => decide (k ≥ b)) ≠ [] ∧
        ((∃ k ∈ l.source.map (·.1), k < b ∧ a ≤ k) ∨
          ∃ i, i < ((l.source.map (·.1)).filter (fun k => decide (k ≥ b))).length ∧
            (a + c * i > 65529 ∨ a + c * i + c > 65535))) :=
  Listing.renum_fails_iff f hl a b c

/-- collision: a kept line at or above the first new number — "Illegal function call" -/
theorem renum_collision (f : List (Nat × Nat) → Line → Line) {l : Listing} (hl : WF l)
    {a b c k j : Nat} (hk : k ∈ l.source.map (·.1)) (hkb : k < b) (hka : a ≤ k)
    (hj : j ∈ l.source.map (·.1)) (hjb : b ≤ j) :
    l.renum f a b c = err Code.illegalFunctionCall :=
  Listing.renum_collision f hl hk hkb hka hj hjb

/-- a new number that does not fit — "Overflow" -/
theorem renum_overflow (f : List (Nat × Nat) → Line → Line) {l : Listing} (hl : WF l)
    {a b c i : Nat} (hc : c ≠ 0) (hkept : ∀ k ∈ l.source.map (·.1), k < b → k < a)
    (hi : i < ((l.source.map (·.1)).filter (fun k => decide (k ≥ b))).length)
    (hbig : a + c * i > 65529 ∨ a + c * i + c > 65535) :
    l.renum f a b c = err Code.overflow :=
  Listing.renum_overflow f hl hc hkept hi hbig

/-! ### non-vacuity: a concrete program -/

/-- `10` (a line with no tokens), `20 END`, `30 CLS` -/
def prog : Listing :=
  { source := [(10, ⟨some 10, []⟩), (20, ⟨some 20, [.word .end]⟩), (30, ⟨some 30, [.word .cls]⟩)],
    rooted := true }

theorem parse_end (n : Option Nat) : Parse.parse n [.word .end] = .ok [.end (0, 3)] := by
  simp [Parse.parse, Parse.parseTokens, Parse.fuelFor, Parse.statements, Parse.statement, Parse.peek,
    Parse.next, Parse.nextLoop, Parse.col, Parse.isRem, StateT.run, bind, StateT.bind, Except.bind, get,
    getThe, MonadStateOf.get, StateT.get, pure, StateT.pure, Except.pure, set, StateT.set, modify,
    modifyGet, MonadStateOf.modifyGet, StateT.modifyGet, Except.map, Token.text, Word.text]

theorem parse_cls (n : Option Nat) : Parse.parse n [.word .cls] = .ok [.cls (0, 3)] := by
  simp [Parse.parse, Parse.parseTokens, Parse.fuelFor, Parse.statements, Parse.statement, Parse.peek,
    Parse.next, Parse.nextLoop, Parse.col, Parse.isRem, StateT.run, bind, StateT.bind, Except.bind, get,
    getThe, MonadStateOf.get, StateT.get, pure, StateT.pure, Except.pure, set, StateT.set, modify,
    modifyGet, MonadStateOf.modifyGet, StateT.modifyGet, Except.map, Token.text, Word.text]

theorem prog_wf : WF prog := ⟨by unfold SortedList.Sorted; decide, by decide, by decide⟩

theorem prog_allParse : prog.AllParse := by
  intro p hp
  simp only [prog, List.mem_cons, List.not_mem_nil, or_false] at hp
  rcases hp with rfl | rfl | rfl
  · exact ⟨_, parse_empty _⟩
  · exact ⟨_, parse_end _⟩
  · exact ⟨_, parse_cls _⟩

theorem prog_plan : Listing.renumPlan (prog.source.map (·.1)) 100 20 10 = .ok [(20, 100), (30, 110)] := by
  decide

/-- `RENUM 100,20,10` on `prog`: line 10 is kept, 20 and 30 become 100 and 110; three lines, same
    order, same tokens (there are no references) — through `renum_source` -/
example : ∃ l', prog.renum lineRenum 100 20 10 = .ok l' ∧
    l'.source = [(10, ⟨some 10, []⟩), (100, ⟨some 100, [.word .end]⟩), (110, ⟨some 110, [.word .cls]⟩)] ∧
    l'.source.length = prog.source.length ∧ WF l' := by
  obtain ⟨l', h⟩ := (Listing.renum_ok_iff lineRenum prog 100 20 10).2 ⟨_, prog_plan⟩
  refine ⟨l', h, ?_, renum_length prog_wf prog_allParse h, wf_renum_full prog_wf prog_allParse h⟩
  obtain ⟨ch, h1, h2, _⟩ := renum_source prog_wf prog_allParse h
  rw [prog_plan] at h1
  cases h1
  rw [h2]
  simp only [prog, List.map_cons, List.map_nil]
  rw [Listing.lineRenum_no_operands _ ⟨some 10, []⟩ [] (parse_empty _) rfl,
    Listing.lineRenum_no_operands _ ⟨some 20, [.word .end]⟩ _ (parse_end _) rfl,
    Listing.lineRenum_no_operands _ ⟨some 30, [.word .cls]⟩ _ (parse_cls _) rfl]
  decide

/-- the renumbering function of that plan: strictly monotone on 10, 20, 30; 10 kept; 20, 30 ↦ 100,
    110; a number that names no line (25, 40) is not changed -/
example : Listing.renumMap [(20, 100), (30, 110)] 10 < Listing.renumMap [(20, 100), (30, 110)] 20 :=
  renumMap_strictMono prog_wf prog_plan 10 20 (by decide) (by decide) (by decide)

example : (([10, 20, 30, 25, 40] : List Nat).map (Listing.renumMap [(20, 100), (30, 110)])) =
    [10, 100, 110, 25, 40] := by decide

example : Listing.renumMap [(20, 100), (30, 110)] 40 = 40 :=
  renumMap_not_key prog_plan (by decide)

example : Listing.renumMap [(20, 100), (30, 110)] 30 = 100 + 10 * 1 :=
  renumMap_new prog_wf prog_plan 1 (by decide)

/-- line 20 of `prog` is line 100 afterwards, at the same position, and is the rewritten line 20 -/
example (l' : Listing) (h : prog.renum lineRenum 100 20 10 = .ok l') :
    (l'.source.map (·.1)).idxOf 100 = 1 ∧ l'.get? 100 = some (lineRenum [(20, 100), (30, 110)] ⟨some 20, [.word .end]⟩) := by
  obtain ⟨ch, h1, hpos⟩ := renum_position prog_wf prog_allParse h
  obtain ⟨ch', h1', hget⟩ := Listing.renum_get? prog_wf prog_allParse h
  rw [prog_plan] at h1 h1'
  cases h1
  cases h1'
  exact ⟨(hpos 20 (by decide)).2.1, hget 20 _ (by decide)⟩

/-- 20.0f32, 10.0f32, 40.0f32 as the parser stores line numbers -/
def n20 : UInt32 := 0x41A00000
def n10 : UInt32 := 0x41200000
def n40 : UInt32 := 0x42200000

/-- operands under that plan (the kernel cannot run the parser on a line with a line number
    operand — it stores it through the opaque `Float32.ofNat` — so this is stated on the AST):
    in `GOTO 20:GOSUB 10:GOTO 40` only the reference to the renumbered line 20 is replaced; 10 is
    kept (below `old_start`), 40 is dangling -/
example : Listing.renumReps [10, 20, 30] 20 [(20, 100), (30, 110)]
    [.goto (0, 4) (.single (5, 7) n20), .gosub (8, 13) (.single (14, 16) n10),
     .goto (17, 21) (.single (22, 24) n40)] = [((5, 7), 100)] := by decide +kernel

example : rewrite [(20, 100), (30, 110)] ((5, 7), 20) = some ((5, 7), 100) ∧
    rewrite [(20, 100), (30, 110)] ((14, 16), 10) = none ∧
    rewrite [(20, 100), (30, 110)] ((22, 24), 40) = none := by
  have h := fun r => operand_rewrite prog_wf prog_plan r
  refine ⟨?_, ?_, ?_⟩
  · rw [h]; decide
  · rw [h]; decide
  · rw [h]; decide

example : applyReplacements [((5, 7), 100)] "GOTO 20:GOSUB 10:GOTO 40".toList =
    "GOTO 100:GOSUB 10:GOTO 40".toList := by decide +kernel

/-- the three ways to fail, on `prog` -/
example : prog.renum lineRenum 100 20 0 = err Code.illegalFunctionCall := renum_step_zero _ _ _ _

example : prog.renum lineRenum 10 20 10 = err Code.illegalFunctionCall :=
  renum_collision _ prog_wf (k := 10) (j := 20) (by decide) (by decide) (by decide) (by decide) (by decide)

example : prog.renum lineRenum 65525 20 10 = err Code.overflow :=
  renum_overflow _ prog_wf (i := 1) (by decide) (by decide) (by decide) (by decide)

example : ∃ e, prog.renum lineRenum 65525 20 10 = .error e :=
  (renum_fails_iff _ prog_wf 65525 20 10).2 (by decide)

/-! ### FINDING: a line that does not parse breaks the structure

  `Line::renum` returns a line that does not parse untouched — number included
  (`lineRenum_unparsable`) — while the other lines move, and `Listing::renum` re-inserts every line
  under the number it now carries.  So a renumbered line can land on the number the unparsable line
  still has and be REPLACED by it (a line is lost), or the unparsable line can end up before lines
  that used to precede it (the order changes).  `AllParse` in the theorems above is therefore
  necessary.  At run time this is masked: `Runtime::renum` (`doRenum`) does not call
  `Listing::renum` while the listing has compile errors (`indirect_errors` not empty), and a stored
  line that does not parse is a compile error. -/

/-- `10` (empty) and `20 1` (a line that does not parse: a statement cannot start with a number) -/
def badProg : Listing :=
  { source := [(10, ⟨some 10, []⟩), (20, ⟨some 20, [.literal (.integer ['1'])]⟩)], rooted := true }

theorem badProg_wf : WF badProg := ⟨by unfold SortedList.Sorted; decide, by decide, by decide⟩

theorem badProg_not_allParse : ¬ badProg.AllParse := by
  intro h
  obtain ⟨ast, hast⟩ := h (20, ⟨some 20, [.literal (.integer ['1'])]⟩) (by decide)
  obtain ⟨e, he⟩ := parse_number_first (some 20)
  rw [he] at hast
  cases hast

theorem badProg_lines (ch : List (Nat × Nat)) :
    badProg.lines.map (lineRenum ch) =
      [⟨(some 10).map (Listing.renumMap ch), []⟩, ⟨some 20, [.literal (.integer ['1'])]⟩] := by
  obtain ⟨e, he⟩ := parse_number_first (some 20)
  simp only [badProg, Listing.lines, List.map_cons, List.map_nil]
  rw [Listing.lineRenum_no_operands ch ⟨some 10, []⟩ [] (parse_empty _) rfl,
    lineRenum_unparsable ch ⟨some 20, [.literal (.integer ['1'])]⟩ e he]

/-- `RENUM 20,0,10`: line 10 becomes 20, the unparsable line keeps 20 and replaces it: the
    two-line program has one line left -/
theorem renum_unparsable_line_lost :
    ∃ l', badProg.renum lineRenum 20 0 10 = .ok l' ∧
      l'.source = [(20, ⟨some 20, [.literal (.integer ['1'])]⟩)] ∧
      l'.source.length < badProg.source.length := by
  have hplan : Listing.renumPlan (badProg.source.map (·.1)) 20 0 10 = .ok [(10, 20), (20, 30)] := by
    decide
  refine ⟨_, by unfold Listing.renum; rw [hplan]; rfl, ?_, ?_⟩
  · show Listing.rebuild (badProg.lines.map (lineRenum [(10, 20), (20, 30)])) = _
    rw [badProg_lines]
    decide
  · show (Listing.rebuild (badProg.lines.map (lineRenum [(10, 20), (20, 30)]))).length < _
    rw [badProg_lines]
    decide

/-- `RENUM 100`: line 10 becomes 100, the unparsable line keeps 20: it now comes first -/
theorem renum_unparsable_order_changes :
    ∃ l', badProg.renum lineRenum 100 0 10 = .ok l' ∧
      l'.source = [(20, ⟨some 20, [.literal (.integer ['1'])]⟩), (100, ⟨some 100, []⟩)] ∧
      l'.lines ≠ badProg.lines.map (lineRenum [(10, 100), (20, 110)]) := by
  have hplan : Listing.renumPlan (badProg.source.map (·.1)) 100 0 10 = .ok [(10, 100), (20, 110)] := by
    decide
  refine ⟨_, by unfold Listing.renum; rw [hplan]; rfl, ?_, ?_⟩
  · show Listing.rebuild (badProg.lines.map (lineRenum [(10, 100), (20, 110)])) = _
    rw [badProg_lines]
    decide
  · show (Listing.rebuild (badProg.lines.map (lineRenum [(10, 100), (20, 110)]))).map (·.2) ≠ _
    rw [badProg_lines]
    decide

end Listing

end C14
end Thm
end Basic
