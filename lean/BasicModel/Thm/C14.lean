import BasicModel.Lemmas.Renum
/-
  C14 — RENUM rewrites a line (lexer/parser part: `Line::renum`).

  * `lineRenum_number` / `lineRenum_direct`: the line's own number is mapped through `changes`
    (absent ⇒ unchanged; a direct line stays direct) — for lines that parse;
  * `lineRenum_unparsable`: a line that does not parse is returned untouched (number included: this
    is what the code does);
  * `visitStmts_eq`: the replacements the visitor collects are exactly the line-number operands of
    the AST (`operandsStmts`: GOTO, GOSUB, RESTORE n, RUN n, LIST/DELETE bounds, ON … GOTO/GOSUB
    lists, through IF … THEN … ELSE; not the "no line" sentinels, not operands without a column)
    that are keys of `changes`, in visiting order;
  * `lineRenum_no_refs`: no operand is a key ⇒ the tokens are unchanged;
  * `lineRenum_replacements`: otherwise the tokens are the lexing of the printed text with those
    operands replaced, last first, by character positions.
-/
namespace Basic
namespace Thm
namespace C14
open Lex

/-- the line's own number is mapped through `changes`; a number that is not a key stays -/
theorem lineRenum_number (changes : List (Nat × Nat)) (l : Line) (ast : List Stmt)
    (h : Parse.parse l.number l.tokens = .ok ast) :
    (lineRenum changes l).number = l.number.map fun n => (changes.lookup n).getD n := by
  unfold lineRenum
  simp only [h]
  have : (match l.number with
      | some n => (changes.lookup n).or (some n)
      | none => none) = l.number.map fun n => (changes.lookup n).getD n := by
    cases l.number with
    | none => rfl
    | some n => simp only [Option.map_some]; cases changes.lookup n <;> simp
  split <;> exact this

example : (lineRenum [(10, 500), (100, 1000)] ⟨some 10, []⟩).number = some 500 ∧
    (lineRenum [(100, 1000)] ⟨some 10, []⟩).number = some 10 :=
  ⟨lineRenum_number _ ⟨some 10, []⟩ [] (parse_empty _), lineRenum_number _ ⟨some 10, []⟩ [] (parse_empty _)⟩

/-- a direct line stays direct -/
theorem lineRenum_direct (changes : List (Nat × Nat)) (l : Line) (h : l.number = none) :
    (lineRenum changes l).number = none := by
  unfold lineRenum
  simp only [h]
  split
  · rfl
  · split <;> rfl

example : (lineRenum [(100, 1000)] ⟨none, [.word .cls]⟩).number = none := lineRenum_direct _ _ rfl

/-- (sic) a line that does not parse is left alone entirely — tokens AND number -/
theorem lineRenum_unparsable (changes : List (Nat × Nat)) (l : Line) (e : Error)
    (h : Parse.parse l.number l.tokens = .error e) : lineRenum changes l = l := by
  unfold lineRenum
  simp only [h]

example : lineRenum [(1, 500)] ⟨none, [.literal (.integer ['1'])]⟩ = ⟨none, [.literal (.integer ['1'])]⟩ :=
  (parse_number_first none).elim fun e h => lineRenum_unparsable _ _ e h

/-- a line none of whose line-number operands is a key of `changes` keeps its tokens -/
theorem lineRenum_no_refs (changes : List (Nat × Nat)) (l : Line) (ast : List Stmt)
    (h : Parse.parse l.number l.tokens = .ok ast)
    (hr : ∀ r ∈ operandsStmts ast, changes.lookup r.2 = none) :
    (lineRenum changes l).tokens = l.tokens := by
  have hv : visitStmts changes ast = [] := by
    rw [visitStmts_eq]
    apply List.filterMap_eq_nil_iff.2
    intro r hr'
    simp [rewrite, hr r hr']
  unfold lineRenum
  simp only [h, hv, List.isEmpty_nil, if_true]

example : (lineRenum [(10, 500), (200, 1000)] ⟨some 10, []⟩).tokens = [] :=
  lineRenum_no_refs _ ⟨some 10, []⟩ [] (parse_empty _) (by intro r hr; simp [operandsStmts] at hr)

/-- the collected replacements are the operands that are keys of `changes`, rewritten, in visiting
    order -/
theorem visitor_collects_operands (changes : List (Nat × Nat)) (ast : List Stmt) :
    visitStmts changes ast = (operandsStmts ast).filterMap (rewrite changes) :=
  visitStmts_eq changes ast

/-- 100.0f32, 200.0f32, 300.0f32 and the "no line" sentinel -1.0f32 as the parser stores them -/
def n100 : UInt32 := 0x42C80000
def n200 : UInt32 := 0x43480000
def n300 : UInt32 := 0x43960000
def nNone : UInt32 := 0xBF800000

/-- what a line refers to: every referencing form is seen, in visiting order (IF: THEN part, ELSE
    part); the sentinel of a bare RESTORE and an operand without column are not operands -/
example : (operandsStmts
    [.onGosub (0, 2) (.var (.unary (3, 4) (.plain ['X']))) [.single (11, 14) n100, .single (15, 18) n200],
     .if (19, 21) (.var (.unary (22, 23) (.plain ['A'])))
       [.goto (29, 32) (.single (29, 32) n300)] [.restore (38, 45) (.single (45, 45) nNone)],
     .list (46, 50) (.single (51, 54) n100) (.single (54, 54) n100)]).map (·.2) = [100, 200, 300, 100] := by
  decide +kernel

/-- the replacements are exactly the operands that are keys, rewritten, in visiting order -/
theorem lineRenum_replacements (changes : List (Nat × Nat)) (l : Line) (ast : List Stmt)
    (h : Parse.parse l.number l.tokens = .ok ast)
    (hne : (operandsStmts ast).filterMap (rewrite changes) ≠ []) :
    (lineRenum changes l).tokens =
      (lex (applyReplacements ((operandsStmts ast).filterMap (rewrite changes)) (printTokens l.tokens))).2 := by
  unfold lineRenum
  simp only [h, visitStmts_eq]
  have : ((operandsStmts ast).filterMap (rewrite changes)).isEmpty = false := by
    cases hh : (operandsStmts ast).filterMap (rewrite changes) with
    | nil => exact absurd hh hne
    | cons _ _ => rfl
  simp only [this, Bool.false_eq_true, if_false]

/-- the splice works on characters (the text before the reference is not ASCII) and from the last
    replacement to the first, so earlier columns stay valid -/
example : applyReplacements [((17, 20), 1000), ((21, 24), 5)] "?\"é日本\":ON X GOTO 100,200,300".toList =
    "?\"é日本\":ON X GOTO 1000,5,300".toList := by decide +kernel

example : visitStmts [(100, 1000), (300, 7)]
    [.goto (0, 4) (.single (5, 8) n100), .gosub (9, 14) (.single (15, 18) n200),
     .run (19, 22) (.single (22, 22) nNone)] = [((5, 8), 1000)] := by decide +kernel

end C14
end Thm
end Basic
