import BasicModel.Lemmas.Control
import BasicModel.Lemmas.CodegenShape
import BasicModel.Model.Parse
/-
  C10 — User functions bind parameters locally and evaluate at call time.

  `DEF FNx(p₁..pₖ)=body` compiles to `k, def FNx, jump→L, pop p₁ … pop pₖ, ⟨body⟩, return, L:`.
  Executing `def` records (k, address of the first `pop`); a call `fn FNx` checks the argument
  count, pushes the return address and the arguments in reverse, and enters the body, whose
  `pop`s therefore bind parameter i to argument i; the final `return` leaves the body's value on
  the caller's stack.  Parameter slots have mangled names `FNx.p` containing a '.'.
-/
namespace Basic
namespace Thm.C10
open Link
open Basic.Runtime

/-! ### DEF -/

/-- in a program (`pc < entryAddress`), with the parameter count on top: the count is popped and
    `(count, pc + 1)` recorded under `name`, replacing any older entry -/
theorem doDef_records (s : Runtime) (σ : Array Val) (n : Int16) (name : Str)
    (hst : s.stack = σ.push (.int n)) (hpc : s.pc < s.entryAddress) :
    ∃ s', ((doDef name).run).run s = (.ok (), s') ∧ s'.stack = σ ∧
      s'.functions.lookup name = some (n.toInt.toNat, s.pc + 1) ∧
      (∀ other, other ≠ name → s'.functions.lookup other = s.functions.lookup other) ∧
      (s'.functions.filter (·.1 = name)).length = 1 ∧ s'.pc = s.pc ∧ s'.vars = s.vars := by
  refine ⟨_, run_doDef s σ n name hst hpc, rfl, ?_, ?_, ?_, rfl, rfl⟩
  · simp
  · intro other ho
    have hne : (other == name) = false := by simp [ho]
    simp only [List.lookup_cons, hne]
    induction s.functions with
    | nil => rfl
    | cons hd tl ih =>
      obtain ⟨k, v⟩ := hd
      simp only [List.filter_cons]
      by_cases hk : k = name
      · subst hk
        simp only [ne_eq, not_true_eq_false, decide_false, Bool.false_eq_true, if_false, List.lookup_cons, hne, ih]
      · simp only [ne_eq, hk, not_false_eq_true, decide_true, if_true, List.lookup_cons, ih]
  · simp only [List.filter_cons, decide_true, if_true, List.length_cons, List.filter_filter]
    have : (s.functions.filter (fun a => decide (a.1 = name) && decide (a.1 ≠ name))) = [] := by
      rw [List.filter_eq_nil_iff]; intro a _; simp
    rw [this]; rfl

/-- as a direct statement (`pc ≥ entryAddress`): ILLEGAL DIRECT, nothing popped, nothing recorded -/
theorem doDef_direct_illegal (s : Runtime) (name : Str) (hpc : s.pc ≥ s.entryAddress) :
    ((doDef name).run).run s = (.error (Error.mk' Code.illegalDirect), s) ∧ Code.illegalDirect = 12 :=
  ⟨run_doDef_direct s name hpc, rfl⟩

/-- the instruction `def name` at address `p` records the entry point `p + 2`: the op after the
    `jump` that skips the body, i.e. the first `pop` (see `pushDefFn_shape`) -/
theorem def_step_records_entry (env : Env) (hie : Bool) (s : Runtime) (σ : Array Val) (n : Int16) (name : Str)
    (htr : s.tron = false) (hop : s.program.link.ops[s.pc]? = some (.def name))
    (hst : s.stack = σ.push (.int n)) (hpc : s.pc + 1 < s.entryAddress) :
    ∃ s', ((step env hie).run).run s = (.ok .continue, s') ∧ s'.stack = σ ∧ s'.pc = s.pc + 1 ∧
      s'.functions.lookup name = some (n.toInt.toNat, s.pc + 2) := by
  rw [run_step_def env hie s name htr hop]
  rw [run_doDef { s with pc := s.pc + 1 } σ n name hst hpc]
  refine ⟨_, rfl, rfl, rfl, ?_⟩
  simp

/-! ### FN -/

/-- the call: `σ, a₁ … aₖ, k` becomes `σ, ret pc, aₖ … a₁`, control enters the body at `addr` -/
theorem doFn_calls (s : Runtime) (σ : Array Val) (args : List Val) (k : Int16) (name : Str) (addr : Nat)
    (hst : s.stack = (σ ++ args.toArray).push (.int k)) (hk : k.toInt = args.length)
    (hfn : s.functions.lookup name = some (args.length, addr))
    (hb : σ.size + 1 + args.length ≤ 65535) :
    ((doFn name).run).run s =
      (.ok (), { s with stack := σ.push (.ret s.pc) ++ args.reverse.toArray, pc := addr }) :=
  run_doFn s σ args k name addr hst hk hfn hb

/-- binding: after the call, once the first `i` parameters have been popped the top of the stack is
    argument `i` — so the body's `pop p₁ … pop pₖ` (emitted in parameter order) give parameter i
    the value of argument i -/
theorem fn_args_popped_in_order (σ : Array Val) (r : Val) (args : List Val) (i : Nat) (hi : i < args.length) :
    (σ.push r ++ (args.drop i).reverse.toArray).back? = some args[i] ∧
    (σ.push r ++ (args.drop i).reverse.toArray).pop = σ.push r ++ (args.drop (i + 1)).reverse.toArray := by
  have hd : args.drop i = args[i] :: args.drop (i + 1) := List.drop_eq_getElem_cons hi
  rw [hd, List.reverse_cons]
  have : σ.push r ++ ((args.drop (i + 1)).reverse ++ [args[i]]).toArray =
      (σ.push r ++ (args.drop (i + 1)).reverse.toArray).push args[i] := by
    apply Array.ext'; simp
  rw [this]
  exact ⟨Array.back?_push .., Array.pop_push ..⟩

/-- … each `pop p` of the body stores the value on top into the slot `p` -/
theorem pop_step_binds (env : Env) (hie : Bool) (s : Runtime) (name : Str) (σ : Array Val) (v : Val) (vars' : Var)
    (htr : s.tron = false) (hop : s.program.link.ops[s.pc]? = some (.pop name))
    (hst : s.stack = σ.push v) (hstore : s.vars.store name v = .ok vars') :
    ((step env hie).run).run s = (.ok .continue, { s with pc := s.pc + 1, stack := σ, vars := vars' }) := by
  rw [run_step_pop env hie s name σ v htr hop hst, hstore]

/-- wrong number of arguments: ILLEGAL FUNCTION CALL "WRONG NUMBER OF ARGUMENTS" -/
theorem doFn_wrong_arity (s : Runtime) (σ : Array Val) (args : List Val) (k : Int16) (name : Str)
    (arity addr : Nat)
    (hst : s.stack = (σ ++ args.toArray).push (.int k)) (hk : k.toInt = args.length)
    (hfn : s.functions.lookup name = some (arity, addr)) (hne : arity ≠ args.length) :
    ((doFn name).run).run s =
      (.error ((Error.mk' Code.illegalFunctionCall).withMsg "WRONG NUMBER OF ARGUMENTS"), { s with stack := σ }) :=
  run_doFn_wrong_arity s σ args k name arity addr hst hk hfn hne

/-- a function that has not been defined (no `def` executed since the last CLEAR/RUN): UNDEFINED USER FUNCTION -/
theorem doFn_undefined (s : Runtime) (σ : Array Val) (args : List Val) (k : Int16) (name : Str)
    (hst : s.stack = (σ ++ args.toArray).push (.int k)) (hk : k.toInt = args.length)
    (hfn : s.functions.lookup name = none) :
    ((doFn name).run).run s = (.error (Error.mk' Code.undefinedUserFunction), { s with stack := σ }) ∧
    Code.undefinedUserFunction = 18 :=
  ⟨run_doFn_undefined s σ args k name hst hk hfn, rfl⟩

/-- CLEAR (hence RUN) forgets all functions: they are defined by *executing* DEF -/
theorem doClear_forgets_functions (env : Env) (s : Runtime) : (doClear env s).functions = [] := rfl

/-- the return: with the body's value `v` on top of the return address, RETURN leaves `σ, v` and
    resumes after the call — call and return together replace `a₁ … aₖ, k` by `v` -/
theorem fn_return (s : Runtime) (σ : Array Val) (a : Nat) (v : Val) (hv : isValue v = true)
    (hst : s.stack = (σ.push (.ret a)).push v) (hb : s.stack.size ≤ 65535) :
    (doReturn.run).run s = (.ok (), { s with stack := σ.push v, pc := a }) := by
  have hr : isRet v = false := by cases v <;> simp_all [isRet, isValue]
  have := run_doReturn s σ a [v] (by intro x hx; simp at hx; subst hx; exact hr) (by simpa using hst)
  rw [this]
  simp only [keptTop, keptOf, hv, Bool.true_and, if_true, finishReturn]
  rw [if_neg]
  rw [hst] at hb
  simp only [Array.size_push, Gen.stackMaxLen] at hb ⊢
  omega

/-- runaway recursion: every nested call pushes a return address; with the stack full the call fails
    with OUT OF MEMORY "STACK OVERFLOW" (never a fault) -/
theorem doFn_overflow (s : Runtime) (σ : Array Val) (args : List Val) (k : Int16) (name : Str) (addr : Nat)
    (hst : s.stack = (σ ++ args.toArray).push (.int k)) (hk : k.toInt = args.length)
    (hfn : s.functions.lookup name = some (args.length, addr))
    (hfull : σ.size ≥ 65535) :
    (((doFn name).run).run s).1 = .error stackOverflow := by
  unfold doFn
  have h1 : σ.size + 1 > Gen.stackMaxLen := by simp only [Gen.stackMaxLen]; omega
  simp only [run_bind, run_popVec s σ args k hst hk, run_get, hfn, if_true, run_push, h1]

/-! ### parameter slots -/

/-- the mangled parameter name `FNx.p` contains a '.', which no identifier of the lexer contains
    (identifiers are letters and digits): parameter slots are disjoint from program variables -/
theorem mangled_names_local (f p : TIdent) : '.' ∈ (Parse.mangle f p).name := by
  unfold Parse.mangle
  cases p <;> simp [TIdent.name]

/-- … and the name is exactly `⟨function⟩.⟨parameter⟩`, typed like the parameter -/
theorem mangle_name (f p : TIdent) : (Parse.mangle f p).name = f.name ++ '.' :: p.name := by
  unfold Parse.mangle
  cases p <;> rfl

/-- a name without '.' is never a parameter slot -/
theorem mangled_ne_plain (f p : TIdent) (x : Str) (hx : '.' ∉ x) : (Parse.mangle f p).name ≠ x := by
  intro e
  exact hx (e ▸ mangled_names_local f p)

/-! ### the code of DEF FN -/

/-- on an empty fragment, when nothing overflows, `pushDefFn` emits
    `k, def name, jump→L, pop p₁ … pop pₖ, ⟨body⟩, return, L:` -/
theorem pushDefFn_shape (g : Codegen.GState) (c : Col) (name : Str) (vars : List Str) (body : Link)
    (hcur : g.cur = {}) (hv : vars.length ≤ 32767)
    (ho : 3 + vars.length + body.ops.size + 1 ≤ 65535) (hdd : body.data.size ≤ 65535) :
    ∃ g', ((Codegen.pushDefFn c name vars body).run).run g = (.ok (), g') ∧
      g'.cur.ops = #[.literal (.int (Int16.ofNat vars.length)), .def name, .jump 0] ++ (vars.map Opcode.pop).toArray
        ++ body.ops ++ #[.return] ∧
      g'.cur.unlinked.lookup 2 = some (c, -1) ∧
      g'.cur.symbols.lookup (-1) = some (g'.cur.ops.size, body.data.size) ∧
      g'.cur.data = body.data := by
  have hrun := Codegen.pushDefFn_run g c name vars body (by rw [hcur]) hv
    (by rw [hcur]; simp only [Gen.stackMaxLen]; show 0 + 3 + _ + _ + 1 ≤ _; omega)
    (by rw [hcur]; simp only [Gen.stackMaxLen]; show 0 + _ ≤ _; omega)
  refine ⟨_, hrun, ?_, ?_, ?_, ?_⟩
  · rw [Codegen.withCur_cur, Codegen.defFnLink_ops, hcur]; simp
  · have := (Codegen.defFnLink_skip g.cur c name vars body).1
    rw [hcur] at this ⊢
    exact this
  · have := (Codegen.defFnLink_skip g.cur c name vars body).2
    rw [hcur] at this ⊢
    simpa using this
  · rw [Codegen.withCur_cur, Codegen.defFnLink_data, hcur]; simp

/-! ### non-vacuity -/

def exDef : Runtime := { stack := #[.int 2], pc := 5, entryAddress := 100 }
def exCall : Runtime :=
  { stack := #[.str ['x'], .int 5, .int 2, .int 2], pc := 40, entryAddress := 100,
    functions := [("FNA".toList, (2, 7))] }

example : (((doDef "FNA".toList).run).run exDef).2.functions = [("FNA".toList, (2, 6))] := by decide
example : (((doDef "FNA".toList).run).run { exDef with entryAddress := 0 }).1 = .error (Error.mk' 12) := by decide
example : (((doFn "FNA".toList).run).run exCall).2.stack = #[.str ['x'], .ret 40, .int 2, .int 5] := by decide
example : (((doFn "FNA".toList).run).run exCall).2.pc = 7 := by decide
example : (((doFn "FNB".toList).run).run exCall).1 = .error (Error.mk' 18) := by decide
example : (((doFn "FNA".toList).run).run { exCall with functions := [("FNA".toList, (1, 7))] }).1 =
    .error ((Error.mk' 5).withMsg "WRONG NUMBER OF ARGUMENTS") := by decide
example : (Parse.mangle (.plain "FNA".toList) (.integer "X".toList)) = .integer "FNA.X".toList := by decide

end Thm.C10
end Basic
