import BasicModel.Lemmas.Control
import BasicModel.Lemmas.CodegenShape
import BasicModel.Model.Parse
import BasicModel.Lemmas.FnCall
/-
  C10 — User functions bind parameters locally and evaluate at call time.

  `DEF FNx(p₁..pₖ)=body` compiles to `k, def FNx, jump→L, pop p₁ … pop pₖ, ⟨body⟩, return, L:`.
  Executing `def` records (k, address of the first `pop`); a call `fn FNx` checks the argument
  count, pushes the return address and the arguments in reverse, and enters the body, whose
  `pop`s therefore bind parameter i to argument i; the final `return` leaves the body's value on
  the caller's stack.  Parameter slots have mangled names `FNx.p` containing a '.'.
-/
namespace Basic
namespace Thm.C10
open Link
open Basic.Runtime

/-! ### DEF -/

/-- in a program (`pc < entryAddress`), with the parameter count on top: the count is popped and
    `(count, pc + 1)` recorded under `name`, replacing any older entry -/
theorem doDef_records (s : Runtime) (σ : Array Val) (n : Int16) (name : Str)
    (hst : s.stack = σ.push (.int n)) (hpc : s.pc < s.entryAddress) :
    ∃ s', ((doDef name).run).run s = (.ok (), s') ∧ s'.stack = σ ∧
      s'.functions.lookup name = some (n.toInt.toNat, s.pc + 1) ∧
      (∀ other, other ≠ name → s'.functions.lookup other = s.functions.lookup other) ∧
      (s'.functions.filter (·.1 = name)).length = 1 ∧ s'.pc = s.pc ∧ s'.vars = s.vars := by
  refine ⟨_, run_doDef s σ n name hst hpc, rfl, ?_, ?_, ?_, rfl, rfl⟩
  · simp
  · intro other ho
    have hne : (other == name) = false := by simp [ho]
    simp only [List.lookup_cons, hne]
    induction s.functions with
    | nil => rfl
    | cons hd tl ih =>
      obtain ⟨k, v⟩ := hd
      simp only [List.filter_cons]
      by_cases hk : k = name
      · subst hk
        simp only [ne_eq, not_true_eq_false, decide_false, Bool.false_eq_true, if_false, List.lookup_cons, hne, ih]
      · simp only [ne_eq, hk, not_false_eq_true, decide_true, if_true, List.lookup_cons, ih]
  · simp only [List.filter_cons, decide_true, if_true, List.length_cons, List.filter_filter]
    have : (s.functions.filter (fun a => decide (a.1 = name) && decide (a.1 ≠ name))) = [] := by
      rw [List.filter_eq_nil_iff]; intro a _; simp
    rw [this]; rfl

/-- as a direct statement (`pc ≥ entryAddress`): ILLEGAL DIRECT, nothing popped, nothing recorded -/
theorem doDef_direct_illegal (s : Runtime) (name : Str) (hpc : s.pc ≥ s.entryAddress) :
    ((doDef name).run).run s = (.error (Error.mk' Code.illegalDirect), s) ∧ Code.illegalDirect = 12 :=
  ⟨run_doDef_direct s name hpc, rfl⟩

/-- the instruction `def name` at address `p` records the entry point `p + 2`: the op after the
    `jump` that skips the body, i.e. the first `pop` (see `pushDefFn_shape`) -/
theorem def_step_records_entry (env : Env) (hie : Bool) (s : Runtime) (σ : Array Val) (n : Int16) (name : Str)
    (htr : s.tron = false) (hop : s.program.link.ops[s.pc]? = some (.def name))
    (hst : s.stack = σ.push (.int n)) (hpc : s.pc + 1 < s.entryAddress) :
    ∃ s', ((step env hie).run).run s = (.ok .continue, s') ∧ s'.stack = σ ∧ s'.pc = s.pc + 1 ∧
      s'.functions.lookup name = some (n.toInt.toNat, s.pc + 2) := by
  rw [run_step_def env hie s name htr hop]
  rw [run_doDef { s with pc := s.pc + 1 } σ n name hst hpc]
  refine ⟨_, rfl, rfl, rfl, ?_⟩
  simp

/-! ### FN -/

/-- the call: `σ, a₁ … aₖ, k` becomes `σ, ret pc, aₖ … a₁`, control enters the body at `addr` -/
theorem doFn_calls (s : Runtime) (σ : Array Val) (args : List Val) (k : Int16) (name : Str) (addr : Nat)
    (hst : s.stack = (σ ++ args.toArray).push (.int k)) (hk : k.toInt = args.length)
    (hfn : s.functions.lookup name = some (args.length, addr))
    (hb : σ.size + 1 + args.length ≤ 65535) :
    ((doFn name).run).run s =
      (.ok (), { s with stack := σ.push (.ret s.pc) ++ args.reverse.toArray, pc := addr }) :=
  run_doFn s σ args k name addr hst hk hfn hb

/-- binding: after the call, once the first `i` parameters have been popped the top of the stack is
    argument `i` — so the body's `pop p₁ … pop pₖ` (emitted in parameter order) give parameter i
    the value of argument i -/
theorem fn_args_popped_in_order (σ : Array Val) (r : Val) (args : List Val) (i : Nat) (hi : i < args.length) :
    (σ.push r ++ (args.drop i).reverse.toArray).back? = some args[i] ∧
    (σ.push r ++ (args.drop i).reverse.toArray).pop = σ.push r ++ (args.drop (i + 1)).reverse.toArray := by
  have hd : args.drop i = args[i] :: args.drop (i + 1) := List.drop_eq_getElem_cons hi
  rw [hd, List.reverse_cons]
  have : σ.push r ++ ((args.drop (i + 1)).reverse ++ [args[i]]).toArray =
      (σ.push r ++ (args.drop (i + 1)).reverse.toArray).push args[i] := by
    apply Array.ext'; simp
  rw [this]
  exact ⟨Array.back?_push .., Array.pop_push ..⟩

/-- … each `pop p` of the body stores the value on top into the slot `p` -/
theorem pop_step_binds (env : Env) (hie : Bool) (s : Runtime) (name : Str) (σ : Array Val) (v : Val) (vars' : Var)
    (htr : s.tron = false) (hop : s.program.link.ops[s.pc]? = some (.pop name))
    (hst : s.stack = σ.push v) (hstore : s.vars.store name v = .ok vars') :
    ((step env hie).run).run s = (.ok .continue, { s with pc := s.pc + 1, stack := σ, vars := vars' }) := by
  rw [run_step_pop env hie s name σ v htr hop hst, hstore]

/-- wrong number of arguments: ILLEGAL FUNCTION CALL "WRONG NUMBER OF ARGUMENTS" -/
theorem doFn_wrong_arity (s : Runtime) (σ : Array Val) (args : List Val) (k : Int16) (name : Str)
    (arity addr : Nat)
    (hst : s.stack = (σ ++ args.toArray).push (.int k)) (hk : k.toInt = args.length)
    (hfn : s.functions.lookup name = some (arity, addr)) (hne : arity ≠ args.length) :
    ((doFn name).run).run s =
      (.error ((Error.mk' Code.illegalFunctionCall).withMsg "WRONG NUMBER OF ARGUMENTS"), { s with stack := σ }) :=
  run_doFn_wrong_arity s σ args k name arity addr hst hk hfn hne

/-- a function that has not been defined (no `def` executed since the last CLEAR/RUN): UNDEFINED USER FUNCTION -/
theorem doFn_undefined (s : Runtime) (σ : Array Val) (args : List Val) (k : Int16) (name : Str)
    (hst : s.stack = (σ ++ args.toArray).push (.int k)) (hk : k.toInt = args.length)
    (hfn : s.functions.lookup name = none) :
    ((doFn name).run).run s = (.error (Error.mk' Code.undefinedUserFunction), { s with stack := σ }) ∧
    Code.undefinedUserFunction = 18 :=
  ⟨run_doFn_undefined s σ args k name hst hk hfn, rfl⟩

/-- CLEAR (hence RUN) forgets all functions: they are defined by *executing* DEF -/
theorem doClear_forgets_functions (env : Env) (s : Runtime) : (doClear env s).functions = [] := rfl

/-- the return: with the body's value `v` on top of the return address, RETURN leaves `σ, v` and
    resumes after the call — call and return together replace `a₁ … aₖ, k` by `v` -/
theorem fn_return (s : Runtime) (σ : Array Val) (a : Nat) (v : Val) (hv : isValue v = true)
    (hst : s.stack = (σ.push (.ret a)).push v) (hb : s.stack.size ≤ 65535) :
    (doReturn.run).run s = (.ok (), { s with stack := σ.push v, pc := a }) := by
  have hr : isRet v = false := by cases v <;> simp_all [isRet, isValue]
  have := run_doReturn s σ a [v] (by intro x hx; simp at hx; subst hx; exact hr) (by simpa using hst)
  rw [this]
  simp only [keptTop, keptOf, hv, Bool.true_and, if_true, finishReturn]
  rw [if_neg]
  rw [hst] at hb
  simp only [Array.size_push, Gen.stackMaxLen] at hb ⊢
  omega

/-- runaway recursion: every nested call pushes a return address; with the stack full the call fails
    with OUT OF MEMORY "STACK OVERFLOW" (never a fault) -/
theorem doFn_overflow (s : Runtime) (σ : Array Val) (args : List Val) (k : Int16) (name : Str) (addr : Nat)
    (hst : s.stack = (σ ++ args.toArray).push (.int k)) (hk : k.toInt = args.length)
    (hfn : s.functions.lookup name = some (args.length, addr))
    (hfull : σ.size ≥ 65535) :
    (((doFn name).run).run s).1 = .error stackOverflow := by
  unfold doFn
  have h1 : σ.size + 1 > Gen.stackMaxLen := by simp only [Gen.stackMaxLen]; omega
  simp only [run_bind, run_popVec s σ args k hst hk, run_get, hfn, if_true, run_push, h1]

/-! ### parameter slots -/

/-- the mangled parameter name `FNx.p` contains a '.', which no identifier of the lexer contains
    (identifiers are letters and digits): parameter slots are disjoint from program variables -/
theorem mangled_names_local (f p : TIdent) : '.' ∈ (Parse.mangle f p).name := by
  unfold Parse.mangle
  cases p <;> simp [TIdent.name]

/-- … and the name is exactly `⟨function⟩.⟨parameter⟩`, typed like the parameter -/
theorem mangle_name (f p : TIdent) : (Parse.mangle f p).name = f.name ++ '.' :: p.name := by
  unfold Parse.mangle
  cases p <;> rfl

/-- a name without '.' is never a parameter slot -/
theorem mangled_ne_plain (f p : TIdent) (x : Str) (hx : '.' ∉ x) : (Parse.mangle f p).name ≠ x := by
  intro e
  exact hx (e ▸ mangled_names_local f p)

/-! ### the code of DEF FN -/

/-- on an empty fragment, when nothing overflows, `pushDefFn` emits
    `k, def name, jump→L, pop p₁ … pop pₖ, ⟨body⟩, return, L:` -/
theorem pushDefFn_shape (g : Codegen.GState) (c : Col) (name : Str) (vars : List Str) (body : Link)
    (hcur : g.cur = {}) (hv : vars.length ≤ 32767)
    (ho : 3 + vars.length + body.ops.size + 1 ≤ 65535) (hdd : body.data.size ≤ 65535) :
    ∃ g', ((Codegen.pushDefFn c name vars body).run).run g = (.ok (), g') ∧
      g'.cur.ops = #[.literal (.int (Int16.ofNat vars.length)), .def name, .jump 0] ++ (vars.map Opcode.pop).toArray
        ++ body.ops ++ #[.return] ∧
      g'.cur.unlinked.lookup 2 = some (c, -1) ∧
      g'.cur.symbols.lookup (-1) = some (g'.cur.ops.size, body.data.size) ∧
      g'.cur.data = body.data := by
  have hrun := Codegen.pushDefFn_run g c name vars body (by rw [hcur]) hv
    (by rw [hcur]; simp only [Gen.stackMaxLen]; show 0 + 3 + _ + _ + 1 ≤ _; omega)
    (by rw [hcur]; simp only [Gen.stackMaxLen]; show 0 + _ ≤ _; omega)
  refine ⟨_, hrun, ?_, ?_, ?_, ?_⟩
  · rw [Codegen.withCur_cur, Codegen.defFnLink_ops, hcur]; simp
  · have := (Codegen.defFnLink_skip g.cur c name vars body).1
    rw [hcur] at this ⊢
    exact this
  · have := (Codegen.defFnLink_skip g.cur c name vars body).2
    rw [hcur] at this ⊢
    simpa using this
  · rw [Codegen.withCur_cur, Codegen.defFnLink_data, hcur]; simp

/-! ### non-vacuity -/

def exDef : Runtime := { stack := #[.int 2], pc := 5, entryAddress := 100 }
def exCall : Runtime :=
  { stack := #[.str ['x'], .int 5, .int 2, .int 2], pc := 40, entryAddress := 100,
    functions := [("FNA".toList, (2, 7))] }

example : (((doDef "FNA".toList).run).run exDef).2.functions = [("FNA".toList, (2, 6))] := by decide
example : (((doDef "FNA".toList).run).run { exDef with entryAddress := 0 }).1 = .error (Error.mk' 12) := by decide
example : (((doFn "FNA".toList).run).run exCall).2.stack = #[.str ['x'], .ret 40, .int 2, .int 5] := by decide
example : (((doFn "FNA".toList).run).run exCall).2.pc = 7 := by decide
example : (((doFn "FNB".toList).run).run exCall).1 = .error (Error.mk' 18) := by decide
example : (((doFn "FNA".toList).run).run { exCall with functions := [("FNA".toList, (1, 7))] }).1 =
    .error ((Error.mk' 5).withMsg "WRONG NUMBER OF ARGUMENTS") := by decide
example : (Parse.mangle (.plain "FNA".toList) (.integer "X".toList)) = .integer "FNA.X".toList := by decide

/-! ### user functions, end to end: DEF records, a call binds, evaluates at call time, returns

  The mechanisms above, composed (`Lemmas/FnCall.lean`).  The arguments and the body are trees of the
  fragment `Spec.Pure` of `Spec/Eval.lean` (literals, scalar variables, operators, the 22
  one-argument built-ins); the body reads its parameters through their slots `FNx.p` — that is the
  tree the parser builds (`Parse.defStmt` replaces each parameter by `Parse.mangle`) — and may read
  any program variable.  `Spec.evalCall vars slots body args` is the hand-written meaning of the
  call: evaluate `args` left to right in `vars`, store value i into slot i (`Var.store`: conversion
  to the slot's type), evaluate `body` in the resulting store. -/

section endToEnd
open Basic.Spec Basic.Lemmas.ExprCompile Basic.Lemmas.FnCall

/-- the parameter slots of `DEF f(p₁..pₖ)`, in the order of the parameter list -/
def slots (f : TIdent) (ps : List TIdent) : List Str := ps.map fun p => (Parse.mangle f p).name

/-- a name without '.' (every name the lexer produces) is not a parameter slot -/
theorem plain_not_slot (f : TIdent) (ps : List TIdent) {x : Str} (hx : '.' ∉ x) : x ∉ slots f ps := by
  intro h
  obtain ⟨p, _, hp⟩ := List.mem_map.1 h
  exact mangled_ne_plain f p x hx hp

/-- two stores that agree outside the slots agree on every program variable -/
theorem agree_on_program_variables {f : TIdent} {ps : List TIdent} {v v' : Var} (h : AgreeOff (slots f ps) v v') :
    ∀ x : Str, '.' ∉ x → v'.fetch x = v.fetch x :=
  fun x hx => h x (plain_not_slot f ps hx)

/-- **(1a) the code of DEF.**  `DEF f(p₁..pₖ)=body` as the parser builds it (parameters mangled, body
    over the mangled parameters and program variables) compiles to one statement fragment, nothing
    reported, whose code is
    `k, def f, jump →L, pop f.p₁ … pop f.pₖ, ⟨body⟩, return, L:` (`defCode`; the jump is the op at
    index 2, its label is defined at the end of the fragment), without data -/
theorem def_compiles {body : Expr} (hp : Pure body) (c fc : Col) (f : TIdent) (ps : List (Col × TIdent))
    (s : Codegen.VState) (hk : ps.length ≤ 32767) (hlen : 3 + ps.length + (flat body).length + 1 ≤ 65535) :
    ∃ frag : Link,
      Codegen.acceptStmt (.def c (.unary fc f) (ps.map fun p => Variable.unary p.1 (Parse.mangle f p.2)) body) s =
        { s with g := { s.g with stmt := s.g.stmt.push (c, frag) } } ∧
      frag.ops = (defCode f.name (slots f (ps.map (·.2))) body 0).toArray ∧
      defCode f.name (slots f (ps.map (·.2))) body 0 =
        [.literal (.int (Int16.ofNat ps.length)), .def f.name, .jump 0] ++
          (slots f (ps.map (·.2))).map Opcode.pop ++ flat body ++ [.return] ∧
      frag.unlinked.lookup 2 = some (c, -1) ∧ frag.symbols.lookup (-1) = some (frag.ops.size, 0) ∧
      frag.data = #[] := by
  have h := def_codegen_shape hp c fc f (ps.map fun p => (p.1, Parse.mangle f p.2)) s (by simpa using hk)
    (by simp only [List.length_map, Gen.stackMaxLen]; exact hlen)
  simp only [List.map_map] at h
  obtain ⟨frag, h1, h2, h3, h4, h5⟩ := h
  refine ⟨frag, h1, ?_, ?_, h3, h4, h5⟩
  · rw [h2]; simp [slots, Function.comp_def]
  · simp [defCode, fnCode, slots]

/-- **(1b) the code of a call.**  `f(a₁..aₖ)` (`f` starts with FN) compiles to one expression
    fragment, nothing reported: the arguments' codes in the order written, the literal `k`, `fn f` -/
theorem call_compiles (c : Col) (f : TIdent) (args : List Expr) (hf : Parse.isUserFunction f = true)
    (hp : ∀ a ∈ args, Pure a) (hk : args.length ≤ 32767) (s : Codegen.VState)
    (hlen : (args.flatMap flat).length + 2 ≤ 65535) :
    Codegen.acceptExpr (.var (.array c f args)) s =
      { s with g := { s.g with expr := s.g.expr.push (c, ({ ops := (callCode f.name args).toArray } : Link)) } } ∧
    callCode f.name args =
      args.flatMap flat ++ [.literal (.int (Int16.ofNat args.length)), .fn f.name] :=
  ⟨acceptExpr_call_shape c f args hf hp hk s (by rw [callCode_length]; exact hlen), rfl⟩

/-- **(2) a call is correct**, all outcomes.  In a machine state `s` whose function table maps `f` to
    `(k, entry)`, with the function's code `pop f.p₁ … pop f.pₖ, ⟨body⟩, return` at `entry`, the
    call's code at `s.pc`, trace off, room on the stack, variables holding numbers and strings
    (`CallSite`), and `k` arguments: running the call and the function
    * if `Spec.evalCall` gives `(v, vars')`: ends after the call's code with `v` pushed on the stack
      as it was before the call, the variables `vars'`, and every other component of the machine as
      in `s`; `vars'` reads like `s.vars` at every name without a '.', i.e. at every program variable
      — one named like a parameter included;
    * else stops with the error `Spec.evalCall` gives (the first failing argument, else the first
      parameter slot refusing its argument, else the body), the program variables again untouched. -/
theorem call_correct (env : Env) (hie : Bool) {s : Runtime} {f : TIdent} {ps : List TIdent} {body : Expr}
    {args : List Expr} {entry : Nat} (hs : CallSite s f.name (slots f ps) body args entry)
    (harity : ps.length = args.length) :
    match evalCall s.vars (slots f ps) body args with
    | .ok (v, vars') =>
      runSteps env hie ((callCode f.name args).length + (fnCode (slots f ps) body).length) s =
        (.ok .continue, { s with pc := s.pc + (callCode f.name args).length, stack := s.stack.push v, vars := vars' }) ∧
      ∀ x : Str, '.' ∉ x → vars'.fetch x = s.vars.fetch x
    | .error err => ∃ s'',
      runSteps env hie ((callCode f.name args).length + (fnCode (slots f ps) body).length) s = (.error err, s'') ∧
      ∀ x : Str, '.' ∉ x → s''.vars.fetch x = s.vars.fetch x := by
  have h := call_run env hie hs (by simpa [slots] using harity)
  cases hr : evalCall s.vars (slots f ps) body args with
  | ok r =>
    obtain ⟨v, vars'⟩ := r
    rw [hr] at h
    exact ⟨h.1, agree_on_program_variables h.2⟩
  | error err =>
    rw [hr] at h
    obtain ⟨s'', h1, h2⟩ := h
    exact ⟨s'', h1, agree_on_program_variables h2⟩

/-- … the value is the body's value in the caller's variables *at the time of the call* with slot i
    holding argument i converted to the slot's type; the arguments are evaluated in the caller's
    variables, left to right -/
theorem evalCall_meaning {vars : Var} {slots : List Str} {body : Expr} {args : List Expr} {v : Val} {vars' : Var}
    (h : evalCall vars slots body args = .ok (v, vars')) :
    ∃ vs, evalArgs vars args = .ok vs ∧ bindParams vars slots vs = .ok vars' ∧ eval vars' body = .ok v :=
  evalCall_ok h

/-- a failing argument: the error is raised by an instruction of the arguments' code — before the
    argument count is pushed, before `fn` is executed, so the function is not entered — and the state
    differs from `s` in `pc` and `stack` only -/
theorem call_argument_error (env : Env) (hie : Bool) {s : Runtime} {f : TIdent} {ps : List TIdent} {body : Expr}
    {args : List Expr} {entry : Nat} (hs : CallSite s f.name (slots f ps) body args entry) {err : Error}
    (h : evalArgs s.vars args = .error err) :
    ∃ (k : Nat) (stk : Array Val), k < (args.flatMap flat).length ∧
      ∀ n, k < n → runSteps env hie n s = (.error err, { s with pc := s.pc + k + 1, stack := stk }) :=
  call_run_arg_error env hie hs h

/-- a failing body: the error is the body's (`Spec.eval` in the bound variables) -/
theorem call_body_error (env : Env) (hie : Bool) {s : Runtime} {f : TIdent} {ps : List TIdent} {body : Expr}
    {args : List Expr} {entry : Nat} (hs : CallSite s f.name (slots f ps) body args entry)
    (harity : ps.length = args.length) {vs : List Val} {vars' : Var} {err : Error}
    (h1 : evalArgs s.vars args = .ok vs) (h2 : bindParams s.vars (slots f ps) vs = .ok vars')
    (h3 : eval vars' body = .error err) :
    ∃ s'', runSteps env hie ((callCode f.name args).length + (fnCode (slots f ps) body).length) s = (.error err, s'') ∧
      s''.vars = vars' := by
  obtain ⟨s'', hrun, hv⟩ := call_run_body_error env hie hs (by simpa [slots] using harity) h1 h2 h3
  exact ⟨s'', hrun _ (by rw [fnCode_length]; omega), hv⟩

/-- wrong number of arguments: the arguments are evaluated, then ILLEGAL FUNCTION CALL "WRONG NUMBER OF
    ARGUMENTS"; the function is not entered; stack and variables are as before the call -/
theorem call_wrong_arity_error (env : Env) (hie : Bool) (s : Runtime) (name : Str) (args : List Expr) (vs : List Val)
    (arity entry : Nat) (hargs : ∀ a ∈ args, Pure a)
    (hcall : CodeAt s.program.link.ops s.pc (callCode name args)) (htr : s.tron = false)
    (hfn : s.functions.lookup name = some (arity, entry)) (hne : arity ≠ args.length) (hk : args.length ≤ 32767)
    (hroom : s.stack.size + (args.flatMap flat).length + 1 ≤ 65535)
    (hv : evalArgs s.vars args = .ok vs) :
    runSteps env hie (callCode name args).length s =
      (.error ((Error.mk' Code.illegalFunctionCall).withMsg "WRONG NUMBER OF ARGUMENTS"),
        { s with pc := s.pc + (callCode name args).length }) ∧ Code.illegalFunctionCall = 5 :=
  ⟨call_wrong_arity env hie s name args vs arity entry hargs hcall htr hfn hne hk hroom hv, rfl⟩

/-- unknown function: UNDEFINED USER FUNCTION, stack and variables as before the call -/
theorem call_undefined_error (env : Env) (hie : Bool) (s : Runtime) (name : Str) (args : List Expr) (vs : List Val)
    (hargs : ∀ a ∈ args, Pure a)
    (hcall : CodeAt s.program.link.ops s.pc (callCode name args)) (htr : s.tron = false)
    (hfn : s.functions.lookup name = none) (hk : args.length ≤ 32767)
    (hroom : s.stack.size + (args.flatMap flat).length + 1 ≤ 65535)
    (hv : evalArgs s.vars args = .ok vs) :
    runSteps env hie (callCode name args).length s =
      (.error (Error.mk' Code.undefinedUserFunction), { s with pc := s.pc + (callCode name args).length }) ∧
    Code.undefinedUserFunction = 18 :=
  ⟨call_undefined env hie s name args vs hargs hcall htr hfn hk hroom hv, rfl⟩

/-- **DEF, then the call**: from a state at a DEF statement in a program without compile errors
    (`hie = false`), the call's code following the function: DEF records the function, jumps over it,
    and the call returns `Spec.evalCall` in the variables of that moment -/
theorem def_then_call (env : Env) (s : Runtime) (f : TIdent) (ps : List TIdent) (body : Expr)
    (args : List Expr) (hargs : ∀ a ∈ args, Pure a) (hbody : Pure body) (harity : ps.length = args.length)
    (hdef : CodeAt s.program.link.ops s.pc
      (defCode f.name (slots f ps) body (s.pc + (defCode f.name (slots f ps) body 0).length)))
    (hcall : CodeAt s.program.link.ops (s.pc + (defCode f.name (slots f ps) body 0).length) (callCode f.name args))
    (htr : s.tron = false) (hpc : s.pc + 2 < s.entryAddress) (hk : args.length ≤ 32767)
    (hroom : s.stack.size + (args.flatMap flat).length + 1 ≤ 65535)
    (hroomb : s.stack.size + 1 + (flat body).length ≤ 65535)
    (hvals : ValueStore s.vars) {v : Val} {vars' : Var}
    (h : evalCall s.vars (slots f ps) body args = .ok (v, vars')) :
    runSteps env false (3 + ((callCode f.name args).length + (fnCode (slots f ps) body).length)) s =
      (.ok .continue,
        { s with pc := s.pc + (defCode f.name (slots f ps) body 0).length + (callCode f.name args).length,
                 stack := s.stack.push v, vars := vars',
                 functions := (f.name, (ps.length, s.pc + 3)) :: s.functions.filter (·.1 ≠ f.name) }) ∧
    ∀ x : Str, '.' ∉ x → vars'.fetch x = s.vars.fetch x := by
  have hl : (slots f ps).length = ps.length := by simp [slots]
  have := def_call_run env false s f.name (slots f ps) body args hargs hbody (by rw [hl]; exact harity) hdef hcall
    htr hpc rfl hk hroom hroomb hvals h
  rw [hl] at this
  obtain ⟨_, _, h2, _⟩ := evalCall_ok h
  exact ⟨this, agree_on_program_variables (bindParams_agree _ _ _ _ h2)⟩

/-- **(3) evaluation at call time.**  The same call site run from two states that differ in the
    variables only (say, in a program variable the body reads) returns the body's value in the
    respective variables: nothing of the variable state at DEF time is frozen into the function -/
theorem call_evaluates_at_call_time (env : Env) (hie : Bool) {s : Runtime} {f : TIdent} {ps : List TIdent}
    {body : Expr} {args : List Expr} {entry : Nat} (hs : CallSite s f.name (slots f ps) body args entry)
    (harity : ps.length = args.length) (vars2 : Var) (hvals2 : ValueStore vars2)
    {v1 v2 : Val} {w1 w2 : Var}
    (h1 : evalCall s.vars (slots f ps) body args = .ok (v1, w1))
    (h2 : evalCall vars2 (slots f ps) body args = .ok (v2, w2)) :
    runSteps env hie ((callCode f.name args).length + (fnCode (slots f ps) body).length) s =
      (.ok .continue, { s with pc := s.pc + (callCode f.name args).length, stack := s.stack.push v1, vars := w1 }) ∧
    runSteps env hie ((callCode f.name args).length + (fnCode (slots f ps) body).length) { s with vars := vars2 } =
      (.ok .continue, { s with pc := s.pc + (callCode f.name args).length, stack := s.stack.push v2, vars := w2 }) :=
  call_time env hie hs (by simpa [slots] using harity) vars2 hvals2 h1 h2

/-- the hypothesis `ValueStore` of `CallSite` holds in every state whose variables satisfy the
    invariant of the variable store (C06), in particular after CLEAR/RUN, and is kept by stores -/
theorem valueStore_reachable : ValueStore Var.new ∧ (∀ v, Thm.C06.Typed v → ValueStore v) ∧
    (∀ v v' n x, ValueStore v → v.store n x = .ok v' → ValueStore v') :=
  ⟨valueStore_new, fun _ h => valueStore_of_typed h, fun _ _ _ _ hv h => store_valueStore hv h⟩

end endToEnd

/-! ### end to end: non-vacuity

  `DEF FNA(X%)=X%*2+1` compiled by hand, the program variable `X% = 20`, the call `FNA(3)`.
  (Integer names and literals: single-precision arithmetic is opaque to the kernel.) -/

section endToEndExamples
open Basic.Spec Basic.Lemmas.ExprCompile Basic.Lemmas.FnCall

def exEnv : Env := { lex := fun _ => default, lineRenum := fun _ l => l }

def exF : TIdent := .plain "FNA".toList
def exP : TIdent := .integer "X%".toList

/-- `X%*2+1` as the parser builds it inside `DEF FNA(X%)`: the parameter is the slot `FNA.X%` -/
def exBody : Expr :=
  .bin .add (11, 17) (.bin .multiply (11, 15) (.var (.unary (11, 13) (Parse.mangle exF exP))) (.integer (14, 15) 2))
    (.integer (16, 17) 1)

/-- the argument list `(3)` -/
def exArgs : List Expr := [.integer (4, 5) 3]

example : slots exF [exP] = ["FNA.X%".toList] := by decide
example : Pure exBody ∧ (∀ a ∈ exArgs, Pure a) ∧ Parse.isUserFunction exF = true := by decide
example : fnCode (slots exF [exP]) exBody =
    [.pop "FNA.X%".toList, .push "FNA.X%".toList, .literal (.int 2), .mul, .literal (.int 1), .add, .return] := by
  decide
example : callCode exF.name exArgs = [.literal (.int 3), .literal (.int 1), .fn "FNA".toList] := by decide

/-- the shape theorems at work: the statement `DEF FNA(X%)=X%*2+1` … -/
example : ∃ frag : Link,
    Codegen.acceptStmt (.def (0, 17) (.unary (4, 7) exF) [.unary (8, 10) (Parse.mangle exF exP)] exBody) {} =
      { g := { stmt := #[((0, 17), frag)] } } ∧
    frag.ops = #[.literal (.int 1), .def "FNA".toList, .jump 0, .pop "FNA.X%".toList, .push "FNA.X%".toList,
      .literal (.int 2), .mul, .literal (.int 1), .add, .return] := by
  obtain ⟨frag, h1, h2, _⟩ := def_compiles (body := exBody) (by decide) (0, 17) (4, 7) exF [((8, 10), exP)] {}
    (by decide) (by decide)
  exact ⟨frag, h1, by rw [h2]; decide⟩
/-- … and the expression `FNA(3)` -/
example : Codegen.acceptExpr (.var (.array (0, 6) exF exArgs)) {} =
    { g := { expr := #[((0, 6), { ops := #[.literal (.int 3), .literal (.int 1), .fn "FNA".toList] })] } } :=
  (call_compiles (0, 6) exF exArgs (by decide) (by decide) (by decide) {} (by decide)).1

/-- a program that has reached `DEF FNA(X%)=X%*2+1` at address 2 (function at 5..11), followed by the
    call `FNA(3)` at address 12; `X% = 20`; one value on the stack -/
def exM : Runtime :=
  { program := { link := { ops := #[.end, .end] ++ (defCode exF.name (slots exF [exP]) exBody 12).toArray ++
      (callCode exF.name exArgs).toArray ++ #[.end] } },
    pc := 2, entryAddress := 100, stack := #[.str ['x']], vars := { vars := [("X%".toList, .int 20)] } }

theorem exM_values : ValueStore exM.vars := by
  intro p hp
  simp only [exM, List.mem_cons, List.not_mem_nil, or_false] at hp
  subst hp; rfl

/-- the meaning of the call: 7, the slot `FNA.X%` holds 3, `X%` still holds 20 -/
theorem exM_evalCall : evalCall exM.vars (slots exF [exP]) exBody exArgs =
    .ok (.int 7, { vars := [("FNA.X%".toList, .int 3), ("X%".toList, .int 20)] }) := by rfl

/-- `def_then_call` applied: all its hypotheses hold of this machine; 13 steps (3 for DEF, 3 for the
    call sequence, 7 in the function) end after the call with 7 pushed, `FNA` recorded (arity 1,
    entry 5), `X%` untouched -/
example : runSteps exEnv false 13 exM =
    (.ok .continue, { exM with pc := 15, stack := #[.str ['x'], .int 7],
                               vars := { vars := [("FNA.X%".toList, .int 3), ("X%".toList, .int 20)] },
                               functions := [("FNA".toList, (1, 5))] }) :=
  (def_then_call exEnv exM exF [exP] exBody exArgs (by decide) (by decide) rfl (by decide) (by decide) (by decide)
    (by decide) (by decide) (by decide) (by decide) exM_values exM_evalCall).1

def isContinue (r : Except Error Step × Runtime) : Bool :=
  match r.1 with
  | .ok .continue => true
  | _ => false
def errorOf (r : Except Error Step × Runtime) : Option Error :=
  match r.1 with
  | .error e => some e
  | .ok _ => none

/-- … and the machine does that, computed independently of the proof -/
example : isContinue (runSteps exEnv false 13 exM) = true := by decide +kernel
example : (runSteps exEnv false 13 exM).2.stack = #[.str ['x'], .int 7] := by decide +kernel
example : (runSteps exEnv false 13 exM).2.pc = 15 := by decide +kernel
example : (runSteps exEnv false 13 exM).2.vars.fetch "X%".toList = .ok (.int 20) := by decide +kernel
example : (runSteps exEnv false 13 exM).2.vars.vars = [("FNA.X%".toList, .int 3), ("X%".toList, .int 20)] := by
  decide +kernel
example : (runSteps exEnv false 13 exM).2.functions = [("FNA".toList, (1, 5))] := by decide +kernel
/-- after DEF alone (3 steps) control is past the function, nothing of it has been executed -/
example : (runSteps exEnv false 3 exM).2.pc = 12 ∧ (runSteps exEnv false 3 exM).2.stack = #[.str ['x']] ∧
    (runSteps exEnv false 3 exM).2.vars.vars = [("X%".toList, .int 20)] := by decide +kernel

/-! evaluation at call time: `DEF FNA(X%)=X%+Y%`, called as `FNA(3)` with `Y% = 1`, then with `Y% = 2` -/

/-- `X%+Y%` inside `DEF FNA(X%)`: the slot `FNA.X%` and the program variable `Y%` -/
def exBodyY : Expr :=
  .bin .add (11, 16) (.var (.unary (11, 13) (Parse.mangle exF exP))) (.var (.unary (14, 16) (.integer "Y%".toList)))

/-- a machine in which `FNA` has been defined (function at 3..7) and that is at the call `FNA(3)`
    (address 8), with `Y% = y` -/
def exMY (y : Int16) : Runtime :=
  { program := { link := { ops := #[.end, .end, .end] ++ (fnCode (slots exF [exP]) exBodyY).toArray ++
      (callCode exF.name exArgs).toArray ++ #[.end] } },
    pc := 8, entryAddress := 100, functions := [("FNA".toList, (1, 3))],
    vars := { vars := [("Y%".toList, .int y)] } }

theorem exMY_site : CallSite (exMY 1) exF.name (slots exF [exP]) exBodyY exArgs 3 :=
  { pureArgs := by decide, pureBody := by decide, fn := by decide, call := by decide, code := by decide
    tron := rfl, count := by decide, room := by decide, roomBody := by decide
    values := by
      intro p hp
      simp only [exMY, List.mem_cons, List.not_mem_nil, or_false] at hp
      subst hp; rfl }

/-- the same function, the same argument: 4 when `Y% = 1`, 5 when `Y% = 2` (theorem applied) -/
example :
    runSteps exEnv false 8 (exMY 1) =
      (.ok .continue, { exMY 1 with pc := 11, stack := #[.int 4],
                                    vars := { vars := [("FNA.X%".toList, .int 3), ("Y%".toList, .int 1)] } }) ∧
    runSteps exEnv false 8 (exMY 2) =
      (.ok .continue, { exMY 1 with pc := 11, stack := #[.int 5],
                                    vars := { vars := [("FNA.X%".toList, .int 3), ("Y%".toList, .int 2)] } }) :=
  call_evaluates_at_call_time exEnv false exMY_site rfl (exMY 2).vars
    (by
      intro p hp
      simp only [exMY, List.mem_cons, List.not_mem_nil, or_false] at hp
      subst hp; rfl)
    (v1 := .int 4) (v2 := .int 5) (by rfl) (by rfl)
/-- … and computed -/
example : (runSteps exEnv false 8 (exMY 1)).2.stack = #[.int 4] ∧ (runSteps exEnv false 8 (exMY 2)).2.stack = #[.int 5] ∧
    (runSteps exEnv false 8 (exMY 2)).2.vars.fetch "Y%".toList = .ok (.int 2) := by decide +kernel

/-! errors -/

/-- `FNA(3, 3)`: wrong number of arguments -/
def exMArity : Runtime :=
  { program := { link := { ops := #[.end, .end, .end] ++ (fnCode (slots exF [exP]) exBodyY).toArray ++
      (callCode exF.name (exArgs ++ exArgs)).toArray ++ #[.end] } },
    pc := 8, entryAddress := 100, functions := [("FNA".toList, (1, 3))], stack := #[.str ['x']],
    vars := { vars := [("Y%".toList, .int 1)] } }

example : runSteps exEnv false 4 exMArity =
    (.error ((Error.mk' 5).withMsg "WRONG NUMBER OF ARGUMENTS"), { exMArity with pc := 12 }) :=
  (call_wrong_arity_error exEnv false exMArity exF.name (exArgs ++ exArgs) [.int 3, .int 3] 1 3 (by decide) (by decide)
    rfl (by decide) (by decide) (by decide) (by decide) (by rfl)).1
example : errorOf (runSteps exEnv false 4 exMArity) = some ((Error.mk' 5).withMsg "WRONG NUMBER OF ARGUMENTS") ∧
    (runSteps exEnv false 4 exMArity).2.stack = #[.str ['x']] ∧
    (runSteps exEnv false 4 exMArity).2.vars.vars = [("Y%".toList, .int 1)] := by decide +kernel
/-- the same call when no DEF has been executed: UNDEFINED USER FUNCTION -/
example : errorOf (runSteps exEnv false 4 { exMArity with functions := [] }) = some (Error.mk' 18) := by
  decide +kernel
/-- a failing argument (`FNA(Y% \ 0)`): DIVISION BY ZERO from the argument's code; the function is not
    entered (`pc` is still in the call's code, no parameter slot is bound) -/
def exMArg : Runtime :=
  { program := { link := { ops := #[.end, .end, .end] ++ (fnCode (slots exF [exP]) exBodyY).toArray ++
      (callCode exF.name [.bin .divideInt (0, 6) (.var (.unary (0, 2) (.integer "Y%".toList))) (.integer (5, 6) 0)]).toArray
        ++ #[.end] } },
    pc := 8, entryAddress := 100, functions := [("FNA".toList, (1, 3))],
    vars := { vars := [("Y%".toList, .int 1)] } }
example : errorOf (runSteps exEnv false 12 exMArg) = some (Error.mk' Code.divisionByZero) ∧
    (runSteps exEnv false 12 exMArg).2.pc = 11 ∧
    (runSteps exEnv false 12 exMArg).2.vars.vars = [("Y%".toList, .int 1)] := by decide +kernel
/-- a failing body (`X%+Y%` with `Y% = 32767`, argument 3): OVERFLOW raised in the function, the slot
    bound, `Y%` untouched -/
example : errorOf (runSteps exEnv false 8 (exMY 32767)) = some (Error.mk' Code.overflow) ∧
    (runSteps exEnv false 8 (exMY 32767)).2.vars.vars = [("FNA.X%".toList, .int 3), ("Y%".toList, .int 32767)] := by
  decide +kernel

end endToEndExamples

end Thm.C10
end Basic
