import BasicModel.Lemmas.C17
/-
  C17 — INPUT parses replies as documented and retries atomically per reply.

  * The reply is split at the commas that lie outside double quotes (`Lemmas.C17.splitOutside` is
    the accumulator-free specification); joining the fields with commas gives the reply back, the
    number of fields is one more than the number of such commas, and a quote-free reply yields
    comma-free fields.
  * A statement with a single target (count 0 or 1 on the stack) takes the whole reply, commas
    included.
  * `doInputReply` either accepts — pushing `ret pc` and then the fields, first field on top, and
    entering `inputRunning` — or, when the number of fields differs from the count, leaves the stack
    untouched and enters `inputRedo`.
  * `doInput` converts one field: trimmed; for a `$` target one enclosing pair of quotes is removed;
    for a numeric target the empty field is 0, anything else goes through `Val.ofStr`.
  * `executeInput` leaves the stack as it found it, resets the column and asks with
    `prompt ++ "? "`, with the caps flag read off the stack.
  * When executing the targets fails in `inputRunning`, `execute` unwinds the stack down to and
    including the `ret` pushed by the reply, i.e. to exactly the stack of the `input` state, and the
    next two events are REDO FROM START and the same prompt.
-/
namespace Basic
namespace Thm.C17
open Basic.Runtime Basic.Lemmas.C17

/-- the field splitter of `doInputReply` as it is called there -/
abbrev fields (reply : Str) : List Str := Runtime.doInputReply.split reply false [] []

/-! ### the split law -/

/-- the local `split` is `splitFields` -/
theorem split_eq : Runtime.doInputReply.split = splitFields := split_eq_splitFields

/-- the fields are those of the specification "split at commas outside double quotes" -/
theorem split_spec (reply : Str) : fields reply = splitOutside reply false := by
  rw [fields, split_eq, splitFields_spec]

/-- join law, generalised over the accumulators of the loop -/
theorem split_join_gen (r : Str) (inq : Bool) (cur : Str) (acc : List Str) :
    List.intercalate [','] (Runtime.doInputReply.split r inq cur acc) =
      List.intercalate [','] (acc ++ [cur.reverse ++ r]) := by
  rw [split_eq, intercalate_eq_joinC, intercalate_eq_joinC, joinC_splitFields]

/-- joining the fields with commas gives the reply back — nothing is lost or invented -/
theorem split_join (reply : Str) : List.intercalate [','] (fields reply) = reply := by
  rw [fields, split_join_gen]; simp [List.intercalate]

/-- there is always at least one field -/
theorem split_nonempty (reply : Str) : fields reply ≠ [] := by
  rw [split_spec]; exact splitOutside_ne_nil _ _

/-- number of fields = 1 + number of commas outside quotes -/
theorem split_count (reply : Str) : (fields reply).length = 1 + commasOutside reply false := by
  rw [split_spec, length_splitOutside]

/-- without quotes no field contains a comma … -/
theorem split_no_quotes (reply : Str) (hq : '"' ∉ reply) : ∀ f ∈ fields reply, ',' ∉ f := by
  rw [split_spec]; exact splitOutside_no_quotes reply hq

/-- … and every comma separates -/
theorem split_count_no_quotes (reply : Str) (hq : '"' ∉ reply) :
    (fields reply).length = 1 + reply.count ',' := by
  rw [split_count, commasOutside_no_quotes reply hq]

/-! ### `doInputReply` -/

theorem push_append_toArray {α} (a : Array α) (x : α) (l : List α) :
    a.push x ++ l.toArray = a ++ (x :: l).toArray := by
  apply Array.ext'; simp

/-- one target (count 0 or 1): the whole reply is the field, commas included -/
theorem single_var_whole_reply (s : Runtime) (reply : Str) (n : Int16)
    (htop : s.stack.back? = some (.int n)) (h0 : 0 ≤ n.toInt) (h1 : n.toInt ≤ 1)
    (hroom : s.stack.size + 2 ≤ Gen.stackMaxLen) :
    doInputReply s reply =
      ({ s with stack := (s.stack.push (.ret s.pc)).push (.str reply), state := .inputRunning },
        .ok ()) := by
  unfold doInputReply
  simp only [htop, h0, h1, decide_true, Bool.and_self, if_true]
  rw [run_accept]
  · simp
  · simp only [List.length_cons, List.length_nil]; omega

theorem single_var_whole_reply_one (s : Runtime) (reply : Str)
    (htop : s.stack.back? = some (.int 1)) (hroom : s.stack.size + 2 ≤ Gen.stackMaxLen) :
    doInputReply s reply =
      ({ s with stack := (s.stack.push (.ret s.pc)).push (.str reply), state := .inputRunning },
        .ok ()) :=
  single_var_whole_reply s reply 1 htop (by decide) (by decide) hroom

theorem single_var_whole_reply_zero (s : Runtime) (reply : Str)
    (htop : s.stack.back? = some (.int 0)) (hroom : s.stack.size + 2 ≤ Gen.stackMaxLen) :
    doInputReply s reply =
      ({ s with stack := (s.stack.push (.ret s.pc)).push (.str reply), state := .inputRunning },
        .ok ()) :=
  single_var_whole_reply s reply 0 htop (by decide) (by decide) hroom

/-- count other than 0/1 and different from the number of fields: REDO, stack untouched -/
theorem field_count_mismatch_redo (s : Runtime) (reply : Str) (n : Int16)
    (htop : s.stack.back? = some (.int n)) (hn : ¬ (0 ≤ n.toInt ∧ n.toInt ≤ 1))
    (hne : n.toInt ≠ ((fields reply).length : Int)) :
    doInputReply s reply = ({ s with state := .inputRedo }, .ok ()) := by
  unfold doInputReply
  have hb : (decide (0 ≤ n.toInt) && decide (n.toInt ≤ 1)) = false := by
    cases hd : (decide (0 ≤ n.toInt) && decide (n.toInt ≤ 1)) with
    | false => rfl
    | true =>
      simp only [Bool.and_eq_true, decide_eq_true_eq] at hd
      exact absurd hd hn
  simp only [htop, hb, Bool.false_eq_true, if_false]
  rw [if_neg hne]

/-- a negative count can never be matched: always REDO -/
theorem negative_count_redo (s : Runtime) (reply : Str) (n : Int16)
    (htop : s.stack.back? = some (.int n)) (hneg : n.toInt < 0) :
    doInputReply s reply = ({ s with state := .inputRedo }, .ok ()) :=
  field_count_mismatch_redo s reply n htop (by omega) (by omega)

/-- count ≥ 2 equal to the number of fields: `ret pc` and the fields are pushed, the first field
    ending up on top; the machine goes on in `inputRunning` -/
theorem field_count_match_accept (s : Runtime) (reply : Str) (n : Int16)
    (htop : s.stack.back? = some (.int n)) (hn : ¬ (0 ≤ n.toInt ∧ n.toInt ≤ 1))
    (heq : n.toInt = ((fields reply).length : Int))
    (hroom : s.stack.size + 1 + (fields reply).length ≤ Gen.stackMaxLen) :
    doInputReply s reply =
      ({ s with stack := s.stack ++ (Val.ret s.pc :: (fields reply).reverse.map Val.str).toArray,
                state := .inputRunning }, .ok ()) := by
  unfold doInputReply
  have hb : (decide (0 ≤ n.toInt) && decide (n.toInt ≤ 1)) = false := by
    cases hd : (decide (0 ≤ n.toInt) && decide (n.toInt ≤ 1)) with
    | false => rfl
    | true =>
      simp only [Bool.and_eq_true, decide_eq_true_eq] at hd
      exact absurd hd hn
  simp only [htop, hb, Bool.false_eq_true, if_false]
  rw [if_pos heq]
  simp only []
  rw [run_accept _ _ hroom, push_append_toArray]

/-- the same stack, read as a list: old stack, `ret pc`, last field … first field -/
theorem field_count_match_accept_toList (s : Runtime) (reply : Str) (n : Int16)
    (htop : s.stack.back? = some (.int n)) (hn : ¬ (0 ≤ n.toInt ∧ n.toInt ≤ 1))
    (heq : n.toInt = ((fields reply).length : Int))
    (hroom : s.stack.size + 1 + (fields reply).length ≤ Gen.stackMaxLen) :
    (doInputReply s reply).1.stack.toList =
      s.stack.toList ++ Val.ret s.pc :: (fields reply).reverse.map Val.str ∧
    (doInputReply s reply).1.state = .inputRunning ∧ (doInputReply s reply).1.pc = s.pc := by
  rw [field_count_match_accept s reply n htop hn heq hroom]
  simp

/-- in every case where the top of the stack is an Integer the reply is either accepted or
    refused with the stack exactly as it was -/
theorem accept_or_redo_reply (s : Runtime) (reply : Str) (n : Int16)
    (htop : s.stack.back? = some (.int n))
    (hroom : s.stack.size + 1 + (fields reply).length ≤ Gen.stackMaxLen) :
    (∃ fs, doInputReply s reply =
        ({ s with stack := s.stack ++ (Val.ret s.pc :: fs.reverse.map Val.str).toArray,
                  state := .inputRunning }, .ok ()) ∧
        (fs = [reply] ∨ fs = fields reply)) ∨
    doInputReply s reply = ({ s with state := .inputRedo }, .ok ()) := by
  by_cases hn : 0 ≤ n.toInt ∧ n.toInt ≤ 1
  · left
    refine ⟨[reply], ?_, .inl rfl⟩
    have h1 : 1 ≤ (fields reply).length := by
      cases h : fields reply with
      | nil => exact absurd h (split_nonempty reply)
      | cons a t => simp
    have hst : (s.stack.push (.ret s.pc)).push (.str reply) =
        s.stack ++ (Val.ret s.pc :: [reply].reverse.map Val.str).toArray := by
      apply Array.ext'; simp
    rw [single_var_whole_reply s reply n htop hn.1 hn.2 (by omega), hst]
  · by_cases heq : n.toInt = ((fields reply).length : Int)
    · left
      exact ⟨fields reply, field_count_match_accept s reply n htop hn heq hroom, .inr rfl⟩
    · right
      exact field_count_mismatch_redo s reply n htop hn heq

/-- anything but an Integer on top (or an empty stack) is an internal error, state untouched -/
theorem non_int_top (s : Runtime) (reply : Str) (htop : ∀ n, s.stack.back? ≠ some (.int n)) :
    doInputReply s reply = (s, .error (Error.mk' Code.internalError)) := by
  unfold doInputReply
  split
  · rename_i n h; exact absurd h (htop n)
  · rfl

/-! ### `doInput`: the INPUT opcode -/

/-- first execution of the opcode: suspend, re-execute later -/
theorem doInput_running (name : Str) (s : Runtime) (h : s.state = .running) :
    ((doInput name).run).run s = (.ok true, { s with state := .input, pc := s.pc - 1 }) := by
  simp only [doInput, run_bind, run_get, h, if_true, run_set, run_pure]

/-- the closing opcode (empty name): count, caps, prompt length and prompt are dropped -/
theorem doInput_end (s : Runtime) (st : Array Val) (a b c d : Val) (h : s.state = .inputRunning)
    (hs : s.stack = (((st.push a).push b).push c).push d) :
    ((doInput []).run).run s = (.ok false, { s with state := .running, stack := st }) := by
  simp only [doInput, run_bind, run_get, h, reduceCtorEq, if_false, if_true, run_modify,
    List.isEmpty_nil]
  rw [run_pop_push d (((st.push a).push b).push c) { s with state := .running } hs]
  simp only
  rw [run_pop_push c ((st.push a).push b) _ rfl]
  simp only
  rw [run_pop_push b (st.push a) _ rfl]
  simp only
  rw [run_pop_push a st _ rfl]
  simp only [run_pure]

/-- `"…"` → `…` (one enclosing pair only) -/
def stripQuotes (f : Str) : Str :=
  if f.length ≥ 2 && f.head? = some '"' && f.getLast? = some '"' then (f.drop 1).dropLast else f

/-- the value stored for one field of a reply -/
def convertField (name field : Str) : Val :=
  if name.getLast? = some '$' then .str (stripQuotes (RStd.trim field))
  else if (RStd.trim field).isEmpty then .int 0
  else Val.ofStr (RStd.trim field)

/-- one target: the field on top of the stack is replaced by its converted value -/
theorem doInput_field (name : Str) (s : Runtime) (st : Array Val) (field : Str)
    (hstate : s.state = .inputRunning) (hname : name ≠ []) (hs : s.stack = st.push (.str field))
    (hroom : st.size + 1 ≤ Gen.stackMaxLen) :
    ((doInput name).run).run s = (.ok false, { s with stack := st.push (convertField name field) }) := by
  have hne : name.isEmpty = false := by cases name <;> simp_all
  simp only [doInput, run_bind, run_get, hstate, hne, Bool.false_eq_true, reduceCtorEq, if_false,
    if_true]
  rw [run_pop_push (.str field) st s hs]
  simp only [convertField, stripQuotes]
  by_cases hd : name.getLast? = some '$'
  · simp only [hd, if_true, run_bind]
    rw [run_push_room _ _ hroom]
    simp only [run_pure, hstate]
  · simp only [hd, if_false]
    by_cases he : (RStd.trim field).isEmpty = true
    · simp only [he, if_true, run_bind]
      rw [run_push_room _ _ hroom]
      simp only [run_pure, hstate]
    · simp only [he, Bool.false_eq_true, if_false, run_bind]
      rw [run_push_room _ _ hroom]
      simp only [run_pure, hstate]

/-- `$` target: trimmed, one enclosing pair of quotes removed -/
theorem doInput_string_field (name : Str) (s : Runtime) (st : Array Val) (field : Str)
    (hstate : s.state = .inputRunning) (hd : name.getLast? = some '$')
    (hs : s.stack = st.push (.str field)) (hroom : st.size + 1 ≤ Gen.stackMaxLen) :
    ((doInput name).run).run s =
      (.ok false, { s with stack := st.push (.str (
        let f := RStd.trim field
        if f.length ≥ 2 ∧ f.head? = some '"' ∧ f.getLast? = some '"' then (f.drop 1).dropLast else f)) }) := by
  have hname : name ≠ [] := by intro h; rw [h] at hd; simp at hd
  rw [doInput_field name s st field hstate hname hs hroom]
  simp only [convertField, hd, if_true, stripQuotes, Bool.and_eq_true, decide_eq_true_eq]
  by_cases hc : (RStd.trim field).length ≥ 2 ∧ (RStd.trim field).head? = some '"' ∧
      (RStd.trim field).getLast? = some '"'
  · rw [if_pos hc, if_pos ⟨⟨hc.1, hc.2.1⟩, hc.2.2⟩]
  · rw [if_neg hc, if_neg (fun h => hc ⟨h.1.1, h.1.2, h.2⟩)]

/-- numeric target: the blank field is 0, anything else is read by `Val.ofStr` (VAL's reader) -/
theorem doInput_numeric_field (name : Str) (s : Runtime) (st : Array Val) (field : Str)
    (hstate : s.state = .inputRunning) (hname : name ≠ []) (hd : name.getLast? ≠ some '$')
    (hs : s.stack = st.push (.str field)) (hroom : st.size + 1 ≤ Gen.stackMaxLen) :
    ((doInput name).run).run s =
      (.ok false, { s with stack := st.push (
        if RStd.trim field = [] then .int 0 else Val.ofStr (RStd.trim field)) }) := by
  rw [doInput_field name s st field hstate hname hs hroom]
  simp only [convertField, hd, if_false]
  cases h : RStd.trim field <;> simp

/-- what quote stripping does to a quoted text -/
theorem stripQuotes_quoted (m : Str) : stripQuotes ('"' :: m ++ ['"']) = m := by
  have h2 : ('"' :: (m ++ ['"'])).getLast? = some '"' := by
    rw [show '"' :: (m ++ ['"']) = ('"' :: m) ++ ['"'] from rfl, List.getLast?_concat]
  simp [stripQuotes, h2]

/-- a non-`str` value where a field is expected is an internal error -/
theorem doInput_non_str_top (name : Str) (s : Runtime) (st : Array Val) (v : Val)
    (hstate : s.state = .inputRunning) (hname : name ≠ []) (hs : s.stack = st.push v)
    (hv : ∀ f, v ≠ .str f) :
    ((doInput name).run).run s = (.error (Error.mk' Code.internalError), { s with stack := st }) := by
  have hne : name.isEmpty = false := by cases name <;> simp_all
  simp only [doInput, run_bind, run_get, hstate, hne, Bool.false_eq_true, reduceCtorEq, if_false,
    if_true]
  rw [run_pop_push v st s hs]
  cases v <;> first | exact absurd rfl (hv _) | simp only [run_throw, hstate]

/-- in any state other than `running` / `inputRunning` the opcode is an internal error -/
theorem doInput_bad_state (name : Str) (s : Runtime) (h1 : s.state ≠ .running)
    (h2 : s.state ≠ .inputRunning) :
    ((doInput name).run).run s = (.error (Error.mk' Code.internalError), s) := by
  simp only [doInput, run_bind, run_get, h1, h2, if_false, run_throw]

/-! ### the prompt -/

/-- `executeInput`: prompt text is `prompt ++ "? "`, caps = "the caps value is not Integer 0",
    the column is reset and the stack is as before -/
theorem executeInput_prompt (s : Runtime) (st : Array Val) (prompt : Str) (capsVal lenVal : Val)
    (hs : s.stack = ((st.push (.str prompt)).push capsVal).push lenVal)
    (hroom : st.size + 3 ≤ Gen.stackMaxLen) :
    (Runtime.executeInput.run).run s =
      (.ok (Event.input (prompt ++ ['?', ' ']) (decide (capsVal ≠ .int 0))), { s with printCol := 0 }) := by
  simp only [executeInput, run_bind]
  rw [run_pop_push lenVal ((st.push (.str prompt)).push capsVal) s hs]
  simp only []
  rw [run_pop_push capsVal (st.push (.str prompt)) _ rfl]
  simp only [run_get, Array.back?_push, run_pure]
  rw [run_push_room _ _ (by simp only [Array.size_push]; omega)]
  simp only []
  rw [run_push_room _ _ (by simp only [Array.size_push]; omega)]
  simp only [run_modify, ← hs]

/-- caps is off exactly when the caps value on the stack is Integer 0 -/
theorem caps_flag (capsVal : Val) : decide (capsVal ≠ .int 0) = false ↔ capsVal = .int 0 := by
  simp

/-- without a `str` prompt below the two values: internal error -/
theorem executeInput_no_prompt (s : Runtime) (st : Array Val) (v capsVal lenVal : Val)
    (hs : s.stack = ((st.push v).push capsVal).push lenVal) (hv : ∀ p, v ≠ .str p) :
    (Runtime.executeInput.run).run s =
      (.error (Error.mk' Code.internalError), { s with stack := st.push v }) := by
  simp only [executeInput, run_bind]
  rw [run_pop_push lenVal ((st.push v).push capsVal) s hs]
  simp only []
  rw [run_pop_push capsVal (st.push v) _ rfl]
  simp only [run_get, Array.back?_push]
  cases v <;> first | exact absurd rfl (hv _) | rfl

/-! ### the session level: `execute` in the states `input` and `inputRedo` -/

/-- `execute` in state `input` emits the prompt and changes nothing but the column -/
theorem execute_input_prompt (env : Env) (s : Runtime) (k : Nat) (st : Array Val) (prompt : Str)
    (capsVal lenVal : Val) (hstate : s.state = .input)
    (hs : s.stack = ((st.push (.str prompt)).push capsVal).push lenVal)
    (hroom : st.size + 3 ≤ Gen.stackMaxLen) :
    execute env s k =
      ({ s with printCol := 0 }, Event.input (prompt ++ ['?', ' ']) (decide (capsVal ≠ .int 0))) := by
  unfold execute
  simp only [hstate, executeInput_prompt s st prompt capsVal lenVal hs hroom]

/-- `execute` in state `inputRedo` reports REDO FROM START and goes back to `input`, touching
    nothing else — so the next call asks again with the same prompt (`execute_input_prompt`) -/
theorem execute_inputRedo (env : Env) (s : Runtime) (k : Nat) (hstate : s.state = .inputRedo) :
    execute env s k = ({ s with state := .input }, Event.errors [Error.mk' Code.redoFromStart]) := by
  unfold execute
  simp only [hstate]

/-! ### the session level: `enter` in state `input` -/

/-- a reply that fits the line buffer goes through `doInputReply`; only the column is reset besides -/
theorem enter_input_reply (env : Env) (s s' : Runtime) (reply : Str) (hstate : s.state = .input)
    (hlen : RStd.utf8Len reply ≤ Gen.maxLineLen) (h : doInputReply s reply = (s', .ok ())) :
    enter env s reply = { s' with printCol := 0 } := by
  unfold enter
  simp only [hstate, h]
  rw [if_neg (by omega)]

/-- an over-long reply is refused like a wrong field count: REDO, stack untouched -/
theorem enter_input_too_long (env : Env) (s : Runtime) (reply : Str) (hstate : s.state = .input)
    (hlen : RStd.utf8Len reply > Gen.maxLineLen) :
    enter env s reply = { s with state := .inputRedo, printCol := 0 } := by
  unfold enter
  simp only [hstate]
  rw [if_pos hlen]

/-- refused reply, seen from the session: the stack is the `input`-state stack, and the next two
    `execute` calls give REDO FROM START and the same prompt (`execute_inputRedo`,
    `execute_input_prompt`) -/
theorem enter_input_mismatch (env : Env) (s : Runtime) (reply : Str) (n : Int16)
    (hstate : s.state = .input) (hlen : RStd.utf8Len reply ≤ Gen.maxLineLen)
    (htop : s.stack.back? = some (.int n)) (hn : ¬ (0 ≤ n.toInt ∧ n.toInt ≤ 1))
    (hne : n.toInt ≠ ((fields reply).length : Int)) :
    enter env s reply = { s with state := .inputRedo, printCol := 0 } :=
  enter_input_reply env s _ reply hstate hlen (field_count_mismatch_redo s reply n htop hn hne)

/-! ### unwinding after a failed conversion / assignment -/

/-- the unwinding loop pops down to and including the nearest `ret a` -/
theorem unwind_to_ret (st : Array Val) (a : Nat) (vs : List Val)
    (hvs : ∀ v ∈ vs, ∀ b, v ≠ .ret b) (k : Nat) (hk : vs.length + 1 ≤ k) :
    Runtime.execute.unwind k (st.push (.ret a) ++ vs.toArray) = (st, some a) := by
  have := unwind_rev_to_ret st a vs.reverse (fun v hv => hvs v (List.mem_reverse.1 hv)) k
    (by simpa using hk)
  simpa using this

/-- a stack without any `ret` is emptied and no address is found -/
theorem unwind_no_ret (st : Array Val) (hst : ∀ v ∈ st.toList, ∀ b, v ≠ .ret b) (k : Nat)
    (hk : st.size ≤ k) :
    Runtime.execute.unwind k st = (#[], none) := by
  have := unwind_rev_no_ret st.toList.reverse (fun v hv => hst v (List.mem_reverse.1 hv)) k
    (by simpa using hk)
  simpa using this

/-- `execute`: when running the targets fails in `inputRunning` (and the failing state's stack is
    `st`, a `ret a`, then values that are not `ret`s), the stack is cut back to `st`, `pc` is `a`,
    the state is `inputRedo` and the caller sees `Running` — everything else is as the failing
    instruction left it.  The shape of the failing stack is a hypothesis: it fails when a target's
    subscript calls a user function that raises (its own `ret` is then the nearest one). -/
theorem redo_restores_stack (env : Env) (s s1 : Runtime) (k : Nat) (e : Error) (st : Array Val)
    (a : Nat) (vs : List Val)
    (hstate : s.state = .inputRunning) (hde : s.listing.directErrors.isEmpty = true)
    (hrun : ((executeLoop env k).run).run s = (.error e, s1))
    (hs1 : s1.state = .inputRunning)
    (hstack : s1.stack = st.push (.ret a) ++ vs.toArray)
    (hvs : ∀ v ∈ vs, ∀ b, v ≠ .ret b) :
    execute env s k = ({ s1 with stack := st, pc := a, state := .inputRedo }, Event.running) := by
  unfold execute
  simp only [hstate, hde, Bool.not_true, Bool.false_eq_true, if_false, hrun, hs1, if_true]
  rw [hstack, unwind_to_ret st a vs hvs _ (by simp; omega)]
  rfl

/-- … in particular, right after a reply was accepted from a state `s0` (stack
    `s0.stack ++ [ret s0.pc, fields…]`), a failure anywhere before another `ret` is pushed and left
    on the stack restores exactly `s0.stack` and `s0.pc`: the retry is atomic per reply. -/
theorem redo_restores_input_stack (env : Env) (s0 s s1 : Runtime) (k : Nat) (e : Error)
    (vs : List Val)
    (hstate : s.state = .inputRunning) (hde : s.listing.directErrors.isEmpty = true)
    (hrun : ((executeLoop env k).run).run s = (.error e, s1))
    (hs1 : s1.state = .inputRunning)
    (hstack : s1.stack = s0.stack.push (.ret s0.pc) ++ vs.toArray)
    (hvs : ∀ v ∈ vs, ∀ b, v ≠ .ret b) :
    (execute env s k).1.stack = s0.stack ∧ (execute env s k).1.pc = s0.pc ∧
    (execute env s k).1.state = .inputRedo := by
  rw [redo_restores_stack env s s1 k e s0.stack s0.pc vs hstate hde hrun hs1 hstack hvs]
  exact ⟨rfl, rfl, rfl⟩

/-- without any `ret` on the failing stack the stack is emptied and `pc` stays -/
theorem redo_no_ret (env : Env) (s s1 : Runtime) (k : Nat) (e : Error)
    (hstate : s.state = .inputRunning) (hde : s.listing.directErrors.isEmpty = true)
    (hrun : ((executeLoop env k).run).run s = (.error e, s1))
    (hs1 : s1.state = .inputRunning)
    (hst : ∀ v ∈ s1.stack.toList, ∀ b, v ≠ .ret b) :
    execute env s k = ({ s1 with stack := #[], state := .inputRedo }, Event.running) := by
  unfold execute
  simp only [hstate, hde, Bool.not_true, Bool.false_eq_true, if_false, hrun, hs1, if_true]
  rw [unwind_no_ret s1.stack hst _ (by omega)]
  rfl

/-! ### non-vacuity -/

example : fields "a,\"b,c\",d".toList = ["a".toList, "\"b,c\"".toList, "d".toList] := by decide
example : fields "".toList = [[]] := by decide
example : fields ",".toList = [[], []] := by decide
example : fields "1,\"x".toList = ["1".toList, "\"x".toList] := by decide
example : commasOutside "a,\"b,c\",d".toList false = 2 := by decide
example : List.intercalate [','] (fields "a,\"b,c\",d".toList) = "a,\"b,c\",d".toList := by decide
example : stripQuotes "\"a,b\"".toList = "a,b".toList := by decide
example : stripQuotes "\"".toList = "\"".toList := by decide
example : stripQuotes "\"\"x\"\"".toList = "\"x\"".toList := by decide
example : convertField "A$".toList "  \"hi\" ".toList = .str "hi".toList := by decide
example : convertField "A".toList "   ".toList = .int 0 := by decide
example : convertField "A%".toList " &H1F ".toList = .int 31 := by decide
example : convertField "A".toList "&17".toList = .int 15 := by decide
-- unconvertible text reaches the assignment as a `str`, which a numeric target then refuses
example : convertField "A".toList "x".toList = .str "x".toList := by decide

/-- a two-target INPUT with a two-field reply is accepted -/
example : (doInputReply { stack := #[.str "P".toList, .int 0, .int 2], state := .input, pc := 7 }
      "1,2".toList).1.stack =
    #[.str "P".toList, .int 0, .int 2, .ret 7, .str "2".toList, .str "1".toList] := by decide
/-- … and with a one-field reply it is refused -/
example : (doInputReply { stack := #[.str "P".toList, .int 0, .int 2], state := .input, pc := 7 }
      "1".toList).1.state = .inputRedo := by decide
example : Runtime.execute.unwind 5 #[.int 1, .ret 9, .str [], .nxt 3] = (#[.int 1], some 9) := by
  decide

end Thm.C17
end Basic
