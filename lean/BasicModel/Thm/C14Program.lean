import BasicModel.Thm.C14
import BasicModel.Lemmas.RenumRun
import BasicModel.Lemmas.RenumCompile
import BasicModel.Thm.C20Layout
/-
  C14 — RENUM, the part that lives in the virtual machine (`Runtime.doRenum`, `Opcode.renum`).

  The rewriting of the lines themselves (`Line::renum`, `Listing.renum`) is in `Thm/C14.lean` and
  `Thm/C15.lean` (first lemma chain); this file sits in the second chain (`BasicModelRt.lean`) and
  says what the *machine state* looks like after the instruction — in particular the clause
  "a RENUM that would fail changes nothing".

  What is true in the model:
  * RENUM is refused inside a program (`pc < entryAddress`: ILLEGAL DIRECT) and — returning the
    compile errors as its event — while the listing has compile errors; in both cases the state is
    exactly the state before (`renum_refused_in_program`, `renum_refused_with_errors`).
  * Otherwise the operands are popped (`step` first, then `oldStart`, then `newStart`) and converted
    to `u16`; then `Listing.renum` computes the plan.  If any of this fails the error is thrown and
    the state differs from the initial one *only in the operand stack*, which has lost the operands
    popped so far (`renum_failure_changes_nothing`).  `execute` then handles the error like that of
    any other direct statement: it leaves listing, `dirty`, program, variables and DEF FN table
    alone, but empties the stack and cancels the CONT point (`renum_failure_through_execute`).
  * On success the listing is replaced, `dirty` is set (so the next direct line recompiles,
    `Thm.C04.enterDirect_recompiles`), and nothing resumable is left: `cont = stopped`, empty
    stack, empty DEF FN table, `state = stopped` (`renum_success_state`).  The variables are kept.
    The final `r#end` is the identity there.
  * RENUM therefore only ever rewrites a listing whose recorded diagnostics are empty
    (`renum_runs_only_error_free`); under the invariant `Runtime.Inv` and `dirty = false` these are
    the diagnostics of compiling the current listing, so every line parses and the linker found
    no dangling reference (`renum_runs_only_on_clean_program`, `renum_runs_only_on_parsed_lines`).
-/
/-
  Second part of this file (`## RENUM and the compiled program`): the compiled programs of the old
  and of the renumbered listing correspond (`renum_preserves_code`, `renum_preserves_running_program`,
  `renum_run_preserves_code`); proofs in `Lemmas/RenumRel … RenumCompile.lean`.

  Findings (the model executed with `#eval`; the Rust code has the same logic):
  * `10 LIST 100-150` / `100 END` compiles without errors, so RENUM is accepted; `RENUM 1000` gives
    `1000 LIST 1010-150`, which no longer parses (UNDEFINED LINE "INVALID RANGE", `from > to`): an operand
    naming a line that does not exist is left alone while its partner moves.  A clean program becomes
    one with a compile error — the hypothesis `RenumParses` fails for this listing.
  * `10 GOTO 150` / `100 END`, `RENUM 140`: at the level of `Listing.renum` the dangling reference becomes
    a defined one (`140 GOTO 150` / `150 END`) — hypothesis `RefsStable`; the machine refuses this RENUM
    because the listing has a compile error (`renum_refused_with_errors`).
  * a line that does not parse keeps its number, so lines can be lost or reordered
    (`renum_unparsable_line_lost` in `Thm/C14.lean`); again refused by the machine.
  * known residue: `1 END` / `10 ON X GOTO 1,1,…` (250 operands, 512 characters), `RENUM 60000` gives a
    line of 1515 characters, more than the 1024-byte line buffer: it parses, but can no longer be loaded.
-/
namespace Basic
namespace Thm.C14
open Basic.Runtime

/-! ### RENUM at run time -/

/-- **The whole of `doRenum`.**  With `renumArgs` (the three operands popped off the bare stack:
    `step` from the top, `oldStart` below, `newStart` below that — result and remaining stack) and
    `renumed s l = { s with listing := l, dirty := true, cont := stopped, stack := #[],
    functions := [], state := stopped }`:
    1. inside a program: ILLEGAL DIRECT, state unchanged;
    2. listing with compile errors: the event `errors …`, state unchanged;
    3. an operand missing or not a `u16`: that error, only `stack` changed;
    4. `Listing.renum` fails (step 0, new numbers overlapping kept lines, overflow): that error,
       only `stack` changed (all three operands popped);
    5. success: the event `stopped` and the state `renumed s l`. -/
theorem doRenum_run (env : Env) (s : Runtime) :
    (doRenum env).run.run s =
      if s.pc < s.entryAddress then (.error (Error.mk' Code.illegalDirect), s)
      else if s.listing.indirectErrors ≠ [] then (.ok (.errors s.listing.indirectErrors), s)
      else match renumArgs s.stack with
        | (.error e, st) => (.error e, { s with stack := st })
        | (.ok (newStart, oldStart, step), st) =>
          match s.listing.renum env.lineRenum newStart oldStart step with
          | .error e => (.error e, { s with stack := st })
          | .ok l => (.ok .stopped, renumed s l) :=
  Runtime.doRenum_run env s

/-- the operands in the order the compiled statement pushes them (`newStart`, `oldStart`, `step`):
    they are converted from the top, and a failing conversion leaves the operands below on the stack -/
theorem renum_operands (rest : Array Val) (vNew vOld vStep : Val) :
    renumArgs (((rest.push vNew).push vOld).push vStep) =
      match vStep.toU16 with
      | .error e => (.error e, (rest.push vNew).push vOld)
      | .ok step =>
        match vOld.toU16 with
        | .error e => (.error e, rest.push vNew)
        | .ok oldStart =>
          match vNew.toU16 with
          | .error e => (.error e, rest)
          | .ok newStart => (.ok (newStart, oldStart, step), rest) :=
  renumArgs_push3 rest vNew vOld vStep

/-- with fewer than three values on the stack the error is the stack's UNDERFLOW (an internal
    error: the compiler always pushes three); whatever was there has been popped -/
theorem renum_operands_missing (v w : Val) (a b : Nat) (hv : v.toU16 = .ok a) (hw : w.toU16 = .ok b) :
    renumArgs #[] = (.error underflow, #[]) ∧
    renumArgs #[v] = (.error underflow, #[]) ∧
    renumArgs #[w, v] = (.error underflow, #[]) := by
  refine ⟨rfl, ?_, ?_⟩
  · show renumArgs ((#[] : Array Val).push v) = _
    unfold renumArgs
    rw [popU16_push, hv]
    rfl
  · show renumArgs (((#[] : Array Val).push w).push v) = _
    unfold renumArgs
    rw [popU16_push, hv]
    dsimp only
    rw [popU16_push, hw]
    rfl

/-- the final `r#end` of a successful RENUM changes nothing -/
theorem renum_final_end_is_identity (s : Runtime) (l : Listing) (h : ¬ s.pc < s.entryAddress) :
    doEnd { s with listing := l, dirty := true, cont := .stopped, stack := #[], functions := [],
                   state := .stopped } =
      { s with listing := l, dirty := true, cont := .stopped, stack := #[], functions := [],
               state := .stopped } :=
  doEnd_renumed s l h

/-- RENUM inside a program (the instruction lies below the direct segment) is refused with
    ILLEGAL DIRECT before anything is touched — not even the operands are popped -/
theorem renum_refused_in_program (env : Env) (s : Runtime) (h : s.pc < s.entryAddress) :
    (doRenum env).run.run s = (.error (Error.mk' Code.illegalDirect), s) := by
  rw [Runtime.doRenum_run, if_pos h]

/-- RENUM of a listing with (recorded) compile errors is refused: the event carries the errors,
    no error is thrown, and the state — operands included — is exactly the state before -/
theorem renum_refused_with_errors (env : Env) (s : Runtime) (hp : ¬ s.pc < s.entryAddress)
    (he : s.listing.indirectErrors ≠ []) :
    (doRenum env).run.run s = (.ok (.errors s.listing.indirectErrors), s) := by
  rw [Runtime.doRenum_run, if_neg hp, if_pos he]

/-- **A RENUM that fails changes nothing.**  Whatever `doRenum` returns other than
    `Ok(Event::Stopped)` — ILLEGAL DIRECT, the compile errors, a bad operand, step 0, an overlap,
    an overflow — the final state is the initial state with at most three values popped off the
    operand stack; in particular the listing (lines and diagnostics), `dirty`, the compiled
    program, the variables, the CONT point and the DEF FN table are untouched. -/
theorem renum_failure_changes_nothing (env : Env) (s t : Runtime) (r : Except Error Event)
    (h : (doRenum env).run.run s = (r, t)) (hf : r ≠ .ok .stopped) :
    (∃ st, t = { s with stack := st } ∧
      (st = s.stack ∨ st = s.stack.pop ∨ st = s.stack.pop.pop ∨ st = s.stack.pop.pop.pop)) ∧
    t.listing = s.listing ∧ t.dirty = s.dirty ∧ t.program = s.program ∧ t.vars = s.vars ∧
    t.cont = s.cont ∧ t.contPc = s.contPc ∧ t.functions = s.functions ∧ t.state = s.state ∧
    t.pc = s.pc ∧ t.entryAddress = s.entryAddress := by
  obtain ⟨st, rfl, hst⟩ := doRenum_failure h hf
  exact ⟨⟨st, rfl, hst⟩, rfl, rfl, rfl, rfl, rfl, rfl, rfl, rfl, rfl, rfl⟩

/-- in particular every *thrown* error is such a failure -/
theorem renum_error_changes_nothing (env : Env) (s t : Runtime) (e : Error)
    (h : (doRenum env).run.run s = (.error e, t)) :
    (∃ st, t = { s with stack := st }) ∧ t.listing = s.listing ∧ t.dirty = s.dirty ∧
    t.program = s.program ∧ t.vars = s.vars ∧ t.cont = s.cont ∧ t.functions = s.functions := by
  obtain ⟨⟨st, hst, _⟩, h1, h2, h3, h4, h5, _, h6, _⟩ :=
    renum_failure_changes_nothing env s t _ h (fun hc => by cases hc)
  exact ⟨⟨st, hst⟩, h1, h2, h3, h4, h5, h6⟩

/-- the listing-level failure spelled out: three good operands, but `Listing.renum` refuses (for
    instance a step of 0, `renum_step_zero_refused`) — all three operands are gone, nothing else -/
theorem renum_plan_failure (env : Env) (s : Runtime) (rest : Array Val) (vNew vOld vStep : Val)
    (n o k : Nat) (e : Error) (hp : ¬ s.pc < s.entryAddress) (he : s.listing.indirectErrors = [])
    (hs : s.stack = ((rest.push vNew).push vOld).push vStep)
    (hn : vNew.toU16 = .ok n) (ho : vOld.toU16 = .ok o) (hk : vStep.toU16 = .ok k)
    (hl : s.listing.renum env.lineRenum n o k = .error e) :
    (doRenum env).run.run s = (.error e, { s with stack := rest }) := by
  rw [Runtime.doRenum_run, if_neg hp, if_neg (fun h => h he), hs, renumArgs_push3, hk, ho, hn]
  dsimp only
  rw [hl]

/-- `RENUM new, old, 0`: ILLEGAL FUNCTION CALL, whatever the listing and the other operands -/
theorem renum_step_zero_refused (env : Env) (s : Runtime) (rest : Array Val) (vNew vOld vStep : Val)
    (n o : Nat) (hp : ¬ s.pc < s.entryAddress) (he : s.listing.indirectErrors = [])
    (hs : s.stack = ((rest.push vNew).push vOld).push vStep)
    (hn : vNew.toU16 = .ok n) (ho : vOld.toU16 = .ok o) (hk : vStep.toU16 = .ok 0) :
    (doRenum env).run.run s = (.error (Error.mk' Code.illegalFunctionCall), { s with stack := rest }) :=
  renum_plan_failure env s rest vNew vOld vStep n o 0 _ hp he hs hn ho hk
    (listing_renum_step_zero env.lineRenum s.listing n o)

/-- **A successful RENUM.**  The event `stopped` is returned on the success path only; then the
    instruction ran in a direct line on a listing without recorded compile errors, the three operands
    were on the stack, `Listing.renum` succeeded with some `l`, and the final state is the initial
    one with
    * `listing = l`: the lines rewritten by `env.lineRenum` with the plan and stored under their new
      numbers; the diagnostics (empty / the direct-mode ones) are carried over;
    * `dirty = true`: the compiled program — left in place — is stale, and the next direct line
      recompiles from `l` before it runs (`Thm.C04.enterDirect_recompiles`);
    * nothing resumable: `cont = stopped`, `stack = #[]`, `functions = []`, and `state = stopped`;
    * everything else — variables, `pc`, `entryAddress`, `contPc`, TRON, print column — unchanged. -/
theorem renum_success_state (env : Env) (s t : Runtime) (h : (doRenum env).run.run s = (.ok .stopped, t)) :
    ∃ newStart oldStart step st l changes,
      renumArgs s.stack = (.ok (newStart, oldStart, step), st) ∧
      s.listing.renum env.lineRenum newStart oldStart step = .ok l ∧
      Listing.renumPlan (s.listing.source.map (·.1)) newStart oldStart step = .ok changes ∧
      l = { s.listing with source := Listing.rebuild (s.listing.lines.map (env.lineRenum changes)),
                           rooted := !s.listing.source.isEmpty } ∧
      t = { s with listing := l, dirty := true, cont := .stopped, stack := #[], functions := [],
                   state := .stopped } ∧
      t.listing = l ∧ t.dirty = true ∧ t.cont = .stopped ∧ t.stack = #[] ∧ t.functions = [] ∧
      t.state = .stopped ∧ t.vars = s.vars ∧ t.program = s.program ∧ t.pc = s.pc ∧
      t.entryAddress = s.entryAddress ∧ t.listing.indirectErrors = [] ∧
      t.listing.directErrors = s.listing.directErrors := by
  obtain ⟨_, he, n, o, k, st, l, ha, hl, rfl⟩ := doRenum_success h
  obtain ⟨ch, hc, rfl⟩ := listing_renum_ok hl
  exact ⟨n, o, k, st, _, ch, ha, hl, hc, rfl, rfl, rfl, rfl, rfl, rfl, rfl, rfl, rfl, rfl, rfl, rfl, he, rfl⟩

/-- the converse: three good operands and a plan that works out -/
theorem renum_succeeds (env : Env) (s : Runtime) (rest : Array Val) (vNew vOld vStep : Val)
    (n o k : Nat) (l : Listing) (hp : ¬ s.pc < s.entryAddress) (he : s.listing.indirectErrors = [])
    (hs : s.stack = ((rest.push vNew).push vOld).push vStep)
    (hn : vNew.toU16 = .ok n) (ho : vOld.toU16 = .ok o) (hk : vStep.toU16 = .ok k)
    (hl : s.listing.renum env.lineRenum n o k = .ok l) :
    (doRenum env).run.run s =
      (.ok .stopped, { s with listing := l, dirty := true, cont := .stopped, stack := #[],
                              functions := [], state := .stopped }) := by
  rw [Runtime.doRenum_run, if_neg hp, if_neg (fun h => h he), hs, renumArgs_push3, hk, ho, hn]
  dsimp only
  rw [hl]
  rfl

/-- after a successful RENUM the next direct line compiles the *renumbered* listing -/
theorem renum_then_direct_recompiles (env : Env) (s t : Runtime) (line : Line)
    (h : (doRenum env).run.run s = (.ok .stopped, t)) :
    (enterDirect t line).program =
      (((s.program.clear).codegenLines t.listing.lines).codegenLine line).linkProg ∧
    (enterDirect t line).dirty = false := by
  obtain ⟨_, _, _, _, _, _, _, _, _, _, ht, _⟩ := renum_success_state env s t h
  have hd : t.dirty = true := by rw [ht]
  have hpr : t.program = s.program := by rw [ht]
  have := C04.enterDirect_recompiles t line hd
  rw [hpr] at this
  exact this

/-- **RENUM only ever runs on a listing without recorded compile errors**: if the instruction
    returned `stopped` — equivalently (`renum_changed_listing`), if it changed the listing at all —
    then it was executed in a direct line and `listing.indirectErrors` was empty -/
theorem renum_runs_only_error_free (env : Env) (s t : Runtime)
    (h : (doRenum env).run.run s = (.ok .stopped, t)) :
    s.listing.indirectErrors = [] ∧ ¬ s.pc < s.entryAddress :=
  ⟨(doRenum_success h).2.1, (doRenum_success h).1⟩

/-- a `doRenum` that changed the listing (or `dirty`, the CONT point, the DEF FN table, `state`)
    went down the success path -/
theorem renum_changed_listing (env : Env) (s : Runtime)
    (hc : ((doRenum env).run.run s).2.listing ≠ s.listing) :
    ((doRenum env).run.run s).1 = .ok .stopped ∧ s.listing.indirectErrors = [] ∧
    ¬ s.pc < s.entryAddress := by
  rcases hr : (doRenum env).run.run s with ⟨r, t⟩
  rw [hr] at hc
  have key : r = .ok .stopped := by
    apply Classical.byContradiction
    intro hne
    exact hc (renum_failure_changes_nothing env s t r hr hne).2.1
  subst key
  exact ⟨rfl, renum_runs_only_error_free env s t hr⟩

/-- under the invariant of `Thm/C04` (`Runtime.Inv`: holds in every state reachable through the
    API, `Thm.C04.inv_reachable`) and with nothing edited since the last compile (`dirty = false`,
    the situation right after `enterDirect`), the recorded diagnostics are those of compiling the
    current listing from scratch: RENUM only renumbers **a listing that compiles without errors**.
    (`dirty = false` cannot be dropped: the API accepts a numbered line while a direct line is
    still running — `enter` in state `running` — and then `listing.indirectErrors` is stale.) -/
theorem renum_runs_only_on_clean_program (env : Env) (s t : Runtime) (hi : Inv s) (hd : s.dirty = false)
    (h : (doRenum env).run.run s = (.ok .stopped, t)) :
    (Program.compile s.listing.lines).indirectErrors = [] ∧
    (freshBase s.listing).indirectErrors = [] ∧
    s.program.linkProg.indirectErrors = [] := by
  have he := (renum_runs_only_error_free env s t h).1
  obtain ⟨h1, _, _, _, _, h6⟩ := C04.inv_spelled_out s hi hd
  rw [he] at h6
  exact ⟨h6.symm, by rw [freshBase_indirectErrors]; exact h6.symm, by rw [h1]; exact h6.symm⟩

/-- … and for a well-formed store (`Thm.C15.WF`: every line is stored under its own number —
    preserved by all store operations) this means: **every line of the listing parses, and the
    linker had nothing to report** (no branch, RESTORE or RUN to a missing line, no unmatched
    WHILE / WEND): the hypotheses "every line parses" and "no dangling references" of the
    compile-correspondence theorem hold whenever RENUM actually rewrites the listing -/
theorem renum_runs_only_on_parsed_lines (env : Env) (s t : Runtime) (hi : Inv s) (hd : s.dirty = false)
    (hw : C15.WF s.listing) (h : (doRenum env).run.run s = (.ok .stopped, t)) :
    (∀ l ∈ s.listing.lines, ∃ ast, Parse.parse l.number l.tokens = .ok ast) ∧
    (Program.ensureEnd (({} : Program).codegenLines s.listing.lines)).link.link.2 = [] ∧
    (∀ n, (∀ l ∈ s.listing.lines, l.number ≠ some n) → Program.NoRef n s.listing.lines) := by
  have hc := (renum_runs_only_on_clean_program env s t hi hd h).1
  have hnum := numbered_of_wf hw
  obtain ⟨h1, h2⟩ := Program.compile_clean_lines_parse _ hnum hc
  exact ⟨h1, h2, fun n hn => Program.noRef_of_clean _ hnum n hn hc⟩

/-! #### the instruction inside `step` and `execute` -/

/-- `step` on the instruction RENUM (tracing off): `pc` is advanced past it, `doRenum` runs in
    that state, and its event — `stopped` or `errors …` — ends the slice; an error is passed on -/
theorem step_renum (env : Env) (h : Bool) (s : Runtime) (ht : s.tron = false)
    (hop : s.program.link.ops[s.pc]? = some .renum) :
    (step env h).run.run s =
      match (doRenum env).run.run { s with pc := s.pc + 1 } with
      | (.ok e, t) => (.ok (.event e), t)
      | (.error e, t) => (.error e, t) :=
  step_renum_run env h s ht hop

/-- with TRON the `step` may first print the trace marker, leaving RENUM as the next instruction;
    otherwise it is `step_renum` with `tr` updated -/
theorem step_renum_traced (env : Env) (h : Bool) (s : Runtime)
    (hop : s.program.link.ops[s.pc]? = some .renum) :
    (∃ text tr col, (step env h).run.run s =
        (.ok (.event (.print text)), { s with tr := tr, printCol := col })) ∨
    (∃ tr, (step env h).run.run s =
      match (doRenum env).run.run { s with tr := tr, pc := s.pc + 1 } with
      | (.ok e, t) => (.ok (.event e), t)
      | (.error e, t) => (.error e, t)) :=
  step_renum_cases env h s hop

/-- RENUM as the instruction of a program line (`pc + 1 < entryAddress`): the step throws ILLEGAL
    DIRECT and only `pc` has moved -/
theorem step_renum_in_program (env : Env) (h : Bool) (s : Runtime) (ht : s.tron = false)
    (hop : s.program.link.ops[s.pc]? = some .renum) (hp : s.pc + 1 < s.entryAddress) :
    (step env h).run.run s = (.error (Error.mk' Code.illegalDirect), { s with pc := s.pc + 1 }) := by
  rw [step_renum env h s ht hop, renum_refused_in_program env _ hp]

/-- a step that changed the listing by RENUM: the listing had no recorded compile errors.
    (With `Thm.C04.listing_changed_only_by_edit`: a step changes the listing only by DELETE, RENUM
    or NEW.) -/
theorem step_renum_changed_listing (env : Env) (h : Bool) (s : Runtime)
    (hop : s.program.link.ops[s.pc]? = some .renum)
    (hc : ((step env h).run.run s).2.listing ≠ s.listing) :
    s.listing.indirectErrors = [] ∧ ((step env h).run.run s).2.dirty = true := by
  rcases step_renum_traced env h s hop with ⟨text, tr, col, he⟩ | ⟨tr, he⟩
  · rw [he] at hc; exact absurd rfl hc
  · rw [he] at hc ⊢
    rcases hr : (doRenum env).run.run { s with tr := tr, pc := s.pc + 1 } with ⟨r, t⟩
    rw [hr] at hc
    have hc' : ((doRenum env).run.run { s with tr := tr, pc := s.pc + 1 }).2.listing ≠
        ({ s with tr := tr, pc := s.pc + 1 } : Runtime).listing := by
      rw [hr]
      cases r <;> exact hc
    obtain ⟨h1, h2, _⟩ := renum_changed_listing env _ hc'
    rw [hr] at h1
    dsimp only at h1
    subst h1
    obtain ⟨_, _, _, _, _, _, _, _, _, _, _, _, hdirty, _⟩ := renum_success_state env _ t hr
    exact ⟨h2, hdirty⟩

/-- what `execute` makes of the error a failed RENUM throws (`Runtime.finishLoop`, the tail of
    `execute`): listing, `dirty`, compiled program, variables and DEF FN table stay as they are —
    so at the level of the API, too, a failing RENUM changes nothing of the program or its data —
    but, as after an error in any direct statement, the operand stack is emptied and the CONT point
    is cancelled, and the state becomes `runtimeError` (reported by the next `execute`) -/
theorem renum_failure_through_execute (env : Env) (s t : Runtime) (e : Error)
    (h : (doRenum env).run.run s = (.error e, t)) :
    (finishLoop (.error e) t).1.listing = s.listing ∧ (finishLoop (.error e) t).1.dirty = s.dirty ∧
    (finishLoop (.error e) t).1.program = s.program ∧ (finishLoop (.error e) t).1.vars = s.vars ∧
    (finishLoop (.error e) t).1.functions = s.functions ∧
    (s.state ≠ .inputRunning → ¬ s.pc < s.entryAddress →
      (finishLoop (.error e) t).1.stack = #[] ∧ (finishLoop (.error e) t).1.cont = .stopped ∧
      (finishLoop (.error e) t).1.state = .runtimeError (e.inLine (lineNumber s))) := by
  obtain ⟨⟨st, rfl⟩, -⟩ := renum_error_changes_nothing env s t e h
  obtain ⟨h1, h2, h3, h4, h5, _⟩ := finishLoop_error_fields e { s with stack := st }
  refine ⟨h1, h2, h3, h4, h5, ?_⟩
  intro hs hp
  rw [(finishLoop_error_direct e { s with stack := st } hs hp).1]
  exact ⟨rfl, rfl, rfl⟩

/-! #### non-vacuity -/

/-- the numbering part of `Line::renum` as the rewriter -/
def envN : Env := { lex := fun _ => ⟨none, []⟩, lineRenum := Listing.renumNumberOnly }

def l10 : Line := ⟨some 10, [.word .cls]⟩
def l20 : Line := ⟨some 20, [.word .end]⟩

/-- stopped in a direct line (`pc ≥ entryAddress`) with a CONT point, a DEF FN, something below the
    operands on the stack, and the operands of `RENUM 100, 0, step`: `newStart` is pushed first,
    `step` last -/
def st (step : Int16) : Runtime :=
  { state := .running, cont := .running, contPc := 3, pc := 9, entryAddress := 4,
    stack := #[.ret 7, .int 100, .int 0, .int step], functions := [("FNA".toList, (1, 4))],
    listing := { source := [(10, l10), (20, l20)], rooted := true }, dirty := false }

/-- `RENUM 100, 0, 0`: ILLEGAL FUNCTION CALL; the three operands are gone, the rest is as before -/
example : (doRenum envN).run.run (st 0) =
    (.error (Error.mk' Code.illegalFunctionCall), { st 0 with stack := #[.ret 7] }) :=
  renum_step_zero_refused envN (st 0) #[.ret 7] (.int 100) (.int 0) (.int 0) 100 0
    (by decide) rfl rfl (by decide) (by decide) (by decide)

example : ((doRenum envN).run.run (st 0)).2.listing.source = [(10, l10), (20, l20)] ∧
    ((doRenum envN).run.run (st 0)).2.cont = .running ∧ ((doRenum envN).run.run (st 0)).2.dirty = false ∧
    ((doRenum envN).run.run (st 0)).2.functions = [("FNA".toList, (1, 4))] ∧
    ((doRenum envN).run.run (st 0)).2.stack = #[.ret 7] := by
  rw [renum_step_zero_refused envN (st 0) #[.ret 7] (.int 100) (.int 0) (.int 0) 100 0
    (by decide) rfl rfl (by decide) (by decide) (by decide)]
  exact ⟨rfl, rfl, rfl, rfl, rfl⟩

/-- `RENUM 100, 0, 10`: lines 10, 20 become 100, 110; nothing resumable is left -/
example : (doRenum envN).run.run (st 10) =
    (.ok .stopped,
     { st 10 with listing := { source := [(100, ⟨some 100, [.word .cls]⟩), (110, ⟨some 110, [.word .end]⟩)],
                               rooted := true },
                  dirty := true, cont := .stopped, stack := #[], functions := [], state := .stopped }) :=
  renum_succeeds envN (st 10) #[.ret 7] (.int 100) (.int 0) (.int 10) 100 0 10 _
    (by decide) rfl rfl (by decide) (by decide) (by decide) rfl

/-- an operand that is not a number: TYPE MISMATCH after `step` and the offending value have been
    popped; `newStart` stays on the stack -/
example : (doRenum envN).run.run { st 10 with stack := #[.int 100, .str [], .int 10] } =
    (.error (Error.mk' Code.typeMismatch), { st 10 with stack := #[.int 100] }) := by
  rw [Runtime.doRenum_run, if_neg (by decide), if_neg (by decide)]
  have h : renumArgs ({ st 10 with stack := #[.int 100, .str [], .int 10] } : Runtime).stack =
      (.error (Error.mk' Code.typeMismatch), #[.int 100]) :=
    renum_operands #[] (.int 100) (.str []) (.int 10)
  rw [h]

/-- inside a program, and with recorded compile errors -/
example : (doRenum envN).run.run { st 10 with pc := 2 } =
    (.error (Error.mk' Code.illegalDirect), { st 10 with pc := 2 }) :=
  renum_refused_in_program envN _ (by decide)
example (e : Error) :
    (doRenum envN).run.run { st 10 with listing := { (st 10).listing with indirectErrors := [e] } } =
    (.ok (.errors [e]), { st 10 with listing := { (st 10).listing with indirectErrors := [e] } }) :=
  renum_refused_with_errors envN _ (show ¬ (9 : Nat) < 4 by decide) (List.cons_ne_nil _ _)

/-- the initial state satisfies the hypotheses `Inv` and `dirty = false` of
    `renum_runs_only_on_clean_program` -/
example : Inv ({} : Runtime) ∧ ({} : Runtime).dirty = false ∧ C15.WF ({} : Runtime).listing :=
  ⟨inv_init, rfl, C15.wf_empty⟩

/-! ## RENUM and the compiled program

  `φ = Listing.renumMap ch` is the renumbering of the plan `ch`.  The compiled programs of the old and
  of the renumbered listing are related by `RenumRel.ProgRel φ K` (`K` = the line numbers of the old
  listing and the mark 65530 of the direct segment), that is:

  * `ops`: `RenumRel.OpsRel φ` — instruction by instruction the same, except that the two
    line-number literals which `LIST a-b` / `DELETE a-b` push in front of their opcode carry the new
    numbers (or the same ones: the bounds 0 / 65529 of an open range, which are not written in the
    source, are kept).  These are the only operands that are compiled as run-time literals; GOTO,
    GOSUB, THEN / ELSE n, ON … lists, RESTORE n and RUN n are link-time references, and the linker
    resolves them to **identical addresses** on both sides (`renum_targets_identical`);
  * `data`, `directAddress`, `dataPos`: equal;
  * `symbols`: the old table with its keys mapped by `φ` (`renum_symbol_table`), so
    `lineNumberFor` — error reports, TRON — gives `φ` of the old line (`renum_lineNumberFor`);
  * diagnostics: the same kinds in the same order (`RenumRel.ErrRel`: code and message; line and
    column differ), in particular the renumbered listing compiles without errors iff the old one does.

  Hypotheses: `WF l`; `RenumParses l ch` — every line parses, and so does its rewritten version, to
  the same statements up to columns with the line-number operands renumbered (`RenumRel.StmtRel`).
  This is the lexer / parser fact that is *not* proved here: `lineRenum` re-lexes the listed text with
  the digits replaced (`lineRenum_replacements`), and relating that text to the old syntax tree needs
  the round-trip property of the lexer for the spliced text and that `Float32.ofNat` (opaque) is exact
  on line numbers.  And: every pending reference resolves alike in both tables (`RefsStable`), which
  holds when no reference dangles — in particular when the old listing compiles without errors
  (`renum_preserves_code_clean`), the only situation in which the machine executes RENUM at all
  (`renum_run_preserves_code`). -/

section Compile
open RenumRel Program

/-- **the named hypothesis** about a particular listing and plan: every stored line parses, its
    rewritten version parses too, and the two statement lists are equal up to columns with every
    line-number operand `n` replaced by `renumMap ch n` -/
def RenumParses (l : Listing) (ch : List (Nat × Nat)) : Prop :=
  ∀ p ∈ l.source, ∃ ast ast', Parse.parse p.2.number p.2.tokens = .ok ast ∧
    Parse.parse (Lex.lineRenum ch p.2).number (Lex.lineRenum ch p.2).tokens = .ok ast' ∧
    StmtsRel (Listing.renumMap ch) ast ast'

theorem RenumParses.allParse {l : Listing} {ch : List (Nat × Nat)} (h : RenumParses l ch) : l.AllParse :=
  fun p hp => let ⟨ast, _, h1, _⟩ := h p hp; ⟨ast, h1⟩

/-- every pending reference of the old program (after WHILE / WEND matching) is a local label, or
    resolves in the renumbered symbol table to what it resolved to before.  Dangling references to a
    number that becomes a line number by the RENUM are what this excludes. -/
def RefsStable (l : Listing) (ch : List (Nat × Nat)) : Prop :=
  ∀ q ∈ (({} : Program).codegenLines l.lines).link.linkWhiles.1.unlinked,
    q.2.2 < 0 ∨ RefOK (Listing.renumMap ch) (({} : Program).codegenLines l.lines).link.symbols q.2.2

theorem mem_lineSet {l : Listing} (hl : C15.WF l) {n : Nat} :
    (∃ x ∈ l.lines, x.number = some n) ↔ n ∈ l.source.map (·.1) := by
  constructor
  · rintro ⟨x, hx, hn⟩
    obtain ⟨p, hp, rfl⟩ := List.mem_map.1 hx
    rw [hl.coherent p hp] at hn
    cases hn
    exact List.mem_map.2 ⟨p, hp, rfl⟩
  · intro hn
    obtain ⟨p, hp, rfl⟩ := List.mem_map.1 hn
    exact ⟨p.2, List.mem_map.2 ⟨p, hp, rfl⟩, hl.coherent p hp⟩

/-- the renumbering of a successful plan is strictly monotone on the line numbers of the listing
    and keeps the mark 65530 of the direct segment -/
theorem renum_lineMap {l : Listing} {a b c : Nat} {ch : List (Nat × Nat)} (hl : C15.WF l)
    (h : Listing.renumPlan (l.source.map (·.1)) a b c = .ok ch) :
    LineMap (Listing.renumMap ch) (LineSet l.lines) := by
  have hs := Listing.keys_pairwise hl
  have hb := Listing.keys_bounded hl
  have htop : Listing.renumMap ch (Gen.maxLineNumber + 1) = Gen.maxLineNumber + 1 := by
    apply Listing.renumMap_not_key h
    intro hk
    have := hb _ hk
    simp only [Gen.maxLineNumber, maxLineNumber] at this
    omega
  have hle : ∀ k, (∃ x ∈ l.lines, x.number = some k) → k ≤ Gen.maxLineNumber ∧
      Listing.renumMap ch k ≤ Gen.maxLineNumber := by
    intro k hk
    have hk' := (mem_lineSet hl).1 hk
    exact ⟨hb k hk', Listing.renumMap_le hs hb h k hk'⟩
  refine ⟨?_, .inr rfl, htop, ?_⟩
  · intro i j hi hj hij
    rcases hi with hi | rfl
    · rcases hj with hj | rfl
      · exact Listing.renumMap_strictMono hs hb h i j ((mem_lineSet hl).1 hi) ((mem_lineSet hl).1 hj) hij
      · rw [htop]; have := (hle i hi).2; omega
    · rcases hj with hj | rfl
      · have := (hle j hj).1; omega
      · omega
  · intro k hk
    rcases hk with hk | rfl
    · have := hle k hk
      exact ⟨fun _ => this.1, fun _ => this.2⟩
    · rw [htop]

theorem all₂_map_right {α β : Type} {R : α → β → Prop} (f : α → β) :
    ∀ (xs : List α), (∀ x ∈ xs, R x (f x)) → All₂ R xs (xs.map f)
  | [], _ => .nil
  | x :: xs, h => .cons (h x List.mem_cons_self) (all₂_map_right f xs fun y hy => h y (List.mem_cons_of_mem _ hy))

/-- line by line: the rewritten line carries the renumbered number and parses to related statements -/
theorem renum_lines_related {l : Listing} {ch : List (Nat × Nat)} (hl : C15.WF l) (hp : RenumParses l ch) :
    All₂ (LineRel (Listing.renumMap ch) (LineSet l.lines)) l.lines (l.lines.map (Lex.lineRenum ch)) := by
  apply all₂_map_right
  intro x hx
  obtain ⟨p, hpm, rfl⟩ := List.mem_map.1 hx
  obtain ⟨ast, ast', h1, h2, h3⟩ := hp p hpm
  have hn := hl.coherent p hpm
  refine ⟨p.1, ast, ast', hn, .inl ⟨p.2, hx, hn⟩, ?_, h1, h2, h3⟩
  rw [lineRenum_number ch p.2 ast h1, hn]
  rfl

/-- **`renum_preserves_code`**: the compiled programs of the listing before and after a successful
    RENUM correspond (`ProgRel`, spelled out in the corollaries below) -/
theorem renum_preserves_code {l l' : Listing} {a b c : Nat} {ch : List (Nat × Nat)} (hl : C15.WF l)
    (hplan : Listing.renumPlan (l.source.map (·.1)) a b c = .ok ch)
    (h : l.renum Lex.lineRenum a b c = .ok l') (hp : RenumParses l ch) (hr : RefsStable l ch) :
    ProgRel (Listing.renumMap ch) (LineSet l.lines) (compile l.lines) (compile l'.lines) := by
  obtain ⟨ch', h1, h2⟩ := Listing.renum_lines hl hp.allParse h
  rw [hplan] at h1
  cases h1
  rw [h2]
  exact compile_rel (renum_lineMap hl hplan) (renum_lines_related hl hp) hr

/-- a listing that compiles without errors has no dangling reference … -/
theorem refsStable_of_clean {l : Listing} {a b c : Nat} {ch : List (Nat × Nat)} (hl : C15.WF l)
    (hplan : Listing.renumPlan (l.source.map (·.1)) a b c = .ok ch)
    (hc : (compile l.lines).indirectErrors = []) : RefsStable l ch :=
  refs_of_clean (renum_lineMap hl hplan) (Runtime.numbered_of_wf hl) hc

/-- … so for an error-free listing `RenumParses` is the only hypothesis, and the renumbered listing
    compiles without errors too -/
theorem renum_preserves_code_clean {l l' : Listing} {a b c : Nat} {ch : List (Nat × Nat)} (hl : C15.WF l)
    (hplan : Listing.renumPlan (l.source.map (·.1)) a b c = .ok ch)
    (h : l.renum Lex.lineRenum a b c = .ok l') (hp : RenumParses l ch)
    (hc : (compile l.lines).indirectErrors = []) :
    ProgRel (Listing.renumMap ch) (LineSet l.lines) (compile l.lines) (compile l'.lines) ∧
    (compile l'.lines).indirectErrors = [] := by
  have hr := renum_preserves_code hl hplan h hp (refsStable_of_clean hl hplan hc)
  refine ⟨hr, ?_⟩
  have := hr.indirectErrors.length_eq
  rw [hc] at this
  exact List.eq_nil_of_length_eq_zero this

/-- **the program the machine runs**: after RENUM the program is stale (`dirty`), and the next direct
    line `d'` makes the machine compile the new listing, the direct line, and link
    (`Program.runProg`; `renum_then_direct_recompiles`, `Thm.C04`).  That program corresponds to the one
    the old listing gives with the direct line `d`, when `d` and `d'` are the same up to renumbered
    operands (`RUN` and `RUN`; `GOTO 100` and `GOTO 1000`) and the references of the direct line
    resolve alike too. -/
theorem renum_preserves_running_program {l l' : Listing} {a b c : Nat} {ch : List (Nat × Nat)} (hl : C15.WF l)
    (hplan : Listing.renumPlan (l.source.map (·.1)) a b c = .ok ch)
    (h : l.renum Lex.lineRenum a b c = .ok l') (hp : RenumParses l ch) (hr : RefsStable l ch)
    {d d' : Line} (hd : DirectRel (Listing.renumMap ch) d d')
    (hr2 : ∀ q ∈ ((({} : Program).codegenLines l.lines).codegenLine d).link.linkWhiles.1.unlinked,
      q.2.2 < 0 ∨ RefOK (Listing.renumMap ch) ((({} : Program).codegenLines l.lines).codegenLine d).link.symbols q.2.2) :
    ProgRel (Listing.renumMap ch) (LineSet l.lines) (runProg l.lines d) (runProg l'.lines d') := by
  obtain ⟨ch', h1, h2⟩ := Listing.renum_lines hl hp.allParse h
  rw [hplan] at h1
  cases h1
  rw [h2]
  exact runProg_rel (renum_lineMap hl hplan) (renum_lines_related hl hp) hd hr hr2 (Runtime.numbered_of_wf hl)

/-! #### what `ProgRel` says, field by field -/

variable {φ : Nat → Nat} {K : Nat → Prop} {p p' : Program}

/-- the code: the same instructions, up to the operand literals of LIST / DELETE -/
theorem renum_code (h : ProgRel φ K p p') : OpsRel φ p.link.ops.toList p'.link.ops.toList := h.link.ops

/-- same number of instructions; same DATA segment, data cursor, start of the direct segment -/
theorem renum_sizes (h : ProgRel φ K p p') :
    p'.link.ops.size = p.link.ops.size ∧ p'.link.data = p.link.data ∧ p'.link.dataPos = p.link.dataPos ∧
    p'.directAddress = p.directAddress :=
  ⟨h.link.size, h.link.data, h.link.dataPos, h.directAddress⟩

/-- instruction by instruction: equal, or two line-number literals (operands of LIST / DELETE) -/
theorem renum_instruction (h : ProgRel φ K p p') (a : Nat) :
    p'.link.ops[a]? = p.link.ops[a]? ∨
    ∃ n n', p.link.ops[a]? = some (lineLit n) ∧ p'.link.ops[a]? = some (lineLit n') := by
  have := h.link.ops.getElem? a
  rwa [Array.getElem?_toList, Array.getElem?_toList] at this

/-- **all link-resolved targets are identical**: wherever the old program has a branch (`Jump`,
    `IfNot`), a pushed return / NEXT address, or a `Restore` with its data address, the renumbered
    program has the very same instruction with the very same address -/
theorem renum_targets_identical (h : ProgRel φ K p p') (a : Nat) (o : Opcode)
    (ho : p.link.ops[a]? = some o) (hp : IsPatch o) : p'.link.ops[a]? = some o := by
  have := h.link.ops.getElem?_patch (i := a) (o := o) (by rw [Array.getElem?_toList]; exact ho) hp
  rwa [Array.getElem?_toList] at this

/-- the symbol table is the old one with its keys renumbered (local labels are gone after linking) -/
theorem renum_symbol_table (h : ProgRel φ K p p') :
    p'.link.symbols = p.link.symbols.map (fun e => (symMap φ e.1, e.2)) := h.link.symbols

/-- the line an address belongs to — what error reports and TRON show — is the renumbered line -/
theorem renum_lineNumberFor (hm : LineMap φ K) (h : ProgRel φ K p p') (a : Nat) :
    p'.link.lineNumberFor a = (p.link.lineNumberFor a).map φ := lineNumberFor_rel hm h.link a

/-- the diagnostics are of the same kinds, in the same order -/
theorem renum_diagnostics (h : ProgRel φ K p p') :
    All₂ ErrRel p.indirectErrors p'.indirectErrors ∧ All₂ ErrRel p.errors p'.errors :=
  ⟨h.indirectErrors, h.errors⟩

/-- a line number that exists in the old listing resolves, after RENUM, under its new number to
    the same code and data addresses -/
theorem renum_line_address (hm : LineMap φ K) (h : ProgRel φ K p p') {n : Nat} (hn : K n) :
    p'.link.symbols.lookup ((φ n : Nat) : Int) = p.link.symbols.lookup (n : Int) := by
  rw [h.link.symbols, ← symMap_nat]
  exact lookup_mapSyms hm (.inr ⟨n, rfl, hn⟩) h.link.keys

/-! #### at run time -/

/-- **when the machine executes RENUM**, from a state satisfying the invariant of `Thm/C04` with an
    up-to-date compile (`dirty = false`) and a well-formed store, the listing it renumbers compiles
    without errors; so with `RenumParses` the programs compiled from the old and the new listing
    correspond, and the new one compiles without errors as well.  (`env.lineRenum` is `Line::renum`.) -/
theorem renum_run_preserves_code (env : Env) (henv : env.lineRenum = Lex.lineRenum) (s t : Runtime)
    (hi : Runtime.Inv s) (hd : s.dirty = false) (hw : C15.WF s.listing)
    (h : (Runtime.doRenum env).run.run s = (.ok .stopped, t)) :
    ∃ ch, (∃ a b c, Listing.renumPlan (s.listing.source.map (·.1)) a b c = .ok ch ∧
        s.listing.renum Lex.lineRenum a b c = .ok t.listing) ∧
      (RenumParses s.listing ch →
        ProgRel (Listing.renumMap ch) (LineSet s.listing.lines) (compile s.listing.lines) (compile t.listing.lines) ∧
        (compile t.listing.lines).indirectErrors = []) := by
  obtain ⟨a, b, c, st, l, ch, _, h2, h3, _, _, h6, _⟩ := renum_success_state env s t h
  rw [henv] at h2
  refine ⟨ch, ⟨a, b, c, h3, by rw [h6]; exact h2⟩, ?_⟩
  intro hp
  have hc := (renum_runs_only_on_clean_program env s t hi hd h).1
  rw [h6]
  exact renum_preserves_code_clean hw h3 h2 hp hc

/-! #### non-vacuity

  (1) syntax trees with real line-number operands (100.0f32 ↦ 1000.0f32 …), related by hand, and the
  fragments the generator builds for them, computed in the kernel; (2) a listing with link-time
  references (`10 WHILE A / 30 WEND`, renumbered to 100 / 110) that satisfies every hypothesis of
  `renum_preserves_code`, with the compiled programs computed independently.  The parser itself cannot
  be evaluated on a line-number operand (`Float32.ofNat` is opaque), which is why (1) starts from the
  syntax trees. -/

/-- 1000.0f32, 1010.0f32, 65529.0f32 -/
def n1000 : UInt32 := 0x447A0000
def n1010 : UInt32 := 0x447C8000
def n65529 : UInt32 := 0x477FF900

/-- the renumbering of `RENUM 1000` on lines 100, 200 -/
def φx : Nat → Nat := Listing.renumMap [(100, 1000), (200, 1010)]

example : (Val.sng n100).toLineNumber = .ok (some 100) ∧ (Val.sng n1000).toLineNumber = .ok (some 1000) ∧
    (Val.sng n200).toLineNumber = .ok (some 200) ∧ (Val.sng n1010).toLineNumber = .ok (some 1010) ∧
    (Val.sng n65529).toLineNumber = .ok (some 65529) ∧ (∀ n, (Val.sng nNone).toLineNumber ≠ .ok (some n)) ∧
    φx 100 = 1000 ∧ φx 200 = 1010 ∧ φx 300 = 300 := by
  refine ⟨by decide +kernel, by decide +kernel, by decide +kernel, by decide +kernel, by decide +kernel, ?_,
    by decide, by decide, by decide⟩
  intro n h
  have : (Val.sng nNone).toLineNumber = err Code.overflow := by decide +kernel
  rw [this] at h
  cases h

/-- `GOTO 100 : ON X GOSUB 100,200 : RESTORE : LIST 100- : GOTO 300` and what RENUM makes of it
    (`GOTO 1000 : ON X GOSUB 1000,1010 : RESTORE : LIST 1000- : GOTO 300`, columns shifted) -/
def astOld : List Stmt :=
  [.goto (0, 4) (.single (5, 8) n100),
   .onGosub (9, 11) (.var (.unary (12, 13) (.plain ['X']))) [.single (20, 23) n100, .single (24, 27) n200],
   .restore (28, 35) (.single (35, 35) nNone),
   .list (36, 40) (.single (41, 44) n100) (.single (45, 45) n65529),
   .goto (46, 50) (.single (51, 54) n300)]
def astNew : List Stmt :=
  [.goto (0, 4) (.single (5, 9) n1000),
   .onGosub (10, 12) (.var (.unary (13, 14) (.plain ['X']))) [.single (21, 25) n1000, .single (26, 30) n1010],
   .restore (31, 38) (.single (38, 38) nNone),
   .list (39, 43) (.single (44, 48) n1000) (.single (49, 49) n65529),
   .goto (50, 54) (.single (55, 58) n300)]

theorem astOld_astNew : StmtsRel φx astOld astNew := by
  have l100 : OperandRel φx (.single (5, 8) n100) (.single (5, 9) n1000) :=
    .line (v := .sng n100) (v' := .sng n1000) (n := 100) rfl rfl (by decide +kernel) (by decide +kernel)
  have m100 : OperandRel φx (.single (20, 23) n100) (.single (21, 25) n1000) :=
    .line (v := .sng n100) (v' := .sng n1000) (n := 100) rfl rfl (by decide +kernel) (by decide +kernel)
  have m200 : OperandRel φx (.single (24, 27) n200) (.single (26, 30) n1010) :=
    .line (v := .sng n200) (v' := .sng n1010) (n := 200) rfl rfl (by decide +kernel) (by decide +kernel)
  have l300 : OperandRel φx (.single (51, 54) n300) (.single (55, 58) n300) :=
    .line (v := .sng n300) (v' := .sng n300) (n := 300) rfl rfl (by decide +kernel) (by decide +kernel)
  have none' : OperandRel φx (.single (35, 35) nNone) (.single (38, 38) nNone) := by
    refine .other (v := .sng nNone) rfl rfl ?_
    intro n h
    have : (Val.sng nNone).toLineNumber = err Code.overflow := by decide +kernel
    rw [this] at h
    cases h
  have r100 : RangeOperandRel φx (.single (41, 44) n100) (.single (44, 48) n1000) :=
    .line (v := .sng n100) (v' := .sng n1000) (n := 100) rfl rfl (by decide +kernel) (by decide +kernel)
  have rmax : RangeOperandRel φx (.single (45, 45) n65529) (.single (49, 49) n65529) :=
    .kept (v := .sng n65529) (n := 65529) rfl rfl (by decide +kernel)
  exact .cons (.goto _ _ l100) (.cons (.onGosub _ _ (.var (.unary _ _ _)) (.cons m100 (.cons m200 .nil)))
    (.cons (.restore _ _ none') (.cons (.list _ _ r100 rmax) (.cons (.goto _ _ l300) .nil))))

/-- so the fragments generated for the two trees are related … -/
example : All₂ (EntryRel φx) (Codegen.acceptStmts astOld {}).g.stmt.toList (Codegen.acceptStmts astNew {}).g.stmt.toList :=
  (fragments_rel astOld_astNew).1

/-- … and here are the pending references of the first, second and last statement, computed: the
    same addresses, the symbols renumbered (100 ↦ 1000, 200 ↦ 1010, 300 stays), other columns -/
example :
    (Codegen.codegen {} [.goto (0, 4) (.single (5, 8) n100)]).1.unlinked = [(0, ((5, 8), 100))] ∧
    (Codegen.codegen {} [.goto (0, 4) (.single (5, 9) n1000)]).1.unlinked = [(0, ((5, 9), 1000))] ∧
    (Codegen.codegen {} [.goto (0, 4) (.single (5, 8) n100)]).1.ops = #[.jump 0] ∧
    (Codegen.codegen {} [.goto (0, 4) (.single (5, 9) n1000)]).1.ops = #[.jump 0] ∧
    (Codegen.codegen {} [.goto (46, 50) (.single (51, 54) n300)]).1.unlinked = [(0, ((51, 54), 300))] ∧
    ((Codegen.codegen {} [astOld[1]!]).1.unlinked.map fun p => (p.1, p.2.2)) = [(5, 200), (4, 100), (0, -1)] ∧
    ((Codegen.codegen {} [astNew[1]!]).1.unlinked.map fun p => (p.1, p.2.2)) = [(5, 1010), (4, 1000), (0, -1)] ∧
    (Codegen.codegen {} [astOld[1]!]).1.ops = (Codegen.codegen {} [astNew[1]!]).1.ops := by
  decide +kernel

/-- `10 WHILE A / 30 WEND` -/
def exL : Listing := { source := [(10, C20.exW), (30, C20.exE)], rooted := true }

theorem exL_wf : C15.WF exL := ⟨by unfold SortedList.Sorted; decide, by decide, by decide⟩

theorem exL_plan : Listing.renumPlan (exL.source.map (·.1)) 100 0 10 = .ok [(10, 100), (30, 110)] := by decide

theorem exL_renumParses : RenumParses exL [(10, 100), (30, 110)] := by
  intro p hp
  have hp' : p = (10, C20.exW) ∨ p = (30, C20.exE) := by simpa [exL] using hp
  rcases hp' with rfl | rfl
  · have h1 := Parse.parse_while_a (some 10)
    refine ⟨_, _, h1, ?_, .cons (.while (0, 5) (0, 5) (.var (.unary (6, 7) (6, 7) (.plain ['A'])))) .nil⟩
    rw [Listing.lineRenum_no_operands _ C20.exW _ h1 (by decide)]
    exact Parse.parse_while_a _
  · have h1 := Parse.parse_wend (some 30)
    refine ⟨_, _, h1, ?_, .cons (.wend (0, 4) (0, 4)) .nil⟩
    rw [Listing.lineRenum_no_operands _ C20.exE _ h1 (by decide)]
    exact Parse.parse_wend _

/-- the compile state of `10 WHILE A / 30 WEND` (`Thm.C20.exState`) -/
def exSt : Program :=
  { lineNumber := some 30,
    link := { currentSymbol := -2, ops := #[.push ['A'], .ifNot 0, .jump 0],
              symbols := [(-2, (3, 0)), (-1, (0, 0)), (10, (0, 0)), (30, (2, 0))],
              whiles := [(true, (0, 5), 1, -1), (false, (0, 4), 2, -2)] } }

theorem exL_state : ({} : Program).codegenLines exL.lines = exSt := C20.exState

theorem exL_refsStable : RefsStable exL [(10, 100), (30, 110)] := by
  intro q hq
  rw [exL_state] at hq
  have e : exSt.link.linkWhiles.1.unlinked = [(2, ((0, 4), (-1 : Int))), (1, ((0, 5), (-2 : Int)))] := by
    decide +kernel
  rw [e] at hq
  left
  rcases List.mem_cons.1 hq with rfl | hq'
  · decide
  · rcases List.mem_cons.1 hq' with rfl | hq''
    · decide
    · cases hq''

/-- RENUM 100 on `10 WHILE A / 30 WEND` succeeds, and every hypothesis of `renum_preserves_code` holds;
    the conclusion, instantiated: the code is that of the old program (computed in
    `Thm/C20Layout.lean`: `#[Push A, IfNot 3, Jump 0, End]`), the table has the keys 100, 110 -/
example : ∃ l', exL.renum Lex.lineRenum 100 0 10 = .ok l' ∧
    ProgRel (Listing.renumMap [(10, 100), (30, 110)]) (LineSet exL.lines) (compile exL.lines) (compile l'.lines) ∧
    (compile l'.lines).link.ops.toList = [.push ['A'], .ifNot 3, .jump 0, .end] ∧
    (compile l'.lines).link.symbols = [(100, (0, 0)), (110, (2, 0)), (65530, (4, 0))] := by
  obtain ⟨l', hl'⟩ := (Listing.renum_ok_iff Lex.lineRenum exL 100 0 10).2 ⟨_, exL_plan⟩
  have hr := renum_preserves_code exL_wf exL_plan hl' exL_renumParses exL_refsStable
  have hold : (compile exL.lines).link.ops = #[.push ['A'], .ifNot 3, .jump 0, .end] ∧
      (compile exL.lines).link.symbols = [(10, (0, 0)), (30, (2, 0)), (65530, (4, 0))] := by
    unfold compile
    rw [exL_state]
    decide +kernel
  refine ⟨l', hl', hr, ?_, ?_⟩
  · have h1 := renum_code hr
    rw [hold.1] at h1
    exact h1.eq_of_plain (by decide)
  · rw [renum_symbol_table hr, hold.2]
    decide

end Compile

end Thm.C14
end Basic
