import BasicModel.Lemmas.Step
import BasicModel.Lemmas.Inv
import BasicModel.Lemmas.RunClear
/-
  C12 — RUN, CLEAR and NEW reset state completely.

  `doClear` is the model of `r#clear`; `doNew` of `r#new_`.  The *core* of a runtime is everything a
  program can leave behind for the next one: the operand stack (GOSUB/FOR frames), the variable
  store with its array dimensions and DEFtype table, the DEF FN table, the CONT point and the
  DATA cursor.  After CLEAR the core is that of `Runtime::default()`, whatever happened earlier;
  RUN is compiled as `Clear; Jump`, i.e. RUN = CLEAR followed by GOTO.
-/
namespace Basic
namespace Thm.C12
open Basic.Runtime

/-- everything one program run can leave behind for the next -/
structure Core where
  stack : Array Val
  vars : Var
  functions : List (Str × (Nat × Nat))
  cont : RState
  dataPos : Nat

def core (s : Runtime) : Core :=
  { stack := s.stack, vars := s.vars, functions := s.functions, cont := s.cont,
    dataPos := s.program.link.dataPos }

/-- `Var.clear` gives the store of `Var::default()`: no variables, no dimensions, every letter
    single precision -/
theorem var_clear (v : Var) : v.clear = ({} : Var) := rfl

/-- CLEAR: the core is reset, the random generator reseeded from the entropy input, and nothing
    else changes (in particular not the listing, the compiled code, `pc`, TRON, the print column) -/
theorem clear_resets (env : Env) (s : Runtime) :
    (doClear env s).stack = #[] ∧
    (doClear env s).vars = ({} : Var) ∧
    (doClear env s).functions = [] ∧
    (doClear env s).cont = .stopped ∧
    (doClear env s).program.link.dataPos = 0 ∧
    (doClear env s).rand = env.entropy ∧
    (doClear env s).listing = s.listing ∧
    (doClear env s).program = { s.program with link := { s.program.link with dataPos := 0 } } ∧
    (doClear env s).program.link.ops = s.program.link.ops ∧
    (doClear env s).program.link.data = s.program.link.data ∧
    (doClear env s).program.link.symbols = s.program.link.symbols ∧
    (doClear env s).pc = s.pc ∧
    (doClear env s).tron = s.tron ∧
    (doClear env s).tr = s.tr ∧
    (doClear env s).printCol = s.printCol ∧
    (doClear env s).dirty = s.dirty ∧
    (doClear env s).state = s.state ∧
    (doClear env s).entryAddress = s.entryAddress ∧
    (doClear env s).contPc = s.contPc ∧
    (doClear env s).prompt = s.prompt :=
  ⟨rfl, rfl, rfl, rfl, rfl, rfl, rfl, rfl, rfl, rfl, rfl, rfl, rfl, rfl, rfl, rfl, rfl, rfl, rfl, rfl⟩

/-- the state after CLEAR, written out: only these six fields are assigned -/
theorem clear_eq (env : Env) (s : Runtime) :
    doClear env s =
      { s with stack := #[], vars := {}, functions := [], cont := .stopped, rand := env.entropy,
               program := { s.program with link := { s.program.link with dataPos := 0 } } } := rfl

/-- whatever happened earlier, after CLEAR the core is that of a fresh interpreter -/
theorem clear_core_eq_fresh (env : Env) (s : Runtime) :
    core (doClear env s) = core ({} : Runtime) := rfl

/-- … hence the same for any two histories -/
theorem clear_core_independent (env : Env) (s₁ s₂ : Runtime) :
    core (doClear env s₁) = core (doClear env s₂) := rfl

/-- NEW: the cleared core, an empty listing without diagnostics, `dirty`, TROFF, `stopped` -/
theorem new_resets (env : Env) (s : Runtime) :
    core (doNew env s) = core ({} : Runtime) ∧
    (doNew env s).listing.source = [] ∧
    (doNew env s).listing.indirectErrors = [] ∧
    (doNew env s).listing.directErrors = [] ∧
    (doNew env s).listing = ({} : Listing) ∧
    (doNew env s).dirty = true ∧
    (doNew env s).tron = false ∧
    (doNew env s).state = .stopped ∧
    (doNew env s).rand = env.entropy :=
  ⟨rfl, rfl, rfl, rfl, rfl, rfl, rfl, rfl, rfl⟩

theorem new_eq (env : Env) (s : Runtime) :
    doNew env s = { doClear env s with listing := {}, dirty := true, state := .stopped, tron := false } := rfl

theorem clear_idempotent (env : Env) (s : Runtime) : doClear env (doClear env s) = doClear env s := rfl

/-- the entropy input is the only thing a second CLEAR can change -/
theorem clear_clear (env env' : Env) (s : Runtime) :
    doClear env' (doClear env s) = doClear env' s := rfl

theorem new_then_clear (env : Env) (s : Runtime) : doClear env (doNew env s) = doNew env s := rfl

theorem new_idempotent (env : Env) (s : Runtime) : doNew env (doNew env s) = doNew env s := rfl

/-! ### RUN = CLEAR ; GOTO -/

/-- the generator's state after running `m` on the empty fragment -/
def gen (m : Codegen.GM Unit) : Except Error Unit × Codegen.GState := (m.run).run {}

/-- `RUN` (no operand): exactly `Clear; Jump 0`, nothing to link — the jump goes to address 0,
    the start of the program -/
theorem run_compiles_to_clear_jump (c : Col) :
    (gen (Codegen.pushRun c none)).1 = .ok () ∧
    (gen (Codegen.pushRun c none)).2.cur.ops = #[.clear, .jump 0] ∧
    (gen (Codegen.pushRun c none)).2.cur.unlinked = [] :=
  ⟨rfl, rfl, rfl⟩

/-- `RUN n`: `Clear; Jump _` with one pending reference, at the jump (address 1), to line `n` -/
theorem run_line_compiles_to_clear_jump (c : Col) (n : Nat) :
    (gen (Codegen.pushRun c (some n))).1 = .ok () ∧
    (gen (Codegen.pushRun c (some n))).2.cur.ops = #[.clear, .jump 0] ∧
    (gen (Codegen.pushRun c (some n))).2.cur.unlinked = [(1, (c, (n : Int)))] :=
  ⟨rfl, rfl, rfl⟩

/-- `GOTO n` generates the same jump with the same pending reference (at its own address 0):
    RUN n is CLEAR followed by GOTO n -/
theorem goto_compiles_to_jump (c : Col) (n : Nat) :
    (gen (Codegen.pushGoto c (some n))).1 = .ok () ∧
    (gen (Codegen.pushGoto c (some n))).2.cur.ops = #[.jump 0] ∧
    (gen (Codegen.pushGoto c (some n))).2.cur.unlinked = [(0, (c, (n : Int)))] :=
  ⟨rfl, rfl, rfl⟩

/-- executing the opcode `Clear`: `pc` advances, then `doClear`; the slice continues -/
theorem step_clear (env : Env) (h : Bool) (s : Runtime) (htr : s.tron = false)
    (hop : s.program.link.ops[s.pc]? = some .clear) :
    (step env h).run.run s = (.ok .continue, doClear env { s with pc := s.pc + 1 }) := by
  rw [step_troff env h s htr, run_fetchExec, hop]
  rfl

/-- … so right after RUN's `Clear` the core is fresh -/
theorem step_clear_core (env : Env) (h : Bool) (s : Runtime) (htr : s.tron = false)
    (hop : s.program.link.ops[s.pc]? = some .clear) :
    core ((step env h).run.run s).2 = core ({} : Runtime) := by
  rw [step_clear env h s htr hop]; rfl

/-! ### non-vacuity -/

/-- a runtime with something in every core field -/
def used : Runtime :=
  { stack := #[.int 1, .ret 7], vars := { vars := [("A".toList, .int 5)], dims := [("B".toList, [3])] },
    functions := [("FNA".toList, (1, 4))], cont := .running, contPc := 9, pc := 3, tron := true,
    printCol := 5, dirty := false, state := .running,
    program := { link := { ops := #[.clear, .jump 0, .end], dataPos := 2, data := #[.int 1, .int 2] } } }

def env0 : Env := { lex := fun _ => ⟨none, []⟩, lineRenum := fun _ l => l, entropy := (7, 8, 9) }

example : (doClear env0 used).stack = #[] ∧ (doClear env0 used).functions = [] ∧
    (doClear env0 used).cont = .stopped ∧ (doClear env0 used).program.link.dataPos = 0 ∧
    (doClear env0 used).rand = (7, 8, 9) ∧ (doClear env0 used).pc = 3 ∧
    (doClear env0 used).tron = true ∧ (doClear env0 used).printCol = 5 := by decide
example : (doClear env0 used).vars.vars = [] ∧ (doClear env0 used).vars.dims = [] := by decide
example : used.stack ≠ #[] ∧ used.program.link.dataPos ≠ 0 ∧ used.cont ≠ .stopped := by decide
example : (doNew env0 used).tron = false ∧ (doNew env0 used).dirty = true ∧
    (doNew env0 used).listing.source = [] := by decide
/-- `step` on `Clear` at `pc = 0` of a three-instruction program -/
example : ((step env0 false).run.run { used with tron := false, pc := 0 }).2.pc = 1 ∧
    ((step env0 false).run.run { used with tron := false, pc := 0 }).2.stack = #[] := by
  rw [step_clear env0 false _ rfl rfl]; decide

/-! ### RUN in any state of any history runs exactly as in a fresh interpreter

  (corollary of the invariant `Runtime.Inv`, Lemmas/Inv.lean and Thm/C04.lean: `inv_reachable`,
  `run_eq_fresh`) -/

/-- the state right after RUN's CLEAR — core, program, listing, everything — is the one a fresh
    interpreter holding the same listing (and prompt / TRON / column) is in -/
theorem run_clear_state_eq_fresh (env : Env) (s : Runtime) (line : Line) (hn : line.number = none)
    (hi : Inv s) :
    doClear env (enterDirect s line) = doClear env (enterDirect (freshLike s) line) ∧
    core (doClear env (enterDirect s line)) = core ({} : Runtime) :=
  ⟨run_state_eq_freshLike env s line hn hi, rfl⟩

/-- **the first quantum of a RUN, and therefore everything after it, is identical to a fresh
    run.**  `s`: any state satisfying the invariant (every reachable state), TROFF; `line`: a
    direct line whose code starts with `Clear` (RUN / RUN n: `run_compiles_to_clear_jump`) and
    that compiled without direct-mode errors.  Then `execute` with any quantum `k + 1` returns the
    same event *and the same state* as in the fresh interpreter `freshLike s`; from equal states
    all later API calls coincide by determinism. -/
theorem run_identical_to_fresh_run (env : Env) (s : Runtime) (line : Line) (hn : line.number = none)
    (hi : Inv s) (htr : s.tron = false)
    (hde : (enterDirect s line).listing.directErrors = [])
    (hop : (enterDirect s line).program.link.ops[(enterDirect s line).pc]? = some .clear) (k : Nat) :
    execute env (enterDirect s line) (k + 1) = execute env (enterDirect (freshLike s) line) (k + 1) := by
  obtain ⟨d, hp⟩ := enterDirect_program_inv s line hn hi
  have hq := freshLike_program s line
  obtain ⟨f1, f2, f3, f4, f5⟩ := enterDirect_fields s line
  obtain ⟨g1, g2, g3, g4, g5⟩ := enterDirect_fields (freshLike s) line
  have e := run_state_eq_freshLike env s line hn hi
  -- the two entered states agree on everything the first step looks at
  have hpc : (enterDirect s line).pc = (enterDirect (freshLike s) line).pc := by
    rw [f2, g2, hp, hq, Program.withDP_directAddress]
  have hde' : (enterDirect (freshLike s) line).listing.directErrors = [] := by
    rw [g4, hq]; rw [f4, hp, Program.withDP_errors] at hde; exact hde
  have hop' : (enterDirect (freshLike s) line).program.link.ops[(enterDirect (freshLike s) line).pc]? =
      some .clear := by
    rw [← hpc, hq]; rw [hp, Program.withDP_ops] at hop; exact hop
  have hie : hasIndirectErrors (enterDirect s line) = hasIndirectErrors (enterDirect (freshLike s) line) := by
    unfold hasIndirectErrors; rw [f3, g3, hp, hq, Program.withDP_indirectErrors]
  have hst : doClear env { enterDirect s line with pc := (enterDirect s line).pc + 1 } =
      doClear env { enterDirect (freshLike s) line with pc := (enterDirect (freshLike s) line).pc + 1 } := by
    show ({ doClear env (enterDirect s line) with pc := (enterDirect s line).pc + 1 } : Runtime) =
      { doClear env (enterDirect (freshLike s) line) with pc := (enterDirect (freshLike s) line).pc + 1 }
    rw [e, hpc]
  rw [execute_running env _ _ f1 hde, execute_running env _ _ g1 hde', executeLoop_run, executeLoop_run]
  unfold slice
  rw [sliceRun_succ, sliceRun_succ, step_clear env _ _ (f5.trans htr) hop,
    step_clear env _ _ (g5.trans htr) hop', hie, hst]

/-- the same with the hypothesis "the direct code starts with `Clear`" discharged: it suffices
    that the parser returns, for the direct line, what it returns for `RUN` (`bits` = -1.0) and
    `RUN n` (`lineExpr`): `[.run c (.single c2 bits)]`.  (The parser recurses on fuel and does not
    reduce in the kernel, so its result stays a hypothesis here; generator, `append`, `push End`
    and `link` are covered by `enterDirect_run_starts_with_clear`.) -/
theorem run_identical_to_fresh_run_of_parse (env : Env) (s : Runtime) (line : Line) (hn : line.number = none)
    (hi : Inv s) (htr : s.tron = false) (c c2 : Col) (bits : UInt32)
    (hparse : Parse.parse none line.tokens = .ok [.run c (.single c2 bits)])
    (hde : (enterDirect s line).listing.directErrors = []) (k : Nat) :
    execute env (enterDirect s line) (k + 1) = execute env (enterDirect (freshLike s) line) (k + 1) :=
  run_identical_to_fresh_run env s line hn hi htr hde
    (enterDirect_run_starts_with_clear s line hn hi c c2 bits hparse) k

/-- the invariant holds in the initial state and after CLEAR / NEW (they touch only the DATA
    cursor of the program; NEW sets `dirty`) -/
theorem inv_clear_new (env : Env) (s : Runtime) (hi : Inv s) : Inv (doClear env s) ∧ Inv (doNew env s) :=
  ⟨inv_of_keep hi (keep_doClear env s), inv_of_keep hi (keep_doNew env s)⟩

/-- non-vacuity: the initial state satisfies the invariant, so RUN typed first thing is covered -/
example (env : Env) (line : Line) (hn : line.number = none) :
    doClear env (enterDirect ({} : Runtime) line) = doClear env (enterDirect (freshLike {}) line) :=
  (run_clear_state_eq_fresh env {} line hn inv_init).1

end Thm.C12
end Basic
