import BasicModel.Thm.C15
/-
  C15 (continuation) — a bare DELETE is refused in EVERY position.

  What the model (= `Statement::expect` of `parse.rs`, fix D17) does: after the word DELETE the
  statement parser looks at the next token (whitespace skipped, everything from a remark on
  dropped); if that look-ahead ends a statement — `isEnd`: end of the line, `:` or ELSE — it throws
  ILLEGAL FUNCTION CALL at the columns of the word, before the operand parser runs.  Nothing in
  that depends on how the parser got there:

  * `endTail_stmtEnd` / `stmtEnd_iff_isEnd`: the token tails on which the look-ahead is an
    end-of-statement token — `(blanks)`, `(blanks) : …`, `(blanks) ELSE …`, `(blanks) REM …`;
  * `parse_delete_bare`: the statement parser, from ANY state in which DELETE is the next token
    and such a tail follows (`parse_delete_bare_tokens`: the two concrete shapes of such states);
  * `statements_delete_bare`, `statements_colon_delete_bare`: the statement-list parser, whatever
    statements it has collected so far (`acc`), at any column, with or without a `:` in front —
    DELETE as a later statement of a line;
  * `if_then_delete_bare`, `statement_if_then_delete_bare`: `IF <expr> THEN DELETE` followed by ELSE,
    `:` or the end of the line — for every condition the expression parser accepts;
  * every one of these errors has code ILLEGAL FUNCTION CALL.
-/
namespace Basic
namespace Thm.C15
open Parse Lemmas.RangeForms Lemmas.C19

/-! ### the tails that end a statement -/

/-- token tails whose first token after any blanks ends a statement: nothing, `:`, ELSE, a remark -/
inductive EndTail : List Token → Prop
  | eol (ws : List Token) (hw : AllWs ws) : EndTail ws
  | colon (ws rest : List Token) (hw : AllWs ws) : EndTail (ws ++ .colon :: rest)
  | else_ (ws rest : List Token) (hw : AllWs ws) : EndTail (ws ++ .word .else :: rest)
  | rem (ws : List Token) (t : Token) (rest : List Token) (hw : AllWs ws) (ht : isRem t = true) :
      EndTail (ws ++ t :: rest)

/-- `StmtEnd` is, by definition, "the statement parser's `isEnd` peek holds", at every column -/
theorem stmtEnd_iff_isEnd (tl : List Token) :
    StmtEnd tl ↔ ∀ cs ce, isEnd (peekTok tl false cs ce) = true := Iff.rfl

/-- … and `peekTok` is what `peek` delivers from a state without look-ahead -/
theorem peek_delivers_peekTok (tl : List Token) (cs ce : Nat) :
    (peek.run (st0 tl cs ce)).toOption.map (·.1) = some (peekTok tl false cs ce) := by
  rw [peek_st0]; rfl

theorem endTail_stmtEnd : ∀ {tl : List Token}, EndTail tl → StmtEnd tl
  | _, .eol ws hw => (lineEnd_ws ws hw).stmtEnd
  | _, .colon ws rest hw => stmtEnd_ws ws _ hw (stmtEnd_colon rest)
  | _, .else_ ws rest hw => stmtEnd_ws ws _ hw (stmtEnd_else rest)
  | _, .rem ws t rest hw ht => stmtEnd_ws ws _ hw (stmtEnd_rem t rest ht)

theorem bareDeleteErr_code (c1 c2 : Nat) : (bareDeleteErr c1 c2).code = Code.illegalFunctionCall := rfl
theorem bareDeleteErr_cols (c1 c2 : Nat) :
    (bareDeleteErr c1 c2).colStart = c1 ∧ (bareDeleteErr c1 c2).colEnd = c2 := ⟨rfl, rfl⟩

/-! ### the statement parser -/

/-- **`DELETE` immediately followed by an end-of-statement token is ILLEGAL FUNCTION CALL** — from
    any parser state `st` (any column, any look-ahead, whatever was parsed before) in which DELETE
    is the next token and the tail `tl` behind it ends the statement -/
theorem parse_delete_bare (fuel : Nat) (st : PState) (tl : List Token) (c1 c2 : Nat)
    (hp : peek.run st = .ok (some (.word .delete), stPeeked (.word .delete) tl c1 c2))
    (htl : StmtEnd tl) :
    (statement (fuel + 1)).run st = .error (bareDeleteErr c1 c2) ∧
    (bareDeleteErr c1 c2).code = Code.illegalFunctionCall :=
  ⟨statement_delete_bare' fuel st tl c1 c2 hp htl, rfl⟩

/-- the two shapes of such a state: DELETE still among the tokens (after blanks), or already
    peeked; the tail ranges over every `EndTail` -/
theorem parse_delete_bare_tokens (fuel : Nat) (ws tl : List Token) (hw : AllWs ws) (htl : EndTail tl)
    (cs ce : Nat) :
    (statement (fuel + 1)).run (st0 (ws ++ .word .delete :: tl) cs ce)
      = .error (bareDeleteErr (ce + width ws) (ce + width ws + 6)) ∧
    (statement (fuel + 1)).run (stPeeked (.word .delete) tl cs ce) = .error (bareDeleteErr cs ce) :=
  ⟨statement_delete_bare fuel ws tl hw (endTail_stmtEnd htl) cs ce,
   statement_delete_bare' fuel _ tl cs ce (peek_run_peeked _ _ rfl) (endTail_stmtEnd htl)⟩

/-! ### as a later statement of a line -/

/-- the statement-list parser, about to start a statement, whatever it has collected (`acc`):
    a bare DELETE is refused, no statement list is produced -/
theorem statements_delete_bare (fuel : Nat) (acc : List Stmt) (st : PState) (tl : List Token) (c1 c2 : Nat)
    (hp : peek.run st = .ok (some (.word .delete), stPeeked (.word .delete) tl c1 c2))
    (htl : StmtEnd tl) :
    (statements (fuel + 2) false acc).run st = .error (bareDeleteErr c1 c2) := by
  rw [statements_word (fuel + 1) acc st _ .delete hp (by decide),
    statement_delete_bare' fuel _ tl c1 c2 (peek_run_peeked _ _ rfl) htl]
  rfl

theorem colon_solid : Solid .colon := ⟨fun n => by simp, rfl⟩

/-- one round of `statements` at a `:` — it is consumed and a statement may start -/
theorem statements_at_colon (fuel : Nat) (ec : Bool) (acc : List Stmt) (st : PState) (rest : List Token)
    (c1 c2 : Nat) (hp : peek.run st = .ok (some .colon, stPeeked .colon rest c1 c2)) :
    (statements (fuel + 1) ec acc).run st = (statements fuel false acc).run (st0 rest c1 c2) := by
  rw [statements]
  simp only [StateT.run_bind, hp, ok_bind, next_stPeeked]

/-- **after any preceding statements**: the parser has collected `acc` (any list), stands anywhere
    in the line (`cs`, `ce`), expects a colon or not (`ec`), and the rest of the line is
    `: DELETE` + an end-of-statement tail — ILLEGAL FUNCTION CALL at DELETE's columns -/
theorem statements_colon_delete_bare (fuel : Nat) (ec : Bool) (acc : List Stmt) (ws ws1 tl : List Token)
    (hw : AllWs ws) (hw1 : AllWs ws1) (htl : StmtEnd tl) (cs ce : Nat) :
    (statements (fuel + 3) ec acc).run (st0 (ws ++ .colon :: (ws1 ++ .word .delete :: tl)) cs ce) =
      .error (bareDeleteErr (ce + width ws + 1 + width ws1) (ce + width ws + 1 + width ws1 + 6)) := by
  rw [statements_at_colon (fuel + 2) ec acc _ _ _ _ (peek_solid ws .colon _ hw colon_solid cs ce)]
  exact statements_delete_bare fuel acc _ tl _ _ (peek_solid ws1 _ tl hw1 word_solid_delete _ _) htl

/-- the same when the `:` is already the parser's look-ahead (expression and list parsers stop with
    the terminator peeked) -/
theorem statements_peeked_colon_delete_bare (fuel : Nat) (ec : Bool) (acc : List Stmt) (ws1 tl : List Token)
    (hw1 : AllWs ws1) (htl : StmtEnd tl) (c1 c2 : Nat) :
    (statements (fuel + 3) ec acc).run (stPeeked .colon (ws1 ++ .word .delete :: tl) c1 c2) =
      .error (bareDeleteErr (c2 + width ws1) (c2 + width ws1 + 6)) := by
  rw [statements_at_colon (fuel + 2) ec acc _ _ _ _ (peek_run_peeked _ _ rfl)]
  exact statements_delete_bare fuel acc _ tl _ _ (peek_solid ws1 _ tl hw1 word_solid_delete _ _) htl

/-! ### inside `IF … THEN` -/

theorem expect_of_peeked (tok : Token) (ts : List Token) (cs ce : Nat) :
    (expect tok).run (stPeeked tok ts cs ce) = .ok ((), st0 ts cs ce) := by
  unfold expect
  simp only [StateT.run_bind, next_stPeeked, ok_bind, if_true]
  rfl

theorem then_solid : Solid (.word .then) := ⟨fun n => by simp, rfl⟩
theorem if_solid : Solid (.word .if) := ⟨fun n => by simp, rfl⟩

/-- **`IF <expr> THEN DELETE` + end-of-statement tail (ELSE …, `: …`, end of line)**: for every
    condition the expression parser accepts (result `p`, leaving THEN as the next token), the IF
    statement is refused with ILLEGAL FUNCTION CALL at DELETE's columns -/
theorem if_then_delete_bare (fuel : Nat) (st st2 : PState) (p : Expr) (ws1 tl : List Token) (c1 c2 : Nat)
    (hexpr : (expression (fuel + 2)).run st = .ok (p, st2))
    (hthen : peek.run st2 =
      .ok (some (.word .then), stPeeked (.word .then) (ws1 ++ .word .delete :: tl) c1 c2))
    (hw1 : AllWs ws1) (htl : StmtEnd tl) :
    (ifStmt (fuel + 2)).run st = .error (bareDeleteErr (c2 + width ws1) (c2 + width ws1 + 6)) := by
  have hdel := peek_solid ws1 (.word .delete) tl hw1 word_solid_delete c1 c2
  unfold ifStmt
  simp only [StateT.run_bind, col_run, ok_bind, hexpr,
    maybe_miss (.word .goto) hthen (by simp), Bool.false_eq_true, if_false,
    expect_of_peeked, maybeLineNumber_other hdel rfl,
    statements_delete_bare fuel [] _ tl _ _ (peek_run_peeked _ _ rfl) htl, error_bind]
  rfl

/-- the whole statement: IF is the next token of any state -/
theorem statement_if_then_delete_bare (fuel : Nat) (st0' st2 : PState) (rest : List Token) (i1 i2 : Nat)
    (p : Expr) (ws1 tl : List Token) (c1 c2 : Nat)
    (hif : peek.run st0' = .ok (some (.word .if), stPeeked (.word .if) rest i1 i2))
    (hexpr : (expression (fuel + 2)).run (st0 rest i1 i2) = .ok (p, st2))
    (hthen : peek.run st2 =
      .ok (some (.word .then), stPeeked (.word .then) (ws1 ++ .word .delete :: tl) c1 c2))
    (hw1 : AllWs ws1) (htl : StmtEnd tl) :
    (statement (fuel + 3)).run st0' = .error (bareDeleteErr (c2 + width ws1) (c2 + width ws1 + 6)) := by
  rw [statement]
  simp only [StateT.run_bind, hif, ok_bind, next_stPeeked]
  exact if_then_delete_bare fuel _ st2 p ws1 tl c1 c2 hexpr hthen hw1 htl

/-! ### non-vacuity -/

/-- the four kinds of tail -/
example : EndTail [] ∧ EndTail [.whitespace 2, .colon, .word .end] ∧
    EndTail [.word .else, .word .end] ∧ EndTail [.whitespace 1, .word .rem2, .unknown "x".toList] :=
  ⟨.eol [] AllWs.nil, .colon [.whitespace 2] _ AllWs.nil.cons, .else_ [] _ AllWs.nil,
   .rem [.whitespace 1] _ _ AllWs.nil.cons rfl⟩

/-- the hypothesis of `parse_delete_bare` holds in a state in the middle of a line -/
example : peek.run (st0 [.whitespace 1, .word .delete, .colon] 4 7) =
    .ok (some (.word .delete), stPeeked (.word .delete) [.colon] 8 14) :=
  peek_solid [.whitespace 1] _ _ AllWs.nil.cons word_solid_delete 4 7

/-- the condition `A` of `IF A THEN DELETE ELSE`: the expression parser accepts it and stops with
    THEN peeked — the hypotheses `hexpr`, `hthen` of `if_then_delete_bare` -/
theorem exCond : ∃ p, (expression 4).run (st0 [.ident (.plain ['A']), .whitespace 1, .word .then,
      .whitespace 1, .word .delete, .word .else] 0 2) =
    .ok (p, stPeeked (.word .then) [.whitespace 1, .word .delete, .word .else] 4 8) := by
  have hd : (match (expression 4).run (st0 [.ident (.plain ['A']), .whitespace 1, .word .then,
      .whitespace 1, .word .delete, .word .else] 0 2) with
    | .ok (_, s) => decide (s.toks = [.whitespace 1, .word .delete, .word .else]) &&
        decide (s.peeked = some (.word .then)) && !s.rem && decide (s.cs = 4) && decide (s.ce = 8)
    | .error _ => false) = true := by decide
  rcases hr : (expression 4).run (st0 [.ident (.plain ['A']), .whitespace 1, .word .then,
      .whitespace 1, .word .delete, .word .else] 0 2) with e | ⟨p, s⟩
  · rw [hr] at hd; cases hd
  · rw [hr] at hd
    obtain ⟨toks, peeked, rem, cs, ce⟩ := s
    simp only [Bool.and_eq_true, decide_eq_true_eq, Bool.not_eq_true'] at hd
    obtain ⟨⟨⟨⟨h1, h2⟩, h3⟩, h4⟩, h5⟩ := hd
    subst h1 h2 h3 h4 h5
    exact ⟨p, rfl⟩

/-- `IF A THEN DELETE ELSE` (the tokens after IF, at column 2): refused at DELETE's columns 9–15 -/
example : (ifStmt 4).run (st0 [.ident (.plain ['A']), .whitespace 1, .word .then,
      .whitespace 1, .word .delete, .word .else] 0 2) = .error (bareDeleteErr 9 15) := by
  obtain ⟨p, hp⟩ := exCond
  exact if_then_delete_bare 2 _ _ p [.whitespace 1] [.word .else] 4 8 hp (peek_run_peeked _ _ rfl)
    AllWs.nil.cons (stmtEnd_else [])

/-- `CLS:DELETE` as a whole line: CLS is parsed and collected, then the bare DELETE is refused -/
example : ∃ e, parse (some 10) [.word .cls, .colon, .word .delete] = .error e ∧
    e.code = Code.illegalFunctionCall ∧ e.colStart = 4 ∧ e.colEnd = 10 := by
  have hcls : Solid (.word .cls) := ⟨fun n => by simp, rfl⟩
  have hp : peek.run (st0 [.word .cls, .colon, .word .delete] 0 0) =
      .ok (some (.word .cls), stPeeked (.word .cls) [.colon, .word .delete] 0 3) :=
    peek_solid [] (.word .cls) _ AllWs.nil hcls 0 0
  have hp' := peek_run_peeked (stPeeked (.word .cls) [.colon, .word .delete] 0 3) _ rfl
  have hst : (statement 37).run (stPeeked (.word .cls) [.colon, .word .delete] 0 3) =
      .ok (.cls (0, 3), st0 [.colon, .word .delete] 0 3) := by
    rw [statement]
    simp only [StateT.run_bind, hp', ok_bind, next_stPeeked, col_run]
    rfl
  have hrest : (statements (34 + 3) true ([] ++ [Stmt.cls (0, 3)])).run (st0 [.colon, .word .delete] 0 3) =
      .error (bareDeleteErr 4 10) :=
    statements_colon_delete_bare 34 true ([] ++ [Stmt.cls (0, 3)]) [] [] [] AllWs.nil AllWs.nil
      stmtEnd_nil 0 3
  refine ⟨(bareDeleteErr 4 10).inLine (some 10), ?_, rfl, rfl, rfl⟩
  unfold parse
  rw [parseTokens_word _ _ _ hp]
  have hf : fuelFor [Token.word .cls, .colon, .word .delete] = 37 + 1 := rfl
  rw [hf, statements_word 37 [] _ _ .cls hp' (by decide), hst]
  simp only [ok_bind]
  rw [show (37 : Nat) = 34 + 3 from rfl, hrest]
  rfl

end Thm.C15
end Basic
