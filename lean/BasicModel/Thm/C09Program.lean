import BasicModel.Lemmas.DataProgram
import BasicModel.Lemmas.DataLits
/-
  C09 — READ consumes DATA in source order; RESTORE and RUN reposition the cursor.

  Continuation of `Thm/C09.lean`: the program-level theorems that need the compile-state and
  runtime lemmas of the second lemma chain (`Lemmas/Layout.lean`, `Lemmas/Inv.lean`, the frame
  calculus of `Lemmas/Frame.lean`).  `dataOf`, `ListingOk`, `stmtsData`, … are those of the
  chain-neutral `Lemmas/DataOrder.lean` / `Lemmas/DataLits.lean`, exactly as used in `Thm/C09.lean`.
  `ListingClean {} ls`: every line of `ls`, compiled in its turn, either does not parse or compiles
  without a report — in particular (`listingClean_of_compile_clean`) every listing with
  `(compile ls).indirectErrors = []`.
-/
namespace Basic
namespace Thm.C09
open Link Program DataOrder
open _root_.Basic.Runtime

/-! ### 2. the symbol of line `n`, and `RESTORE n` after linking -/

/-- **the symbol of a line records the number of constants before it.**  In the compiled and linked
    program of an ascending listing each of whose lines, compiled in its turn, either does not parse
    or compiles without a report (`ListingClean`), the entry of line `m` is (end of the code of the lines
    before `m`, `|dataOf (lines before m)|`): its data address is the index of the first constant at
    or after line `m`. -/
theorem line_symbol_data_addr (pre tl : List Line) (hd : Line) (m : Nat) (hl : Listed (pre ++ hd :: tl))
    (hm : hd.number = some m) (hok : ListingClean {} (pre ++ hd :: tl)) :
    (compile (pre ++ hd :: tl)).link.symbols.lookup (m : Int) = some ((endOf pre).1, (dataOf pre).length) :=
  compile_line_symbol pre tl hd m hl hm (listingOk_of_listingClean _ _ hok)

/-- **`RESTORE n`, compiled and linked**, for a RESTORE at the head of its line (`hparse`: what the
    parser returns for the line; `ht`: the operand is the line number `n`; `hsplit`/`hn`: line `n` is
    in the listing, after the lines `pre'`): the first instruction of the line is `restore k`, `k` the
    number of constants on the lines strictly before line `n`, i.e. the index of the first constant
    at or after line `n`.  With no constant at or after line `n`, `k = |data|` and the next READ is
    OUT OF DATA (`readData_out_of_data`). -/
theorem restore_n_linked (pre tl : List Line) (hd : Line) (m : Nat) (hl : Listed (pre ++ hd :: tl))
    (hm : hd.number = some m) (hok : ListingClean {} (pre ++ hd :: tl))
    (c c2 : Col) (bits : UInt32) (rest : List Stmt)
    (hparse : Parse.parse hd.number hd.tokens = .ok (.restore c (.single c2 bits) :: rest))
    (n : Nat) (ht : restoreTarget bits = some n)
    (pre' tl' : List Line) (hd' : Line) (hsplit : pre ++ hd :: tl = pre' ++ hd' :: tl') (hn : hd'.number = some n) :
    (compile (pre ++ hd :: tl)).link.ops[(endOf pre).1]? = some (.restore (dataOf pre').length) :=
  restore_line_linked pre tl hd m hl hm (listingOk_of_listingClean _ _ hok) c c2 bits rest hparse n ht pre' tl' hd'
    hsplit hn

/-- the same for a `restore` anywhere in the code: a `restore` of the compile state that waits for the
    symbol of line `n` is patched with the data address recorded for line `n` -/
theorem restore_anywhere_linked (ls : List Line) (hnum : Program.Numbered ls) (a y : Nat) (c : Col) (n o d : Nat)
    (hp : PendingAt (({} : Program).codegenLines ls).link a (.restore y) (some (c, (n : Int))))
    (hsym : (({} : Program).codegenLines ls).link.symbols.lookup (n : Int) = some (o, d)) :
    (compile ls).link.ops[a]? = some (.restore d) :=
  restore_linked ls hnum a y c n o d hp hsym

/-- **plain `RESTORE`** at the head of a line is `restore 0` after linking: it rewinds to the first
    constant (`ht`: the operand the parser supplies, −1, is not a line number) -/
theorem restore_plain_linked (pre tl : List Line) (hd : Line) (m : Nat) (hl : Listed (pre ++ hd :: tl))
    (hm : hd.number = some m) (hok : ListingClean {} (pre ++ hd :: tl))
    (c c2 : Col) (bits : UInt32) (rest : List Stmt)
    (hparse : Parse.parse hd.number hd.tokens = .ok (.restore c (.single c2 bits) :: rest))
    (ht : restoreTarget bits = none) :
    (compile (pre ++ hd :: tl)).link.ops[(endOf pre).1]? = some (.restore 0) :=
  restore_plain_line_linked pre tl hd m hl hm (listingOk_of_listingClean _ _ hok) c c2 bits rest hparse ht

/-- what `restore a` does when executed: the cursor is `a`, nothing else in the program changes -/
theorem restore_sets_cursor (env : Env) (h : Bool) (s : Runtime) (a : Nat)
    (hop : s.program.link.ops[s.pc]? = some (.restore a)) (htr : s.tron = false) :
    (step env h).run.run s = (.ok .continue, { s with pc := s.pc + 1, program := s.program.withDP a }) :=
  step_restore env h s a hop htr

/-! ### 5. the frame lemma and the headline -/

/-- **the frame lemma**: every instruction other than `read`, `restore`, `clear`, `new` (`isCursorOp`)
    leaves the compiled program — code, data segment, symbols, DATA cursor — exactly as it was,
    whether it succeeds, throws, or returns an event … -/
theorem only_cursor_ops_move_the_cursor (env : Env) (h : Bool) (op : Opcode) (hop : isCursorOp op = false)
    (s : Runtime) : ((execOp env h op).run.run s).2.program = s.program :=
  ((execOp_keepProg env h op hop).run s).prog

/-- … and so does a whole `step` at such an instruction (trace prints included) -/
theorem step_keeps_cursor (env : Env) (h : Bool) (s : Runtime)
    (hop : ∀ op, s.program.link.ops[s.pc]? = some op → isCursorOp op = false) :
    ((step env h).run.run s).2.program = s.program :=
  step_keepProg env h s hop

/-- a `step` at a `read` either leaves program and stack alone (a trace print came first, or OUT OF
    DATA) or pushes the constant under the cursor and advances the cursor by one -/
theorem step_at_read (env : Env) (h : Bool) (s : Runtime) (hop : s.program.link.ops[s.pc]? = some .read) :
    (((step env h).run.run s).2.program = s.program ∧ ((step env h).run.run s).2.stack = s.stack) ∨
    (∃ (hlt : s.program.link.dataPos < s.program.link.data.size),
      ((step env h).run.run s).2.program = s.program.withDP (s.program.link.dataPos + 1) ∧
      ((step env h).run.run s).2.stack = s.stack.push s.program.link.data[s.program.link.dataPos]) :=
  step_read_cases env h s hop

/-- **headline**: in any execution — any interleaving of READs with arbitrary other code, of any
    length, with any outcomes — that executes no RESTORE / CLEAR / NEW (`Reads`), the values the
    `read`s deliver are consecutive constants of the data segment starting at the cursor: the `i`-th
    value read is `data[p + i]`; the data segment is untouched and the cursor ends `|vs|` further -/
theorem reads_consume_data_in_order {env : Env} {h : Bool} {s u : Runtime} {vs : List Val}
    (hr : Reads env h s vs u) :
    vs = (s.program.link.data.toList.drop s.program.link.dataPos).take vs.length ∧
    u.program = s.program.withDP (s.program.link.dataPos + vs.length) :=
  reads_in_order hr

/-- … with the cursor at 0 and a program compiled from `lines`: **the `i`-th value read is the `i`-th
    element of `dataOf lines`** -/
theorem reads_are_dataOf {env : Env} {h : Bool} {s u : Runtime} {vs : List Val} (lines : List Line)
    (hdata : s.program.link.data.toList = dataOf lines) (h0 : s.program.link.dataPos = 0)
    (hr : Reads env h s vs u) (i : Nat) (hi : i < vs.length) :
    (dataOf lines)[i]? = some vs[i] := by
  obtain ⟨h1, -⟩ := reads_in_order hr
  rw [hdata, h0, List.drop_zero] at h1
  have : vs[i]? = ((dataOf lines).take vs.length)[i]? := by rw [← h1]
  rw [List.getElem?_take, if_pos hi, List.getElem?_eq_getElem hi] at this
  exact this.symm

/-! ### 4. RUN rewinds -/

/-- **RUN rewinds and the program then reads `dataOf` from index 0.**  From every state satisfying
    the interpreter invariant (`Runtime.Inv`: every reachable state), the direct line `RUN` / `RUN n`
    entered over a listing that compiles as required (`ListingClean`): execution starts at a `clear`
    (`run_starts_with_clear` for the whole interpreter); the data segment in memory is `dataOf` of the
    listing; after that `clear` the cursor is 0 (`doClear_rewinds`) -/
theorem run_rewinds_cursor (env : Env) (hie : Bool) (s : Runtime) (line : Line) (hn : line.number = none)
    (hi : Runtime.Inv s) (c c2 : Col) (bits : UInt32)
    (hparse : Parse.parse none line.tokens = .ok [.run c (.single c2 bits)])
    (hnum : Program.Numbered s.listing.lines) (hok : ListingClean {} s.listing.lines) (htr : s.tron = false) :
    (enterDirect s line).program.link.ops[(enterDirect s line).pc]? = some .clear ∧
    (enterDirect s line).program.link.data.toList = dataOf s.listing.lines ∧
    ((step env hie).run.run (enterDirect s line)).1 = .ok .continue ∧
    ((step env hie).run.run (enterDirect s line)).2.program.link.dataPos = 0 ∧
    ((step env hie).run.run (enterDirect s line)).2.program.link.data.toList = dataOf s.listing.lines :=
  run_rewinds env hie s line hn hi c c2 bits hparse hnum (listingOk_of_listingClean _ _ hok) htr

/-- **the first READs after RUN**: in any execution after the `clear` of RUN that contains no
    RESTORE / CLEAR / NEW, the values read are the first `|vs|` constants of the listing, in order -/
theorem first_reads_after_run (env : Env) (hie : Bool) (s : Runtime) (line : Line) (hn : line.number = none)
    (hi : Runtime.Inv s) (c c2 : Col) (bits : UInt32)
    (hparse : Parse.parse none line.tokens = .ok [.run c (.single c2 bits)])
    (hnum : Program.Numbered s.listing.lines) (hok : ListingClean {} s.listing.lines) (htr : s.tron = false)
    (vs : List Val) (u : Runtime) (hr : Reads env hie ((step env hie).run.run (enterDirect s line)).2 vs u) :
    vs = (dataOf s.listing.lines).take vs.length ∧ u.program.link.dataPos = vs.length :=
  reads_after_run env hie s line hn hi c c2 bits hparse hnum (listingOk_of_listingClean _ _ hok) htr vs u hr

/-- the same for a listing that compiles without errors — the condition under which RUN executes the
    program at all -/
theorem first_reads_after_run_of_clean_compile (env : Env) (hie : Bool) (s : Runtime) (line : Line)
    (hn : line.number = none) (hi : Runtime.Inv s) (c c2 : Col) (bits : UInt32)
    (hparse : Parse.parse none line.tokens = .ok [.run c (.single c2 bits)])
    (hnum : Program.Numbered s.listing.lines) (hclean : (compile s.listing.lines).indirectErrors = [])
    (htr : s.tron = false)
    (vs : List Val) (u : Runtime) (hr : Reads env hie ((step env hie).run.run (enterDirect s line)).2 vs u) :
    vs = (dataOf s.listing.lines).take vs.length ∧ u.program.link.dataPos = vs.length :=
  first_reads_after_run env hie s line hn hi c c2 bits hparse hnum
    (listingClean_of_compile_clean _ hnum hclean).1 htr vs u hr

/-- CLEAR as a statement does the same: the cursor is 0 afterwards, code and data unchanged -/
theorem clear_rewinds_cursor (env : Env) (h : Bool) (s : Runtime)
    (hop : s.program.link.ops[s.pc]? = some .clear) (htr : s.tron = false) :
    ((step env h).run.run s).2.program = s.program.withDP 0 := by
  obtain ⟨h1, h2⟩ := step_at_clear env h s hop htr
  rw [h1, h2]

/-! ### 6. non-vacuity

  `10 RESTORE 30` / `20 DATA 7,-8` / `30 DATA "X"`.  The kernel does not evaluate the parser, and the
  operand of `RESTORE 30` goes through the opaque `Float32.ofNat`; so the DATA lines are concrete
  (their parses proved by unfolding the parser), while line 10 is any line with number 10 for which
  the parser returns `RESTORE <bits>` with `restoreTarget bits = some 30` — for the tokens of
  `RESTORE 30` the parser returns `[.restore (8, 10) (lineExpr (8, 10) 30)]` (`#eval`). -/

theorem i16_7p : Fmt.parseI16 (Parse.numText ['7']) = some 7 := by decide +kernel
theorem i16_8p : Fmt.parseI16 (Parse.numText ['8']) = some 8 := by decide +kernel

theorem parse_pData1 (n : Option Nat) :
    Parse.parse n [.word .data, .whitespace 1, .literal (.integer ['7']), .comma, .operator .minus,
      .literal (.integer ['8'])] =
    .ok [.data (9, 9) [.integer (5, 6) 7, .neg (7, 8) (.integer (8, 9) 8)]] := by
  simp [Parse.parse, Parse.parseTokens, Parse.fuelFor, Parse.statements, Parse.statement, Parse.peek,
    Parse.next, Parse.nextLoop, Parse.col, Parse.isRem, StateT.run, bind, StateT.bind, Except.bind, get,
    getThe, MonadStateOf.get, StateT.get, pure, StateT.pure, Except.pure, set, StateT.set, modify,
    modifyGet, MonadStateOf.modifyGet, StateT.modifyGet, Except.map, Token.text, Word.text, Literal.text,
    Parse.descend, Parse.binLoop, Parse.maybe, Parse.literal, Parse.exprList, i16_7p, i16_8p, Operator.text]

theorem parse_pData2 (n : Option Nat) :
    Parse.parse n [.word .data, .whitespace 1, .literal (.string ['X'])] = .ok [.data (8, 8) [.string (5, 8) ['X']]] := by
  simp [Parse.parse, Parse.parseTokens, Parse.fuelFor, Parse.statements, Parse.statement, Parse.peek,
    Parse.next, Parse.nextLoop, Parse.col, Parse.isRem, StateT.run, bind, StateT.bind, Except.bind, get,
    getThe, MonadStateOf.get, StateT.get, pure, StateT.pure, Except.pure, set, StateT.set, modify,
    modifyGet, MonadStateOf.modifyGet, StateT.modifyGet, Except.map, Token.text, Word.text, Literal.text,
    Parse.descend, Parse.binLoop, Parse.maybe, Parse.literal, Parse.exprList, Operator.text]

def exD20 : Line := ⟨some 20, [.word .data, .whitespace 1, .literal (.integer ['7']), .comma, .operator .minus,
  .literal (.integer ['8'])]⟩
def exD30 : Line := ⟨some 30, [.word .data, .whitespace 1, .literal (.string ['X'])]⟩

/-- the compile state after `10 RESTORE 30` -/
def exAfter10 : Program :=
  { lineNumber := some 10,
    link := { ops := #[.restore 0], symbols := [(10, (0, 0))], unlinked := [(0, ((8, 10), 30))] } }

section
set_option linter.unusedSectionVars false
variable (hd : Line) (hm : hd.number = some 10) (bits : UInt32)
  (hparse : Parse.parse hd.number hd.tokens = .ok [.restore (8, 10) (.single (8, 10) bits)])
  (ht : restoreTarget bits = some 30)
include hm hparse ht

theorem ex_after10 : ({} : Program).codegenLine hd = exAfter10 := by
  rw [codegenLine_of_ast {} hd 10 _ hm hparse]
  unfold genWith Codegen.codegen
  rw [Codegen.acceptStmts, Codegen.acceptStmts, acceptStmt_restore, ht]
  rfl

theorem ex_ok : ListingClean {} [hd, exD20, exD30] := by
  apply listingClean_of_listingOk
  refine ⟨?_, ?_⟩
  · intro n ast hn hp
    rw [hm] at hn
    cases hn
    rw [hparse] at hp
    cases hp
    refine ⟨rfl, ?_⟩
    unfold Codegen.codegen
    rw [Codegen.acceptStmts, Codegen.acceptStmts, acceptStmt_restore, ht]
    rfl
  · rw [ex_after10 hd hm bits hparse ht]
    exact listingOk_of_check _ [_, _] _ (.cons (parse_pData1 _) (.cons (parse_pData2 _) .nil)) (by decide +kernel)

theorem ex_listed : Listed ([] ++ hd :: [exD20, exD30]) := by
  refine ⟨?_, ?_⟩
  · intro l hl
    simp only [List.nil_append, List.mem_cons, List.not_mem_nil, or_false] at hl
    rcases hl with rfl | rfl | rfl
    · exact ⟨10, hm, by decide⟩
    · exact ⟨20, rfl, by decide⟩
    · exact ⟨30, rfl, by decide⟩
  · show List.Pairwise _ [hd, exD20, exD30]
    refine List.Pairwise.cons ?_ (List.Pairwise.cons ?_ (List.Pairwise.cons ?_ List.Pairwise.nil))
    · intro b hb x y hx hy
      rw [hm] at hx
      cases hx
      simp only [List.mem_cons, List.not_mem_nil, or_false] at hb
      rcases hb with rfl | rfl <;> (cases hy; decide)
    · intro b hb x y hx hy
      simp only [List.mem_cons, List.not_mem_nil, or_false] at hb
      subst hb
      cases hx; cases hy; decide
    · intro b hb
      cases hb

/-- the constants before line 30: those of lines 10 and 20 -/
theorem ex_dataOf : dataOf [hd, exD20] = [.int 7, .int (-8)] := by
  rw [dataOf_of_parses _ [_, _] (.cons hparse (.cons (parse_pData1 _) .nil))]
  rfl

/-- **`RESTORE 30` is linked to `restore 2`**: two constants precede line 30 -/
example : (compile ([] ++ hd :: [exD20, exD30])).link.ops[0]? = some (.restore 2) := by
  have h := restore_n_linked [] [exD20, exD30] hd 10 (ex_listed hd hm bits hparse ht) hm
    (ex_ok hd hm bits hparse ht) (8, 10) (8, 10) bits [] hparse 30 ht [hd, exD20] [] exD30 rfl rfl
  rw [ex_dataOf hd hm bits hparse ht] at h
  exact h

/-- **the symbol of line 30 records 2 constants before it** (and code address 1) -/
example : (compile ([hd, exD20] ++ exD30 :: [])).link.symbols.lookup 30 =
    some ((endOf [hd, exD20]).1, 2) := by
  have h := line_symbol_data_addr [hd, exD20] [] exD30 30 (ex_listed hd hm bits hparse ht) rfl
    (ex_ok hd hm bits hparse ht)
  rw [ex_dataOf hd hm bits hparse ht] at h
  exact h

/-- the data segment of the example -/
example : (compile [hd, exD20, exD30]).link.data.toList = [.int 7, .int (-8), .str ['X']] := by
  have hnum : DataOrder.Numbered [hd, exD20, exD30] := fun l hl =>
    ((ex_listed hd hm bits hparse ht).numbered l hl).imp fun _ h => h.1
  have h := compile_data_of_listingClean [hd, exD20, exD30] hnum (ex_ok hd hm bits hparse ht)
  rw [dataOf_of_parses _ [_, _, _] (.cons hparse (.cons (parse_pData1 _) (.cons (parse_pData2 _) .nil)))] at h
  exact h

end

/-- plain `RESTORE`: fully concrete (the operand the parser supplies is the bit pattern of −1) -/
theorem parse_exRestorePlain (n : Option Nat) :
    Parse.parse n [.word .restore] = .ok [.restore (7, 7) (.single (7, 7) 0xbf800000)] := by
  simp [Parse.parse, Parse.parseTokens, Parse.fuelFor, Parse.statements, Parse.statement, Parse.peek,
    Parse.next, Parse.nextLoop, Parse.col, Parse.isRem, StateT.run, bind, StateT.bind, Except.bind, get,
    getThe, MonadStateOf.get, StateT.get, pure, StateT.pure, Except.pure, set, StateT.set, modify,
    modifyGet, MonadStateOf.modifyGet, StateT.modifyGet, Except.map, Token.text, Word.text,
    Parse.maybeLineNumber]

def exR25 : Line := ⟨some 25, [.word .restore]⟩

theorem exPlainParses : Parses [exD20, exR25, exD30]
    [[.data (9, 9) [.integer (5, 6) 7, .neg (7, 8) (.integer (8, 9) 8)]],
     [.restore (7, 7) (.single (7, 7) 0xbf800000)], [.data (8, 8) [.string (5, 8) ['X']]]] :=
  .cons (parse_pData1 _) (.cons (parse_exRestorePlain _) (.cons (parse_pData2 _) .nil))

/-- `20 DATA 7,-8` / `25 RESTORE` / `30 DATA "X"`: the RESTORE is linked to `restore 0` -/
example : (compile ([exD20] ++ exR25 :: [exD30])).link.ops[(endOf [exD20]).1]? = some (.restore 0) :=
  restore_plain_linked [exD20] [exD30] exR25 25 (listed_of_check _ (by decide)) rfl
    (listingClean_of_listingOk _ _ (listingOk_of_check _ _ _ exPlainParses (by decide +kernel))) (7, 7) (7, 7)
    0xbf800000 []
    (parse_exRestorePlain _) (by decide +kernel)

/-- the frame lemma applies to, e.g., `pop`, `print`, `jump`, `end`; not to the four cursor instructions -/
example : isCursorOp (.pop ['A']) = false ∧ isCursorOp .print = false ∧ isCursorOp (.jump 3) = false ∧
    isCursorOp .end = false ∧ isCursorOp .read = true ∧ isCursorOp (.restore 2) = true ∧
    isCursorOp .clear = true ∧ isCursorOp .new = true := by decide

/-- an execution `read; pop A%; read` on the data `7, "X"`: the values delivered are `7, "X"` -/
def exRt : Runtime :=
  { program := { link := { ops := #[.read, .pop ['A', '%'], .read, .end], data := #[.int 7, .str ['X']] } } }

def env0 : Env := { lex := fun _ => ⟨none, []⟩, lineRenum := fun _ l => l }

def exRt1 : Runtime := ((step env0 false).run.run exRt).2
def exRt2 : Runtime := ((step env0 false).run.run exRt1).2
def exRt3 : Runtime := ((step env0 false).run.run exRt2).2

/-- three steps: a `read`, a store, a `read` -/
theorem exReads : Reads env0 false exRt (delivered env0 false exRt ++ (delivered env0 false exRt2 ++ [])) exRt3 :=
  .read (by decide +kernel) (.other (s := exRt1) (by decide +kernel)
    (.read (s := exRt2) (by decide +kernel) (.done exRt3)))

example : delivered env0 false exRt ++ (delivered env0 false exRt2 ++ []) = [.int 7, .str ['X']] := by decide +kernel

/-- … as `reads_consume_data_in_order` says: the data from the cursor on, and the cursor ends at 2 -/
example : exRt3.program.link.dataPos = 2 := by
  have := (reads_consume_data_in_order exReads).2
  rw [this]
  decide +kernel

end Thm.C09
end Basic
