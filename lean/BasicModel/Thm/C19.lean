import BasicModel.Lemmas.C19
import BasicModel.Model.Runtime
import BasicModel.Lemmas.VmDispatch
/-
  C19 — Diagnostics point into the listed line.

  The column range the parser attaches to a token is the token's character offset and width in the
  text `printTokens` produces for the line (whitespace counted, nothing after a remark word
  delivered); `Listing.errorColumn` shifts that range by the width of the `"<n> "` prefix that
  `printLine` puts in front, so the shifted range slices the same characters out of the listed
  line; an UNDEFINED LINE error carries exactly the range codegen stored with the pending
  reference (the digits of the operand); and a jump into a program that has compile errors stops
  with those errors instead of running a line.
-/
namespace Basic
namespace Thm.C19
open Parse Lemmas.C19

/-! ### 1. `nextLoop`: column of a token = its offset in the listed text -/

/-- On a remark-free token list, a delivered token sits after a run of blanks; its column range is
    `[ce + width of the blanks, … + width of the token)`. -/
theorem nextLoop_col_is_offset (ts : List Token) (hrem : ∀ t ∈ ts, Parse.isRem t = false)
    (cs ce : Nat) (t : Token) (rest : List Token) (rem : Bool) (cs' ce' : Nat)
    (h : Parse.nextLoop ts false cs ce = (some t, rest, rem, cs', ce')) :
    ∃ ws, ts = ws ++ t :: rest ∧ (∀ w ∈ ws, ∃ n, w = Token.whitespace n) ∧ rem = false ∧
      cs' = ce + (printTokens ws).length ∧ ce' = cs' + t.text.length := by
  rcases nextLoop_spec ts hrem cs ce with ⟨t', ws, rest', hts, hws, _, heq⟩ | ⟨_, heq⟩
  · rw [heq] at h
    simp only [Prod.mk.injEq, Option.some.injEq] at h
    obtain ⟨rfl, rfl, rfl, rfl, rfl⟩ := h
    exact ⟨ws, hts, hws, rfl, rfl, rfl⟩
  · rw [heq] at h
    simp at h

/-- The delivered token is never a blank. -/
theorem nextLoop_token_not_whitespace (ts : List Token) (hrem : ∀ t ∈ ts, Parse.isRem t = false)
    (cs ce : Nat) (t : Token) (rest : List Token) (rem : Bool) (cs' ce' : Nat)
    (h : Parse.nextLoop ts false cs ce = (some t, rest, rem, cs', ce')) :
    ∀ n, t ≠ .whitespace n := by
  rcases nextLoop_spec ts hrem cs ce with ⟨t', ws, rest', _, _, hnw, heq⟩ | ⟨_, heq⟩
  · rw [heq] at h
    simp only [Prod.mk.injEq, Option.some.injEq] at h
    obtain ⟨rfl, -⟩ := h
    exact hnw
  · rw [heq] at h
    simp at h

/-- End of line: nothing but blanks was left, and both columns stand at the end of the text. -/
theorem nextLoop_none_is_end (ts : List Token) (hrem : ∀ t ∈ ts, Parse.isRem t = false)
    (cs ce : Nat) (rest : List Token) (rem : Bool) (cs' ce' : Nat)
    (h : Parse.nextLoop ts false cs ce = (none, rest, rem, cs', ce')) :
    (∀ w ∈ ts, ∃ n, w = Token.whitespace n) ∧ rest = [] ∧ rem = false ∧
      cs' = ce + (printTokens ts).length ∧ ce' = ce + (printTokens ts).length := by
  rcases nextLoop_spec ts hrem cs ce with ⟨t', ws, rest', _, _, _, heq⟩ | ⟨hws, heq⟩
  · rw [heq] at h
    simp at h
  · rw [heq] at h
    simp only [Prod.mk.injEq] at h
    obtain ⟨-, rfl, rfl, rfl, rfl⟩ := h
    exact ⟨hws, rfl, rfl, rfl, rfl⟩

/-- With `ce` at the offset of `ts` inside a longer text, the range slices the token out of it. -/
theorem nextLoop_col_slices (pre ts : List Token) (hrem : ∀ t ∈ ts, Parse.isRem t = false)
    (cs : Nat) (t : Token) (rest : List Token) (rem : Bool) (cs' ce' : Nat)
    (h : Parse.nextLoop ts false cs (printTokens pre).length = (some t, rest, rem, cs', ce')) :
    ((printTokens (pre ++ ts)).drop cs').take (ce' - cs') = t.text := by
  obtain ⟨ws, hts, _, _, hcs, hce⟩ := nextLoop_col_is_offset ts hrem cs _ t rest rem cs' ce' h
  have e : printTokens (pre ++ ts) = printTokens (pre ++ ws) ++ t.text ++ printTokens rest := by
    rw [hts]
    simp [printTokens]
  rw [e]
  apply slice_mid'
  · rw [hcs, printTokens_length_append]
  · omega

/-! ### 2. the parser state: `next` / `peek` keep the column at the offset -/

/-- `st` is a state reached while reading the line `all`: the tokens already taken (`consumed`)
    followed by the remaining ones make up the line, the end column is the width of the text of
    the consumed part, no remark was seen, and a token held in the look-ahead is the last consumed
    one with the start column at its offset. -/
def Inv (all : List Token) (st : PState) : Prop :=
  ∃ consumed, all = consumed ++ st.toks ∧ st.ce = (printTokens consumed).length ∧ st.rem = false ∧
    ∀ t, st.peeked = some t → ∃ pre, consumed = pre ++ [t] ∧ st.cs = (printTokens pre).length

/-- `[st.cs, st.ce)` is the place of `t` in the text of `all`, and `st.toks` is what follows -/
def At (all : List Token) (st : PState) (t : Token) : Prop :=
  ∃ pre, all = pre ++ t :: st.toks ∧ st.cs = (printTokens pre).length ∧
    st.ce = st.cs + t.text.length

/-- the parser starts in a state satisfying the invariant -/
theorem inv_init (ts : List Token) : Inv ts { toks := ts } :=
  ⟨[], rfl, rfl, rfl, by intro t h; cases h⟩

/-- what `At` says about the listed text -/
theorem at_slices {all : List Token} {st : PState} {t : Token} (h : At all st t) :
    ((printTokens all).drop st.cs).take (st.ce - st.cs) = t.text := by
  obtain ⟨pre, hall, hcs, hce⟩ := h
  have e : printTokens all = printTokens pre ++ t.text ++ printTokens st.toks := by
    rw [hall]; simp [printTokens]
  rw [e]
  exact slice_mid' _ _ _ _ _ hcs (by omega)

/-- `Parse.next` as a function of the state (it never fails) -/
theorem next_run (st : PState) :
    Parse.next.run st = .ok (match st.peeked with
      | some t => (some t, { st with peeked := none })
      | none =>
        let r := nextLoop st.toks st.rem st.cs st.ce
        (r.1, { st with toks := r.2.1, rem := r.2.2.1, cs := r.2.2.2.1, ce := r.2.2.2.2 })) := by
  obtain ⟨toks, peeked, rem, cs, ce⟩ := st
  cases peeked <;> rfl

/-- `Parse.peek` as a function of the state (it never fails) -/
theorem peek_run (st : PState) :
    Parse.peek.run st = .ok (match st.peeked with
      | some t => (some t, st)
      | none =>
        let r := nextLoop st.toks st.rem st.cs st.ce
        (r.1, { st with toks := r.2.1, rem := r.2.2.1, cs := r.2.2.2.1, ce := r.2.2.2.2,
                        peeked := r.1 })) := by
  obtain ⟨toks, peeked, rem, cs, ce⟩ := st
  cases peeked <;> rfl

/-- the common core of `next` and `peek` when the look-ahead is empty -/
theorem loop_step (all : List Token) (hrem : ∀ t ∈ all, Parse.isRem t = false) (st : PState)
    (hinv : Inv all st) :
    (∃ t ws rest consumed, all = consumed ++ st.toks ∧ st.toks = ws ++ t :: rest ∧
        st.ce = (printTokens consumed).length ∧
        nextLoop st.toks st.rem st.cs st.ce
          = (some t, rest, false, (printTokens (consumed ++ ws)).length,
             (printTokens (consumed ++ ws)).length + t.text.length)) ∨
    (nextLoop st.toks st.rem st.cs st.ce
        = (none, [], false, (printTokens all).length, (printTokens all).length)) := by
  obtain ⟨consumed, hall, hce, hr, _⟩ := hinv
  have hrem' : NoRem st.toks := by
    have : NoRem (consumed ++ st.toks) := hall ▸ hrem
    exact this.of_append_right
  rw [hr]
  rcases nextLoop_spec st.toks hrem' st.cs st.ce with ⟨t, ws, rest, hts, _, _, heq⟩ | ⟨_, heq⟩
  · left
    refine ⟨t, ws, rest, consumed, hall, hts, hce, ?_⟩
    rw [heq, printTokens_length_append, hce]
  · right
    rw [heq, hall, printTokens_length_append, hce]

/-- `next` keeps the invariant, empties the look-ahead, and the token it returns is at the
    column range it leaves in the state; `none` means the whole line has been read. -/
theorem next_spec (all : List Token) (hrem : ∀ t ∈ all, Parse.isRem t = false)
    (st st' : PState) (r : Option Token) (hinv : Inv all st)
    (h : Parse.next.run st = .ok (r, st')) :
    Inv all st' ∧ st'.peeked = none ∧ (∀ t, r = some t → At all st' t) ∧
      (r = none → st'.toks = [] ∧ st'.ce = (printTokens all).length) := by
  rw [next_run] at h
  cases hp : st.peeked with
  | some t =>
    rw [hp] at h
    simp only [Except.ok.injEq, Prod.mk.injEq] at h
    obtain ⟨rfl, rfl⟩ := h
    obtain ⟨consumed, hall, hce, hr, hpk⟩ := hinv
    obtain ⟨pre, hcons, hcs⟩ := hpk t hp
    refine ⟨⟨consumed, hall, hce, hr, by intro t' h'; cases h'⟩, rfl, ?_, by intro h'; cases h'⟩
    intro t' ht'
    cases ht'
    refine ⟨pre, ?_, hcs, ?_⟩
    · show all = pre ++ t :: st.toks
      rw [hall, hcons]; simp
    · show st.ce = st.cs + t.text.length
      rw [hce, hcs, hcons, printTokens_snoc, List.length_append]
  | none =>
    rw [hp] at h
    simp only [Except.ok.injEq, Prod.mk.injEq] at h
    obtain ⟨rfl, rfl⟩ := h
    rcases loop_step all hrem st hinv with ⟨t, ws, rest, consumed, hall, hts, hce, heq⟩ | heq
    · rw [heq]
      refine ⟨⟨consumed ++ ws ++ [t], ?_, ?_, rfl, by intro t' h'; cases h'⟩,
        rfl, ?_, by intro h'; cases h'⟩
      · show all = consumed ++ ws ++ [t] ++ rest
        rw [hall, hts]; simp
      · show (printTokens (consumed ++ ws)).length + t.text.length = _
        rw [printTokens_snoc, List.length_append]
      · intro t' ht'
        cases ht'
        refine ⟨consumed ++ ws, ?_, rfl, rfl⟩
        show all = consumed ++ ws ++ t :: rest
        rw [hall, hts]; simp
    · rw [heq]
      refine ⟨⟨all, by simp, rfl, rfl, by intro t' h'; cases h'⟩, rfl,
        (by intro t' h'; cases h'), fun _ => ⟨rfl, rfl⟩⟩

/-- `peek` keeps the invariant, leaves its result in the look-ahead, and the token it shows is at
    the column range in the state. -/
theorem peek_spec (all : List Token) (hrem : ∀ t ∈ all, Parse.isRem t = false)
    (st st' : PState) (r : Option Token) (hinv : Inv all st)
    (h : Parse.peek.run st = .ok (r, st')) :
    Inv all st' ∧ st'.peeked = r ∧ (∀ t, r = some t → At all st' t) := by
  rw [peek_run] at h
  cases hp : st.peeked with
  | some t =>
    rw [hp] at h
    simp only [Except.ok.injEq, Prod.mk.injEq] at h
    obtain ⟨rfl, rfl⟩ := h
    refine ⟨hinv, hp, ?_⟩
    obtain ⟨consumed, hall, hce, hr, hpk⟩ := hinv
    obtain ⟨pre, hcons, hcs⟩ := hpk t hp
    intro t' ht'
    cases ht'
    refine ⟨pre, ?_, hcs, ?_⟩
    · rw [hall, hcons]; simp
    · rw [hce, hcs, hcons, printTokens_snoc, List.length_append]
  | none =>
    rw [hp] at h
    simp only [Except.ok.injEq, Prod.mk.injEq] at h
    obtain ⟨rfl, rfl⟩ := h
    rcases loop_step all hrem st hinv with ⟨t, ws, rest, consumed, hall, hts, hce, heq⟩ | heq
    · rw [heq]
      refine ⟨⟨consumed ++ ws ++ [t], ?_, ?_, rfl, ?_⟩, rfl, ?_⟩
      · show all = consumed ++ ws ++ [t] ++ rest
        rw [hall, hts]; simp
      · show (printTokens (consumed ++ ws)).length + t.text.length = _
        rw [printTokens_snoc, List.length_append]
      · intro t' ht'
        have : t = t' := by simpa using ht'
        subst this
        exact ⟨consumed ++ ws, rfl, rfl⟩
      · intro t' ht'
        cases ht'
        refine ⟨consumed ++ ws, ?_, rfl, rfl⟩
        show all = consumed ++ ws ++ t :: rest
        rw [hall, hts]; simp
    · rw [heq]
      refine ⟨⟨all, by simp, rfl, rfl, by intro t' h'; cases h'⟩, rfl, by intro t' h'; cases h'⟩

theorem next_preserves_inv (all : List Token) (hrem : ∀ t ∈ all, Parse.isRem t = false)
    (st st' : PState) (r : Option Token) (hinv : Inv all st)
    (h : Parse.next.run st = .ok (r, st')) : Inv all st' :=
  (next_spec all hrem st st' r hinv h).1

theorem peek_preserves_inv (all : List Token) (hrem : ∀ t ∈ all, Parse.isRem t = false)
    (st st' : PState) (r : Option Token) (hinv : Inv all st)
    (h : Parse.peek.run st = .ok (r, st')) : Inv all st' :=
  (peek_spec all hrem st st' r hinv h).1

/-- After `next` returns a token, the column range in the state slices exactly that token's text
    out of the listed text of the line. -/
theorem next_col_slices_token (all : List Token) (hrem : ∀ t ∈ all, Parse.isRem t = false)
    (st st' : PState) (t : Token) (hinv : Inv all st)
    (h : Parse.next.run st = .ok (some t, st')) :
    ((printTokens all).drop st'.cs).take (st'.ce - st'.cs) = t.text :=
  at_slices ((next_spec all hrem st st' (some t) hinv h).2.2.1 t rfl)

/-- The same for the token `peek` shows (this is the range `failHere` reports after a `peek`). -/
theorem peek_col_slices_token (all : List Token) (hrem : ∀ t ∈ all, Parse.isRem t = false)
    (st st' : PState) (t : Token) (hinv : Inv all st)
    (h : Parse.peek.run st = .ok (some t, st')) :
    ((printTokens all).drop st'.cs).take (st'.ce - st'.cs) = t.text :=
  at_slices ((peek_spec all hrem st st' (some t) hinv h).2.2 t rfl)

/-- `col` reads the range without changing the state. -/
theorem col_run (st : PState) : Parse.col.run st = .ok ((st.cs, st.ce), st) := rfl

/-- `next` then `peek`-free `col`: the pair `col` returns after a successful `next` is the slice. -/
theorem next_then_col_slices (all : List Token) (hrem : ∀ t ∈ all, Parse.isRem t = false)
    (st st' : PState) (t : Token) (c : Col) (hinv : Inv all st)
    (h : (do let r ← Parse.next; let c ← Parse.col; pure (r, c) : PM _).run st
          = .ok ((some t, c), st')) :
    ((printTokens all).drop c.1).take (c.2 - c.1) = t.text := by
  have hn := next_run st
  cases hn' : Parse.next.run st with
  | error e => rw [hn'] at hn; cases hn
  | ok p =>
    obtain ⟨r, st1⟩ := p
    have h' : (Except.ok ((r, (st1.cs, st1.ce)), st1) : Except Error _) = .ok ((some t, c), st') := by
      rw [← h]
      simp only [StateT.run] at hn' ⊢
      simp [bind, Except.bind, StateT.bind, hn', Parse.col, get, getThe, MonadStateOf.get,
        StateT.get, pure, StateT.pure, Except.pure]
    simp only [Except.ok.injEq, Prod.mk.injEq] at h'
    obtain ⟨⟨rfl, rfl⟩, rfl⟩ := h'
    exact next_col_slices_token all hrem st st1 t hinv hn'


/-! ### 3. nothing after a remark word is delivered -/

/-- With the remark flag set `nextLoop` delivers nothing and leaves `ce` where it was. -/
theorem remark_tail_ignored (ts : List Token) (cs ce : Nat) :
    Parse.nextLoop ts true cs ce = (none, [], true, ce, ce) :=
  nextLoop_rem ts cs ce

/-- A REM / `'` at the head sets the flag: the word itself and the rest of the line are skipped. -/
theorem remark_head_ignored (t : Token) (ts : List Token) (cs ce : Nat)
    (h : Parse.isRem t = true) :
    Parse.nextLoop (t :: ts) false cs ce = (none, [], true, ce, ce) :=
  nextLoop_rem_head t ts false cs ce h

/-- The same after a run of blanks: the columns stop just before the remark word. -/
theorem remark_after_blanks_ignored (ws : List Token) (hws : ∀ w ∈ ws, ∃ n, w = Token.whitespace n)
    (t : Token) (ts : List Token) (cs ce : Nat) (h : Parse.isRem t = true) :
    Parse.nextLoop (ws ++ t :: ts) false cs ce
      = (none, [], true, ce + (printTokens ws).length, ce + (printTokens ws).length) := by
  induction ws generalizing cs ce with
  | nil => simpa [printTokens] using remark_head_ignored t ts cs ce h
  | cons w ws ih =>
    obtain ⟨n, rfl⟩ := hws _ List.mem_cons_self
    rw [List.cons_append, nextLoop_ws, ih (fun w hw => hws w (List.mem_cons_of_mem _ hw)),
      printTokens_length_cons]
    simp only [Nat.add_assoc]

/-- Once the flag is set in the parser state, `next` reports end of line whatever is left. -/
theorem next_after_remark (st : PState) (hp : st.peeked = none) (hr : st.rem = true) :
    Parse.next.run st = .ok (none, { st with toks := [], cs := st.ce }) := by
  rw [next_run, hp, hr]
  simp only [remark_tail_ignored]

/-! ### 4. `errorColumn`: the shift is the width of the `"<n> "` prefix of the listed line -/

theorem printLine_some (n : Nat) (ts : List Token) :
    printLine (some n) ts = RStd.natDigits n ++ ' ' :: printTokens ts := rfl

theorem printLine_none (ts : List Token) : printLine none ts = printTokens ts := rfl

/-- the shift, with the width of the number written as the length of its digit list -/
theorem errorColumn_some (e : Error) (n : Nat) (h : e.line = some n) :
    Listing.errorColumn e
      = (e.colStart + ((RStd.natDigits n).length + 1), e.colEnd + ((RStd.natDigits n).length + 1)) := by
  simp [Listing.errorColumn, h, natDigits_length]

/-- an error without a line (a direct statement) keeps its range -/
theorem errorColumn_none (e : Error) (h : e.line = none) :
    Listing.errorColumn e = (e.colStart, e.colEnd) := by
  simp [Listing.errorColumn, h]

/-- the width of the range is not changed -/
theorem errorColumn_width (e : Error) :
    (Listing.errorColumn e).2 - (Listing.errorColumn e).1 = e.colEnd - e.colStart := by
  cases h : e.line with
  | none => rw [errorColumn_none e h]
  | some n => rw [errorColumn_some e n h]; simp only; omega

/-- Dropping up to the shifted start column of the listed line is dropping up to the stored start
    column of the token text: the prefix `"<n> "` is exactly skipped. -/
theorem errorColumn_shift (e : Error) (n : Nat) (ts : List Token) (width : Nat) (h : e.line = some n) :
    ((printLine (some n) ts).drop (Listing.errorColumn e).1).take width
      = ((printTokens ts).drop e.colStart).take width := by
  rw [errorColumn_some e n h, printLine_some]
  have e1 : RStd.natDigits n ++ ' ' :: printTokens ts = (RStd.natDigits n ++ [' ']) ++ printTokens ts := by
    simp
  have hl : (RStd.natDigits n).length + 1 = (RStd.natDigits n ++ [' ']).length := by simp
  rw [e1]
  simp only [hl, drop_prefix_add]

/-- Both cases at once: the range `errorColumn` reports selects from the listed line what the
    stored range selects from the token text. -/
theorem errorColumn_slice (e : Error) (ts : List Token) :
    ((printLine e.line ts).drop (Listing.errorColumn e).1).take
        ((Listing.errorColumn e).2 - (Listing.errorColumn e).1)
      = ((printTokens ts).drop e.colStart).take (e.colEnd - e.colStart) := by
  rw [errorColumn_width]
  cases h : e.line with
  | none => rw [errorColumn_none e h, printLine_none]
  | some n => rw [← h, h, errorColumn_shift e n ts _ h]

/-- End to end for the parser: a diagnostic raised at the range left by `next` (what `failHere`
    does) on line `n` is shown, in the listed line `"<n> " ++ text`, exactly under the token. -/
theorem listed_range_slices_token (all : List Token) (hrem : ∀ t ∈ all, Parse.isRem t = false)
    (st st' : PState) (t : Token) (hinv : Inv all st)
    (h : Parse.next.run st = .ok (some t, st')) (e : Error)
    (hs : e.colStart = st'.cs) (he : e.colEnd = st'.ce) :
    ((printLine e.line all).drop (Listing.errorColumn e).1).take
        ((Listing.errorColumn e).2 - (Listing.errorColumn e).1) = t.text := by
  rw [errorColumn_slice, hs, he]
  exact next_col_slices_token all hrem st st' t hinv h

/-! ### 5. link: UNDEFINED LINE carries the range stored with the pending reference -/

/-- A line-number reference (`sym ≥ 0`) with no symbol: UNDEFINED LINE at the stored range, on the
    line that contains the referring op; the link is not changed. -/
theorem undefined_line_col (l : Link) (opAddr : Nat) (c : Col) (sym : Symbol)
    (hlook : l.symbols.lookup sym = none) (hsym : sym ≥ 0) :
    ∃ e, Link.linkOne l opAddr c sym = (l, some e) ∧ e.code = Code.undefinedLine ∧
      e.colStart = c.1 ∧ e.colEnd = c.2 ∧ e.line = l.lineNumberFor opAddr := by
  refine ⟨Link.mkErr Code.undefinedLine (l.lineNumberFor opAddr) c, ?_, rfl, rfl, rfl, rfl⟩
  simp [Link.linkOne, hlook, hsym]

/-- Whatever error `linkOne` reports, it is at the stored range on the line of the referring op. -/
theorem linkOne_error_col (l l' : Link) (opAddr : Nat) (c : Col) (sym : Symbol) (e : Error)
    (h : Link.linkOne l opAddr c sym = (l', some e)) :
    l' = l ∧ e.colStart = c.1 ∧ e.colEnd = c.2 ∧ e.line = l.lineNumberFor opAddr := by
  unfold Link.linkOne at h
  split at h
  · split at h <;>
      (simp only [Prod.mk.injEq, Option.some.injEq] at h; obtain ⟨rfl, rfl⟩ := h
       exact ⟨rfl, rfl, rfl, rfl⟩)
  · split at h <;> first
      | (simp only [Prod.mk.injEq, Option.some.injEq] at h; obtain ⟨rfl, rfl⟩ := h
         exact ⟨rfl, rfl, rfl, rfl⟩)
      | (simp at h)

/-- WHILE/WEND diagnostics are built by the same `mkErr`: the range is the one given. -/
theorem mkErr_col (code : Nat) (line : Option Nat) (c : Col) :
    (Link.mkErr code line c).code = code ∧ (Link.mkErr code line c).line = line ∧
      (Link.mkErr code line c).colStart = c.1 ∧ (Link.mkErr code line c).colEnd = c.2 :=
  ⟨rfl, rfl, rfl, rfl⟩

/-! ### 6. codegen: the range of the operand is stored under the address of the op to patch -/

/-- `pushGoto c (some n)` as a function of the state -/
theorem pushGoto_run (c : Col) (n : Nat) (g : Codegen.GState) :
    (Codegen.pushGoto c (some n)).run.run g
      = (((g.cur.addUnlinked c (n : Int)).push (.jump 0)).2,
         { g with cur := ((g.cur.addUnlinked c (n : Int)).push (.jump 0)).1 }) := by
  show (Codegen.lpush (.jump 0)).run.run { g with cur := g.cur.addUnlinked c (n : Int) } = _
  rw [lpush_run]

/-- GOTO n: under the address of the `jump` it emits, the pending table holds `(c, n)` — whether
    or not the push overflows. -/
theorem pushGoto_stores_col (c : Col) (n : Nat) (g : Codegen.GState) :
    ((Codegen.pushGoto c (some n)).run.run g).2.cur.unlinked.lookup g.cur.ops.size
        = some (c, (n : Int)) ∧
    ((Codegen.pushGoto c (some n)).run.run g).2.cur.ops[g.cur.ops.size]? = some (.jump 0) := by
  rw [pushGoto_run]
  constructor
  · exact lookup_unlInsert _ _ _
  · simp [Link.push, Link.addUnlinked]

theorem pushRestore_run (c : Col) (n : Nat) (g : Codegen.GState) :
    (Codegen.pushRestore c (some n)).run.run g
      = (((g.cur.addUnlinked c (n : Int)).push (.restore 0)).2,
         { g with cur := ((g.cur.addUnlinked c (n : Int)).push (.restore 0)).1 }) := by
  show (Codegen.lpush (.restore 0)).run.run { g with cur := g.cur.addUnlinked c (n : Int) } = _
  rw [lpush_run]

/-- RESTORE n: likewise for the `restore` op. -/
theorem pushRestore_stores_col (c : Col) (n : Nat) (g : Codegen.GState) :
    ((Codegen.pushRestore c (some n)).run.run g).2.cur.unlinked.lookup g.cur.ops.size
        = some (c, (n : Int)) ∧
    ((Codegen.pushRestore c (some n)).run.run g).2.cur.ops[g.cur.ops.size]? = some (.restore 0) := by
  rw [pushRestore_run]
  constructor
  · exact lookup_unlInsert _ _ _
  · simp [Link.push, Link.addUnlinked]

/-- `pushRun c (some n)` when the `clear` op still fits -/
theorem pushRun_run (c : Col) (n : Nat) (g : Codegen.GState)
    (h : g.cur.ops.size + 1 ≤ Gen.stackMaxLen) :
    (Codegen.pushRun c (some n)).run.run g
      = ((((g.cur.push .clear).1.addUnlinked c (n : Int)).push (.jump 0)).2,
         { g with cur := (((g.cur.push .clear).1.addUnlinked c (n : Int)).push (.jump 0)).1 }) := by
  have h1 : (Codegen.lpush .clear).run.run g = (.ok (), { g with cur := (g.cur.push .clear).1 }) := by
    rw [lpush_run, push_ok _ _ h]
  have h2 : (Codegen.pushRun c (some n)).run.run g =
      (match (Codegen.lpush .clear).run.run g with
       | (.ok (), g1) =>
          (Codegen.lpush (.jump 0)).run.run { g1 with cur := g1.cur.addUnlinked c (n : Int) }
       | (.error e, g1) => (.error e, g1)) := by
    unfold Codegen.pushRun
    rw [gm_bind_run]
    rcases (Codegen.lpush .clear).run.run g with ⟨r, g1⟩
    cases r <;> rfl
  rw [h2, h1]
  simp only
  rw [lpush_run]

/-- RUN n: the reference is stored under the address of the `jump` after the `clear`.  (When the
    `clear` itself overflows the code segment, compilation of the statement stops before the
    reference is recorded — as in the Rust code — hence the size hypothesis.) -/
theorem pushRun_stores_col (c : Col) (n : Nat) (g : Codegen.GState)
    (h : g.cur.ops.size + 1 ≤ Gen.stackMaxLen) :
    ((Codegen.pushRun c (some n)).run.run g).2.cur.unlinked.lookup (g.cur.ops.size + 1)
        = some (c, (n : Int)) ∧
    ((Codegen.pushRun c (some n)).run.run g).2.cur.ops[g.cur.ops.size + 1]? = some (.jump 0) := by
  rw [pushRun_run c n g h]
  constructor
  · have : g.cur.ops.size + 1 = (g.cur.push .clear).1.ops.size := by simp [Link.push]
    rw [this]
    exact lookup_unlInsert _ _ _
  · simp [Link.push, Link.addUnlinked, Array.getElem_push]

/-- Stored by codegen, reported by link: if line `n` does not exist, the UNDEFINED LINE error for
    the entry `pushGoto` stored has the range `c` handed to `pushGoto`. -/
theorem goto_undefined_reports_operand_col (c : Col) (n : Nat) (g : Codegen.GState) (l : Link)
    (hlook : l.symbols.lookup (n : Int) = none) :
    ∃ c' sym e, ((Codegen.pushGoto c (some n)).run.run g).2.cur.unlinked.lookup g.cur.ops.size
        = some (c', sym) ∧
      Link.linkOne l g.cur.ops.size c' sym = (l, some e) ∧ e.code = Code.undefinedLine ∧
      (e.colStart, e.colEnd) = c := by
  obtain ⟨e, h1, h2, h3, h4, _⟩ :=
    undefined_line_col l g.cur.ops.size c (n : Int) hlook (Int.natCast_nonneg n)
  exact ⟨c, n, e, (pushGoto_stores_col c n g).1, h1, h2, by rw [h3, h4]⟩

/-! ### 6b. WHILE / WEND: the range of the keyword is stored and reported -/

/-- WEND: the table of loop marks gets `(false, c, address of the jump, fresh symbol)`, whether or
    not the push overflows. -/
theorem pushWend_stores_col (c : Col) (g : Codegen.GState) :
    (false, c, g.cur.ops.size, g.cur.currentSymbol - 1)
      ∈ ((Codegen.pushWend c).run.run g).2.cur.whiles := by
  let g2 : Codegen.GState := { g with cur := { g.cur with
      currentSymbol := g.cur.currentSymbol - 1,
      whiles := g.cur.whiles ++ [(false, c, g.cur.ops.size, g.cur.currentSymbol - 1)] } }
  have h : (Codegen.pushWend c).run.run g
      = ((Codegen.lpush (.jump 0) >>= fun _ =>
            Codegen.lpushSymbol (g.cur.currentSymbol - 1)).run.run g2) := rfl
  rw [h, gm_bind_run, lpush_run]
  cases (g2.cur.push (.jump 0)).2 with
  | ok u => exact List.mem_append_right _ List.mem_cons_self
  | error e => exact List.mem_append_right _ List.mem_cons_self

/-- WHILE: once the condition has been appended, the mark `(true, c, address of the `ifNot`, fresh
    symbol)` is recorded, whether or not the push of the `ifNot` overflows. -/
theorem pushWhile_stores_col (c : Col) (expr : Link) (g g2 : Codegen.GState)
    (hok : (Codegen.lappend expr).run.run
      { g with cur := (g.cur.nextSymbol.1.pushSymbol g.cur.nextSymbol.2) } = (.ok (), g2)) :
    (true, c, g2.cur.ops.size, g.cur.currentSymbol - 1)
      ∈ ((Codegen.pushWhile c expr).run.run g).2.cur.whiles := by
  have h : (Codegen.pushWhile c expr).run.run g
      = ((Codegen.lappend expr >>= fun _ => (do
            modify fun s => { s with cur := { s.cur with
              whiles := s.cur.whiles ++ [(true, c, s.cur.ops.size, g.cur.currentSymbol - 1)] } }
            Codegen.lpush (.ifNot 0) : Codegen.GM Unit)).run.run
          { g with cur := (g.cur.nextSymbol.1.pushSymbol g.cur.nextSymbol.2) }) := rfl
  rw [h, gm_bind_run, hok]
  show (true, c, g2.cur.ops.size, g.cur.currentSymbol - 1) ∈
    ((Codegen.lpush (.ifNot 0)).run.run { g2 with cur := { g2.cur with
      whiles := g2.cur.whiles ++ [(true, c, g2.cur.ops.size, g.cur.currentSymbol - 1)] } }).2.cur.whiles
  rw [lpush_run]
  exact List.mem_append_right _ List.mem_cons_self

/-- a WHILE/WEND diagnostic `e` points at the keyword of an entry of the table `W` -/
def WhileErr (l : Link) (W : List (Bool × Col × Nat × Symbol)) (e : Error) : Prop :=
  ∃ k c a s, (k, c, a, s) ∈ W ∧ e.colStart = c.1 ∧ e.colEnd = c.2 ∧ e.line = l.lineNumberFor a ∧
    ((k = false ∧ e.code = Code.wendWithoutWhile) ∨ (k = true ∧ e.code = Code.whileWithoutWend))

/-- the bracket-matching loop only reports entries of the table, and only stacks WHILE entries -/
theorem linkWhiles_go_inv (l : Link) (W : List (Bool × Col × Nat × Symbol))
    (ws : List (Bool × Col × Nat × Symbol)) (stack : List (Col × Nat × Symbol))
    (unl : List (Nat × (Col × Symbol))) (errs : List Error)
    (hws : ∀ x ∈ ws, x ∈ W) (hst : ∀ x ∈ stack, (true, x.1, x.2.1, x.2.2) ∈ W)
    (herr : ∀ e ∈ errs, WhileErr l W e) :
    (∀ e ∈ (Link.linkWhiles.go l ws stack unl errs).2.1, WhileErr l W e) ∧
    (∀ x ∈ (Link.linkWhiles.go l ws stack unl errs).2.2, (true, x.1, x.2.1, x.2.2) ∈ W) := by
  induction ws generalizing stack unl errs with
  | nil => exact ⟨herr, hst⟩
  | cons w ws ih =>
    obtain ⟨k, c, a, s⟩ := w
    have hw : (k, c, a, s) ∈ W := hws _ List.mem_cons_self
    have hws' : ∀ x ∈ ws, x ∈ W := fun x hx => hws x (List.mem_cons_of_mem _ hx)
    cases k with
    | true =>
      simp only [Link.linkWhiles.go]
      apply ih _ _ _ hws' _ herr
      intro x hx
      cases hx with
      | head => exact hw
      | tail _ h => exact hst x h
    | false =>
      cases stack with
      | nil =>
        simp only [Link.linkWhiles.go]
        apply ih _ _ _ hws' hst
        intro e he
        rcases List.mem_append.1 he with h | h
        · exact herr e h
        · simp only [List.mem_singleton] at h
          subst h
          exact ⟨false, c, a, s, hw, rfl, rfl, rfl, Or.inl ⟨rfl, rfl⟩⟩
      | cons top st =>
        obtain ⟨wc, wa, ws'⟩ := top
        simp only [Link.linkWhiles.go]
        apply ih _ _ _ hws' _ herr
        intro x hx
        exact hst x (List.mem_cons_of_mem _ hx)

/-- Every diagnostic of `linkWhiles` is WEND WITHOUT WHILE at the range of a WEND mark or WHILE
    WITHOUT WEND at the range of a WHILE mark, on the line containing that op. -/
theorem linkWhiles_error_col (l : Link) (e : Error) (h : e ∈ l.linkWhiles.2) :
    WhileErr l l.whiles e := by
  have inv := linkWhiles_go_inv l l.whiles l.whiles [] l.unlinked [] (fun _ h => h)
    (by intro x hx; cases hx) (by intro x hx; cases hx)
  unfold Link.linkWhiles at h
  simp only at h
  rcases List.mem_append.1 h with h | h
  · exact inv.1 e h
  · obtain ⟨x, hx, rfl⟩ := List.mem_map.1 h
    obtain ⟨c, a, s⟩ := x
    exact ⟨true, c, a, s, inv.2 _ hx, rfl, rfl, rfl, Or.inr ⟨rfl, rfl⟩⟩

/-! ### 7. the run-time gate: a program with compile errors runs none of its lines -/

set_option maxHeartbeats 400000 in
/-- A `jump` to an address below the entry address (into the stored program, as RUN / GOTO from a
    direct statement do) while the listing has compile errors: the machine stops and reports those
    errors; no op of the program is executed. -/
theorem jump_gate (env : Env) (s : Runtime) (a : Nat) (htron : s.tron = false)
    (hop : s.program.link.ops[s.pc]? = some (.jump a)) (hlt : a < s.entryAddress) :
    (Runtime.step env true).run.run s
      = (.ok (.event (.errors s.listing.indirectErrors)),
         { s with pc := a, state := .stopped, cont := .stopped }) := by
  unfold Runtime.step
  simp [htron, hop, hlt, bind, ExceptT.bind, ExceptT.mk, ExceptT.bindCont, StateT.bind, get,
    getThe, MonadStateOf.get, ExceptT.run, StateT.run, liftM, monadLift, MonadLift.monadLift,
    ExceptT.lift, StateT.get, set, StateT.set, modify, modifyGet, MonadStateOf.modifyGet,
    StateT.modifyGet, pure, ExceptT.pure, StateT.pure, Functor.map, StateT.map, MonadStateOf.set]

set_option maxHeartbeats 400000 in
/-- Without compile errors the same `jump` just moves the program counter. -/
theorem jump_no_gate (env : Env) (s : Runtime) (a : Nat) (htron : s.tron = false)
    (hop : s.program.link.ops[s.pc]? = some (.jump a)) :
    (Runtime.step env false).run.run s = (.ok .continue, { s with pc := a }) := by
  unfold Runtime.step
  simp [htron, hop, bind, ExceptT.bind, ExceptT.mk, ExceptT.bindCont, StateT.bind, get,
    getThe, MonadStateOf.get, ExceptT.run, StateT.run, liftM, monadLift, MonadLift.monadLift,
    ExceptT.lift, StateT.get, set, StateT.set, modify, modifyGet, MonadStateOf.modifyGet,
    StateT.modifyGet, pure, ExceptT.pure, StateT.pure, Functor.map, StateT.map, MonadStateOf.set]

set_option maxHeartbeats 400000 in
/-- A jump that stays at or above the entry address (inside the direct statement) is not gated. -/
theorem jump_no_gate_above_entry (env : Env) (b : Bool) (s : Runtime) (a : Nat)
    (htron : s.tron = false) (hop : s.program.link.ops[s.pc]? = some (.jump a))
    (hge : s.entryAddress ≤ a) :
    (Runtime.step env b).run.run s = (.ok .continue, { s with pc := a }) := by
  have hnlt : ¬ a < s.entryAddress := by omega
  unfold Runtime.step
  simp [htron, hop, hnlt, bind, ExceptT.bind, ExceptT.mk, ExceptT.bindCont, StateT.bind, get,
    getThe, MonadStateOf.get, ExceptT.run, StateT.run, liftM, monadLift, MonadLift.monadLift,
    ExceptT.lift, StateT.get, set, StateT.set, modify, modifyGet, MonadStateOf.modifyGet,
    StateT.modifyGet, pure, ExceptT.pure, StateT.pure, Functor.map, StateT.map, MonadStateOf.set]

set_option maxHeartbeats 400000 in
/-- The gate also holds with tracing on, when the trace has nothing new to print. -/
theorem jump_gate_traced (env : Env) (s : Runtime) (a : Nat)
    (htr : s.program.link.lineNumberFor s.pc = s.tr)
    (hop : s.program.link.ops[s.pc]? = some (.jump a)) (hlt : a < s.entryAddress) :
    (Runtime.step env true).run.run s
      = (.ok (.event (.errors s.listing.indirectErrors)),
         { s with pc := a, state := .stopped, cont := .stopped }) := by
  unfold Runtime.step
  cases htron : s.tron <;>
  simp [htron, htr, hop, hlt, bind, ExceptT.bind, ExceptT.mk, ExceptT.bindCont, StateT.bind, get,
    getThe, MonadStateOf.get, ExceptT.run, StateT.run, liftM, monadLift, MonadLift.monadLift,
    ExceptT.lift, StateT.get, set, StateT.set, modify, modifyGet, MonadStateOf.modifyGet,
    StateT.modifyGet, pure, ExceptT.pure, StateT.pure, Functor.map, StateT.map, MonadStateOf.set]

/-- at the level of `execute_loop`: when the listing has compile errors and the first instruction of
    the slice jumps into the program, the slice ends at once with those diagnostics — no later
    instruction of the slice is executed, whatever the quantum `n + 1` -/
theorem executeLoop_jump_gate (env : Env) (s : Runtime) (a n : Nat) (htron : s.tron = false)
    (hop : s.program.link.ops[s.pc]? = some (.jump a)) (hlt : a < s.entryAddress)
    (herr : s.listing.indirectErrors ≠ []) :
    (Runtime.executeLoop env (n + 1)).run.run s
      = (.ok (.errors s.listing.indirectErrors),
         { s with pc := a, state := .stopped, cont := .stopped }) := by
  have hb : (!s.listing.indirectErrors.isEmpty) = true := by
    cases h : s.listing.indirectErrors with
    | nil => exact absurd h herr
    | cons _ _ => rfl
  unfold Runtime.executeLoop
  simp only [Lemmas.VmDispatch.rr_bind, Lemmas.VmDispatch.rr_get, hb]
  unfold Runtime.executeLoop.loop
  simp only [Lemmas.VmDispatch.rr_bind, jump_gate env s a htron hop hlt, Lemmas.VmDispatch.rr_pure]

/-! ### 8. non-vacuity: the statements above on concrete values -/

/-- `··GOTO·10` : GOTO is at columns 2..6 -/
example : Parse.nextLoop
      [.whitespace 2, .word .goto, .whitespace 1, .literal (.integer ['1', '0'])] false 0 0
    = (some (.word .goto), [.whitespace 1, .literal (.integer ['1', '0'])], false, 2, 6) := by
  decide

/-- … and the operand at columns 7..9 -/
example : Parse.nextLoop [.whitespace 1, .literal (.integer ['1', '0'])] false 2 6
    = (some (.literal (.integer ['1', '0'])), [], false, 7, 9) := by decide

example : ((printTokens [.whitespace 2, .word .goto, .whitespace 1,
      .literal (.integer ['1', '0'])]).drop 7).take (9 - 7) = ['1', '0'] := by decide

/-- a remark word after blanks: nothing delivered, columns stop in front of it -/
example : Parse.nextLoop [.whitespace 2, .word .rem2, .word .goto] false 0 0
    = (none, [], true, 2, 2) := by decide

example : Parse.nextLoop [.word .goto, .ident (.plain ['A'])] true 3 5 = (none, [], true, 5, 5) := by
  decide

/-- line 100: the shift is 4 -/
example : Listing.errorColumn
      { code := Code.undefinedLine, line := some 100, colStart := 7, colEnd := 9 } = (11, 13) := by
  decide

example : ((printLine (some 100) [.whitespace 2, .word .goto, .whitespace 1,
      .literal (.integer ['1', '0'])]).drop 11).take 2 = ['1', '0'] := by decide

example : Listing.errorColumn { code := Code.syntaxError, colStart := 7, colEnd := 9 } = (7, 9) := by
  decide

/-- the hypotheses of `Inv`-based theorems are satisfiable: the initial state, then one `next` -/
example : ∃ st', Parse.next.run { toks := [.whitespace 2, .word .goto] } = .ok (some (.word .goto), st')
    ∧ st'.cs = 2 ∧ st'.ce = 6 := ⟨_, rfl, rfl, rfl⟩

/-- UNDEFINED LINE on an empty symbol table -/
example : (Link.linkOne {} 0 (7, 9) 10).2.map (fun e => (e.code, e.colStart, e.colEnd))
    = some (Code.undefinedLine, 7, 9) := by decide

/-- the hypotheses of `jump_gate` are satisfiable -/
example : ∃ (s : Runtime) (a : Nat), s.tron = false ∧
    s.program.link.ops[s.pc]? = some (.jump a) ∧ a < s.entryAddress :=
  ⟨{ program := { link := { ops := #[.jump 0] } }, pc := 0, entryAddress := 1 }, 0, rfl, rfl,
    by decide⟩

end Thm.C19
end Basic
