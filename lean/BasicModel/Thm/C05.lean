import BasicModel.Thm.Tables
import BasicModel.Lemmas.LexList
import BasicModel.Lemmas.LexPost
import BasicModel.Lemmas.LexStable
import BasicModel.Lemmas.LexTrail
import BasicModel.Lemmas.LexAll
import BasicModel.Lemmas.LexAllPayload
/-
  C05 — listing is faithful (lexer part): `Line::new(s).to_string()` re-lexes to the same line.

  * per-token round trips `lex t.text = (none, [t])` for words, operators, punctuation, closed string
    literals, radix literals, canonical names, and `rawTokens nm.text = [nm.token]` for canonical
    numerals (a numeral at the start of a line is a line number, so the statement is about the
    iterator);
  * `lex_print_canonical`: a canonical token list is a fixed point of print-then-lex, with and
    without line number; `relist_idempotent_partial` follows for every source line whose first
    listing is canonical (PARTIAL w.r.t. the property's quantifier: not every string lists
    canonically — see the three proved counter-examples at the end);
  * payload preservation: string-literal text verbatim, remark text verbatim up to trailing blanks
    (after `REM` only when the text does not start with a letter, digit or type suffix — the
    known finding K4 is `remark_glued_to_REM`).
-/
set_option linter.unusedSimpArgs false
namespace Basic
namespace Thm
namespace C05
open Lex

/-! ### `match_minutia` and `Display` are mutually inverse on the one-character tokens -/

/-- the sixteen one-character tokens -/
def oneCharTokens : List Token :=
  [.lparen, .rparen, .comma, .colon, .semicolon, .word .print, .word .rem2, .operator .caret,
   .operator .multiply, .operator .divide, .operator .divideInt, .operator .plus, .operator .minus,
   .operator .equal, .operator .less, .operator .greater]

/-- whatever `match_minutia` recognises prints as the text it was given, except `?`, which prints as PRINT -/
theorem minutia_text (s : Str) (t : Token) (h : matchMinutia s = some t) :
    t.text = s ∨ (s = ['?'] ∧ t = .word .print) := by
  unfold matchMinutia at h
  split at h <;> first
    | (right; exact ⟨rfl, (Option.some.inj h).symm⟩)
    | (left; rw [← Option.some.inj h]; decide)
    | exact absurd h (by simp)

example : matchMinutia ['<'] = some (.operator .less) := rfl

/-- every one-character token other than PRINT is recognised from its own text -/
theorem text_minutia : ∀ t ∈ oneCharTokens, t = .word .print ∨ matchMinutia t.text = some t := by
  decide

example : matchMinutia (Token.text .semicolon) = some .semicolon := by decide

/-- no two one-character tokens share a text -/
theorem oneChar_text_injective : (oneCharTokens.map Token.text).Nodup := by decide +kernel

example : oneCharTokens.length = 16 := rfl

/-! ### per-token round trips -/

/-- every word re-lexes to itself from its printed form (`?` is not printed: PRINT is) -/
theorem word_roundtrip (w : Word) : lex w.text = (none, [.word w]) := by
  cases w <;> decide +kernel

example : lex "RESTORE".toList = (none, [.word .restore]) := word_roundtrip .restore

theorem operator_roundtrip (o : Operator) : lex o.text = (none, [.operator o]) := by
  cases o <;> decide +kernel

example : lex "<=".toList = (none, [.operator .lessEqual]) := operator_roundtrip .lessEqual

theorem punctuation_roundtrip :
    ∀ t ∈ [Token.lparen, .rparen, .comma, .colon, .semicolon], lex t.text = (none, [t]) := by
  decide +kernel

example : lex [';'] = (none, [.semicolon]) := punctuation_roundtrip .semicolon (by decide)

/-- the post-passes put a single printable token together again -/
theorem postPasses_rawOf (t : Token) (hw : ∀ n, t ≠ .whitespace n) (hu : ∀ s, t ≠ .unknown s) :
    postPasses (rawOf t) = [t] := by
  cases t with
  | whitespace n => exact absurd rfl (hw n)
  | unknown s => exact absurd rfl (hu s)
  | operator o => cases o <;> decide
  | _ => exact postPasses_single _ (by intro n; simp) (by intro s; simp)

example : postPasses (rawOf (.operator .notEqual)) = [.operator .notEqual] :=
  postPasses_rawOf _ (by intro n; simp) (by intro s; simp)

/-- THE per-token theorem: a printable token (not a blank run, which `trim_end` removes, and not a
    numeral, which at the start of a line is the line number) re-lexes to itself -/
theorem lex_print_token (t : Token) (hp : Printable t) (hw : ∀ n, t ≠ .whitespace n)
    (hf : Follows t []) (h0 : StartsPlain t.text) : lex t.text = (none, [t]) := by
  have hu : ∀ s, t ≠ .unknown s := by intro s e; subst e; exact hp
  have hc : Canon [t] := by
    refine ⟨?_, by simpa using postPasses_rawOf t hw hu⟩
    unfold CanonRaw
    by_cases h1 : t = .word .rem1
    · simp [h1]
    · by_cases h2 : t = .word .rem2
      · simp [h2]
      · simp only [h1, h2, if_false]
        exact ⟨hp, by simpa [printTokens] using hf, trivial⟩
  have := lex_print_direct [t] hc (by simpa [printTokens] using h0)
  simpa [printLine, printTokens] using this

example : lex "<>".toList = (none, [.operator .notEqual]) :=
  lex_print_token (.operator .notEqual) trivial (by intro n; simp) (by intro h; exact absurd h (by decide))
    (by decide)

/-- closed string literals: any text without a quote -/
theorem string_roundtrip (s : Str) (h : '"' ∉ s) :
    lex (Token.literal (.string s)).text = (none, [.literal (.string s)]) :=
  lex_print_token _ h (by intro n; simp) trivial
    (by intro c hc; simp [Token.text, Literal.text] at hc; subst hc; decide)

example : lex "\"HELLO, WORLD\"".toList = (none, [.literal (.string "HELLO, WORLD".toList)]) :=
  string_roundtrip "HELLO, WORLD".toList (by decide)

/-- hexadecimal literals `&H` + upper-case hex digits -/
theorem hex_roundtrip (ds : List Char) (h : ∀ c ∈ ds, isRadixDigit true c = true) :
    lex (Token.literal (.hex ds)).text = (none, [.literal (.hex ds)]) :=
  lex_print_token _ h (by intro n; simp) (by intro c hc; simp at hc)
    (by intro c hc; simp [Token.text, Literal.text] at hc; subst hc; decide)

example : lex "&HFF".toList = (none, [.literal (.hex "FF".toList)]) :=
  hex_roundtrip "FF".toList (by decide)

/-- octal literals `&` + octal digits -/
theorem octal_roundtrip (ds : List Char) (h : ∀ c ∈ ds, isRadixDigit false c = true) :
    lex (Token.literal (.octal ds)).text = (none, [.literal (.octal ds)]) := by
  refine lex_print_token _ h (by intro n; simp) ⟨by intro c hc; simp at hc, ?_⟩
    (by intro c hc; simp [Token.text, Literal.text] at hc; subst hc; decide)
  intro c hc
  have hd : isRadixDigit false c = true := by
    cases ds with
    | nil => simp at hc
    | cons d ds => simp at hc; subst hc; exact h _ (by simp)
  constructor <;> (intro e; subst e; revert hd; decide)

example : lex "&777".toList = (none, [.literal (.octal "777".toList)]) :=
  octal_roundtrip "777".toList (by decide)

/-- names without embedded reserved words, with optional digits and type suffix, typed in any case -/
theorem name_roundtrip (nm : Name) (h : nm.WF) : lex nm.text = (none, [nm.token]) := by
  obtain ⟨c, cs, e, hc⟩ := nm.text_head h
  have hpp : postPasses [nm.token] = [nm.token] :=
    postPasses_single _ (by intro n; simp only [Name.token]; split <;> simp)
      (by intro s; simp only [Name.token]; split <;> simp)
  have := lexFrom_name nm h [] (fun _ => by intro c hc; simp at hc)
  rw [List.append_nil] at this
  rw [e] at this ⊢
  rw [lex_plain c cs (not_isDigit_of_isAlpha c hc) (not_isWs_of_isAlpha c hc), this]
  simpa using hpp

example : lex "Xy12$".toList = (none, [.ident (.string "XY12$".toList)]) :=
  name_roundtrip ⟨"Xy".toList, "12".toList, some '$'⟩
    ⟨by decide, by decide, by decide, by decide, by decide +kernel⟩

/-- canonical numerals `d+`, `d*.d*`, with optional exponent and type suffix: the iterator returns
    exactly the token `number()` classifies them as -/
theorem numeral_roundtrip (nm : Numeral) (h : nm.WF) : rawTokens nm.text = [nm.token] := by
  have := lexFrom_numeral nm h [] (fun _ => by intro c hc; simp at hc)
  simpa [rawTokens_eq] using this

example : rawTokens "1.5E+10".toList = [.literal (.single "1.5E+10".toList)] :=
  numeral_roundtrip ⟨"1".toList, some "5".toList, some ⟨'E', ['+'], "10".toList⟩, none⟩
    ⟨by decide, by decide, by decide, by decide, by decide⟩

/-- in a statement: after `X=` nothing is a line number -/
theorem numeral_roundtrip_in_statement (nm : Numeral) (h : nm.WF) :
    lex ('X' :: '=' :: nm.text) =
      (none, [.ident (.plain ['X']), .operator .equal, nm.token]) := by
  have hx : alphabetic ('X' :: '=' :: nm.text) = ([.ident (.plain ['X'])], '=' :: nm.text) := by
    have := alphabetic_name ⟨['X'], [], none⟩ ⟨by decide, by decide, by decide, by decide, by decide +kernel⟩
      ('=' :: nm.text) (fun _ => by intro c hc; simp at hc; subst hc; decide)
    simpa [Name.text, Name.token, Name.base, (by decide : upper 'X' = 'X')] using this
  rw [lex_plain 'X' _ (by decide) (by decide), lexFrom_alpha 'X' _ (by decide) _ _ _ hx,
    show ((Token.ident (TIdent.plain ['X']) == Token.word Word.rem1)) = false from by decide,
    lexFrom_minutia '=' _ _ rfl,
    show ((Token.operator Operator.equal == Token.word Word.rem2)) = false from by decide]
  have := lexFrom_numeral nm h [] (fun _ => by intro c hc; simp at hc)
  rw [List.append_nil] at this
  rw [this]
  have hl : ∃ l, nm.token = .literal l := by
    simp only [Numeral.token, numeralToken]
    split
    · exact ⟨_, rfl⟩
    · simp only [numberFinish]; split
      · exact ⟨_, rfl⟩
      split <;> exact ⟨_, rfl⟩
  obtain ⟨l, hl⟩ := hl
  rw [hl]
  simp [postPasses, trimEnd, trimEndRev, collapseTriples, tripleLocs, tripleMatch, collapseDoubles, doubleLocs,
    doubleMatch, separateWords, wordLocs, applyLocs, Token.isWord, Operator.isWord]

example : lex "X=12345678".toList =
    (none, [.ident (.plain ['X']), .operator .equal, .literal (.double "12345678".toList)]) :=
  numeral_roundtrip_in_statement ⟨"12345678".toList, none, none, none⟩
    ⟨by decide, by decide, by decide, by decide, by decide⟩

/-! ### whole lines -/

/-- `A <= 10` -/
def sampleShort : List Token :=
  [.ident (.plain ['A']), .whitespace 1, .operator .lessEqual, .whitespace 1, .literal (.integer ['1', '0'])]

/-- canonical token lists are fixed points of print-then-lex (direct lines) -/
theorem lex_print_canonical (ts : List Token) (h : Canon ts) (h0 : StartsPlain (printTokens ts)) :
    lex (printLine none ts) = (none, ts) := lex_print_direct ts h h0

example : lex (printLine none [.word .cls]) = (none, [.word .cls]) :=
  lex_print_canonical [.word .cls]
    ⟨⟨trivial, by intro c hc; simp [printTokens] at hc, trivial⟩, by decide⟩ (by decide)

/-- canonical token lists are fixed points of print-then-lex (program lines) -/
theorem lex_print_canonical_numbered (n : Nat) (hn : n ≤ 65529) (ts : List Token) (h : Canon ts) :
    lex (printLine (some n) ts) = (some n, ts) := lex_print_numbered n hn ts h

example : lex (printLine (some 65529) [.word .cls]) = (some 65529, [.word .cls]) :=
  lex_print_canonical_numbered 65529 (by decide) [.word .cls]
    ⟨⟨trivial, by intro c hc; simp [printTokens] at hc, trivial⟩, by decide⟩

/-- `Canon` from purely syntactic, decidable conditions on the token list: every token printable and
    followed by text it cannot absorb (`CanonRaw`), no comparison operators adjacent or one blank
    apart, no `GO <blank> TO|SUB`, word-like tokens separated, no trailing blanks -/
theorem canon_of_syntactic (ts : List Token) (h : CanonRaw ts) (h1 : tripleClash ts = false)
    (h2 : doubleClash ts = false) (h3 : wordClash ts = false) (h4 : endOk ts = true) : Canon ts :=
  ⟨h, postPasses_stable ts h1 h2 h3 h4⟩

/-- non-vacuity of `canon_of_syntactic`: the hypotheses hold for `A <= 10` -/
theorem sampleShort_canonRaw : CanonRaw sampleShort := by
  unfold sampleShort
  refine ⟨⟨⟨['A'], [], none⟩, ⟨by decide, by decide, by decide, by decide, by decide +kernel⟩, rfl, rfl⟩, ?_, ?_⟩
  · show AlphaBoundary _; unfold AlphaBoundary; decide
  refine ⟨(by show 0 < 1; decide), ?_, ?_⟩
  · show ∀ c ∈ _, _; decide
  refine ⟨trivial, ?_, ?_⟩
  · intro h; exact absurd h (by decide)
  refine ⟨(by show 0 < 1; decide), ?_, ?_⟩
  · show ∀ c ∈ _, _; decide
  refine ⟨⟨⟨['1', '0'], none, none, none⟩, ⟨by decide, by decide, by decide, by decide, by decide⟩, by decide⟩, ?_, trivial⟩
  show NumBoundary _; unfold NumBoundary; decide

example : lex (printLine (some 100) sampleShort) = (some 100, sampleShort) :=
  lex_print_numbered 100 (by decide) _
    (canon_of_syntactic _ sampleShort_canonRaw (by decide) (by decide) (by decide) (by decide))

example : tripleClash sampleShort = false ∧ doubleClash sampleShort = false ∧
    wordClash sampleShort = false ∧ endOk sampleShort = true := by decide

/-- the location-and-splice implementations of two post-passes are plain left-to-right rewrites -/
theorem postpasses_are_rewrites (ts : List Token) :
    separateWords ts = sepRec ts ∧ collapseDoubles ts = dblRec ts :=
  ⟨separateWords_eq ts, collapseDoubles_eq ts⟩

example : collapseDoubles [.operator .equal, .operator .less, .operator .greater, .operator .equal] =
    [.operator .lessEqual, .operator .greaterEqual] := by decide

/-- the line number the lexer returns never exceeds `LineNumber::max_value()` -/
theorem lex_number_le (s : Str) (n : Nat) (h : (lex s).1 = some n) : n ≤ 65529 := by
  simp only [lex, splitLineNumber] at h
  split at h
  · split at h
    · rename_i num _ hle
      split at h <;> (simp at h; subst h; exact hle)
    · simp at h
  · simp at h

example : (10 : Nat) ≤ 65529 ∧ (lex "65530 X".toList).1 = none :=
  ⟨lex_number_le "10 X".toList 10 (by decide +kernel), by decide +kernel⟩

/-- `relist` is idempotent, and the listed text lexes to the same line, for every source line whose
    first listing is canonical.  PARTIAL: it does not cover the strings whose token list is not
    `Canon` (unknown tokens, glued remark text, adjacent comparison operators); the three counter-examples below show that the restriction is needed. -/
theorem relist_idempotent_partial (s : Str) (h : Canon (lex s).2)
    (h0 : (lex s).1 = none → StartsPlain (printTokens (lex s).2)) :
    lex (relist s) = lex s ∧ relist (relist s) = relist s := by
  have key : lex (relist s) = lex s := by
    unfold relist
    cases hn : (lex s).1 with
    | none =>
      rw [lex_print_canonical _ h (h0 hn), ← hn]
    | some n =>
      rw [lex_print_canonical_numbered n (lex_number_le s n hn) _ h, ← hn]
  exact ⟨key, by unfold relist; rw [show lex (printLine (lex s).1 (lex s).2) = lex s from key]⟩

example : relist (relist "  20  a<= 10  ".toList) = relist "  20  a<= 10  ".toList := by
  have e : (lex "  20  a<= 10  ".toList).2 =
      [.whitespace 1, .ident (.plain ['A']), .operator .lessEqual, .whitespace 1, .literal (.integer ['1', '0'])] := by
    decide +kernel
  refine (relist_idempotent_partial _ ?_ (by intro h; exact absurd h (by decide +kernel))).2
  rw [e]
  refine canon_of_syntactic _ ?_ (by decide) (by decide) (by decide) (by decide)
  refine ⟨(by show 0 < 1; decide), (by show ∀ c ∈ _, _; decide), ?_⟩
  refine ⟨⟨⟨['A'], [], none⟩, ⟨by decide, by decide, by decide, by decide, by decide +kernel⟩, rfl, rfl⟩, ?_, ?_⟩
  · show AlphaBoundary _; unfold AlphaBoundary; decide
  refine ⟨trivial, (by intro h; exact absurd h (by decide)), ?_⟩
  refine ⟨(by show 0 < 1; decide), (by show ∀ c ∈ _, _; decide), ?_⟩
  refine ⟨⟨⟨['1', '0'], none, none, none⟩, ⟨by decide, by decide, by decide, by decide, by decide⟩, by decide⟩, ?_, trivial⟩
  show NumBoundary _; unfold NumBoundary; decide

/-- a canonical line of the generated fragment -/
def sampleLine : List Token :=
  [.word .for, .whitespace 1, .ident (.plain ['I']), .operator .equal, .literal (.integer ['1']),
   .whitespace 1, .word .to, .whitespace 1, .literal (.integer ['1', '0']), .colon,
   .word .print, .whitespace 1, .literal (.string "A<=B".toList), .semicolon,
   .ident (.string ['A', '$']), .operator .lessEqual, .literal (.hex ['F', 'F']), .whitespace 1,
   .word .rem2, .unknown " note".toList]

example : lex (printLine (some 10) sampleLine) = (some 10, sampleLine) := by decide +kernel

example : relist (relist "10 for i=1 to 10:print\"A<=B\";a$<=&hff ' note  ".toList) =
    relist "10 for i=1 to 10:print\"A<=B\";a$<=&hff ' note  ".toList := by decide +kernel

/-! ### payloads -/

/-- the text of a closed string literal is copied verbatim, whatever precedes the closing quote -/
theorem string_payload_preserved (s rest : List Char) (h : '"' ∉ s) :
    lexFrom ('"' :: (s ++ '"' :: rest)) false = .literal (.string s) :: lexFrom rest false := by
  have := lexFrom_token (.literal (.string s)) rest h trivial (by simp) (by simp)
  simpa [Token.text, Literal.text, rawOf] using this

example : (lex "?\"a  b \"".toList).2 = [.word .print, .whitespace 1, .literal (.string "a  b ".toList)] := by
  decide +kernel

/-- an unterminated string literal runs to the end of the line (and is listed closed) -/
theorem string_payload_open (s : List Char) (h : '"' ∉ s) :
    lexFrom ('"' :: s) false = [.literal (.string s)] := by
  rw [lexFrom_string]
  simp [string, stringBody_open s h]

example : relist "?\"abc".toList = "PRINT \"abc\"".toList := by decide +kernel

/-- the post-passes on a remark line -/
theorem postPasses_remark (w : Word) (hw : w = .rem1 ∨ w = .rem2) (s : List Char) :
    postPasses [.word w, .unknown s] =
      if (trimEndStr s).isEmpty then [.word w] else [.word w, .unknown (trimEndStr s)] := by
  have h1 : trimEnd [.word w, .unknown s] =
      if (trimEndStr s).isEmpty then [.word w] else [.word w, .unknown (trimEndStr s)] := by
    cases w <;> simp [trimEnd, trimEndRev] <;> split <;> simp_all
  rw [postPasses, h1]
  split <;> rcases hw with h | h <;> subst h <;>
    simp [collapseTriples, tripleLocs, tripleMatch, collapseDoubles, doubleLocs,
      doubleMatch, separateWords, wordLocs, applyLocs, Token.isWord]

example : postPasses [.word .rem2, .unknown "x  ".toList] = [.word .rem2, .unknown ['x']] := by decide

/-- remark text after `'` is kept verbatim except for trailing white space (a remark of nothing but
    white space disappears) -/
theorem remark_preserved_apostrophe (s : List Char) (h : s ≠ []) :
    lex ('\'' :: s) =
      (none, if (trimEndStr s).isEmpty then [.word .rem2] else [.word .rem2, .unknown (trimEndStr s)]) := by
  rw [lex_plain '\'' s (by decide) (by decide), lexFrom_minutia '\'' s _ rfl,
    show ((Token.word Word.rem2 == Token.word Word.rem2)) = true from by decide, lexFrom_remark s h,
    postPasses_remark _ (Or.inr rfl)]

example : lex "' Keep  THIS  ".toList = (none, [.word .rem2, .unknown " Keep  THIS".toList]) := by
  decide +kernel

/-- remark text after `REM` is kept verbatim except for trailing white space, provided it does not
    start with a letter, a digit or a type suffix (it normally starts with a blank) -/
theorem remark_preserved_REM (s : List Char) (h : s ≠ []) (hb : AlphaBoundary s) :
    lex ("REM".toList ++ s) =
      (none, if (trimEndStr s).isEmpty then [.word .rem1] else [.word .rem1, .unknown (trimEndStr s)]) := by
  have hk := lexFrom_keyword ("REM".toList, .word .rem1) (by decide) s hb
  rw [show (("REM".toList, Token.word Word.rem1).2 == Token.word Word.rem1) = true from by decide,
    lexFrom_remark s h] at hk
  have e : "REM".toList ++ s = 'R' :: ('E' :: 'M' :: s) := by
    rw [show "REM".toList = ['R', 'E', 'M'] from by decide]; rfl
  simp only at hk
  rw [e] at hk ⊢
  rw [lex_plain 'R' _ (by decide) (by decide), hk, postPasses_remark _ (Or.inl rfl)]

example : lex "REM Keep  this ".toList = (none, [.word .rem1, .unknown " Keep  this".toList]) := by
  decide +kernel

/-! ### trailing carriage return and the like -/

/-- a run of white space that is not blank/tab is one `Unknown` token, and `trim_end` removes it
    without a trace -/
theorem trailing_white_trimmed (l : List Token) (w : List Char) (hw : ∀ c ∈ w, isOddWhite c = true) :
    trimEnd (l ++ [.unknown w]) = trimEnd l :=
  trimEnd_trailing_white l w hw

/-- `trim_end` is idempotent: what it leaves is not trimmed further (so a listed line, entered
    again, ends where it ended; repaired in the code, D18: the loop used to run only once) -/
theorem trimEnd_idem (ts : List Token) : trimEnd (trimEnd ts) = trimEnd ts := by
  have hstr : ∀ s : List Char, trimEndStr (trimEndStr s) = trimEndStr s := by
    intro s
    have hd : ∀ l : List Char, (l.dropWhile isUniWhite).dropWhile isUniWhite = l.dropWhile isUniWhite := by
      intro l
      induction l with
      | nil => rfl
      | cons a l ih =>
        by_cases ha : isUniWhite a = true
        · simp only [List.dropWhile_cons, ha, if_true]; exact ih
        · simp [List.dropWhile_cons, ha]
    simp [trimEndStr, hd]
  have h : ∀ r : List Token, trimEndRev (trimEndRev r) = trimEndRev r := by
    intro r
    induction r with
    | nil => rfl
    | cons t r ih =>
      cases t with
      | whitespace n => simpa [trimEndRev] using ih
      | unknown s =>
        simp only [trimEndRev]
        split
        · exact ih
        · rename_i hne
          simp [trimEndRev, hstr, hne]
      | _ => simp [trimEndRev]
  simp [trimEnd, h]

example : trimEnd [.word .print, .unknown [Char.ofNat 0x85], .whitespace 1, .unknown ['\r']] = [.word .print] := by
  decide

example : trimEnd [.word .print, .whitespace 1, .unknown ['\r']] = [.word .print] := by decide

/-- a canonical line followed by a carriage return (no-break space, …) lexes to the same line as
    without it.  (Former finding: the empty `Unknown` token used to stay behind.) -/
theorem trailing_white_ignored (ts : List Token) (w : List Char) (hw : ∀ c ∈ w, isOddWhite c = true)
    (hne : w ≠ []) (h : CanonRawT w ts) (h' : CanonRawT [] ts)
    (c : Char) (cs : List Char) (e : printTokens ts = c :: cs) (hd : isDigit c = false)
    (hws : isWs c = false) : lex (printTokens ts ++ w) = lex (printTokens ts) :=
  lex_trailing_white ts w hw hne h h' c cs e hd hws

example : lex ['?', Char.ofNat 0xA0] = lex ['?'] ∧ lex "CLS\r".toList = lex "CLS".toList := by
  refine ⟨by decide +kernel, ?_⟩
  exact trailing_white_ignored [.word .cls] ['\r'] (by decide) (by decide)
    ⟨by decide, by decide, trivial, (by show AlphaBoundary _; decide), trivial⟩
    ⟨by decide, by decide, trivial, (by show AlphaBoundary _; decide), trivial⟩
    'C' "LS".toList (by decide) (by decide) (by decide)

/-! ### where listing is NOT faithful in the code that exists (negations proved on the model) -/

/-- K4 (known finding): remark text glued to `REM` is crunched as an identifier -/
theorem remark_glued_to_REM :
    relist "10 REMark this".toList = "10 REM ARK this".toList := by decide +kernel

/-- (former finding, repaired in the code) a second exponent letter ends the numeral in either
    case, so the line and its listing lex alike -/
theorem second_exponent_letter_faithful :
    lex (relist "?1E0e".toList) = lex "?1E0e".toList ∧
    relist (relist "?1E0e".toList) = relist "?1E0e".toList := by
  decide +kernel

example : relist "?1E0e".toList = "PRINT 1E0 E".toList := by decide +kernel

/-- (former finding, repaired in the code, D18) `trim_end` used to look at the last token only once, so
    two white-space-only tokens separated by blanks left one behind, which the listing then lost -/
theorem separated_unicode_space_faithful :
    (lex ['\r', ' ', Char.ofNat 0x85]).2 = [] ∧
    (lex (relist ['\r', ' ', Char.ofNat 0x85])).2 = [] ∧
    lex ("X=O".toList ++ [Char.ofNat 0x85, '\t', Char.ofNat 0xA0]) = lex "X=O".toList := by
  decide +kernel

/-- two comparison operators separated by a blank do not survive listing: `<= <=` is listed as
    such and re-lexed as `< <= =` (only reachable in lines whose tail the parser ignores) -/
theorem adjacent_comparisons_not_faithful :
    (lex "CLEAR = < < =".toList).2 =
      [.word .clear, .whitespace 1, .operator .lessEqual, .whitespace 1, .operator .lessEqual] ∧
    (lex (relist "CLEAR = < < =".toList)).2 =
      [.word .clear, .whitespace 1, .operator .less, .operator .lessEqual, .operator .equal] := by
  decide +kernel

/-- the model's reserved-word table, minutia table and keyword spellings are the ones re-extracted from
    `token.rs` on this run (`Gen/Keywords.lean`): an edit of a table in the Rust source breaks this obligation -/
theorem tables_generated :
    Lex.keywords = Gen.keywords ∧ (∀ p ∈ Gen.minutia, Lex.matchMinutia p.1 = some p.2) ∧
    (∀ p ∈ Gen.wordText, Word.text p.1 = p.2.toList) ∧ (∀ p ∈ Gen.operatorText, Operator.text p.1 = p.2.toList) :=
  ⟨Thm.Tables.keywords_generated, Thm.Tables.minutia_generated, Thm.Tables.word_text_generated,
   Thm.Tables.operator_text_generated⟩

/-! ### the listing of EVERY line is a fixed point, up to three characterised exceptions

  The results above start from a token list that is already canonical.  The following ones start from
  an ARBITRARY source string.  They rest on the output invariant of the lexer (`Lemmas/LexAll*.lean`):

  * every scanner is idempotent on its own output (`number_rerun`, `alphabetic_spec`, `minutia_spec`, …):
    whatever token it produces for whatever text, the printed text of that token, followed by a character
    the scanner stops at, is scanned back to the same token (`tok_rescan`, for the predicate `Tok`);
  * the raw token list of every text is a `Chain` (`rawTokens_chain`): every token is `Tok`, and every
    token is followed by a token whose first printed character it does not absorb — or both are
    word-like, and then `separate_words` puts a blank between them;
  * the four post-passes keep the `Chain` (`chain_postPasses`); after them no two word-like tokens are
    adjacent and the line does not end in a blank run or in white space.

  The exceptions (hypotheses of the fixed-point theorem, all on the token list `(lex s).2`):

  * `tripleClash`: two comparison-operator tokens (`< = > <= >= <>`) separated by one blank run, or the
    identifier `GO`, a blank run, and `TO` or the identifier `SUB` (the latter cannot survive
    `collapse_triples`, it is part of the predicate the older lemmas use);
  * `doubleClash`: two comparison-operator tokens directly adjacent;
    both are the known finding K5 (the collapsing passes are not confluent), see
    `adjacent_comparisons_not_faithful` and `adjacent_comparisons_not_faithful_2`;
  * `remClash`: a `REM` token that is followed by anything else than its remark text (nothing, or one
    final `Unknown` token): text glued to `REM` (`REMARK` is `REM`, `ARK`; known finding K4,
    `remark_glued_to_REM`) or a `REM` that is not the first word of its run of letters (`AREM:X`), after
    which the line was lexed as code; the listing separates the words, and then `REM` starts a remark.
    The token lists differ, the parses do not (remark either way or rejected either way).
-/

/-- THE OUTPUT INVARIANT OF THE LEXER, for every source string: the token list is a `Chain` — every
    token is one the scanners produce and scan back from their own text (`Tok`: identifiers are maximal
    letter(+digit)(+suffix) runs without a reserved word inside, numerals re-scan to themselves, an
    `Unknown` run holds no character that starts another token, blank runs are non-empty, …) and every
    two neighbours are compatible (`Adj`); the remark text follows its marker as one final token -/
theorem lex_output_chain (s : Str) : Chain (lex s).2 := lex_chain s

/-- for every source string: no two word-like tokens are adjacent (from `separate_words`) -/
theorem lex_output_wordClash (s : Str) : wordClash (lex s).2 = false := lex_wordClash s

/-- for every source string: the line does not end in a blank run, an empty `Unknown` token or an
    `Unknown` token with trailing white space (from `trim_end`; cf. `trimEnd_idem`) -/
theorem lex_output_endOk (s : Str) : endOk (lex s).2 = true := lex_endOk s

example : Chain (lex "10 IFATHENPRINTB".toList).2 ∧ wordClash (lex "10 IFATHENPRINTB".toList).2 = false ∧
    endOk (lex "10 IFATHENPRINTB".toList).2 = true :=
  ⟨lex_output_chain _, lex_output_wordClash _, lex_output_endOk _⟩

/-- what the `Chain` of a lexed line says about two neighbours that are not a remark marker and its text:
    the left one is a scanner product, and it does not absorb the first printed character of the right one -/
theorem lex_output_neighbours (s : Str) (pre : List Token) (a b : Token) (rest : List Token)
    (h : (lex s).2 = pre ++ a :: b :: rest) (hpre : ∀ t ∈ pre, t ≠ .word .rem1)
    (ha : a ≠ .word .rem1) (ha2 : a ≠ .word .rem2) : Tok a ∧ Bnd a (fc b) := by
  have hc := lex_chain s
  have hw := lex_wordClash s
  rw [h] at hc hw
  clear h
  revert hc hw hpre
  induction pre with
  | nil =>
    intro hpre hc hw
    rcases hc with ⟨hr, -⟩ | ⟨-, h2, h3, -⟩
    · rcases hr with e | e
      · exact absurd e ha
      · exact absurd e ha2
    · simp only [List.nil_append, wordClash, Bool.or_eq_false_iff] at hw
      unfold Adj at h3
      rw [if_neg (by simp [hw.1])] at h3
      exact ⟨h2, h3⟩
  | cons x pre ih =>
    intro hpre hc hw
    have hx1 : x ≠ .word .rem1 := hpre x (by simp)
    have hx2 : x ≠ .word .rem2 := by
      intro e; subst e
      cases pre with
      | nil =>
        rcases hc with ⟨-, hr, -⟩ | ⟨h1, -⟩
        · exact absurd hr (by simp)
        · exact h1 rfl
      | cons y pre' =>
        rcases hc with ⟨-, hr, -⟩ | ⟨h1, -⟩
        · exact absurd hr (by simp)
        · exact h1 rfl
    refine ih (fun t ht => hpre t (by simp [ht])) (chain_tail x _ hc hx1 hx2) ?_
    cases hl : pre ++ a :: b :: rest with
    | nil => rfl
    | cons y l =>
      rw [List.cons_append, hl] at hw
      simp only [wordClash, Bool.or_eq_false_iff] at hw
      exact hw.2

example : Tok (.operator .equal) ∧ Bnd (.operator .equal) (fc (.literal (.integer ['1']))) :=
  lex_output_neighbours "10 A=1".toList [.ident (.plain ['A'])] _ _ [] (by decide +kernel) (by decide)
    (by decide) (by decide)

/-- THE FIXED-POINT THEOREM FOR ALL STRINGS.  PARTIAL with respect to the property's quantifier by exactly
    the three exclusions described above (K5 twice, K4 and its variant): for every other source string
    the listed text lexes to the same line — same number, same tokens — and listing is idempotent. -/
theorem relist_fixed_point_all_partial (s : Str) (h1 : tripleClash (lex s).2 = false)
    (h2 : doubleClash (lex s).2 = false) (h3 : remClash (lex s).2 = false) :
    lex (relist s) = lex s ∧ relist (relist s) = relist s :=
  ⟨lex_relist_all s h1 h2 h3, relist_idempotent_all s h1 h2 h3⟩

/-- the numbered-line variant: a program line keeps its number -/
theorem relist_fixed_point_numbered_partial (s : Str) (n : Nat) (hn : (lex s).1 = some n)
    (h1 : tripleClash (lex s).2 = false) (h2 : doubleClash (lex s).2 = false)
    (h3 : remClash (lex s).2 = false) :
    lex (RStd.natDigits n ++ ' ' :: printTokens (lex s).2) = (some n, (lex s).2) := by
  have := lex_relist_all s h1 h2 h3
  unfold relist at this
  rw [hn] at this
  rw [show printLine (some n) (lex s).2 = RStd.natDigits n ++ ' ' :: printTokens (lex s).2 from rfl] at this
  rw [this, ← hn]

/-- the direct-line variant: a line without number lists as a line without number -/
theorem relist_fixed_point_direct_partial (s : Str) (hn : (lex s).1 = none)
    (h1 : tripleClash (lex s).2 = false) (h2 : doubleClash (lex s).2 = false)
    (h3 : remClash (lex s).2 = false) : lex (printTokens (lex s).2) = (none, (lex s).2) := by
  have := lex_relist_all s h1 h2 h3
  unfold relist at this
  rw [hn] at this
  rw [show printLine none (lex s).2 = printTokens (lex s).2 from rfl] at this
  rw [this, ← hn]

/-! #### non-vacuity: the hypotheses hold on concrete strings, and the theorem applies -/

/-- packed keywords -/
example : lex (relist "10 IFATHENPRINTB".toList) = lex "10 IFATHENPRINTB".toList :=
  (relist_fixed_point_all_partial _ (by decide +kernel) (by decide +kernel) (by decide +kernel)).1

example : relist "10 IFATHENPRINTB".toList = "10 IF A THEN PRINT B".toList := by decide +kernel

/-- `?`, `'`, multi-byte characters in a string literal and in the remark, trailing blanks -/
example : relist (relist "20 ?a$;\"grüß\";'naïve  café  ".toList) = relist "20 ?a$;\"grüß\";'naïve  café  ".toList :=
  (relist_fixed_point_all_partial _ (by decide +kernel) (by decide +kernel) (by decide +kernel)).2

/-- numerals with exponents, type suffixes, an exponent letter at the end of the line; a direct line -/
example : lex (printTokens (lex "X=1.5e+10:Y=1d5:Z#=.5E-3!:W=1E".toList).2) =
    (none, (lex "X=1.5e+10:Y=1d5:Z#=.5E-3!:W=1E".toList).2) :=
  relist_fixed_point_direct_partial _ (by decide +kernel) (by decide +kernel) (by decide +kernel)
    (by decide +kernel)

/-- a direct line that starts with blanks and a number too large for a line number; `Unknown` runs;
    a radix literal followed by a letter (pushed back upper-cased) -/
example : lex (relist "  65530 @#é:&h1fg".toList) = lex "  65530 @#é:&h1fg".toList :=
  (relist_fixed_point_all_partial _ (by decide +kernel) (by decide +kernel) (by decide +kernel)).1

/-- comparison operators typed with blanks inside are collapsed, and the result is a fixed point when no
    two of them end up next to each other -/
example : (lex "30 IF A< =B THEN 10".toList).2 =
      [.word .if, .whitespace 1, .ident (.plain ['A']), .operator .lessEqual, .ident (.plain ['B']),
       .whitespace 1, .word .then, .whitespace 1, .literal (.integer ['1', '0'])] ∧
    lex (relist "30 IF A< =B THEN 10".toList) = lex "30 IF A< =B THEN 10".toList :=
  ⟨by decide +kernel,
   (relist_fixed_point_all_partial _ (by decide +kernel) (by decide +kernel) (by decide +kernel)).1⟩

/-- a well-formed remark satisfies the third hypothesis -/
example : remClash (lex "40 REM so it is".toList).2 = false ∧ remClash (lex "40 X=1:REM".toList).2 = false := by
  decide +kernel

/-! #### payloads, for every source string and every context -/

/-- string literals (generalises `string_payload_preserved` / `string_payload_open` from "the line starts
    with the literal" to every position of every line): the text of every string-literal token of
    `lex s` is a quote-free stretch of the source — after the line number — that follows a quote and runs
    to the next quote or to the end of the line; character for character, multi-byte characters included -/
theorem string_payload_preserved_all (s : Str) (p : Str) (h : .literal (.string p) ∈ (lex s).2) :
    ∃ a b, (splitLineNumber s).2 = a ++ '"' :: p ++ b ∧ '"' ∉ p ∧ (b = [] ∨ b.head? = some '"') :=
  string_payload_all s p h

example : ∃ a b, "?A$;\"héllo, wörld\";B".toList = a ++ '"' :: "héllo, wörld".toList ++ b ∧
    '"' ∉ "héllo, wörld".toList ∧ (b = [] ∨ b.head? = some '"') := by
  have := string_payload_preserved_all "10 ?A$;\"héllo, wörld\";B".toList "héllo, wörld".toList (by decide +kernel)
  rwa [show (splitLineNumber "10 ?A$;\"héllo, wörld\";B".toList).2 = "?A$;\"héllo, wörld\";B".toList from by
    decide +kernel] at this

/-- the remark after an apostrophe (generalises `remark_preserved_apostrophe` from "the line starts with
    the apostrophe" to every line that holds the token `'`): the source after the line number is
    `a ++ ' ++ u0`, and the lexed line ends with the remark text `u0` without its trailing white space as
    one `Unknown` token (with `'` itself if nothing but white space follows).
    PARTIAL: for lines without `REM` clash (see above); after `REM` the remark text is covered by
    `remark_preserved_REM` (line starts with `REM`) only — what is missing for arbitrary contexts is the
    statement "the token list covers the source text", which the scanners' push-backs (an exponent letter
    or a rejected radix digit comes back upper-cased) make awkward to state. -/
theorem remark_preserved_apostrophe_all_partial (s : Str) (h : .word .rem2 ∈ (lex s).2)
    (hr : remClash (lex s).2 = false) :
    ∃ a u0, (splitLineNumber s).2 = a ++ '\'' :: u0 ∧
      (lex s).2.getLast? = some (if (trimEndStr u0).isEmpty then .word .rem2 else .unknown (trimEndStr u0)) :=
  remark_apostrophe_all_partial s h hr

example : (lex "10 ?1' Keep  THIS ü  ".toList).2.getLast? = some (.unknown " Keep  THIS ü".toList) ∧
    .word .rem2 ∈ (lex "10 ?1' Keep  THIS ü  ".toList).2 ∧ remClash (lex "10 ?1' Keep  THIS ü  ".toList).2 = false := by
  decide +kernel

/-! #### the hypotheses are not vacuous and cannot be dropped -/

/-- the clash predicates fire on the K5 line, on which the fixed point fails (`adjacent_comparisons_not_faithful`) -/
theorem clash_hypotheses_needed_triple :
    tripleClash (lex "CLEAR = < < =".toList).2 = true ∧
    lex (relist "CLEAR = < < =".toList) ≠ lex "CLEAR = < < =".toList := by
  refine ⟨by decide +kernel, ?_⟩
  intro h
  have := adjacent_comparisons_not_faithful
  rw [h, this.1] at this
  exact absurd this.2 (by decide)

/-- K5 again, through `collapse_doubles` alone: `= <blank-free> < blank =` is stored as `=`, `<=`, listed
    as `=<=` and entered again as `<=`, `=`; only `doubleClash` fires -/
theorem adjacent_comparisons_not_faithful_2 :
    (lex "CLEAR =< =".toList).2 = [.word .clear, .whitespace 1, .operator .equal, .operator .lessEqual] ∧
    (lex (relist "CLEAR =< =".toList)).2 =
      [.word .clear, .whitespace 1, .operator .lessEqual, .operator .equal] ∧
    tripleClash (lex "CLEAR =< =".toList).2 = false ∧ doubleClash (lex "CLEAR =< =".toList).2 = true ∧
    remClash (lex "CLEAR =< =".toList).2 = false := by
  decide +kernel

/-- the third hypothesis: K4 and its variant.  `REM` glued to text, or not the first word of its run of
    letters: the token lists of the line and of its listing differ (the listed TEXT is a fixed point) -/
theorem rem_hypothesis_needed :
    (remClash (lex "10 REMark".toList).2 = true ∧ lex (relist "10 REMark".toList) ≠ lex "10 REMark".toList ∧
      relist (relist "10 REMark".toList) = relist "10 REMark".toList) ∧
    (remClash (lex "10 AREM:X".toList).2 = true ∧
      (lex "10 AREM:X".toList).2 = [.ident (.plain ['A']), .whitespace 1, .word .rem1, .colon, .ident (.plain ['X'])] ∧
      (lex (relist "10 AREM:X".toList)).2 =
        [.ident (.plain ['A']), .whitespace 1, .word .rem1, .unknown [':', 'X']] ∧
      tripleClash (lex "10 AREM:X".toList).2 = false ∧ doubleClash (lex "10 AREM:X".toList).2 = false) := by
  decide +kernel

end C05
end Thm
end Basic
