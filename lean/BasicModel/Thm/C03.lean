import BasicModel.Gen.Limits
import BasicModel.Thm.C13
import BasicModel.Lemmas.Enter
/-
  C03 — no input can crash or wedge the interpreter (the part that lives in the runtime model).

  * a slice of `n` instructions executes at most `n` instructions and returns;
  * one interrupt suffices: `stopped` within two calls of `execute`, `Event.stopped` (the
    interpreter waiting at READY) within four;
  * the prompt is a fixed point of `execute`; the banner state `intro` is left by the first call
    and not entered again;
  * the operand stack cannot grow beyond 65 535 values — the push that would is OUT OF MEMORY —
    and every underflow is an `InternalError` value, not a fault;
  * an over-long line is refused with LINE BUFFER OVERFLOW and changes nothing.

  Not in the model (and so not here): native stack overflow, allocation failure, wall-clock time.
-/
namespace Basic
namespace Thm.C03
open Basic.Runtime

/-! ### a bounded slice always returns -/

/-- `executeLoop env n` is `slice env n`, and `slice` counts the calls of `step`: at most `n` -/
theorem executeLoop_bounded (env : Env) (n : Nat) (s : Runtime) :
    (executeLoop env n).run.run s = (toEvent (slice env n s).1, (slice env n s).2.1) ∧
    (slice env n s).2.2 ≤ n :=
  ⟨executeLoop_run env n s, slice_steps_le env n s⟩

/-- the quantum is used up exactly when the slice reports "still running, no event" -/
theorem executeLoop_exhausted (env : Env) (n : Nat) (s : Runtime)
    (h : (slice env n s).1 = .ok none) : (slice env n s).2.2 = n :=
  slice_none_steps env n s h

/-- a quantum of 0 does nothing -/
theorem executeLoop_zero (env : Env) (s : Runtime) :
    (executeLoop env 0).run.run s = (.ok .running, s) := rfl

/-- NEXT and RETURN unwind with fuel `stack size + 2` / `+ 1`: their loops pop at least one value
    per iteration, so the fuel is never the reason they stop on a stack of that size; whatever
    they do, they terminate (structural recursion on the fuel) and are `Quiet` -/
theorem unwinding_quiet (name : Str) : Frame Quiet (doNext name) ∧ Frame Quiet doReturn :=
  ⟨frame_doNext name, frame_doReturn⟩

/-! ### one interrupt suffices -/

/-- (also C13) after `interrupt`, at most two calls of `execute` — with any quantum — reach `stopped` -/
theorem interrupt_reaches_stopped (env : Env) (n : Nat) (s : Runtime) :
    ∃ k, 1 ≤ k ∧ k ≤ 2 ∧ (C13.execN env n k (interrupt s)).state = .stopped :=
  C13.interrupt_reaches_stopped env n s

/-- from `stopped`, at most two more calls return `Event.stopped`: READY is printed if it has
    not been, then the interpreter waits -/
theorem stopped_reaches_prompt (env : Env) (n : Nat) (s : Runtime) (hs : s.state = .stopped) :
    (execute env s n).2 = .stopped ∨
    (execute env (execute env s n).1 n) = ({ s with entryAddress := 0, printCol := 0 }, .stopped) := by
  by_cases he : s.entryAddress = 0
  · exact .inl (by rw [execute_stopped env s n hs he])
  · refine .inr ?_
    rw [execute_stopped_prompt env s n hs he]
    exact execute_stopped env _ n hs rfl

/-- so after an interrupt `Event.stopped` is returned by the 2nd, 3rd or 4th call at the latest -/
theorem interrupt_reaches_prompt (env : Env) (n : Nat) (s : Runtime) :
    ∃ j, j ≤ 3 ∧ (execute env (C13.execN env n j (interrupt s)) n).2 = .stopped := by
  have hb := C13.break_report env n (interrupt s) (C13.interrupt_state s)
  -- `t`: the state after the report
  have key : ∀ t : Runtime, t.state = .stopped →
      (execute env t n).2 = .stopped ∨ (execute env (execute env t n).1 n).2 = .stopped := by
    intro t ht
    rcases stopped_reaches_prompt env n t ht with h | h
    · exact .inl h
    · exact .inr (by rw [h])
  unfold C13.breakReport at hb
  by_cases hc : (interrupt s).printCol > 0
  · rw [if_pos hc] at hb
    have ht : (C13.execN env n 2 (interrupt s)).state = .stopped := by
      show (execute env (execute env (interrupt s) n).1 n).1.state = .stopped
      rw [hb]
    rcases key _ ht with h | h
    · exact ⟨2, by omega, h⟩
    · exact ⟨3, by omega, h⟩
  · rw [if_neg hc] at hb
    have ht : (C13.execN env n 1 (interrupt s)).state = .stopped := by
      show (execute env (interrupt s) n).1.state = .stopped
      rw [hb]
    rcases key _ ht with h | h
    · exact ⟨1, by omega, h⟩
    · exact ⟨2, by omega, h⟩

/-! ### the prompt is a fixed point; the banner is printed once -/

/-- at the prompt the interpreter waits: `Event.stopped`, state unchanged -/
theorem stopped_is_fixed (env : Env) (s : Runtime) (n : Nat)
    (hs : s.state = .stopped) (he : s.entryAddress = 0) :
    execute env s n = (s, .stopped) :=
  execute_stopped env s n hs he

/-- the banner is printed by the call that finds `state = intro`, which leaves `stopped` -/
theorem execute_intro_once (env : Env) (s : Runtime) (n : Nat) (hs : s.state = .intro) :
    execute env s n = ({ s with state := .stopped }, .print introText) :=
  execute_intro env s n hs

/-- a fresh interpreter: after the first call neither `state` nor `cont` is `intro` … -/
theorem first_execute_noIntro (env : Env) (n : Nat) : NoIntro (execute env ({} : Runtime) n).1 := by
  rw [execute_intro env _ n rfl]; exact ⟨nofun, nofun⟩

/-- … and every call of the API keeps it so: the banner state is never entered twice -/
theorem execute_never_intro_twice (env : Env) (s : Runtime) (n : Nat) (h : NoIntro s) :
    NoIntro (execute env s n).1 ∧ NoIntro (interrupt s) ∧
    (∀ line, NoIntro (enter env s line)) ∧ (∀ l run, NoIntro (setListing env s l run)) :=
  ⟨execute_noIntro env s n h, interrupt_noIntro s h, fun line => enter_noIntro env s line h,
   fun l run => setListing_noIntro env s l run⟩

/-- consequently `execute` never finds `state = intro` again, for any sequence of calls -/
inductive Call where
  | execute (n : Nat) | enter (line : Str) | interrupt | setListing (l : Listing) (run : Bool)

def Call.apply (env : Env) (s : Runtime) : Call → Runtime
  | .execute n => (Basic.Runtime.execute env s n).1
  | .enter line => Basic.Runtime.enter env s line
  | .interrupt => Basic.Runtime.interrupt s
  | .setListing l run => Basic.Runtime.setListing env s l run

theorem session_noIntro (env : Env) (calls : List Call) (s : Runtime) (h : NoIntro s) :
    NoIntro (calls.foldl (Call.apply env) s) := by
  induction calls generalizing s with
  | nil => exact h
  | cons c cs ih =>
    apply ih
    have := execute_never_intro_twice env s 0 h
    cases c with
    | execute n => exact execute_noIntro env s n h
    | enter line => exact this.2.2.1 line
    | interrupt => exact this.2.1
    | setListing l run => exact this.2.2.2 l run

/-- observation (model = implementation, `interrupt` swaps `state` into `cont` unconditionally):
    an interrupt delivered *before the first* `execute` records `cont = intro`; after the BREAK
    report, CONT puts `intro` back into `state` and the banner is printed a second time.  This is
    why `NoIntro` is a hypothesis above and is established by the first `execute`. -/
theorem early_interrupt_cont_reenters_intro (env : Env) (n : Nat) :
    (doCont.run.run { C13.breakReport env n (interrupt ({} : Runtime)) with state := .running }).2.state
      = .intro := by
  rw [C13.break_report env n _ (C13.interrupt_state _)]
  rfl

/-! ### the operand stack -/

/-- a successful `push` leaves at most 65 535 values -/
theorem push_bounded (v : Val) (s t : Runtime) (h : (push v).run.run s = (.ok (), t)) :
    t.stack.size ≤ 65535 ∧ t.stack = s.stack.push v := by
  rw [run_push] at h
  split at h
  · cases h
  · rename_i hle
    cases h
    exact ⟨by simp only [Gen.stackMaxLen, Array.size_push] at hle ⊢; omega, rfl⟩

/-- a failing `push` is OUT OF MEMORY (code 7); the value has been pushed (as in the Rust code,
    which tests the length after the push) -/
theorem push_overflow (v : Val) (s t : Runtime) (e : Error) (h : (push v).run.run s = (.error e, t)) :
    e.code = 7 ∧ e = stackOverflow ∧ t.stack.size = s.stack.size + 1 ∧ s.stack.size ≥ 65535 := by
  rw [run_push] at h
  split at h
  · rename_i hgt
    cases h
    exact ⟨rfl, rfl, by simp, by simp only [Gen.stackMaxLen] at hgt; omega⟩
  · cases h

/-- from a stack within the limit the overflowing push leaves exactly 65 536 values -/
theorem push_overflow_size (v : Val) (s t : Runtime) (e : Error) (hs : s.stack.size ≤ 65535)
    (h : (push v).run.run s = (.error e, t)) : t.stack.size = 65536 := by
  have := push_overflow v s t e h; omega

/-- popping an empty stack is the error value `InternalError "UNDERFLOW"`, not a fault -/
theorem pop_underflow_is_error (s : Runtime) (h : s.stack = #[]) :
    pop.run.run s = (.error underflow, s) ∧ underflow.code = Code.internalError ∧
    underflow.isFault = false := by
  refine ⟨?_, rfl, by decide⟩
  rw [run_pop, h]; rfl

theorem popN_underflow_is_error (n : Nat) (s : Runtime) (h : n > s.stack.size) :
    (popN n).run.run s = (.error underflow, s) := by
  rw [run_popN, if_pos h]

/-- a negative count on the stack is an error, never a huge allocation -/
theorem popVec_negative_is_error (s : Runtime) (n : Int16) (hb : s.stack.back? = some (.int n))
    (hn : n.toInt < 0) :
    popVec.run.run s = (.error underflow, { s with stack := s.stack.pop }) := by
  unfold popVec
  rw [run_bind, run_pop, hb]
  dsimp only
  rw [if_pos hn]
  rfl

/-- a count larger than what is there likewise -/
theorem popVec_short_is_error (s : Runtime) (n : Int16) (hb : s.stack.back? = some (.int n))
    (hn : ¬ n.toInt < 0) (hs : n.toInt.toNat > s.stack.pop.size) :
    popVec.run.run s = (.error underflow, { s with stack := s.stack.pop }) := by
  unfold popVec
  rw [run_bind, run_pop, hb]
  dsimp only
  rw [if_neg hn, run_popN, if_pos hs]

/-! ### over-long lines -/

/-- at the prompt (any state but `input` / `inkey`) a line of more than 1024 bytes is refused:
    `state = runtimeError LINE BUFFER OVERFLOW`, nothing else changes, the lexer is not run -/
theorem enter_too_long_rejected (env : Env) (s : Runtime) (line : Str)
    (h1 : s.state ≠ .input) (h2 : s.state ≠ .inkey) (hl : RStd.utf8Len line > 1024) :
    enter env s line = { s with state := .runtimeError (Error.mk' Code.lineBufferOverflow) } := by
  have hl' : RStd.utf8Len line > Gen.maxLineLen := hl
  unfold enter
  split
  · rename_i h; exact absurd h h1
  · rename_i h; exact absurd h h2
  · rw [if_pos hl']

/-- an over-long reply to INPUT is `?REDO FROM START` -/
theorem enter_too_long_input (env : Env) (s : Runtime) (line : Str)
    (h1 : s.state = .input) (hl : RStd.utf8Len line > 1024) :
    enter env s line = { s with state := .inputRedo, printCol := 0 } := by
  have hl' : RStd.utf8Len line > Gen.maxLineLen := hl
  unfold enter
  simp only [h1]
  rw [if_pos hl']

/-! ### non-vacuity -/

def env0 : Env := { lex := fun _ => ⟨none, []⟩, lineRenum := fun _ l => l }

example : (pop.run.run ({} : Runtime)).1 = .error underflow := by decide
example : ((push (.int 1)).run.run ({} : Runtime)).2.stack = #[.int 1] := by decide
example : (popVec.run.run { ({} : Runtime) with stack := #[.int 3, .int (-1)] }).1 = .error underflow := by
  decide
/-- a fresh interpreter, interrupted before its first `execute`: `cont` records `intro`, so
    `NoIntro` really is a hypothesis (see the final remark of the report) -/
example : (interrupt ({} : Runtime)).cont = .intro := by decide
example : (execute env0 { ({} : Runtime) with state := .stopped, entryAddress := 0 } 5).1.state = .stopped := by
  rw [stopped_is_fixed env0 _ 5 rfl rfl]
theorem utf8Len_replicate (n : Nat) : RStd.utf8Len (List.replicate n 'A') = n := by
  induction n with
  | zero => rfl
  | succ k ih =>
    have : RStd.utf8Len (List.replicate (k + 1) 'A') = 1 + RStd.utf8Len (List.replicate k 'A') := by
      simp only [RStd.utf8Len, List.replicate_succ, List.map_cons, List.sum_cons]; rfl
    omega
/-- 1025 letters at the prompt -/
example : (enter env0 { ({} : Runtime) with state := .stopped } (List.replicate 1025 'A')).state =
    .runtimeError (Error.mk' Code.lineBufferOverflow) := by
  rw [enter_too_long_rejected env0 _ _ (by decide) (by decide) (by rw [utf8Len_replicate]; omega)]

/-- line buffer and stack limits re-extracted from mach/mod.rs and stack.rs; `Gen/Limits.lean` is regenerated from /repo/src on every run, so editing one of these
    constants in the Rust source breaks this obligation -/
theorem generated_limits_documented : Gen.maxLineLen = 1024 ∧ Gen.stackMaxLen = 65535 := by decide

end Thm.C03
end Basic
