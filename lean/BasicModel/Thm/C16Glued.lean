import BasicModel.Lemmas.GluedNumber
import BasicModel.Thm.C16
/-
  C16 — "blanks between a number and a following word are optional": `200ELSE`, `100EQV`, `5DIV`.

  `number()` (lex.rs) continues over an `E`/`D` after the mantissa only when the character after the
  letter is a sign or a digit (`startsExponent`); otherwise it un-reads the letter.  A change that
  dropped that test swallowed the first letter of `ELSE`, `EQV`, `END`, `DATA`, `DIM`, … as an exponent
  marker and turned the Integer literal in front of it into a Single.  Pinned here, for ALL digit
  strings `ds` and ALL continuations:

  * `number_blank_optional` — on `ds ++ e :: pk :: tl` (`e` one of `E e D d`, `pk` neither a sign nor
    a digit) the scanner consumes exactly `ds` and makes the very token it makes of `ds` followed by
    a blank; `digitsToken_integer`: that token is the Integer literal when `ds` has at most 7
    digits and its value is at most 32767;
  * `number_glued_keyword` — every reserved word that begins with E or D qualifies (table fact
    `keywords_second_char`);
  * `lexFrom_blank_optional`, `glued_in_context`, `glued_listed_line` — raw tokens, and the
    significant tokens (`sig`, what the parser sees) of a whole line in any context;
  * the side condition is necessary: `exponent_taken` (digit, or sign + digits: the general
    statement), `exponent_examples`, and the FINDINGS `letter_at_end_swallowed` (`200E` at the end
    of the text is the Single `200E`, `200 E` is Integer 200 and the name E) and
    `sign_without_digit_swallowed` (`2E+B` is the Single `2E+` and the name B).
-/
set_option linter.unusedSimpArgs false
namespace Basic
namespace Thm
namespace C16Glued
open Lex Spec

/-! ### the scanner -/

/-- **The number scanner in front of a word that begins with E or D.**  `ds`: a non-empty digit
    string; then a letter `E`/`e`/`D`/`d`; then a character that is neither a sign nor a digit (and
    anything after it).  Glued or separated by a blank, the scanner consumes exactly `ds` and
    produces the same token; the letter it had to look at is handed back (upper-cased). -/
theorem number_blank_optional (ds : Str) (hne : ds ≠ []) (hd : AllDigits ds) (e pk : Char) (tl : List Char)
    (he : isExpLetter e = true) (hpk : startsExponent pk = false) :
    number (ds ++ e :: pk :: tl) = (digitsToken ds, foldED e :: pk :: tl) ∧
    number (ds ++ ' ' :: e :: pk :: tl) = (digitsToken ds, ' ' :: e :: pk :: tl) :=
  ⟨number_glued ds hne hd e pk tl he hpk,
   number_digits_boundary ds hne hd _ (by intro c hc; simp at hc; subst hc; decide)⟩

/-- the token is the Integer literal with the text `ds` whenever `ds` is an Integer constant
    (at most 7 digits, value at most 32767) — not a Single -/
theorem digitsToken_integer (ds : Str) (h7 : ds.length ≤ 7) (hv : decimalValue ds ≤ 32767) :
    digitsToken ds = .literal (.integer ds) := by
  have : ¬ ds.length > 7 := by omega
  simp [digitsToken, this, hv]

/-- … the Single literal `ds` when the value is beyond 32767, the Double literal beyond 7 digits -/
theorem digitsToken_other (ds : Str) :
    (ds.length ≤ 7 → ¬ decimalValue ds ≤ 32767 → digitsToken ds = .literal (.single ds)) ∧
    (ds.length > 7 → digitsToken ds = .literal (.double ds)) := by
  constructor
  · intro h7 hv
    have : ¬ ds.length > 7 := by omega
    simp [digitsToken, this, hv]
  · intro h7; simp [digitsToken, h7]

/-- the text of the token is `ds` in every case -/
theorem digitsToken_text (ds : Str) : (digitsToken ds).text = ds := by
  unfold digitsToken
  split
  · rfl
  · split <;> rfl

/-- table fact: the second character of every reserved word is a letter — neither a sign nor a digit -/
theorem keywords_second_char : ∀ p ∈ keywords,
    ∃ e pk tl, p.1 = e :: pk :: tl ∧ startsExponent pk = false ∧ foldED e = e := by
  have h : ∀ p ∈ keywords, (match p.1 with
      | e :: pk :: _ => !startsExponent pk && decide (foldED e = e)
      | _ => false) = true := by decide +kernel
  intro p hp
  have := h p hp
  split at this
  · rename_i e pk tl heq
    simp only [Bool.and_eq_true, Bool.not_eq_true', decide_eq_true_eq] at this
    exact ⟨e, pk, tl, heq, this.1, this.2⟩
  · cases this

/-- **every reserved word that begins with E or D** (ELSE, END, EQV, ERASE, DATA, DEF, DEFDBL, DEFINT,
    DEFSNG, DEFSTR, DELETE, DIM) glued to a digit string: the scanner stops in front of the word -/
theorem number_glued_keyword (ds : Str) (hne : ds ≠ []) (hd : AllDigits ds) (p : Str × Token)
    (hp : p ∈ keywords) (he : ∀ c ∈ p.1.head?, isExpLetter c = true) (rest : List Char) :
    number (ds ++ (p.1 ++ rest)) = (digitsToken ds, p.1 ++ rest) := by
  obtain ⟨e, pk, tl, hw, hpk, hf⟩ := keywords_second_char p hp
  rw [hw] at he ⊢
  have := number_glued ds hne hd e pk (tl ++ rest) (he e (by simp)) hpk
  rw [hf] at this
  simpa using this

/-- the reserved words concerned -/
theorem keywords_with_E_or_D :
    (keywords.filter (fun p => p.1.head?.any isExpLetter)).map (·.1) =
      ["DEFDBL".toList, "DEFINT".toList, "DEFSNG".toList, "DEFSTR".toList, "DELETE".toList,
       "ERASE".toList, "DATA".toList, "ELSE".toList, "DEF".toList, "DIM".toList, "END".toList,
       "EQV".toList] := by decide +kernel

/-! ### raw tokens and whole lines -/

/-- **raw tokens**: glued, the line continues with the tokens of the word; separated by a run of
    blanks, there is one blank token more and nothing else changes -/
theorem lexFrom_blank_optional (ds : Str) (hne : ds ≠ []) (hd : AllDigits ds) (sep : List Char)
    (hsep : ∀ c ∈ sep, isWs c = true) (hsne : sep ≠ []) (e pk : Char) (tl : List Char)
    (he : isExpLetter e = true) (hpk : startsExponent pk = false) :
    lexFrom (ds ++ e :: pk :: tl) false = digitsToken ds :: lexFrom (e :: pk :: tl) false ∧
    lexFrom (ds ++ (sep ++ e :: pk :: tl)) false =
      digitsToken ds :: .whitespace sep.length :: lexFrom (e :: pk :: tl) false :=
  ⟨lexFrom_glued ds hne hd e pk tl he hpk, lexFrom_spaced ds hne hd sep hsep hsne e (pk :: tl) he⟩

/-- glued to a reserved word in upper case that is followed by something that is not a letter: the
    numeral, the word's token, the rest -/
theorem lexFrom_glued_keyword (ds : Str) (hne : ds ≠ []) (hd : AllDigits ds) (p : Str × Token)
    (hp : p ∈ keywords) (he : ∀ c ∈ p.1.head?, isExpLetter c = true) (rest : List Char)
    (hb : ∀ c ∈ rest.head?, isAlpha c = false) :
    lexFrom (ds ++ (p.1 ++ rest)) false = digitsToken ds :: p.2 :: lexFrom rest (p.2 == .word .rem1) := by
  obtain ⟨e, pk, tl, hw, hpk, hf⟩ := keywords_second_char p hp
  have h1 := lexFrom_glued ds hne hd e pk (tl ++ rest) (he e (by simp [hw])) hpk
  have h2 := lexFrom_keyword' p hp rest hb
  rw [hw] at h2 ⊢
  simp only [List.cons_append] at h1 h2 ⊢
  rw [h1, h2]

/-- **in any context, after the post-passes**: `body` is the text in front of the number, a junction
    of the scanner (`Cut`); the significant tokens — all the parser looks at — of the glued spelling
    and of the spelling with blanks are the same -/
theorem glued_in_context (body : Str) (A : List Token) (ds : Str) (hne : ds ≠ []) (hd : AllDigits ds)
    (hcut : ∀ d ∈ ds.head?, Cut body A d) (sep : List Char) (hsep : ∀ c ∈ sep, isWs c = true)
    (e pk : Char) (tl : List Char) (he : isExpLetter e = true) (hpk : startsExponent pk = false) :
    sig (postPasses (lexFrom (body ++ (ds ++ (sep ++ e :: pk :: tl))) false)) =
      sig (postPasses (lexFrom (body ++ (ds ++ e :: pk :: tl)) false)) := by
  cases sep with
  | nil => rfl
  | cons w sep' =>
    obtain ⟨h1, h2⟩ := lexFrom_blank_optional ds hne hd (w :: sep') hsep (by simp) e pk tl he hpk
    obtain ⟨d, ds', rfl, -⟩ := digits_head ds hne hd
    have hc := hcut d (by simp)
    have c1 := hc (ds' ++ ((w :: sep') ++ e :: pk :: tl))
    have c2 := hc (ds' ++ e :: pk :: tl)
    simp only [List.cons_append] at c1 c2 h1 h2 ⊢
    rw [c1, c2, h1, h2]
    exact sig_postPasses_blank_after A _ _ _ (digitsToken_inert _).1 (digitsToken_inert _).2

/-- the same for a listed program line `<n> <body><ds>…` -/
theorem glued_listed_line (n : Nat) (hn : n ≤ 65529) (body : Str) (A : List Token) (ds : Str)
    (hne : ds ≠ []) (hd : AllDigits ds) (hcut : ∀ d ∈ ds.head?, Cut body A d) (sep : List Char)
    (hsep : ∀ c ∈ sep, isWs c = true) (e pk : Char) (tl : List Char) (he : isExpLetter e = true)
    (hpk : startsExponent pk = false) :
    (lex (RStd.natDigits n ++ ' ' :: (body ++ (ds ++ (sep ++ e :: pk :: tl))))).1 =
      (lex (RStd.natDigits n ++ ' ' :: (body ++ (ds ++ e :: pk :: tl)))).1 ∧
    sig (lex (RStd.natDigits n ++ ' ' :: (body ++ (ds ++ (sep ++ e :: pk :: tl))))).2 =
      sig (lex (RStd.natDigits n ++ ' ' :: (body ++ (ds ++ e :: pk :: tl)))).2 := by
  have e1 : ∀ t, lex (RStd.natDigits n ++ ' ' :: t) = (some n, postPasses (lexFrom t false)) := by
    intro t; simp only [lex, splitLineNumber_listed n hn, rawTokens_eq]
  rw [e1, e1]
  exact ⟨rfl, glued_in_context body A ds hne hd hcut sep hsep e pk tl he hpk⟩

/-! ### the side condition: when the letter IS an exponent marker -/

/-- **letter, optional sign, at least one digit**: the exponent is part of the numeral, which is
    then never an Integer: a Double for the letter D (or more than 7 mantissa digits), else a Single -/
theorem exponent_taken (ds : Str) (hne : ds ≠ []) (hd : AllDigits ds) (e : Char) (he : isExpLetter e = true)
    (sign : List Char) (hsign : sign = [] ∨ sign = ['+'] ∨ sign = ['-'])
    (xs : Str) (hxne : xs ≠ []) (hx : AllDigits xs) (rest : List Char) (hb : NumBoundary rest) :
    number (ds ++ e :: (sign ++ (xs ++ rest))) =
      (if foldED e = 'D' ∨ ds.length > 7 then .literal (.double (ds ++ foldED e :: sign ++ xs))
       else .literal (.single (ds ++ foldED e :: sign ++ xs)), rest) := by
  have he' : e = 'E' ∨ e = 'D' ∨ e = 'e' ∨ e = 'd' := by
    simp only [isExpLetter, Bool.or_eq_true, decide_eq_true_eq] at he
    rcases he with ((h | h) | h) | h <;> simp [h]
  have hcont : numCont false false e = true := by
    rcases he' with rfl | rfl | rfl | rfl <;> decide
  unfold number
  rw [numberLoop_digits ds hd hne, numberAfter_exponent e he' sign hsign xs hx hxne,
    numberAfter_boundary rest hb]
  rcases foldED_expLetter e he with h | h
  · by_cases h7 : ds.length > 7 <;> simp [h, h7, numberFinish]
  · have : 0 + ds.length + 8 > 7 := by omega
    simp [h, numberFinish, this]

/-- concrete instances: exponent taken (`1E5LSE` is `1E5` and the name LSE), not taken in front of a
    word -/
theorem exponent_examples :
    number ['1', 'E', '5', 'L', 'S', 'E'] = (.literal (.single ['1', 'E', '5']), ['L', 'S', 'E']) ∧
    number ['1', 'D', '-', '2'] = (.literal (.double ['1', 'D', '-', '2']), []) ∧
    number ['2', '0', '0', 'E', 'L', 'S', 'E'] = (.literal (.integer ['2', '0', '0']), ['E', 'L', 'S', 'E']) ∧
    number ['2', '0', '0', 'e', 'l', 's', 'e'] = (.literal (.integer ['2', '0', '0']), ['E', 'l', 's', 'e']) ∧
    number ['1', '0', '0', 'E', 'Q', 'V'] = (.literal (.integer ['1', '0', '0']), ['E', 'Q', 'V']) ∧
    number ['5', 'D', 'I', 'V'] = (.literal (.integer ['5']), ['D', 'I', 'V']) ∧
    number ['1', 'E', '.', '5'] = (.literal (.integer ['1']), ['E', '.', '5']) := by decide +kernel

/-- FINDING: an exponent letter that is the LAST character of the text is swallowed (there is no
    character to peek at): `200E` is the Single literal `200E`, `5D` the Double literal `5D`, while
    `200 E` is the Integer 200 and the name E.  The blank is NOT optional there. -/
theorem letter_at_end_swallowed :
    number ['2', '0', '0', 'E'] = (.literal (.single ['2', '0', '0', 'E']), []) ∧
    number ['5', 'd'] = (.literal (.double ['5', 'D']), []) ∧
    number ['2', '0', '0', ' ', 'E'] = (.literal (.integer ['2', '0', '0']), [' ', 'E']) ∧
    sig (lex ['1', '0', ' ', 'A', '=', '2', '0', '0', 'E']).2 ≠
      sig (lex ['1', '0', ' ', 'A', '=', '2', '0', '0', ' ', 'E']).2 := by decide +kernel

/-- FINDING: after the letter a SIGN is enough, no digit is asked for: `2E+B` is the Single literal
    `2E+` followed by the name B (and `2 E+B` is `2`, `E`, `+`, `B`) -/
theorem sign_without_digit_swallowed :
    number ['2', 'E', '+', 'B'] = (.literal (.single ['2', 'E', '+']), ['B']) ∧
    number ['2', '0', '0', 'E', '-', 'X'] = (.literal (.single ['2', '0', '0', 'E', '-']), ['X']) ∧
    number ['1', 'E', '+'] = (.literal (.single ['1', 'E', '+']), []) := by decide +kernel

/-! ### non-vacuity -/

example : number ("200".toList ++ ("ELSE".toList ++ " 300".toList)) =
    (.literal (.integer "200".toList), "ELSE".toList ++ " 300".toList) := by
  rw [number_glued_keyword "200".toList (by decide) (by decide) ("ELSE".toList, .word .else) (by decide)
    (by decide)]
  rw [digitsToken_integer _ (by decide) (by decide)]

example : lexFrom ['5', 'D', 'I', 'M', ' '] false = [.literal (.integer ['5']), .word .dim, .whitespace 1] := by
  have := lexFrom_glued_keyword ['5'] (by decide) (by decide) ("DIM".toList, .word .dim) (by decide)
    (by decide) [' '] (by decide)
  rw [digitsToken_integer _ (by decide) (by decide)] at this
  exact this.trans (by decide +kernel)

/-- a junction in front of a digit: `IF A THEN ` -/
theorem thenCtx_cut_digit : Cut "IF A THEN ".toList (C16.thenCtx.flatMap rawOf) '2' := by
  rw [show "IF A THEN ".toList = printTokens C16.thenCtx from by decide]
  exact Cut.of_printTokens C16.thenCtx _
    ⟨by decide, by decide, trivial, (by show AlphaBoundary _; decide),
     by decide, by decide, (by show 0 < 1; decide), (by show ∀ c ∈ _, _; decide),
     by decide, by decide, C16.nameA_printable, (by show AlphaBoundary _; decide),
     by decide, by decide, (by show 0 < 1; decide), (by show ∀ c ∈ _, _; decide),
     by decide, by decide, trivial, (by show AlphaBoundary _; decide),
     by decide, by decide, (by show 0 < 1; decide), (by show ∀ c ∈ _, _; decide), trivial⟩

/-- `10 IF A THEN 200 ELSE…` and `10 IF A THEN 200ELSE…`, whatever follows `ELSE` -/
example (post : Str) :
    sig (lex (RStd.natDigits 10 ++ ' ' :: ("IF A THEN ".toList ++ ("200".toList ++ (" ".toList ++ 'E' :: 'L' :: ('S' :: 'E' :: post)))))).2 =
    sig (lex (RStd.natDigits 10 ++ ' ' :: ("IF A THEN ".toList ++ ("200".toList ++ 'E' :: 'L' :: ('S' :: 'E' :: post))))).2 :=
  (glued_listed_line 10 (by decide) "IF A THEN ".toList _ "200".toList (by decide) (by decide)
    (by intro d hd; simp at hd; subst hd; exact thenCtx_cut_digit) " ".toList (by decide)
    'E' 'L' ('S' :: 'E' :: post) (by decide) (by decide)).2

example : sig (lex "10 IF A THEN 200ELSE 300".toList).2 = sig (lex "10 IF A THEN 200 ELSE 300".toList).2 ∧
    sig (lex "10 IF A THEN 200ELSE 300".toList).2 =
      [.word .if, C16.nameA, .word .then, .literal (.integer "200".toList), .word .else,
       .literal (.integer "300".toList)] := by decide +kernel

example : sig (lex "10 x=100eqv y:z=5data".toList).2 = sig (lex "10 x=100 eqv y:z=5 data".toList).2 := by
  decide +kernel

end C16Glued
end Thm
end Basic
