import BasicModel.Thm.Tables
import BasicModel.Lemmas.LexCaseLine
import BasicModel.Lemmas.SpellingSteps
/-
  C16 — spelling variants of a line mean the same (lexer part).

  * alias tables (`?`/PRINT, `'`/REM, `=<`, `=>`, `><`-free collapse rules, `GO TO`, `GO SUB`) — by `decide`;
  * keyword table facts: every reserved word scans to exactly its own token;
  * case folding, per scanner: `alphabetic` (upper-cases everything it consumes), `radix`
    (`&h`/`&H`, digits), `number` (the consumed exponent letter is folded; for canonical numerals the
    case of the exponent letter does not matter).
  * `lex_case_insensitive`: for every source line, upper-casing the ASCII letters changes nothing
    but the case of remark text and string-literal text (the former finding "a second exponent
    letter is swallowed only in lower case" was repaired in the code; `number_case_insensitive`).
-/
set_option linter.unusedSimpArgs false
namespace Basic
namespace Thm
namespace C16
open Lex

/-! ### alias tables -/

/-- `?` is PRINT and `'` is the remark marker -/
theorem alias_minutia :
    matchMinutia ['?'] = some (.word .print) ∧ matchMinutia ['\''] = some (.word .rem2) := by decide

example : (lex "?".toList).2 = (lex "PRINT".toList).2 := by decide +kernel

/-- `=<` and `=>` (and `<=`, `>=`, `<>`) collapse to the two-character operators -/
theorem alias_doubles :
    collapseDoubles [.operator .equal, .operator .less] = [.operator .lessEqual] ∧
    collapseDoubles [.operator .equal, .operator .greater] = [.operator .greaterEqual] ∧
    collapseDoubles [.operator .less, .operator .equal] = [.operator .lessEqual] ∧
    collapseDoubles [.operator .greater, .operator .equal] = [.operator .greaterEqual] ∧
    collapseDoubles [.operator .less, .operator .greater] = [.operator .notEqual] := by decide

example : lex "A=<B".toList = lex "A<=B".toList := by decide +kernel

/-- the same with one run of blanks in between, and `> <` for `<>` -/
theorem alias_triples (n : Nat) :
    collapseTriples [.operator .less, .whitespace n, .operator .equal] = [.operator .lessEqual] ∧
    collapseTriples [.operator .equal, .whitespace n, .operator .less] = [.operator .lessEqual] ∧
    collapseTriples [.operator .greater, .whitespace n, .operator .equal] = [.operator .greaterEqual] ∧
    collapseTriples [.operator .equal, .whitespace n, .operator .greater] = [.operator .greaterEqual] ∧
    collapseTriples [.operator .less, .whitespace n, .operator .greater] = [.operator .notEqual] ∧
    collapseTriples [.operator .greater, .whitespace n, .operator .less] = [.operator .notEqual] := by
  simp [collapseTriples, tripleLocs, tripleMatch, applyLocs, splice]

example : lex "A < = B".toList = lex "A <= B".toList := by decide +kernel

/-- `GO TO` and `GO SUB` are GOTO and GOSUB; `GO` itself is not a reserved word -/
theorem alias_go (n : Nat) :
    collapseTriples [.ident (.plain "GO".toList), .whitespace n, .word .to] = [.word .goto] ∧
    collapseTriples [.ident (.plain "GO".toList), .whitespace n, .ident (.plain "SUB".toList)] = [.word .gosub] ∧
    NoKeyword "GO".toList ∧ NoKeyword "SUB".toList := by
  refine ⟨?_, ?_, by decide +kernel, by decide +kernel⟩ <;>
    simp [collapseTriples, tripleLocs, tripleMatch, applyLocs, splice]

example : lex "GO TO 10".toList = lex "GOTO 10".toList ∧ lex "go  sub 10".toList = lex "GOSUB 10".toList := by
  decide +kernel

/-! ### keyword table -/

/-- every reserved word scans to exactly its own token (no other reserved word wins inside it) -/
theorem keyword_scans_to_itself :
    ∀ p ∈ keywords, scanAlphabetic [] p.1 = ([p.2], []) := by decide +kernel

example : scanAlphabetic [] "RESTORE".toList = ([.word .restore], []) :=
  keyword_scans_to_itself ("RESTORE".toList, .word .restore) (by decide)

/-- the table spells every token as `Display` prints it -/
theorem keyword_text : ∀ p ∈ keywords, p.2.text = p.1 := by decide +kernel

example : (Token.word .defdbl).text = "DEFDBL".toList := keyword_text ("DEFDBL".toList, _) (by decide)

/-- the table has no duplicate spellings and 49 entries -/
theorem keyword_table_shape : (keywords.map (·.1)).Nodup ∧ keywords.length = 49 := by decide +kernel

example : keywords.length = 49 := keyword_table_shape.2

/-! ### case folding: `alphabetic` -/

/-- C16, `alphabetic`: words and names lex the same in any case -/
theorem alphabetic_case_insensitive (cs : List Char) :
    (alphabetic (cs.map upper)).1 = (alphabetic cs).1 ∧
    (alphabetic (cs.map upper)).2 = (alphabetic cs).2.map upper := by
  simp [alphabetic, alphaLoop_upper]

example : (alphabetic "print x".toList).1 = (alphabetic "PRINT X".toList).1 :=
  (alphabetic_case_insensitive "print x".toList).1.symm.trans (by decide +kernel)

/-- a word in any mixture of cases, followed by a boundary, is the word -/
theorem keyword_any_case (p : Str × Token) (hp : p ∈ keywords) (ls rest : List Char)
    (hl : ls.map upper = p.1) (hb : AlphaBoundary rest) (ha : ∀ c ∈ ls, isAlpha c = true) :
    alphabetic (ls ++ rest) = ([p.2], rest) := by
  have hne : ls ≠ [] := by
    intro h; subst h
    have : p.1 ≠ [] := by
      revert p; decide +kernel
    exact this (by simpa using hl.symm)
  rw [alphabetic, alphaLoop_letters ls ha hne rest hb, List.nil_append, hl, alphaFinish,
    keyword_scans_to_itself p hp]
  simp

example : alphabetic "Goto 10".toList = ([.word .goto], " 10".toList) :=
  keyword_any_case ("GOTO".toList, .word .goto) (by decide) "Goto".toList " 10".toList (by decide)
    (by intro c hc; simp at hc; subst hc; decide) (by decide)

/-! ### case folding: `radix` -/

/-- C16, `radix`: `&h`/`&H` and the digits `a`–`f` may be written in either case -/
theorem radix_case_insensitive (cs : List Char) :
    (radix (cs.map upper)).1 = (radix cs).1 ∧ (radix (cs.map upper)).2 = (radix cs).2.map upper :=
  radix_upper_pair cs

example : (radix "&hff+1".toList).1 = .literal (.hex "FF".toList) := by decide +kernel

/-! ### case folding: `number` -/

/-- the character `number()` consumes is folded (`e`→`E`, `d`→`D`) before anything looks at it -/
theorem numberLoop_consumed_folded (c : Char) (rest : List Char) (s : Str) (dg : Nat) (dec ex : Bool) :
    numberLoop (c :: rest) s dg dec ex = numberLoop (foldED c :: rest) s dg dec ex := by
  rw [numberLoop_cons, numberLoop_cons, foldED_foldED]

example : number "1e5".toList = number "1E5".toList := by decide +kernel

/-- before an exponent has been seen, the peeked exponent letter is accepted in either case -/
theorem numCont_exponent_case (dec : Bool) (c : Char) :
    numCont false dec c = numCont false dec (foldED c) := by
  unfold foldED
  by_cases h1 : c = 'e'
  · subst h1; simp [numCont]
  · by_cases h2 : c = 'd'
    · subst h2; simp [numCont]
    · simp [h1, h2]

example : numCont false false 'd' = true ∧ numCont false false 'D' = true := by decide

/-- C16, `number`: in a canonical numeral (mantissa, exponent letter, optional sign, digits) the
    case of the exponent letter does not matter -/
theorem number_exponent_case (e : Char) (he : e = 'E' ∨ e = 'D' ∨ e = 'e' ∨ e = 'd')
    (sign : List Char) (hsign : sign = [] ∨ sign = ['+'] ∨ sign = ['-'])
    (ds : List Char) (hds : ∀ c ∈ ds, isDigit c = true) (hne : ds ≠ [])
    (rest : List Char) (s : Str) (dg : Nat) (dec : Bool) :
    numberAfter (e :: (sign ++ (ds ++ rest))) s dg dec false =
      numberAfter (foldED e :: (sign ++ (ds ++ rest))) s dg dec false := by
  have he' : foldED e = 'E' ∨ foldED e = 'D' ∨ foldED e = 'e' ∨ foldED e = 'd' := by
    rcases he with h | h | h | h <;> subst h <;> simp [foldED]
  rw [numberAfter_exponent e he sign hsign ds hds hne, numberAfter_exponent _ he' sign hsign ds hds hne,
    foldED_foldED]

example : number "1.5d+3".toList = number "1.5D+3".toList := by decide +kernel

/-- C16, `number`: the scanner is blind to the case of its input everywhere (since the repair of
    the peek test `!exp && (pk == 'E' || pk == 'e' || pk == 'D' || pk == 'd')`): same token, same
    remainder up to case -/
theorem number_case_insensitive (c : Char) (cs : List Char) (h : (isDigit c || c = '.') = true) :
    number ((c :: cs).map upper) = ((number (c :: cs)).1, (number (c :: cs)).2.map upper) :=
  number_upper c cs h

example : number "1e0ex".toList = (.literal (.single "1E0".toList), "ex".toList) ∧
    number "1E0EX".toList = (.literal (.single "1E0".toList), "EX".toList) := by decide +kernel

/-- the former finding (a second exponent letter was swallowed only in lower case) is gone: both
    spellings are a literal followed by a name -/
theorem second_exponent_letter_either_case :
    (lex "?1E0e".toList).2 = (lex "?1E0E".toList).2 := by decide +kernel

example : (lex "?1E0e".toList).2 =
    [.word .print, .whitespace 1, .literal (.single "1E0".toList), .whitespace 1, .ident (.plain ['E'])] := by
  decide +kernel

/-! ### case folding: whole lines -/

/-- C16 for ALL lines: upper-casing every ASCII letter of a source line changes neither the line
    number nor the tokens, except for the case of the text the lexer copies verbatim (remark text
    and string literals; `foldTok` upper-cases exactly those payloads) -/
theorem lex_case_insensitive (s : Str) :
    (lex (s.map upper)).1 = (lex s).1 ∧ (lex (s.map upper)).2.map foldTok = (lex s).2.map foldTok :=
  lex_upper s

example : lex "10 for i=1e3 to &hff step x1:go to 20".toList =
    lex ("10 for i=1e3 to &hff step x1:go to 20".toList.map upper) := by decide +kernel

/-- corollary: a line without string literals and remark text lexes to literally the same tokens -/
theorem lex_case_insensitive_plain (s : Str) (h : ∀ t ∈ (lex s).2, isPayload t = false)
    (h' : ∀ t ∈ (lex (s.map upper)).2, isPayload t = false) :
    lex (s.map upper) = lex s := by
  obtain ⟨h1, h2⟩ := lex_case_insensitive s
  have e : ∀ l : List Token, (∀ t ∈ l, isPayload t = false) → l.map foldTok = l := by
    intro l hl
    induction l with
    | nil => rfl
    | cons t l ih =>
      simp [foldTok_of_not_payload t (hl t (by simp)), ih (fun x hx => hl x (by simp [hx]))]
  rw [e _ h, e _ h'] at h2
  exact Prod.ext h1 h2

example : lex "if a<=b then 100 else 200".toList = lex "IF A<=B THEN 100 ELSE 200".toList :=
  (lex_case_insensitive_plain "if a<=b then 100 else 200".toList (by decide +kernel) (by decide +kernel)).symm

/-- the model's reserved-word table, minutia table and keyword spellings are the ones re-extracted from
    `token.rs` on this run (`Gen/Keywords.lean`): an edit of a table in the Rust source breaks this obligation -/
theorem tables_generated :
    Lex.keywords = Gen.keywords ∧ (∀ p ∈ Gen.minutia, Lex.matchMinutia p.1 = some p.2) ∧
    (∀ p ∈ Gen.wordText, Word.text p.1 = p.2.toList) ∧ (∀ p ∈ Gen.operatorText, Operator.text p.1 = p.2.toList) :=
  ⟨Thm.Tables.keywords_generated, Thm.Tables.minutia_generated, Thm.Tables.word_text_generated,
   Thm.Tables.operator_text_generated⟩

/-! ### spelling variants in arbitrary contexts (whole lines)

  "Same meaning" at the lexer level is equality of the line number and of `sig ts`, the token list
  without its blank runs: `BasicParser::next` (`Parse.nextLoop`), the only reader of the parser's
  token list, skips them (`parser_skips_blanks`).  The parse-level corollaries are therefore stated
  on `sig` directly (`respelled_parse`); the lift "`parse ts` = `parse (sig ts)` up to the recorded
  columns" through the whole parser is NOT proved here.

  A context is `pre ++ <variant> ++ post`.  `Cut (lineBody pre) A c` characterises the scanner state
  after `pre`: the tokens `A` are out, the remark flag is off, no string literal, name or numeral is
  open, and the next token starts at the character `c` (`lineBody pre` is `pre` without the
  line-number prefix; `Cut.of_printTokens` gives junctions after any printed remark-free canonical
  token list, `Cut.append` composes them). -/

open Lemmas.Spelling

/-- the parser's token reader hands out the same token, and leaves the same significant tokens and
    remark flag, whether or not the blank runs are there; only the columns differ -/
theorem parser_skips_blanks (ts : List Token) (rem : Bool) (cs ce cs' ce' : Nat) :
    (Parse.nextLoop ts rem cs ce).1 = (Parse.nextLoop (sig ts) rem cs' ce').1 ∧
    sig (Parse.nextLoop ts rem cs ce).2.1 = (Parse.nextLoop (sig ts) rem cs' ce').2.1 ∧
    (Parse.nextLoop ts rem cs ce).2.2.1 = (Parse.nextLoop (sig ts) rem cs' ce').2.2.1 :=
  nextLoop_sig ts rem cs ce cs' ce'

example : sig [.word .print, .whitespace 2, .ident (.plain ['X'])] = [.word .print, .ident (.plain ['X'])] := by
  decide

/-- … and it cannot tell the two remark markers apart: with `'` rewritten to `REM` it hands out the
    same token with the same columns and leaves the same (rewritten) rest -/
theorem parser_ignores_marker (ts : List Token) (rem : Bool) (cs ce : Nat) :
    Parse.nextLoop (ts.map normTok) rem cs ce =
      ((Parse.nextLoop ts rem cs ce).1, (Parse.nextLoop ts rem cs ce).2.1.map normTok,
        (Parse.nextLoop ts rem cs ce).2.2) :=
  nextLoop_normTok ts rem cs ce

example : [Token.word .rem2, .unknown ['x']].map normTok = [.word .rem1, .unknown ['x']] := rfl

/-- `Cut` does exclude the inside of string literals and of remarks: there `?` is text, not PRINT -/
theorem no_junction_in_string_or_remark (A : List Token) :
    ¬ Cut "\"".toList A '?' ∧ ¬ Cut "'".toList A '?' ∧ ¬ Cut "REM ".toList A '?' := by
  have key : ∀ (pre : Str) (t : Token), t ≠ .word .print →
      lexFrom (pre ++ ['?']) false = [t] ∨ (∃ u, lexFrom (pre ++ ['?']) false = [u, t]) → ¬ Cut pre A '?' := by
    intro pre t ht hl hc
    have h := hc []
    rw [show lexFrom ['?'] false = [.word .print] from by decide +kernel] at h
    have h' := congrArg List.getLast? h
    rcases hl with hl | ⟨u, hl⟩ <;> rw [hl] at h' <;> simp at h' <;> exact ht h'
  refine ⟨key _ (.literal (.string ['?'])) (by simp) (Or.inl (by decide +kernel)),
    key _ (.unknown ['?']) (by simp) (Or.inr ⟨.word .rem2, by decide +kernel⟩),
    key _ (.unknown [' ', '?']) (by simp) (Or.inr ⟨.word .rem1, by decide +kernel⟩)⟩

/-- the name `A` -/
def nameA : Token := .ident (.plain ['A'])

theorem nameA_printable : Printable nameA :=
  ⟨⟨['A'], [], none⟩, ⟨by decide, by decide, by decide, by decide, by decide +kernel⟩, rfl, rfl⟩

/-- the tokens of `IF A THEN ` -/
def thenCtx : List Token :=
  [.word .if, .whitespace 1, nameA, .whitespace 1, .word .then, .whitespace 1]

/-- `IF A THEN ` is a junction in front of `?`, `P`, `'`, `R` and `G` -/
theorem thenCtx_cut (c : Char) (hc : c = '?' ∨ c = 'P' ∨ c = '\'' ∨ c = 'R' ∨ c = 'G') :
    Cut "IF A THEN ".toList (thenCtx.flatMap rawOf) c := by
  rw [show "IF A THEN ".toList = printTokens thenCtx from by decide]
  rcases hc with rfl | rfl | rfl | rfl | rfl <;>
  exact Cut.of_printTokens thenCtx _
    ⟨by decide, by decide, trivial, (by show AlphaBoundary _; decide),
     by decide, by decide, (by show 0 < 1; decide), (by show ∀ c ∈ _, _; decide),
     by decide, by decide, nameA_printable, (by show AlphaBoundary _; decide),
     by decide, by decide, (by show 0 < 1; decide), (by show ∀ c ∈ _, _; decide),
     by decide, by decide, trivial, (by show AlphaBoundary _; decide),
     by decide, by decide, (by show 0 < 1; decide), (by show ∀ c ∈ _, _; decide), trivial⟩

theorem thenCtx_body : lineBody "10 IF A THEN ".toList = "IF A THEN ".toList := by decide +kernel

/-- C16 (1), `?` ≡ `PRINT` in ANY context: between a junction and an arbitrary rest of the line,
    `?` and `PRINT` followed by `sep` give the same line number and the same significant tokens.
    `sep` is any run of blanks; it may be empty unless `post` starts with a letter (`PrintSep`): a
    letter right after `PRINT` is crunched in the same call of `alphabetic()`, which mostly gives
    the same tokens (`PRINTX` is `PRINT`,`X`) but not always (`print_glued_remark`). -/
theorem print_in_context (pre post sep : Str) (A : List Token) (hq : Cut (lineBody pre) A '?')
    (hp : Cut (lineBody pre) A 'P') (hs : PrintSep sep post) :
    (lex (pre ++ '?' :: post)).1 = (lex (pre ++ ("PRINT".toList ++ (sep ++ post)))).1 ∧
    sig (lex (pre ++ '?' :: post)).2 = sig (lex (pre ++ ("PRINT".toList ++ (sep ++ post)))).2 :=
  print_alias pre post sep A hq hp hs

/-- … for instance after `10 IF A THEN `, whatever follows -/
example (post : Str) :
    sig (lex ("10 IF A THEN ".toList ++ '?' :: post)).2 =
      sig (lex ("10 IF A THEN ".toList ++ ("PRINT".toList ++ (" ".toList ++ post)))).2 :=
  (print_in_context "10 IF A THEN ".toList post " ".toList _
    (thenCtx_body ▸ thenCtx_cut '?' (by decide)) (thenCtx_body ▸ thenCtx_cut 'P' (by decide))
    ⟨by decide, by intro h; exact absurd h (by decide)⟩).2

/-- the side condition of (1) cannot be dropped: glued to `PRINT`, `REM` is not the first token of
    its `alphabetic()` queue and does not start a remark; after `?` it does -/
theorem print_glued_remark :
    sig (lex "PRINTREM x".toList).2 = [.word .print, .word .rem1, .ident (.plain ['X'])] ∧
    sig (lex "?REM x".toList).2 = [.word .print, .word .rem1, .unknown " x".toList] := by
  decide +kernel

example : sig (lex "PRINTX".toList).2 = sig (lex "?X".toList).2 := by decide +kernel

/-- C16 (1), exactly: glued to a letter, `PRINT` and `?` give the VERY SAME line if (and, by
    `print_glued_remark`, only if) the first token the letters give on their own is not `REM`:
    `alphabetic()` finds `PRINT` first (leftmost; no other reserved word starts with `P`) and scans
    the rest as it would on its own; only the remark flag looks at the position in the queue -/
theorem print_glued_in_context (pre : Str) (k : Char) (tl : List Char) (A : List Token)
    (hq : Cut (lineBody pre) A '?') (hp : Cut (lineBody pre) A 'P') (hk : isAlpha k = true)
    (hfirst : ∃ t ts, (alphabetic (k :: tl)).1 = t :: ts ∧ t ≠ .word .rem1) :
    lex (pre ++ '?' :: k :: tl) = lex (pre ++ ("PRINT".toList ++ k :: tl)) :=
  print_alias_glued pre k tl A hq hp hk hfirst

example : lex "10 IF A THEN ?X1$;Y".toList = lex "10 IF A THEN PRINTX1$;Y".toList :=
  print_glued_in_context "10 IF A THEN ".toList 'X' "1$;Y".toList _
    (thenCtx_body ▸ thenCtx_cut '?' (by decide)) (thenCtx_body ▸ thenCtx_cut 'P' (by decide)) (by decide)
    ⟨.ident (.string "X1$".toList), [], by decide +kernel, by decide⟩

/-- C16 (2), `'` ≡ `REM` in any context: the tokens before the marker and the remark text are the
    same; the marker that was typed stays in the listing (`rem2` / `rem1`).  The remark text must
    not start with a letter (glued to `REM` it is crunched as a name: known finding K4,
    `Thm.C05.remark_glued_to_REM`). -/
theorem rem_in_context (pre post : Str) (A : List Token) (hq : Cut (lineBody pre) A '\'')
    (hr : Cut (lineBody pre) A 'R') (hb : ∀ c ∈ post.head?, isAlpha c = false) :
    (lex (pre ++ '\'' :: post)).1 = (lex (pre ++ ("REM".toList ++ post))).1 ∧
    ∃ X, (lex (pre ++ '\'' :: post)).2 = X ++ .word .rem2 :: remarkTail post ∧
      (lex (pre ++ ("REM".toList ++ post))).2 = X ++ .word .rem1 :: remarkTail post :=
  rem_alias pre post A hq hr hb

example : (lex "10 X=1 ' note".toList).2.map normTok = (lex "10 X=1 REM note".toList).2.map normTok := by
  decide +kernel

/-- C16 (2), parser: a line whose first significant token is `REM` or `'` parses to no statement
    at all — whichever marker it is, and whatever follows it -/
theorem remark_line_parses_empty (ln : Option Nat) (W : List Token) (r : Token) (Y : List Token)
    (hW : Lemmas.C19.AllWs W) (hr : Parse.isRem r = true) : Parse.parse ln (W ++ r :: Y) = .ok [] :=
  parse_remark_line ln W r Y hW hr

example (Y Y' : List Token) :
    Parse.parse (some 10) (.whitespace 1 :: .word .rem1 :: Y) = Parse.parse (some 10) (.word .rem2 :: Y') := by
  exact (remark_line_parses_empty (some 10) [.whitespace 1] (.word .rem1) Y
      (by intro t h; simp at h; exact ⟨1, h⟩) rfl).trans
    (remark_line_parses_empty (some 10) [] (.word .rem2) Y' (by intro t h; simp at h) rfl).symm

/-- C16 (3), `GO TO` ≡ `GOTO` in any context: after a junction, `GO`, a non-empty run of blanks and
    `TO` lex to the VERY SAME line as `GOTO`, provided no letter follows (`GO TO10` is fine) -/
theorem goto_in_context (pre post blanks : Str) (A : List Token) (hg : Cut (lineBody pre) A 'G')
    (hbl : ∀ c ∈ blanks, isWs c = true) (hne : blanks ≠ [])
    (hpost : ∀ c ∈ post.head?, isAlpha c = false) :
    lex (pre ++ ("GO".toList ++ (blanks ++ ("TO".toList ++ post)))) = lex (pre ++ ("GOTO".toList ++ post)) :=
  goto_alias pre post blanks A hg hbl hne hpost

/-- C16 (3), `GO SUB` ≡ `GOSUB`: `SUB` is not a reserved word, so what follows must be a boundary
    (not a letter, digit or type suffix: `GO SUB10` is `GO`,`SUB10`, see `go_sub_glued`) -/
theorem gosub_in_context (pre post blanks : Str) (A : List Token) (hg : Cut (lineBody pre) A 'G')
    (hbl : ∀ c ∈ blanks, isWs c = true) (hne : blanks ≠ []) (hpost : AlphaBoundary post) :
    lex (pre ++ ("GO".toList ++ (blanks ++ ("SUB".toList ++ post)))) = lex (pre ++ ("GOSUB".toList ++ post)) :=
  gosub_alias pre post blanks A hg hbl hne hpost

example (post : Str) (hpost : ∀ c ∈ post.head?, isAlpha c = false) :
    lex ("10 IF A THEN ".toList ++ ("GO".toList ++ (" \t ".toList ++ ("TO".toList ++ post)))) =
      lex ("10 IF A THEN ".toList ++ ("GOTO".toList ++ post)) :=
  goto_in_context "10 IF A THEN ".toList post " \t ".toList _
    (thenCtx_body ▸ thenCtx_cut 'G' (by decide)) (by decide) (by decide) hpost

/-- `GO SUB10` is not `GOSUB10` (whereas `GO TO10` is `GOTO10`): the digits are glued to the name `SUB` -/
theorem go_sub_glued :
    sig (lex "GO SUB10".toList).2 = [.ident (.plain "GO".toList), .ident (.plain "SUB10".toList)] ∧
    sig (lex "GOSUB10".toList).2 = [.word .gosub, .literal (.integer "10".toList)] ∧
    lex "GO TO10".toList = lex "GOTO10".toList := by decide +kernel

/-- C16 (4), comparison operators: any two spellings of the same operator (`CmpSpelling`: `<=` `=<`
    `>=` `=>` `<>`, and each of the six pairs `< =`, `= <`, `> =`, `= >`, `< >`, `> <` with one run of
    blanks) give the VERY SAME line, between a junction whose tokens do not end in a comparison
    character (nor in one followed by a blank run) and a rest of the line that does not start with
    one (nor with a blank run followed by one) -/
theorem cmp_in_context {t : Token} (s s' : CmpSpelling t) (pre post : Str) (A : List Token)
    (hcut : Cut (lineBody pre) A s.c1) (hcut' : Cut (lineBody pre) A s'.c1) (hA : cmpAtEnd A = false)
    (hV : cmpAtStart (lexFrom post false) = false) :
    lex (pre ++ (s.text ++ post)) = lex (pre ++ (s'.text ++ post)) :=
  cmp_alias_eq s s' pre post A hcut hcut' hA hV

example : (leSpelling true 0).text = "=<".toList ∧ (leSpelling false 2).text = "<  =".toList ∧
    (geSpelling true 1).text = "= >".toList ∧ (neSpellingRev 0).text = "> <".toList := by decide

/-- the tokens of `IF A` -/
def ifCtx : List Token := [.word .if, .whitespace 1, nameA]

theorem ifCtx_cut (c : Char) (hc : c = '=' ∨ c = '<' ∨ c = '>') : Cut "IF A".toList (ifCtx.flatMap rawOf) c := by
  rw [show "IF A".toList = printTokens ifCtx from by decide]
  rcases hc with rfl | rfl | rfl <;>
  exact Cut.of_printTokens ifCtx _
    ⟨by decide, by decide, trivial, (by show AlphaBoundary _; decide),
     by decide, by decide, (by show 0 < 1; decide), (by show ∀ c ∈ _, _; decide),
     by decide, by decide, nameA_printable, (by show AlphaBoundary _; decide), trivial⟩

theorem ifCtx_body : lineBody "10 IF A".toList = "IF A".toList := by decide +kernel

/-- … `10 IF A=<…` and `10 IF A<   =…` are the same line, whatever follows that does not start with a
    comparison character -/
example (post : Str) (hV : cmpAtStart (lexFrom post false) = false) :
    lex ("10 IF A".toList ++ ("=<".toList ++ post)) = lex ("10 IF A".toList ++ ("<   =".toList ++ post)) :=
  cmp_in_context (leSpelling true 0) (leSpelling false 3) "10 IF A".toList post _
    (ifCtx_body ▸ ifCtx_cut '=' (by decide)) (ifCtx_body ▸ ifCtx_cut '<' (by decide)) (by decide) hV

/-- the side condition of (4) cannot be dropped (known finding K5, `Thm.C05.adjacent_comparisons_not_faithful`):
    next to another comparison character the greedy collapse pairs differently -/
theorem cmp_side_condition_needed :
    (lex "A<=<B".toList).2 = [nameA, .operator .lessEqual, .operator .less, .ident (.plain ['B'])] ∧
    (lex "A<<=B".toList).2 = [nameA, .operator .less, .operator .lessEqual, .ident (.plain ['B'])] := by
  decide +kernel

/-- `><` is NOT a spelling of `<>` (only `> <`, with a blank, is collapsed) -/
theorem greater_less_needs_blank :
    (lex "A><B".toList).2 = [nameA, .operator .greater, .operator .less, .ident (.plain ['B'])] ∧
    (lex "A> <B".toList).2 = [nameA, .operator .notEqual, .ident (.plain ['B'])] := by decide +kernel

/-- C16 (5), optional LET, on the parser: if the assignment `ts` (first significant token: a name)
    parses as the statement `r` when read from the column at which the word `LET` ends, then
    `LET ts` parses as the same statement — same variable, same expression with the same columns,
    same parser state afterwards — except that the statement's own column is that of `LET`.
    (Statement level, same fuel.  The whole-line corollary `parse ln (LET :: ts)` vs `parse ln ts`
    needs every column shifted by three and the line's fuel changed by six; neither lift is proved.) -/
theorem let_is_optional (fuel : Nat) (ts : List Token) (cs ce x : Nat) (i : TIdent) (st1 : Parse.PState)
    (hp : Parse.peek.run (Lemmas.RangeForms.st0 ts x (ce + 3)) = .ok (some (.ident i), st1))
    (r : Stmt) (st' : Parse.PState)
    (hbare : (Parse.statement (fuel + 1)).run (Lemmas.RangeForms.st0 ts x (ce + 3)) = .ok (r, st')) :
    (Parse.statement (fuel + 1)).run (Lemmas.RangeForms.st0 (.word .let :: ts) cs ce) =
      .ok (reCol (ce, ce + 3) r, st') :=
  let_optional fuel ts cs ce x i st1 hp r st' hbare

example (v : Variable) (e : Expr) : reCol (0, 3) (.let (3, 4) v e) = .let (0, 3) v e := rfl

/-- C16 (6), optional blanks: a line printed with ANY legal placement of blanks between its tokens
    (none at all included) lexes to exactly those tokens, one blank inserted between adjacent
    word-like tokens (`sepRec`).  `packLegal` is decidable: every run of adjacent letter tokens must
    scan back to itself (`alphabetic run = run`), every other token must be followed by text it
    cannot absorb, and the four post-passes must have nothing to do. -/
theorem packed_line (L : List Token) (hP : AllPrintable L) (hk : packLegal L = true)
    (h0 : StartsPlain (printTokens L)) : lex (printLine none L) = (none, sepRec L) :=
  lex_packed_direct L hP hk h0

theorem packed_line_numbered (n : Nat) (hn : n ≤ 65529) (L : List Token) (hP : AllPrintable L)
    (hk : packLegal L = true) : lex (printLine (some n) L) = (some n, sepRec L) :=
  lex_packed_numbered n hn L hP hk

/-- … hence the canonical listing of a line and the same line without any blank mean the same -/
theorem packed_same_meaning (n : Nat) (hn : n ≤ 65529) (ts : List Token) (h : Canon ts)
    (hk : packLegal (sig ts) = true) :
    sig (lex (printLine (some n) (sig ts))).2 = sig (lex (printLine (some n) ts)).2 :=
  (packed_same_numbered n hn ts h hk).2.2

theorem name_printable (c : Char) (h : isUpperAlpha c = true) (hk : NoKeyword [c]) :
    Printable (.ident (.plain [c])) :=
  ⟨⟨[c], [], none⟩, ⟨by intro x hx; simp at hx; subst hx; exact isAlpha_of_isUpperAlpha _ h, by simp,
    by simp, by simp, by simpa [Name.base, upper_of_isUpperAlpha c h] using hk⟩,
    by simp [Name.token, Name.base, upper_of_isUpperAlpha c h], by simp [upper_of_isUpperAlpha c h]⟩

/-- `IF A THEN PRINT B` without its blanks -/
def packedIf : List Token :=
  [.word .if, nameA, .word .then, .word .print, .ident (.plain ['B'])]

example : printTokens packedIf = "IFATHENPRINTB".toList ∧ packLegal packedIf = true := by decide +kernel

example : lex "IFATHENPRINTB".toList = (none, sepRec packedIf) := by
  have := packed_line packedIf (by
    intro t ht _ _
    simp [packedIf] at ht
    rcases ht with rfl | rfl | rfl | rfl | rfl
    · trivial
    · exact nameA_printable
    · trivial
    · trivial
    · exact name_printable 'B' (by decide) (by decide +kernel)) (by decide +kernel) (by decide +kernel)
  rwa [show printLine none packedIf = "IFATHENPRINTB".toList from by decide +kernel] at this

example : sepRec packedIf = [.word .if, .whitespace 1, nameA, .whitespace 1, .word .then, .whitespace 1,
    .word .print, .whitespace 1, .ident (.plain ['B'])] := by decide

/-- `FOR I=1 TO 10` without its blanks: a reserved word may be followed by a name or a number -/
example : packLegal [.word .for, .ident (.plain ['I']), .operator .equal, .literal (.integer ['1']),
    .word .to, .literal (.integer ['1', '0'])] = true := by decide +kernel

/-- legality of a letter run is NOT a property of its adjacent pairs: `S`,`TO` and `TO`,`P` pack,
    `S`,`TO`,`P` packs to `STOP`; two names, or a name and a number, never pack -/
theorem packing_not_pairwise :
    packLegal [.ident (.plain ['S']), .word .to] = true ∧ packLegal [.word .to, .ident (.plain ['P'])] = true ∧
    packLegal [.ident (.plain ['S']), .word .to, .ident (.plain ['P'])] = false ∧
    (lex "STOP".toList).2 = [.word .stop] ∧
    packLegal [nameA, .ident (.plain ['B'])] = false ∧ packLegal [nameA, .literal (.integer ['1'])] = false := by
  decide +kernel

/-- C16 (7), combined: `Step` is one respelling (`?`, `'`, `GO TO`, `GO SUB`, a comparison operator,
    letter case outside strings and remarks, another legal placement of blanks), each with the side
    condition of its theorem; any finite chain of steps, in either direction, leaves the `meaning`
    of the line — line number and significant tokens up to the remark marker — unchanged … -/
theorem respelled_same_meaning {a b : Str} (h : Respelled a b) : meaning a = meaning b := h.meaning_eq

/-- … and the parser, given what it gets to see of either line, returns the same statements (or
    the same error) -/
theorem respelled_parse {a b : Str} (h : Respelled a b) :
    Parse.parse (meaning a).1 (meaning a).2 = Parse.parse (meaning b).1 (meaning b).2 := h.parse_eq

/-- `IF A THEN PRINT B`, as listed -/
def listedIf : List Token :=
  [.word .if, .whitespace 1, nameA, .whitespace 1, .word .then, .whitespace 1, .word .print, .whitespace 1,
    .ident (.plain ['B'])]

/-- one step: the listed line and the packed line -/
example : meaning "IF A THEN PRINT B".toList = meaning "IFATHENPRINTB".toList := by
  have hp : AllPrintable packedIf := by
    intro t ht _ _
    simp [packedIf] at ht
    rcases ht with rfl | rfl | rfl | rfl | rfl
    · trivial
    · exact nameA_printable
    · trivial
    · trivial
    · exact name_printable 'B' (by decide) (by decide +kernel)
  have hl : AllPrintable listedIf := by
    intro t ht h1 h2
    by_cases hb : isBlank t = true
    · simp [listedIf] at ht
      rcases ht with rfl | rfl | rfl | rfl | rfl | rfl | rfl | rfl | rfl <;> first | (show 0 < 1; decide) | (simp [isBlank, nameA] at hb)
    · exact hp t (by
        have : t ∈ sig listedIf := List.mem_filter.2 ⟨ht, by simpa using hb⟩
        rwa [show sig listedIf = packedIf from by decide] at this) h1 h2
  have := Step.meaning_eq (Step.blanksDirect listedIf packedIf hl hp (by decide +kernel) (by decide +kernel)
    (by decide) (by decide +kernel) (by decide +kernel))
  rwa [show printLine none listedIf = "IF A THEN PRINT B".toList from by decide +kernel,
    show printLine none packedIf = "IFATHENPRINTB".toList from by decide +kernel] at this

/-- two steps: `10 IF A THEN ?X` ⟶ `10 IF A THEN PRINT X` ⟵ (case) `10 if a then print x` -/
example : meaning "10 IF A THEN ?X".toList = meaning "10 if a then print x".toList :=
  respelled_same_meaning
    (.fwd (.print "10 IF A THEN ".toList "X".toList " ".toList _
        (thenCtx_body ▸ thenCtx_cut '?' (by decide)) (thenCtx_body ▸ thenCtx_cut 'P' (by decide))
        ⟨by decide, by intro h; exact absurd h (by decide)⟩)
      (.bwd (.case "10 if a then print x".toList "10 IF A THEN PRINT X".toList (by decide +kernel)
        (by decide +kernel)) (.refl _)))

end C16
end Thm
end Basic
