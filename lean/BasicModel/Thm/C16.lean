import BasicModel.Thm.Tables
import BasicModel.Lemmas.LexCaseLine
/-
  C16 — spelling variants of a line mean the same (lexer part).

  * alias tables (`?`/PRINT, `'`/REM, `=<`, `=>`, `><`-free collapse rules, `GO TO`, `GO SUB`) — by `decide`;
  * keyword table facts: every reserved word scans to exactly its own token;
  * case folding, per scanner: `alphabetic` (upper-cases everything it consumes), `radix`
    (`&h`/`&H`, digits), `number` (the consumed exponent letter is folded; for canonical numerals the
    case of the exponent letter does not matter).
  * `lex_case_insensitive`: for every source line, upper-casing the ASCII letters changes nothing
    but the case of remark text and string-literal text (the former finding "a second exponent
    letter is swallowed only in lower case" was repaired in the code; `number_case_insensitive`).
-/
set_option linter.unusedSimpArgs false
namespace Basic
namespace Thm
namespace C16
open Lex

/-! ### alias tables -/

/-- `?` is PRINT and `'` is the remark marker -/
theorem alias_minutia :
    matchMinutia ['?'] = some (.word .print) ∧ matchMinutia ['\''] = some (.word .rem2) := by decide

example : (lex "?".toList).2 = (lex "PRINT".toList).2 := by decide +kernel

/-- `=<` and `=>` (and `<=`, `>=`, `<>`) collapse to the two-character operators -/
theorem alias_doubles :
    collapseDoubles [.operator .equal, .operator .less] = [.operator .lessEqual] ∧
    collapseDoubles [.operator .equal, .operator .greater] = [.operator .greaterEqual] ∧
    collapseDoubles [.operator .less, .operator .equal] = [.operator .lessEqual] ∧
    collapseDoubles [.operator .greater, .operator .equal] = [.operator .greaterEqual] ∧
    collapseDoubles [.operator .less, .operator .greater] = [.operator .notEqual] := by decide

example : lex "A=<B".toList = lex "A<=B".toList := by decide +kernel

/-- the same with one run of blanks in between, and `> <` for `<>` -/
theorem alias_triples (n : Nat) :
    collapseTriples [.operator .less, .whitespace n, .operator .equal] = [.operator .lessEqual] ∧
    collapseTriples [.operator .equal, .whitespace n, .operator .less] = [.operator .lessEqual] ∧
    collapseTriples [.operator .greater, .whitespace n, .operator .equal] = [.operator .greaterEqual] ∧
    collapseTriples [.operator .equal, .whitespace n, .operator .greater] = [.operator .greaterEqual] ∧
    collapseTriples [.operator .less, .whitespace n, .operator .greater] = [.operator .notEqual] ∧
    collapseTriples [.operator .greater, .whitespace n, .operator .less] = [.operator .notEqual] := by
  simp [collapseTriples, tripleLocs, tripleMatch, applyLocs, splice]

example : lex "A < = B".toList = lex "A <= B".toList := by decide +kernel

/-- `GO TO` and `GO SUB` are GOTO and GOSUB; `GO` itself is not a reserved word -/
theorem alias_go (n : Nat) :
    collapseTriples [.ident (.plain "GO".toList), .whitespace n, .word .to] = [.word .goto] ∧
    collapseTriples [.ident (.plain "GO".toList), .whitespace n, .ident (.plain "SUB".toList)] = [.word .gosub] ∧
    NoKeyword "GO".toList ∧ NoKeyword "SUB".toList := by
  refine ⟨?_, ?_, by decide +kernel, by decide +kernel⟩ <;>
    simp [collapseTriples, tripleLocs, tripleMatch, applyLocs, splice]

example : lex "GO TO 10".toList = lex "GOTO 10".toList ∧ lex "go  sub 10".toList = lex "GOSUB 10".toList := by
  decide +kernel

/-! ### keyword table -/

/-- every reserved word scans to exactly its own token (no other reserved word wins inside it) -/
theorem keyword_scans_to_itself :
    ∀ p ∈ keywords, scanAlphabetic [] p.1 = ([p.2], []) := by decide +kernel

example : scanAlphabetic [] "RESTORE".toList = ([.word .restore], []) :=
  keyword_scans_to_itself ("RESTORE".toList, .word .restore) (by decide)

/-- the table spells every token as `Display` prints it -/
theorem keyword_text : ∀ p ∈ keywords, p.2.text = p.1 := by decide +kernel

example : (Token.word .defdbl).text = "DEFDBL".toList := keyword_text ("DEFDBL".toList, _) (by decide)

/-- the table has no duplicate spellings and 49 entries -/
theorem keyword_table_shape : (keywords.map (·.1)).Nodup ∧ keywords.length = 49 := by decide +kernel

example : keywords.length = 49 := keyword_table_shape.2

/-! ### case folding: `alphabetic` -/

/-- C16, `alphabetic`: words and names lex the same in any case -/
theorem alphabetic_case_insensitive (cs : List Char) :
    (alphabetic (cs.map upper)).1 = (alphabetic cs).1 ∧
    (alphabetic (cs.map upper)).2 = (alphabetic cs).2.map upper := by
  simp [alphabetic, alphaLoop_upper]

example : (alphabetic "print x".toList).1 = (alphabetic "PRINT X".toList).1 :=
  (alphabetic_case_insensitive "print x".toList).1.symm.trans (by decide +kernel)

/-- a word in any mixture of cases, followed by a boundary, is the word -/
theorem keyword_any_case (p : Str × Token) (hp : p ∈ keywords) (ls rest : List Char)
    (hl : ls.map upper = p.1) (hb : AlphaBoundary rest) (ha : ∀ c ∈ ls, isAlpha c = true) :
    alphabetic (ls ++ rest) = ([p.2], rest) := by
  have hne : ls ≠ [] := by
    intro h; subst h
    have : p.1 ≠ [] := by
      revert p; decide +kernel
    exact this (by simpa using hl.symm)
  rw [alphabetic, alphaLoop_letters ls ha hne rest hb, List.nil_append, hl, alphaFinish,
    keyword_scans_to_itself p hp]
  simp

example : alphabetic "Goto 10".toList = ([.word .goto], " 10".toList) :=
  keyword_any_case ("GOTO".toList, .word .goto) (by decide) "Goto".toList " 10".toList (by decide)
    (by intro c hc; simp at hc; subst hc; decide) (by decide)

/-! ### case folding: `radix` -/

/-- C16, `radix`: `&h`/`&H` and the digits `a`–`f` may be written in either case -/
theorem radix_case_insensitive (cs : List Char) :
    (radix (cs.map upper)).1 = (radix cs).1 ∧ (radix (cs.map upper)).2 = (radix cs).2.map upper :=
  radix_upper_pair cs

example : (radix "&hff+1".toList).1 = .literal (.hex "FF".toList) := by decide +kernel

/-! ### case folding: `number` -/

/-- the character `number()` consumes is folded (`e`→`E`, `d`→`D`) before anything looks at it -/
theorem numberLoop_consumed_folded (c : Char) (rest : List Char) (s : Str) (dg : Nat) (dec ex : Bool) :
    numberLoop (c :: rest) s dg dec ex = numberLoop (foldED c :: rest) s dg dec ex := by
  rw [numberLoop_cons, numberLoop_cons, foldED_foldED]

example : number "1e5".toList = number "1E5".toList := by decide +kernel

/-- before an exponent has been seen, the peeked exponent letter is accepted in either case -/
theorem numCont_exponent_case (dec : Bool) (c : Char) :
    numCont false dec c = numCont false dec (foldED c) := by
  unfold foldED
  by_cases h1 : c = 'e'
  · subst h1; simp [numCont]
  · by_cases h2 : c = 'd'
    · subst h2; simp [numCont]
    · simp [h1, h2]

example : numCont false false 'd' = true ∧ numCont false false 'D' = true := by decide

/-- C16, `number`: in a canonical numeral (mantissa, exponent letter, optional sign, digits) the
    case of the exponent letter does not matter -/
theorem number_exponent_case (e : Char) (he : e = 'E' ∨ e = 'D' ∨ e = 'e' ∨ e = 'd')
    (sign : List Char) (hsign : sign = [] ∨ sign = ['+'] ∨ sign = ['-'])
    (ds : List Char) (hds : ∀ c ∈ ds, isDigit c = true) (hne : ds ≠ [])
    (rest : List Char) (s : Str) (dg : Nat) (dec : Bool) :
    numberAfter (e :: (sign ++ (ds ++ rest))) s dg dec false =
      numberAfter (foldED e :: (sign ++ (ds ++ rest))) s dg dec false := by
  have he' : foldED e = 'E' ∨ foldED e = 'D' ∨ foldED e = 'e' ∨ foldED e = 'd' := by
    rcases he with h | h | h | h <;> subst h <;> simp [foldED]
  rw [numberAfter_exponent e he sign hsign ds hds hne, numberAfter_exponent _ he' sign hsign ds hds hne,
    foldED_foldED]

example : number "1.5d+3".toList = number "1.5D+3".toList := by decide +kernel

/-- C16, `number`: the scanner is blind to the case of its input everywhere (since the repair of
    the peek test `!exp && (pk == 'E' || pk == 'e' || pk == 'D' || pk == 'd')`): same token, same
    remainder up to case -/
theorem number_case_insensitive (c : Char) (cs : List Char) (h : (isDigit c || c = '.') = true) :
    number ((c :: cs).map upper) = ((number (c :: cs)).1, (number (c :: cs)).2.map upper) :=
  number_upper c cs h

example : number "1e0ex".toList = (.literal (.single "1E0".toList), "ex".toList) ∧
    number "1E0EX".toList = (.literal (.single "1E0".toList), "EX".toList) := by decide +kernel

/-- the former finding (a second exponent letter was swallowed only in lower case) is gone: both
    spellings are a literal followed by a name -/
theorem second_exponent_letter_either_case :
    (lex "?1E0e".toList).2 = (lex "?1E0E".toList).2 := by decide +kernel

example : (lex "?1E0e".toList).2 =
    [.word .print, .whitespace 1, .literal (.single "1E0".toList), .whitespace 1, .ident (.plain ['E'])] := by
  decide +kernel

/-! ### case folding: whole lines -/

/-- C16 for ALL lines: upper-casing every ASCII letter of a source line changes neither the line
    number nor the tokens, except for the case of the text the lexer copies verbatim (remark text
    and string literals; `foldTok` upper-cases exactly those payloads) -/
theorem lex_case_insensitive (s : Str) :
    (lex (s.map upper)).1 = (lex s).1 ∧ (lex (s.map upper)).2.map foldTok = (lex s).2.map foldTok :=
  lex_upper s

example : lex "10 for i=1e3 to &hff step x1:go to 20".toList =
    lex ("10 for i=1e3 to &hff step x1:go to 20".toList.map upper) := by decide +kernel

/-- corollary: a line without string literals and remark text lexes to literally the same tokens -/
theorem lex_case_insensitive_plain (s : Str) (h : ∀ t ∈ (lex s).2, isPayload t = false)
    (h' : ∀ t ∈ (lex (s.map upper)).2, isPayload t = false) :
    lex (s.map upper) = lex s := by
  obtain ⟨h1, h2⟩ := lex_case_insensitive s
  have e : ∀ l : List Token, (∀ t ∈ l, isPayload t = false) → l.map foldTok = l := by
    intro l hl
    induction l with
    | nil => rfl
    | cons t l ih =>
      simp [foldTok_of_not_payload t (hl t (by simp)), ih (fun x hx => hl x (by simp [hx]))]
  rw [e _ h, e _ h'] at h2
  exact Prod.ext h1 h2

example : lex "if a<=b then 100 else 200".toList = lex "IF A<=B THEN 100 ELSE 200".toList :=
  (lex_case_insensitive_plain "if a<=b then 100 else 200".toList (by decide +kernel) (by decide +kernel)).symm

/-- the model's reserved-word table, minutia table and keyword spellings are the ones re-extracted from
    `token.rs` on this run (`Gen/Keywords.lean`): an edit of a table in the Rust source breaks this obligation -/
theorem tables_generated :
    Lex.keywords = Gen.keywords ∧ (∀ p ∈ Gen.minutia, Lex.matchMinutia p.1 = some p.2) ∧
    (∀ p ∈ Gen.wordText, Word.text p.1 = p.2.toList) ∧ (∀ p ∈ Gen.operatorText, Operator.text p.1 = p.2.toList) :=
  ⟨Thm.Tables.keywords_generated, Thm.Tables.minutia_generated, Thm.Tables.word_text_generated,
   Thm.Tables.operator_text_generated⟩

end C16
end Thm
end Basic
