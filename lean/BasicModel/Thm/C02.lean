import BasicModel.Thm.Tables
import BasicModel.Spec.PrecSpec
import BasicModel.Lemmas.ParseExpr
import BasicModel.Lemmas.ParseFuel
import BasicModel.Gen.Builtins
import BasicModel.Model.Runtime
import BasicModel.Lemmas.VmDispatch
import BasicModel.Lemmas.OpsTypes
import BasicModel.Lemmas.LiteralTy
import BasicModel.Lemmas.LiteralValue
import BasicModel.Lemmas.NumFunc
import BasicModel.Lemmas.NumFuncAssign
/-
  C02 — expressions evaluate per documented precedence, promotion and result types.

  (a) The precedence tables GENERATED from `parse.rs` are the manual's 13-level table
      (`Spec.documentedPrec`, written by hand), the generated AST-node → opcode table and the VM's
      dispatch compose to the documented meaning of every operator, and the parser gives back every
      tree of unary minus / NOT / the 18 binary operators over Integer literals from its rendering
      with exactly the parentheses the documented table requires (`parse_render`) or any superset
      of them (`parse_renders`); left associativity and the two-operator precedence law for all
      18 × 18 pairs are corollaries.  Architecture of DESIGN Appendix A (invariant `G`, operands
      via `C_of_G`); "succeeds" is taken as "for all sufficiently large fuel", which composes by
      maxima, and monotonicity in the fuel is proved separately (`descend_mono`).
  (b) Result types: Integer → Single → Double promotion, the `/` quirk, `\` MOD and the logical
      operators on 16-bit Integers, relational operators exactly 0 or −1; a string with a number is
      TYPE MISMATCH.  Floats are opaque bit patterns here: the theorems are about constructors.
  (c) Literal typing: the manual's rule over the SPELLING of a constant (`Spec.literalTy`), the rule as
      built (`Spec.literalTyAsBuilt`), their agreement outside one class of spellings (`Spec.LongE`, a
      finding), every well-formed numeral lexed to one token and parsed to a node of that type, with
      its value (Integers and radix constants exactly; floats as `Fmt.roundDecimal` of the digits).
      The documented one-argument functions: result type per argument type over the whole table,
      exact Integer values, TYPE MISMATCH for an argument of the wrong kind.  Assignment: `LET v = e`
      compiled and run stores `Spec.assignConv` of the value — a value of the TARGET's type — or stops
      in OVERFLOW / TYPE MISMATCH / STRING TOO LONG with the variables unchanged.
-/
namespace Basic
namespace Thm.C02
open Parse Spec
open Lemmas.ParseExpr (Good view Plain)
open Lemmas.VmDispatch (vmBinary vmUnary)
open Lemmas.OpsTypes

/-! ## (a) tables -/

/-- the generated binary precedence table is the manual's -/
theorem prec_table_documented : ∀ op, Gen.binaryPrec op = Spec.documentedPrec op :=
  Lemmas.ParseExpr.binaryPrec_documented

/-- the generated unary precedence table is the manual's (unary ± 12, NOT 6) -/
theorem unary_prec_table_documented : ∀ op, Gen.unaryPrec op = Spec.documentedUnaryPrec op :=
  Lemmas.ParseExpr.unaryPrec_documented

/-- every operator token except NOT is a binary operator, and `operatorOf` is its inverse -/
theorem ofOperator_operatorOf (b : BinOp) : BinOp.ofOperator (Spec.operatorOf b) = some b :=
  Lemmas.ParseExpr.ofOperator_operatorOf b

theorem ofOperator_eq_none_iff (op : Operator) : BinOp.ofOperator op = none ↔ op = .not := by
  cases op <;> simp [BinOp.ofOperator]

/-- exactly the operator tokens of binary precedence 0 are not binary operators -/
theorem binary_prec_zero_iff (op : Operator) : Gen.binaryPrec op = 0 ↔ BinOp.ofOperator op = none := by
  cases op <;> simp [Gen.binaryPrec, BinOp.ofOperator]

/-! ## (a) operator chain: token → AST node → opcode → `Ops.*` -/

/-- for every binary operator token, the opcode generated for its AST node is one whose dispatch in
    `Runtime.step` (`vmBinary`, proved to be what `step` does in `step_dispatch_binary`) applies the
    documented function -/
theorem operator_chain_documented : ∀ op b, BinOp.ofOperator op = some b →
    vmBinary (Gen.opcodeOfBinOp b) = some (Spec.meaningOf b) := by
  intro op b _; cases b <;> rfl

/-- the token → node step is the documented spelling: `^`↦power, `*`↦multiply, … -/
theorem ofOperator_documented : ∀ op b, BinOp.ofOperator op = some b ↔ Spec.operatorOf b = op := by
  intro op b; cases op <;> cases b <;> simp [BinOp.ofOperator, Spec.operatorOf]

theorem unary_chain_documented :
    vmUnary Gen.opcodeOfNegation = some Ops.negate ∧ vmUnary Gen.opcodeOfNot = some Ops.not :=
  ⟨rfl, rfl⟩

/-- `Runtime.step` on any of the 18 binary operator opcodes is `pop2Push` of the `vmBinary` entry -/
theorem step_dispatch_binary (env : Env) (hie : Bool) (s : Runtime) (oc : Opcode)
    (f : Val → Val → Res Val) (htr : s.tron = false)
    (hop : s.program.link.ops[s.pc]? = some oc) (hf : vmBinary oc = some f) :
    (Runtime.step env hie).run.run s =
      ((do Runtime.pop2Push f; pure Runtime.Step.continue : Runtime.RM Runtime.Step).run.run
        { s with pc := s.pc + 1 }) :=
  Lemmas.VmDispatch.step_binary env hie s oc f htr hop hf

/-- end to end: executing the opcode compiled for `a op b` with `a`, `b` on the stack (`b` on top)
    leaves the documented value `meaningOf op a b`, or raises its error -/
theorem step_binop_documented (env : Env) (hie : Bool) (s : Runtime) (b : BinOp)
    (st : Array Val) (x y : Val) (htr : s.tron = false)
    (hop : s.program.link.ops[s.pc]? = some (Gen.opcodeOfBinOp b))
    (hst : s.stack = (st.push x).push y) (hroom : st.size + 1 ≤ Gen.stackMaxLen) :
    (Runtime.step env hie).run.run s =
      match Spec.meaningOf b x y with
      | .ok v => (.ok .continue, { s with pc := s.pc + 1, stack := st.push v })
      | .error e => (.error e, { s with pc := s.pc + 1, stack := st }) :=
  Lemmas.VmDispatch.step_binary_stack env hie s _ _ st x y htr hop
    (operator_chain_documented _ b (ofOperator_operatorOf b)) hst hroom

/-- the same for unary minus and NOT -/
theorem step_negation_documented (env : Env) (hie : Bool) (s : Runtime)
    (st : Array Val) (x : Val) (htr : s.tron = false)
    (hop : s.program.link.ops[s.pc]? = some Gen.opcodeOfNegation)
    (hst : s.stack = st.push x) (hroom : st.size + 1 ≤ Gen.stackMaxLen) :
    (Runtime.step env hie).run.run s =
      match Ops.negate x with
      | .ok v => (.ok .continue, { s with pc := s.pc + 1, stack := st.push v })
      | .error e => (.error e, { s with pc := s.pc + 1, stack := st }) :=
  Lemmas.VmDispatch.step_unary_stack env hie s _ _ st x htr hop rfl hst hroom

theorem step_not_documented (env : Env) (hie : Bool) (s : Runtime)
    (st : Array Val) (x : Val) (htr : s.tron = false)
    (hop : s.program.link.ops[s.pc]? = some Gen.opcodeOfNot)
    (hst : s.stack = st.push x) (hroom : st.size + 1 ≤ Gen.stackMaxLen) :
    (Runtime.step env hie).run.run s =
      match Ops.not x with
      | .ok v => (.ok .continue, { s with pc := s.pc + 1, stack := st.push v })
      | .error e => (.error e, { s with pc := s.pc + 1, stack := st }) :=
  Lemmas.VmDispatch.step_unary_stack env hie s _ _ st x htr hop rfl hst hroom

/-! ## (a) parsing -/

/-- the text `lit n` of an Integer literal reads back as `n` -/
abbrev LitOk (lit : Int16 → Str) (n : Int16) : Prop := Fmt.parseI16 (numText (lit n)) = some n

theorem render_plain (lit : Int16 → Str) (e : Expr) : ∀ t ∈ render lit e, Plain t := by
  have hp : ∀ (l : List Token), (∀ t ∈ l, Plain t) →
      ∀ b : Bool, ∀ t ∈ (if b then Token.lparen :: l ++ [Token.rparen] else l), Plain t := by
    intro l hl b t ht
    cases b with
    | false => exact hl t (by simpa using ht)
    | true =>
      simp only [if_true, List.mem_cons, List.mem_append, List.not_mem_nil, or_false] at ht
      rcases ht with (rfl | ht) | rfl
      · exact ⟨fun _ h => (nomatch h), rfl⟩
      · exact hl t ht
      · exact ⟨fun _ h => (nomatch h), rfl⟩
  have hop : ∀ o : Operator, Plain (.operator o) := fun o => ⟨fun _ h => (nomatch h), rfl⟩
  -- recursion on the tree through the size of the term
  suffices h : ∀ n (e : Expr), sizeOf e ≤ n → ∀ t ∈ render lit e, Plain t from h _ e (Nat.le_refl _)
  intro n
  induction n with
  | zero => intro e he; cases e <;> simp at he <;> omega
  | succ n ih =>
    intro e he t ht
    cases e with
    | integer c k =>
      simp only [render, List.mem_cons, List.not_mem_nil, or_false] at ht
      subst ht; exact ⟨fun _ h => (nomatch h), rfl⟩
    | neg c x =>
      simp only [render, List.mem_cons] at ht
      rcases ht with rfl | ht
      · exact hop _
      · exact hp _ (ih x (by simp at he; omega)) _ t ht
    | not c x =>
      simp only [render, List.mem_cons] at ht
      rcases ht with rfl | ht
      · exact hop _
      · exact hp _ (ih x (by simp at he; omega)) _ t ht
    | bin op c l r =>
      simp only [render, List.mem_append, List.mem_cons] at ht
      rcases ht with ht | rfl | ht
      · exact hp _ (ih l (by simp at he; omega)) _ t ht
      · exact hop _
      · exact hp _ (ih r (by simp at he; omega)) _ t ht
    | var v => simp [render] at ht
    | single c b => simp [render] at ht
    | double c b => simp [render] at ht
    | string c s => simp [render] at ht

/-- **parse ∘ render = id** (up to columns), general form: from any parser state whose pending
    tokens are the rendering of `e` followed by `t'`, where `t'` does not begin with a binary
    operator, `descend` at precedence 0 returns — for every sufficiently large fuel — a tree of the
    shape of `e` and leaves exactly `t'` pending. -/
theorem parse_render_then (vm : VarMap) (lit : Int16 → Str) (e : Expr) (hf : Frag (LitOk lit) e)
    (st : PState) (t' : List Token) (hg : Good st) (hv : view st = render lit e ++ t')
    (ht : Lemmas.ParseExpr.stops 0 t') :
    ∃ N e' st', (∀ fuel, N ≤ fuel → (descend fuel vm 0).run st = .ok (e', st')) ∧
      e'.shape = e.shape ∧ Good st' ∧ view st' = t' := by
  obtain ⟨e', st1, hsh, hg1, hv1, hD⟩ :=
    Lemmas.ParseExpr.G_all vm lit hf 0 st t' hg hv (Lemmas.ParseExpr.plevel_pos e)
      (Lemmas.ParseExpr.stops_mono ht (Nat.zero_le _))
  obtain ⟨st2, hg2, hv2, hL⟩ := Lemmas.ParseExpr.loops_stop (vm := vm) (p := 0) (lhs := e') hg1
    (by rw [hv1]; exact ht)
  obtain ⟨N, hN⟩ := hD _ hL
  exact ⟨N, e', st2, hN, hsh, hg2, hv2.trans hv1⟩

/-- **parse ∘ render = id** (up to columns): for every tree `e` of the fragment there is fuel such
    that `descend fuel [] 0` run on the rendered tokens returns a tree of the same shape and
    consumes all tokens. -/
theorem parse_render (lit : Int16 → Str) (e : Expr) (hf : Frag (LitOk lit) e) :
    ∃ fuel e' st', (descend fuel [] 0).run { toks := render lit e } = .ok (e', st') ∧
      e'.shape = e.shape ∧ st'.toks = [] ∧ st'.peeked = none := by
  have hg : Good { toks := render lit e } := ⟨rfl, render_plain lit e⟩
  obtain ⟨N, e', st', hN, hsh, _, hv⟩ :=
    parse_render_then [] lit e hf { toks := render lit e } [] hg (by simp [view]) trivial
  refine ⟨N, e', st', hN N (Nat.le_refl _), hsh, ?_⟩
  unfold view at hv
  cases hpk : st'.peeked with
  | some t => rw [hpk] at hv; cases hv
  | none => rw [hpk] at hv; exact ⟨hv, rfl⟩

/-- …and every larger amount of fuel gives the same result -/
theorem parse_render_fuel (lit : Int16 → Str) (e : Expr) (hf : Frag (LitOk lit) e) :
    ∃ N e' st', (∀ fuel, N ≤ fuel →
        (descend fuel [] 0).run { toks := render lit e } = .ok (e', st')) ∧
      e'.shape = e.shape ∧ st'.toks = [] ∧ st'.peeked = none := by
  have hg : Good { toks := render lit e } := ⟨rfl, render_plain lit e⟩
  obtain ⟨N, e', st', hN, hsh, _, hv⟩ :=
    parse_render_then [] lit e hf { toks := render lit e } [] hg (by simp [view]) trivial
  refine ⟨N, e', st', hN, hsh, ?_⟩
  unfold view at hv
  cases hpk : st'.peeked with
  | some t => rw [hpk] at hv; cases hv
  | none => rw [hpk] at hv; exact ⟨hv, rfl⟩

/-! ### fuel -/

/-- success of `descend` is monotone in the fuel: more fuel, same result -/
theorem descend_mono {f f' : Nat} (h : f ≤ f') (vm : VarMap) (p : Nat) (st : PState)
    (r : Expr × PState) (hr : (descend f vm p).run st = .ok r) : (descend f' vm p).run st = .ok r :=
  (Lemmas.ParseFuel.mono_le h).1 vm p st r hr

theorem binLoop_mono {f f' : Nat} (h : f ≤ f') (vm : VarMap) (p : Nat) (lhs : Expr) (st : PState)
    (r : Expr × PState) (hr : (binLoop f vm p lhs).run st = .ok r) :
    (binLoop f' vm p lhs).run st = .ok r :=
  (Lemmas.ParseFuel.mono_le h).2.1 vm p lhs st r hr

theorem exprList_mono {f f' : Nat} (h : f ≤ f') (vm : VarMap) (st : PState)
    (r : List Expr × PState) (hr : (exprList f vm).run st = .ok r) :
    (exprList f' vm).run st = .ok r :=
  (Lemmas.ParseFuel.mono_le h).2.2 vm st r hr

/-- hence the result of a successful expression parse does not depend on the fuel -/
theorem descend_fuel_irrelevant (f f' : Nat) (vm : VarMap) (p : Nat) (st : PState)
    (r r' : Expr × PState) (hr : (descend f vm p).run st = .ok r)
    (hr' : (descend f' vm p).run st = .ok r') : r = r' := by
  have h1 := descend_mono (Nat.le_max_left f f') vm p st r hr
  have h2 := descend_mono (Nat.le_max_right f f') vm p st r' hr'
  rw [h1] at h2
  exact Except.ok.inj h2

/-! ### any legal parenthesisation -/

theorem renders_plain {lit : Int16 → Str} {ok : Int16 → Prop} {e : Expr} {ts : List Token}
    {lv plv : Nat} (h : Renders lit ok e ts lv plv) : ∀ t ∈ ts, Plain t := by
  have hop : ∀ o : Operator, Plain (.operator o) := fun o => ⟨fun _ h => (nomatch h), rfl⟩
  induction h with
  | int c n _ =>
    intro t ht
    simp only [List.mem_cons, List.not_mem_nil, or_false] at ht
    subst ht; exact ⟨fun _ h => (nomatch h), rfl⟩
  | paren _ ih =>
    intro t ht
    simp only [List.mem_cons, List.mem_append, List.not_mem_nil, or_false] at ht
    rcases ht with (rfl | ht) | rfl
    · exact ⟨fun _ h => (nomatch h), rfl⟩
    · exact ih t ht
    · exact ⟨fun _ h => (nomatch h), rfl⟩
  | neg c _ _ ih =>
    intro t ht
    rcases List.mem_cons.1 ht with rfl | ht
    · exact hop _
    · exact ih t ht
  | not c _ _ ih =>
    intro t ht
    rcases List.mem_cons.1 ht with rfl | ht
    · exact hop _
    · exact ih t ht
  | bin op c _ _ _ _ ihl ihr =>
    intro t ht
    simp only [List.mem_append, List.mem_cons] at ht
    rcases ht with ht | rfl | ht
    · exact ihl t ht
    · exact hop _
    · exact ihr t ht

/-- the minimal rendering `Spec.render` is one of the legal listings -/
theorem render_is_legal (lit : Int16 → Str) (ok : Int16 → Prop) (e : Expr) (hf : Frag ok e) :
    Renders lit ok e (render lit e) (level e) (plevel e) :=
  Lemmas.ParseExpr.render_renders lit hf

/-- **parse ∘ (any legal listing) = id** (up to columns): with the parentheses the documented table
    requires *or any superset of them* (`Spec.Renders`), `descend` returns a tree of the same shape
    and consumes all tokens — for every sufficiently large fuel. -/
theorem parse_renders (lit : Int16 → Str) (e : Expr) (ts : List Token) (lv plv : Nat)
    (hr : Renders lit (LitOk lit) e ts lv plv) :
    ∃ N e' st', (∀ fuel, N ≤ fuel → (descend fuel [] 0).run { toks := ts } = .ok (e', st')) ∧
      e'.shape = e.shape ∧ st'.toks = [] ∧ st'.peeked = none := by
  have hg : Good { toks := ts } := ⟨rfl, renders_plain hr⟩
  obtain ⟨e', st1, hsh, hg1, hv1, hD⟩ :=
    Lemmas.ParseExpr.G_renders [] lit hr 0 { toks := ts } [] hg (by simp [view])
      (Lemmas.ParseExpr.renders_levels hr).2 trivial
  obtain ⟨st2, hg2, hv2, hL⟩ := Lemmas.ParseExpr.loops_stop (vm := []) (p := 0) (lhs := e') hg1
    (by rw [hv1]; trivial)
  obtain ⟨N, hN⟩ := hD _ hL
  refine ⟨N, e', st2, hN, hsh, ?_⟩
  have hv : view st2 = [] := hv2.trans hv1
  unfold view at hv
  cases hpk : st2.peeked with
  | some t => rw [hpk] at hv; cases hv
  | none => rw [hpk] at hv; exact ⟨hv, rfl⟩

/-! ### corollaries: associativity and the two-operator law, for all 18 × 18 pairs -/

section corollaries
variable (lit : Int16 → Str)

/-- an Integer literal leaf -/
def L (n : Int16) : Expr := .integer (0, 0) n
/-- its token -/
def T (lit : Int16 → Str) (n : Int16) : Token := .literal (.integer (lit n))

/-- `a op1 b op2 c` with `op2` binding tighter than `op1` is `a op1 (b op2 c)`; otherwise (same
    level: left associativity; lower level) it is `(a op1 b) op2 c` -/
theorem two_operator_law (op1 op2 : BinOp) (a b c : Int16)
    (ha : LitOk lit a) (hb : LitOk lit b) (hc : LitOk lit c) :
    ∃ fuel e' st',
      (descend fuel [] 0).run { toks := [T lit a, .operator (operatorOf op1), T lit b,
                                          .operator (operatorOf op2), T lit c] } = .ok (e', st') ∧
      e'.shape = (if precOf op1 < precOf op2
                  then Expr.bin op1 (0, 0) (L a) (.bin op2 (0, 0) (L b) (L c))
                  else Expr.bin op2 (0, 0) (.bin op1 (0, 0) (L a) (L b)) (L c)) ∧
      st'.toks = [] ∧ st'.peeked = none := by
  by_cases h : precOf op1 < precOf op2
  · have hf : Frag (LitOk lit) (.bin op1 (0, 0) (L a) (.bin op2 (0, 0) (L b) (L c))) :=
      .bin _ _ _ _ (.int _ _ ha) (.bin _ _ _ _ (.int _ _ hb) (.int _ _ hc))
    obtain ⟨fuel, e', st', h1, h2, h3⟩ := parse_render lit _ hf
    refine ⟨fuel, e', st', ?_, ?_, h3⟩
    · rw [← h1]
      have : ¬ precOf op2 ≤ precOf op1 := by omega
      have h100 : ∀ o, ¬ 100 < precOf o ∧ ¬ 100 ≤ precOf o := by intro o; cases o <;> decide
      simp [render, needsParens, level, L, T, this, h100]
    · rw [h2, if_pos h]; rfl
  · have hf : Frag (LitOk lit) (.bin op2 (0, 0) (.bin op1 (0, 0) (L a) (L b)) (L c)) :=
      .bin _ _ _ _ (.bin _ _ _ _ (.int _ _ ha) (.int _ _ hb)) (.int _ _ hc)
    obtain ⟨fuel, e', st', h1, h2, h3⟩ := parse_render lit _ hf
    refine ⟨fuel, e', st', ?_, ?_, h3⟩
    · rw [← h1]
      have h100 : ∀ o, ¬ 100 < precOf o ∧ ¬ 100 ≤ precOf o := by intro o; cases o <;> decide
      simp [render, needsParens, level, L, T, h, h100]
    · rw [h2, if_neg h]; rfl

/-- binary operators of the same level associate to the left: `a op1 b op2 c = (a op1 b) op2 c` -/
theorem left_associative (op1 op2 : BinOp) (hlev : precOf op1 = precOf op2) (a b c : Int16)
    (ha : LitOk lit a) (hb : LitOk lit b) (hc : LitOk lit c) :
    ∃ fuel e' st',
      (descend fuel [] 0).run { toks := [T lit a, .operator (operatorOf op1), T lit b,
                                          .operator (operatorOf op2), T lit c] } = .ok (e', st') ∧
      e'.shape = Expr.bin op2 (0, 0) (.bin op1 (0, 0) (L a) (L b)) (L c) := by
  obtain ⟨fuel, e', st', h1, h2, _⟩ := two_operator_law lit op1 op2 a b c ha hb hc
  exact ⟨fuel, e', st', h1, by rw [h2, if_neg (by omega)]⟩

end corollaries

/-! ## (b) result types, 0 / −1, bitwise logic, TYPE MISMATCH -/

/-- relational operators return exactly 0 or −1 — for all operands, strings included -/
theorem relational_zero_or_minus_one (op : BinOp) (hop : classOf op = .relational) (a b v : Val)
    (h : meaningOf op a b = .ok v) : v = .int 0 ∨ v = .int (-1) := by
  cases op <;> simp [classOf] at hop
  · exact rel_cases (g := id) h
  · exact rel_cases (g := (!·)) h
  · exact rel_cases (g := id) h
  · exact rel_cases (g := id) h
  · exact rel_cases (g := id) h
  · exact rel_cases (g := id) h

/-- `\\`, MOD, AND, OR, XOR, IMP, EQV always return an Integer (any operands) -/
theorem integer_class_int (op : BinOp) (hop : classOf op = .integer) (a b v : Val)
    (h : meaningOf op a b = .ok v) : ∃ n, v = .int n := by
  cases op <;> simp [classOf] at hop
  · exact divint_int h
  · exact remainder_int h
  all_goals exact logic2_int h

/-- is the exponent a non-negative Integer (or not an Integer at all)? -/
def expNonneg : Val → Bool
  | .int r => decide (0 ≤ r.toInt)
  | _ => true

/-- **result types**: for every binary operator and every pair of numeric operands, a successful
    result has the documented type `Spec.resultTy` -/
theorem binop_result_type (op : BinOp) (a b v : Val) (ha : a.isNumeric) (hb : b.isNumeric)
    (h : meaningOf op a b = .ok v) : v.ty = resultTy op a.ty b.ty (expNonneg b) := by
  cases hc : classOf op with
  | relational =>
    rcases relational_zero_or_minus_one op hc a b v h with rfl | rfl <;> simp [resultTy, hc, Val.ty]
  | integer =>
    obtain ⟨n, rfl⟩ := integer_class_int op hc a b v h
    simp [resultTy, hc, Val.ty]
  | arith =>
    simp only [resultTy, hc]
    cases op <;> simp [classOf] at hc
    · exact arith_ty (fun _ _ _ => ofChecked_ty) h ha hb
    · -- sum
      cases a <;> simp [Val.isNumeric] at ha <;>
        exact arith_ty (fun _ _ _ => ofChecked_ty) (by simpa [meaningOf, Ops.sum] using h) rfl hb
    · exact arith_ty (fun _ _ _ => ofChecked_ty) h ha hb
  | divide =>
    simp only [resultTy, hc]
    cases op <;> simp [classOf] at hc
    cases a <;> cases b <;> simp [Val.isNumeric] at ha hb <;>
      simp only [meaningOf, Ops.divide, Ops.arith, Except.ok.injEq] at h <;> subst h <;> rfl
  | power =>
    simp only [resultTy, hc]
    cases op <;> simp [classOf] at hc
    cases a <;> cases b <;> simp [Val.isNumeric] at ha hb <;>
      simp only [meaningOf, Ops.power, Except.ok.injEq] at h
    case int.int l r =>
      by_cases hr : 0 ≤ r.toInt
      · simp only [ge_iff_le, hr, if_true] at h
        generalize RStd.checkedPow l r.toInt.toNat = o at h
        cases o <;> simp [err] at h
        subst h; simp [expNonneg, hr, Val.ty]
      · simp only [ge_iff_le, hr, if_false, Except.ok.injEq] at h
        subst h; simp [expNonneg, hr, Val.ty]
    all_goals (subst h; rfl)


/-! ### the documented instances, spelled out -/

/-- Integer op Integer is an Integer for `+ - * \\ MOD` -/
theorem int_int_integer (op : BinOp)
    (hop : op = .add ∨ op = .subtract ∨ op = .multiply ∨ op = .divideInt ∨ op = .modulo)
    (a b : Int16) (v : Val) (h : meaningOf op (.int a) (.int b) = .ok v) : v.ty = .int := by
  have := binop_result_type op (.int a) (.int b) v rfl rfl h
  rcases hop with rfl | rfl | rfl | rfl | rfl <;> exact this

/-- Integer ^ non-negative Integer is an Integer; with a negative exponent it is a Single -/
theorem int_pow_int (a b : Int16) (v : Val) (h : Ops.power (.int a) (.int b) = .ok v) :
    v.ty = if 0 ≤ b.toInt then .int else .sng := by
  have := binop_result_type .power (.int a) (.int b) v rfl rfl h
  by_cases hb : 0 ≤ b.toInt <;> simpa [resultTy, classOf, expNonneg, Val.ty, hb] using this

/-- `/` on two Integers is carried out in Single -/
theorem int_div_int_single (a b : Int16) : ∃ x, Ops.divide (.int a) (.int b) = .ok (.sng x) :=
  ⟨_, rfl⟩

/-- anything with a Double is a Double, for `+ - * / ^` -/
theorem double_absorbs (op : BinOp) (hop : classOf op = .arith ∨ classOf op = .divide ∨ classOf op = .power)
    (a b v : Val) (ha : a.isNumeric) (hb : b.isNumeric) (hd : a.ty = .dbl ∨ b.ty = .dbl)
    (h : meaningOf op a b = .ok v) : v.ty = .dbl := by
  have := binop_result_type op a b v ha hb h
  rw [this]
  cases a <;> cases b <;> simp [Val.isNumeric, Val.ty] at ha hb hd <;>
    rcases hop with hc | hc | hc <;> simp [resultTy, hc, promote, Val.ty]

/-- a Single with an Integer or a Single is a Single, for `+ - * / ^` -/
theorem single_with_int_or_single (op : BinOp)
    (hop : classOf op = .arith ∨ classOf op = .divide ∨ classOf op = .power)
    (a b v : Val) (ha : a.ty = .sng ∨ a.ty = .int) (hb : b.ty = .sng ∨ b.ty = .int)
    (hs : a.ty = .sng ∨ b.ty = .sng) (h : meaningOf op a b = .ok v) : v.ty = .sng := by
  have han : a.isNumeric := by cases a <;> simp [Val.ty] at ha <;> rfl
  have hbn : b.isNumeric := by cases b <;> simp [Val.ty] at hb <;> rfl
  have := binop_result_type op a b v han hbn h
  rw [this]
  cases a <;> cases b <;> simp [Val.ty] at ha hb hs <;>
    rcases hop with hc | hc | hc <;> simp [resultTy, hc, promote, Val.ty]

/-- NOT always returns an Integer; unary minus keeps the type of its operand -/
theorem not_result_integer (a v : Val) (h : Ops.not a = .ok v) : v.ty = .int := by
  obtain ⟨n, rfl⟩ := not_int h; rfl

theorem negate_keeps_type (a v : Val) (h : Ops.negate a = .ok v) : v.ty = a.ty := by
  cases a <;> simp only [Ops.negate, err, Except.ok.injEq, reduceCtorEq] at h
  · subst h; rfl
  · subst h; rfl
  · rename_i n
    cases hc : RStd.checkedNeg n <;> simp [hc] at h
    subst h; rfl

/-! ### logical operators are the 16-bit bitwise operations -/

theorem and_int (a b : Int16) : Ops.and (.int a) (.int b) = .ok (.int (a &&& b)) := rfl
theorem or_int (a b : Int16) : Ops.or (.int a) (.int b) = .ok (.int (a ||| b)) := rfl
theorem xor_int (a b : Int16) : Ops.xor (.int a) (.int b) = .ok (.int (a ^^^ b)) := rfl
theorem imp_int (a b : Int16) : Ops.imp (.int a) (.int b) = .ok (.int (~~~a ||| b)) := rfl
theorem eqv_int (a b : Int16) : Ops.eqv (.int a) (.int b) = .ok (.int (~~~(a ^^^ b))) := rfl
theorem not_int_bits (a : Int16) : Ops.not (.int a) = .ok (.int (~~~a)) := rfl
theorem not_eq_neg_sub_one (a : Int16) : Ops.not (.int a) = .ok (.int (-a - 1)) := by
  rw [← Int16.not_eq_neg_sub]; rfl

/-- `logical_bitwise`: on Integers, AND OR XOR IMP EQV NOT are `&&& ||| ^^^ (~~~·|||·) ~~~(·^^^·) ~~~` -/
theorem logical_bitwise (a b : Int16) :
    Ops.and (.int a) (.int b) = .ok (.int (a &&& b)) ∧
    Ops.or (.int a) (.int b) = .ok (.int (a ||| b)) ∧
    Ops.xor (.int a) (.int b) = .ok (.int (a ^^^ b)) ∧
    Ops.imp (.int a) (.int b) = .ok (.int (~~~a ||| b)) ∧
    Ops.eqv (.int a) (.int b) = .ok (.int (~~~(a ^^^ b))) ∧
    Ops.not (.int a) = .ok (.int (~~~a)) :=
  ⟨rfl, rfl, rfl, rfl, rfl, rfl⟩

/-- bit `i` of an Integer -/
def bit (a : Int16) (i : Nat) : Bool := a.toBitVec.getLsbD i

/-- the six truth tables of the manual, for each of the 16 bits -/
theorem truth_tables (a b : Int16) (i : Nat) (hi : i < 16) :
    bit (~~~a) i = !bit a i ∧
    bit (a &&& b) i = (bit a i && bit b i) ∧
    bit (a ||| b) i = (bit a i || bit b i) ∧
    bit (a ^^^ b) i = (bit a i != bit b i) ∧
    bit (~~~a ||| b) i = (!bit a i || bit b i) ∧
    bit (~~~(a ^^^ b)) i = (bit a i == bit b i) := by
  simp [bit, hi]
  cases a.toBitVec.getLsbD i <;> cases b.toBitVec.getLsbD i <;> rfl

/-! ### a string with a number is TYPE MISMATCH -/

theorem mismatch_arith {fi fs fd} (s : Str) (v : Val) (hv : v.isNumeric) :
    Ops.arith fi fs fd (.str s) v = err Code.typeMismatch ∧ Ops.arith fi fs fd v (.str s) = err Code.typeMismatch := by
  cases v <;> simp [Val.isNumeric] at hv <;> exact ⟨rfl, rfl⟩

/-- `+ - * / ^` and the six relational operators on one string and one number, in either order -/
theorem string_number_mismatch (op : BinOp) (hop : classOf op ≠ .integer) (s : Str) (v : Val)
    (hv : v.isNumeric) :
    meaningOf op (.str s) v = err Code.typeMismatch ∧ meaningOf op v (.str s) = err Code.typeMismatch := by
  cases op <;> simp [classOf] at hop <;> cases v <;> simp [Val.isNumeric] at hv <;> exact ⟨rfl, rfl⟩

/-- `\\ MOD AND OR XOR IMP EQV` convert the left operand to an Integer first: a string on the left is
    TYPE MISMATCH; a string on the right is TYPE MISMATCH when the left number converts (every
    Integer does), otherwise the conversion's own error (OVERFLOW for a float outside
    −32768..32767) comes first — e.g. `1E10 MOD "A"` is OVERFLOW -/
theorem string_number_mismatch_integer_ops (op : BinOp) (hop : classOf op = .integer) (s : Str) (v : Val) :
    meaningOf op (.str s) v = err Code.typeMismatch ∧
    (∀ n, v.toI16 = .ok n → meaningOf op v (.str s) = err Code.typeMismatch) ∧
    (∀ e, v.toI16 = .error e → meaningOf op v (.str s) = .error e) := by
  have hs : (Val.str s).toI16 = err Code.typeMismatch := rfl
  cases op <;> simp [classOf] at hop <;>
  · refine ⟨rfl, fun n h => ?_, fun e h => ?_⟩ <;>
      simp [meaningOf, Ops.divint, Ops.remainder, Ops.and, Ops.or, Ops.xor, Ops.imp, Ops.eqv,
        Ops.logic2, h, hs, bind, Except.bind, err]

theorem negate_string (s : Str) : Ops.negate (.str s) = err Code.typeMismatch := rfl
theorem not_string (s : Str) : Ops.not (.str s) = err Code.typeMismatch := rfl

/-! ## non-vacuity -/

example : Gen.binaryPrec .caret = 13 ∧ Gen.binaryPrec .eqv = 1 ∧ Gen.unaryPrec .not = 6 := by decide

example : ((descend 10 [] 0).run { toks := [.literal (.integer ['1']), .operator .plus,
      .literal (.integer ['2']), .operator .multiply, .literal (.integer ['3'])] }
    |>.toOption.map (·.1.shape)) =
    some (.bin .add (0, 0) (L 1) (.bin .multiply (0, 0) (L 2) (L 3))) := by rfl

/-- `NOT 1 = 2` is `NOT (1 = 2)`; `- 1 ^ 2` is `-(1 ^ 2)` -/
example : ((descend 10 [] 0).run { toks := [.operator .not, .literal (.integer ['1']),
      .operator .equal, .literal (.integer ['2'])] }
    |>.toOption.map (·.1.shape)) = some (.not (0, 0) (.bin .equal (0, 0) (L 1) (L 2))) := by rfl
example : ((descend 10 [] 0).run { toks := [.operator .minus, .literal (.integer ['1']),
      .operator .caret, .literal (.integer ['2'])] }
    |>.toOption.map (·.1.shape)) = some (.neg (0, 0) (.bin .power (0, 0) (L 1) (L 2))) := by rfl

/-- a literal table for which the hypothesis of `parse_render` holds at 1, 2, 3 -/
def demoLit (n : Int16) : Str := if n = 1 then ['1'] else if n = 2 then ['2'] else ['3']

example : LitOk demoLit 1 ∧ LitOk demoLit 2 ∧ LitOk demoLit 3 := by decide

/-- `(1 + 2) * 3` keeps its parentheses, `1 + 2 * 3` and `1 - 2 - 3` have none, `1 - (2 - 3)` has -/
example : render demoLit (.bin .multiply (0, 0) (.bin .add (0, 0) (L 1) (L 2)) (L 3)) =
    [.lparen, T demoLit 1, .operator .plus, T demoLit 2, .rparen, .operator .multiply, T demoLit 3] := by
  decide
example : render demoLit (.bin .subtract (0, 0) (.bin .subtract (0, 0) (L 1) (L 2)) (L 3)) =
    [T demoLit 1, .operator .minus, T demoLit 2, .operator .minus, T demoLit 3] := by decide
example : render demoLit (.bin .subtract (0, 0) (L 1) (.bin .subtract (0, 0) (L 2) (L 3))) =
    [T demoLit 1, .operator .minus, .lparen, T demoLit 2, .operator .minus, T demoLit 3, .rparen] := by
  decide

example : ∃ fuel e' st', (descend fuel [] 0).run
      { toks := render demoLit (.bin .multiply (0, 0) (.bin .add (0, 0) (L 1) (L 2)) (.neg (0, 0) (L 3))) }
      = .ok (e', st') ∧
    e'.shape = .bin .multiply (0, 0) (.bin .add (0, 0) (L 1) (L 2)) (.neg (0, 0) (L 3)) ∧
    st'.toks = [] ∧ st'.peeked = none :=
  parse_render demoLit _ (.bin _ _ _ _ (.bin _ _ _ _ (.int _ _ (by decide)) (.int _ _ (by decide)))
    (.neg _ _ (.int _ _ (by decide))))

/-- redundant parentheses are legal: `((1)) + (2 * 3)` is a listing of `1 + 2 * 3` -/
example : Renders demoLit (LitOk demoLit) (.bin .add (0, 0) (L 1) (.bin .multiply (0, 0) (L 2) (L 3)))
    [.lparen, .lparen, T demoLit 1, .rparen, .rparen, .operator .plus,
     .lparen, T demoLit 2, .operator .multiply, T demoLit 3, .rparen] 8 8 :=
  .bin .add _ (.paren (.paren (.int _ _ (by decide))))
    (.paren (.bin .multiply _ (.int _ _ (by decide)) (.int _ _ (by decide)) (by decide) (by decide)))
    (by decide) (by decide)

example : Ops.not (.int 5) = .ok (.int (-6)) := by decide
example : Ops.imp (.int 12) (.int 10) = .ok (.int (-5)) := by decide
example : Ops.less (.str ['A']) (.str ['B']) = .ok (.int (-1)) := by decide
example : Ops.sum (.str ['A']) (.int 1) = err Code.typeMismatch := by decide
example : Ops.power (.int 2) (.int 10) = .ok (.int 1024) := by decide
example : resultTy .divide .int .int = .sng ∧ resultTy .add .int .sng = .sng ∧
    resultTy .multiply .sng .dbl = .dbl ∧ resultTy .modulo .dbl .dbl = .int := by decide

/-- the runtime's opcode → `Operation::…` / `Function::…` dispatch, re-extracted from
    `runtime.rs` on every run, is the documented one (a `Sub` wired to `sum`, or a swapped pair of
    comparison arms, breaks this theorem) -/
theorem dispatch_documented : Gen.dispatch = Thm.Tables.documentedDispatch :=
  Thm.Tables.dispatch_documented

/-! ## (c) literal typing, numeric functions, assignment -/

section literals
open Lex

/-! ### literal typing: the rule of the manual, the rule as built, and the one class where they differ -/

/-- `Spec.literalTy` (the six bullets of chapter 1 in their order, after string / radix / suffixed
    constants) and `Spec.literalTyAsBuilt` (the same tests in the order of `lex.rs`) agree on every
    spelling outside `Spec.LongE` … -/
theorem literal_rule_agreement (s : Str) (h : ¬ LongE s) : literalTyAsBuilt s = literalTy s :=
  literalTyAsBuilt_eq s h

/-- … **FINDING**: an undecorated constant with an `E` exponent after more than 7 mantissa digits
    (`12345678E5`) is a Double in the code, a Single by the manual's first bullet -/
theorem literal_rule_disagreement (nm : Numeral) (h : nm.WF) (hl : LongE nm.text) :
    nm.token = .literal (.double nm.text) ∧ literalTy nm.text = some .sng := by
  obtain ⟨c, cs, e, hq, ha⟩ := text_head_plain nm h
  obtain ⟨l, hl1, hl2, hl3⟩ := numeral_kind_asBuilt nm h
  have hd := literalTy_longE c cs hq ha (e ▸ hl)
  rw [← e] at hd
  refine ⟨?_, hd.2⟩
  rw [hd.1] at hl3
  rcases numeral_token_shape nm h with h1 | h1 | ⟨h1, -⟩
  · rw [h1] at hl1; cases hl1; simp [tokenTy] at hl3
  · exact h1
  · rw [h1] at hl1; cases hl1; simp [tokenTy] at hl3

/-- **every well-formed numeral is one literal token of the kind the rule says**: `number()` — here
    through the token iterator, alone and after `X=` in a statement — returns one token, which
    carries the spelling unchanged and announces the type `Spec.literalTyAsBuilt` gives the spelling;
    outside `LongE` that is the type the manual's rule gives -/
theorem numeral_token_kind (nm : Numeral) (h : nm.WF) :
    ∃ l, rawTokens nm.text = [.literal l] ∧
      lex ('X' :: '=' :: nm.text) = (none, [.ident (.plain ['X']), .operator .equal, .literal l]) ∧
      l.text = nm.text ∧ literalTyAsBuilt nm.text = some (tokenTy l) ∧
      (¬ LongE nm.text → literalTy nm.text = some (tokenTy l)) := by
  obtain ⟨l, h1, h2, h3⟩ := numeral_kind_asBuilt nm h
  refine ⟨l, ?_, ?_, h2, h3, fun hn => ?_⟩
  · rw [← h1]; exact Thm.C05.numeral_roundtrip nm h
  · rw [← h1]; exact Thm.C05.numeral_roundtrip_in_statement nm h
  · rw [← literalTyAsBuilt_eq _ hn]; exact h3

/-- the node `Expression::literal` builds has the type the token announces (and the parser state is
    not touched) — for every literal token -/
theorem literal_node_type (c : Col) (l : Literal) (st st' : PState) (e : Expr)
    (h : (Parse.literal c l).run st = .ok (e, st')) : nodeTy e = some (tokenTy l) ∧ st' = st := by
  cases l <;> simp only [Parse.literal] at h
  all_goals
    split at h
    all_goals first
      | (cases h; exact ⟨rfl, rfl⟩)
      | (simp [Parse.fail, throw, throwThe, MonadExceptOf.throw, StateT.run, StateT.lift, bind,
          Except.bind] at h)

/-- a literal node evaluates to a value of its type -/
theorem literal_node_value (vars : Var) (e : Expr) (t : Ty) (h : nodeTy e = some t) :
    ∃ v, Spec.eval vars e = .ok v ∧ v.ty = t := by
  cases e <;> simp only [nodeTy, Option.some.injEq, reduceCtorEq] at h <;> subst h <;> exact ⟨_, rfl, rfl⟩

/-! ### the value of a numeric constant -/

/-- **a Single constant** is the binary32 float nearest (ties to even) to `m · 10^e`, `m` the mantissa
    digits read as a natural number, `e` the written exponent minus the number of fraction digits
    (`Fmt.roundDecimal`: the model's decimal → float conversion; the float stays a bit pattern) -/
theorem single_literal_value (nm : Numeral) (h : nm.WF) (hd : nm.mantDigits ≠ []) (c : Col) :
    Parse.literal c (.single nm.text) = pure (.single c
      (UInt32.ofNat (Fmt.roundDecimal Ieee.fp32 false nm.mantValue nm.exp10 nm.mantDigits.length))) := by
  simp only [Parse.literal, parseF32_numeral nm h hd]

/-- **a Double constant** likewise, to binary64 -/
theorem double_literal_value (nm : Numeral) (h : nm.WF) (hd : nm.mantDigits ≠ []) (c : Col) :
    Parse.literal c (.double nm.text) = pure (.double c
      (UInt64.ofNat (Fmt.roundDecimal Ieee.fp64 false nm.mantValue nm.exp10 nm.mantDigits.length))) := by
  simp only [Parse.literal, parseF64_numeral nm h hd]

/-- **an Integer constant** (undecorated, or decorated with `%`) is the number its digits denote when
    that is at most 32767; a `%` constant that is bigger (`40000%`) or has a fraction or an exponent
    (`1.5%`) is TYPE MISMATCH — not OVERFLOW, and not rounded -/
theorem integer_literal_value (nm : Numeral) (h : nm.WF) (c : Col) :
    Parse.literal c (.integer nm.text) =
      if nm.frac = none ∧ nm.expo = none ∧ decimalValue nm.int ≤ 32767
      then pure (.integer c (Int16.ofNat (decimalValue nm.int))) else Parse.fail Code.typeMismatch c "" := by
  simp only [Parse.literal, parseI16_readText nm h]
  by_cases hc : nm.frac = none ∧ nm.expo = none ∧ decimalValue nm.int ≤ 32767
  · rw [if_pos hc, if_pos hc]
  · rw [if_neg hc, if_neg hc]

/-- … and its value as a mathematical integer is that number -/
theorem integer_literal_toInt (n : Nat) (h : n ≤ 32767) : (Int16.ofNat n).toInt = n := by
  exact Int16.toInt_ofNat_of_lt (by omega)

/-- a constant without a mantissa digit (`.`, `.E5`) is TYPE MISMATCH -/
theorem pointless_literal (nm : Numeral) (h : nm.WF) (hd : nm.mantDigits = []) (c : Col) :
    Parse.literal c (.single nm.text) = Parse.fail Code.typeMismatch c "" ∧
    Parse.literal c (.double nm.text) = Parse.fail Code.typeMismatch c "" := by
  have hp := parseDecimal_no_digit nm h hd
  constructor <;>
    simp only [Parse.literal, Fmt.parseF32, Fmt.parseF64, Fmt.parseFloat, numText_text nm h, hp] <;> rfl

/-- **every well-formed numeral becomes an expression node of the type the rule says.**  A numeral
    with at least one mantissa digit — and, when decorated with `%`, a plain digit string denoting at
    most 32767 — lexes to one literal token which `Expression::literal` turns into a literal node
    whose type is `Spec.literalTyAsBuilt` of the spelling: the manual's `Spec.literalTy` outside `LongE` -/
theorem numeral_expression (nm : Numeral) (h : nm.WF) (hd : nm.mantDigits ≠ [])
    (hpct : nm.sfx = some '%' → nm.frac = none ∧ nm.expo = none ∧ decimalValue nm.int ≤ 32767) (c : Col) :
    ∃ l e, rawTokens nm.text = [.literal l] ∧ l.text = nm.text ∧ Parse.literal c l = pure e ∧
      nodeTy e = some (tokenTy l) ∧ literalTyAsBuilt nm.text = nodeTy e ∧
      (¬ LongE nm.text → literalTy nm.text = nodeTy e) := by
  obtain ⟨l, h1, -, h2, h3, h4⟩ := numeral_token_kind nm h
  have key : ∃ e, Parse.literal c l = pure e ∧ nodeTy e = some (tokenTy l) := by
    have hr := Thm.C05.numeral_roundtrip nm h
    rw [h1] at hr
    rcases numeral_token_shape nm h with hs | hs | ⟨hs, hcase⟩ <;> rw [hs] at hr <;>
      simp only [List.cons.injEq, Token.literal.injEq, and_true] at hr <;> subst hr
    · exact ⟨_, single_literal_value nm h hd c, rfl⟩
    · exact ⟨_, double_literal_value nm h hd c, rfl⟩
    · have hfit : nm.frac = none ∧ nm.expo = none ∧ decimalValue nm.int ≤ 32767 := by
        rcases hcase with hp | ⟨-, hp⟩
        · exact hpct hp
        · exact hp
      exact ⟨_, by rw [integer_literal_value nm h c, if_pos hfit], rfl⟩
  obtain ⟨e, he, hn⟩ := key
  exact ⟨l, e, h1, h2, he, hn, by rw [hn]; exact h3, fun hl => by rw [hn]; exact h4 hl⟩

/-! ### radix and string constants -/

/-- **`&H…`**: one token; an Integer node holding the value of the digits when that is at most 32767
    (`&H7FFF`).  **FINDING**: from `&H8000` on — `&HFFFF`, the text `HEX$(-1)` prints, included —
    and for `&H` without digits the constant is OVERFLOW; there is no two's-complement reading. -/
theorem hex_literal (ds : List Char) (h : ∀ c ∈ ds, isRadixDigit true c = true) (c : Col) :
    lex (Token.literal (.hex ds)).text = (none, [.literal (.hex ds)]) ∧
    literalTy (Token.literal (.hex ds)).text = some .int ∧
    Parse.literal c (.hex ds) =
      if ds ≠ [] ∧ radixValue 16 ds ≤ 32767 then pure (.integer c (Int16.ofNat (radixValue 16 ds)))
      else Parse.fail Code.overflow c "" := by
  refine ⟨Thm.C05.hex_roundtrip ds h, rfl, ?_⟩
  have := parseI16Radix_digits true ds h
  simp only [radixOf, if_true] at this
  simp only [Parse.literal, this]
  by_cases hc : ds ≠ [] ∧ radixValue 16 ds ≤ 32767
  · rw [if_pos hc, if_pos hc]
  · rw [if_neg hc, if_neg hc]

/-- **`&…`** (octal) likewise -/
theorem octal_literal (ds : List Char) (h : ∀ c ∈ ds, isRadixDigit false c = true) (c : Col) :
    lex (Token.literal (.octal ds)).text = (none, [.literal (.octal ds)]) ∧
    literalTy (Token.literal (.octal ds)).text = some .int ∧
    Parse.literal c (.octal ds) =
      if ds ≠ [] ∧ radixValue 8 ds ≤ 32767 then pure (.integer c (Int16.ofNat (radixValue 8 ds)))
      else Parse.fail Code.overflow c "" := by
  refine ⟨Thm.C05.octal_roundtrip ds h, rfl, ?_⟩
  have := parseI16Radix_digits false ds h
  simp only [radixOf, Bool.false_eq_true, if_false] at this
  simp only [Parse.literal, this]
  by_cases hc : ds ≠ [] ∧ radixValue 8 ds ≤ 32767
  · rw [if_pos hc, if_pos hc]
  · rw [if_neg hc, if_neg hc]

/-- a radix constant denoting 32768 or more is OVERFLOW -/
theorem radix_literal_overflow (isHex : Bool) (ds : List Char) (h : ∀ c ∈ ds, isRadixDigit isHex c = true)
    (hv : 32768 ≤ radixValue (radixOf isHex) ds) (c : Col) :
    Parse.literal c (if isHex then .hex ds else .octal ds) = Parse.fail Code.overflow c "" := by
  have := parseI16Radix_digits isHex ds h
  rw [if_neg (by omega)] at this
  cases isHex <;> simp only [radixOf, if_true, Bool.false_eq_true, if_false] at this <;>
    simp only [Parse.literal, this, if_true, Bool.false_eq_true, if_false]

/-- **string constants**: one token, a string node with the characters between the quotes; more than
    255 characters are STRING TOO LONG -/
theorem string_literal (s : Str) (h : '"' ∉ s) (c : Col) :
    lex (Token.literal (.string s)).text = (none, [.literal (.string s)]) ∧
    literalTy (Token.literal (.string s)).text = some .str ∧
    Parse.literal c (.string s) =
      if s.length > 255 then Parse.fail Code.stringTooLong c "MAXIMUM LITERAL LENGTH IS 255"
      else pure (.string c s) :=
  ⟨Thm.C05.string_roundtrip s h, rfl, rfl⟩

end literals

/-! ### the documented numeric functions -/

section functions
open Lemmas.NumFunc

/-- a call `F(e)` of a function of the table evaluates the argument, then applies the function -/
theorem call_eval {name : String} {f : Val → Res Val} (hm : (name, f) ∈ builtin1Table)
    (vars : Var) (c : Col) (i : TIdent) (hi : i.name = name.toList) (e : Expr) :
    Spec.eval vars (.var (.array c i [e])) = Spec.eval vars e >>= f := by
  have hb : builtin1 name.toList = some f := by
    rcases mem_builtin1Table hm with ⟨rfl, rfl⟩ | ⟨rfl, rfl⟩ | ⟨rfl, rfl⟩ | ⟨rfl, rfl⟩ | ⟨rfl, rfl⟩ |
      ⟨rfl, rfl⟩ | ⟨rfl, rfl⟩ | ⟨rfl, rfl⟩ | ⟨rfl, rfl⟩ | ⟨rfl, rfl⟩ | ⟨rfl, rfl⟩ | ⟨rfl, rfl⟩ |
      ⟨rfl, rfl⟩ | ⟨rfl, rfl⟩ | ⟨rfl, rfl⟩ | ⟨rfl, rfl⟩ | ⟨rfl, rfl⟩ | ⟨rfl, rfl⟩ | ⟨rfl, rfl⟩ |
      ⟨rfl, rfl⟩ | ⟨rfl, rfl⟩ | ⟨rfl, rfl⟩ <;> rfl
  simp only [Spec.eval, hi, hb]

/-- **result types**: a successful call of a function of the table returns a value of the type
    `Spec.funcTy` documents for the function's name and the argument's type — ABS, INT, FIX: the
    argument's; SGN, CINT, LEN: Integer; CSNG: Single; CDBL: Double; SQR, ATN, COS, EXP, LOG, SIN, TAN:
    Single, Double for a Double argument; CHR$, HEX$, OCT$, SPC, STR$: string -/
theorem function_result_type {name : String} {f : Val → Res Val} (hm : (name, f) ∈ builtin1Table)
    {v r : Val} {t : Ty} (h : f v = .ok r) (ht : funcTy name v.ty = some t) : r.ty = t :=
  builtin1_result_type hm h ht

/-- ASC and VAL, whose type depends on the value: ASC is an Integer (code up to 32767) or a Single;
    VAL is an Integer (radix text) or a Double -/
theorem asc_val_result_type {v r : Val} :
    (Func.asc v = .ok r → r.ty = .int ∨ r.ty = .sng) ∧ (Func.val v = .ok r → r.ty = .int ∨ r.ty = .dbl) :=
  ⟨asc_ty, val_ty⟩

/-- **TYPE MISMATCH**: a string argument to a numeric function, a numeric argument to a string
    function (ASC, LEN, VAL) — for every function of the table -/
theorem function_type_mismatch {name : String} {f : Val → Res Val} (hm : (name, f) ∈ builtin1Table) :
    (takesString name = false → ∀ s : Str, f (.str s) = err Code.typeMismatch) ∧
    (takesString name = true → ∀ v : Val, v.isNumeric = true → f v = err Code.typeMismatch) :=
  builtin1_type_mismatch hm

/-- **ABS**: the type is kept; on Integers exactly |n|, with OVERFLOW for −32768 and only there -/
theorem abs_documented (v r : Val) (n : Int16) :
    (Func.abs v = .ok r → r.ty = v.ty) ∧
    (n.toInt ≠ -32768 → ∃ m, Func.abs (.int n) = .ok (.int m) ∧ m.toInt = n.toInt.natAbs) ∧
    (n.toInt = -32768 → Func.abs (.int n) = err Code.overflow) :=
  ⟨abs_ty, (abs_int n).1, (abs_int n).2⟩

/-- **SGN**: an Integer −1, 0 or 1; on Integers the mathematical sign -/
theorem sgn_documented (v r : Val) (n : Int16) :
    (Func.sgn v = .ok r → r = .int (-1) ∨ r = .int 0 ∨ r = .int 1) ∧
    (∃ m, Func.sgn (.int n) = .ok (.int m) ∧ m.toInt = n.toInt.sign) :=
  ⟨sgn_values, sgn_int_sign n⟩

/-- **INT and FIX**: the argument's type is kept, an Integer is returned unchanged; on a float INT is
    the floor and FIX the truncation towards zero (ceiling of a negative number, floor otherwise) -/
theorem int_fix_documented (v r : Val) (n : Int16) (b : UInt32) :
    (Func.int v = .ok r → r.ty = v.ty) ∧ (Func.fix v = .ok r → r.ty = v.ty) ∧
    Func.int (.int n) = .ok (.int n) ∧ Func.fix (.int n) = .ok (.int n) ∧
    Func.int (.sng b) = .ok (.sng (F.b32 (F.f32 b).floor)) ∧
    Func.fix (.sng b) = .ok (.sng (F.b32 (if F.f32 b < 0 then (F.f32 b).ceil else (F.f32 b).floor))) :=
  ⟨int_ty, fix_ty, rfl, rfl, rfl, rfl⟩

/-- **CINT**: an Integer unchanged; of a float the FLOOR when it lies in −32768..32767, OVERFLOW
    otherwise (`Thm.C08.float_to_int`: NaN and the infinities included) -/
theorem cint_documented (v : Val) (hv : v.ty = .sng ∨ v.ty = .dbl) (n : Int16) :
    Func.cint (.int n) = .ok (.int n) ∧
    Func.cint v = (match v.floorZ with
      | some z => if Thm.C08.InRange z then .ok (.int (Int16.ofInt z)) else err Code.overflow
      | none => err Code.overflow) ∧
    (Func.cint v = .ok (.int n) → v.floorZ = some n.toInt) :=
  ⟨rfl, cint_float v hv, cint_float_exact v hv n⟩

/-- **CSNG, CDBL**: the result is a Single / a Double; a value of that type is returned unchanged;
    no number makes them fail (a Double beyond the Single range becomes an infinity) -/
theorem csng_cdbl_documented (v r : Val) (b : UInt32) (d : UInt64) :
    (Func.csng v = .ok r → r.ty = .sng) ∧ (Func.cdbl v = .ok r → r.ty = .dbl) ∧
    Func.csng (.sng b) = .ok (.sng b) ∧ Func.cdbl (.dbl d) = .ok (.dbl d) ∧
    (v.isNumeric = true → (∃ x, Func.csng v = .ok (.sng x)) ∧ ∃ x, Func.cdbl v = .ok (.dbl x)) :=
  ⟨csng_ty, cdbl_ty, rfl, rfl, fun h => ⟨csng_total v h, cdbl_total v h⟩⟩

/-- **SQR**: Single for an Integer or Single argument, Double for a Double.  The model (and the
    interpreter) raise NO error for a negative argument: `SQR(-1)` is the IEEE square root, a NaN — not
    ILLEGAL FUNCTION CALL -/
theorem sqr_documented (v r : Val) :
    (Func.sqr v = .ok r → r.ty = floatTy v.ty) ∧ (v.isNumeric = true → ∃ x, Func.sqr v = .ok x) :=
  ⟨sqr_ty, sqr_no_error v⟩

/-- **LEN**: the number of characters as an Integer; **ASC**: the code of the first character, ILLEGAL
    FUNCTION CALL for the empty string -/
theorem len_asc_documented (s : Str) (c : Char) (hs : s.length ≤ 32767) (hc : c.toNat ≤ 32767) :
    Func.len (.str s) = .ok (.int (Int16.ofNat s.length)) ∧
    Func.asc (.str (c :: s)) = .ok (.int (Int16.ofNat c.toNat)) ∧
    Func.asc (.str []) = err Code.illegalFunctionCall := by
  refine ⟨by rw [len_str, if_pos hs], by rw [asc_str, if_pos hc], rfl⟩

end functions

/-! ### assignment -/

section assignment
open Lemmas.ExprCompile Lemmas.Assign

/-- **the conversion on assignment** (`Spec.assignConv`, written from the manual): the result has the
    TARGET's type; a value of that type is stored unchanged; Integer ← float is the floor or OVERFLOW
    (`Thm.C08`); Single ← Double is the IEEE rounding `f64 as f32` and never an error (beyond the
    Single range the value becomes an infinity: `A! = 1D39` stores `inf`); Double ← Single / Integer is
    the exact widening; string ↔ number is TYPE MISMATCH; a string of more than 255 characters is
    STRING TOO LONG -/
theorem assignment_conversion (t : VarTy) (x y : Val) :
    (assignConv t x = .ok y → y.ty = t.toTy) ∧
    (x.ty = t.toTy → (∀ s, x = .str s → s.length ≤ 255) → assignConv t x = .ok x) ∧
    (x.ty = .sng ∨ x.ty = .dbl → assignConv .integer x = .ok y →
        ∃ n, y = .int n ∧ x.floorZ = some n.toInt) ∧
    (x.ty = .sng ∨ x.ty = .dbl → (∀ z, x.floorZ = some z → ¬ Thm.C08.InRange z) →
        assignConv .integer x = err Code.overflow) ∧
    (∀ b, assignConv .single (.dbl b) = .ok (.sng (F.b32 (F.d2s (F.f64 b))))) ∧
    (∀ b, assignConv .double (.sng b) = .ok (.dbl (F.b64 (F.s2d (F.f32 b))))) ∧
    (t = .string → x.isNumeric = true → assignConv t x = err Code.typeMismatch) ∧
    (t ≠ .string → ∀ s, x = .str s → assignConv t x = err Code.typeMismatch) ∧
    (∀ s : Str, 255 < s.length →
        assignConv .string (.str s) = errMsg Code.stringTooLong "MAXIMUM STRING LENGTH IS 255") :=
  ⟨assignConv_ty, assignConv_same, fun hx h => assignConv_integer_floor x hx y h,
    assignConv_integer_overflow x, fun _ => rfl, fun _ => rfl, (assignConv_mismatch t x).1,
    (assignConv_mismatch t x).2, assignConv_string_too_long⟩

/-- `Var.store` IS that conversion: after the pool test (OUT OF MEMORY for a full pool and a name it does
    not hold yet, D23) the type of the name — its suffix, else the DEFtype of its first letter — selects the
    conversion, and the converted value is written under the name -/
theorem store_is_conversion (v : Var) (n : Str) (x : Val) (t : VarTy) (ht : v.tyOf n = .ok (some t)) :
    v.store n x =
      if v.vars.length > 65535 ∧ AL.contains n v.vars = false then err Code.outOfMemory
      else match assignConv t x with
        | .ok y => .ok (v.updateVal n y)
        | .error e => .error e :=
  store_eq v n x t ht

/-- the type of the target: the suffix decides; without one, the DEFtype of the first letter (Single
    until a DEFtype statement says otherwise) -/
theorem target_type (v : Var) (base : Str) (c : Char) (cs : Str) (hc : 65 ≤ c.toNat ∧ c.toNat ≤ 90)
    (hs : Var.suffixTy (c :: cs) = none) :
    v.tyOf (base ++ ['%']) = .ok (some .integer) ∧ v.tyOf (base ++ ['!']) = .ok (some .single) ∧
    v.tyOf (base ++ ['#']) = .ok (some .double) ∧ v.tyOf (base ++ ['$']) = .ok (some .string) ∧
    v.tyOf (c :: cs) = .ok (some (v.types (c.toNat - 65))) ∧ Var.new.types (c.toNat - 65) = .single :=
  ⟨(tyOf_suffix v base).1, (tyOf_suffix v base).2.1, (tyOf_suffix v base).2.2.1, (tyOf_suffix v base).2.2.2,
    tyOf_letter v c cs hc hs, rfl⟩

/-- **`LET v = e`, compiled and run** (`e` in the fragment `Spec.Pure`, `v` a scalar).  The statement
    compiles to one fragment `flat e ++ [pop v]` and reports nothing.  Run from ANY machine state `s`
    holding that code at `pc` (trace off, room on the stack, the pool not full), with `t` the type of `v`:

    * `e` evaluates to `x` and `x` converts to `y`: the run ends normally in `s` with `pc` past the code
      and `vars' = updateVal v y` — `y` has the target's type, `v` afterwards READS as a value of the
      target's type (`y`, or the type's default when `y` is one), every other variable reads as before:
      a value of another type is never stored;
    * `x` does not convert (OVERFLOW, TYPE MISMATCH, STRING TOO LONG): the run stops in that error,
      the variables unchanged;
    * `e` itself fails: the run stops in that error, the variables unchanged. -/
theorem let_statement (env : Env) (hie : Bool) {e : Expr} (hp : Pure e) (c cv : Col) (i : TIdent)
    (hz : isZeroArg i.name = false) (vs : Codegen.VState) (hlen : (flat e).length + 1 ≤ 65535) :
    ∃ (col : Col) (frag : Link),
      (Codegen.acceptStmt (.let c (.unary cv i) e) vs).g.stmt = vs.g.stmt.push (col, frag) ∧
      (Codegen.acceptStmt (.let c (.unary cv i) e) vs).errors = vs.errors ∧
      frag.ops.toList = flat e ++ [Opcode.pop i.name] ∧
      ∀ (s : Runtime), CodeAt s.program.link.ops s.pc frag.ops.toList → s.tron = false →
        s.stack.size + frag.ops.size ≤ 65535 →
        ∀ (t : VarTy), s.vars.tyOf i.name = .ok (some t) → s.vars.vars.length ≤ 65535 →
        match Spec.eval s.vars e with
        | .ok x =>
          (match assignConv t x with
          | .ok y =>
            runOps env hie frag.ops.toList s =
              (.ok .continue, { s with pc := s.pc + frag.ops.size, vars := s.vars.updateVal i.name y }) ∧
            y.ty = t.toTy ∧
            (∃ z, (s.vars.updateVal i.name y).fetch i.name = .ok z ∧ z.ty = t.toTy) ∧
            (∀ k, k ≠ i.name → (s.vars.updateVal i.name y).fetch k = s.vars.fetch k)
          | .error err =>
            runOps env hie frag.ops.toList s = (.error err, { s with pc := s.pc + frag.ops.size }))
        | .error err =>
          ∃ s', runOps env hie frag.ops.toList s = (.error err, s') ∧ s'.vars = s.vars := by
  obtain ⟨col, h⟩ := let_codegen_shape hp c cv i hz vs hlen
  refine ⟨col, plain (flat e ++ [Opcode.pop i.name]).toArray, by rw [h], by rw [h], by simp [plain], ?_⟩
  intro s hcode htr hroom t ht hpool
  have e1 : (plain (flat e ++ [Opcode.pop i.name]).toArray).ops.toList = flat e ++ [Opcode.pop i.name] := by
    simp [plain]
  have e2 : (plain (flat e ++ [Opcode.pop i.name]).toArray).ops.size = (flat e).length + 1 := by simp [plain]
  rw [e1] at hcode ⊢
  rw [e2] at hroom ⊢
  cases hx : Spec.eval s.vars e with
  | error err => exact let_assign_eval_error env hie hp i.name s hcode htr (by omega) err hx
  | ok x =>
    dsimp only
    cases hy : assignConv t x with
    | error err => exact let_assign_conv_error env hie hp i.name s hcode htr (by omega) t ht hpool x err hx hy
    | ok y =>
      obtain ⟨h1, h2, -, h4, h5⟩ := let_assign_ok env hie hp i.name s hcode htr (by omega) t ht hpool x y hx hy
      exact ⟨h1, h2, h4, h5⟩

end assignment

/-! ### non-vacuity -/

section examples
open Lex

/-- the rule on spellings: `1E5` Single, `1D5` Double, 7 digits Single (too big for an Integer),
    8 digits Double, 32767 Integer, 32768 Single, a point Single — with more than 7 digits Double
    (the leading zero of `0.1234567` counts) —, suffixes, radix and string constants -/
example : literalTy "1E5".toList = some .sng ∧ literalTy "1D5".toList = some .dbl ∧
    literalTy "1234567".toList = some .sng ∧ literalTy "12345678".toList = some .dbl ∧
    literalTy "32767".toList = some .int ∧ literalTy "32768".toList = some .sng ∧
    literalTy "1.5".toList = some .sng ∧ literalTy "1.2345678".toList = some .dbl ∧
    literalTy "0.1234567".toList = some .dbl ∧ literalTy "00000001".toList = some .dbl ∧
    literalTy "5%".toList = some .int ∧ literalTy "5!".toList = some .sng ∧
    literalTy "12345678!".toList = some .sng ∧ literalTy "5#".toList = some .dbl ∧
    literalTy "&HFF".toList = some .int ∧ literalTy "&17".toList = some .int ∧
    literalTy "\"A\"".toList = some .str := by decide

/-- the one disagreement: `12345678E5` — Single by the manual, Double as built (and on the interpreter:
    `PRINT 12345678E5` prints 1234567800000) -/
example : LongE "12345678E5".toList ∧ literalTy "12345678E5".toList = some .sng ∧
    literalTyAsBuilt "12345678E5".toList = some .dbl ∧ ¬ LongE "1234567E5".toList := by decide

def n1E5 : Numeral := ⟨"1".toList, none, some ⟨'E', [], "5".toList⟩, none⟩
def n1D5 : Numeral := ⟨"1".toList, none, some ⟨'D', [], "5".toList⟩, none⟩
def n12345678 : Numeral := ⟨"12345678".toList, none, none, none⟩
def n32767 : Numeral := ⟨"32767".toList, none, none, none⟩
def n2p5 : Numeral := ⟨"2".toList, some "5".toList, none, none⟩
def nLongE : Numeral := ⟨"12345678".toList, none, some ⟨'E', [], "5".toList⟩, none⟩

example : n1E5.WF ∧ n1D5.WF ∧ n12345678.WF ∧ n32767.WF ∧ n2p5.WF ∧ nLongE.WF := by
  refine ⟨?_, ?_, ?_, ?_, ?_, ?_⟩ <;> exact ⟨by decide, by decide, by decide, by decide, by decide⟩

/-- `1E5` is one Single token and the Single nearest to 1·10^5; `1D5` a Double likewise -/
example : rawTokens "1E5".toList = [.literal (.single "1E5".toList)] ∧
    Parse.literal (0, 3) (.single "1E5".toList) =
      pure (.single (0, 3) (UInt32.ofNat (Fmt.roundDecimal Ieee.fp32 false 1 5 1))) :=
  ⟨Thm.C05.numeral_roundtrip n1E5 ⟨by decide, by decide, by decide, by decide, by decide⟩,
   single_literal_value n1E5 ⟨by decide, by decide, by decide, by decide, by decide⟩ (by decide) (0, 3)⟩

example : rawTokens "1D5".toList = [.literal (.double "1D5".toList)] ∧
    Parse.literal (0, 3) (.double "1D5".toList) =
      pure (.double (0, 3) (UInt64.ofNat (Fmt.roundDecimal Ieee.fp64 false 1 5 1))) :=
  ⟨Thm.C05.numeral_roundtrip n1D5 ⟨by decide, by decide, by decide, by decide, by decide⟩,
   double_literal_value n1D5 ⟨by decide, by decide, by decide, by decide, by decide⟩ (by decide) (0, 3)⟩

/-- the exponent letter may be typed in lower case: the lexer folds it -/
example : rawTokens "1e5".toList = [.literal (.single "1E5".toList)] ∧
    rawTokens "1d5".toList = [.literal (.double "1D5".toList)] := by decide

/-- the conversion is exact integer / rational arithmetic, so it can be evaluated: `1E5` is the bit
    pattern 0x47C35000 (100000.0), `2.5` is 0x40200000 -/
example : Fmt.roundDecimal Ieee.fp32 false 1 5 1 = 0x47C35000 ∧
    Fmt.roundDecimal Ieee.fp32 false 25 (-1) 2 = 0x40200000 := by decide +kernel

/-- 8 digits make a Double; 32767 is an Integer with that value; `2.5` is a Single -/
example : rawTokens "12345678".toList = [.literal (.double "12345678".toList)] :=
  Thm.C05.numeral_roundtrip n12345678 ⟨by decide, by decide, by decide, by decide, by decide⟩

example : rawTokens "32767".toList = [.literal (.integer "32767".toList)] ∧
    Parse.literal (0, 5) (.integer "32767".toList) = pure (.integer (0, 5) 32767) := by
  refine ⟨Thm.C05.numeral_roundtrip n32767 ⟨by decide, by decide, by decide, by decide, by decide⟩, ?_⟩
  have := integer_literal_value n32767 ⟨by decide, by decide, by decide, by decide, by decide⟩ (0, 5)
  rw [if_pos (by decide)] at this
  exact this

example : ∃ l e, rawTokens "2.5".toList = [.literal l] ∧ Parse.literal (0, 3) l = pure e ∧
    nodeTy e = some .sng ∧ literalTy "2.5".toList = nodeTy e := by
  obtain ⟨l, e, h1, -, h3, h4, h5, h6⟩ :=
    numeral_expression n2p5 ⟨by decide, by decide, by decide, by decide, by decide⟩ (by decide)
      (by intro h; cases h) (0, 3)
  have h7 : literalTy "2.5".toList = nodeTy e := h6 (by decide)
  exact ⟨l, e, h1, h3, by rw [← h7]; decide, h7⟩

/-- the finding, through the lexer: `12345678E5` is a Double token -/
example : rawTokens "12345678E5".toList = [.literal (.double "12345678E5".toList)] := by
  have h : nLongE.WF := ⟨by decide, by decide, by decide, by decide, by decide⟩
  have h2 := Thm.C05.numeral_roundtrip nLongE h
  rw [(literal_rule_disagreement nLongE h (by decide)).1] at h2
  exact h2

/-- Integer readings: values on both sides of every guard -/
example : Fmt.parseI16 "32767".toList = some 32767 ∧ Fmt.parseI16 "32768".toList = none ∧
    Fmt.parseI16 "007".toList = some 7 ∧ Fmt.parseI16 "1.5".toList = none ∧
    Fmt.parseI16 (Parse.numText "40000%".toList) = none := by decide

/-- radix constants: `&H7FFF` is 32767; `&H8000`, `&HFFFF`, `&H10000`, `&H` are OVERFLOW (no wrap);
    `&77777` is 32767, `&100000` OVERFLOW -/
example : Fmt.parseI16Radix "7FFF".toList 16 = some 32767 ∧ Fmt.parseI16Radix "8000".toList 16 = none ∧
    Fmt.parseI16Radix "FFFF".toList 16 = none ∧ Fmt.parseI16Radix "10000".toList 16 = none ∧
    Fmt.parseI16Radix [] 16 = none ∧ Fmt.parseI16Radix "77777".toList 8 = some 32767 ∧
    Fmt.parseI16Radix "100000".toList 8 = none ∧ Fmt.parseI16Radix "0D".toList 16 = some 13 := by decide

example (c : Col) : Parse.literal c (.hex "FFFF".toList) = Parse.fail Code.overflow c "" :=
  radix_literal_overflow true "FFFF".toList (by decide) (by decide) c

example (c : Col) : Parse.literal c (.hex "7FFF".toList) = pure (.integer c 32767) := by
  have := (hex_literal "7FFF".toList (by decide) c).2.2
  rw [if_pos (by decide)] at this
  exact this

/-- functions -/
example : Func.abs (.int (-5)) = .ok (.int 5) ∧ Func.abs (.int (-32768)) = err Code.overflow ∧
    Func.sgn (.int (-5)) = .ok (.int (-1)) ∧ Func.sgn (.int 0) = .ok (.int 0) ∧
    Func.int (.int 7) = .ok (.int 7) ∧ Func.fix (.int (-7)) = .ok (.int (-7)) ∧
    Func.cint (.int 9) = .ok (.int 9) ∧
    Func.cint (.sng 0xC11E6666) = .ok (.int (-10)) ∧       -- CINT(-9.9) = -10: the floor
    Func.cint (.sng 0x40200000) = .ok (.int 2) ∧           -- CINT(2.5) = 2: not rounded
    Func.cint (.sng 0x47000000) = err Code.overflow ∧      -- CINT(32768)
    Func.len (.str "ABC".toList) = .ok (.int 3) ∧ Func.asc (.str "A".toList) = .ok (.int 65) ∧
    Func.asc (.str []) = err Code.illegalFunctionCall ∧
    Func.sqr (.str "4".toList) = err Code.typeMismatch ∧ Func.len (.int 4) = err Code.typeMismatch := by
  decide

/-- symbolic, for floats: SQR of ANY Single is a Single (a negative one included), CDBL of it a Double -/
example (b : UInt32) : ∃ x y, Func.sqr (.sng b) = .ok (.sng x) ∧ Func.cdbl (.sng b) = .ok (.dbl y) :=
  ⟨_, _, rfl, rfl⟩

example : funcTy "SQR" .int = some .sng ∧ funcTy "SQR" .dbl = some .dbl ∧ funcTy "ABS" .dbl = some .dbl ∧
    funcTy "CINT" .sng = some .int ∧ funcTy "VAL" .str = none ∧ takesString "LEN" = true ∧
    takesString "SQR" = false := by decide

/-- assignment -/
example : assignConv .integer (.sng 0x40200000) = .ok (.int 2) ∧           -- A% = 2.5
    assignConv .integer (.sng 0xC11E6666) = .ok (.int (-10)) ∧             -- A% = -9.9
    assignConv .integer (.sng 0x47000000) = err Code.overflow ∧            -- A% = 32768
    assignConv .integer (.dbl 0x7ff8000000000000) = err Code.overflow ∧    -- A% = NaN
    assignConv .integer (.str ['X']) = err Code.typeMismatch ∧
    assignConv .string (.int 1) = err Code.typeMismatch ∧
    assignConv .single (.str ['X']) = err Code.typeMismatch ∧
    assignConv .string (.str ['X']) = .ok (.str ['X']) := by decide

example : assignConv .string (.str (List.replicate 256 'X')) =
    errMsg Code.stringTooLong "MAXIMUM STRING LENGTH IS 255" :=
  Lemmas.Assign.assignConv_string_too_long _ (by rw [List.length_replicate]; omega)

/-- symbolic: a Double assigned to a Single variable is `f64 as f32` of it, whatever the Double -/
example (b : UInt64) : ∃ y, assignConv .single (.dbl b) = .ok y ∧ y.ty = .sng := ⟨_, rfl, rfl⟩

example : (Var.new.store "A%".toList (.sng 0x40200000)).toOption.bind (fun v => (v.fetch "A%".toList).toOption) =
    some (.int 2) := by decide

end examples

end Thm.C02
end Basic
