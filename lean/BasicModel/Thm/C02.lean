import BasicModel.Thm.Tables
import BasicModel.Spec.PrecSpec
import BasicModel.Lemmas.ParseExpr
import BasicModel.Lemmas.ParseFuel
import BasicModel.Gen.Builtins
import BasicModel.Model.Runtime
import BasicModel.Lemmas.VmDispatch
import BasicModel.Lemmas.OpsTypes
/-
  C02 — expressions evaluate per documented precedence, promotion and result types.

  (a) The precedence tables GENERATED from `parse.rs` are the manual's 13-level table
      (`Spec.documentedPrec`, written by hand), the generated AST-node → opcode table and the VM's
      dispatch compose to the documented meaning of every operator, and the parser gives back every
      tree of unary minus / NOT / the 18 binary operators over Integer literals from its rendering
      with exactly the parentheses the documented table requires (`parse_render`) or any superset
      of them (`parse_renders`); left associativity and the two-operator precedence law for all
      18 × 18 pairs are corollaries.  Architecture of DESIGN Appendix A (invariant `G`, operands
      via `C_of_G`); "succeeds" is taken as "for all sufficiently large fuel", which composes by
      maxima, and monotonicity in the fuel is proved separately (`descend_mono`).
  (b) Result types: Integer → Single → Double promotion, the `/` quirk, `\` MOD and the logical
      operators on 16-bit Integers, relational operators exactly 0 or −1; a string with a number is
      TYPE MISMATCH.  Floats are opaque bit patterns here: the theorems are about constructors.
-/
namespace Basic
namespace Thm.C02
open Parse Spec
open Lemmas.ParseExpr (Good view Plain)
open Lemmas.VmDispatch (vmBinary vmUnary)
open Lemmas.OpsTypes

/-! ## (a) tables -/

/-- the generated binary precedence table is the manual's -/
theorem prec_table_documented : ∀ op, Gen.binaryPrec op = Spec.documentedPrec op :=
  Lemmas.ParseExpr.binaryPrec_documented

/-- the generated unary precedence table is the manual's (unary ± 12, NOT 6) -/
theorem unary_prec_table_documented : ∀ op, Gen.unaryPrec op = Spec.documentedUnaryPrec op :=
  Lemmas.ParseExpr.unaryPrec_documented

/-- every operator token except NOT is a binary operator, and `operatorOf` is its inverse -/
theorem ofOperator_operatorOf (b : BinOp) : BinOp.ofOperator (Spec.operatorOf b) = some b :=
  Lemmas.ParseExpr.ofOperator_operatorOf b

theorem ofOperator_eq_none_iff (op : Operator) : BinOp.ofOperator op = none ↔ op = .not := by
  cases op <;> simp [BinOp.ofOperator]

/-- exactly the operator tokens of binary precedence 0 are not binary operators -/
theorem binary_prec_zero_iff (op : Operator) : Gen.binaryPrec op = 0 ↔ BinOp.ofOperator op = none := by
  cases op <;> simp [Gen.binaryPrec, BinOp.ofOperator]

/-! ## (a) operator chain: token → AST node → opcode → `Ops.*` -/

/-- for every binary operator token, the opcode generated for its AST node is one whose dispatch in
    `Runtime.step` (`vmBinary`, proved to be what `step` does in `step_dispatch_binary`) applies the
    documented function -/
theorem operator_chain_documented : ∀ op b, BinOp.ofOperator op = some b →
    vmBinary (Gen.opcodeOfBinOp b) = some (Spec.meaningOf b) := by
  intro op b _; cases b <;> rfl

/-- the token → node step is the documented spelling: `^`↦power, `*`↦multiply, … -/
theorem ofOperator_documented : ∀ op b, BinOp.ofOperator op = some b ↔ Spec.operatorOf b = op := by
  intro op b; cases op <;> cases b <;> simp [BinOp.ofOperator, Spec.operatorOf]

theorem unary_chain_documented :
    vmUnary Gen.opcodeOfNegation = some Ops.negate ∧ vmUnary Gen.opcodeOfNot = some Ops.not :=
  ⟨rfl, rfl⟩

/-- `Runtime.step` on any of the 18 binary operator opcodes is `pop2Push` of the `vmBinary` entry -/
theorem step_dispatch_binary (env : Env) (hie : Bool) (s : Runtime) (oc : Opcode)
    (f : Val → Val → Res Val) (htr : s.tron = false)
    (hop : s.program.link.ops[s.pc]? = some oc) (hf : vmBinary oc = some f) :
    (Runtime.step env hie).run.run s =
      ((do Runtime.pop2Push f; pure Runtime.Step.continue : Runtime.RM Runtime.Step).run.run
        { s with pc := s.pc + 1 }) :=
  Lemmas.VmDispatch.step_binary env hie s oc f htr hop hf

/-- end to end: executing the opcode compiled for `a op b` with `a`, `b` on the stack (`b` on top)
    leaves the documented value `meaningOf op a b`, or raises its error -/
theorem step_binop_documented (env : Env) (hie : Bool) (s : Runtime) (b : BinOp)
    (st : Array Val) (x y : Val) (htr : s.tron = false)
    (hop : s.program.link.ops[s.pc]? = some (Gen.opcodeOfBinOp b))
    (hst : s.stack = (st.push x).push y) (hroom : st.size + 1 ≤ Gen.stackMaxLen) :
    (Runtime.step env hie).run.run s =
      match Spec.meaningOf b x y with
      | .ok v => (.ok .continue, { s with pc := s.pc + 1, stack := st.push v })
      | .error e => (.error e, { s with pc := s.pc + 1, stack := st }) :=
  Lemmas.VmDispatch.step_binary_stack env hie s _ _ st x y htr hop
    (operator_chain_documented _ b (ofOperator_operatorOf b)) hst hroom

/-- the same for unary minus and NOT -/
theorem step_negation_documented (env : Env) (hie : Bool) (s : Runtime)
    (st : Array Val) (x : Val) (htr : s.tron = false)
    (hop : s.program.link.ops[s.pc]? = some Gen.opcodeOfNegation)
    (hst : s.stack = st.push x) (hroom : st.size + 1 ≤ Gen.stackMaxLen) :
    (Runtime.step env hie).run.run s =
      match Ops.negate x with
      | .ok v => (.ok .continue, { s with pc := s.pc + 1, stack := st.push v })
      | .error e => (.error e, { s with pc := s.pc + 1, stack := st }) :=
  Lemmas.VmDispatch.step_unary_stack env hie s _ _ st x htr hop rfl hst hroom

theorem step_not_documented (env : Env) (hie : Bool) (s : Runtime)
    (st : Array Val) (x : Val) (htr : s.tron = false)
    (hop : s.program.link.ops[s.pc]? = some Gen.opcodeOfNot)
    (hst : s.stack = st.push x) (hroom : st.size + 1 ≤ Gen.stackMaxLen) :
    (Runtime.step env hie).run.run s =
      match Ops.not x with
      | .ok v => (.ok .continue, { s with pc := s.pc + 1, stack := st.push v })
      | .error e => (.error e, { s with pc := s.pc + 1, stack := st }) :=
  Lemmas.VmDispatch.step_unary_stack env hie s _ _ st x htr hop rfl hst hroom

/-! ## (a) parsing -/

/-- the text `lit n` of an Integer literal reads back as `n` -/
abbrev LitOk (lit : Int16 → Str) (n : Int16) : Prop := Fmt.parseI16 (numText (lit n)) = some n

theorem render_plain (lit : Int16 → Str) (e : Expr) : ∀ t ∈ render lit e, Plain t := by
  have hp : ∀ (l : List Token), (∀ t ∈ l, Plain t) →
      ∀ b : Bool, ∀ t ∈ (if b then Token.lparen :: l ++ [Token.rparen] else l), Plain t := by
    intro l hl b t ht
    cases b with
    | false => exact hl t (by simpa using ht)
    | true =>
      simp only [if_true, List.mem_cons, List.mem_append, List.not_mem_nil, or_false] at ht
      rcases ht with (rfl | ht) | rfl
      · exact ⟨fun _ h => (nomatch h), rfl⟩
      · exact hl t ht
      · exact ⟨fun _ h => (nomatch h), rfl⟩
  have hop : ∀ o : Operator, Plain (.operator o) := fun o => ⟨fun _ h => (nomatch h), rfl⟩
  -- recursion on the tree through the size of the term
  suffices h : ∀ n (e : Expr), sizeOf e ≤ n → ∀ t ∈ render lit e, Plain t from h _ e (Nat.le_refl _)
  intro n
  induction n with
  | zero => intro e he; cases e <;> simp at he <;> omega
  | succ n ih =>
    intro e he t ht
    cases e with
    | integer c k =>
      simp only [render, List.mem_cons, List.not_mem_nil, or_false] at ht
      subst ht; exact ⟨fun _ h => (nomatch h), rfl⟩
    | neg c x =>
      simp only [render, List.mem_cons] at ht
      rcases ht with rfl | ht
      · exact hop _
      · exact hp _ (ih x (by simp at he; omega)) _ t ht
    | not c x =>
      simp only [render, List.mem_cons] at ht
      rcases ht with rfl | ht
      · exact hop _
      · exact hp _ (ih x (by simp at he; omega)) _ t ht
    | bin op c l r =>
      simp only [render, List.mem_append, List.mem_cons] at ht
      rcases ht with ht | rfl | ht
      · exact hp _ (ih l (by simp at he; omega)) _ t ht
      · exact hop _
      · exact hp _ (ih r (by simp at he; omega)) _ t ht
    | var v => simp [render] at ht
    | single c b => simp [render] at ht
    | double c b => simp [render] at ht
    | string c s => simp [render] at ht

/-- **parse ∘ render = id** (up to columns), general form: from any parser state whose pending
    tokens are the rendering of `e` followed by `t'`, where `t'` does not begin with a binary
    operator, `descend` at precedence 0 returns — for every sufficiently large fuel — a tree of the
    shape of `e` and leaves exactly `t'` pending. -/
theorem parse_render_then (vm : VarMap) (lit : Int16 → Str) (e : Expr) (hf : Frag (LitOk lit) e)
    (st : PState) (t' : List Token) (hg : Good st) (hv : view st = render lit e ++ t')
    (ht : Lemmas.ParseExpr.stops 0 t') :
    ∃ N e' st', (∀ fuel, N ≤ fuel → (descend fuel vm 0).run st = .ok (e', st')) ∧
      e'.shape = e.shape ∧ Good st' ∧ view st' = t' := by
  obtain ⟨e', st1, hsh, hg1, hv1, hD⟩ :=
    Lemmas.ParseExpr.G_all vm lit hf 0 st t' hg hv (Lemmas.ParseExpr.plevel_pos e)
      (Lemmas.ParseExpr.stops_mono ht (Nat.zero_le _))
  obtain ⟨st2, hg2, hv2, hL⟩ := Lemmas.ParseExpr.loops_stop (vm := vm) (p := 0) (lhs := e') hg1
    (by rw [hv1]; exact ht)
  obtain ⟨N, hN⟩ := hD _ hL
  exact ⟨N, e', st2, hN, hsh, hg2, hv2.trans hv1⟩

/-- **parse ∘ render = id** (up to columns): for every tree `e` of the fragment there is fuel such
    that `descend fuel [] 0` run on the rendered tokens returns a tree of the same shape and
    consumes all tokens. -/
theorem parse_render (lit : Int16 → Str) (e : Expr) (hf : Frag (LitOk lit) e) :
    ∃ fuel e' st', (descend fuel [] 0).run { toks := render lit e } = .ok (e', st') ∧
      e'.shape = e.shape ∧ st'.toks = [] ∧ st'.peeked = none := by
  have hg : Good { toks := render lit e } := ⟨rfl, render_plain lit e⟩
  obtain ⟨N, e', st', hN, hsh, _, hv⟩ :=
    parse_render_then [] lit e hf { toks := render lit e } [] hg (by simp [view]) trivial
  refine ⟨N, e', st', hN N (Nat.le_refl _), hsh, ?_⟩
  unfold view at hv
  cases hpk : st'.peeked with
  | some t => rw [hpk] at hv; cases hv
  | none => rw [hpk] at hv; exact ⟨hv, rfl⟩

/-- …and every larger amount of fuel gives the same result -/
theorem parse_render_fuel (lit : Int16 → Str) (e : Expr) (hf : Frag (LitOk lit) e) :
    ∃ N e' st', (∀ fuel, N ≤ fuel →
        (descend fuel [] 0).run { toks := render lit e } = .ok (e', st')) ∧
      e'.shape = e.shape ∧ st'.toks = [] ∧ st'.peeked = none := by
  have hg : Good { toks := render lit e } := ⟨rfl, render_plain lit e⟩
  obtain ⟨N, e', st', hN, hsh, _, hv⟩ :=
    parse_render_then [] lit e hf { toks := render lit e } [] hg (by simp [view]) trivial
  refine ⟨N, e', st', hN, hsh, ?_⟩
  unfold view at hv
  cases hpk : st'.peeked with
  | some t => rw [hpk] at hv; cases hv
  | none => rw [hpk] at hv; exact ⟨hv, rfl⟩

/-! ### fuel -/

/-- success of `descend` is monotone in the fuel: more fuel, same result -/
theorem descend_mono {f f' : Nat} (h : f ≤ f') (vm : VarMap) (p : Nat) (st : PState)
    (r : Expr × PState) (hr : (descend f vm p).run st = .ok r) : (descend f' vm p).run st = .ok r :=
  (Lemmas.ParseFuel.mono_le h).1 vm p st r hr

theorem binLoop_mono {f f' : Nat} (h : f ≤ f') (vm : VarMap) (p : Nat) (lhs : Expr) (st : PState)
    (r : Expr × PState) (hr : (binLoop f vm p lhs).run st = .ok r) :
    (binLoop f' vm p lhs).run st = .ok r :=
  (Lemmas.ParseFuel.mono_le h).2.1 vm p lhs st r hr

theorem exprList_mono {f f' : Nat} (h : f ≤ f') (vm : VarMap) (st : PState)
    (r : List Expr × PState) (hr : (exprList f vm).run st = .ok r) :
    (exprList f' vm).run st = .ok r :=
  (Lemmas.ParseFuel.mono_le h).2.2 vm st r hr

/-- hence the result of a successful expression parse does not depend on the fuel -/
theorem descend_fuel_irrelevant (f f' : Nat) (vm : VarMap) (p : Nat) (st : PState)
    (r r' : Expr × PState) (hr : (descend f vm p).run st = .ok r)
    (hr' : (descend f' vm p).run st = .ok r') : r = r' := by
  have h1 := descend_mono (Nat.le_max_left f f') vm p st r hr
  have h2 := descend_mono (Nat.le_max_right f f') vm p st r' hr'
  rw [h1] at h2
  exact Except.ok.inj h2

/-! ### any legal parenthesisation -/

theorem renders_plain {lit : Int16 → Str} {ok : Int16 → Prop} {e : Expr} {ts : List Token}
    {lv plv : Nat} (h : Renders lit ok e ts lv plv) : ∀ t ∈ ts, Plain t := by
  have hop : ∀ o : Operator, Plain (.operator o) := fun o => ⟨fun _ h => (nomatch h), rfl⟩
  induction h with
  | int c n _ =>
    intro t ht
    simp only [List.mem_cons, List.not_mem_nil, or_false] at ht
    subst ht; exact ⟨fun _ h => (nomatch h), rfl⟩
  | paren _ ih =>
    intro t ht
    simp only [List.mem_cons, List.mem_append, List.not_mem_nil, or_false] at ht
    rcases ht with (rfl | ht) | rfl
    · exact ⟨fun _ h => (nomatch h), rfl⟩
    · exact ih t ht
    · exact ⟨fun _ h => (nomatch h), rfl⟩
  | neg c _ _ ih =>
    intro t ht
    rcases List.mem_cons.1 ht with rfl | ht
    · exact hop _
    · exact ih t ht
  | not c _ _ ih =>
    intro t ht
    rcases List.mem_cons.1 ht with rfl | ht
    · exact hop _
    · exact ih t ht
  | bin op c _ _ _ _ ihl ihr =>
    intro t ht
    simp only [List.mem_append, List.mem_cons] at ht
    rcases ht with ht | rfl | ht
    · exact ihl t ht
    · exact hop _
    · exact ihr t ht

/-- the minimal rendering `Spec.render` is one of the legal listings -/
theorem render_is_legal (lit : Int16 → Str) (ok : Int16 → Prop) (e : Expr) (hf : Frag ok e) :
    Renders lit ok e (render lit e) (level e) (plevel e) :=
  Lemmas.ParseExpr.render_renders lit hf

/-- **parse ∘ (any legal listing) = id** (up to columns): with the parentheses the documented table
    requires *or any superset of them* (`Spec.Renders`), `descend` returns a tree of the same shape
    and consumes all tokens — for every sufficiently large fuel. -/
theorem parse_renders (lit : Int16 → Str) (e : Expr) (ts : List Token) (lv plv : Nat)
    (hr : Renders lit (LitOk lit) e ts lv plv) :
    ∃ N e' st', (∀ fuel, N ≤ fuel → (descend fuel [] 0).run { toks := ts } = .ok (e', st')) ∧
      e'.shape = e.shape ∧ st'.toks = [] ∧ st'.peeked = none := by
  have hg : Good { toks := ts } := ⟨rfl, renders_plain hr⟩
  obtain ⟨e', st1, hsh, hg1, hv1, hD⟩ :=
    Lemmas.ParseExpr.G_renders [] lit hr 0 { toks := ts } [] hg (by simp [view])
      (Lemmas.ParseExpr.renders_levels hr).2 trivial
  obtain ⟨st2, hg2, hv2, hL⟩ := Lemmas.ParseExpr.loops_stop (vm := []) (p := 0) (lhs := e') hg1
    (by rw [hv1]; trivial)
  obtain ⟨N, hN⟩ := hD _ hL
  refine ⟨N, e', st2, hN, hsh, ?_⟩
  have hv : view st2 = [] := hv2.trans hv1
  unfold view at hv
  cases hpk : st2.peeked with
  | some t => rw [hpk] at hv; cases hv
  | none => rw [hpk] at hv; exact ⟨hv, rfl⟩

/-! ### corollaries: associativity and the two-operator law, for all 18 × 18 pairs -/

section corollaries
variable (lit : Int16 → Str)

/-- an Integer literal leaf -/
def L (n : Int16) : Expr := .integer (0, 0) n
/-- its token -/
def T (lit : Int16 → Str) (n : Int16) : Token := .literal (.integer (lit n))

/-- `a op1 b op2 c` with `op2` binding tighter than `op1` is `a op1 (b op2 c)`; otherwise (same
    level: left associativity; lower level) it is `(a op1 b) op2 c` -/
theorem two_operator_law (op1 op2 : BinOp) (a b c : Int16)
    (ha : LitOk lit a) (hb : LitOk lit b) (hc : LitOk lit c) :
    ∃ fuel e' st',
      (descend fuel [] 0).run { toks := [T lit a, .operator (operatorOf op1), T lit b,
                                          .operator (operatorOf op2), T lit c] } = .ok (e', st') ∧
      e'.shape = (if precOf op1 < precOf op2
                  then Expr.bin op1 (0, 0) (L a) (.bin op2 (0, 0) (L b) (L c))
                  else Expr.bin op2 (0, 0) (.bin op1 (0, 0) (L a) (L b)) (L c)) ∧
      st'.toks = [] ∧ st'.peeked = none := by
  by_cases h : precOf op1 < precOf op2
  · have hf : Frag (LitOk lit) (.bin op1 (0, 0) (L a) (.bin op2 (0, 0) (L b) (L c))) :=
      .bin _ _ _ _ (.int _ _ ha) (.bin _ _ _ _ (.int _ _ hb) (.int _ _ hc))
    obtain ⟨fuel, e', st', h1, h2, h3⟩ := parse_render lit _ hf
    refine ⟨fuel, e', st', ?_, ?_, h3⟩
    · rw [← h1]
      have : ¬ precOf op2 ≤ precOf op1 := by omega
      have h100 : ∀ o, ¬ 100 < precOf o ∧ ¬ 100 ≤ precOf o := by intro o; cases o <;> decide
      simp [render, needsParens, level, L, T, this, h100]
    · rw [h2, if_pos h]; rfl
  · have hf : Frag (LitOk lit) (.bin op2 (0, 0) (.bin op1 (0, 0) (L a) (L b)) (L c)) :=
      .bin _ _ _ _ (.bin _ _ _ _ (.int _ _ ha) (.int _ _ hb)) (.int _ _ hc)
    obtain ⟨fuel, e', st', h1, h2, h3⟩ := parse_render lit _ hf
    refine ⟨fuel, e', st', ?_, ?_, h3⟩
    · rw [← h1]
      have h100 : ∀ o, ¬ 100 < precOf o ∧ ¬ 100 ≤ precOf o := by intro o; cases o <;> decide
      simp [render, needsParens, level, L, T, h, h100]
    · rw [h2, if_neg h]; rfl

/-- binary operators of the same level associate to the left: `a op1 b op2 c = (a op1 b) op2 c` -/
theorem left_associative (op1 op2 : BinOp) (hlev : precOf op1 = precOf op2) (a b c : Int16)
    (ha : LitOk lit a) (hb : LitOk lit b) (hc : LitOk lit c) :
    ∃ fuel e' st',
      (descend fuel [] 0).run { toks := [T lit a, .operator (operatorOf op1), T lit b,
                                          .operator (operatorOf op2), T lit c] } = .ok (e', st') ∧
      e'.shape = Expr.bin op2 (0, 0) (.bin op1 (0, 0) (L a) (L b)) (L c) := by
  obtain ⟨fuel, e', st', h1, h2, _⟩ := two_operator_law lit op1 op2 a b c ha hb hc
  exact ⟨fuel, e', st', h1, by rw [h2, if_neg (by omega)]⟩

end corollaries

/-! ## (b) result types, 0 / −1, bitwise logic, TYPE MISMATCH -/

/-- relational operators return exactly 0 or −1 — for all operands, strings included -/
theorem relational_zero_or_minus_one (op : BinOp) (hop : classOf op = .relational) (a b v : Val)
    (h : meaningOf op a b = .ok v) : v = .int 0 ∨ v = .int (-1) := by
  cases op <;> simp [classOf] at hop
  · exact rel_cases (g := id) h
  · exact rel_cases (g := (!·)) h
  · exact rel_cases (g := id) h
  · exact rel_cases (g := id) h
  · exact rel_cases (g := id) h
  · exact rel_cases (g := id) h

/-- `\\`, MOD, AND, OR, XOR, IMP, EQV always return an Integer (any operands) -/
theorem integer_class_int (op : BinOp) (hop : classOf op = .integer) (a b v : Val)
    (h : meaningOf op a b = .ok v) : ∃ n, v = .int n := by
  cases op <;> simp [classOf] at hop
  · exact divint_int h
  · exact remainder_int h
  all_goals exact logic2_int h

/-- is the exponent a non-negative Integer (or not an Integer at all)? -/
def expNonneg : Val → Bool
  | .int r => decide (0 ≤ r.toInt)
  | _ => true

/-- **result types**: for every binary operator and every pair of numeric operands, a successful
    result has the documented type `Spec.resultTy` -/
theorem binop_result_type (op : BinOp) (a b v : Val) (ha : a.isNumeric) (hb : b.isNumeric)
    (h : meaningOf op a b = .ok v) : v.ty = resultTy op a.ty b.ty (expNonneg b) := by
  cases hc : classOf op with
  | relational =>
    rcases relational_zero_or_minus_one op hc a b v h with rfl | rfl <;> simp [resultTy, hc, Val.ty]
  | integer =>
    obtain ⟨n, rfl⟩ := integer_class_int op hc a b v h
    simp [resultTy, hc, Val.ty]
  | arith =>
    simp only [resultTy, hc]
    cases op <;> simp [classOf] at hc
    · exact arith_ty (fun _ _ _ => ofChecked_ty) h ha hb
    · -- sum
      cases a <;> simp [Val.isNumeric] at ha <;>
        exact arith_ty (fun _ _ _ => ofChecked_ty) (by simpa [meaningOf, Ops.sum] using h) rfl hb
    · exact arith_ty (fun _ _ _ => ofChecked_ty) h ha hb
  | divide =>
    simp only [resultTy, hc]
    cases op <;> simp [classOf] at hc
    cases a <;> cases b <;> simp [Val.isNumeric] at ha hb <;>
      simp only [meaningOf, Ops.divide, Ops.arith, Except.ok.injEq] at h <;> subst h <;> rfl
  | power =>
    simp only [resultTy, hc]
    cases op <;> simp [classOf] at hc
    cases a <;> cases b <;> simp [Val.isNumeric] at ha hb <;>
      simp only [meaningOf, Ops.power, Except.ok.injEq] at h
    case int.int l r =>
      by_cases hr : 0 ≤ r.toInt
      · simp only [ge_iff_le, hr, if_true] at h
        generalize RStd.checkedPow l r.toInt.toNat = o at h
        cases o <;> simp [err] at h
        subst h; simp [expNonneg, hr, Val.ty]
      · simp only [ge_iff_le, hr, if_false, Except.ok.injEq] at h
        subst h; simp [expNonneg, hr, Val.ty]
    all_goals (subst h; rfl)


/-! ### the documented instances, spelled out -/

/-- Integer op Integer is an Integer for `+ - * \\ MOD` -/
theorem int_int_integer (op : BinOp)
    (hop : op = .add ∨ op = .subtract ∨ op = .multiply ∨ op = .divideInt ∨ op = .modulo)
    (a b : Int16) (v : Val) (h : meaningOf op (.int a) (.int b) = .ok v) : v.ty = .int := by
  have := binop_result_type op (.int a) (.int b) v rfl rfl h
  rcases hop with rfl | rfl | rfl | rfl | rfl <;> exact this

/-- Integer ^ non-negative Integer is an Integer; with a negative exponent it is a Single -/
theorem int_pow_int (a b : Int16) (v : Val) (h : Ops.power (.int a) (.int b) = .ok v) :
    v.ty = if 0 ≤ b.toInt then .int else .sng := by
  have := binop_result_type .power (.int a) (.int b) v rfl rfl h
  by_cases hb : 0 ≤ b.toInt <;> simpa [resultTy, classOf, expNonneg, Val.ty, hb] using this

/-- `/` on two Integers is carried out in Single -/
theorem int_div_int_single (a b : Int16) : ∃ x, Ops.divide (.int a) (.int b) = .ok (.sng x) :=
  ⟨_, rfl⟩

/-- anything with a Double is a Double, for `+ - * / ^` -/
theorem double_absorbs (op : BinOp) (hop : classOf op = .arith ∨ classOf op = .divide ∨ classOf op = .power)
    (a b v : Val) (ha : a.isNumeric) (hb : b.isNumeric) (hd : a.ty = .dbl ∨ b.ty = .dbl)
    (h : meaningOf op a b = .ok v) : v.ty = .dbl := by
  have := binop_result_type op a b v ha hb h
  rw [this]
  cases a <;> cases b <;> simp [Val.isNumeric, Val.ty] at ha hb hd <;>
    rcases hop with hc | hc | hc <;> simp [resultTy, hc, promote, Val.ty]

/-- a Single with an Integer or a Single is a Single, for `+ - * / ^` -/
theorem single_with_int_or_single (op : BinOp)
    (hop : classOf op = .arith ∨ classOf op = .divide ∨ classOf op = .power)
    (a b v : Val) (ha : a.ty = .sng ∨ a.ty = .int) (hb : b.ty = .sng ∨ b.ty = .int)
    (hs : a.ty = .sng ∨ b.ty = .sng) (h : meaningOf op a b = .ok v) : v.ty = .sng := by
  have han : a.isNumeric := by cases a <;> simp [Val.ty] at ha <;> rfl
  have hbn : b.isNumeric := by cases b <;> simp [Val.ty] at hb <;> rfl
  have := binop_result_type op a b v han hbn h
  rw [this]
  cases a <;> cases b <;> simp [Val.ty] at ha hb hs <;>
    rcases hop with hc | hc | hc <;> simp [resultTy, hc, promote, Val.ty]

/-- NOT always returns an Integer; unary minus keeps the type of its operand -/
theorem not_result_integer (a v : Val) (h : Ops.not a = .ok v) : v.ty = .int := by
  obtain ⟨n, rfl⟩ := not_int h; rfl

theorem negate_keeps_type (a v : Val) (h : Ops.negate a = .ok v) : v.ty = a.ty := by
  cases a <;> simp only [Ops.negate, err, Except.ok.injEq, reduceCtorEq] at h
  · subst h; rfl
  · subst h; rfl
  · rename_i n
    cases hc : RStd.checkedNeg n <;> simp [hc] at h
    subst h; rfl

/-! ### logical operators are the 16-bit bitwise operations -/

theorem and_int (a b : Int16) : Ops.and (.int a) (.int b) = .ok (.int (a &&& b)) := rfl
theorem or_int (a b : Int16) : Ops.or (.int a) (.int b) = .ok (.int (a ||| b)) := rfl
theorem xor_int (a b : Int16) : Ops.xor (.int a) (.int b) = .ok (.int (a ^^^ b)) := rfl
theorem imp_int (a b : Int16) : Ops.imp (.int a) (.int b) = .ok (.int (~~~a ||| b)) := rfl
theorem eqv_int (a b : Int16) : Ops.eqv (.int a) (.int b) = .ok (.int (~~~(a ^^^ b))) := rfl
theorem not_int_bits (a : Int16) : Ops.not (.int a) = .ok (.int (~~~a)) := rfl
theorem not_eq_neg_sub_one (a : Int16) : Ops.not (.int a) = .ok (.int (-a - 1)) := by
  rw [← Int16.not_eq_neg_sub]; rfl

/-- `logical_bitwise`: on Integers, AND OR XOR IMP EQV NOT are `&&& ||| ^^^ (~~~·|||·) ~~~(·^^^·) ~~~` -/
theorem logical_bitwise (a b : Int16) :
    Ops.and (.int a) (.int b) = .ok (.int (a &&& b)) ∧
    Ops.or (.int a) (.int b) = .ok (.int (a ||| b)) ∧
    Ops.xor (.int a) (.int b) = .ok (.int (a ^^^ b)) ∧
    Ops.imp (.int a) (.int b) = .ok (.int (~~~a ||| b)) ∧
    Ops.eqv (.int a) (.int b) = .ok (.int (~~~(a ^^^ b))) ∧
    Ops.not (.int a) = .ok (.int (~~~a)) :=
  ⟨rfl, rfl, rfl, rfl, rfl, rfl⟩

/-- bit `i` of an Integer -/
def bit (a : Int16) (i : Nat) : Bool := a.toBitVec.getLsbD i

/-- the six truth tables of the manual, for each of the 16 bits -/
theorem truth_tables (a b : Int16) (i : Nat) (hi : i < 16) :
    bit (~~~a) i = !bit a i ∧
    bit (a &&& b) i = (bit a i && bit b i) ∧
    bit (a ||| b) i = (bit a i || bit b i) ∧
    bit (a ^^^ b) i = (bit a i != bit b i) ∧
    bit (~~~a ||| b) i = (!bit a i || bit b i) ∧
    bit (~~~(a ^^^ b)) i = (bit a i == bit b i) := by
  simp [bit, hi]
  cases a.toBitVec.getLsbD i <;> cases b.toBitVec.getLsbD i <;> rfl

/-! ### a string with a number is TYPE MISMATCH -/

theorem mismatch_arith {fi fs fd} (s : Str) (v : Val) (hv : v.isNumeric) :
    Ops.arith fi fs fd (.str s) v = err Code.typeMismatch ∧ Ops.arith fi fs fd v (.str s) = err Code.typeMismatch := by
  cases v <;> simp [Val.isNumeric] at hv <;> exact ⟨rfl, rfl⟩

/-- `+ - * / ^` and the six relational operators on one string and one number, in either order -/
theorem string_number_mismatch (op : BinOp) (hop : classOf op ≠ .integer) (s : Str) (v : Val)
    (hv : v.isNumeric) :
    meaningOf op (.str s) v = err Code.typeMismatch ∧ meaningOf op v (.str s) = err Code.typeMismatch := by
  cases op <;> simp [classOf] at hop <;> cases v <;> simp [Val.isNumeric] at hv <;> exact ⟨rfl, rfl⟩

/-- `\\ MOD AND OR XOR IMP EQV` convert the left operand to an Integer first: a string on the left is
    TYPE MISMATCH; a string on the right is TYPE MISMATCH when the left number converts (every
    Integer does), otherwise the conversion's own error (OVERFLOW for a float outside
    −32768..32767) comes first — e.g. `1E10 MOD "A"` is OVERFLOW -/
theorem string_number_mismatch_integer_ops (op : BinOp) (hop : classOf op = .integer) (s : Str) (v : Val) :
    meaningOf op (.str s) v = err Code.typeMismatch ∧
    (∀ n, v.toI16 = .ok n → meaningOf op v (.str s) = err Code.typeMismatch) ∧
    (∀ e, v.toI16 = .error e → meaningOf op v (.str s) = .error e) := by
  have hs : (Val.str s).toI16 = err Code.typeMismatch := rfl
  cases op <;> simp [classOf] at hop <;>
  · refine ⟨rfl, fun n h => ?_, fun e h => ?_⟩ <;>
      simp [meaningOf, Ops.divint, Ops.remainder, Ops.and, Ops.or, Ops.xor, Ops.imp, Ops.eqv,
        Ops.logic2, h, hs, bind, Except.bind, err]

theorem negate_string (s : Str) : Ops.negate (.str s) = err Code.typeMismatch := rfl
theorem not_string (s : Str) : Ops.not (.str s) = err Code.typeMismatch := rfl

/-! ## non-vacuity -/

example : Gen.binaryPrec .caret = 13 ∧ Gen.binaryPrec .eqv = 1 ∧ Gen.unaryPrec .not = 6 := by decide

example : ((descend 10 [] 0).run { toks := [.literal (.integer ['1']), .operator .plus,
      .literal (.integer ['2']), .operator .multiply, .literal (.integer ['3'])] }
    |>.toOption.map (·.1.shape)) =
    some (.bin .add (0, 0) (L 1) (.bin .multiply (0, 0) (L 2) (L 3))) := by rfl

/-- `NOT 1 = 2` is `NOT (1 = 2)`; `- 1 ^ 2` is `-(1 ^ 2)` -/
example : ((descend 10 [] 0).run { toks := [.operator .not, .literal (.integer ['1']),
      .operator .equal, .literal (.integer ['2'])] }
    |>.toOption.map (·.1.shape)) = some (.not (0, 0) (.bin .equal (0, 0) (L 1) (L 2))) := by rfl
example : ((descend 10 [] 0).run { toks := [.operator .minus, .literal (.integer ['1']),
      .operator .caret, .literal (.integer ['2'])] }
    |>.toOption.map (·.1.shape)) = some (.neg (0, 0) (.bin .power (0, 0) (L 1) (L 2))) := by rfl

/-- a literal table for which the hypothesis of `parse_render` holds at 1, 2, 3 -/
def demoLit (n : Int16) : Str := if n = 1 then ['1'] else if n = 2 then ['2'] else ['3']

example : LitOk demoLit 1 ∧ LitOk demoLit 2 ∧ LitOk demoLit 3 := by decide

/-- `(1 + 2) * 3` keeps its parentheses, `1 + 2 * 3` and `1 - 2 - 3` have none, `1 - (2 - 3)` has -/
example : render demoLit (.bin .multiply (0, 0) (.bin .add (0, 0) (L 1) (L 2)) (L 3)) =
    [.lparen, T demoLit 1, .operator .plus, T demoLit 2, .rparen, .operator .multiply, T demoLit 3] := by
  decide
example : render demoLit (.bin .subtract (0, 0) (.bin .subtract (0, 0) (L 1) (L 2)) (L 3)) =
    [T demoLit 1, .operator .minus, T demoLit 2, .operator .minus, T demoLit 3] := by decide
example : render demoLit (.bin .subtract (0, 0) (L 1) (.bin .subtract (0, 0) (L 2) (L 3))) =
    [T demoLit 1, .operator .minus, .lparen, T demoLit 2, .operator .minus, T demoLit 3, .rparen] := by
  decide

example : ∃ fuel e' st', (descend fuel [] 0).run
      { toks := render demoLit (.bin .multiply (0, 0) (.bin .add (0, 0) (L 1) (L 2)) (.neg (0, 0) (L 3))) }
      = .ok (e', st') ∧
    e'.shape = .bin .multiply (0, 0) (.bin .add (0, 0) (L 1) (L 2)) (.neg (0, 0) (L 3)) ∧
    st'.toks = [] ∧ st'.peeked = none :=
  parse_render demoLit _ (.bin _ _ _ _ (.bin _ _ _ _ (.int _ _ (by decide)) (.int _ _ (by decide)))
    (.neg _ _ (.int _ _ (by decide))))

/-- redundant parentheses are legal: `((1)) + (2 * 3)` is a listing of `1 + 2 * 3` -/
example : Renders demoLit (LitOk demoLit) (.bin .add (0, 0) (L 1) (.bin .multiply (0, 0) (L 2) (L 3)))
    [.lparen, .lparen, T demoLit 1, .rparen, .rparen, .operator .plus,
     .lparen, T demoLit 2, .operator .multiply, T demoLit 3, .rparen] 8 8 :=
  .bin .add _ (.paren (.paren (.int _ _ (by decide))))
    (.paren (.bin .multiply _ (.int _ _ (by decide)) (.int _ _ (by decide)) (by decide) (by decide)))
    (by decide) (by decide)

example : Ops.not (.int 5) = .ok (.int (-6)) := by decide
example : Ops.imp (.int 12) (.int 10) = .ok (.int (-5)) := by decide
example : Ops.less (.str ['A']) (.str ['B']) = .ok (.int (-1)) := by decide
example : Ops.sum (.str ['A']) (.int 1) = err Code.typeMismatch := by decide
example : Ops.power (.int 2) (.int 10) = .ok (.int 1024) := by decide
example : resultTy .divide .int .int = .sng ∧ resultTy .add .int .sng = .sng ∧
    resultTy .multiply .sng .dbl = .dbl ∧ resultTy .modulo .dbl .dbl = .int := by decide

/-- the runtime's opcode → `Operation::…` / `Function::…` dispatch, re-extracted from
    `runtime.rs` on every run, is the documented one (a `Sub` wired to `sum`, or a swapped pair of
    comparison arms, breaks this theorem) -/
theorem dispatch_documented : Gen.dispatch = Thm.Tables.documentedDispatch :=
  Thm.Tables.dispatch_documented

end Thm.C02
end Basic
