import BasicModel.Thm.C17
import BasicModel.Lemmas.InputRun
/-
  C17, continued — the INPUT statement end to end.

  `Thm/C17.lean` has the pieces (splitter, `doInputReply`, `doInput`, prompt, REDO unwinding).  This
  file composes them, against the hand-written specification `Spec.inputSpec` (Spec/InputStmt.lean):

  1. specification — `inputSpec` and what it says for the cases the property names;
  2. code shape — `input_statement_code`: what `Codegen.acceptStmt (.input …)` emits;
  3. accepted reply — `input_prompt`, `input_accepted`, `input_accepted_done`: from the statement's
     first opcode to the prompt event, and from the reply to the state behind the statement with
     `vars` = the specification's, the stack as before the statement, the column 0;
  4. refused reply — `input_refused`: the machine reaches `inputRedo` with the stack and `pc` of the
     waiting state, reports REDO FROM START and shows the same prompt again; its variables are
     `redoVars`.  ATOMICITY: `redoVars_atomic_partial` (too long / wrong count / first target refused:
     nothing assigned) and the FINDING `input_redo_not_atomic`: the model (and `runtime.rs`) assigns
     target by target, so the targets before a refused field keep the values of the refused reply;
  5. non-vacuity — `INPUT "N";A%,B$` with the replies `7, "x,y"`, `7` and `x,1`.
-/
namespace Basic
namespace Thm.C17
open Basic.Runtime Basic.Spec Basic.Lemmas.ExprCompile Basic.Lemmas.InputRun
open Basic.Lemmas.FnCall (ValueStore valueStore_new)

/-! ### 1. the specification -/

/-- the conversion of one field in the model (`convertField`, read off `doInput`) is the
    specification's -/
theorem field_conversion_spec (name field : Str) : convertField name field = fieldValue name field :=
  convertField_eq_fieldValue name field

/-- a `$` target: the trimmed field with one pair of enclosing quotes removed -/
theorem fieldValue_string (name field : Str) (h : name.getLast? = some '$') :
    fieldValue name field = .str (unquote (RStd.trim field)) := by
  simp only [fieldValue, h, if_true]

/-- a numeric target: the number the trimmed field spells, nothing being 0 -/
theorem fieldValue_numeric (name field : Str) (h : name.getLast? ≠ some '$') :
    fieldValue name field = if RStd.trim field = [] then .int 0 else Val.ofStr (RStd.trim field) := by
  simp only [fieldValue, h, if_false]

theorem unquote_quoted (m : Str) : unquote ('"' :: m ++ ['"']) = m := by
  rw [← stripQuotes_eq_unquote]; exact stripQuotes_quoted m

/-- an over-long reply is refused whatever it says -/
theorem inputSpec_too_long (vars : Var) (ts : List InTarget) (reply : Str)
    (h : RStd.utf8Len reply > Gen.maxLineLen) : inputSpec vars ts reply = .error .redo := by
  simp only [inputSpec, h, if_true]

/-- a number of fields different from the number of targets is refused -/
theorem inputSpec_count (vars : Var) (ts : List InTarget) (reply : Str)
    (h : (replyFields ts.length reply).length ≠ ts.length) : inputSpec vars ts reply = .error .redo := by
  unfold inputSpec
  split
  · rfl
  · simp only [h, ne_eq, not_false_eq_true, if_true]

/-- ONE scalar target takes the whole reply — commas and quotes included — as its field -/
theorem inputSpec_single (vars : Var) (n : Str) (reply : Str) (h : RStd.utf8Len reply ≤ Gen.maxLineLen) :
    inputSpec vars [.scalar n] reply =
      match vars.store n (fieldValue n reply) with
      | .ok v => .ok v
      | .error _ => .error .redo := by
  have h' : ¬ RStd.utf8Len reply > Gen.maxLineLen := by omega
  simp only [inputSpec, h', if_false, replyFields, List.length_singleton, Nat.le_refl, if_true, ne_eq,
    not_true_eq_false, assignAll, assignTarget, InTarget.name]
  cases vars.store n (fieldValue n reply) <;> rfl

/-- what an accepting `inputSpec` says -/
theorem inputSpec_ok {vars v' : Var} {ts : List InTarget} {reply : Str} (h : inputSpec vars ts reply = .ok v') :
    RStd.utf8Len reply ≤ Gen.maxLineLen ∧ (replyFields ts.length reply).length = ts.length ∧
      assignAll vars ts (replyFields ts.length reply) = (v', true) := by
  unfold inputSpec at h
  split at h
  · cases h
  · rename_i hl
    simp only at h
    split at h
    · cases h
    · rename_i hc
      refine ⟨by omega, by simpa using hc, ?_⟩
      split at h
      · rename_i v heq; cases h; exact heq
      · cases h

/-- what a refusing `inputSpec` says -/
theorem inputSpec_redo {vars : Var} {ts : List InTarget} {reply : Str} (h : inputSpec vars ts reply = .error .redo) :
    RStd.utf8Len reply > Gen.maxLineLen ∨ (replyFields ts.length reply).length ≠ ts.length ∨
      (assignAll vars ts (replyFields ts.length reply)).2 = false := by
  unfold inputSpec at h
  split at h
  · rename_i hl; exact .inl hl
  · simp only at h
    split at h
    · rename_i hc; exact .inr (.inl hc)
    · split at h
      · cases h
      · rename_i v heq; exact .inr (.inr (by rw [heq]))

/-! ### 2. the code -/

/-- **Code shape.**  `INPUT [,]["prompt";] v₁,…,vₖ` (caps expression an Integer literal: 0 for the
    leading-comma form, −1 otherwise; scalar targets and array elements with subscripts in the pure
    fragment) compiles to one fragment whose code is

        literal "prompt" · literal caps · literal k · (input vᵢ · ⟨store vᵢ⟩)ᵢ₌₁..ₖ · input ""

    with `⟨store v⟩ = pop v` for a scalar and `subscripts… · literal n · popArr v` for an element. -/
theorem input_statement_code (c cc pc : Col) (capsN : Int16) (prompt : Str) (vs : List Variable)
    (hok : ∀ x ∈ vs, TargetOk x) (s : Codegen.VState) (hk : vs.length ≤ 32767)
    (hlen : (inputCode capsN prompt (vs.map targetOf)).length ≤ Gen.stackMaxLen) :
    (Codegen.acceptStmt (.input c (.integer cc capsN) (.string pc prompt) vs) s).g.stmt =
      s.g.stmt.push (c, plain (inputCode capsN prompt (vs.map targetOf)).toArray) ∧
    (Codegen.acceptStmt (.input c (.integer cc capsN) (.string pc prompt) vs) s).errors = s.errors := by
  rw [input_codegen_shape c cc pc capsN prompt vs hok s hk hlen]
  exact ⟨rfl, rfl⟩

/-! ### 3. the run -/

/-- a running machine (trace off, no errors in the direct statements) whose `pc` is at the code of an
    INPUT statement with at least one target, with room on the stack -/
structure AtInput (s : Runtime) (capsN : Int16) (prompt : Str) (ts : List InTarget) : Prop where
  running : s.state = .running
  traceOff : s.tron = false
  noDirectErrors : s.listing.directErrors.isEmpty = true
  code : CodeAt s.program.link.ops s.pc (inputCode capsN prompt ts)
  targets : ∀ t ∈ ts, TargetRunOk t
  nonempty : 1 ≤ ts.length
  count : ts.length ≤ 32767
  room : s.stack.size + 4 + ts.length + (ts.flatMap targetCode).length ≤ Gen.stackMaxLen

/-- the state after the first slice: prompt, caps value and count pushed, `pc` on the first `input`
    opcode, state `input` -/
def asking (s : Runtime) (capsN : Int16) (prompt : Str) (k : Nat) : Runtime :=
  { s with pc := s.pc + 3,
           stack := ((s.stack.push (.str prompt)).push (.int capsN)).push (.int (Int16.ofNat k)),
           state := .input }

/-- … and after the prompt has been shown: the column is 0; the machine waits for `enter` -/
def waiting (s : Runtime) (capsN : Int16) (prompt : Str) (k : Nat) : Runtime :=
  { asking s capsN prompt k with printCol := 0 }

/-- the state after a reply with the right number of fields: `ret` (the address of the first `input`
    opcode) and the fields, first field on top; state `inputRunning` -/
def accepted (s : Runtime) (capsN : Int16) (prompt : Str) (k : Nat) (fs : List Str) : Runtime :=
  { waiting s capsN prompt k with
      stack := (waiting s capsN prompt k).stack ++ (Val.ret (s.pc + 3) :: fs.reverse.map Val.str).toArray,
      state := .inputRunning }

/-- the state behind the statement: `s` with the new variables, `pc` past the code, column 0 -/
def behind (s : Runtime) (capsN : Int16) (prompt : Str) (ts : List InTarget) (v' : Var) : Runtime :=
  { s with pc := s.pc + (inputCode capsN prompt ts).length, vars := v', printCol := 0 }

/-- **the prompt.**  The first slice (quantum ≥ 4) pushes the three values and returns `running`
    with the machine in state `input`; the next slice — any quantum — returns the `input` event with
    the prompt text followed by `"? "` and the caps flag "the caps value is not 0", resets the column
    and changes nothing else. -/
theorem input_prompt (env : Env) {s : Runtime} {capsN : Int16} {prompt : Str} {ts : List InTarget}
    (h : AtInput s capsN prompt ts) (q : Nat) (hq : 4 ≤ q) (q' : Nat) :
    execute env s q = (asking s capsN prompt ts.length, .running) ∧
    execute env (asking s capsN prompt ts.length) q' =
      (waiting s capsN prompt ts.length, .input (inputPrompt prompt) (decide (Val.int capsN ≠ .int 0))) := by
  have hr := h.room
  constructor
  · exact execute_of_runSteps_event env s _ q .running (.inl h.running) h.noDirectErrors
      (Lemmas.PrintRun.runSteps_event_mono env _ 4 q s _ _
        (input_suspends env _ capsN prompt ts s h.running h.traceOff h.code (by omega)) hq)
      (by show RState.input ≠ .stopped; decide)
  · exact execute_input_prompt env (asking s capsN prompt ts.length) q' s.stack prompt (.int capsN)
      (.int (Int16.ofNat ts.length)) rfl rfl (by omega)

/-- the caps flag is off exactly for the leading-comma form (for which the parser supplies the caps
    value 0, and −1 otherwise: `Parse.inputStmt`) -/
theorem input_caps_flag (comma : Bool) :
    decide (Val.int (if comma then 0 else -1) ≠ .int 0) = inputCaps comma := by
  cases comma <;> decide

theorem asking_top (s : Runtime) (capsN : Int16) (prompt : Str) (k : Nat) :
    (waiting s capsN prompt k).stack.back? = some (.int (Int16.ofNat k)) := by
  simp [waiting, asking]

/-- `enter` with a reply that is not too long and has the right number of fields -/
theorem enter_right_count (env : Env) {s : Runtime} {capsN : Int16} {prompt : Str} {ts : List InTarget}
    (h : AtInput s capsN prompt ts) (reply : Str) (hl : RStd.utf8Len reply ≤ Gen.maxLineLen)
    (hc : (replyFields ts.length reply).length = ts.length) :
    enter env (waiting s capsN prompt ts.length) reply =
      accepted s capsN prompt ts.length (replyFields ts.length reply) := by
  have hr := h.room
  rw [enter_accept env (waiting s capsN prompt ts.length) reply ts.length h.nonempty h.count rfl
    (asking_top s capsN prompt ts.length) hl hc (by simp [waiting, asking]; omega)]
  rfl

/-- the run of the targets and the closing opcode after an accepted reply -/
theorem accepted_run (env : Env) (hie : Bool) {s : Runtime} {capsN : Int16} {prompt : Str} {ts : List InTarget}
    (h : AtInput s capsN prompt ts) (fs : List Str) (hlen : ts.length = fs.length) (v' : Var)
    (ha : assignAll s.vars ts fs = (v', true)) :
    runSteps env hie ((ts.flatMap targetCode).length + 1) (accepted s capsN prompt ts.length fs) =
      (.ok .continue, behind s capsN prompt ts v') := by
  have hr := h.room
  have hcode : CodeAt s.program.link.ops (s.pc + 3) (ts.flatMap targetCode ++ [.input []]) := by
    have := h.code
    unfold inputCode at this
    rw [List.append_assoc] at this
    exact this.right
  rw [input_accept_run env hie ts fs (accepted s capsN prompt ts.length fs) s.stack (.str prompt) (.int capsN)
    (.int (Int16.ofNat ts.length)) (s.pc + 3) v' h.targets rfl h.traceOff hcode
    (by simp only [accepted, waiting, asking]; apply Array.ext'; simp) (by omega) hlen ha]
  simp only [accepted, waiting, asking, behind, inputCode_length, ← h.running]
  congr 2
  omega

/-- **accepted reply.**  When the specification accepts the reply with the variables `v'`:
    `enter` stages the fields, and the slices that follow run the conversions and the stores and go
    on behind the statement exactly as the machine `behind …` would: `vars = v'`, the stack as before
    the statement, column 0, `pc` past the statement's code, state `running`.  (A slice whose quantum
    covers the rest of the statement and `m` more instructions is the slice of quantum `m` from
    there.) -/
theorem input_accepted (env : Env) {s : Runtime} {capsN : Int16} {prompt : Str} {ts : List InTarget}
    (h : AtInput s capsN prompt ts) (reply : Str) (v' : Var) (hv : inputSpec s.vars ts reply = .ok v') (m : Nat) :
    enter env (waiting s capsN prompt ts.length) reply =
      accepted s capsN prompt ts.length (replyFields ts.length reply) ∧
    execute env (accepted s capsN prompt ts.length (replyFields ts.length reply))
        ((ts.flatMap targetCode).length + 1 + m) =
      execute env (behind s capsN prompt ts v') m := by
  obtain ⟨hl, hc, ha⟩ := inputSpec_ok hv
  refine ⟨enter_right_count env h reply hl hc, ?_⟩
  exact execute_split env _ _ _ m (.inr rfl) (.inl h.running) rfl h.noDirectErrors
    (accepted_run env _ h _ hc.symm v' ha)

/-- … in particular a slice that covers exactly the rest of the statement stops right behind it -/
theorem input_accepted_done (env : Env) {s : Runtime} {capsN : Int16} {prompt : Str} {ts : List InTarget}
    (h : AtInput s capsN prompt ts) (reply : Str) (v' : Var) (hv : inputSpec s.vars ts reply = .ok v') :
    execute env (enter env (waiting s capsN prompt ts.length) reply) ((ts.flatMap targetCode).length + 1) =
      (behind s capsN prompt ts v', .running) ∧
    (behind s capsN prompt ts v').vars = v' ∧ (behind s capsN prompt ts v').stack = s.stack ∧
    (behind s capsN prompt ts v').printCol = 0 ∧ (behind s capsN prompt ts v').state = .running ∧
    (behind s capsN prompt ts v').pc = s.pc + (inputCode capsN prompt ts).length := by
  obtain ⟨hl, hc, ha⟩ := inputSpec_ok hv
  rw [enter_right_count env h reply hl hc]
  refine ⟨?_, rfl, rfl, rfl, h.running, rfl⟩
  exact execute_of_runSteps_continue env _ _ _ (.inr rfl) h.noDirectErrors
    (accepted_run env _ h _ hc.symm v' ha) (by rw [show (behind s capsN prompt ts v').state = s.state from rfl, h.running]; simp)

/-! ### 4. refused replies -/

/-- the variables the MACHINE has when it reports REDO FROM START for a refused reply: untouched when
    the reply is too long or has the wrong number of fields; otherwise the working copy in which the
    fields BEFORE the refused one have been assigned -/
def redoVars (vars : Var) (ts : List InTarget) (reply : Str) : Var :=
  if RStd.utf8Len reply > Gen.maxLineLen ∨ (replyFields ts.length reply).length ≠ ts.length then vars
  else (assignAll vars ts (replyFields ts.length reply)).1

/-- `reply`, entered in the waiting state `w`, is refused, and `sR` is the state in which the REDO is
    about to be reported: either `enter` refuses by itself, or it stages the fields and the next
    slice (quantum `q`) fails in a target and comes back with `running` -/
inductive RefusedAt (env : Env) (w : Runtime) (reply : Str) (q : Nat) : Runtime → Prop where
  | byEnter : (enter env w reply).state = .inputRedo → RefusedAt env w reply q (enter env w reply)
  | byTarget (sR : Runtime) : (enter env w reply).state = .inputRunning →
      execute env (enter env w reply) q = (sR, .running) → RefusedAt env w reply q sR

/-- **refused reply.**  When the specification refuses the reply (the variables holding numbers and
    strings, as in every reachable state: `Lemmas.FnCall.valueStore_of_typed`), the machine gets — by
    `enter` alone, or by the slice after it, whose quantum covers the targets' code — into the waiting
    state again but for
    `state = inputRedo` and `vars = redoVars …`: same stack as at the first prompt, same `pc`, column
    0, everything else untouched.  The next slice reports `?REDO FROM START`, the one after shows the
    same prompt with the same caps flag, and the machine waits in state `input` as before. -/
theorem input_refused (env : Env) {s : Runtime} {capsN : Int16} {prompt : Str} {ts : List InTarget}
    (h : AtInput s capsN prompt ts) (reply : Str) (hv : inputSpec s.vars ts reply = .error .redo)
    (hvals : ValueStore s.vars)
    (q : Nat) (hq : (ts.flatMap targetCode).length ≤ q) (q1 q2 : Nat) :
    let w := waiting s capsN prompt ts.length
    let sR : Runtime := { w with state := .inputRedo, vars := redoVars s.vars ts reply }
    RefusedAt env w reply q sR ∧
    execute env sR q1 = ({ sR with state := .input }, .errors [Error.mk' Code.redoFromStart]) ∧
    execute env { sR with state := .input } q2 =
      ({ w with vars := redoVars s.vars ts reply },
       .input (inputPrompt prompt) (decide (Val.int capsN ≠ .int 0))) := by
  intro w sR
  have hr := h.room
  have hrp := redo_report_and_prompt env sR s.stack prompt (.int capsN) (.int (Int16.ofNat ts.length)) q1 q2 rfl rfl
    (by omega)
  refine ⟨?_, hrp.1, hrp.2⟩
  by_cases hl : RStd.utf8Len reply > Gen.maxLineLen
  · -- too long
    have he : enter env w reply = sR := by
      rw [enter_input_too_long env w reply rfl hl]
      simp only [sR, redoVars, hl, true_or, if_true]
      rfl
    rw [← he]
    exact .byEnter (by rw [he])
  · by_cases hc : (replyFields ts.length reply).length ≠ ts.length
    · -- wrong number of fields
      have he : enter env w reply = sR := by
        rw [enter_refuse_count env w reply ts.length h.nonempty h.count rfl (asking_top s capsN prompt ts.length)
          (by omega) hc]
        simp only [sR, redoVars, hc, ne_eq, not_false_eq_true, or_true, if_true]
        rfl
      rw [← he]
      exact .byEnter (by rw [he])
    · -- a field is refused
      have hc' : (replyFields ts.length reply).length = ts.length := by simpa using hc
      have hfalse : (assignAll s.vars ts (replyFields ts.length reply)).2 = false := by
        rcases inputSpec_redo hv with h1 | h1 | h1
        · exact absurd h1 hl
        · exact absurd h1 hc
        · exact h1
      have he := enter_right_count env h reply (by omega) hc'
      have hcode : CodeAt s.program.link.ops (s.pc + 3) (ts.flatMap targetCode) := by
        have := h.code
        unfold inputCode at this
        exact this.left.right
      have hx := execute_field_refused env ts (replyFields ts.length reply)
        (accepted s capsN prompt ts.length (replyFields ts.length reply)) s.stack (.str prompt) (.int capsN)
        (.int (Int16.ofNat ts.length)) (s.pc + 3) (assignAll s.vars ts (replyFields ts.length reply)).1 q
        h.targets rfl h.traceOff h.noDirectErrors hcode
        (by simp only [accepted, waiting, asking]; apply Array.ext'; simp) (by omega) hc'.symm hvals
        (by rw [← hfalse]; rfl) hq
      refine .byTarget sR (by rw [he]; rfl) ?_
      rw [he, hx]
      simp only [sR, w, redoVars, hl, hc, or_self, if_false, accepted, waiting, asking]

/-- **atomicity, the part that holds.**  Nothing has been assigned when the REDO is reported if the
    reply is too long, has the wrong number of fields, or is refused in its FIRST field by a scalar
    target. -/
theorem redoVars_atomic_partial (vars : Var) (ts : List InTarget) (reply : Str)
    (h : RStd.utf8Len reply > Gen.maxLineLen ∨ (replyFields ts.length reply).length ≠ ts.length ∨
      ∃ n ts' f fs', ts = .scalar n :: ts' ∧ replyFields ts.length reply = f :: fs' ∧
        (vars.store n (fieldValue n f)).toBool = false) :
    redoVars vars ts reply = vars := by
  unfold redoVars
  split
  · rfl
  · rename_i hn
    rcases h with h | h | ⟨n, ts', f, fs', hts, hfs, hst⟩
    · exact absurd (.inl h) hn
    · exact absurd (.inr h) hn
    · rw [hfs, hts]
      cases hs : vars.store n (fieldValue n f) with
      | ok v => rw [hs] at hst; cases hst
      | error e => simp only [assignAll, assignTarget, InTarget.name, hs]

/-
  The FULL atomicity statement of the property — "if a field does not convert, NOTHING is assigned" —

      theorem input_refused_atomic … (hv : inputSpec s.vars ts reply = .error .redo) :
          RefusedAt env w reply q { w with state := .inputRedo }          -- i.e. `vars` as before

  is FALSE in the model (and in `src/mach/runtime.rs`, whose `r#input` only converts the field and
  leaves the store to the `Pop`/`PopArr` opcode that follows it, target by target): see
  `input_redo_not_atomic` / `input_redo_not_atomic_machine` below.  What is restored is the stack and
  `pc`; `redoVars_atomic_partial` is the part of the statement that holds, `input_refused` says
  exactly what the variables are in general.
-/

/-- **FINDING (model = implementation).**  `INPUT A%,B%` with the reply `5,x` is refused by the
    specification (`x` is no number), but when REDO FROM START is reported `A%` is already 5. -/
theorem input_redo_not_atomic :
    (inputSpec Var.new [.scalar "A%".toList, .scalar "B%".toList] "5,x".toList).toBool = false ∧
    (redoVars Var.new [.scalar "A%".toList, .scalar "B%".toList] "5,x".toList).fetch "A%".toList = .ok (.int 5) ∧
    Var.new.fetch "A%".toList = .ok (.int 0) := by
  decide +kernel

/-! ### 5. non-vacuity: `INPUT "N";A%,B$` and `INPUT A%,B%` on concrete machines -/

/-- the targets of `INPUT "N";A%,B$` -/
def demoTargets : List InTarget := [.scalar "A%".toList, .scalar "B$".toList]

/-- a machine whose program is the code of `INPUT "N";A%,B$` (caps value −1: no leading comma),
    running at its first opcode, with empty stack and variables -/
def demo : Runtime :=
  { program := { link := { ops := (inputCode (-1) "N".toList demoTargets).toArray } }, state := .running }

theorem demo_atInput : AtInput demo (-1) "N".toList demoTargets where
  running := rfl
  traceOff := rfl
  noDirectErrors := by decide
  code := by decide
  targets := by
    intro t ht
    simp only [demoTargets, List.mem_cons, List.not_mem_nil, or_false] at ht
    rcases ht with rfl | rfl <;> simp [TargetRunOk]
  nonempty := by decide
  count := by decide
  room := by decide

/-- the code is `LIT "N" · LIT −1 · LIT 2 · INPUT A% · POP A% · INPUT B$ · POP B$ · INPUT ""` -/
example : inputCode (-1) "N".toList demoTargets =
    [.literal (.str "N".toList), .literal (.int (-1)), .literal (.int 2), .input "A%".toList, .pop "A%".toList,
     .input "B$".toList, .pop "B$".toList, .input []] := by decide

/-- the prompt is `N? `, caps on -/
example (env : Env) : execute env (asking demo (-1) "N".toList 2) 0 =
    (waiting demo (-1) "N".toList 2, .input "N? ".toList true) :=
  (input_prompt env demo_atInput 4 (by decide) 0).2

/-- reply `7, "x,y"`: accepted; `A% = 7`, `B$ = x,y` (quotes removed, the comma inside them kept);
    five instructions later the machine is behind the statement with empty stack and column 0 -/
theorem demo_accepted (env : Env) :
    ∃ v', inputSpec demo.vars demoTargets "7, \"x,y\"".toList = .ok v' ∧
      v'.vars = [("B$".toList, .str "x,y".toList), ("A%".toList, .int 7)] ∧
      execute env (enter env (waiting demo (-1) "N".toList 2) "7, \"x,y\"".toList) 5 =
        (behind demo (-1) "N".toList demoTargets v', .running) ∧
      (behind demo (-1) "N".toList demoTargets v').stack = #[] ∧
      (behind demo (-1) "N".toList demoTargets v').pc = 8 := by
  have hd : (inputSpec demo.vars demoTargets "7, \"x,y\"".toList).map (·.vars) =
      .ok [("B$".toList, .str "x,y".toList), ("A%".toList, .int 7)] := by decide +kernel
  cases hv : inputSpec demo.vars demoTargets "7, \"x,y\"".toList with
  | error r => rw [hv] at hd; cases hd
  | ok v' =>
    rw [hv] at hd
    refine ⟨v', rfl, by injection hd, (input_accepted_done env demo_atInput _ v' hv).1, rfl, rfl⟩

/-- reply `7`: one field for two targets — refused by `enter`, nothing assigned, REDO FROM START and
    the prompt `N? ` again -/
theorem demo_refused_count (env : Env) (q q1 q2 : Nat) :
    let w := waiting demo (-1) "N".toList 2
    RefusedAt env w "7".toList q { w with state := .inputRedo } ∧
    execute env { w with state := .inputRedo } q1 =
      ({ w with state := .input }, .errors [Error.mk' Code.redoFromStart]) ∧
    execute env { w with state := .input } q2 = (w, .input "N? ".toList true) := by
  have hv : inputSpec demo.vars demoTargets "7".toList = .error .redo := inputSpec_count _ _ _ (by decide)
  have ha : redoVars demo.vars demoTargets "7".toList = demo.vars :=
    redoVars_atomic_partial _ _ _ (.inr (.inl (by decide)))
  have h := input_refused env demo_atInput "7".toList hv valueStore_new (q + 4)
    (by show 4 ≤ q + 4; omega) q1 q2
  simp only [ha] at h
  obtain ⟨h1, h2, h3⟩ := h
  refine ⟨?_, h2, h3⟩
  cases h1 with
  | byEnter he => exact .byEnter he
  | byTarget _ he hx =>
    -- not this way: `enter` itself refuses
    exfalso
    have : (enter env (waiting demo (-1) "N".toList 2) "7".toList).state = .inputRedo := by
      rw [enter_refuse_count env _ "7".toList 2 (by decide) (by decide) rfl (asking_top _ _ _ _) (by decide)
        (by decide)]
    change (enter env (waiting demo (-1) "N".toList 2) "7".toList).state = _ at he
    rw [this] at he; cases he

/-- reply `x,1`: two fields, but `x` is no number — the FIRST target refuses, so nothing has been
    assigned (here the retry is atomic); REDO FROM START and the prompt again -/
theorem demo_refused_field (env : Env) (q1 q2 : Nat) :
    let w := waiting demo (-1) "N".toList 2
    (inputSpec demo.vars demoTargets "x,1".toList).toBool = false ∧
    RefusedAt env w "x,1".toList 4 { w with state := .inputRedo } ∧
    execute env { w with state := .inputRedo } q1 =
      ({ w with state := .input }, .errors [Error.mk' Code.redoFromStart]) ∧
    execute env { w with state := .input } q2 = (w, .input "N? ".toList true) := by
  have hb : (inputSpec demo.vars demoTargets "x,1".toList).toBool = false := by decide +kernel
  have hv : inputSpec demo.vars demoTargets "x,1".toList = .error .redo := by
    cases hx : inputSpec demo.vars demoTargets "x,1".toList with
    | error r => cases r; rfl
    | ok v => rw [hx] at hb; cases hb
  have ha : redoVars demo.vars demoTargets "x,1".toList = demo.vars := by
    refine redoVars_atomic_partial _ _ _ (.inr (.inr ⟨"A%".toList, [.scalar "B$".toList], "x".toList, ["1".toList],
      rfl, by decide, by decide +kernel⟩))
  have h := input_refused env demo_atInput "x,1".toList hv valueStore_new 4 (by decide) q1 q2
  simp only [ha] at h
  exact ⟨hb, h⟩

/-- the same three replies, by evaluating the model itself (`enter`, `execute`) in the kernel -/
def demoEnv : Env := { lex := fun _ => default, lineRenum := fun _ l => l }

example : (execute demoEnv (enter demoEnv (waiting demo (-1) "N".toList 2) "7, \"x,y\"".toList) 5).1.vars.vars =
    [("B$".toList, .str "x,y".toList), ("A%".toList, .int 7)] := by decide +kernel
example : (execute demoEnv (enter demoEnv (waiting demo (-1) "N".toList 2) "7, \"x,y\"".toList) 5).1.state = .running ∧
    (execute demoEnv (enter demoEnv (waiting demo (-1) "N".toList 2) "7, \"x,y\"".toList) 5).1.stack = #[] ∧
    (execute demoEnv (enter demoEnv (waiting demo (-1) "N".toList 2) "7, \"x,y\"".toList) 5).1.pc = 8 := by
  decide +kernel
example : (enter demoEnv (waiting demo (-1) "N".toList 2) "7".toList).state = .inputRedo := by decide +kernel
example : (execute demoEnv (enter demoEnv (waiting demo (-1) "N".toList 2) "x,1".toList) 4).1.state = .inputRedo ∧
    (execute demoEnv (enter demoEnv (waiting demo (-1) "N".toList 2) "x,1".toList) 4).1.vars.vars = [] ∧
    (execute demoEnv (enter demoEnv (waiting demo (-1) "N".toList 2) "x,1".toList) 4).1.stack =
      #[.str "N".toList, .int (-1), .int 2] := by decide +kernel

/-! the finding on a machine: `INPUT A%,B%`, reply `5,x` -/

def demo2Targets : List InTarget := [.scalar "A%".toList, .scalar "B%".toList]

def demo2 : Runtime :=
  { program := { link := { ops := (inputCode (-1) [] demo2Targets).toArray } }, state := .running }

theorem demo2_atInput : AtInput demo2 (-1) [] demo2Targets where
  running := rfl
  traceOff := rfl
  noDirectErrors := by decide
  code := by decide
  targets := by
    intro t ht
    simp only [demo2Targets, List.mem_cons, List.not_mem_nil, or_false] at ht
    rcases ht with rfl | rfl <;> simp [TargetRunOk]
  nonempty := by decide
  count := by decide
  room := by decide

/-- **FINDING, on the machine.**  `10 INPUT A%,B%` with the reply `5,x`: the specification refuses
    the reply, the machine reports REDO FROM START and asks again — in a state whose `A%` is 5, not
    the 0 it was before the statement.  (A second reply `,7` then leaves `A% = 0`; but a program that
    is interrupted at the second prompt, or whose later target is `A(I)` with `I` an earlier target,
    sees the value of the refused reply.) -/
theorem input_redo_not_atomic_machine (env : Env) (q1 : Nat) :
    let w := waiting demo2 (-1) [] 2
    ∃ sR, RefusedAt env w "5,x".toList 4 sR ∧
      (inputSpec demo2.vars demo2Targets "5,x".toList).toBool = false ∧
      execute env sR q1 = ({ sR with state := .input }, .errors [Error.mk' Code.redoFromStart]) ∧
      sR.stack = w.stack ∧ sR.pc = w.pc ∧
      demo2.vars.fetch "A%".toList = .ok (.int 0) ∧ sR.vars.fetch "A%".toList = .ok (.int 5) := by
  intro w
  have hb : (inputSpec demo2.vars demo2Targets "5,x".toList).toBool = false := by decide +kernel
  have hv : inputSpec demo2.vars demo2Targets "5,x".toList = .error .redo := by
    cases hx : inputSpec demo2.vars demo2Targets "5,x".toList with
    | error r => cases r; rfl
    | ok v => rw [hx] at hb; cases hb
  have h := input_refused env demo2_atInput "5,x".toList hv valueStore_new 4 (by decide) q1 0
  exact ⟨_, h.1, hb, h.2.1, rfl, rfl, by decide +kernel, by decide +kernel⟩

example : (execute demoEnv (enter demoEnv (waiting demo2 (-1) [] 2) "5,x".toList) 4).1.state = .inputRedo ∧
    (execute demoEnv (enter demoEnv (waiting demo2 (-1) [] 2) "5,x".toList) 4).1.vars.vars =
      [("A%".toList, .int 5)] := by decide +kernel

/-! an array element whose subscript is an earlier target: `INPUT I%,A%(I%),J%` -/

def demo3Targets : List InTarget :=
  [.scalar "I%".toList, .elem "A%".toList [.var (.unary (0, 0) (.integer "I%".toList))], .scalar "J%".toList]

def demo3 : Runtime :=
  { program := { link := { ops := (inputCode (-1) [] demo3Targets).toArray } }, state := .running }

theorem demo3_atInput : AtInput demo3 (-1) [] demo3Targets where
  running := rfl
  traceOff := rfl
  noDirectErrors := by decide
  code := by decide
  targets := by
    intro t ht
    simp only [demo3Targets, List.mem_cons, List.not_mem_nil, or_false] at ht
    rcases ht with rfl | rfl | rfl
    · simp [TargetRunOk]
    · exact ⟨by simp, by decide, by decide⟩
    · simp [TargetRunOk]
  nonempty := by decide
  count := by decide
  room := by decide

/-- the code: `… INPUT I% · POP I% · INPUT A% · PUSH I% · LIT 1 · POPARR A% · INPUT J% · POP J% · INPUT ""` -/
example : inputCode (-1) [] demo3Targets =
    [.literal (.str []), .literal (.int (-1)), .literal (.int 3), .input "I%".toList, .pop "I%".toList,
     .input "A%".toList, .push "I%".toList, .literal (.int 1), .popArr "A%".toList,
     .input "J%".toList, .pop "J%".toList, .input []] := by decide

/-- reply `1,5,9`: accepted, `I% = 1`, `A%(1) = 5` (the subscript sees the new `I%`), `J% = 9` -/
theorem demo3_accepted (env : Env) :
    ∃ v', inputSpec demo3.vars demo3Targets "1,5,9".toList = .ok v' ∧
      v'.fetch "I%".toList = .ok (.int 1) ∧ (v'.fetchArray "A%".toList [.int 1]).2 = .ok (.int 5) ∧
      v'.fetch "J%".toList = .ok (.int 9) ∧
      execute env (enter env (waiting demo3 (-1) [] 3) "1,5,9".toList) 9 =
        (behind demo3 (-1) [] demo3Targets v', .running) := by
  have hd : (inputSpec demo3.vars demo3Targets "1,5,9".toList).map
      (fun v' => (v'.fetch "I%".toList, (v'.fetchArray "A%".toList [.int 1]).2, v'.fetch "J%".toList)) =
      .ok (.ok (.int 1), .ok (.int 5), .ok (.int 9)) := by decide +kernel
  cases hv : inputSpec demo3.vars demo3Targets "1,5,9".toList with
  | error r => rw [hv] at hd; cases hd
  | ok v' =>
    rw [hv] at hd
    have hd' : (v'.fetch "I%".toList, (v'.fetchArray "A%".toList [.int 1]).2, v'.fetch "J%".toList) =
        (.ok (.int 1), .ok (.int 5), .ok (.int 9)) := Except.ok.inj hd
    simp only [Prod.mk.injEq] at hd'
    exact ⟨v', rfl, hd'.1, hd'.2.1, hd'.2.2, (input_accepted_done env demo3_atInput _ v' hv).1⟩

/-- reply `1,5,x`: refused in the THIRD field — REDO FROM START, but `I% = 1` and `A%(1) = 5` stay -/
theorem demo3_refused_keeps (env : Env) (q1 : Nat) :
    let w := waiting demo3 (-1) [] 3
    ∃ sR, RefusedAt env w "1,5,x".toList 8 sR ∧
      (inputSpec demo3.vars demo3Targets "1,5,x".toList).toBool = false ∧
      execute env sR q1 = ({ sR with state := .input }, .errors [Error.mk' Code.redoFromStart]) ∧
      sR.stack = w.stack ∧ sR.pc = w.pc ∧
      sR.vars.fetch "I%".toList = .ok (.int 1) ∧ (sR.vars.fetchArray "A%".toList [.int 1]).2 = .ok (.int 5) := by
  intro w
  have hb : (inputSpec demo3.vars demo3Targets "1,5,x".toList).toBool = false := by decide +kernel
  have hv : inputSpec demo3.vars demo3Targets "1,5,x".toList = .error .redo := by
    cases hx : inputSpec demo3.vars demo3Targets "1,5,x".toList with
    | error r => cases r; rfl
    | ok v => rw [hx] at hb; cases hb
  have h := input_refused env demo3_atInput "1,5,x".toList hv valueStore_new 8 (by decide) q1 0
  exact ⟨_, h.1, hb, h.2.1, rfl, rfl, by decide +kernel, by decide +kernel⟩

/-- a subscript that cannot be evaluated (`1\0` is not in the example; here `A%(I%)` with `I% = 99`,
    beyond the automatic dimension 10) is refused like an unconvertible field: REDO -/
example : (inputSpec demo3.vars demo3Targets "99,5,1".toList).toBool = false := by decide +kernel
example : (execute demoEnv (enter demoEnv (waiting demo3 (-1) [] 3) "99,5,1".toList) 8).1.state = .inputRedo ∧
    (execute demoEnv (enter demoEnv (waiting demo3 (-1) [] 3) "99,5,1".toList) 8).1.stack =
      #[.str [], .int (-1), .int 3] := by decide +kernel

/-! a subscript whose evaluation fails: `INPUT I%,A%(1\\I%)` with the reply `0,5` -/

def demo4Targets : List InTarget :=
  [.scalar "I%".toList,
   .elem "A%".toList [.bin .divideInt (0, 0) (.integer (0, 0) 1) (.var (.unary (0, 0) (.integer "I%".toList)))]]

def demo4 : Runtime :=
  { program := { link := { ops := (inputCode (-1) [] demo4Targets).toArray } }, state := .running }

theorem demo4_atInput : AtInput demo4 (-1) [] demo4Targets where
  running := rfl
  traceOff := rfl
  noDirectErrors := by decide
  code := by decide
  targets := by
    intro t ht
    simp only [demo4Targets, List.mem_cons, List.not_mem_nil, or_false] at ht
    rcases ht with rfl | rfl
    · simp [TargetRunOk]
    · exact ⟨by simp, by decide, by decide⟩
  nonempty := by decide
  count := by decide
  room := by decide

/-- DIVISION BY ZERO in the subscript is answered by REDO FROM START (any error while the targets
    are executed is); `I% = 0` — a default value — is all the refused reply leaves behind -/
theorem demo4_refused_subscript (env : Env) (q1 : Nat) :
    let w := waiting demo4 (-1) [] 2
    ∃ sR, RefusedAt env w "0,5".toList 8 sR ∧
      (inputSpec demo4.vars demo4Targets "0,5".toList).toBool = false ∧
      execute env sR q1 = ({ sR with state := .input }, .errors [Error.mk' Code.redoFromStart]) ∧
      sR.stack = w.stack ∧ sR.pc = w.pc := by
  intro w
  have hb : (inputSpec demo4.vars demo4Targets "0,5".toList).toBool = false := by decide +kernel
  have hv : inputSpec demo4.vars demo4Targets "0,5".toList = .error .redo := by
    cases hx : inputSpec demo4.vars demo4Targets "0,5".toList with
    | error r => cases r; rfl
    | ok v => rw [hx] at hb; cases hb
  have h := input_refused env demo4_atInput "0,5".toList hv valueStore_new 8 (by decide) q1 0
  exact ⟨_, h.1, hb, h.2.1, rfl, rfl⟩

example : (execute demoEnv (enter demoEnv (waiting demo4 (-1) [] 2) "0,5".toList) 7).1.state = .inputRedo ∧
    (execute demoEnv (enter demoEnv (waiting demo4 (-1) [] 2) "0,5".toList) 7).1.stack =
      #[.str [], .int (-1), .int 2] := by decide +kernel
example : (execute demoEnv (enter demoEnv (waiting demo4 (-1) [] 2) "1,5".toList) 9).1.state = .running ∧
    (execute demoEnv (enter demoEnv (waiting demo4 (-1) [] 2) "1,5".toList) 9).1.stack = #[] := by decide +kernel

end Thm.C17
end Basic
