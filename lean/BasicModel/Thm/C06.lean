import BasicModel.Gen.Limits
import BasicModel.Lemmas.AssocList
import BasicModel.Lemmas.KeyText
import BasicModel.Thm.C08
/-
  C06 — Variables and arrays are typed, zero-initialised, bounds-checked, never aliased.

  All statements are about `Model/Var.lean` (the port of `src/mach/var.rs`), for every state, name,
  value and subscript list at once.  `Typed`/`WF` are the invariants; every operation preserves
  them (`wf_*`), `Var.new` satisfies them, so they hold after every history.
-/
namespace Basic
namespace Thm.C06
open Var KeyText

/-! ### helpers -/

theorem bind_ok {α β : Type} {x : Res α} {f : α → Res β} {b : β} (h : (x >>= f) = .ok b) :
    ∃ a, x = .ok a ∧ f a = .ok b := by
  cases x with
  | error e => cases h
  | ok a => exact ⟨a, rfl, h⟩

/-- every stored value has the type of its key and is not a default value -/
def Typed (v : Var) : Prop :=
  ∀ p ∈ v.vars, ∃ t, v.tyOf p.1 = .ok (some t) ∧ p.2.ty = t.toTy ∧ isDefault p.2 = false

/-- the invariant of the variable store -/
structure WF (v : Var) : Prop where
  typed : Typed v
  nodupVars : AL.NoDup v.vars
  nodupDims : AL.NoDup v.dims
  pool : v.vars.length ≤ 65536

theorem wf_new : WF Var.new :=
  ⟨(fun p hp => by cases hp), AL.noDup_nil, AL.noDup_nil, Nat.zero_le _⟩

example : Typed Var.new ∧ Var.new.vars.length ≤ 65536 := ⟨wf_new.typed, wf_new.pool⟩

theorem wf_clear (v : Var) : WF v.clear := wf_new

example : (Var.clear { vars := [("A".toList, .int 1)] }).vars = [] := rfl

theorem tyOf_congr {v v' : Var} (h : v'.types = v.types) (k : Str) : v'.tyOf k = v.tyOf k := by
  unfold tyOf; rw [h]

/-! ### fetch_default: an absent key reads as the default of its type -/

/-- an unassigned variable reads as the default value of its type … -/
theorem fetch_default (v : Var) (k : Str) (t : VarTy)
    (hk : AL.get k v.vars = none) (ht : v.tyOf k = .ok (some t)) :
    v.fetch k = .ok t.default := by
  simp [fetch, hk, ht, bind, Except.bind]

/-- … and the defaults are 0, 0.0 (single), 0.0 (double), "" -/
theorem default_values :
    VarTy.integer.default = .int 0 ∧ VarTy.single.default = .sng 0 ∧
    VarTy.double.default = .dbl 0 ∧ VarTy.string.default = .str [] := ⟨rfl, rfl, rfl, rfl⟩

example : Var.new.fetch "A$".toList = .ok (.str []) ∧ Var.new.fetch "A%".toList = .ok (.int 0) ∧
    Var.new.fetch "A".toList = .ok (.sng 0) ∧ Var.new.fetch "B#".toList = .ok (.dbl 0) := by decide

/-- a present key reads as its stored value -/
theorem fetch_present (v : Var) (k : Str) (x : Val) (hk : AL.get k v.vars = some x) :
    v.fetch k = .ok x := by
  simp [fetch, hk]

/-- under the invariant, what a variable reads as has the type of its name -/
theorem fetch_typed (v : Var) (hv : Typed v) (k : Str) (t : VarTy) (ht : v.tyOf k = .ok (some t)) :
    ∃ x, v.fetch k = .ok x ∧ x.ty = t.toTy := by
  cases hk : AL.get k v.vars with
  | none =>
    refine ⟨t.default, fetch_default v k t hk ht, ?_⟩
    cases t <;> rfl
  | some x =>
    refine ⟨x, fetch_present v k x hk, ?_⟩
    obtain ⟨t', h1, h2, _⟩ := hv _ (AL.mem_of_get hk)
    rw [ht] at h1
    cases h1
    exact h2

example : ∃ x, (Var.new.fetch "Z".toList) = .ok x ∧ x.ty = Ty.sng :=
  fetch_typed Var.new wf_new.typed "Z".toList .single (by decide)

/-! ### the shape of a successful `store` -/

theorem updateVal_types (v : Var) (n : Str) (y : Val) : (v.updateVal n y).types = v.types := by
  unfold updateVal; split <;> rfl

theorem updateVal_dims (v : Var) (n : Str) (y : Val) : (v.updateVal n y).dims = v.dims := by
  unfold updateVal; split <;> rfl

theorem updateVal_get_self (v : Var) (n : Str) (y : Val) :
    AL.get n (v.updateVal n y).vars = if isDefault y then none else some y := by
  unfold updateVal
  split
  · exact AL.get_erase_self n v.vars
  · exact AL.get_set_self n y v.vars

theorem updateVal_get_ne (v : Var) {n k : Str} (h : k ≠ n) (y : Val) :
    AL.get k (v.updateVal n y).vars = AL.get k v.vars := by
  unfold updateVal
  split
  · exact AL.get_erase_ne h v.vars
  · exact AL.get_set_ne h y v.vars

theorem insertTy_ok {v v' : Var} {t : VarTy} {n : Str} {x : Val} (h : v.insertTy t n x = .ok v') :
    ∃ y, y.ty = t.toTy ∧ v' = v.updateVal n y := by
  cases t with
  | integer =>
    cases x with
    | int m => simp only [insertTy, insertInteger, Except.ok.injEq] at h; exact ⟨.int m, rfl, h.symm⟩
    | str s => simp [insertTy, insertInteger, Val.toI16, bind, Except.bind, err] at h
    | ret a => simp [insertTy, insertInteger, Val.toI16, bind, Except.bind, err] at h
    | nxt a => simp [insertTy, insertInteger, Val.toI16, bind, Except.bind, err] at h
    | sng b =>
      simp only [insertTy, insertInteger] at h
      obtain ⟨m, _, hm⟩ := bind_ok h
      cases hm; exact ⟨.int m, rfl, rfl⟩
    | dbl b =>
      simp only [insertTy, insertInteger] at h
      obtain ⟨m, _, hm⟩ := bind_ok h
      cases hm; exact ⟨.int m, rfl, rfl⟩
  | single =>
    cases x with
    | sng b => simp only [insertTy, insertSingle, Except.ok.injEq] at h; exact ⟨.sng b, rfl, h.symm⟩
    | str s => simp [insertTy, insertSingle, Val.toF32, bind, Except.bind, err] at h
    | ret a => simp [insertTy, insertSingle, Val.toF32, bind, Except.bind, err] at h
    | nxt a => simp [insertTy, insertSingle, Val.toF32, bind, Except.bind, err] at h
    | int m =>
      simp only [insertTy, insertSingle] at h
      obtain ⟨y, _, hy⟩ := bind_ok h
      cases hy; exact ⟨_, rfl, rfl⟩
    | dbl b =>
      simp only [insertTy, insertSingle] at h
      obtain ⟨y, _, hy⟩ := bind_ok h
      cases hy; exact ⟨_, rfl, rfl⟩
  | double =>
    cases x with
    | dbl b => simp only [insertTy, insertDouble, Except.ok.injEq] at h; exact ⟨.dbl b, rfl, h.symm⟩
    | str s => simp [insertTy, insertDouble, Val.toF64, bind, Except.bind, err] at h
    | ret a => simp [insertTy, insertDouble, Val.toF64, bind, Except.bind, err] at h
    | nxt a => simp [insertTy, insertDouble, Val.toF64, bind, Except.bind, err] at h
    | int m =>
      simp only [insertTy, insertDouble] at h
      obtain ⟨y, _, hy⟩ := bind_ok h
      cases hy; exact ⟨_, rfl, rfl⟩
    | sng b =>
      simp only [insertTy, insertDouble] at h
      obtain ⟨y, _, hy⟩ := bind_ok h
      cases hy; exact ⟨_, rfl, rfl⟩
  | string =>
    cases x with
    | str s =>
      simp only [insertTy, insertString] at h
      split at h
      · cases h
      · cases h; exact ⟨.str s, rfl, rfl⟩
    | int m => cases h
    | sng b => cases h
    | dbl b => cases h
    | ret a => cases h
    | nxt a => cases h

/-- a successful `store` found room in the pool, found the type `t` of the name, and wrote (or,
    for a default value, removed) a value `y` of that type under exactly that name -/
theorem store_ok {v v' : Var} {n : Str} {x : Val} (h : v.store n x = .ok v') :
    (v.vars.length ≤ 65535 ∨ AL.contains n v.vars = true) ∧
      ∃ t y, v.tyOf n = .ok (some t) ∧ y.ty = t.toTy ∧ v' = v.updateVal n y := by
  unfold store at h
  split at h
  · cases h
  · rename_i hlen
    refine ⟨?_, ?_⟩
    · by_cases hl : v.vars.length ≤ 65535
      · exact .inl hl
      · refine .inr ?_
        by_cases hc : AL.contains n v.vars = true
        · exact hc
        · exact absurd ⟨by omega, hc⟩ hlen
    obtain ⟨ot, hot, h2⟩ := bind_ok h
    cases ot with
    | none => cases h2
    | some t =>
      obtain ⟨y, hy, hv⟩ := insertTy_ok h2
      exact ⟨t, y, hot, hy, hv⟩

/-! ### store_typed -/

/-- after a successful `store n x` the value held under `n`, if any, has the type of `n`
    (its suffix, else its first letter's DEFtype) -/
theorem store_typed {v v' : Var} {n : Str} {x : Val} (h : v.store n x = .ok v') :
    ∃ t, v'.tyOf n = .ok (some t) ∧ ∀ y, AL.get n v'.vars = some y → y.ty = t.toTy := by
  obtain ⟨_, t, y, ht, hy, rfl⟩ := store_ok h
  refine ⟨t, by rw [tyOf_congr (updateVal_types v n y)]; exact ht, ?_⟩
  intro z hz
  rw [updateVal_get_self] at hz
  split at hz
  · cases hz
  · cases hz; exact hy

example : (Var.new.store "A%".toList (.sng 0x40200000)).toOption.map (·.vars) =
    some [("A%".toList, .int 2)] := by decide

theorem typed_updateVal {v : Var} (hv : Typed v) {n : Str} {t : VarTy} {y : Val}
    (ht : v.tyOf n = .ok (some t)) (hy : y.ty = t.toTy) : Typed (v.updateVal n y) := by
  intro p hp
  rw [tyOf_congr (updateVal_types v n y)]
  unfold updateVal at hp
  split at hp
  · exact hv p (AL.mem_erase.1 hp).1
  · rename_i hd
    rcases AL.mem_set.1 hp with rfl | ⟨hp, _⟩
    · exact ⟨t, ht, hy, by simpa using hd⟩
    · exact hv p hp

theorem nodup_updateVal {v : Var} (hv : AL.NoDup v.vars) (n : Str) (y : Val) :
    AL.NoDup (v.updateVal n y).vars := by
  unfold updateVal
  split
  · exact AL.noDup_erase n hv
  · exact AL.noDup_set n y hv

/-- writing to a name that is in the pool never grows it -/
theorem length_updateVal_le_of_contains (v : Var) {n : Str} (y : Val) (hc : AL.contains n v.vars = true) :
    (v.updateVal n y).vars.length ≤ v.vars.length := by
  unfold updateVal
  split
  · exact AL.length_erase_le n v.vars
  · exact AL.length_set_le_of_contains y hc

theorem length_updateVal_le (v : Var) (n : Str) (y : Val) :
    (v.updateVal n y).vars.length ≤ v.vars.length + 1 := by
  unfold updateVal
  split
  · exact Nat.le_succ_of_le (AL.length_erase_le n v.vars)
  · exact AL.length_set_le n y v.vars

/-- `store` preserves the invariant (in particular: every variable keeps holding a value of its
    own type, and the pool never exceeds 65 536 entries) -/
theorem wf_store {v v' : Var} (hv : WF v) {n : Str} {x : Val} (h : v.store n x = .ok v') : WF v' := by
  obtain ⟨hlen, t, y, ht, hy, rfl⟩ := store_ok h
  refine ⟨typed_updateVal hv.typed ht hy, nodup_updateVal hv.nodupVars n y, ?_, ?_⟩
  · rw [updateVal_dims]; exact hv.nodupDims
  · rcases hlen with hlen | hc
    · have := length_updateVal_le v n y; omega
    · have := length_updateVal_le_of_contains v y hc
      have := hv.pool; omega

example : ∃ v', Var.new.store "A%".toList (.int 3) = .ok v' ∧ WF v' :=
  ⟨Var.new.updateVal "A%".toList (.int 3), rfl, wf_store wf_new (n := "A%".toList) (x := .int 3) rfl⟩

/-- pool bound: a full pool rejects every store to a name it does not hold with OUT OF MEMORY, before
    anything else -/
theorem store_full (v : Var) (n : Str) (x : Val) (h : 65535 < v.vars.length)
    (hn : AL.contains n v.vars = false) :
    v.store n x = err Code.outOfMemory := by
  unfold store; rw [if_pos ⟨h, by simp [hn]⟩]

/-- … and only those (D23): a store to a name the pool holds is never refused for lack of room, whatever
    the size of the pool -/
theorem store_existing_not_full (v : Var) (n : Str) (x : Val) (hc : AL.contains n v.vars = true) :
    v.store n x = (match v.tyOf n with
                    | .ok (some t) => v.insertTy t n x
                    | .ok none => err Code.internalError
                    | .error e => .error e) := by
  unfold store; rw [if_neg (by simp [hc])]
  cases v.tyOf n with
  | error e => rfl
  | ok o => cases o <;> rfl

example : 65535 < (List.replicate 65536 ("A".toList, Val.int 1)).length := by
  rw [List.length_replicate]; omega

/-! ### default_store_frees: storing 0 / "" removes the key -/

/-- a value that is a default (`0`, `±0.0`, `""`) of the name's type is not stored: the key is
    removed and the variable reads as the default again -/
theorem default_store_frees {v v' : Var} {n : Str} {x : Val} (h : v.store n x = .ok v')
    (hx : ∀ t y, v.tyOf n = .ok (some t) → y.ty = t.toTy → v' = v.updateVal n y → isDefault y = true) :
    AL.get n v'.vars = none ∧ v'.vars = AL.erase n v.vars := by
  obtain ⟨_, t, y, ht, hy, hv'⟩ := store_ok h
  have hd := hx t y ht hy hv'
  subst hv'
  constructor
  · rw [updateVal_get_self, if_pos hd]
  · unfold updateVal; rw [if_pos hd]

/-- the directly usable form: storing a default value of the variable's own type -/
theorem default_store_frees' (v : Var) (n : Str) (t : VarTy) (x : Val)
    (hlen : v.vars.length ≤ 65535 ∨ AL.contains n v.vars = true) (ht : v.tyOf n = .ok (some t))
    (hx : x.ty = t.toTy) (hd : isDefault x = true) :
    v.store n x = .ok { v with vars := AL.erase n v.vars } := by
  have hlen' : ¬ (v.vars.length > 65535 ∧ ¬ AL.contains n v.vars = true) := by
    rcases hlen with h | h
    · intro ⟨h1, _⟩; omega
    · intro ⟨_, h2⟩; exact h2 h
  have hs : ∀ s : Str, isDefault (.str s) = true → ¬ s.length > 255 := by
    intro s hs
    have : s = [] := by simpa [isDefault] using hs
    subst this; simp
  cases t <;> cases x <;> first
    | (simp [Val.ty, VarTy.toTy] at hx; done)
    | (simp only [store, hlen', if_false, ht, bind, Except.bind, insertTy, insertInteger, insertSingle,
        insertDouble, insertString, updateVal, hd, if_true])
  rw [if_neg (hs _ hd)]

example : ((Var.new.store "A".toList (.sng 0x3f800000)).toOption.map (·.vars.length) = some 1) ∧
    ((Var.new.store "A".toList (.sng 0x3f800000)).toOption.bind
      (fun v => (v.store "A".toList (.sng 0x80000000)).toOption.map (·.vars))) = some [] := by decide

/-! ### key_injective, scalar_ne_element -/

/-- array keys of different (name, subscript list) are different texts -/
theorem key_injective {n n' : Str} {is is' : List Int16} (hn : ',' ∉ n) (hn' : ',' ∉ n')
    (h : arrayKey n is = arrayKey n' is') : n = n' ∧ is = is' := by
  rw [arrayKey_eq, arrayKey_eq] at h
  obtain ⟨t, ht⟩ := enc_head is n
  obtain ⟨t', ht'⟩ := enc_head is' n'
  rw [ht, ht'] at h
  obtain ⟨h1, h2⟩ := split_comma hn hn' h
  subst h1
  refine ⟨rfl, enc_inj hn ?_⟩
  rw [ht, ht', h2]

example : arrayKey "A".toList [1, 23] = "A,1,23,A".toList ∧
    arrayKey "A".toList [12, 3] = "A,12,3,A".toList := by decide

/-- a scalar (comma-free name) is never the key of an array element -/
theorem scalar_ne_element {n m : Str} (is : List Int16) (hn : ',' ∉ n) : n ≠ arrayKey m is := by
  intro h
  apply hn
  rw [h, arrayKey_eq]
  exact List.mem_append_right _ (comma_mem_enc is m)

example : "A1".toList ≠ arrayKey "A".toList [1] := scalar_ne_element _ (by decide)

/-! ### no_alias -/

/-- storing under `k` does not change what any other key reads as -/
theorem no_alias {v v' : Var} {k k' : Str} {x : Val} (hne : k' ≠ k) (h : v.store k x = .ok v') :
    v'.fetch k' = v.fetch k' := by
  obtain ⟨_, t, y, _, _, rfl⟩ := store_ok h
  unfold fetch
  rw [updateVal_get_ne v hne, tyOf_congr (updateVal_types v k y)]

example : ((Var.new.store "A".toList (.sng 0x40400000)).toOption.bind fun v₁ =>
    (v₁.store "A!".toList (.sng 0x40800000)).toOption.bind fun v₂ =>
      (v₂.fetch "A".toList).toOption) = some (.sng 0x40400000) := by decide

/-! ### arrays: the shape of `build_array_key` -/

/-- the declared bounds of `n`, or the automatic ones (10 per subscript) when it is not declared -/
def dimsOf (v : Var) (n : Str) (k : Nat) : List Int16 :=
  match AL.get n v.dims with
  | some d => d
  | none => List.replicate k 10

/-- the state after the (possible) automatic dimensioning by a use with `k` subscripts -/
def autoDim (v : Var) (n : Str) (k : Nat) : Var :=
  match AL.get n v.dims with
  | some _ => v
  | none => { v with dims := AL.set n (List.replicate k 10) v.dims }

theorem autoDim_vars (v : Var) (n : Str) (k : Nat) : (autoDim v n k).vars = v.vars := by
  unfold autoDim; split <;> rfl

theorem autoDim_types (v : Var) (n : Str) (k : Nat) : (autoDim v n k).types = v.types := by
  unfold autoDim; split <;> rfl

theorem autoDim_get (v : Var) (n : Str) (k : Nat) :
    AL.get n (autoDim v n k).dims = some (dimsOf v n k) := by
  unfold autoDim dimsOf
  split
  · rename_i d hd; exact hd
  · exact AL.get_set_self _ _ _

/-- subscripts `is` are accepted by bounds `ds`: same count, each `is[j] ≤ ds[j]` -/
def Accepts (is ds : List Int16) : Prop :=
  is.length = ds.length ∧ ∀ (j : Nat) (h : j < is.length) (h' : j < ds.length), is[j] ≤ ds[j]

theorem withinBounds_iff : ∀ (is ds : List Int16), is.length = ds.length →
    (withinBounds is ds = true ↔ ∀ (j : Nat) (h : j < is.length) (h' : j < ds.length), is[j] ≤ ds[j])
  | [], [], _ => by simp [withinBounds]
  | [], _ :: _, h => by simp at h
  | _ :: _, [], h => by simp at h
  | r :: rs, d :: ds, h => by
    have hl : rs.length = ds.length := by simpa using h
    have ih := withinBounds_iff rs ds hl
    unfold withinBounds
    by_cases hrd : r > d
    · simp only [hrd, if_true, Bool.false_eq_true, false_iff]
      intro hall
      have := hall 0 (by simp) (by simp)
      simp only [List.getElem_cons_zero] at this
      exact Int16.lt_irrefl (Int16.lt_of_le_of_lt this hrd)
    · simp only [hrd, if_false]
      rw [ih]
      have hle : r ≤ d := Int16.not_lt.1 hrd
      constructor
      · intro hall j hj hj'
        cases j with
        | zero => simpa using hle
        | succ j =>
          simp only [List.getElem_cons_succ]
          exact hall j (by simpa using hj) (by simpa using hj')
      · intro hall j hj hj'
        have := hall (j + 1) (by simpa using hj) (by simpa using hj')
        simpa using this

theorem accepts_iff (is ds : List Int16) :
    Accepts is ds ↔ is.length = ds.length ∧ withinBounds is ds = true := by
  unfold Accepts
  constructor
  · intro ⟨hl, h⟩; exact ⟨hl, (withinBounds_iff is ds hl).2 h⟩
  · intro ⟨hl, h⟩; exact ⟨hl, (withinBounds_iff is ds hl).1 h⟩

instance (is ds : List Int16) : Decidable (Accepts is ds) :=
  decidable_of_iff _ (accepts_iff is ds).symm

theorem buildArrayKey_conv_error (v : Var) (n : Str) (arr : List Val) (e : Error)
    (h : vecValToVecI16 arr = .error e) : v.buildArrayKey n arr = (v, .error e) := by
  simp [buildArrayKey, h]

/-- `build_array_key` after the subscripts converted: the automatic dimension is in place in every
    case; the key is produced iff the bounds accept the subscripts, else SUBSCRIPT OUT OF RANGE -/
theorem buildArrayKey_conv_ok (v : Var) (n : Str) (arr : List Val) (is : List Int16)
    (h : vecValToVecI16 arr = .ok is) :
    v.buildArrayKey n arr =
      (autoDim v n is.length,
        if Accepts is (dimsOf v n is.length) then .ok (arrayKey n is) else err Code.subscriptOutOfRange) := by
  have hacc := accepts_iff is (dimsOf v n is.length)
  unfold buildArrayKey
  simp only [h]
  unfold autoDim dimsOf at *
  cases hd : AL.get n v.dims with
  | some d =>
    simp only [hd] at hacc ⊢
    by_cases hl : d.length = is.length
    · by_cases hw : withinBounds is d = true
      · have : Accepts is d := hacc.2 ⟨hl.symm, hw⟩
        simp [hl, hw, this]
      · have : ¬ Accepts is d := fun a => hw (hacc.1 a).2
        simp [hl, hw, this]
    · have : ¬ Accepts is d := fun a => hl (hacc.1 a).1.symm
      simp [hl, this]
  | none =>
    simp only [hd] at hacc ⊢
    by_cases hw : withinBounds is (List.replicate is.length 10) = true
    · have : Accepts is (List.replicate is.length 10) := hacc.2 ⟨by simp, hw⟩
      simp [hw, this]
    · have : ¬ Accepts is (List.replicate is.length 10) := fun a => hw (hacc.1 a).2
      simp [hw, this]

/-- shape of a successful conversion of a non-empty subscript list -/
theorem vecValToVecI16_cons_ok {x : Val} {r : List Val} {is : List Int16}
    (h : vecValToVecI16 (x :: r) = .ok is) :
    ∃ n rest, x.toI16 = .ok n ∧ ¬ n < 0 ∧ vecValToVecI16 r = .ok rest ∧ is = n :: rest := by
  unfold vecValToVecI16 at h
  cases hx : x.toI16 with
  | error e =>
    rw [hx] at h
    simp only at h
    split at h <;> cases h
  | ok n =>
    rw [hx] at h
    simp only at h
    split at h
    · cases h
    · rename_i hneg
      obtain ⟨rest, hrest, h3⟩ := bind_ok h
      cases h3
      exact ⟨n, rest, rfl, hneg, hrest, rfl⟩

/-- converted subscripts are never negative -/
theorem vecValToVecI16_nonneg : ∀ {arr : List Val} {is : List Int16},
    vecValToVecI16 arr = .ok is → ∀ i ∈ is, (0 : Int16) ≤ i
  | [], is, h => by
    simp only [vecValToVecI16, Except.ok.injEq] at h
    subst h; intro i hi; cases hi
  | x :: r, is, h => by
    obtain ⟨n, rest, _, hneg, hrest, rfl⟩ := vecValToVecI16_cons_ok h
    intro i hi
    rcases List.mem_cons.1 hi with rfl | hi
    · exact Int16.not_lt.1 hneg
    · exact vecValToVecI16_nonneg hrest i hi

theorem vecValToVecI16_length : ∀ {arr : List Val} {is : List Int16},
    vecValToVecI16 arr = .ok is → is.length = arr.length
  | [], is, h => by
    simp only [vecValToVecI16, Except.ok.injEq] at h
    subst h; rfl
  | x :: r, is, h => by
    obtain ⟨n, rest, _, _, hrest, rfl⟩ := vecValToVecI16_cons_ok h
    simp [vecValToVecI16_length hrest]

/-! ### the type of an element key is the type of the array name -/

theorem getLast?_append_cons (a : Str) (c : Char) (b : Str) :
    (a ++ c :: b).getLast? = (c :: b).getLast? := by
  rw [List.getLast?_append]
  cases h : (c :: b).getLast? with
  | none => simp at h
  | some x => rfl

theorem suffixTy_arrayKey {n : Str} (hn : n ≠ []) (is : List Int16) :
    suffixTy (arrayKey n is) = suffixTy n := by
  unfold suffixTy
  have : (arrayKey n is).getLast? = n.getLast? := by
    unfold arrayKey
    rw [getLast?_append_cons]
    cases n with
    | nil => exact absurd rfl hn
    | cons c r => simp [List.getLast?_cons_cons]
  rw [this]

theorem tyOf_arrayKey (v : Var) {n : Str} (hn : n ≠ []) (is : List Int16) :
    v.tyOf (arrayKey n is) = v.tyOf n := by
  unfold tyOf
  rw [suffixTy_arrayKey hn]
  cases n with
  | nil => exact absurd rfl hn
  | cons c r => simp [arrayKey]

/-! ### bounds -/

/-- `fetch_array` with convertible subscripts on a well-named array succeeds iff the subscript count
    matches the dimensions and every subscript is within 0..bound (bound 10 when the array was not
    declared); otherwise it is SUBSCRIPT OUT OF RANGE.  (`0 ≤` is `vecValToVecI16_nonneg`.) -/
theorem bounds_fetch (v : Var) (hv : Typed v) (n : Str) (hn : n ≠ []) (t : VarTy)
    (ht : v.tyOf n = .ok (some t)) (arr : List Val) (is : List Int16)
    (h : vecValToVecI16 arr = .ok is) :
    (Accepts is (dimsOf v n is.length) →
        ∃ x, (v.fetchArray n arr).2 = .ok x ∧ x.ty = t.toTy) ∧
    (¬ Accepts is (dimsOf v n is.length) →
        (v.fetchArray n arr).2 = err Code.subscriptOutOfRange) ∧
    (∀ i ∈ is, (0 : Int16) ≤ i) := by
  refine ⟨?_, ?_, vecValToVecI16_nonneg h⟩
  · intro hacc
    unfold fetchArray
    rw [buildArrayKey_conv_ok v n arr is h, if_pos hacc]
    simp only
    have hv' : Typed (autoDim v n is.length) := by
      intro p hp
      rw [autoDim_vars] at hp
      rw [tyOf_congr (autoDim_types v n is.length)]
      exact hv p hp
    apply fetch_typed _ hv'
    rw [tyOf_congr (autoDim_types v n is.length), tyOf_arrayKey v hn, ht]
  · intro hacc
    unfold fetchArray
    rw [buildArrayKey_conv_ok v n arr is h, if_neg hacc]
    rfl

/-- `bounds`, as an equivalence -/
theorem bounds (v : Var) (hv : Typed v) (n : Str) (hn : n ≠ []) (t : VarTy)
    (ht : v.tyOf n = .ok (some t)) (arr : List Val) (is : List Int16)
    (h : vecValToVecI16 arr = .ok is) :
    (∃ x, (v.fetchArray n arr).2 = .ok x) ↔
      is.length = (dimsOf v n is.length).length ∧
      ∀ (j : Nat) (h1 : j < is.length) (h2 : j < (dimsOf v n is.length).length),
        is[j] ≤ (dimsOf v n is.length)[j] := by
  obtain ⟨b1, b2, _⟩ := bounds_fetch v hv n hn t ht arr is h
  constructor
  · rintro ⟨x, hx⟩
    by_cases hacc : Accepts is (dimsOf v n is.length)
    · exact hacc
    · rw [b2 hacc] at hx; cases hx
  · intro hacc
    obtain ⟨x, hx, _⟩ := b1 hacc
    exact ⟨x, hx⟩

/-- the same for `store_array`: out-of-bounds subscripts are rejected before anything is stored -/
theorem bounds_store (v : Var) (n : Str) (arr : List Val) (is : List Int16) (x : Val)
    (h : vecValToVecI16 arr = .ok is) :
    (Accepts is (dimsOf v n is.length) →
        v.storeArray n arr x =
          match (autoDim v n is.length).store (arrayKey n is) x with
          | .ok v'' => (v'', .ok ())
          | .error e => (autoDim v n is.length, .error e)) ∧
    (¬ Accepts is (dimsOf v n is.length) →
        v.storeArray n arr x = (autoDim v n is.length, err Code.subscriptOutOfRange)) := by
  constructor
  · intro hacc
    unfold storeArray
    rw [buildArrayKey_conv_ok v n arr is h, if_pos hacc]
    simp only
    cases (autoDim v n is.length).store (arrayKey n is) x <;> rfl
  · intro hacc
    unfold storeArray
    rw [buildArrayKey_conv_ok v n arr is h, if_neg hacc]
    rfl

/-- subscripts that do not convert fail without touching the store (for numbers the error is
    SUBSCRIPT OUT OF RANGE, for anything else the conversion's TYPE MISMATCH:
    `vecValToVecI16_numeric`) -/
theorem bounds_conv_error (v : Var) (n : Str) (arr : List Val) (x : Val) (e : Error)
    (h : vecValToVecI16 arr = .error e) :
    v.fetchArray n arr = (v, .error e) ∧ v.storeArray n arr x = (v, .error e) := by
  simp [fetchArray, storeArray, buildArrayKey_conv_error v n arr e h]

example : (Var.new.fetchArray "A".toList [.int 10]).2 = .ok (.sng 0) ∧
    (Var.new.fetchArray "A".toList [.int 11]).2 = err Code.subscriptOutOfRange ∧
    (Var.new.fetchArray "A".toList [.int 1, .int 1]).2 = .ok (.sng 0) ∧
    (Var.new.fetchArray "A".toList [.int (-1)]).2 = err Code.subscriptOutOfRange := by decide

/-! ### subscript_out_of_range_exact: exactly 0..bound is accepted, every other number is error 9 -/

/-- the mathematical value of a numeric subscript: the Integer itself, ⌊x⌋ of a float
    (`none`: NaN, ±inf, or not a number at all) -/
def subZ : Val → Option Int
  | .int n => some n.toInt
  | .sng b => Val.floorZ (.sng b)
  | .dbl b => Val.floorZ (.dbl b)
  | _ => none

/-- subscripts `arr` lie within bounds `ds`: as many subscripts as dimensions, and each one is a
    number whose value `z` satisfies `0 ≤ z ≤ bound` -/
def InBounds : List Val → List Int16 → Prop
  | [], [] => True
  | x :: xs, d :: ds => (∃ z, subZ x = some z ∧ 0 ≤ z ∧ z ≤ d.toInt) ∧ InBounds xs ds
  | _, _ => False

theorem toI16_ok_subZ {x : Val} {n : Int16} (hx : x.isNumeric = true) (h : x.toI16 = .ok n) :
    subZ x = some n.toInt := by
  cases x with
  | int m => simp only [Val.toI16, Except.ok.injEq] at h; subst h; rfl
  | sng b =>
    simp only [Val.toI16] at h
    simp only [subZ]
    cases hz : Val.floorZ (.sng b) with
    | none => rw [hz] at h; cases h
    | some z =>
      rw [hz] at h
      simp only at h
      split at h
      · rename_i hr
        cases h
        rw [Int16.toInt_ofInt, C08.bmod_id hr]
      · cases h
  | dbl b =>
    simp only [Val.toI16] at h
    simp only [subZ]
    cases hz : Val.floorZ (.dbl b) with
    | none => rw [hz] at h; cases h
    | some z =>
      rw [hz] at h
      simp only at h
      split at h
      · rename_i hr
        cases h
        rw [Int16.toInt_ofInt, C08.bmod_id hr]
      · cases h
  | str s => cases hx
  | ret a => cases hx
  | nxt a => cases hx

theorem toI16_err_subZ {x : Val} {e : Error} (h : x.toI16 = .error e) :
    ∀ z, subZ x = some z → ¬ (-32768 ≤ z ∧ z ≤ 32767) := by
  intro z hz hr
  cases x with
  | int m => cases h
  | sng b =>
    simp only [subZ] at hz
    simp only [Val.toI16, hz] at h
    rw [if_pos hr] at h; cases h
  | dbl b =>
    simp only [subZ] at hz
    simp only [Val.toI16, hz] at h
    rw [if_pos hr] at h; cases h
  | str s => cases hz
  | ret a => cases hz
  | nxt a => cases hz

theorem not_inBounds_nil_cons (d : Int16) (ds : List Int16) : ¬ InBounds [] (d :: ds) := by
  intro h; simp [InBounds] at h

theorem not_inBounds_cons_nil (x : Val) (xs : List Val) : ¬ InBounds (x :: xs) [] := by
  intro h; simp [InBounds] at h

/-- numeric subscripts either all convert — and then "within bounds" is exactly the comparison the
    code makes — or the conversion itself is SUBSCRIPT OUT OF RANGE and no bounds contain them -/
theorem vecValToVecI16_numeric : ∀ (arr : List Val), (∀ x ∈ arr, x.isNumeric = true) →
    (vecValToVecI16 arr = err Code.subscriptOutOfRange ∧ ∀ ds, ¬ InBounds arr ds) ∨
    (∃ is, vecValToVecI16 arr = .ok is ∧
      ∀ ds, InBounds arr ds ↔ (is.length = ds.length ∧ withinBounds is ds = true))
  | [], _ => by
    right
    refine ⟨[], rfl, ?_⟩
    intro ds
    cases ds with
    | nil => simp [InBounds, withinBounds]
    | cons d ds => simp [InBounds]
  | x :: xs, hnum => by
    have hx : x.isNumeric = true := hnum x List.mem_cons_self
    have hxs : ∀ y ∈ xs, y.isNumeric = true := fun y hy => hnum y (List.mem_cons_of_mem _ hy)
    cases hconv : x.toI16 with
    | error e =>
      left
      constructor
      · unfold vecValToVecI16
        rw [hconv]
        simp only [hx, if_true]
      · intro ds hb
        cases ds with
        | nil => exact not_inBounds_cons_nil x xs hb
        | cons d ds =>
          obtain ⟨⟨z, hz, h0, hd⟩, _⟩ := hb
          have := C08.toInt_range d
          exact toI16_err_subZ hconv z hz ⟨by omega, by have := this.2; omega⟩
    | ok n =>
      have hsub := toI16_ok_subZ hx hconv
      by_cases hneg : n < 0
      · left
        constructor
        · unfold vecValToVecI16
          rw [hconv]
          simp only [hneg, if_true]
        · intro ds hb
          cases ds with
          | nil => exact not_inBounds_cons_nil x xs hb
          | cons d ds =>
            obtain ⟨⟨z, hz, h0, _⟩, _⟩ := hb
            rw [hsub] at hz
            cases hz
            have : n.toInt < (0 : Int16).toInt := Int16.lt_iff_toInt_lt.1 hneg
            have h00 : (0 : Int16).toInt = 0 := by decide
            omega
      · rcases vecValToVecI16_numeric xs hxs with ⟨herr, hno⟩ | ⟨is, hok, hiff⟩
        · left
          constructor
          · unfold vecValToVecI16
            rw [hconv]
            simp only [hneg, if_false, herr]
            rfl
          · intro ds hb
            cases ds with
            | nil => exact not_inBounds_cons_nil x xs hb
            | cons d ds => exact hno ds hb.2
        · right
          refine ⟨n :: is, ?_, ?_⟩
          · unfold vecValToVecI16
            rw [hconv]
            simp only [hneg, if_false, hok]
            rfl
          · intro ds
            cases ds with
            | nil =>
              constructor
              · intro hb; exact absurd hb (not_inBounds_cons_nil x xs)
              · intro ⟨hl, _⟩; simp at hl
            | cons d ds =>
              have hn0 : 0 ≤ n.toInt := by
                have : (0 : Int16) ≤ n := Int16.not_lt.1 hneg
                have := Int16.le_iff_toInt_le.1 this
                have h00 : (0 : Int16).toInt = 0 := by decide
                omega
              show ((∃ z, subZ x = some z ∧ 0 ≤ z ∧ z ≤ d.toInt) ∧ InBounds xs ds) ↔ _
              rw [hiff ds]
              have hwb : withinBounds (n :: is) (d :: ds) =
                  if n > d then false else withinBounds is ds := rfl
              rw [hwb]
              simp only [List.length_cons, Nat.add_right_cancel_iff]
              by_cases hgt : n > d
              · have : ¬ n.toInt ≤ d.toInt := by
                  have := Int16.lt_iff_toInt_lt.1 hgt; omega
                simp only [hgt, if_true, Bool.false_eq_true, and_false, iff_false]
                rintro ⟨⟨z, hz, _, hzd⟩, _⟩
                rw [hsub] at hz; cases hz
                exact this hzd
              · have hle : n.toInt ≤ d.toInt := Int16.le_iff_toInt_le.1 (Int16.not_lt.1 hgt)
                simp only [hgt, if_false]
                constructor
                · rintro ⟨_, h2⟩; exact h2
                · intro h2; exact ⟨⟨n.toInt, hsub, hn0, hle⟩, h2⟩

/-- **The bounds sentence of C06, at full strength.**  On a well-named array, numeric subscripts are
    accepted exactly when there are as many as dimensions and each value lies in 0..bound (bound 10
    in every dimension when the array was not declared); *every* other list of numbers — negative,
    beyond the bound, beyond the Integer range, NaN, infinite, wrong count — is SUBSCRIPT OUT OF
    RANGE.  For `fetch_array`: -/
theorem subscript_out_of_range_exact (v : Var) (hv : Typed v) (n : Str) (hn : n ≠ []) (t : VarTy)
    (ht : v.tyOf n = .ok (some t)) (arr : List Val) (hnum : ∀ x ∈ arr, x.isNumeric = true) :
    (InBounds arr (dimsOf v n arr.length) →
        ∃ x, (v.fetchArray n arr).2 = .ok x ∧ x.ty = t.toTy) ∧
    (¬ InBounds arr (dimsOf v n arr.length) →
        (v.fetchArray n arr).2 = err Code.subscriptOutOfRange) := by
  rcases vecValToVecI16_numeric arr hnum with ⟨herr, hno⟩ | ⟨is, hok, hiff⟩
  · refine ⟨fun hb => absurd hb (hno _), fun _ => ?_⟩
    have := (bounds_conv_error v n arr (.int 0) _ herr).1
    rw [this]; rfl
  · have hlen := vecValToVecI16_length hok
    obtain ⟨b1, b2, _⟩ := bounds_fetch v hv n hn t ht arr is hok
    rw [hlen] at b1 b2
    constructor
    · intro hb
      exact b1 ((accepts_iff _ _).2 ((hiff _).1 hb))
    · intro hb
      exact b2 (fun hacc => hb ((hiff _).2 ((accepts_iff _ _).1 hacc)))

/-- … and for `store_array`: nothing is stored and the error is SUBSCRIPT OUT OF RANGE -/
theorem subscript_out_of_range_exact_store (v : Var) (n : Str) (arr : List Val) (x : Val)
    (hnum : ∀ y ∈ arr, y.isNumeric = true) (hb : ¬ InBounds arr (dimsOf v n arr.length)) :
    (v.storeArray n arr x).2 = err Code.subscriptOutOfRange ∧ (v.storeArray n arr x).1.vars = v.vars := by
  rcases vecValToVecI16_numeric arr hnum with ⟨herr, _⟩ | ⟨is, hok, hiff⟩
  · have := (bounds_conv_error v n arr x _ herr).2
    rw [this]; exact ⟨rfl, rfl⟩
  · have hlen := vecValToVecI16_length hok
    have hacc : ¬ Accepts is (dimsOf v n is.length) := by
      rw [hlen]
      exact fun hacc => hb ((hiff _).2 ((accepts_iff _ _).1 hacc))
    rw [(bounds_store v n arr is x hok).2 hacc]
    exact ⟨rfl, autoDim_vars v n is.length⟩

/-- DIM with numeric bounds fails only with SUBSCRIPT OUT OF RANGE (or REDIMENSIONED ARRAY) -/
theorem dim_numeric_error (v : Var) (n : Str) (arr : List Val) (hnum : ∀ y ∈ arr, y.isNumeric = true)
    (e : Error) (h : v.dimensionArray n arr = .error e) :
    e = Error.mk' Code.redimensionedArray ∨ e = Error.mk' Code.subscriptOutOfRange := by
  unfold dimensionArray at h
  split at h
  · left; cases h; rfl
  · right
    rcases vecValToVecI16_numeric arr hnum with ⟨herr, _⟩ | ⟨is, hok, _⟩
    · rw [herr] at h; cases h; rfl
    · rw [hok] at h; cases h

example : (Var.new.fetchArray "A".toList [.sng 0x47000000]).2 = err Code.subscriptOutOfRange ∧
    (Var.new.fetchArray "A".toList [.dbl 0x7ff8000000000000]).2 = err Code.subscriptOutOfRange ∧
    (Var.new.fetchArray "A".toList [.sng 0xc7000100]).2 = err Code.subscriptOutOfRange ∧
    (Var.new.fetchArray "A".toList [.sng 0x40200000]).2 = .ok (.sng 0) ∧
    (Var.new.fetchArray "A".toList [.str []]).2 = err Code.typeMismatch := by decide

example : InBounds [.int 10, .sng 0x40200000] [10, 10] :=
  ⟨⟨10, rfl, by decide, by decide⟩, ⟨2, by decide, by decide, by decide⟩, trivial⟩

/-! ### invariant preservation for the array operations -/

theorem wf_autoDim {v : Var} (hv : WF v) (n : Str) (k : Nat) : WF (autoDim v n k) := by
  unfold autoDim
  split
  · exact hv
  · exact ⟨hv.typed, hv.nodupVars, AL.noDup_set _ _ hv.nodupDims, hv.pool⟩

theorem buildArrayKey_state (v : Var) (n : Str) (arr : List Val) :
    (v.buildArrayKey n arr).1 = v ∨ ∃ k, (v.buildArrayKey n arr).1 = autoDim v n k := by
  cases h : vecValToVecI16 arr with
  | error e => left; rw [buildArrayKey_conv_error v n arr e h]
  | ok is => right; exact ⟨is.length, by rw [buildArrayKey_conv_ok v n arr is h]⟩

theorem wf_buildArrayKey {v : Var} (hv : WF v) (n : Str) (arr : List Val) :
    WF (v.buildArrayKey n arr).1 := by
  rcases buildArrayKey_state v n arr with h | ⟨k, h⟩
  · rw [h]; exact hv
  · rw [h]; exact wf_autoDim hv n k

theorem fetchArray_fst (v : Var) (n : Str) (arr : List Val) :
    (v.fetchArray n arr).1 = (v.buildArrayKey n arr).1 := by
  unfold fetchArray
  cases hb : v.buildArrayKey n arr with
  | mk v' r => cases r <;> rfl

/-- `fetch_array` preserves the invariant and never touches the variables or the DEFtypes -/
theorem wf_fetchArray {v : Var} (hv : WF v) (n : Str) (arr : List Val) :
    WF (v.fetchArray n arr).1 ∧ (v.fetchArray n arr).1.vars = v.vars ∧
    (v.fetchArray n arr).1.types = v.types := by
  rw [fetchArray_fst]
  refine ⟨wf_buildArrayKey hv n arr, ?_, ?_⟩
  · rcases buildArrayKey_state v n arr with h | ⟨k, h⟩
    · rw [h]
    · rw [h, autoDim_vars]
  · rcases buildArrayKey_state v n arr with h | ⟨k, h⟩
    · rw [h]
    · rw [h, autoDim_types]

/-- `store_array` preserves the invariant -/
theorem wf_storeArray {v : Var} (hv : WF v) (n : Str) (arr : List Val) (x : Val) :
    WF (v.storeArray n arr x).1 := by
  have hb := wf_buildArrayKey hv n arr
  unfold storeArray
  cases hbk : v.buildArrayKey n arr with
  | mk v' r =>
    rw [hbk] at hb
    cases r with
    | error e => exact hb
    | ok key =>
      simp only
      cases hs : v'.store key x with
      | error e => exact hb
      | ok v'' => exact wf_store hb hs

example : WF (Var.new.storeArray "A%".toList [.int 3] (.int 7)).1 := wf_storeArray wf_new _ _ _

/-! ### redim_rejected, erase_then_dim_ok -/

/-- DIM of an array that has dimensions is REDIMENSIONED ARRAY, whatever the subscripts -/
theorem redim_rejected (v : Var) (n : Str) (arr : List Val) (d : List Int16)
    (h : AL.get n v.dims = some d) : v.dimensionArray n arr = err Code.redimensionedArray := by
  unfold dimensionArray
  have : AL.contains n v.dims = true := AL.contains_iff.2 ⟨d, h⟩
  rw [if_pos this]

/-- DIM of an undeclared array with convertible bounds declares exactly those bounds -/
theorem dim_ok (v : Var) (n : Str) (arr : List Val) (is : List Int16)
    (h : AL.get n v.dims = none) (hc : vecValToVecI16 arr = .ok is) :
    v.dimensionArray n arr = .ok { v with dims := AL.set n is v.dims } := by
  unfold dimensionArray
  have : ¬ AL.contains n v.dims = true := by
    intro hc'
    obtain ⟨x, hx⟩ := AL.contains_iff.1 hc'
    rw [h] at hx; cases hx
  rw [if_neg this, hc]
  rfl

/-- … so a second DIM is rejected -/
theorem dim_twice_rejected (v v' : Var) (n : Str) (arr arr' : List Val)
    (h : v.dimensionArray n arr = .ok v') : v'.dimensionArray n arr' = err Code.redimensionedArray := by
  unfold dimensionArray at h
  split at h
  · cases h
  · obtain ⟨is, _, h2⟩ := bind_ok h
    cases h2
    exact redim_rejected _ n arr' is (AL.get_set_self _ _ _)

/-- … and so is a DIM after any use with convertible subscripts (the use dimensioned it, bound 10,
    even when the use itself failed with SUBSCRIPT OUT OF RANGE) -/
theorem use_then_dim_rejected (v : Var) (n : Str) (arr arr' : List Val) (is : List Int16)
    (hc : vecValToVecI16 arr = .ok is) :
    (v.fetchArray n arr).1.dimensionArray n arr' = err Code.redimensionedArray := by
  have h1 : (v.fetchArray n arr).1 = autoDim v n is.length := by
    rw [fetchArray_fst, buildArrayKey_conv_ok v n arr is hc]
  rw [h1]
  exact redim_rejected _ n arr' _ (autoDim_get v n is.length)

example : (Var.new.fetchArray "A".toList [.int 11]).2 = err Code.subscriptOutOfRange ∧
    (match (Var.new.fetchArray "A".toList [.int 11]).1.dimensionArray "A".toList [.int 20] with
      | .error e => e.code | .ok _ => 0) = Code.redimensionedArray := by decide

theorem wf_dimensionArray {v v' : Var} (hv : WF v) {n : Str} {arr : List Val}
    (h : v.dimensionArray n arr = .ok v') : WF v' := by
  unfold dimensionArray at h
  split at h
  · cases h
  · obtain ⟨is, _, h2⟩ := bind_ok h
    cases h2
    exact ⟨hv.typed, hv.nodupVars, AL.noDup_set _ _ hv.nodupDims, hv.pool⟩

/-- ERASE of an array without dimensions is ILLEGAL FUNCTION CALL "ARRAY NOT DIMENSIONED" -/
theorem erase_undeclared (v : Var) (n : Str) (h : AL.get n v.dims = none) :
    v.eraseArray n = errMsg Code.illegalFunctionCall "ARRAY NOT DIMENSIONED" := by
  unfold eraseArray; rw [h]

theorem erase_ok {v v' : Var} {n : Str} (h : v.eraseArray n = .ok v') :
    v' = { v with dims := AL.erase n v.dims,
                  vars := v.vars.filter (fun p => !startsWith p.1 (n ++ [','])) } := by
  unfold eraseArray at h
  split at h
  · cases h
  · cases h; rfl

/-- after ERASE the array can be dimensioned again, with any convertible bounds -/
theorem erase_then_dim_ok {v v' : Var} {n : Str} (h : v.eraseArray n = .ok v')
    (arr : List Val) (is : List Int16) (hc : vecValToVecI16 arr = .ok is) :
    ∃ v'', v'.dimensionArray n arr = .ok v'' ∧ AL.get n v''.dims = some is := by
  have hv' := erase_ok h
  have hnone : AL.get n v'.dims = none := by rw [hv']; exact AL.get_erase_self n v.dims
  exact ⟨_, dim_ok v' n arr is hnone hc, AL.get_set_self _ _ _⟩

example : ((Var.new.dimensionArray "A".toList [.int 5]).toOption.bind fun v₁ =>
    (v₁.eraseArray "A".toList).toOption.bind fun v₂ =>
      (v₂.dimensionArray "A".toList [.int 7, .int 2]).toOption.map (·.dims)) =
    some [("A".toList, [7, 2])] := by decide

theorem wf_eraseArray {v v' : Var} (hv : WF v) {n : Str} (h : v.eraseArray n = .ok v') : WF v' := by
  rw [erase_ok h]
  refine ⟨?_, AL.noDup_filter _ hv.nodupVars, AL.noDup_erase n hv.nodupDims, ?_⟩
  · intro p hp
    exact hv.typed p (List.mem_filter.1 hp).1
  · exact Nat.le_trans (List.length_filter_le _ _) hv.pool

/-! ### ERASE removes exactly the elements of that array -/

theorem startsWith_iff : ∀ (s p : Str), startsWith s p = true ↔ ∃ r, s = p ++ r
  | s, [] => by simp [startsWith]
  | [], b :: bs => by simp [startsWith]
  | a :: as, b :: bs => by
    simp only [startsWith, Bool.and_eq_true, beq_iff_eq, List.cons_append, List.cons.injEq]
    rw [startsWith_iff as bs]
    constructor
    · rintro ⟨rfl, r, rfl⟩; exact ⟨r, rfl, rfl⟩
    · rintro ⟨r, rfl, rfl⟩; exact ⟨rfl, r, rfl⟩

theorem startsWith_own (n : Str) (is : List Int16) :
    startsWith (arrayKey n is) (n ++ [',']) = true := by
  rw [startsWith_iff, arrayKey_eq]
  obtain ⟨t, ht⟩ := enc_head is n
  exact ⟨t, by rw [ht]; simp⟩

theorem not_startsWith_scalar {k n : Str} (hk : ',' ∉ k) : startsWith k (n ++ [',']) = false := by
  cases h : startsWith k (n ++ [',']) with
  | false => rfl
  | true =>
    obtain ⟨r, hr⟩ := (startsWith_iff _ _).1 h
    exfalso; apply hk; rw [hr]; simp

theorem not_startsWith_other {m n : Str} (is : List Int16) (hm : ',' ∉ m) (hn : ',' ∉ n)
    (hne : m ≠ n) : startsWith (arrayKey m is) (n ++ [',']) = false := by
  cases h : startsWith (arrayKey m is) (n ++ [',']) with
  | false => rfl
  | true =>
    obtain ⟨r, hr⟩ := (startsWith_iff _ _).1 h
    rw [arrayKey_eq] at hr
    obtain ⟨t, ht⟩ := enc_head is m
    rw [ht] at hr
    have : m ++ ',' :: t = n ++ ',' :: r := by rw [hr]; simp
    exact absurd (split_comma hm hn this).1 hne

/-- ERASE A: every element of `A` reads as the default again; every scalar, and every element of
    every other array, reads exactly as before (names are comma-free, as the lexer guarantees) -/
theorem erase_exact {v v' : Var} (hv : WF v) {n : Str} (hn : ',' ∉ n) (h : v.eraseArray n = .ok v') :
    (∀ is, AL.get (arrayKey n is) v'.vars = none) ∧
    (∀ k, ',' ∉ k → v'.fetch k = v.fetch k) ∧
    (∀ m is, ',' ∉ m → m ≠ n → v'.fetch (arrayKey m is) = v.fetch (arrayKey m is)) := by
  have hv' := erase_ok h
  have hty : v'.types = v.types := by rw [hv']
  have hget : ∀ k, startsWith k (n ++ [',']) = false → AL.get k v'.vars = AL.get k v.vars := by
    intro k hk
    rw [hv']
    simp only
    rw [AL.get_filter hv.nodupVars]
    cases AL.get k v.vars with
    | none => rfl
    | some x => simp [hk]
  refine ⟨?_, ?_, ?_⟩
  · intro is
    rw [hv']
    simp only
    rw [AL.get_none_iff]
    intro p hp hk
    have := (List.mem_filter.1 hp).2
    rw [hk, startsWith_own] at this
    cases this
  · intro k hk
    unfold fetch
    rw [hget k (not_startsWith_scalar hk), tyOf_congr hty]
  · intro m is hm hne
    unfold fetch
    rw [hget _ (not_startsWith_other is hm hn hne), tyOf_congr hty]

example : ((Var.new.storeArray "A%".toList [.int 1] (.int 5)).1.storeArray "A1%".toList [.int 1] (.int 6)).1.vars.length = 2 ∧
    (((Var.new.storeArray "A%".toList [.int 1] (.int 5)).1.storeArray "A1%".toList [.int 1] (.int 6)).1.eraseArray
      "A%".toList).toOption.map (·.vars) = some [("A1%,1,A1%".toList, .int 6)] := by decide

/-! ### no_alias for elements -/

/-- a successful `store_array` into element `is` of `n` changes what no other key reads as … -/
theorem no_alias_array {v : Var} {n : Str} {arr : List Val} {is : List Int16} {x : Val}
    (hc : vecValToVecI16 arr = .ok is) (h : (v.storeArray n arr x).2 = .ok ()) :
    ∀ k', k' ≠ arrayKey n is → (v.storeArray n arr x).1.fetch k' = v.fetch k' := by
  intro k' hne
  by_cases hacc : Accepts is (dimsOf v n is.length)
  · rw [(bounds_store v n arr is x hc).1 hacc] at h ⊢
    cases hs : (autoDim v n is.length).store (arrayKey n is) x with
    | error e => rw [hs] at h; cases h
    | ok v'' =>
      simp only
      rw [no_alias hne hs]
      unfold fetch
      rw [autoDim_vars, tyOf_congr (autoDim_types v n is.length)]
  · rw [(bounds_store v n arr is x hc).2 hacc] at h
    cases h

/-- … in particular no scalar, and no element with a different (array, subscripts) -/
theorem no_alias_elements {v : Var} {n : Str} {arr : List Val} {is : List Int16} {x : Val}
    (hn : ',' ∉ n) (hc : vecValToVecI16 arr = .ok is) (h : (v.storeArray n arr x).2 = .ok ()) :
    (∀ k, ',' ∉ k → (v.storeArray n arr x).1.fetch k = v.fetch k) ∧
    (∀ m js, ',' ∉ m → (m, js) ≠ (n, is) →
      (v.storeArray n arr x).1.fetch (arrayKey m js) = v.fetch (arrayKey m js)) := by
  refine ⟨fun k hk => no_alias_array hc h k (scalar_ne_element is hk), ?_⟩
  intro m js hm hne
  apply no_alias_array hc h
  intro heq
  obtain ⟨h1, h2⟩ := key_injective hm hn heq
  exact hne (by rw [h1, h2])

example : ((Var.new.storeArray "A%".toList [.int 1, .int 2] (.int 5)).1.fetchArray "A%".toList [.int 2, .int 1]).2
    = .ok (.int 0) ∧
    ((Var.new.storeArray "A%".toList [.int 1, .int 2] (.int 5)).1.fetchArray "A%".toList [.int 1, .int 2]).2
    = .ok (.int 5) ∧
    ((Var.new.storeArray "A%".toList [.int 1, .int 2] (.int 5)).1.fetch "A%".toList) = .ok (.int 0) := by decide

/-! ### what DEFtype does -/

theorem defTy_ok {v v' : Var} {t : VarTy} {a b : Val} (h : v.defTy t a b = .ok v') :
    ∃ lo hi : Nat, (hi < 26 ∨ hi < lo) ∧
      v' = { v with types := fun i => if lo ≤ i ∧ i ≤ hi then t else v.types i,
                    vars := v.vars.filter (defKeeps t) } := by
  unfold defTy at h
  obtain ⟨f, _, h⟩ := bind_ok h
  obtain ⟨u, _, h⟩ := bind_ok h
  cases f with
  | nil => cases h
  | cons fc fr =>
    cases u with
    | nil => cases h
    | cons tc tr =>
      simp only at h
      split at h
      · cases h
      · rename_i hcond
        cases h
        refine ⟨letterIndex fc, letterIndex tc, ?_, rfl⟩
        omega

theorem defKeeps_ty {t : VarTy} {p : Str × Val} (hs : suffixTy p.1 = none) (hk : defKeeps t p = true)
    {t0 : VarTy} (h0 : p.2.ty = t0.toTy) : p.2.ty = t.toTy := by
  rcases p with ⟨k, x⟩
  unfold defKeeps at hk
  simp only at hs hk h0 ⊢
  rw [hs] at hk
  cases x <;> cases t <;> first
    | rfl
    | (simp at hk; done)
    | (cases t0 <;> cases h0; done)

/-- DEFINT/DEFSNG/DEFDBL/DEFSTR preserve the invariant: afterwards every stored value still has
    the type of its name under the *new* DEFtype table (undecorated variables whose value is of
    another type than the one being declared are dropped — for every letter, see `defTy_drops`) -/
theorem wf_defTy {v v' : Var} (hv : WF v) {t : VarTy} {a b : Val} (h : v.defTy t a b = .ok v') :
    WF v' := by
  obtain ⟨lo, hi, _, rfl⟩ := defTy_ok h
  refine ⟨?_, AL.noDup_filter _ hv.nodupVars, hv.nodupDims,
    Nat.le_trans (List.length_filter_le _ _) hv.pool⟩
  intro p hp
  obtain ⟨hp1, hp2⟩ := List.mem_filter.1 hp
  obtain ⟨t0, h1, h2, h3⟩ := hv.typed p hp1
  unfold tyOf at h1 ⊢
  cases hs : suffixTy p.1 with
  | some s =>
    rw [hs] at h1
    simp only at h1 ⊢
    exact ⟨t0, h1, h2, h3⟩
  | none =>
    rw [hs] at h1
    simp only at h1 ⊢
    have hty := defKeeps_ty hs hp2 h2
    cases hk : p.1 with
    | nil => rw [hk] at h1; cases h1
    | cons c r =>
      rw [hk] at h1
      simp only at h1 ⊢
      split at h1
      · rename_i hlt
        rw [if_pos hlt]
        cases h1
        by_cases hr : lo ≤ letterIndex c ∧ letterIndex c ≤ hi
        · exact ⟨t, by rw [if_pos hr], hty, h3⟩
        · exact ⟨v.types (letterIndex c), by rw [if_neg hr], h2, h3⟩
      · cases h1

/-- the `retain` of DEFtype: an undecorated variable holding a value of another type than the
    declared one is dropped, whatever its first letter (also outside the declared range);
    decorated variables and values of the declared type stay -/
theorem defTy_drops {v v' : Var} (hv : WF v) {t : VarTy} {a b : Val} (h : v.defTy t a b = .ok v')
    (k : Str) (x : Val) (hx : AL.get k v.vars = some x) :
    AL.get k v'.vars = if defKeeps t (k, x) then some x else none := by
  obtain ⟨lo, hi, _, rfl⟩ := defTy_ok h
  simp only
  rw [AL.get_filter hv.nodupVars, hx]

example : ((Var.new.store "B".toList (.sng 0x3fc00000)).toOption.bind fun v₁ =>
    (v₁.defint (.str "A".toList) (.str "A".toList)).toOption.bind fun v₂ =>
      (v₂.fetch "B".toList).toOption) = some (.sng 0) := by decide

/-! ### the invariant holds after every history (typed, no duplicate keys, pool ≤ 65 536) -/

/-- the operations of the variable store -/
inductive Op where
  | store (n : Str) (x : Val)
  | storeArray (n : Str) (arr : List Val) (x : Val)
  | fetchArray (n : Str) (arr : List Val)
  | dim (n : Str) (arr : List Val)
  | erase (n : Str)
  | defTy (t : VarTy) (a b : Val)
  | clear

/-- state after an operation (an error leaves the state the Rust code leaves: unchanged, except for
    the automatic dimension of a failed array use) -/
def step (v : Var) : Op → Var
  | .store n x => match v.store n x with | .ok v' => v' | .error _ => v
  | .storeArray n arr x => (v.storeArray n arr x).1
  | .fetchArray n arr => (v.fetchArray n arr).1
  | .dim n arr => match v.dimensionArray n arr with | .ok v' => v' | .error _ => v
  | .erase n => match v.eraseArray n with | .ok v' => v' | .error _ => v
  | .defTy t a b => match v.defTy t a b with | .ok v' => v' | .error _ => v
  | .clear => v.clear

theorem wf_step {v : Var} (hv : WF v) (op : Op) : WF (step v op) := by
  cases op with
  | store n x =>
    simp only [step]
    cases h : v.store n x with
    | ok v' => exact wf_store hv h
    | error e => exact hv
  | storeArray n arr x => exact wf_storeArray hv n arr x
  | fetchArray n arr => exact (wf_fetchArray hv n arr).1
  | dim n arr =>
    simp only [step]
    cases h : v.dimensionArray n arr with
    | ok v' => exact wf_dimensionArray hv h
    | error e => exact hv
  | erase n =>
    simp only [step]
    cases h : v.eraseArray n with
    | ok v' => exact wf_eraseArray hv h
    | error e => exact hv
  | defTy t a b =>
    simp only [step]
    cases h : v.defTy t a b with
    | ok v' => exact wf_defTy hv h
    | error e => exact hv
  | clear => exact wf_new

/-- after every history of operations: every variable holds a value of its own type, keys are
    distinct, and the pool holds at most 65 536 values -/
theorem wf_run (ops : List Op) : WF (ops.foldl step Var.new) := by
  have gen : ∀ (ops : List Op) (v : Var), WF v → WF (ops.foldl step v) := by
    intro ops
    induction ops with
    | nil => intro v h; exact h
    | cons op ops ih => intro v h; exact ih _ (wf_step h op)
  exact gen ops Var.new wf_new

theorem pool_bounded (ops : List Op) : (ops.foldl step Var.new).vars.length ≤ 65536 :=
  (wf_run ops).pool

example : ([Op.store "A%".toList (.int 1), Op.storeArray "B%".toList [.int 3] (.int 2),
    Op.defTy .string (.str "A".toList) (.str "Z".toList)].foldl step Var.new).vars.length = 2 := by decide

/-- the limits the Rust source states today are the documented ones: auto-dimension bound 10, 255-character strings, 65 535-variable pool test; `Gen/Limits.lean` is regenerated from /repo/src on every run, so editing one of these
    constants in the Rust source breaks this obligation -/
theorem generated_limits_documented : Gen.autoDimBound = 10 ∧ Gen.stringMaxLen = 255 ∧ Gen.varMaxLen = 65535 := by decide

end Thm.C06
end Basic
