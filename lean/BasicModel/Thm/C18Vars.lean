import BasicModel.Thm.C03
import BasicModel.Lemmas.VarsInv
/-
  C18 (continued, runtime chain 2) — the variable pool in every reachable state, and the session after
  OUT OF MEMORY.

  * "setting variables back to 0 or the empty string frees their slots": the test `update_val` makes
    is on the value CONVERTED to the variable's type (`store_frees_iff`, `store_default_shrinks`);
    no stored entry ever holds a default value (`NoDefaults`): an invariant of every operation of the
    store, of every VM instruction, of `execute` / `enter` / `interrupt` / `set_listing`, hence of every
    reachable state (`session_store_wf`, `session_no_defaults`), where "reads as 0 / the empty
    string" and "has no slot" are the same thing (`reachable_default_iff_no_slot`);
  * the pool bound: `store` is OUT OF MEMORY exactly when more than 65 535 entries exist AND the name
    is not in the pool yet (`store_oom_iff`, `full_pool_refuses_new_names`), so no reachable state
    holds more than 65 536 (`session_pool_bounded`); on ANY pool, a full one included, a variable that
    holds a value can be set back to a default value — the slot is freed, the pool shrinks by one
    (`store_default_frees_any_pool`) — or overwritten, the pool keeping its size
    (`store_overwrite_any_pool`);
  * after OUT OF MEMORY the session stays usable: an error that leaves the stack full — every failed
    push does (`push_overflow_is_full`) — makes `execute` clear the stack (`execute_error_full_clears`);
    the next call reports the error, and a direct line entered then starts with an empty stack, the
    variables, the listing and the program as they were (`oom_then_direct_line`).

  FINDING D23 (found here as `full_pool_is_final`, confirmed on the real interpreter, repaired in /repo by
  dfafc65 and mirrored in `Model/Var.lean`): `store` used to test the pool BEFORE looking at the name, so
  once 65 536 entries existed even `A = 0` for a variable that holds a value was OUT OF MEMORY and no
  assignment could free a slot.  The repaired test refuses only a name that is not in the pool yet; what
  is proved now is the positive statement the property wants, with no hypothesis on the size of the pool
  (`store_default_frees_any_pool`, `store_overwrite_any_pool`), and the exact refusal condition
  (`store_oom_iff`).
-/
namespace Basic
namespace Thm.C18
open Basic.Runtime Basic.Lemmas.VarPool
open Thm.C06 (WF wf_new)

/-! ### the store operations (chain-neutral, `Lemmas/VarPool.lean`) -/

/-- **the test is made on the converted value**: after a successful `store n x`, with `y` the value
    `x` converted to the type of `n` — `n` has no slot iff `y` is a default (`0`, `±0.0`, `""`); then the
    entries are the old ones without `n`; otherwise `n` holds exactly `y` -/
theorem store_frees_iff {v v' : Var} {n : Str} {x : Val} (h : v.store n x = .ok v') :
    ∃ t y, v.tyOf n = .ok (some t) ∧ convTo t x = .ok y ∧
      (Var.isDefault y = true ↔ AL.get n v'.vars = none) ∧
      (Var.isDefault y = true → v'.vars = AL.erase n v.vars ∧ v'.vars.length ≤ v.vars.length) ∧
      (Var.isDefault y = false → AL.get n v'.vars = some y) :=
  Lemmas.VarPool.store_frees_iff h

/-- after a successful `store` the variable reads as a default value iff it has no slot -/
theorem store_default_frees {v v' : Var} {n : Str} {x z : Val} (h : v.store n x = .ok v')
    (hf : v'.fetch n = .ok z) : Var.isDefault z = true ↔ AL.get n v'.vars = none :=
  Lemmas.VarPool.store_default_frees h hf

/-- a variable that holds a value, assigned a value whose conversion to its type is a default:
    the pool is one entry smaller -/
theorem store_default_shrinks {v v' : Var} (hd : AL.NoDup v.vars) {n : Str} {x old : Val}
    (hold : AL.get n v.vars = some old) (h : v.store n x = .ok v')
    (hx : ∀ t y, v.tyOf n = .ok (some t) → convTo t x = .ok y → Var.isDefault y = true) :
    v'.vars.length + 1 = v.vars.length ∧ AL.get n v'.vars = none :=
  Lemmas.VarPool.store_default_shrinks hd hold h hx

/-- `NoDefaults` is kept by every operation of the store -/
theorem noDefaults_invariant :
    NoDefaults Var.new ∧ (∀ v : Var, NoDefaults v.clear) ∧
    (∀ (v v' : Var) n x, NoDefaults v → v.store n x = .ok v' → NoDefaults v') ∧
    (∀ (v : Var) n arr x, NoDefaults v → NoDefaults (v.storeArray n arr x).1) ∧
    (∀ (v : Var) n arr, NoDefaults v → NoDefaults (v.fetchArray n arr).1) ∧
    (∀ (v v' : Var) n arr, NoDefaults v → v.dimensionArray n arr = .ok v' → NoDefaults v') ∧
    (∀ (v v' : Var) n, NoDefaults v → v.eraseArray n = .ok v' → NoDefaults v') ∧
    (∀ (v v' : Var) t a b, NoDefaults v → v.defTy t a b = .ok v' → NoDefaults v') :=
  ⟨noDefaults_new, noDefaults_clear,
   fun _ _ _ _ hv h => noDefaults_store hv h,
   fun _ n arr x hv => noDefaults_storeArray hv n arr x,
   fun _ n arr hv => noDefaults_fetchArray hv n arr,
   fun _ _ _ _ hv h => noDefaults_dimensionArray hv h,
   fun _ _ _ hv h => noDefaults_eraseArray hv h,
   fun _ _ _ _ _ hv h => noDefaults_defTy hv h⟩

/-- **the exact condition of OUT OF MEMORY in `store`**: more than 65 535 entries AND a name the pool
    does not hold yet — whatever the value -/
theorem store_oom_iff (v : Var) (n : Str) (x : Val) :
    (∃ e, v.store n x = .error e ∧ e.code = Code.outOfMemory) ↔
      (v.vars.length > 65535 ∧ AL.contains n v.vars = false) :=
  Lemmas.VarPool.store_oom_iff v n x

/-- a full pool refuses exactly the new names -/
theorem full_pool_refuses_new_names (v : Var) (h : v.vars.length > 65535) (n : Str) (x : Val)
    (hn : AL.contains n v.vars = false) : v.store n x = err Code.outOfMemory :=
  Lemmas.VarPool.full_pool_refuses_new_names v h n x hn

/-- **"setting variables back to 0 or the empty string frees their slots" — on ANY pool**, a full one
    included (D23 repaired): a variable that holds a value, assigned a value whose conversion `y` to the
    variable's type is a default (`0`, `±0.0`, `""`): the store SUCCEEDS, the key is removed, the pool is
    at least one entry smaller — exactly one with distinct keys -/
theorem store_default_frees_any_pool (v : Var) (n : Str) (x y : Val) (t : VarTy)
    (hc : AL.contains n v.vars = true) (ht : v.tyOf n = .ok (some t)) (hy : convTo t x = .ok y)
    (hd : Var.isDefault y = true) :
    ∃ v', v.store n x = .ok v' ∧ v'.vars = AL.erase n v.vars ∧ AL.get n v'.vars = none ∧
      v'.vars.length + 1 ≤ v.vars.length ∧ (AL.NoDup v.vars → v'.vars.length + 1 = v.vars.length) :=
  Lemmas.VarPool.store_default_frees_any_pool v n x y t hc ht hy hd

/-- **overwriting a variable that holds a value works on ANY pool**, a full one included, and keeps
    the size of the pool -/
theorem store_overwrite_any_pool (v : Var) (n : Str) (x y : Val) (t : VarTy)
    (hc : AL.contains n v.vars = true) (ht : v.tyOf n = .ok (some t)) (hy : convTo t x = .ok y)
    (hd : Var.isDefault y = false) :
    ∃ v', v.store n x = .ok v' ∧ v'.vars = AL.set n y v.vars ∧ AL.get n v'.vars = some y ∧
      v'.vars.length ≤ v.vars.length ∧ (AL.NoDup v.vars → v'.vars.length = v.vars.length) :=
  Lemmas.VarPool.store_overwrite_any_pool v n x y t hc ht hy hd

/-- on the pool of 65 536 entries `fullPool` (`A% = 5` and 65 535 others): `A% = 0.4` — converted value
    `0` — succeeds and frees the slot -/
example : ∃ v', fullPool.store "A%".toList (.sng 0x3ECCCCCD) = .ok v' ∧ AL.get "A%".toList v'.vars = none ∧
    v'.vars.length + 1 ≤ fullPool.vars.length := by
  obtain ⟨v', h1, _, h3, h4, _⟩ := store_default_frees_any_pool fullPool "A%".toList (.sng 0x3ECCCCCD) (.int 0)
    .integer fullPool_contains rfl (by decide) rfl
  exact ⟨v', h1, h3, h4⟩

/-! ### every instruction, every API call -/

/-- **every instruction keeps the store well-formed** (entries typed and not default values, keys
    distinct, at most 65 536 entries), whether it succeeds, fails or returns an event -/
theorem instruction_keeps_store (env : Env) (hie : Bool) (op : Opcode) (s : Runtime) (h : WF s.vars) :
    WF ((execOp env hie op).run.run s).2.vars :=
  (execOp_varsWF env hie op).run s h

theorem step_keeps_store (env : Env) (hie : Bool) (s : Runtime) (h : WF s.vars) :
    WF ((step env hie).run.run s).2.vars :=
  step_varsWF env hie s h

theorem step_keeps_noDefaults (env : Env) (hie : Bool) (s : Runtime) (h : WF s.vars) :
    NoDefaults ((step env hie).run.run s).2.vars :=
  noDefaults_of_wf (step_varsWF env hie s h)

theorem slice_keeps_store (env : Env) (n : Nat) (s : Runtime) (h : WF s.vars) :
    WF ((executeLoop env n).run.run s).2.vars :=
  executeLoop_varsWF env n s h

theorem api_keeps_store (env : Env) (s : Runtime) (h : WF s.vars) :
    (∀ n, WF (execute env s n).1.vars) ∧ (∀ line, WF (enter env s line).vars) ∧ WF (interrupt s).vars ∧
    (∀ l run, WF (setListing env s l run).vars) :=
  ⟨fun n => execute_varsWF env s n h, fun line => enter_varsWF env s line h, interrupt_varsWF s h,
   fun l run => setListing_varsWF env s l run h⟩

/-- **in every reachable state** — after any sequence of `execute`, `enter`, `interrupt`,
    `set_listing` calls on a fresh interpreter, for every lexer and every entropy — the store is
    well-formed -/
theorem session_store_wf (env : Env) (calls : List C03.Call) :
    WF (calls.foldl (C03.Call.apply env) ({} : Runtime)).vars := by
  have gen : ∀ (calls : List C03.Call) (s : Runtime), WF s.vars → WF (calls.foldl (C03.Call.apply env) s).vars := by
    intro calls
    induction calls with
    | nil => intro s h; exact h
    | cons c cs ih =>
      intro s h
      apply ih
      cases c with
      | execute n => exact execute_varsWF env s n h
      | enter line => exact enter_varsWF env s line h
      | interrupt => exact interrupt_varsWF s h
      | setListing l run => exact setListing_varsWF env s l run h
  exact gen calls _ wf_new

/-- no reachable state stores a default value -/
theorem session_no_defaults (env : Env) (calls : List C03.Call) :
    NoDefaults (calls.foldl (C03.Call.apply env) ({} : Runtime)).vars :=
  noDefaults_of_wf (session_store_wf env calls)

/-- no reachable state holds more than 65 536 variables -/
theorem session_pool_bounded (env : Env) (calls : List C03.Call) :
    (calls.foldl (C03.Call.apply env) ({} : Runtime)).vars.vars.length ≤ 65536 :=
  (session_store_wf env calls).pool

/-- in every reachable state a variable reads as `0` / `±0.0` / `""` iff it has no slot -/
theorem reachable_default_iff_no_slot (env : Env) (calls : List C03.Call) (n : Str) (z : Val)
    (hf : (calls.foldl (C03.Call.apply env) ({} : Runtime)).vars.fetch n = .ok z) :
    Var.isDefault z = true ↔ AL.get n (calls.foldl (C03.Call.apply env) ({} : Runtime)).vars.vars = none :=
  fetch_default_iff_absent (session_no_defaults env calls) n z hf

/-! ### the session after OUT OF MEMORY -/

/-- a failed push leaves the stack "full" in the sense of `execute`'s test -/
theorem push_overflow_is_full (v : Val) (s t : Runtime) (e : Error) (h : (push v).run.run s = (.error e, t)) :
    isFull t = true ∧ e = stackOverflow := by
  obtain ⟨_, he, hsz, hge⟩ := C03.push_overflow v s t e h
  refine ⟨?_, he⟩
  unfold isFull
  have : t.stack.size > Gen.stackMaxLen - Gen.stackFullMargin := by
    simp only [Gen.stackMaxLen, Gen.stackFullMargin]; omega
  exact decide_eq_true this

/-- **an error on a full stack clears the stack**: a running machine whose slice fails in a state
    with a full stack (more than 65 503 values: every stack overflow, whatever pushed) ends the call
    with the error recorded, the stack EMPTY and nothing to continue — also inside a program, where
    other errors keep the stack for CONT -/
theorem execute_error_full_clears (env : Env) (s s' : Runtime) (n : Nat) (e : Error)
    (hs : s.state = .running) (hd : s.listing.directErrors = [])
    (hrun : (executeLoop env n).run.run s = (.error e, s')) (hst : s'.state ≠ .inputRunning)
    (hfull : isFull s' = true) :
    execute env s n =
      ({ s' with cont := .stopped, state := .runtimeError (e.inLine (lineNumber s')), contPc := s'.pc,
                 stack := #[] }, .running) := by
  rw [execute_running env s n hs hd, hrun]
  unfold finishLoop
  dsimp only
  rw [if_neg hst]
  have : isFull { s' with cont := s'.state, state := .runtimeError (e.inLine (lineNumber s')), contPc := s'.pc } = true :=
    hfull
  rw [this, Bool.or_true, if_pos rfl]

/-- the state `execute` leaves after an error on a full stack -/
def afterOom (s' : Runtime) (e : Error) : Runtime :=
  { s' with cont := .stopped, state := .runtimeError (e.inLine (lineNumber s')), contPc := s'.pc, stack := #[] }

/-- **the session stays usable**: from that state the next `execute` (at column 0) reports the error
    and stops; a direct line entered then is compiled and started as from any prompt — `running` at
    the direct address, with an EMPTY stack and the variables the failed program left; nothing of the
    overflowed stack survives -/
theorem oom_then_direct_line (env : Env) (s' : Runtime) (e : Error) (n : Nat) (hc : s'.printCol = 0)
    (line : Str) (hlen : ¬ RStd.utf8Len line > Gen.maxLineLen) (hnum : (env.lex line).number = none)
    (htok : (env.lex line).tokens ≠ []) :
    execute env (afterOom s' e) n =
      ({ afterOom s' e with state := .stopped }, .errors [e.inLine (lineNumber s')]) ∧
    enter env { afterOom s' e with state := .stopped } line =
      enterDirect { afterOom s' e with state := .stopped } (env.lex line) ∧
    (enter env { afterOom s' e with state := .stopped } line).stack = #[] ∧
    (enter env { afterOom s' e with state := .stopped } line).state = .running ∧
    (enter env { afterOom s' e with state := .stopped } line).vars = s'.vars ∧
    (enter env { afterOom s' e with state := .stopped } line).cont = .stopped := by
  have h2 : enter env { afterOom s' e with state := .stopped } line =
      enterDirect { afterOom s' e with state := .stopped } (env.lex line) := by
    unfold enter
    have hne : (env.lex line).tokens.isEmpty = false := by
      cases h : (env.lex line).tokens with
      | nil => exact absurd h htok
      | cons a b => rfl
    simp only [afterOom, hlen, if_false, hnum, Option.isNone_none, if_true, hne, Bool.false_eq_true]
  refine ⟨execute_runtimeError_nocol env _ n _ rfl hc, h2, ?_, ?_, ?_, ?_⟩
  all_goals (rw [h2]; unfold enterDirect afterOom; dsimp only; try (first | rfl | (split <;> rfl)))

/-! ### non-vacuity -/

example : WF ({} : Runtime).vars := wf_new
example : NoDefaults ({} : Runtime).vars := noDefaults_new
/-- `pop "A%"` with `0.4` on the stack and `A% = 5` stored: the slot is given back -/
example : ((execOp C03.env0 false (.pop "A%".toList)).run.run
    { stack := #[.sng 0x3ECCCCCD], vars := { vars := [("A%".toList, .int 5)] } }).2.vars.vars = [] := by decide
example : ((execOp C03.env0 false (.pop "A%".toList)).run.run
    { stack := #[.int 7], vars := { vars := [("A%".toList, .int 5)] } }).2.vars.vars = [("A%".toList, .int 7)] := by
  decide
example : isFull { stack := Array.replicate 65504 (.int 0) } = true := by
  simp [isFull, Gen.stackMaxLen, Gen.stackFullMargin]

end Thm.C18
end Basic
