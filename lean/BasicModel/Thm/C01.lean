import BasicModel.Lemmas.Link
import BasicModel.Lemmas.Control
import BasicModel.Lemmas.ExprCompile
import BasicModel.Lemmas.StructCompile
import BasicModel.Lemmas.StructCodegen
import BasicModel.Lemmas.StructLink
/-
  C01 — Compiled execution follows the documented control-flow semantics (floor).

  The linker resolves every reference to the table entry of its symbol and pairs WHILE with WEND
  as brackets; the VM's branching instructions do what the manual says: `ifNot` branches on zero,
  ON selects 1-based and falls through on 0 or beyond the list, NEXT compares by the sign of the
  step, GOSUB/RETURN is a balanced call.

  Expressions: for the fragment `Spec.Pure` (literals, scalar variable reads, unary minus, NOT, the
  18 binary operators, one-argument built-in functions) the compiler emits the postfix code `flat e`
  (`compileExpr_shape`) and the VM, run on that code, pushes the value the direct evaluator
  `Spec.eval` assigns to the tree, or stops in the same error (`compileExpr_correct`).

  Structured statements (last two sections): LET, `:`, IF-THEN(-ELSE), WHILE-WEND and FOR-NEXT with
  pure expressions have a big-step semantics on the variable store (`Spec/Struct.lean`); their linked
  code `compile p a` implements it (`structured_correct`, by the block calculus `block_rules`); the
  generator emits the fragments `FragShape` for them and the linker turns those, on a clean link, into
  `compile p a` (`structured_codegen_shape`, `structured_linked`, `one_line_program_correct`).
  Statements outside that fragment (GOTO into or out of a block, NEXT with another or no variable,
  arrays, PRINT, …) and structured statements spread over several lines of a larger program are
  not covered by the compositional theorems.
-/
namespace Basic
namespace Thm.C01
open Link
open Basic.Runtime

/-! ### the linker -/

/-- every reference to a defined symbol is resolved to that symbol's entry (code address; data
    address for RESTORE), and nothing else is touched -/
theorem linkOne_resolves {l : Link} {a : Nat} {c : Col} {sym : Symbol} {o d : Nat} {op op' : Opcode}
    (hsym : l.symbols.lookup sym = some (o, d)) (hop : l.ops[a]? = some op) (hp : patched op o d = some op') :
    (l.linkOne a c sym).1.ops[a]? = some op' ∧ (l.linkOne a c sym).2 = none ∧
    (∀ j, j ≠ a → (l.linkOne a c sym).1.ops[j]? = l.ops[j]?) ∧
    (l.linkOne a c sym).1.ops.size = l.ops.size :=
  Link.linkOne_resolves_get hsym hop hp

/-- a missing line is reported UNDEFINED LINE (code 8) with column and line of the reference -/
theorem linkOne_undefined {l : Link} {a : Nat} {c : Col} {n : Symbol}
    (hsym : l.symbols.lookup n = none) (h0 : 0 ≤ n) :
    l.linkOne a c n = (l, some (mkErr Code.undefinedLine (l.lineNumberFor a) c)) ∧ Code.undefinedLine = 8 :=
  ⟨Link.linkOne_undefined hsym h0, rfl⟩

/-- the whole pass: every pending reference to a defined symbol is resolved (see also `Thm.C20`) -/
theorem link_resolves (l : Link) (hd : KeysDistinct l.unlinked) (a : Nat) (c : Col) (sym : Symbol)
    (hmem : (a, (c, sym)) ∈ l.linkWhiles.1.unlinked)
    {o d : Nat} {op op' : Opcode} (hsym : l.symbols.lookup sym = some (o, d))
    (hop : l.ops[a]? = some op) (hp : patched op o d = some op') :
    l.link.1.ops[a]? = some op' :=
  Link.link_resolves l hd a c sym hmem hsym hop hp

/-- … and every reference to a missing line is reported -/
theorem link_reports_undefined (l : Link) (a : Nat) (c : Col) (n : Symbol)
    (hmem : (a, (c, n)) ∈ l.linkWhiles.1.unlinked)
    (hsym : l.symbols.lookup n = none) (h0 : 0 ≤ n) :
    mkErr Code.undefinedLine (l.lineNumberFor a) c ∈ l.link.2 :=
  Link.link_reports_undefined l a c n hmem hsym h0

/-- WHILE/WEND pairing is bracket matching in code order -/
theorem linkWhiles_matches (l : Link) :
    l.linkWhiles =
      ({ l with whiles := [], unlinked := (Spec.bracketMatch l.whiles).1.foldl pairRefs l.unlinked },
       (Spec.bracketMatch l.whiles).2.1.map (fun e => mkErr Code.wendWithoutWhile (l.lineNumberFor e.2.1) e.1) ++
       (Spec.bracketMatch l.whiles).2.2.map (fun w => mkErr Code.whileWithoutWend (l.lineNumberFor w.2.1) w.1)) :=
  Link.linkWhiles_matches l

/-- what a matched pair means: the WHILE's `ifNot` (at the WHILE mark's address) exits to the WEND's
    label — the op after the WEND's jump —, the WEND's `jump` returns to the WHILE's label — the
    start of the condition -/
theorem pairRefs_lookup (u : List (Nat × (Col × Symbol))) (w e : Mark) (hne : w.2.1 ≠ e.2.1) :
    (pairRefs u (w, e)).lookup w.2.1 = some (w.1, e.2.2) ∧
    (pairRefs u (w, e)).lookup e.2.1 = some (e.1, w.2.2) := by
  unfold pairRefs
  simp only [unlInsert_lookup, if_true]
  rw [if_neg hne]
  exact ⟨rfl, trivial⟩

/-- the specification really is "nearest unmatched preceding WHILE": a WHILE…WEND around a balanced
    body is paired, whatever surrounds it -/
theorem bracket_nested {α : Type} (w e : α) (body rest : List (Bool × α)) (st : List α) (p : List (α × α))
    (hbody : Spec.bracketMatch body = (p, [], [])) :
    Spec.bracketAux ((true, w) :: body ++ (false, e) :: rest) st =
      (p ++ (w, e) :: (Spec.bracketAux rest st).1, (Spec.bracketAux rest st).2.1, (Spec.bracketAux rest st).2.2) :=
  Spec.bracketAux_nested w e body rest st p hbody

/-! ### IF -/

/-- `ifNot a`: pops a number; control goes to `a` iff it is zero (else to the next op);
    a string is TYPE MISMATCH -/
theorem ifNot_branches (env : Env) (hie : Bool) (s : Runtime) (a : Nat) (σ : Array Val) (v : Val)
    (htr : s.tron = false) (hop : s.program.link.ops[s.pc]? = some (.ifNot a))
    (hst : s.stack = σ.push v) :
    ((step env hie).run).run s =
      match zeroTest v with
      | some z => (.ok .continue, { s with stack := σ, pc := if z then a else s.pc + 1 })
      | none => (.error (Error.mk' Code.typeMismatch), { s with stack := σ, pc := s.pc + 1 }) :=
  run_step_ifNot env hie s a σ v htr hop hst

theorem ifNot_int (env : Env) (hie : Bool) (s : Runtime) (a : Nat) (σ : Array Val) (n : Int16)
    (htr : s.tron = false) (hop : s.program.link.ops[s.pc]? = some (.ifNot a))
    (hst : s.stack = σ.push (.int n)) :
    ((step env hie).run).run s = (.ok .continue, { s with stack := σ, pc := if n = 0 then a else s.pc + 1 }) := by
  rw [run_step_ifNot env hie s a σ _ htr hop hst]
  simp [zeroTest]

theorem ifNot_string (env : Env) (hie : Bool) (s : Runtime) (a : Nat) (σ : Array Val) (x : Str)
    (htr : s.tron = false) (hop : s.program.link.ops[s.pc]? = some (.ifNot a))
    (hst : s.stack = σ.push (.str x)) :
    (((step env hie).run).run s).1 = .error (Error.mk' Code.typeMismatch) := by
  rw [run_step_ifNot env hie s a σ _ htr hop hst]
  rfl

/-! ### GOTO -/

theorem jump_goes (env : Env) (s : Runtime) (a : Nat)
    (htr : s.tron = false) (hop : s.program.link.ops[s.pc]? = some (.jump a)) :
    ((step env false).run).run s = (.ok .continue, { s with pc := a }) :=
  run_step_jump env false s a htr hop (.inl rfl)

/-! ### ON -/

/-- ON: with `1 ≤ select ≤ len`, control advances by `select − 1` (onto the select-th jump of the
    table); with `select = 0` or `select > len`, by `len` (past the table); a negative value is
    ILLEGAL FUNCTION CALL.  Both operands are popped in every case. -/
theorem doOn_selects (s : Runtime) (σ : Array Val) (lenV selV : Val) (len sel : Int16)
    (hst : s.stack = (σ.push lenV).push selV) (hsel : selV.toI16 = .ok sel) (hlen : lenV.toI16 = .ok len) :
    (1 ≤ sel.toInt → sel.toInt ≤ len.toInt →
      (doOn.run).run s = (.ok (), { s with stack := σ, pc := s.pc + (sel.toInt.toNat - 1) })) ∧
    (0 ≤ len.toInt → (sel.toInt = 0 ∨ sel.toInt > len.toInt) →
      (doOn.run).run s = (.ok (), { s with stack := σ, pc := s.pc + len.toInt.toNat })) ∧
    ((sel.toInt < 0 ∨ len.toInt < 0) →
      (doOn.run).run s = (.error (Error.mk' Code.illegalFunctionCall), { s with stack := σ })) := by
  have h := run_doOn s σ lenV selV len sel hst hsel hlen
  refine ⟨?_, ?_, ?_⟩
  · intro h1 h2
    rw [h, if_neg (by omega), if_neg (by omega)]
  · intro h0 hf
    rw [h, if_neg (by omega), if_pos hf]
  · intro hn
    rw [h, if_pos hn]

/-! ### GOSUB / RETURN -/

/-- GOSUB pushes its return address, RETURN removes it and resumes there: the pair is stack-neutral -/
theorem gosub_return (env : Env) (hie : Bool) (s s1 : Runtime) (R : Nat)
    (htr : s.tron = false) (hop : s.program.link.ops[s.pc]? = some (.literal (.ret R)))
    (hb : s.stack.size + 1 ≤ 65535)
    (hs1 : s1.stack = s.stack.push (.ret R)) :
    ((step env hie).run).run s = (.ok .continue, { s with pc := s.pc + 1, stack := s.stack.push (.ret R) }) ∧
    (doReturn.run).run s1 = (.ok (), { s1 with stack := s.stack, pc := R }) := by
  constructor
  · rw [run_step_literal env hie s _ htr hop, if_neg (by simp only [Gen.stackMaxLen]; omega)]
  · have := run_doReturn s1 s.stack R [] (fun _ h => nomatch h) (by simpa using hs1)
    rw [this]; rfl

/-- RETURN without a pending GOSUB: RETURN WITHOUT GOSUB (code 3) -/
theorem return_without_gosub (s : Runtime) (h : s.stack = #[]) :
    ((doReturn.run).run s).1 = .error (Error.mk' Code.returnWithoutGosub) := by
  unfold doReturn
  simp only [run_bind, run_get, h]
  unfold doReturn.loop
  simp only [run_bind, run_get, h]
  rfl

/-! ### FOR / NEXT -/

/-- NEXT: the variable is incremented by the step; the termination test is chosen by the sign of the
    step — `variable < limit` for a negative step, `limit < variable` otherwise — and the loop
    continues (control to the body, frame kept) exactly when the test is false -/
theorem doNext_compares_by_sign_of_step (s : Runtime) (σ : Array Val) (toV stepV : Val) (vn name : Str) (addr : Nat)
    (cur0 cur : Val) (vars' : Var) (st : Float) (done : Val)
    (hst : s.stack = σ ++ forFrame toV stepV vn addr)
    (hname : name = [] ∨ vn = name)
    (hfetch : s.vars.fetch vn = .ok cur0) (hsum : Ops.sum cur0 stepV = .ok cur)
    (hstore : s.vars.store vn cur = .ok vars') (hstep : stepV.toF64 = .ok st)
    (hdone : (if st < 0 then Ops.less cur toV else Ops.less toV cur) = .ok done)
    (hb : s.stack.size ≤ 65535) :
    ((doNext name).run).run s =
      if done ≠ .int (-1) then (.ok (), { s with vars := vars', pc := addr })
      else (.ok (), { s with vars := vars', stack := σ }) :=
  run_doNext s σ toV stepV vn name addr cur0 cur vars' st done hst hname hfetch hsum hstore hstep hdone hb

/-- the Integer instance: with Integer counter `c` (after the increment) and limit `t`, the loop
    continues iff `t ≤ c` for a negative step and iff `c ≤ t` otherwise — the last pass is the one
    that reaches the limit -/
theorem doNext_integer_test (s : Runtime) (σ : Array Val) (t c : Int16) (stepV : Val) (vn name : Str) (addr : Nat)
    (cur0 : Val) (vars' : Var) (st : Float)
    (hst : s.stack = σ ++ forFrame (.int t) stepV vn addr)
    (hname : name = [] ∨ vn = name)
    (hfetch : s.vars.fetch vn = .ok cur0) (hsum : Ops.sum cur0 stepV = .ok (.int c))
    (hstore : s.vars.store vn (.int c) = .ok vars') (hstep : stepV.toF64 = .ok st)
    (hb : s.stack.size ≤ 65535) :
    ((doNext name).run).run s =
      if (if st < 0 then t ≤ c else c ≤ t) then (.ok (), { s with vars := vars', pc := addr })
      else (.ok (), { s with vars := vars', stack := σ }) := by
  have hless : ∀ a b : Int16, Ops.less (.int a) (.int b) = .ok (Ops.truth (decide (a < b))) := by
    intro a b; rfl
  have key := run_doNext s σ (.int t) stepV vn name addr cur0 (.int c) vars' st
    (if st < 0 then Ops.truth (decide (c < t)) else Ops.truth (decide (t < c))) hst hname hfetch hsum hstore hstep
    (by split <;> rw [hless]) hb
  rw [key]
  by_cases h0 : st < 0
  · simp only [h0, if_true]
    by_cases hc : c < t
    · have : ¬ t ≤ c := Int16.not_le.2 hc
      simp [Ops.truth, hc, this]
    · have : t ≤ c := Int16.not_lt.1 hc
      simp [Ops.truth, hc, this]
  · simp only [h0, if_false]
    by_cases hc : t < c
    · have : ¬ c ≤ t := Int16.not_le.2 hc
      simp [Ops.truth, hc, this]
    · have : c ≤ t := Int16.not_lt.1 hc
      simp [Ops.truth, hc, this]

/-! ### non-vacuity -/

def exOn (sel : Int16) : Runtime := { stack := #[.int 3, .int sel], pc := 10 }

example : ((doOn.run).run (exOn 1)).2.pc = 10 := by decide
example : ((doOn.run).run (exOn 3)).2.pc = 12 := by decide
example : ((doOn.run).run (exOn 0)).2.pc = 13 := by decide
example : ((doOn.run).run (exOn 4)).2.pc = 13 := by decide
example : ((doOn.run).run (exOn (-1))).1 = .error (Error.mk' Code.illegalFunctionCall) := by decide
example : Spec.bracketMatch [(true, 'a'), (true, 'b'), (false, 'c'), (false, 'd')] = ([('b', 'c'), ('a', 'd')], [], []) := by
  decide
example : (({ whiles := [(false, (0, 4), 3, -1)], symbols := [(10, (0, 0))] } : Link).linkWhiles).2 =
    [{ code := Code.wendWithoutWhile, line := some 10, colStart := 0, colEnd := 4 }] := by decide
example : (({ whiles := [(true, (0, 5), 1, -1), (false, (0, 4), 3, -2)] } : Link).linkWhiles).1.unlinked =
    [(3, ((0, 4), -1)), (1, ((0, 5), -2))] := by decide


/-! ### expressions: the compiled code computes the tree's value -/

section expressions
open Basic.Spec Basic.Lemmas.ExprCompile

/-- **Codegen shape.**  For a tree `e` of the fragment `Spec.Pure` whose postfix code `flat e` fits
    the code segment, the visitor pushes exactly one entry on the expression stack, a fragment whose
    code is `flat e` and that has no data, no symbols, no pending references, no WHILE marks and
    symbol counter 0; it reports no error and leaves the variable stack, the statement stack and the
    fragment under construction as they were. -/
theorem compileExpr_shape {e : Expr} (hp : Pure e) (s : Codegen.VState) (hlen : (flat e).length ≤ 65535) :
    ∃ c, Codegen.acceptExpr e s =
      { s with g := { s.g with expr := s.g.expr.push (c, ({ ops := (flat e).toArray } : Link)) } } :=
  acceptExpr_shape hp s hlen

/-- **Compiled expressions compute their tree value.**  Compiling a tree of the fragment adds exactly
    one expression fragment (code `flat e`) and reports nothing.  Wherever that code lies in the code
    segment of a runtime `s` — trace off, room on the stack for `(flat e).length` values, `hie`
    arbitrary —, running it from `s.pc`:
    * if `Spec.eval s.vars e = .ok v`: every step answers `continue`, and the final state is `s` with
      `pc` advanced past the code and `v` pushed on the stack (the rest of the stack, the variables and
      everything else as in `s`); the variables are unchanged after every single step;
    * if `Spec.eval s.vars e = .error err`: after `k` good steps (`k` less than the code's length,
      variables unchanged all along) the next step fails with exactly `err`, variables still
      unchanged, and that is what running the whole code reports. -/
theorem compileExpr_correct (env : Env) (hie : Bool) {e : Expr} (hp : Pure e) (vs : Codegen.VState)
    (hlen : (flat e).length ≤ 65535) :
    ∃ (c : Col) (frag : Link),
      (Codegen.acceptExpr e vs).g.expr = vs.g.expr.push (c, frag) ∧
      (Codegen.acceptExpr e vs).errors = vs.errors ∧
      frag.ops = (flat e).toArray ∧
      ∀ (s : Runtime), CodeAt s.program.link.ops s.pc frag.ops.toList → s.tron = false →
        s.stack.size + frag.ops.size ≤ 65535 →
        (∀ v, eval s.vars e = .ok v →
          runOps env hie frag.ops.toList s =
            (.ok .continue, { s with pc := s.pc + frag.ops.size, stack := s.stack.push v }) ∧
          ∀ j, j ≤ frag.ops.size → ∃ sj, runSteps env hie j s = (.ok .continue, sj) ∧ sj.vars = s.vars) ∧
        (∀ err, eval s.vars e = .error err →
          ∃ (k : Nat) (s' s'' : Runtime), k < frag.ops.size ∧
            runSteps env hie k s = (.ok .continue, s') ∧
            ((step env hie).run).run s' = (.error err, s'') ∧
            s''.vars = s.vars ∧
            (∀ j, j ≤ k → ∃ sj, runSteps env hie j s = (.ok .continue, sj) ∧ sj.vars = s.vars) ∧
            runOps env hie frag.ops.toList s = (.error err, s'')) := by
  obtain ⟨c, h⟩ := acceptExpr_shape hp vs hlen
  refine ⟨c, plain (flat e).toArray, by rw [h], by rw [h], rfl, ?_⟩
  intro s hcode htr hroom
  have e1 : (plain (flat e).toArray).ops.toList = flat e := by simp [plain]
  have e2 : (plain (flat e).toArray).ops.size = (flat e).length := by simp [plain]
  rw [e1] at hcode ⊢
  rw [e2] at hroom ⊢
  exact flat_correct env hie hp s hcode htr hroom

/-! non-vacuity: `1 + 2 * A%` -/

/-- `1 + 2 * A%` -/
def exTree : Expr :=
  .bin .add (0, 9) (.integer (0, 1) 1)
    (.bin .multiply (4, 9) (.integer (4, 5) 2) (.var (.unary (8, 9) (.integer "A%".toList))))

/-- `A% \ 0`: fails in the last instruction -/
def exBad : Expr := .bin .divideInt (0, 6) (.var (.unary (0, 2) (.integer "A%".toList))) (.integer (5, 6) 0)

def exEnv : Env := { lex := fun _ => default, lineRenum := fun _ l => l }

/-- a runtime with the given code at address 2, one value on the stack and `A% = 20` -/
def exRun (ops : List Opcode) : Runtime :=
  { program := { link := { ops := #[.end, .end] ++ ops.toArray ++ #[.end] } },
    pc := 2, stack := #[.int 7], vars := { vars := [("A%".toList, .int 20)] } }

example : Pure exTree := by decide
example : flat exTree = [.literal (.int 1), .literal (.int 2), .push "A%".toList, .mul, .add] := by decide
example : eval (exRun (flat exTree)).vars exTree = .ok (.int 41) := by decide
example : eval (exRun (flat exBad)).vars exBad = .error (Error.mk' Code.divisionByZero) := by decide
/-- the shape theorem at work -/
example : ∃ c, Codegen.acceptExpr exTree {} =
    { g := { expr := #[(c, { ops := #[.literal (.int 1), .literal (.int 2), .push "A%".toList, .mul, .add] })] } } :=
  compileExpr_shape (by decide) {} (by decide)
/-- the hypotheses of the run theorem hold of a concrete machine … -/
example : CodeAt (exRun (flat exTree)).program.link.ops (exRun (flat exTree)).pc (flat exTree) ∧
    (exRun (flat exTree)).tron = false ∧ (exRun (flat exTree)).stack.size + (flat exTree).length ≤ 65535 := by
  decide
/-- … and the machine does what the theorem says (computed independently of the proof) -/
example : (runOps exEnv false (flat exTree) (exRun (flat exTree))).2.stack = #[.int 7, .int 41] := by decide
example : (runOps exEnv false (flat exTree) (exRun (flat exTree))).2.pc = 7 := by decide
/-- the error a run reports, if any -/
def exErr (r : Except Error Step × Runtime) : Option Error :=
  match r.1 with
  | .error e => some e
  | .ok _ => none

example : exErr (runOps exEnv true (flat exBad) (exRun (flat exBad))) = some (Error.mk' Code.divisionByZero) := by
  decide
example : (runOps exEnv true (flat exBad) (exRun (flat exBad))).2.vars.vars = [("A%".toList, .int 20)] := by decide

end expressions

/-! ### structured statements: the compiled code follows the big-step semantics

  `Spec/Struct.lean` gives LET / `:` / IF-THEN(-ELSE) / WHILE-WEND / FOR-NEXT a big-step semantics on
  the variable store (`Spec.exec`, fuel-indexed, written from the manual); `Lemmas/StructCompile.lean`
  gives the linked code of such a statement placed at address `a` (`compile p a`, jump targets
  absolute) and proves, rule by rule, that the code implements the semantics. -/

section structured
open Basic.Spec Basic.Lemmas.ExprCompile Basic.Lemmas.StructCompile

/-- **Compiled structured statements follow the documented control flow.**  Let the code of `p` lie at
    `s.pc` in the code segment of a machine `s` — trace off, `size p` free stack slots (a crude bound),
    and jumps not gated (no compile errors in the stored program, or the code is direct-mode code).
    * If the semantics answers `.ok σ'` (with any fuel), some number of steps — all answering
      `continue` — lead to the state `s` with `pc` past the code and `vars := σ'`: the stack and every
      other component are as in `s`.
    * If it answers `.error e`, after some steps answering `continue` a step fails with exactly `e`.
    (The sign of a FOR step is `Spec.stepNeg`: the step converted to Double, compared with 0.) -/
theorem structured_correct (env : Env) (hie : Bool) (fuel : Nat) (p : SStmt) (hp : p.Pure) (s : Runtime)
    (hcode : CodeAt s.program.link.ops s.pc (compile p s.pc)) (htr : s.tron = false)
    (hroom : s.stack.size + size p ≤ 65535) (hgate : hie = false ∨ s.entryAddress ≤ s.pc) :
    (∀ σ', exec fuel s.vars p = some (.ok σ') →
      ∃ n, runSteps env hie n s = (.ok .continue, { s with pc := s.pc + size p, vars := σ' })) ∧
    (∀ e, exec fuel s.vars p = some (.error e) → ∃ n s', runSteps env hie n s = (.error e, s')) := by
  have hpl : Placed hie (compile p) s := ⟨hcode, htr, by rw [compile_length]; exact hroom, hgate⟩
  have h := exec_implemented env hie fuel p hp s hpl
  rw [compile_length] at h
  exact ⟨fun σ' hσ => h _ hσ, fun e he => h _ he⟩

/-- the block calculus behind it (see `Lemmas/StructCompile.lean` for `Implements`, `Placed`, `Ends`):
    the rules for LET, `:`, IF-THEN, IF-THEN-ELSE, WHILE (one unrolling / `n` tests) and FOR (`n` passes) -/
theorem block_rules (env : Env) (hie : Bool) :
    (∀ (name : Str) {e : Expr}, Spec.Pure e →
      Implements env hie (fun _ => flat e ++ [Opcode.pop name]) (assignT name e)) ∧
    (∀ {c1 c2 : Nat → List Opcode} {f1 f2 : Trans} (l1 : Nat), (∀ a, (c1 a).length = l1) →
      Implements env hie c1 f1 → Implements env hie c2 f2 →
      Implements env hie (fun a => c1 a ++ c2 (a + l1)) (seqT f1 f2)) ∧
    (∀ {c : Expr}, Spec.Pure c → ∀ {c1 : Nat → List Opcode} {f1 : Trans} (l1 : Nat), (∀ a, (c1 a).length = l1) →
      Implements env hie c1 f1 → Implements env hie (ifThenCode c l1 c1) (iteT c f1 skipT)) ∧
    (∀ {c : Expr}, Spec.Pure c → ∀ {c1 c2 : Nat → List Opcode} {f1 f2 : Trans} (l1 l2 : Nat),
      (∀ a, (c1 a).length = l1) → (∀ a, (c2 a).length = l2) →
      Implements env hie c1 f1 → Implements env hie c2 f2 →
      Implements env hie (ifElseCode c l1 l2 c1 c2) (iteT c f1 f2)) ∧
    (∀ {c : Expr}, Spec.Pure c → ∀ {body : Nat → List Opcode} {fb g : Trans} (lb : Nat), (∀ a, (body a).length = lb) →
      Implements env hie body fb → Implements env hie (whileCode c lb body) g →
      Implements env hie (whileCode c lb body) (whileStepT c fb g)) ∧
    (∀ {c : Expr}, Spec.Pure c → ∀ {body : Nat → List Opcode} {fb : Trans} (lb : Nat), (∀ a, (body a).length = lb) →
      Implements env hie body fb → ∀ n, Implements env hie (whileCode c lb body) (whileT c fb n)) ∧
    (∀ {a b st : Expr}, Spec.Pure a → Spec.Pure b → Spec.Pure st → ∀ {body : Nat → List Opcode} {fb : Trans} (lb : Nat),
      (∀ x, (body x).length = lb) → Implements env hie body fb → ∀ (name : Str) (n : Nat),
      Implements env hie (forCode name a b st body) (forT stepNeg name a b st fb n)) :=
  ⟨fun name _ hp => implements_assign env hie name hp,
   fun l1 hl1 h1 h2 => implements_seq l1 hl1 h1 h2,
   fun hp _ _ l1 hl1 h1 => implements_ifThen hp l1 hl1 h1,
   fun hp _ _ _ _ l1 l2 hl1 hl2 h1 h2 => implements_ifThenElse hp l1 l2 hl1 hl2 h1 h2,
   fun hp _ _ _ lb hlb hb hg => implements_whileStep hp lb hlb hb hg,
   fun hp _ _ lb hlb hb n => implements_while hp lb hlb hb n,
   fun hpa hpb hps _ _ lb hlb hb name n => implements_for hpa hpb hps lb hlb hb name n⟩

/-- what `Implements` says, spelled out -/
theorem implements_iff (env : Env) (hie : Bool) (code : Nat → List Opcode) (f : Trans) :
    Implements env hie code f ↔
      ∀ (s : Runtime), CodeAt s.program.link.ops s.pc (code s.pc) → s.tron = false →
        s.stack.size + (code s.pc).length ≤ 65535 → (hie = false ∨ s.entryAddress ≤ s.pc) →
        (∀ σ', f s.vars = some (.ok σ') →
          ∃ n, runSteps env hie n s = (.ok .continue, { s with pc := s.pc + (code s.pc).length, vars := σ' })) ∧
        (∀ e, f s.vars = some (.error e) → ∃ n s', runSteps env hie n s = (.error e, s')) := by
  constructor
  · intro h s hc ht hr hg
    exact ⟨fun σ' hσ => h s ⟨hc, ht, hr, hg⟩ _ hσ, fun e he => h s ⟨hc, ht, hr, hg⟩ _ he⟩
  · intro h s hpl r hr
    obtain ⟨h1, h2⟩ := h s hpl.hcode hpl.htron hpl.hroom hpl.hgate
    cases r with
    | ok σ' => exact h1 σ' hr
    | error e => exact h2 e hr

/-- **FOR, the documented iteration** (Integer reading): with an Integer loop variable (suffix `%`),
    Integer limit `t` and Integer step `k` whose sign the oracle knows, and a body that leaves the loop
    variable as it found it, the passes of the loop are `Spec.intFor`: body; counter + step (16-bit,
    else OVERFLOW); stored; the loop is left when the new value has passed the limit in the direction
    of the step's sign, else the body runs again.  The body runs at least once. -/
theorem for_integer (neg : Val → Option Bool) (f : Trans) (name : Str) (t k : Int16)
    (hneg : neg (.int k) = some (decide (k < 0))) (hty : Var.suffixTy name = some .integer)
    (hkeep : ∀ σ σ', f σ = some (.ok σ') → σ'.fetch name = σ.fetch name)
    (n : Nat) (i : Int16) (σ : Var) (hi : σ.fetch name = .ok (.int i)) :
    forIter neg f name (.int t) (.int k) n σ = intFor f name t k n i σ :=
  forIter_int neg f name t k hneg hty hkeep n i σ hi

/-- answers computed with a sign oracle that knows less are answers of `exec` -/
theorem exec_of_oracle {neg' : Val → Option Bool} (hn : NegLe neg' stepNeg) (fuel : Nat) (p : SStmt) (σ : Var)
    (r : Res Var) (h : execWith neg' fuel σ p = some r) : exec fuel σ p = some r :=
  execWith_mono hn fuel p σ r h

/-! non-vacuity: three small Integer programs on hand-built machines -/

/-- the variable `n` (Integer) -/
def vI (n : String) : Expr := .var (.unary (0, 0) (.integer n.toList))
/-- the Integer literal `k` -/
def cI (k : Int16) : Expr := .integer (0, 0) k

/-- `IF A% > 10 THEN B% = 1 ELSE B% = 2` -/
def exIf : SStmt :=
  .ifThenElse (.bin .greater (0, 0) (vI "A%") (cI 10)) (.assign "B%".toList (cI 1)) (.assign "B%".toList (cI 2))
/-- `WHILE I% < 3 : I% = I% + 1 : WEND` -/
def exWhile : SStmt :=
  .while (.bin .less (0, 0) (vI "I%") (cI 3)) (.assign "I%".toList (.bin .add (0, 0) (vI "I%") (cI 1)))
/-- `S% = 0 : FOR I% = 1 TO 3 STEP 1 : S% = S% + I% : NEXT I%` -/
def exFor : SStmt :=
  .seq (.assign "S%".toList (cI 0))
    (.for "I%".toList (cI 1) (cI 3) (cI 1) (.assign "S%".toList (.bin .add (0, 0) (vI "S%") (vI "I%"))))
/-- `FOR I% = 32767 TO 0 STEP 1 : S% = 1 : NEXT I%`: the start is past the limit, the body runs once all
    the same, and NEXT overflows the Integer loop variable -/
def exOver : SStmt := .for "I%".toList (cI 32767) (cI 0) (cI 1) (.assign "S%".toList (cI 1))

/-- a machine with `p`'s code at address 2, one value on the stack and the given variables -/
def exMach (p : SStmt) (vars : List (Str × Val)) : Runtime :=
  { program := { link := { ops := #[.end, .end] ++ (compile p 2).toArray ++ #[.end] } },
    pc := 2, stack := #[.int 7], vars := { vars := vars } }

theorem exMach_placed (p : SStmt) (vars : List (Str × Val)) (h : size p ≤ 60000) :
    CodeAt (exMach p vars).program.link.ops (exMach p vars).pc (compile p (exMach p vars).pc) ∧
    (exMach p vars).tron = false ∧ (exMach p vars).stack.size + size p ≤ 65535 ∧
    ((false : Bool) = false ∨ (exMach p vars).entryAddress ≤ (exMach p vars).pc) :=
  ⟨CodeAt.of_append #[.end, .end] #[.end] (compile p 2), rfl, by show 1 + size p ≤ 65535; omega, .inl rfl⟩

/-- the variables of a successful answer -/
def okVars (x : Option (Res Var)) : Option (List (Str × Val)) := (x.bind (·.toOption)).map (·.vars)

/-- the error of a failing answer -/
def errOf (x : Option (Res Var)) : Option Error :=
  match x with
  | some (.error e) => some e
  | _ => none

theorem exists_of_okVars {x : Option (Res Var)} {l : List (Str × Val)} (h : okVars x = some l) :
    ∃ σ', x = some (.ok σ') ∧ σ'.vars = l := by
  unfold okVars at h
  cases x with
  | none => cases h
  | some r =>
    cases r with
    | error e => cases h
    | ok σ' => exact ⟨σ', rfl, by simpa [Except.toOption] using h⟩

/-- what the theorem gives for a concrete machine once the semantics has been evaluated -/
theorem exMach_runs (p : SStmt) (hp : p.Pure) (vars l : List (Str × Val)) (hsz : size p ≤ 60000) (fuel : Nat)
    (h : okVars (exec fuel { vars := vars } p) = some l) :
    ∃ n σ', runSteps exEnv false n (exMach p vars) =
      (.ok .continue, { exMach p vars with pc := 2 + size p, vars := σ' }) ∧ σ'.vars = l := by
  obtain ⟨σ', hσ, hl⟩ := exists_of_okVars h
  obtain ⟨hc, ht, hr, hg⟩ := exMach_placed p vars hsz
  obtain ⟨n, hn⟩ := (structured_correct exEnv false fuel p hp (exMach p vars) hc ht hr hg).1 σ' hσ
  exact ⟨n, σ', hn, hl⟩

example : exIf.Pure ∧ exWhile.Pure ∧ exFor.Pure ∧ exOver.Pure := by decide

/-- the code: jump targets are absolute addresses -/
example : compile exIf 2 =
    [.push "A%".toList, .literal (.int 10), .gt, .ifNot 9, .literal (.int 1), .pop "B%".toList, .jump 11,
     .literal (.int 2), .pop "B%".toList] := by decide
example : compile exWhile 2 =
    [.push "I%".toList, .literal (.int 3), .lt, .ifNot 11, .push "I%".toList, .literal (.int 1), .add,
     .pop "I%".toList, .jump 2] := by decide
example : compile exFor 2 =
    [.literal (.int 0), .pop "S%".toList, .literal (.int 1), .pop "I%".toList, .literal (.int 3), .literal (.int 1),
     .literal (.str "I%".toList), .literal (.nxt 10), .push "S%".toList, .push "I%".toList, .add, .pop "S%".toList,
     .next "I%".toList] := by decide

/-- IF, both branches: the semantics … -/
example : okVars (exec 5 { vars := [("A%".toList, .int 20)] } exIf) =
    some [("B%".toList, .int 1), ("A%".toList, .int 20)] := by decide
example : okVars (exec 5 { vars := [("A%".toList, .int 5)] } exIf) =
    some [("B%".toList, .int 2), ("A%".toList, .int 5)] := by decide
/-- … the theorem applied to the machine … -/
example : ∃ n σ', runSteps exEnv false n (exMach exIf [("A%".toList, .int 20)]) =
    (.ok .continue, { exMach exIf [("A%".toList, .int 20)] with pc := 11, vars := σ' }) ∧
    σ'.vars = [("B%".toList, .int 1), ("A%".toList, .int 20)] :=
  exMach_runs exIf (by decide) _ _ (by decide) 5 (by decide)
/-- … and the machine itself, run by the kernel (THEN branch: 7 steps, ELSE branch: 6 steps) -/
example : (runSteps exEnv false 7 (exMach exIf [("A%".toList, .int 20)])).2.vars.vars =
    [("B%".toList, .int 1), ("A%".toList, .int 20)] ∧
    (runSteps exEnv false 7 (exMach exIf [("A%".toList, .int 20)])).2.pc = 11 ∧
    (runSteps exEnv false 7 (exMach exIf [("A%".toList, .int 20)])).2.stack = #[.int 7] := by decide
example : (runSteps exEnv false 6 (exMach exIf [("A%".toList, .int 5)])).2.vars.vars =
    [("B%".toList, .int 2), ("A%".toList, .int 5)] ∧
    (runSteps exEnv false 6 (exMach exIf [("A%".toList, .int 5)])).2.pc = 11 := by decide
/-- a string condition is TYPE MISMATCH, in the semantics and on the machine -/
example : errOf (exec 5 { vars := [] } (.ifThen (.string (0, 0) ['x']) (.assign "B%".toList (cI 1)))) =
    some (Error.mk' Code.typeMismatch) := by decide
example : exErr (runSteps exEnv false 2 (exMach (.ifThen (.string (0, 0) ['x']) (.assign "B%".toList (cI 1))) [])) =
    some (Error.mk' Code.typeMismatch) := by decide

/-- WHILE counts to 3: semantics, theorem, machine (3 passes of 9 steps and the final test of 4) -/
example : okVars (exec 6 { vars := [] } exWhile) = some [("I%".toList, .int 3)] := by decide
example : ∃ n σ', runSteps exEnv false n (exMach exWhile []) =
    (.ok .continue, { exMach exWhile [] with pc := 11, vars := σ' }) ∧ σ'.vars = [("I%".toList, .int 3)] :=
  exMach_runs exWhile (by decide) _ _ (by decide) 6 (by decide)
example : (runSteps exEnv false 31 (exMach exWhile [])).2.vars.vars = [("I%".toList, .int 3)] ∧
    (runSteps exEnv false 31 (exMach exWhile [])).2.pc = 11 ∧
    (runSteps exEnv false 31 (exMach exWhile [])).2.stack = #[.int 7] := by decide
/-- a WHILE whose condition is false at once runs no pass -/
example : okVars (exec 6 { vars := [("I%".toList, .int 9)] } exWhile) = some [("I%".toList, .int 9)] := by decide

/-- FOR: `Float` is opaque to the kernel, so the sign of the step `1` (`F.i2d 1 < 0` is false on every
    IEEE machine) is a hypothesis; with it `S% = 6`, `I% = 4`, the frame is gone and the stack is as before -/
example : okVars (execWith (oneStep 1 false) 6 { vars := [] } exFor) =
    some [("I%".toList, .int 4), ("S%".toList, .int 6)] := by decide
example (h : stepNeg (.int 1) = some false) : ∃ n σ', runSteps exEnv false n (exMach exFor []) =
    (.ok .continue, { exMach exFor [] with pc := 15, vars := σ' }) ∧
    σ'.vars = [("I%".toList, .int 4), ("S%".toList, .int 6)] := by
  have hx : okVars (exec 6 { vars := [] } exFor) = some [("I%".toList, .int 4), ("S%".toList, .int 6)] := by
    have hd : okVars (execWith (oneStep 1 false) 6 { vars := [] } exFor) =
        some [("I%".toList, .int 4), ("S%".toList, .int 6)] := by decide
    obtain ⟨σ', hσ, hl⟩ := exists_of_okVars hd
    rw [exec_of_oracle (negLe_oneStep h) 6 exFor _ _ hσ]
    simpa [okVars, Except.toOption] using hl
  exact exMach_runs exFor (by decide) _ _ (by decide) 6 hx
/-- the body runs at least once, and an Integer loop variable that overflows stops the loop with OVERFLOW -/
example : errOf (execWith (oneStep 1 false) 3 { vars := [] } exOver) = some (Error.mk' Code.overflow) := by decide
/-- the Integer reading at work: three passes from 1 to 3 by 1 -/
example : okVars (intFor (assignT "S%".toList (.bin .add (0, 0) (vI "S%") (vI "I%"))) "I%".toList 3 1 5 1
    { vars := [("I%".toList, .int 1)] }) = some [("I%".toList, .int 4), ("S%".toList, .int 6)] := by decide

end structured

/-! ### structured statements: what the generator and the linker produce

  `Lemmas/StructCodegen.lean`: the statement fragments the visitor pushes for a structured statement
  (`AStmt` = `SStmt` with the columns and identifiers of the AST; `FragShape`).
  `Lemmas/StructLink.lean`: appended to a CLEAN link (no pending references, WHILE marks or local
  labels: an empty program with its line label, or a linked program) and linked, those fragments ARE
  `compile p a`.  Scope: the statement is the whole line — one-line programs and direct-mode lines; a
  FOR / WHILE spread over several program lines among other statements is NOT covered (the linker
  invariants of arbitrary surrounding code live in the other lemma chain). -/

section generated
open Basic.Spec Basic.Lemmas.ExprCompile Basic.Lemmas.StructCompile Basic.Lemmas.StructCodegen Basic.Lemmas.StructLink
open Basic.Codegen

/-- **Codegen shape.**  Visiting the statement list of a structured statement (pure expressions, names
    that are no zero-argument built-ins, code that fits the code segment) pushes its fragments on the
    statement stack, in order — `whileFrag`, `wendFrag`, `forFrag`, `plain #[next v]`, `ifFrag` built from
    the fragments of its parts, `plain (flat e ++ [pop v])` —, reports nothing and leaves the other
    stacks and the fragment under construction alone. -/
theorem structured_codegen_shape (p : AStmt) (hp : p.erase.Pure) (hn : p.Named) (hsz : size p.erase ≤ 65535)
    (v : Array VarItem) (ex st : Array (Col × Link)) (cur : Link) (errs : List Error) :
    ∃ frs : List (Col × Link), FragShape p (frs.map (·.2)) ∧
      acceptStmts p.stmts ⟨⟨v, ex, st, cur⟩, errs⟩ = ⟨⟨v, ex, st ++ frs.toArray, cur⟩, errs⟩ :=
  acceptStmts_shape p hp hn hsz v ex st cur errs

/-- `Codegen.codegen` appends those fragments to the program's link and reports nothing -/
theorem structured_codegen (p : AStmt) (hp : p.erase.Pure) (hn : p.Named) (l0 : Link)
    (hsz : l0.ops.size + size p.erase ≤ 65535) (hdd : l0.data.size ≤ 65535) :
    ∃ fs, FragShape p fs ∧ Codegen.codegen l0 p.stmts = (appendAllL l0 fs, []) :=
  codegen_struct p hp hn l0 hsz hdd

/-- **Linking.**  The fragments of a structured statement appended to a clean link, followed by any
    raw ops, link to `compile p a` at their address `a`; the raw ops follow unchanged. -/
theorem structured_linked (p : AStmt) (fs : List Link) (h : FragShape p fs) (l0 : Link) (hc : Clean l0)
    (post : Array Opcode) :
    CodeAt ((appendAllL l0 fs).pushOps post).link.1.ops l0.ops.size (compile p.erase l0.ops.size) ∧
    ∀ k, ((appendAllL l0 fs).pushOps post).link.1.ops[l0.ops.size + size p.erase + k]? = post[k]? :=
  struct_linked p fs h l0 hc post

/-- **A one-line program, end to end.**  Let the line `n <tokens>` parse to the statement list of a
    structured statement `p`, and let `s` be a machine that holds the compiled program
    (`Program.compile`), stands at address 0 with trace off, room on the stack, and a stored program
    without compile errors (`hie = false`).  Then the run follows `Spec.exec`: see `structured_correct`. -/
theorem one_line_program_correct (env : Env) (n : Nat) (toks : List Token) (p : AStmt)
    (hparse : Parse.parse (some n) toks = .ok p.stmts) (hp : p.erase.Pure) (hn : p.Named)
    (hsz : size p.erase ≤ 65535) (fuel : Nat) (s : Runtime)
    (hprog : s.program = Program.compile [⟨some n, toks⟩]) (hpc : s.pc = 0) (htr : s.tron = false)
    (hroom : s.stack.size + size p.erase ≤ 65535) :
    (∀ σ', exec fuel s.vars p.erase = some (.ok σ') →
      ∃ k, runSteps env false k s = (.ok .continue, { s with pc := s.pc + size p.erase, vars := σ' })) ∧
    (∀ e, exec fuel s.vars p.erase = some (.error e) → ∃ k s', runSteps env false k s = (.error e, s')) := by
  have hcode := compile_one_line n toks p hparse hp hn hsz
  rw [← hprog, ← hpc] at hcode
  exact structured_correct env false fuel p.erase hp s hcode htr hroom (.inl rfl)

/-! non-vacuity: the generator and the linker of the model, run by the kernel on the FOR program, a
    nested WHILE / IF and an IF-THEN-ELSE, against `compile` -/

/-- the identifier `n` (Integer) -/
def iI (n : String) : TIdent := .integer n.toList

/-- `S% = 0 : FOR I% = 1 TO 3 STEP 1 : S% = S% + I% : NEXT I%` -/
def exForA : AStmt :=
  .seq (.assign (0, 0) (0, 0) (iI "S%") (cI 0))
    (.for (0, 0) (0, 0) (0, 0) (0, 0) (iI "I%") (cI 1) (cI 3) (cI 1)
      (.assign (0, 0) (0, 0) (iI "S%") (.bin .add (0, 0) (vI "S%") (vI "I%"))))

/-- `WHILE I% < 3 : IF I% > 1 THEN B% = 1 ELSE B% = 2 : I% = I% + 1 : WEND` -/
def exNestA : AStmt :=
  .while (0, 0) (0, 0) (.bin .less (0, 0) (vI "I%") (cI 3))
    (.seq (.ifThenElse (0, 0) (.bin .greater (0, 0) (vI "I%") (cI 1)) (.assign (0, 0) (0, 0) (iI "B%") (cI 1))
        (.assign (0, 0) (0, 0) (iI "B%") (cI 2)))
      (.assign (0, 0) (0, 0) (iI "I%") (.bin .add (0, 0) (vI "I%") (cI 1))))

example : exForA.erase = exFor := rfl
example : exForA.erase.Pure ∧ exForA.Named ∧ exNestA.erase.Pure ∧ exNestA.Named := by decide
/-- the statement list of the AST -/
example : exForA.stmts =
    [.let (0, 0) (.unary (0, 0) (iI "S%")) (cI 0),
     .for (0, 0) (.unary (0, 0) (iI "I%")) (cI 1) (cI 3) (cI 1),
     .let (0, 0) (.unary (0, 0) (iI "S%")) (.bin .add (0, 0) (vI "S%") (vI "I%")),
     .next (0, 0) [.unary (0, 0) (iI "I%")]] := rfl

/-- the model's generator and linker on line `10 <FOR program>`, an `end` pushed as `linkProg` does:
    exactly `compile` at address 0, then the `end` -/
example : (((Codegen.codegen (({} : Link).pushSymbol 10) exForA.stmts).1.push .end).1.link).1.ops.toList =
    compile exForA.erase 0 ++ [.end] := by decide +kernel
example : (((Codegen.codegen (({} : Link).pushSymbol 10) exForA.stmts).1.push .end).1.link).2 = [] := by decide +kernel
/-- nested: the IF fragment carries its own labels, re-based when it is appended inside the loop -/
example : (((Codegen.codegen (({} : Link).pushSymbol 10) exNestA.stmts).1.push .end).1.link).1.ops.toList =
    compile exNestA.erase 0 ++ [.end] := by decide +kernel
/-- … and behind a stored program (a clean link with code and a line label): address 3 -/
example : (((Codegen.codegen ({ ops := #[.cls, .cls, .end], symbols := [(10, (0, 0))] } : Link) exNestA.stmts).1.push
    .end).1.link).1.ops.toList = [.cls, .cls, .end] ++ compile exNestA.erase 3 ++ [.end] := by decide +kernel

end generated

end Thm.C01
end Basic
