import BasicModel.Lemmas.Link
import BasicModel.Lemmas.Control
import BasicModel.Lemmas.ExprCompile
/-
  C01 — Compiled execution follows the documented control-flow semantics (floor).

  The linker resolves every reference to the table entry of its symbol and pairs WHILE with WEND
  as brackets; the VM's branching instructions do what the manual says: `ifNot` branches on zero,
  ON selects 1-based and falls through on 0 or beyond the list, NEXT compares by the sign of the
  step, GOSUB/RETURN is a balanced call.

  Expressions: for the fragment `Spec.Pure` (literals, scalar variable reads, unary minus, NOT, the
  18 binary operators, one-argument built-in functions) the compiler emits the postfix code `flat e`
  (`compileExpr_shape`) and the VM, run on that code, pushes the value the direct evaluator
  `Spec.eval` assigns to the tree, or stops in the same error (`compileExpr_correct`).

  (The per-statement / whole-program simulation theorems of DESIGN.md are targets, not proved in
  this file.)
-/
namespace Basic
namespace Thm.C01
open Link
open Basic.Runtime

/-! ### the linker -/

/-- every reference to a defined symbol is resolved to that symbol's entry (code address; data
    address for RESTORE), and nothing else is touched -/
theorem linkOne_resolves {l : Link} {a : Nat} {c : Col} {sym : Symbol} {o d : Nat} {op op' : Opcode}
    (hsym : l.symbols.lookup sym = some (o, d)) (hop : l.ops[a]? = some op) (hp : patched op o d = some op') :
    (l.linkOne a c sym).1.ops[a]? = some op' ∧ (l.linkOne a c sym).2 = none ∧
    (∀ j, j ≠ a → (l.linkOne a c sym).1.ops[j]? = l.ops[j]?) ∧
    (l.linkOne a c sym).1.ops.size = l.ops.size :=
  Link.linkOne_resolves_get hsym hop hp

/-- a missing line is reported UNDEFINED LINE (code 8) with column and line of the reference -/
theorem linkOne_undefined {l : Link} {a : Nat} {c : Col} {n : Symbol}
    (hsym : l.symbols.lookup n = none) (h0 : 0 ≤ n) :
    l.linkOne a c n = (l, some (mkErr Code.undefinedLine (l.lineNumberFor a) c)) ∧ Code.undefinedLine = 8 :=
  ⟨Link.linkOne_undefined hsym h0, rfl⟩

/-- the whole pass: every pending reference to a defined symbol is resolved (see also `Thm.C20`) -/
theorem link_resolves (l : Link) (hd : KeysDistinct l.unlinked) (a : Nat) (c : Col) (sym : Symbol)
    (hmem : (a, (c, sym)) ∈ l.linkWhiles.1.unlinked)
    {o d : Nat} {op op' : Opcode} (hsym : l.symbols.lookup sym = some (o, d))
    (hop : l.ops[a]? = some op) (hp : patched op o d = some op') :
    l.link.1.ops[a]? = some op' :=
  Link.link_resolves l hd a c sym hmem hsym hop hp

/-- … and every reference to a missing line is reported -/
theorem link_reports_undefined (l : Link) (a : Nat) (c : Col) (n : Symbol)
    (hmem : (a, (c, n)) ∈ l.linkWhiles.1.unlinked)
    (hsym : l.symbols.lookup n = none) (h0 : 0 ≤ n) :
    mkErr Code.undefinedLine (l.lineNumberFor a) c ∈ l.link.2 :=
  Link.link_reports_undefined l a c n hmem hsym h0

/-- WHILE/WEND pairing is bracket matching in code order -/
theorem linkWhiles_matches (l : Link) :
    l.linkWhiles =
      ({ l with whiles := [], unlinked := (Spec.bracketMatch l.whiles).1.foldl pairRefs l.unlinked },
       (Spec.bracketMatch l.whiles).2.1.map (fun e => mkErr Code.wendWithoutWhile (l.lineNumberFor e.2.1) e.1) ++
       (Spec.bracketMatch l.whiles).2.2.map (fun w => mkErr Code.whileWithoutWend (l.lineNumberFor w.2.1) w.1)) :=
  Link.linkWhiles_matches l

/-- what a matched pair means: the WHILE's `ifNot` (at the WHILE mark's address) exits to the WEND's
    label — the op after the WEND's jump —, the WEND's `jump` returns to the WHILE's label — the
    start of the condition -/
theorem pairRefs_lookup (u : List (Nat × (Col × Symbol))) (w e : Mark) (hne : w.2.1 ≠ e.2.1) :
    (pairRefs u (w, e)).lookup w.2.1 = some (w.1, e.2.2) ∧
    (pairRefs u (w, e)).lookup e.2.1 = some (e.1, w.2.2) := by
  unfold pairRefs
  simp only [unlInsert_lookup, if_true]
  rw [if_neg hne]
  exact ⟨rfl, trivial⟩

/-- the specification really is "nearest unmatched preceding WHILE": a WHILE…WEND around a balanced
    body is paired, whatever surrounds it -/
theorem bracket_nested {α : Type} (w e : α) (body rest : List (Bool × α)) (st : List α) (p : List (α × α))
    (hbody : Spec.bracketMatch body = (p, [], [])) :
    Spec.bracketAux ((true, w) :: body ++ (false, e) :: rest) st =
      (p ++ (w, e) :: (Spec.bracketAux rest st).1, (Spec.bracketAux rest st).2.1, (Spec.bracketAux rest st).2.2) :=
  Spec.bracketAux_nested w e body rest st p hbody

/-! ### IF -/

/-- `ifNot a`: pops a number; control goes to `a` iff it is zero (else to the next op);
    a string is TYPE MISMATCH -/
theorem ifNot_branches (env : Env) (hie : Bool) (s : Runtime) (a : Nat) (σ : Array Val) (v : Val)
    (htr : s.tron = false) (hop : s.program.link.ops[s.pc]? = some (.ifNot a))
    (hst : s.stack = σ.push v) :
    ((step env hie).run).run s =
      match zeroTest v with
      | some z => (.ok .continue, { s with stack := σ, pc := if z then a else s.pc + 1 })
      | none => (.error (Error.mk' Code.typeMismatch), { s with stack := σ, pc := s.pc + 1 }) :=
  run_step_ifNot env hie s a σ v htr hop hst

theorem ifNot_int (env : Env) (hie : Bool) (s : Runtime) (a : Nat) (σ : Array Val) (n : Int16)
    (htr : s.tron = false) (hop : s.program.link.ops[s.pc]? = some (.ifNot a))
    (hst : s.stack = σ.push (.int n)) :
    ((step env hie).run).run s = (.ok .continue, { s with stack := σ, pc := if n = 0 then a else s.pc + 1 }) := by
  rw [run_step_ifNot env hie s a σ _ htr hop hst]
  simp [zeroTest]

theorem ifNot_string (env : Env) (hie : Bool) (s : Runtime) (a : Nat) (σ : Array Val) (x : Str)
    (htr : s.tron = false) (hop : s.program.link.ops[s.pc]? = some (.ifNot a))
    (hst : s.stack = σ.push (.str x)) :
    (((step env hie).run).run s).1 = .error (Error.mk' Code.typeMismatch) := by
  rw [run_step_ifNot env hie s a σ _ htr hop hst]
  rfl

/-! ### GOTO -/

theorem jump_goes (env : Env) (s : Runtime) (a : Nat)
    (htr : s.tron = false) (hop : s.program.link.ops[s.pc]? = some (.jump a)) :
    ((step env false).run).run s = (.ok .continue, { s with pc := a }) :=
  run_step_jump env false s a htr hop (.inl rfl)

/-! ### ON -/

/-- ON: with `1 ≤ select ≤ len`, control advances by `select − 1` (onto the select-th jump of the
    table); with `select = 0` or `select > len`, by `len` (past the table); a negative value is
    ILLEGAL FUNCTION CALL.  Both operands are popped in every case. -/
theorem doOn_selects (s : Runtime) (σ : Array Val) (lenV selV : Val) (len sel : Int16)
    (hst : s.stack = (σ.push lenV).push selV) (hsel : selV.toI16 = .ok sel) (hlen : lenV.toI16 = .ok len) :
    (1 ≤ sel.toInt → sel.toInt ≤ len.toInt →
      (doOn.run).run s = (.ok (), { s with stack := σ, pc := s.pc + (sel.toInt.toNat - 1) })) ∧
    (0 ≤ len.toInt → (sel.toInt = 0 ∨ sel.toInt > len.toInt) →
      (doOn.run).run s = (.ok (), { s with stack := σ, pc := s.pc + len.toInt.toNat })) ∧
    ((sel.toInt < 0 ∨ len.toInt < 0) →
      (doOn.run).run s = (.error (Error.mk' Code.illegalFunctionCall), { s with stack := σ })) := by
  have h := run_doOn s σ lenV selV len sel hst hsel hlen
  refine ⟨?_, ?_, ?_⟩
  · intro h1 h2
    rw [h, if_neg (by omega), if_neg (by omega)]
  · intro h0 hf
    rw [h, if_neg (by omega), if_pos hf]
  · intro hn
    rw [h, if_pos hn]

/-! ### GOSUB / RETURN -/

/-- GOSUB pushes its return address, RETURN removes it and resumes there: the pair is stack-neutral -/
theorem gosub_return (env : Env) (hie : Bool) (s s1 : Runtime) (R : Nat)
    (htr : s.tron = false) (hop : s.program.link.ops[s.pc]? = some (.literal (.ret R)))
    (hb : s.stack.size + 1 ≤ 65535)
    (hs1 : s1.stack = s.stack.push (.ret R)) :
    ((step env hie).run).run s = (.ok .continue, { s with pc := s.pc + 1, stack := s.stack.push (.ret R) }) ∧
    (doReturn.run).run s1 = (.ok (), { s1 with stack := s.stack, pc := R }) := by
  constructor
  · rw [run_step_literal env hie s _ htr hop, if_neg (by simp only [Gen.stackMaxLen]; omega)]
  · have := run_doReturn s1 s.stack R [] (fun _ h => nomatch h) (by simpa using hs1)
    rw [this]; rfl

/-- RETURN without a pending GOSUB: RETURN WITHOUT GOSUB (code 3) -/
theorem return_without_gosub (s : Runtime) (h : s.stack = #[]) :
    ((doReturn.run).run s).1 = .error (Error.mk' Code.returnWithoutGosub) := by
  unfold doReturn
  simp only [run_bind, run_get, h]
  unfold doReturn.loop
  simp only [run_bind, run_get, h]
  rfl

/-! ### FOR / NEXT -/

/-- NEXT: the variable is incremented by the step; the termination test is chosen by the sign of the
    step — `variable < limit` for a negative step, `limit < variable` otherwise — and the loop
    continues (control to the body, frame kept) exactly when the test is false -/
theorem doNext_compares_by_sign_of_step (s : Runtime) (σ : Array Val) (toV stepV : Val) (vn name : Str) (addr : Nat)
    (cur0 cur : Val) (vars' : Var) (st : Float) (done : Val)
    (hst : s.stack = σ ++ forFrame toV stepV vn addr)
    (hname : name = [] ∨ vn = name)
    (hfetch : s.vars.fetch vn = .ok cur0) (hsum : Ops.sum cur0 stepV = .ok cur)
    (hstore : s.vars.store vn cur = .ok vars') (hstep : stepV.toF64 = .ok st)
    (hdone : (if st < 0 then Ops.less cur toV else Ops.less toV cur) = .ok done)
    (hb : s.stack.size ≤ 65535) :
    ((doNext name).run).run s =
      if done ≠ .int (-1) then (.ok (), { s with vars := vars', pc := addr })
      else (.ok (), { s with vars := vars', stack := σ }) :=
  run_doNext s σ toV stepV vn name addr cur0 cur vars' st done hst hname hfetch hsum hstore hstep hdone hb

/-- the Integer instance: with Integer counter `c` (after the increment) and limit `t`, the loop
    continues iff `t ≤ c` for a negative step and iff `c ≤ t` otherwise — the last pass is the one
    that reaches the limit -/
theorem doNext_integer_test (s : Runtime) (σ : Array Val) (t c : Int16) (stepV : Val) (vn name : Str) (addr : Nat)
    (cur0 : Val) (vars' : Var) (st : Float)
    (hst : s.stack = σ ++ forFrame (.int t) stepV vn addr)
    (hname : name = [] ∨ vn = name)
    (hfetch : s.vars.fetch vn = .ok cur0) (hsum : Ops.sum cur0 stepV = .ok (.int c))
    (hstore : s.vars.store vn (.int c) = .ok vars') (hstep : stepV.toF64 = .ok st)
    (hb : s.stack.size ≤ 65535) :
    ((doNext name).run).run s =
      if (if st < 0 then t ≤ c else c ≤ t) then (.ok (), { s with vars := vars', pc := addr })
      else (.ok (), { s with vars := vars', stack := σ }) := by
  have hless : ∀ a b : Int16, Ops.less (.int a) (.int b) = .ok (Ops.truth (decide (a < b))) := by
    intro a b; rfl
  have key := run_doNext s σ (.int t) stepV vn name addr cur0 (.int c) vars' st
    (if st < 0 then Ops.truth (decide (c < t)) else Ops.truth (decide (t < c))) hst hname hfetch hsum hstore hstep
    (by split <;> rw [hless]) hb
  rw [key]
  by_cases h0 : st < 0
  · simp only [h0, if_true]
    by_cases hc : c < t
    · have : ¬ t ≤ c := Int16.not_le.2 hc
      simp [Ops.truth, hc, this]
    · have : t ≤ c := Int16.not_lt.1 hc
      simp [Ops.truth, hc, this]
  · simp only [h0, if_false]
    by_cases hc : t < c
    · have : ¬ c ≤ t := Int16.not_le.2 hc
      simp [Ops.truth, hc, this]
    · have : c ≤ t := Int16.not_lt.1 hc
      simp [Ops.truth, hc, this]

/-! ### non-vacuity -/

def exOn (sel : Int16) : Runtime := { stack := #[.int 3, .int sel], pc := 10 }

example : ((doOn.run).run (exOn 1)).2.pc = 10 := by decide
example : ((doOn.run).run (exOn 3)).2.pc = 12 := by decide
example : ((doOn.run).run (exOn 0)).2.pc = 13 := by decide
example : ((doOn.run).run (exOn 4)).2.pc = 13 := by decide
example : ((doOn.run).run (exOn (-1))).1 = .error (Error.mk' Code.illegalFunctionCall) := by decide
example : Spec.bracketMatch [(true, 'a'), (true, 'b'), (false, 'c'), (false, 'd')] = ([('b', 'c'), ('a', 'd')], [], []) := by
  decide
example : (({ whiles := [(false, (0, 4), 3, -1)], symbols := [(10, (0, 0))] } : Link).linkWhiles).2 =
    [{ code := Code.wendWithoutWhile, line := some 10, colStart := 0, colEnd := 4 }] := by decide
example : (({ whiles := [(true, (0, 5), 1, -1), (false, (0, 4), 3, -2)] } : Link).linkWhiles).1.unlinked =
    [(3, ((0, 4), -1)), (1, ((0, 5), -2))] := by decide


/-! ### expressions: the compiled code computes the tree's value -/

section expressions
open Basic.Spec Basic.Lemmas.ExprCompile

/-- **Codegen shape.**  For a tree `e` of the fragment `Spec.Pure` whose postfix code `flat e` fits
    the code segment, the visitor pushes exactly one entry on the expression stack, a fragment whose
    code is `flat e` and that has no data, no symbols, no pending references, no WHILE marks and
    symbol counter 0; it reports no error and leaves the variable stack, the statement stack and the
    fragment under construction as they were. -/
theorem compileExpr_shape {e : Expr} (hp : Pure e) (s : Codegen.VState) (hlen : (flat e).length ≤ 65535) :
    ∃ c, Codegen.acceptExpr e s =
      { s with g := { s.g with expr := s.g.expr.push (c, ({ ops := (flat e).toArray } : Link)) } } :=
  acceptExpr_shape hp s hlen

/-- **Compiled expressions compute their tree value.**  Compiling a tree of the fragment adds exactly
    one expression fragment (code `flat e`) and reports nothing.  Wherever that code lies in the code
    segment of a runtime `s` — trace off, room on the stack for `(flat e).length` values, `hie`
    arbitrary —, running it from `s.pc`:
    * if `Spec.eval s.vars e = .ok v`: every step answers `continue`, and the final state is `s` with
      `pc` advanced past the code and `v` pushed on the stack (the rest of the stack, the variables and
      everything else as in `s`); the variables are unchanged after every single step;
    * if `Spec.eval s.vars e = .error err`: after `k` good steps (`k` less than the code's length,
      variables unchanged all along) the next step fails with exactly `err`, variables still
      unchanged, and that is what running the whole code reports. -/
theorem compileExpr_correct (env : Env) (hie : Bool) {e : Expr} (hp : Pure e) (vs : Codegen.VState)
    (hlen : (flat e).length ≤ 65535) :
    ∃ (c : Col) (frag : Link),
      (Codegen.acceptExpr e vs).g.expr = vs.g.expr.push (c, frag) ∧
      (Codegen.acceptExpr e vs).errors = vs.errors ∧
      frag.ops = (flat e).toArray ∧
      ∀ (s : Runtime), CodeAt s.program.link.ops s.pc frag.ops.toList → s.tron = false →
        s.stack.size + frag.ops.size ≤ 65535 →
        (∀ v, eval s.vars e = .ok v →
          runOps env hie frag.ops.toList s =
            (.ok .continue, { s with pc := s.pc + frag.ops.size, stack := s.stack.push v }) ∧
          ∀ j, j ≤ frag.ops.size → ∃ sj, runSteps env hie j s = (.ok .continue, sj) ∧ sj.vars = s.vars) ∧
        (∀ err, eval s.vars e = .error err →
          ∃ (k : Nat) (s' s'' : Runtime), k < frag.ops.size ∧
            runSteps env hie k s = (.ok .continue, s') ∧
            ((step env hie).run).run s' = (.error err, s'') ∧
            s''.vars = s.vars ∧
            (∀ j, j ≤ k → ∃ sj, runSteps env hie j s = (.ok .continue, sj) ∧ sj.vars = s.vars) ∧
            runOps env hie frag.ops.toList s = (.error err, s'')) := by
  obtain ⟨c, h⟩ := acceptExpr_shape hp vs hlen
  refine ⟨c, plain (flat e).toArray, by rw [h], by rw [h], rfl, ?_⟩
  intro s hcode htr hroom
  have e1 : (plain (flat e).toArray).ops.toList = flat e := by simp [plain]
  have e2 : (plain (flat e).toArray).ops.size = (flat e).length := by simp [plain]
  rw [e1] at hcode ⊢
  rw [e2] at hroom ⊢
  exact flat_correct env hie hp s hcode htr hroom

/-! non-vacuity: `1 + 2 * A%` -/

/-- `1 + 2 * A%` -/
def exTree : Expr :=
  .bin .add (0, 9) (.integer (0, 1) 1)
    (.bin .multiply (4, 9) (.integer (4, 5) 2) (.var (.unary (8, 9) (.integer "A%".toList))))

/-- `A% \ 0`: fails in the last instruction -/
def exBad : Expr := .bin .divideInt (0, 6) (.var (.unary (0, 2) (.integer "A%".toList))) (.integer (5, 6) 0)

def exEnv : Env := { lex := fun _ => default, lineRenum := fun _ l => l }

/-- a runtime with the given code at address 2, one value on the stack and `A% = 20` -/
def exRun (ops : List Opcode) : Runtime :=
  { program := { link := { ops := #[.end, .end] ++ ops.toArray ++ #[.end] } },
    pc := 2, stack := #[.int 7], vars := { vars := [("A%".toList, .int 20)] } }

example : Pure exTree := by decide
example : flat exTree = [.literal (.int 1), .literal (.int 2), .push "A%".toList, .mul, .add] := by decide
example : eval (exRun (flat exTree)).vars exTree = .ok (.int 41) := by decide
example : eval (exRun (flat exBad)).vars exBad = .error (Error.mk' Code.divisionByZero) := by decide
/-- the shape theorem at work -/
example : ∃ c, Codegen.acceptExpr exTree {} =
    { g := { expr := #[(c, { ops := #[.literal (.int 1), .literal (.int 2), .push "A%".toList, .mul, .add] })] } } :=
  compileExpr_shape (by decide) {} (by decide)
/-- the hypotheses of the run theorem hold of a concrete machine … -/
example : CodeAt (exRun (flat exTree)).program.link.ops (exRun (flat exTree)).pc (flat exTree) ∧
    (exRun (flat exTree)).tron = false ∧ (exRun (flat exTree)).stack.size + (flat exTree).length ≤ 65535 := by
  decide
/-- … and the machine does what the theorem says (computed independently of the proof) -/
example : (runOps exEnv false (flat exTree) (exRun (flat exTree))).2.stack = #[.int 7, .int 41] := by decide
example : (runOps exEnv false (flat exTree) (exRun (flat exTree))).2.pc = 7 := by decide
/-- the error a run reports, if any -/
def exErr (r : Except Error Step × Runtime) : Option Error :=
  match r.1 with
  | .error e => some e
  | .ok _ => none

example : exErr (runOps exEnv true (flat exBad) (exRun (flat exBad))) = some (Error.mk' Code.divisionByZero) := by
  decide
example : (runOps exEnv true (flat exBad) (exRun (flat exBad))).2.vars.vars = [("A%".toList, .int 20)] := by decide

end expressions

end Thm.C01
end Basic
