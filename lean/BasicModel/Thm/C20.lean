import BasicModel.Lemmas.Link
/-
  C20 — Branches resolve by line number, independent of program layout.

  The compiler builds every statement as a relocatable fragment and `Link.append`s it to the
  program; line numbers are symbols `≥ 0`, compiler-generated labels are symbols `< 0`.  This file
  states what `append` does to every component (code, data, symbol table, pending references,
  WHILE/WEND marks), that local labels of different fragments never collide, and that the linker
  patches a reference with the table entry *of its symbol* — so a branch target is a function of
  the line number, not of where the referring code was placed.

  (The whole-program statement `layout_invariance` of DESIGN.md is proved in `Thm/C20Layout.lean`,
  which sits in the second lemma chain — `BasicModelRt.lean` — because it reuses `Runtime.Sim`.)
-/
namespace Basic
namespace Thm.C20
open Link

/-! ### `append` offsets -/

/-- code after `append`: plain concatenation -/
theorem append_ops {a b : Link} (h : (a.append b).2 = .ok ()) : (a.append b).1.ops = a.ops ++ b.ops :=
  Link.append_ops h

/-- data after `append`: plain concatenation -/
theorem append_data {a b : Link} (h : (a.append b).2 = .ok ()) : (a.append b).1.data = a.data ++ b.data :=
  Link.append_data h

/-- the complete shape of a successful `append` (`Link.appended` spells out every field), and the
    size bounds success implies -/
theorem append_offsets {a b : Link} (h : (a.append b).2 = .ok ()) :
    (a.append b).1 = Link.appended a b ∧
    a.ops.size + b.ops.size ≤ 65535 ∧ a.data.size + b.data.size ≤ 65535 :=
  ⟨Link.append_ok h, Link.append_ok_bounds h⟩

/-- label counter: the fragments' counters add up (both are `≤ 0`) -/
theorem append_currentSymbol {a b : Link} (h : (a.append b).2 = .ok ()) :
    (a.append b).1.currentSymbol = a.currentSymbol + b.currentSymbol := Link.append_currentSymbol h

/-- the read cursor and the direct-mode mark are the receiver's -/
theorem append_keeps_cursor {a b : Link} (h : (a.append b).2 = .ok ()) :
    (a.append b).1.dataPos = a.dataPos ∧ (a.append b).1.directSet = a.directSet :=
  ⟨Link.append_dataPos h, Link.append_directSet h⟩

/-- WHILE/WEND marks: `a`'s, then `b`'s with address moved by `|a.ops|` and label by `a.currentSymbol` -/
theorem append_whiles {a b : Link} (h : (a.append b).2 = .ok ()) :
    (a.append b).1.whiles =
      a.whiles ++ b.whiles.map (fun p => (p.1, p.2.1, p.2.2.1 + a.ops.size, p.2.2.2 + a.currentSymbol)) :=
  Link.append_whiles h

/-- symbol table, line numbers: the entry of `b` re-based by (`|a.ops|`, `|a.data|`) wins, else `a`'s entry -/
theorem append_symbols_lookup_line {a b : Link} (h : (a.append b).2 = .ok ())
    (hb : SymSorted b.symbols) (ha : a.currentSymbol ≤ 0) (n : Symbol) (hn : 0 ≤ n) :
    (a.append b).1.symbols.lookup n =
      match b.symbols.lookup n with
      | some (o, d) => some (o + a.ops.size, d + a.data.size)
      | none => a.symbols.lookup n := by
  rw [Link.append_symbols h]; exact appendSymbols_lookup_line hb ha n hn

/-- symbol table, local labels of `b`: label `s` is found at `s + a.currentSymbol`, addresses re-based -/
theorem append_symbols_lookup_local_right {a b : Link} (h : (a.append b).2 = .ok ())
    (hb : SymSorted b.symbols) (ha : a.currentSymbol ≤ 0) (s : Symbol) (hs : s < 0)
    (hin : (b.symbols.lookup s).isSome) :
    (a.append b).1.symbols.lookup (s + a.currentSymbol) =
      (b.symbols.lookup s).map (fun v => (v.1 + a.ops.size, v.2 + a.data.size)) := by
  rw [Link.append_symbols h]; exact appendSymbols_lookup_local_right hb ha s hs hin

/-- symbol table, local labels of `a`: unchanged -/
theorem append_symbols_lookup_local_left {a b : Link} (h : (a.append b).2 = .ok ())
    (ha : LocalOk a) (hb : LocalOk b) (s : Symbol) (hs : s < 0) (hsa : a.currentSymbol ≤ s) :
    (a.append b).1.symbols.lookup s = a.symbols.lookup s := by
  rw [Link.append_symbols h]; exact appendSymbols_lookup_local_left ha hb s hs hsa

/-- every entry of the merged table comes from `a` or is a re-based entry of `b` -/
theorem append_symbols_mem {a b : Link} (h : (a.append b).2 = .ok ()) {p : Symbol × (Nat × Nat)}
    (hp : p ∈ (a.append b).1.symbols) :
    p ∈ a.symbols ∨ ∃ q ∈ b.symbols, p = (rebase a.currentSymbol q.1, (q.2.1 + a.ops.size, q.2.2 + a.data.size)) := by
  rw [Link.append_symbols h] at hp; exact mem_appendSymbols hp

/-- the merged table stays sorted (it is the `BTreeMap`) -/
theorem append_symbols_sorted {a b : Link} (h : (a.append b).2 = .ok ()) (ha : SymSorted a.symbols) :
    SymSorted (a.append b).1.symbols := by
  rw [Link.append_symbols h]; exact appendSymbols_sorted ha

/-- pending references of `b`: the one at address `y` is found at `y + |a.ops|` with its symbol re-based -/
theorem append_unlinked_lookup_right {a b : Link} (h : (a.append b).2 = .ok ()) (y : Nat) :
    (a.append b).1.unlinked.lookup (y + a.ops.size) =
      match b.unlinked.lookup y with
      | some (c, s) => some (c, rebase a.currentSymbol s)
      | none => a.unlinked.lookup (y + a.ops.size) := by
  rw [Link.append_unlinked h]; exact appendUnlinked_lookup_right a b y

/-- pending references of `a` (addresses inside `a`'s code): unchanged -/
theorem append_unlinked_lookup_left {a b : Link} (h : (a.append b).2 = .ok ()) (x : Nat) (hx : x < a.ops.size) :
    (a.append b).1.unlinked.lookup x = a.unlinked.lookup x := by
  rw [Link.append_unlinked h]; exact appendUnlinked_lookup_left a b x hx

theorem append_unlinked_mem {a b : Link} (h : (a.append b).2 = .ok ()) {p : Nat × (Col × Symbol)}
    (hp : p ∈ (a.append b).1.unlinked) :
    p ∈ a.unlinked ∨ ∃ q ∈ b.unlinked, p = (q.1 + a.ops.size, (q.2.1, rebase a.currentSymbol q.2.2)) := by
  rw [Link.append_unlinked h] at hp; exact mem_appendUnlinked hp

/-- a line-number symbol is never touched by re-basing; a local one moves by the receiver's counter -/
theorem rebase_line (so : Int) (n : Symbol) (hn : 0 ≤ n) : rebase so n = n := by
  unfold rebase; rw [if_neg (by simp only [Symbol] at *; omega)]

theorem rebase_local (so : Int) (s : Symbol) (hs : s < 0) : rebase so s = s + so := by
  unfold rebase; rw [if_pos hs]

/-- appending is associative on code and data -/
theorem append_assoc_ops_data {a b c : Link}
    (h1 : (a.append b).2 = .ok ()) (h2 : ((a.append b).1.append c).2 = .ok ())
    (h3 : (b.append c).2 = .ok ()) (h4 : (a.append (b.append c).1).2 = .ok ()) :
    ((a.append b).1.append c).1.ops = (a.append (b.append c).1).1.ops ∧
    ((a.append b).1.append c).1.data = (a.append (b.append c).1).1.data :=
  Link.append_assoc_ops_data h1 h2 h3 h4

/-- the empty fragment is neutral -/
theorem append_empty (a : Link) : (a.append {}).1 = a := Link.append_empty a

theorem append_empty_ok (a : Link) (ho : a.ops.size ≤ 65535) (hd : a.data.size ≤ 65535) :
    a.append {} = (a, .ok ()) := Link.append_empty_ok a ho hd

/-! ### local labels -/

/-- the invariant is established by the empty fragment and kept by every operation codegen uses -/
theorem localOk_preserved :
    LocalOk {} ∧
    (∀ l op, LocalOk l → LocalOk (l.push op).1) ∧
    (∀ l v, LocalOk l → LocalOk (l.pushData v).1) ∧
    (∀ l, LocalOk l → LocalOk l.nextSymbol.1 ∧ l.nextSymbol.1.currentSymbol ≤ l.nextSymbol.2 ∧ l.nextSymbol.2 < 0) ∧
    (∀ l sym, LocalOk l → (0 ≤ sym ∨ l.currentSymbol ≤ sym) → LocalOk (l.pushSymbol sym)) ∧
    (∀ l c sym, LocalOk l → (0 ≤ sym ∨ l.currentSymbol ≤ sym) → LocalOk (l.addUnlinked c sym)) ∧
    (∀ a b, LocalOk a → LocalOk b → (a.append b).2 = .ok () → LocalOk (a.append b).1) := by
  refine ⟨LocalOk.empty, fun _ op h => h.push op, fun _ v h => h.pushData v, ?_,
    fun _ sym h hs => h.pushSymbol sym hs, fun _ c sym h hs => h.addUnlinked c sym hs,
    fun _ _ ha hb h => ha.append hb h⟩
  intro l h
  obtain ⟨h1, h2, h3, _⟩ := h.nextSymbol
  exact ⟨h1, by rw [h2]; exact Int.le_refl _, h3⟩

/-- a label handed out by `nextSymbol` is mentioned nowhere in the link yet -/
theorem nextSymbol_fresh {l : Link} (h : LocalOk l) :
    (∀ p ∈ l.symbols, p.1 ≠ l.nextSymbol.2) ∧ (∀ p ∈ l.unlinked, p.2.2 ≠ l.nextSymbol.2) ∧
    (∀ p ∈ l.whiles, p.2.2.2 ≠ l.nextSymbol.2) := Link.nextSymbol_fresh h

/-- local labels of different fragments never collide after `append` -/
theorem local_symbols_disjoint {a b : Link} (ha : LocalOk a) (hb : LocalOk b) :
    (∀ p ∈ a.symbols, p.1 < 0 → ∀ q ∈ b.symbols, q.1 < 0 → p.1 ≠ rebase a.currentSymbol q.1) ∧
    (∀ p ∈ a.unlinked, p.2.2 < 0 → ∀ q ∈ b.symbols, q.1 < 0 → p.2.2 ≠ rebase a.currentSymbol q.1) ∧
    (∀ p ∈ a.symbols, p.1 < 0 → ∀ q ∈ b.unlinked, q.2.2 < 0 → p.1 ≠ rebase a.currentSymbol q.2.2) ∧
    (∀ p ∈ a.whiles, ∀ q ∈ b.symbols, q.1 < 0 → p.2.2.2 ≠ rebase a.currentSymbol q.1) ∧
    (∀ p ∈ a.symbols, p.1 < 0 → ∀ q ∈ b.whiles, p.1 ≠ q.2.2.2 + a.currentSymbol) :=
  Link.local_symbols_disjoint ha hb

/-! ### the symbol table and `lineNumberFor` -/

theorem symInsert_sorted (k : Symbol) (v : Nat × Nat) {m : List (Symbol × (Nat × Nat))}
    (h : SymSorted m) : SymSorted (symInsert k v m) := Link.symInsert_sorted k v h

theorem symInsert_lookup (k : Symbol) (v : Nat × Nat) (m : List (Symbol × (Nat × Nat))) (x : Symbol) :
    (symInsert k v m).lookup x = if x = k then some v else m.lookup x := Link.symInsert_lookup k v m x

/-- `lineNumberFor a` is the greatest line whose code address is `≤ a` -/
theorem lineNumberFor_greatest {l : Link} (hs : SymSorted l.symbols) (a n : Nat) (hn : n ≤ 65529) :
    l.lineNumberFor a = some n ↔
      (∃ o d, ((n : Int), (o, d)) ∈ l.symbols ∧ o ≤ a) ∧
      (∀ p ∈ l.symbols, 0 ≤ p.1 → p.2.1 ≤ a → p.1 ≤ (n : Int)) :=
  Link.lineNumberFor_eq_some_iff hs a n hn

/-- … and with non-decreasing line addresses the lines up to it are exactly those starting at or before `a` -/
theorem lineNumberFor_monotone {l : Link} (hs : SymSorted l.symbols) (a n : Nat) (hn : n ≤ 65529)
    (hmono : ∀ p ∈ l.symbols, ∀ q ∈ l.symbols, 0 ≤ p.1 → p.1 ≤ q.1 → p.2.1 ≤ q.2.1)
    (h : l.lineNumberFor a = some n) :
    ∀ p ∈ l.symbols, 0 ≤ p.1 → (p.2.1 ≤ a ↔ p.1 ≤ (n : Int)) :=
  Link.lineNumberFor_monotone hs a n hn hmono h

/-! ### the linker -/

/-- a reference to a defined symbol is patched with that symbol's table entry — the code address for
    `jump`/`ifNot`/`ret`/`nxt`, the data address for `restore` — whatever the position `a` of the
    referring op; every other op is untouched -/
theorem linkOne_resolves {l : Link} {a : Nat} {c : Col} {sym : Symbol} {o d : Nat} {op op' : Opcode}
    (hsym : l.symbols.lookup sym = some (o, d)) (hop : l.ops[a]? = some op) (hp : patched op o d = some op') :
    (l.linkOne a c sym).1.ops[a]? = some op' ∧ (l.linkOne a c sym).2 = none ∧
    (∀ j, j ≠ a → (l.linkOne a c sym).1.ops[j]? = l.ops[j]?) ∧
    (l.linkOne a c sym).1.ops.size = l.ops.size :=
  Link.linkOne_resolves_get hsym hop hp

/-- the patched op for each kind of reference -/
theorem patched_cases (o d x : Nat) :
    patched (.jump x) o d = some (.jump o) ∧ patched (.ifNot x) o d = some (.ifNot o) ∧
    patched (.literal (.ret x)) o d = some (.literal (.ret o)) ∧
    patched (.literal (.nxt x)) o d = some (.literal (.nxt o)) ∧
    patched (.restore x) o d = some (.restore d) := ⟨rfl, rfl, rfl, rfl, rfl⟩

/-- a reference to a line that does not exist: UNDEFINED LINE at the column of the reference, in the
    line the reference occurs in; code unchanged -/
theorem linkOne_undefined_line {l : Link} {a : Nat} {c : Col} {n : Symbol}
    (hsym : l.symbols.lookup n = none) (h0 : 0 ≤ n) :
    (l.linkOne a c n).1 = l ∧
    ∃ e, (l.linkOne a c n).2 = some e ∧ e.code = Code.undefinedLine ∧ e.line = l.lineNumberFor a ∧
      e.colStart = c.1 ∧ e.colEnd = c.2 := by
  rw [Link.linkOne_undefined hsym h0]
  exact ⟨rfl, _, rfl, rfl, rfl, rfl, rfl⟩

/-- layout independence of one reference: two links that agree on the entry of line `n` patch a
    `jump` to `n` identically, wherever the jump sits and whatever else the tables contain -/
theorem jump_target_depends_on_line_only {l₁ l₂ : Link} {a₁ a₂ x₁ x₂ : Nat} {c₁ c₂ : Col} {n : Symbol} {o d₁ d₂ : Nat}
    (h₁ : l₁.symbols.lookup n = some (o, d₁)) (h₂ : l₂.symbols.lookup n = some (o, d₂))
    (hop₁ : l₁.ops[a₁]? = some (.jump x₁)) (hop₂ : l₂.ops[a₂]? = some (.jump x₂)) :
    (l₁.linkOne a₁ c₁ n).1.ops[a₁]? = some (.jump o) ∧ (l₂.linkOne a₂ c₂ n).1.ops[a₂]? = some (.jump o) :=
  ⟨(Link.linkOne_resolves_get h₁ hop₁ rfl).1, (Link.linkOne_resolves_get h₂ hop₂ rfl).1⟩

/-- `link_resolves`: the whole linker pass — every pending reference to a defined symbol (WHILE/WEND
    references included) ends up carrying that symbol's address, wherever the reference sits -/
theorem link_resolves (l : Link) (hd : KeysDistinct l.unlinked) (a : Nat) (c : Col) (sym : Symbol)
    (hmem : (a, (c, sym)) ∈ l.linkWhiles.1.unlinked)
    {o d : Nat} {op op' : Opcode} (hsym : l.symbols.lookup sym = some (o, d))
    (hop : l.ops[a]? = some op) (hp : patched op o d = some op') :
    l.link.1.ops[a]? = some op' :=
  Link.link_resolves l hd a c sym hmem hsym hop hp

/-- every reference to a missing line is reported as UNDEFINED LINE -/
theorem link_reports_undefined (l : Link) (a : Nat) (c : Col) (n : Symbol)
    (hmem : (a, (c, n)) ∈ l.linkWhiles.1.unlinked)
    (hsym : l.symbols.lookup n = none) (h0 : 0 ≤ n) :
    mkErr Code.undefinedLine (l.lineNumberFor a) c ∈ l.link.2 :=
  Link.link_reports_undefined l a c n hmem hsym h0

/-- after linking, only line numbers remain in the table, the label counter is reset and the code
    has kept its size (references are patched in place) -/
theorem link_cleans (l : Link) :
    (∀ p ∈ l.link.1.symbols, 0 ≤ p.1) ∧ l.link.1.currentSymbol = 0 ∧ l.link.1.ops.size = l.ops.size :=
  Link.link_cleans l

/-- the pending references stay a map (distinct addresses) under everything codegen does -/
theorem keysDistinct_preserved :
    KeysDistinct ([] : List (Nat × (Col × Symbol))) ∧
    (∀ (l : Link) c s, KeysDistinct l.unlinked → KeysDistinct (l.addUnlinked c s).unlinked) ∧
    (∀ (a b : Link), KeysDistinct a.unlinked → (a.append b).2 = .ok () → KeysDistinct (a.append b).1.unlinked) ∧
    (∀ (l : Link), KeysDistinct l.unlinked → KeysDistinct l.linkWhiles.1.unlinked) := by
  refine ⟨List.Pairwise.nil, fun l c s h => addUnlinked_distinct c s h, ?_, fun l h => linkWhiles_distinct h⟩
  intro a b ha h
  rw [Link.append_unlinked h]
  exact appendUnlinked_distinct ha

/-- WHILE/WEND are paired as brackets in code order -/
theorem linkWhiles_matches (l : Link) :
    l.linkWhiles =
      ({ l with whiles := [], unlinked := (Spec.bracketMatch l.whiles).1.foldl pairRefs l.unlinked },
       (Spec.bracketMatch l.whiles).2.1.map (fun e => mkErr Code.wendWithoutWhile (l.lineNumberFor e.2.1) e.1) ++
       (Spec.bracketMatch l.whiles).2.2.map (fun w => mkErr Code.whileWithoutWend (l.lineNumberFor w.2.1) w.1)) :=
  Link.linkWhiles_matches l

/-! ### non-vacuity -/

/-- fragment `a`: line 10 = `jump →L1; L1:` (one local label), one data item -/
def exA : Link :=
  { currentSymbol := -1, ops := #[.jump 0], data := #[.int 1],
    symbols := [(-1, (1, 0)), (10, (0, 0))], unlinked := [(0, ((3, 4), -1))] }
/-- fragment `b`: line 20 = `ifNot →L1; end; L1:` with its own label `-1`, and a WHILE mark -/
def exB : Link :=
  { currentSymbol := -1, ops := #[.ifNot 0, .end], data := #[.int 2],
    symbols := [(-1, (2, 0)), (20, (0, 0))], unlinked := [(0, ((5, 6), -1))],
    whiles := [(true, (0, 5), 0, -1)] }

example : (exA.append exB).2 = .ok () := by decide
example : (exA.append exB).1.ops = #[.jump 0, .ifNot 0, .end] := by decide
example : (exA.append exB).1.data = #[.int 1, .int 2] := by decide
-- `b`'s label -1 became -2, its addresses moved by (1, 1); `a`'s label -1 is intact
example : (exA.append exB).1.symbols = [(-2, (3, 1)), (-1, (1, 0)), (10, (0, 0)), (20, (1, 1))] := by decide
example : (exA.append exB).1.unlinked.lookup 1 = some ((5, 6), -2) := by decide
example : (exA.append exB).1.unlinked.lookup 0 = some ((3, 4), -1) := by decide
example : (exA.append exB).1.whiles = [(true, (0, 5), 1, -2)] := by decide
example : (exA.append exB).1.currentSymbol = -2 := by decide
example : LocalOk exA := ⟨by decide, by decide, by decide, by decide⟩
-- linking a reference to line 20 yields the address of line 20; to line 30: UNDEFINED LINE in 10
example : ((exA.append exB).1.linkOne 0 (3, 4) 20).1.ops[0]? = some (.jump 1) := by decide
example : ((exA.append exB).1.linkOne 0 (3, 4) 30).2 =
    some { code := Code.undefinedLine, line := some 10, colStart := 3, colEnd := 4 } := by decide
-- the whole pass on the two-line program: both local jumps resolved, labels gone
example : (exA.append exB).1.link.1.ops = #[.jump 1, .ifNot 3, .end] := by decide
example : (exA.append exB).1.link.1.symbols = [(10, (0, 0)), (20, (1, 1))] := by decide
example : (exA.append exB).1.link.2.map (·.code) = [Code.whileWithoutWend] := by decide
example : (exA.append exB).1.lineNumberFor 2 = some 20 := by decide
example : (exA.append exB).1.lineNumberFor 0 = some 10 := by decide

end Thm.C20
end Basic
