import BasicModel.Lemmas.Link
import BasicModel.Lemmas.Control
import BasicModel.Lemmas.Codegen
import BasicModel.Model.Program
/-
  C09 — READ consumes DATA in source order; RESTORE and RUN reposition the cursor.

  The data segment is an array filled by `append` in fragment order; a line symbol records how
  many constants precede the line; `readData` is a cursor into the array; `restoreData` and
  CLEAR (which RUN executes first) move the cursor.
-/
namespace Basic
namespace Thm.C09
open Link

/-! ### the cursor -/

/-- READ with data left: the constant under the cursor, cursor + 1, nothing else changes -/
theorem readData_advances (l : Link) (h : l.dataPos < l.data.size) :
    l.readData = ({ l with dataPos := l.dataPos + 1 }, .ok l.data[l.dataPos]) := by
  unfold readData
  rw [Array.getElem?_eq_getElem h]

/-- READ past the end: OUT OF DATA (code 4), link unchanged -/
theorem readData_out_of_data (l : Link) (h : l.data.size ≤ l.dataPos) :
    l.readData = (l, .error (Error.mk' Code.outOfData)) ∧ (Error.mk' Code.outOfData).code = 4 := by
  unfold readData
  rw [Array.getElem?_eq_none h]
  exact ⟨rfl, rfl⟩

/-- RESTORE sets the cursor and nothing else -/
theorem restoreData_sets (l : Link) (a : Nat) :
    (l.restoreData a).dataPos = a ∧ (l.restoreData a).data = l.data ∧ (l.restoreData a).ops = l.ops ∧
    (l.restoreData a).symbols = l.symbols := ⟨rfl, rfl, rfl, rfl⟩

/-- `k` consecutive READs: the final link and the results in order -/
def readN : Nat → Link → Link × List (Except Error Val)
  | 0, l => (l, [])
  | k+1, l =>
    let (l1, r) := l.readData
    let (l2, rs) := readN k l1
    (l2, r :: rs)

theorem readN_from (l : Link) (k : Nat) (h : l.dataPos + k ≤ l.data.size) :
    readN k l = ({ l with dataPos := l.dataPos + k }, ((l.data.toList.drop l.dataPos).take k).map Except.ok) := by
  induction k generalizing l with
  | zero => simp [readN]
  | succ k ih =>
    have hlt : l.dataPos < l.data.size := by omega
    simp only [readN, readData_advances l hlt]
    rw [ih { l with dataPos := l.dataPos + 1 } (by simp only; omega)]
    simp only [Prod.mk.injEq]
    refine ⟨by simp only [Link.mk.injEq, and_true, true_and]; omega, ?_⟩
    have hlt' : l.dataPos < l.data.toList.length := by simpa using hlt
    rw [List.drop_eq_getElem_cons hlt', List.take_succ_cons]
    simp

/-- after `RESTORE a` the next `k` READs return `data[a], data[a+1], …` -/
theorem restore_then_reads_from (l : Link) (a k : Nat) (h : a + k ≤ l.data.size) :
    readN k (l.restoreData a) =
      ({ l with dataPos := a + k }, ((l.data.toList.drop a).take k).map Except.ok) :=
  readN_from (l.restoreData a) k h

/-- from the start, `|data|` READs return the whole data segment in order, and the next is OUT OF DATA -/
theorem read_all_in_order (l : Link) (h0 : l.dataPos = 0) :
    (readN l.data.size l).2 = l.data.toList.map Except.ok ∧
    (readN l.data.size l).1.readData.2 = .error (Error.mk' Code.outOfData) := by
  rw [readN_from l l.data.size (by omega)]
  simp only [h0, List.drop_zero, Nat.zero_add]
  constructor
  · rw [List.take_of_length_le (by simp)]
  · exact congrArg Prod.snd (readData_out_of_data { l with dataPos := l.data.size } (Nat.le_refl _)).1

/-! ### the VM instruction -/

/-- the `read` helper of the VM: pushes the constant under the cursor and advances it -/
theorem doRead_pushes_next (s : Runtime) (h : s.program.link.dataPos < s.program.link.data.size)
    (hb : s.stack.size + 1 ≤ Gen.stackMaxLen) :
    (Runtime.doRead.run).run s =
      (.ok (), { s with
        program := { s.program with link := { s.program.link with dataPos := s.program.link.dataPos + 1 } },
        stack := s.stack.push s.program.link.data[s.program.link.dataPos] }) := by
  unfold Runtime.doRead
  have h1 : ¬ (s.stack.size + 1 > Gen.stackMaxLen) := by omega
  simp only [Runtime.run_bind, Runtime.run_get, readData_advances _ h, Runtime.run_set, Runtime.run_liftE,
    Runtime.run_push, h1, if_false]

theorem doRead_out_of_data (s : Runtime) (h : s.program.link.data.size ≤ s.program.link.dataPos) :
    (Runtime.doRead.run).run s = (.error (Error.mk' Code.outOfData), s) := by
  unfold Runtime.doRead
  simp only [Runtime.run_bind, Runtime.run_get, (readData_out_of_data _ h).1, Runtime.run_set, Runtime.run_liftE]

/-- `doClear_rewinds`: CLEAR (and RUN, which executes `clear` first) rewinds the cursor -/
theorem doClear_rewinds (env : Env) (s : Runtime) : (Runtime.doClear env s).program.link.dataPos = 0 := rfl

/-- … and leaves the data segment alone -/
theorem doClear_keeps_data (env : Env) (s : Runtime) :
    (Runtime.doClear env s).program.link.data = s.program.link.data := rfl

/-- the code `RUN [n]` compiles to starts with `clear`, so every RUN rewinds the cursor -/
theorem run_starts_with_clear (c : Col) (ln : Option Nat) (g : Codegen.GState)
    (h : g.cur.ops.size + 1 ≤ Gen.stackMaxLen) :
    (((Codegen.pushRun c ln).run).run g).2.cur.ops[g.cur.ops.size]? = some .clear := by
  unfold Codegen.pushRun
  simp only [Codegen.grun_bind, Codegen.grun_lpush_ok .clear g h]
  have key : ∀ g' : Codegen.GState, g'.cur.ops[g.cur.ops.size]? = some .clear →
      (((Codegen.lpush (.jump 0)).run).run g').2.cur.ops[g.cur.ops.size]? = some .clear := by
    intro g' hg'
    have hlt : g.cur.ops.size < g'.cur.ops.size := by
      rcases Nat.lt_or_ge g.cur.ops.size g'.cur.ops.size with h | h
      · exact h
      · rw [Array.getElem?_eq_none h] at hg'; cases hg'
    rw [Codegen.grun_lpush]
    simp only [Array.getElem?_push, hg']
    rw [if_neg (by omega)]
  cases ln with
  | none =>
    simp only [Option.isSome_none, Bool.false_eq_true, if_false]
    apply key
    simp
  | some n =>
    simp only [Option.isSome_some, if_true, Codegen.grun_bind, Link.symbolForLineNumber, Codegen.grun_liftE,
      Codegen.grun_laddUnlinked]
    apply key
    simp [Link.addUnlinked]

/-! ### the data segment is built in append order -/

/-- appending fragments f₁ … fₙ (all succeed): `data = data₀ ++ f₁.data ++ … ++ fₙ.data`, and likewise for code -/
theorem append_data_order (a : Link) (fs : List Link) (h : (appendMany a fs).2 = .ok ()) :
    (appendMany a fs).1.data.toList = a.data.toList ++ (fs.map (·.data.toList)).flatten ∧
    (appendMany a fs).1.ops.toList = a.ops.toList ++ (fs.map (·.ops.toList)).flatten :=
  ⟨(appendMany_ops_data a fs h).2, (appendMany_ops_data a fs h).1⟩

/-- the loop of `Codegen.codegen` is `appendMany` over the statement fragments, in statement order -/
theorem codegen_appendAll_eq (frags : List (Col × Link)) (link : Link) (errs : List Error) :
    Codegen.codegen.appendAll frags link errs =
      match appendMany link (frags.map (·.2)) with
      | (l, .ok ()) => (l, errs)
      | (l, .error e) => (l, errs ++ [e]) := by
  induction frags generalizing link with
  | nil => rfl
  | cons hd tl ih =>
    obtain ⟨c, f⟩ := hd
    simp only [Codegen.codegen.appendAll, List.map_cons, appendMany]
    cases hr : link.append f with
    | mk l' r =>
      cases r with
      | ok u => simp only; exact ih l'
      | error e => rfl

/-- `codegen_appends_in_order`: when no append fails (the reported errors are just the visitor's), the
    data segment after compiling a line is the old one followed by the data of the line's statement
    fragments in statement order (DATA inside multi-statement lines included), and the code likewise.
    `Program.codegenLines` is a left fold over the lines in listing (ascending) order, so the data
    segment of a program is in source order. -/
theorem codegen_appends_in_order (link : Link) (ast : List Stmt)
    (h : (Codegen.codegen link ast).2 = (Codegen.acceptStmts ast {}).errors) :
    (Codegen.codegen link ast).1.data.toList =
      link.data.toList ++ ((Codegen.acceptStmts ast {}).g.stmt.toList.map (·.2.data.toList)).flatten ∧
    (Codegen.codegen link ast).1.ops.toList =
      link.ops.toList ++ ((Codegen.acceptStmts ast {}).g.stmt.toList.map (·.2.ops.toList)).flatten := by
  unfold Codegen.codegen at h ⊢
  simp only [codegen_appendAll_eq] at h ⊢
  cases hr : appendMany link ((Codegen.acceptStmts ast {}).g.stmt.toList.map (·.2)) with
  | mk l r =>
    rw [hr] at h
    cases r with
    | error e =>
      simp only at h
      have := congrArg List.length h
      simp at this
    | ok u =>
      have hok : (appendMany link ((Codegen.acceptStmts ast {}).g.stmt.toList.map (·.2))).2 = .ok () := by rw [hr]
      have := append_data_order link _ hok
      rw [hr] at this
      simp only [List.map_map] at this
      exact this

/-- whatever the outcome (including OUT OF MEMORY part-way), appending only ever *extends* the data segment -/
theorem append_data_extends (a b : Link) : ∃ suf, (a.append b).1.data.toList = a.data.toList ++ suf := by
  rcases append_cases a b with ⟨_, _, e⟩ | ⟨_, e⟩ | ⟨_, _, e⟩ | ⟨_, _, e⟩
  · exact ⟨[], by rw [e]; simp⟩
  · exact ⟨[], by rw [e]; simp⟩
  · exact ⟨b.data.toList, by rw [e]; simp [appended]⟩
  · exact ⟨b.data.toList, by rw [e]; simp [appended]⟩

theorem appendAll_data_extends (frags : List (Col × Link)) (link : Link) (errs : List Error) :
    ∃ suf, (Codegen.codegen.appendAll frags link errs).1.data.toList = link.data.toList ++ suf := by
  induction frags generalizing link with
  | nil => exact ⟨[], by simp [Codegen.codegen.appendAll]⟩
  | cons hd tl ih =>
    obtain ⟨c, f⟩ := hd
    simp only [Codegen.codegen.appendAll]
    obtain ⟨s1, h1⟩ := append_data_extends link f
    cases hr : link.append f with
    | mk l' r =>
      rw [hr] at h1
      cases r with
      | ok u =>
        obtain ⟨s2, h2⟩ := ih l'
        exact ⟨s1 ++ s2, by simp only; rw [h2, h1, List.append_assoc]⟩
      | error e => exact ⟨s1, h1⟩

theorem codegen_data_extends (link : Link) (ast : List Stmt) :
    ∃ suf, (Codegen.codegen link ast).1.data.toList = link.data.toList ++ suf :=
  appendAll_data_extends _ link _

/-- compiling a numbered line only extends the data segment: the constants of earlier lines keep their
    positions, so the segment is in line (= source) order and the data address recorded for a
    line (`pushSymbol_records_data_addr`) stays valid -/
theorem codegenLine_data_extends (p : Program) (line : Line) (n : Nat) (hn : line.number = some n) :
    ∃ suf, (p.codegenLine line).link.data.toList = p.link.data.toList ++ suf := by
  unfold Program.codegenLine
  simp only [hn, Option.isNone_some, Bool.false_eq_true, if_false]
  split
  · exact ⟨[], by simp [Link.pushSymbol]⟩
  · rename_i ast _
    obtain ⟨suf, h⟩ := codegen_data_extends (p.link.pushSymbol n) ast
    exact ⟨suf, by simpa [Link.pushSymbol] using h⟩

/-- … and so does compiling a whole listing: line by line, in order, each line's constants after those
    of all earlier lines -/
theorem codegenLines_data_extends (p : Program) (lines : List Line) (h : ∀ l ∈ lines, ∃ n, l.number = some n) :
    ∃ suf, (p.codegenLines lines).link.data.toList = p.link.data.toList ++ suf := by
  induction lines generalizing p with
  | nil => exact ⟨[], by simp [Program.codegenLines]⟩
  | cons hd tl ih =>
    obtain ⟨n, hn⟩ := h hd List.mem_cons_self
    obtain ⟨s1, h1⟩ := codegenLine_data_extends p hd n hn
    obtain ⟨s2, h2⟩ := ih (p.codegenLine hd) (fun l hl => h l (List.mem_cons_of_mem _ hl))
    refine ⟨s1 ++ s2, ?_⟩
    show ((p.codegenLine hd).codegenLines tl).link.data.toList = _
    rw [h2, h1, List.append_assoc]

/-- `Program.codegenLines` compiles the lines in the order given (a left fold) -/
theorem codegenLines_in_order (p : Program) (l : Line) (ls : List Line) :
    p.codegenLines (l :: ls) = (p.codegenLine l).codegenLines ls := rfl

/-! ### line symbols and RESTORE n -/

/-- a line symbol records (code address, data address) = (ops, constants) compiled before that line -/
theorem pushSymbol_records_data_addr (l : Link) (n : Symbol) :
    (l.pushSymbol n).symbols.lookup n = some (l.ops.size, l.data.size) := by
  unfold pushSymbol
  rw [symInsert_lookup, if_pos rfl]

/-- other symbols are not disturbed -/
theorem pushSymbol_keeps_others (l : Link) (n m : Symbol) (h : m ≠ n) :
    (l.pushSymbol n).symbols.lookup m = l.symbols.lookup m := by
  unfold pushSymbol
  rw [symInsert_lookup, if_neg h]

/-- `RESTORE n` is patched to the data address recorded for line `n` -/
theorem restore_patched {l : Link} {a x : Nat} {c : Col} {n : Symbol} {o d : Nat}
    (hsym : l.symbols.lookup n = some (o, d)) (hop : l.ops[a]? = some (.restore x)) :
    (l.linkOne a c n).1.ops[a]? = some (.restore d) ∧ (l.linkOne a c n).2 = none :=
  ⟨(linkOne_resolves_get hsym hop rfl).1, (linkOne_resolves_get hsym hop rfl).2.1⟩

/-- `RESTORE n` then READ, end to end on the link: line `n` was compiled when `d` constants were
    present, so after the restore the next READ returns the first constant of line `n` or later -/
theorem restore_line_then_read (l : Link) (d : Nat) (h : d < l.data.size) :
    (l.restoreData d).readData = ({ l with dataPos := d + 1 }, .ok l.data[d]) :=
  readData_advances (l.restoreData d) h

/-! ### DATA items -/

def expectedLiteral (c : Col) : Error := ((Error.mk' Code.syntaxError).inCol c.1 c.2).withMsg "EXPECTED LITERAL"

/-- a fragment that is exactly one literal becomes one data item and no code -/
theorem transformToData_literal (l : Link) (c : Col) (v : Val) (h : l.ops = #[.literal v]) :
    Codegen.transformToData l c = ({ l with ops := #[] }).pushData v ∧
    (Codegen.transformToData l c).1.ops = #[] ∧ (Codegen.transformToData l c).1.data = l.data.push v := by
  unfold Codegen.transformToData
  simp [h, pushData]

/-- a numeric literal under unary minus becomes the negated value -/
theorem transformToData_neg_literal (l : Link) (c : Col) (v nv : Val) (h : l.ops = #[.literal v, .neg])
    (hn : Ops.negate v = .ok nv) :
    Codegen.transformToData l c = ({ l with ops := #[] }).pushData nv ∧
    (Codegen.transformToData l c).1.ops = #[] ∧ (Codegen.transformToData l c).1.data = l.data.push nv := by
  unfold Codegen.transformToData
  simp [h, hn, pushData]

/-- … and when the negation itself fails (a string, or −(−32768)) that error is reported, no data is added -/
theorem transformToData_neg_error (l : Link) (c : Col) (v : Val) (e : Error) (h : l.ops = #[.literal v, .neg])
    (hn : Ops.negate v = .error e) :
    Codegen.transformToData l c = ({ l with ops := #[] }, .error e) := by
  unfold Codegen.transformToData
  simp [h, hn]

/-- anything else is SYNTAX ERROR "EXPECTED LITERAL" at the item's column (or the negation's own error) -/
theorem transformToData_cases (l : Link) (c : Col) :
    (∃ v, l.ops = #[.literal v]) ∨ (∃ v, l.ops = #[.literal v, .neg]) ∨
    (Codegen.transformToData l c).2 = .error (expectedLiteral c) := by
  unfold Codegen.transformToData expectedLiteral
  by_cases h1 : l.ops.size = 1
  · simp only [h1, if_true]
    have h0 : 0 < l.ops.size := by omega
    rw [Array.getElem?_eq_getElem h0]
    cases hop : l.ops[0] with
    | literal v =>
      left
      refine ⟨v, ?_⟩
      apply Array.ext
      · simp [h1]
      · intro i hi1 hi2
        have : i = 0 := by omega
        subst this
        simp [hop]
    | _ => right; right; rfl
  · simp only [h1, if_false]
    by_cases h2 : l.ops.size = 2
    · simp only [h2, if_true]
      have h0 : 0 < l.ops.size := by omega
      have h1' : 1 < l.ops.size := by omega
      rw [Array.getElem?_eq_getElem h0, Array.getElem?_eq_getElem h1']
      cases hop : l.ops[0] with
      | literal v =>
        cases hop1 : l.ops[1] with
        | neg =>
          right; left
          refine ⟨v, ?_⟩
          apply Array.ext
          · simp [h2]
          · intro i hi1 hi2
            have : i = 0 ∨ i = 1 := by omega
            rcases this with e | e <;> subst e <;> simp [hop, hop1]
        | _ => right; right; rfl
      | _ => right; right; rfl
    · right; right
      simp only [h2, if_false]

/-! ### non-vacuity -/

def exData : Link := { data := #[.int 10, .int 20, .int 30] }

example : (readN 3 exData).2 = [.ok (.int 10), .ok (.int 20), .ok (.int 30)] := by decide
example : (readN 4 exData).2 = [.ok (.int 10), .ok (.int 20), .ok (.int 30), .error (Error.mk' 4)] := by decide
example : (readN 2 (exData.restoreData 1)).2 = [.ok (.int 20), .ok (.int 30)] := by decide
example : (readN 1 ((readN 3 exData).1.restoreData 0)).2 = [.ok (.int 10)] := by decide
example : (Codegen.transformToData { ops := #[.literal (.int 7)] } (0, 1)).1.data = #[.int 7] := by decide
example : (Codegen.transformToData { ops := #[.literal (.int 7), .neg] } (0, 1)).1.data = #[.int (-7)] := by decide
example : (Codegen.transformToData { ops := #[.push "A".toList] } (2, 3)).2 = .error (expectedLiteral (2, 3)) := by decide
example : (({ ops := #[.end], data := #[.int 1, .int 2] } : Link).pushSymbol 30).symbols.lookup 30 = some (1, 2) := by decide
example : (appendMany {} [{ data := #[.int 1] }, { ops := #[.end] }, { data := #[.int 2, .int 3] }]).1.data
    = #[.int 1, .int 2, .int 3] := by decide

end Thm.C09
end Basic
