import BasicModel.Lemmas.Link
import BasicModel.Lemmas.Control
import BasicModel.Lemmas.Codegen
import BasicModel.Model.Program
import BasicModel.Lemmas.DataOrder
import BasicModel.Lemmas.DataLits
import BasicModel.Lemmas.WhileMarks
import BasicModel.Lemmas.ReadRun
/-
  C09 — READ consumes DATA in source order; RESTORE and RUN reposition the cursor.

  The data segment is an array filled by `append` in fragment order; a line symbol records how
  many constants precede the line; `readData` is a cursor into the array; `restoreData` and
  CLEAR (which RUN executes first) move the cursor.
-/
namespace Basic
namespace Thm.C09
open Link

/-! ### the cursor -/

/-- READ with data left: the constant under the cursor, cursor + 1, nothing else changes -/
theorem readData_advances (l : Link) (h : l.dataPos < l.data.size) :
    l.readData = ({ l with dataPos := l.dataPos + 1 }, .ok l.data[l.dataPos]) := by
  unfold readData
  rw [Array.getElem?_eq_getElem h]

/-- READ past the end: OUT OF DATA (code 4), link unchanged -/
theorem readData_out_of_data (l : Link) (h : l.data.size ≤ l.dataPos) :
    l.readData = (l, .error (Error.mk' Code.outOfData)) ∧ (Error.mk' Code.outOfData).code = 4 := by
  unfold readData
  rw [Array.getElem?_eq_none h]
  exact ⟨rfl, rfl⟩

/-- RESTORE sets the cursor and nothing else -/
theorem restoreData_sets (l : Link) (a : Nat) :
    (l.restoreData a).dataPos = a ∧ (l.restoreData a).data = l.data ∧ (l.restoreData a).ops = l.ops ∧
    (l.restoreData a).symbols = l.symbols := ⟨rfl, rfl, rfl, rfl⟩

/-- `k` consecutive READs: the final link and the results in order -/
def readN : Nat → Link → Link × List (Except Error Val)
  | 0, l => (l, [])
  | k+1, l =>
    let (l1, r) := l.readData
    let (l2, rs) := readN k l1
    (l2, r :: rs)

theorem readN_from (l : Link) (k : Nat) (h : l.dataPos + k ≤ l.data.size) :
    readN k l = ({ l with dataPos := l.dataPos + k }, ((l.data.toList.drop l.dataPos).take k).map Except.ok) := by
  induction k generalizing l with
  | zero => simp [readN]
  | succ k ih =>
    have hlt : l.dataPos < l.data.size := by omega
    simp only [readN, readData_advances l hlt]
    rw [ih { l with dataPos := l.dataPos + 1 } (by simp only; omega)]
    simp only [Prod.mk.injEq]
    refine ⟨by simp only [Link.mk.injEq, and_true, true_and]; omega, ?_⟩
    have hlt' : l.dataPos < l.data.toList.length := by simpa using hlt
    rw [List.drop_eq_getElem_cons hlt', List.take_succ_cons]
    simp

/-- after `RESTORE a` the next `k` READs return `data[a], data[a+1], …` -/
theorem restore_then_reads_from (l : Link) (a k : Nat) (h : a + k ≤ l.data.size) :
    readN k (l.restoreData a) =
      ({ l with dataPos := a + k }, ((l.data.toList.drop a).take k).map Except.ok) :=
  readN_from (l.restoreData a) k h

/-- from the start, `|data|` READs return the whole data segment in order, and the next is OUT OF DATA -/
theorem read_all_in_order (l : Link) (h0 : l.dataPos = 0) :
    (readN l.data.size l).2 = l.data.toList.map Except.ok ∧
    (readN l.data.size l).1.readData.2 = .error (Error.mk' Code.outOfData) := by
  rw [readN_from l l.data.size (by omega)]
  simp only [h0, List.drop_zero, Nat.zero_add]
  constructor
  · rw [List.take_of_length_le (by simp)]
  · exact congrArg Prod.snd (readData_out_of_data { l with dataPos := l.data.size } (Nat.le_refl _)).1

/-! ### the VM instruction -/

/-- the `read` helper of the VM: pushes the constant under the cursor and advances it -/
theorem doRead_pushes_next (s : Runtime) (h : s.program.link.dataPos < s.program.link.data.size)
    (hb : s.stack.size + 1 ≤ Gen.stackMaxLen) :
    (Runtime.doRead.run).run s =
      (.ok (), { s with
        program := { s.program with link := { s.program.link with dataPos := s.program.link.dataPos + 1 } },
        stack := s.stack.push s.program.link.data[s.program.link.dataPos] }) := by
  unfold Runtime.doRead
  have h1 : ¬ (s.stack.size + 1 > Gen.stackMaxLen) := by omega
  simp only [Runtime.run_bind, Runtime.run_get, readData_advances _ h, Runtime.run_set, Runtime.run_liftE,
    Runtime.run_push, h1, if_false]

theorem doRead_out_of_data (s : Runtime) (h : s.program.link.data.size ≤ s.program.link.dataPos) :
    (Runtime.doRead.run).run s = (.error (Error.mk' Code.outOfData), s) := by
  unfold Runtime.doRead
  simp only [Runtime.run_bind, Runtime.run_get, (readData_out_of_data _ h).1, Runtime.run_set, Runtime.run_liftE]

/-- `doClear_rewinds`: CLEAR (and RUN, which executes `clear` first) rewinds the cursor -/
theorem doClear_rewinds (env : Env) (s : Runtime) : (Runtime.doClear env s).program.link.dataPos = 0 := rfl

/-- … and leaves the data segment alone -/
theorem doClear_keeps_data (env : Env) (s : Runtime) :
    (Runtime.doClear env s).program.link.data = s.program.link.data := rfl

/-- the code `RUN [n]` compiles to starts with `clear`, so every RUN rewinds the cursor -/
theorem run_starts_with_clear (c : Col) (ln : Option Nat) (g : Codegen.GState)
    (h : g.cur.ops.size + 1 ≤ Gen.stackMaxLen) :
    (((Codegen.pushRun c ln).run).run g).2.cur.ops[g.cur.ops.size]? = some .clear := by
  unfold Codegen.pushRun
  simp only [Codegen.grun_bind, Codegen.grun_lpush_ok .clear g h]
  have key : ∀ g' : Codegen.GState, g'.cur.ops[g.cur.ops.size]? = some .clear →
      (((Codegen.lpush (.jump 0)).run).run g').2.cur.ops[g.cur.ops.size]? = some .clear := by
    intro g' hg'
    have hlt : g.cur.ops.size < g'.cur.ops.size := by
      rcases Nat.lt_or_ge g.cur.ops.size g'.cur.ops.size with h | h
      · exact h
      · rw [Array.getElem?_eq_none h] at hg'; cases hg'
    rw [Codegen.grun_lpush]
    simp only [Array.getElem?_push, hg']
    rw [if_neg (by omega)]
  cases ln with
  | none =>
    simp only [Option.isSome_none, Bool.false_eq_true, if_false]
    apply key
    simp
  | some n =>
    simp only [Option.isSome_some, if_true, Codegen.grun_bind, Link.symbolForLineNumber, Codegen.grun_liftE,
      Codegen.grun_laddUnlinked]
    apply key
    simp [Link.addUnlinked]

/-! ### the data segment is built in append order -/

/-- appending fragments f₁ … fₙ (all succeed): `data = data₀ ++ f₁.data ++ … ++ fₙ.data`, and likewise for code -/
theorem append_data_order (a : Link) (fs : List Link) (h : (appendMany a fs).2 = .ok ()) :
    (appendMany a fs).1.data.toList = a.data.toList ++ (fs.map (·.data.toList)).flatten ∧
    (appendMany a fs).1.ops.toList = a.ops.toList ++ (fs.map (·.ops.toList)).flatten :=
  ⟨(appendMany_ops_data a fs h).2, (appendMany_ops_data a fs h).1⟩

/-- the loop of `Codegen.codegen` is `appendMany` over the statement fragments, in statement order -/
theorem codegen_appendAll_eq (frags : List (Col × Link)) (link : Link) (errs : List Error) :
    Codegen.codegen.appendAll frags link errs =
      match appendMany link (frags.map (·.2)) with
      | (l, .ok ()) => (l, errs)
      | (l, .error e) => (l, errs ++ [e]) := by
  induction frags generalizing link with
  | nil => rfl
  | cons hd tl ih =>
    obtain ⟨c, f⟩ := hd
    simp only [Codegen.codegen.appendAll, List.map_cons, appendMany]
    cases hr : link.append f with
    | mk l' r =>
      cases r with
      | ok u => simp only; exact ih l'
      | error e => rfl

/-- `codegen_appends_in_order`: when no append fails (the reported errors are just the visitor's), the
    data segment after compiling a line is the old one followed by the data of the line's statement
    fragments in statement order (DATA inside multi-statement lines included), and the code likewise.
    `Program.codegenLines` is a left fold over the lines in listing (ascending) order, so the data
    segment of a program is in source order. -/
theorem codegen_appends_in_order (link : Link) (ast : List Stmt)
    (h : (Codegen.codegen link ast).2 = (Codegen.acceptStmts ast {}).errors) :
    (Codegen.codegen link ast).1.data.toList =
      link.data.toList ++ ((Codegen.acceptStmts ast {}).g.stmt.toList.map (·.2.data.toList)).flatten ∧
    (Codegen.codegen link ast).1.ops.toList =
      link.ops.toList ++ ((Codegen.acceptStmts ast {}).g.stmt.toList.map (·.2.ops.toList)).flatten := by
  unfold Codegen.codegen at h ⊢
  simp only [codegen_appendAll_eq] at h ⊢
  cases hr : appendMany link ((Codegen.acceptStmts ast {}).g.stmt.toList.map (·.2)) with
  | mk l r =>
    rw [hr] at h
    cases r with
    | error e =>
      simp only at h
      have := congrArg List.length h
      simp at this
    | ok u =>
      have hok : (appendMany link ((Codegen.acceptStmts ast {}).g.stmt.toList.map (·.2))).2 = .ok () := by rw [hr]
      have := append_data_order link _ hok
      rw [hr] at this
      simp only [List.map_map] at this
      exact this

/-- whatever the outcome (including OUT OF MEMORY part-way), appending only ever *extends* the data segment -/
theorem append_data_extends (a b : Link) : ∃ suf, (a.append b).1.data.toList = a.data.toList ++ suf := by
  rcases append_cases a b with ⟨_, _, e⟩ | ⟨_, e⟩ | ⟨_, _, e⟩ | ⟨_, _, e⟩
  · exact ⟨[], by rw [e]; simp⟩
  · exact ⟨[], by rw [e]; simp⟩
  · exact ⟨b.data.toList, by rw [e]; simp [appended]⟩
  · exact ⟨b.data.toList, by rw [e]; simp [appended]⟩

theorem appendAll_data_extends (frags : List (Col × Link)) (link : Link) (errs : List Error) :
    ∃ suf, (Codegen.codegen.appendAll frags link errs).1.data.toList = link.data.toList ++ suf := by
  induction frags generalizing link with
  | nil => exact ⟨[], by simp [Codegen.codegen.appendAll]⟩
  | cons hd tl ih =>
    obtain ⟨c, f⟩ := hd
    simp only [Codegen.codegen.appendAll]
    obtain ⟨s1, h1⟩ := append_data_extends link f
    cases hr : link.append f with
    | mk l' r =>
      rw [hr] at h1
      cases r with
      | ok u =>
        obtain ⟨s2, h2⟩ := ih l'
        exact ⟨s1 ++ s2, by simp only; rw [h2, h1, List.append_assoc]⟩
      | error e => exact ⟨s1, h1⟩

theorem codegen_data_extends (link : Link) (ast : List Stmt) :
    ∃ suf, (Codegen.codegen link ast).1.data.toList = link.data.toList ++ suf :=
  appendAll_data_extends _ link _

/-- compiling a numbered line only extends the data segment: the constants of earlier lines keep their
    positions, so the segment is in line (= source) order and the data address recorded for a
    line (`pushSymbol_records_data_addr`) stays valid -/
theorem codegenLine_data_extends (p : Program) (line : Line) (n : Nat) (hn : line.number = some n) :
    ∃ suf, (p.codegenLine line).link.data.toList = p.link.data.toList ++ suf := by
  unfold Program.codegenLine
  simp only [hn, Option.isNone_some, Bool.false_eq_true, if_false]
  split
  · exact ⟨[], by simp [Link.pushSymbol]⟩
  · rename_i ast _
    obtain ⟨suf, h⟩ := codegen_data_extends (p.link.pushSymbol n) ast
    exact ⟨suf, by simpa [Link.pushSymbol] using h⟩

/-- … and so does compiling a whole listing: line by line, in order, each line's constants after those
    of all earlier lines -/
theorem codegenLines_data_extends (p : Program) (lines : List Line) (h : ∀ l ∈ lines, ∃ n, l.number = some n) :
    ∃ suf, (p.codegenLines lines).link.data.toList = p.link.data.toList ++ suf := by
  induction lines generalizing p with
  | nil => exact ⟨[], by simp [Program.codegenLines]⟩
  | cons hd tl ih =>
    obtain ⟨n, hn⟩ := h hd List.mem_cons_self
    obtain ⟨s1, h1⟩ := codegenLine_data_extends p hd n hn
    obtain ⟨s2, h2⟩ := ih (p.codegenLine hd) (fun l hl => h l (List.mem_cons_of_mem _ hl))
    refine ⟨s1 ++ s2, ?_⟩
    show ((p.codegenLine hd).codegenLines tl).link.data.toList = _
    rw [h2, h1, List.append_assoc]

/-- `Program.codegenLines` compiles the lines in the order given (a left fold) -/
theorem codegenLines_in_order (p : Program) (l : Line) (ls : List Line) :
    p.codegenLines (l :: ls) = (p.codegenLine l).codegenLines ls := rfl

/-! ### line symbols and RESTORE n -/

/-- a line symbol records (code address, data address) = (ops, constants) compiled before that line -/
theorem pushSymbol_records_data_addr (l : Link) (n : Symbol) :
    (l.pushSymbol n).symbols.lookup n = some (l.ops.size, l.data.size) := by
  unfold pushSymbol
  rw [symInsert_lookup, if_pos rfl]

/-- other symbols are not disturbed -/
theorem pushSymbol_keeps_others (l : Link) (n m : Symbol) (h : m ≠ n) :
    (l.pushSymbol n).symbols.lookup m = l.symbols.lookup m := by
  unfold pushSymbol
  rw [symInsert_lookup, if_neg h]

/-- `RESTORE n` is patched to the data address recorded for line `n` -/
theorem restore_patched {l : Link} {a x : Nat} {c : Col} {n : Symbol} {o d : Nat}
    (hsym : l.symbols.lookup n = some (o, d)) (hop : l.ops[a]? = some (.restore x)) :
    (l.linkOne a c n).1.ops[a]? = some (.restore d) ∧ (l.linkOne a c n).2 = none :=
  ⟨(linkOne_resolves_get hsym hop rfl).1, (linkOne_resolves_get hsym hop rfl).2.1⟩

/-- `RESTORE n` then READ, end to end on the link: line `n` was compiled when `d` constants were
    present, so after the restore the next READ returns the first constant of line `n` or later -/
theorem restore_line_then_read (l : Link) (d : Nat) (h : d < l.data.size) :
    (l.restoreData d).readData = ({ l with dataPos := d + 1 }, .ok l.data[d]) :=
  readData_advances (l.restoreData d) h

/-! ### DATA items -/

def expectedLiteral (c : Col) : Error := ((Error.mk' Code.syntaxError).inCol c.1 c.2).withMsg "EXPECTED LITERAL"

/-- a fragment that is exactly one literal becomes one data item and no code -/
theorem transformToData_literal (l : Link) (c : Col) (v : Val) (h : l.ops = #[.literal v]) :
    Codegen.transformToData l c = ({ l with ops := #[] }).pushData v ∧
    (Codegen.transformToData l c).1.ops = #[] ∧ (Codegen.transformToData l c).1.data = l.data.push v := by
  unfold Codegen.transformToData
  simp [h, pushData]

/-- a numeric literal under unary minus becomes the negated value -/
theorem transformToData_neg_literal (l : Link) (c : Col) (v nv : Val) (h : l.ops = #[.literal v, .neg])
    (hn : Ops.negate v = .ok nv) :
    Codegen.transformToData l c = ({ l with ops := #[] }).pushData nv ∧
    (Codegen.transformToData l c).1.ops = #[] ∧ (Codegen.transformToData l c).1.data = l.data.push nv := by
  unfold Codegen.transformToData
  simp [h, hn, pushData]

/-- … and when the negation itself fails (a string, or −(−32768)) that error is reported, no data is added -/
theorem transformToData_neg_error (l : Link) (c : Col) (v : Val) (e : Error) (h : l.ops = #[.literal v, .neg])
    (hn : Ops.negate v = .error e) :
    Codegen.transformToData l c = ({ l with ops := #[] }, .error e) := by
  unfold Codegen.transformToData
  simp [h, hn]

/-- anything else is SYNTAX ERROR "EXPECTED LITERAL" at the item's column (or the negation's own error) -/
theorem transformToData_cases (l : Link) (c : Col) :
    (∃ v, l.ops = #[.literal v]) ∨ (∃ v, l.ops = #[.literal v, .neg]) ∨
    (Codegen.transformToData l c).2 = .error (expectedLiteral c) := by
  unfold Codegen.transformToData expectedLiteral
  by_cases h1 : l.ops.size = 1
  · simp only [h1, if_true]
    have h0 : 0 < l.ops.size := by omega
    rw [Array.getElem?_eq_getElem h0]
    cases hop : l.ops[0] with
    | literal v =>
      left
      refine ⟨v, ?_⟩
      apply Array.ext
      · simp [h1]
      · intro i hi1 hi2
        have : i = 0 := by omega
        subst this
        simp [hop]
    | _ => right; right; rfl
  · simp only [h1, if_false]
    by_cases h2 : l.ops.size = 2
    · simp only [h2, if_true]
      have h0 : 0 < l.ops.size := by omega
      have h1' : 1 < l.ops.size := by omega
      rw [Array.getElem?_eq_getElem h0, Array.getElem?_eq_getElem h1']
      cases hop : l.ops[0] with
      | literal v =>
        cases hop1 : l.ops[1] with
        | neg =>
          right; left
          refine ⟨v, ?_⟩
          apply Array.ext
          · simp [h2]
          · intro i hi1 hi2
            have : i = 0 ∨ i = 1 := by omega
            rcases this with e | e <;> subst e <;> simp [hop, hop1]
        | _ => right; right; rfl
      | _ => right; right; rfl
    · right; right
      simp only [h2, if_false]

/-! ### non-vacuity -/

def exData : Link := { data := #[.int 10, .int 20, .int 30] }

example : (readN 3 exData).2 = [.ok (.int 10), .ok (.int 20), .ok (.int 30)] := by decide
example : (readN 4 exData).2 = [.ok (.int 10), .ok (.int 20), .ok (.int 30), .error (Error.mk' 4)] := by decide
example : (readN 2 (exData.restoreData 1)).2 = [.ok (.int 20), .ok (.int 30)] := by decide
example : (readN 1 ((readN 3 exData).1.restoreData 0)).2 = [.ok (.int 10)] := by decide
example : (Codegen.transformToData { ops := #[.literal (.int 7)] } (0, 1)).1.data = #[.int 7] := by decide
example : (Codegen.transformToData { ops := #[.literal (.int 7), .neg] } (0, 1)).1.data = #[.int (-7)] := by decide
example : (Codegen.transformToData { ops := #[.push "A".toList] } (2, 3)).2 = .error (expectedLiteral (2, 3)) := by decide
example : (({ ops := #[.end], data := #[.int 1, .int 2] } : Link).pushSymbol 30).symbols.lookup 30 = some (1, 2) := by decide
example : (appendMany {} [{ data := #[.int 1] }, { ops := #[.end] }, { data := #[.int 2, .int 3] }]).1.data
    = #[.int 1, .int 2, .int 3] := by decide

/-! ## READ / DATA / RESTORE end to end (program level)

  The mechanisms above, composed.  The lemma files are `Lemmas/GenInv.lean` (a Hoare calculus for the
  generator functions, parametrised by the invariant), `Lemmas/DataOrder.lean` (who adds to the data of a
  fragment: DATA and the branches of IF, nobody else), `Lemmas/WhileMarks.lean` (WHILE/WEND marks sit
  on their branches, so `linkWhiles` never displaces the pending reference of a `restore`) and
  `Lemmas/ReadRun.lean` (the run of a READ list).  The theorems that need the compile-state lemmas of
  the second lemma chain (`Lemmas/Layout.lean`, `Lemmas/Inv.lean`) — the symbol of line `n`,
  `RESTORE n` after linking, RUN, the frame lemma and the headline — are in `Thm/C09Program.lean`. -/

open DataOrder Lemmas.ReadRun Lemmas.ExprCompile Lemmas.FnCall Spec Codegen

/-! ### 1. the data segment of a compiled program -/

/-- **`dataOf`** (`DataOrder.dataOf`): the constants of every DATA statement of the listing — also of
    those inside the branches of IF — in line order and left to right within a line; a constant is a
    literal, or a numeric literal under one unary minus (negated by `Ops.negate`, as
    `transformToData` does); a line that does not parse has none.

    **The data segment of a compiled program is `dataOf` of its listing**, for every listing of
    numbered lines each of which, compiled in its turn, either does not parse or compiles without a
    report (`ListingClean`).  No hypothesis on the DATA items: `codegen` reports every item that is
    not a constant (`codegen_clean_lits`). -/
theorem data_segment_in_source_order (lines : List Line) (hnum : DataOrder.Numbered lines)
    (hok : ListingClean {} lines) : (Program.compile lines).link.data.toList = dataOf lines :=
  compile_data_of_listingClean lines hnum hok

/-- … in particular **for every listing that compiles without errors** (`indirectErrors = []`: what
    RUN requires) -/
theorem data_segment_of_clean_program (lines : List Line) (hnum : DataOrder.Numbered lines)
    (h : (Program.compile lines).indirectErrors = []) :
    (Program.compile lines).link.data.toList = dataOf lines :=
  compile_data_of_clean lines hnum h

/-- such a listing parses line by line, and every line compiles without a report -/
theorem clean_program_listingClean (lines : List Line) (hnum : DataOrder.Numbered lines)
    (h : (Program.compile lines).indirectErrors = []) :
    ListingClean {} lines ∧ (∀ l ∈ lines, ∃ ast, Parse.parse l.number l.tokens = .ok ast) :=
  listingClean_of_compile_clean lines hnum h

/-- a statement list that compiles without a report has constants as DATA items (syntactically:
    `stmtsLit`), also inside IF branches: anything else is SYNTAX ERROR "EXPECTED LITERAL"
    (`transformToData_cases`) or the error of the negation -/
theorem clean_compile_has_constant_data (link : Link) (ast : List Stmt) (h : (Codegen.codegen link ast).2 = []) :
    stmtsLit ast = true :=
  codegen_clean_lits link ast h

/-- the error case: **a line that does not parse contributes nothing** — neither data nor code — but
    its error (its line symbol is still recorded) -/
theorem unparsable_line_contributes_nothing (p : Program) (line : Line) (n : Nat) (hn : line.number = some n)
    (e : Error) (hp : Parse.parse line.number line.tokens = .error e) :
    (p.codegenLine line).link.data = p.link.data ∧ (p.codegenLine line).link.ops = p.link.ops ∧
    (p.codegenLine line).errors = p.errors ++ [e] ∧ lineData line = [] :=
  ⟨(codegenLine_parse_error p line n hn e hp).1, (codegenLine_parse_error p line n hn e hp).2.1,
   (codegenLine_parse_error p line n hn e hp).2.2, by unfold lineData; rw [hp]⟩

/-- one line: the data segment grows by the constants of its statements, in statement order -/
theorem line_appends_its_constants (p : Program) (line : Line) (n : Nat) (hn : line.number = some n)
    (hok : LineClean p line) : (p.codegenLine line).link.data.toList = p.link.data.toList ++ lineData line :=
  codegenLine_data p line n hn fun n' ast hn' hp => ⟨codegen_clean_lits _ ast (hok n' ast hn' hp), hok n' ast hn' hp⟩

/-- one statement list: DATA contributes its constants, IF those of its THEN branch followed by those
    of its ELSE branch, every other statement nothing -/
theorem statements_append_their_constants (link : Link) (ast : List Stmt)
    (h : (Codegen.codegen link ast).2 = []) :
    (Codegen.codegen link ast).1.data.toList = link.data.toList ++ stmtsData ast :=
  codegen_data_clean link ast h

/-- **position independence**: `dataOf` depends only on the subsequence of lines that carry
    constants, and of those only on their texts — not on their line numbers, not on the code lines
    around them.  Moving a DATA line among the code lines (keeping the relative order of the DATA
    lines) leaves `dataOf`, hence the compiled data segment, unchanged. -/
theorem data_position_independent (ls ls' : List Line)
    (h : (ls.filter carriesData).map (·.tokens) = (ls'.filter carriesData).map (·.tokens)) :
    dataOf ls = dataOf ls' :=
  dataOf_position_independent ls ls' h

theorem data_segment_position_independent (ls ls' : List Line) (hn : DataOrder.Numbered ls)
    (hn' : DataOrder.Numbered ls') (hok : ListingClean {} ls) (hok' : ListingClean {} ls')
    (h : (ls.filter carriesData).map (·.tokens) = (ls'.filter carriesData).map (·.tokens)) :
    (Program.compile ls).link.data = (Program.compile ls').link.data :=
  compile_data_position_independent ls ls' hn hn' (listingOk_of_listingClean _ _ hok)
    (listingOk_of_listingClean _ _ hok') h

/-! ### 2. RESTORE: the fragment, and the linker -/

/-- `RESTORE` / `RESTORE n` compiles to the single instruction `restore 0`, reporting nothing, with
    no data; with a line-number operand the reference to the symbol of line `n` is pending at that
    instruction (`restoreFrag`), without one nothing is pending and the operand stays 0 -/
theorem restore_fragment (c c2 : Col) (bits : UInt32) (s : VState) :
    acceptStmt (.restore c (.single c2 bits)) s =
      { s with g := { s.g with stmt := s.g.stmt.push (c, restoreFrag c2 (restoreTarget bits)) } } :=
  acceptStmt_restore c c2 bits s

/-- **the linker patches `RESTORE n` with the data address of line `n`**: a `restore` waiting for a
    defined symbol ends as `restore d`, `d` the data address the symbol records
    (`pushSymbol_records_data_addr`: the number of constants compiled before the line) — whatever
    WHILE/WEND pairing adds to the pending references, because marks sit on their own branches
    (`WhilesOps`, an invariant of every fragment and of the compile state) -/
theorem restore_resolved_by_link (l : Link) (hk : KeysDistinct l.unlinked) (hw : WhilesOps l) (a y : Nat) (c : Col)
    (sym : Symbol) (o d : Nat) (hp : PendingAt l a (.restore y) (some (c, sym)))
    (hsym : l.symbols.lookup sym = some (o, d)) : l.link.1.ops[a]? = some (.restore d) :=
  link_restore_resolves l hk hw a y c sym o d hp hsym

/-- the compile state of any listing of numbered lines has its marks on their branches and distinct
    reference addresses -/
theorem compile_state_marks (lines : List Line) (hnum : DataOrder.Numbered lines) :
    WhilesOps (({} : Program).codegenLines lines).link ∧
    KeysDistinct (({} : Program).codegenLines lines).link.unlinked :=
  codegenLines_whilesOps lines {} hnum WhilesOps.empty List.Pairwise.nil

/-! ### 3. the READ list -/

/-- **code shape**: `READ v₁,…,vₖ` (scalar targets that are not zero-argument built-ins) compiles to
    one fragment, nothing reported, whose code is `read; pop v₁; …; read; pop vₖ`: one `read` and one
    store per target, left to right — READ is `read` followed by the code of an assignment -/
theorem read_code_shape (c : Col) (pis : List (Col × TIdent)) (hz : ∀ p ∈ pis, isZeroArg p.2.name = false)
    (s : VState) (hlen : 2 * pis.length ≤ Gen.stackMaxLen) :
    acceptStmt (.read c (pis.map fun p => Variable.unary p.1 p.2)) s =
      { s with g := { s.g with stmt := s.g.stmt.push (c, plain (readCode (pis.map (·.2.name))).toArray) } } :=
  read_codegen_shape c pis hz s hlen

/-- **the run**: from any state (trace off, room for one value on the stack) with the cursor at `p`,
    the code of a READ list runs as `readSpec` says; the stack ends as it began (`afterRead` changes
    `pc`, the variables and the cursor only) -/
theorem read_list_run (env : Env) (hie : Bool) (names : List Str) (s : Runtime)
    (hcode : CodeAt s.program.link.ops s.pc (readCode names)) (htr : s.tron = false)
    (hroom : s.stack.size + 1 ≤ Gen.stackMaxLen) :
    runOps env hie (readCode names) s =
      readResult s (readSpec s.program.link.data names s.vars s.program.link.dataPos) :=
  read_run env hie names s hcode htr hroom

/-- enough constants, every store accepted: target `i` receives `data[p+i]` converted by `Var.store`
    (as an assignment would), one after the other, left to right; the cursor ends at `p + k` -/
theorem read_list_ok (env : Env) (hie : Bool) (names : List Str) (s : Runtime) (vars' : Var)
    (hcode : CodeAt s.program.link.ops s.pc (readCode names)) (htr : s.tron = false)
    (hroom : s.stack.size + 1 ≤ Gen.stackMaxLen)
    (hp : s.program.link.dataPos + names.length ≤ s.program.link.data.size)
    (hst : bindParams s.vars names ((s.program.link.data.toList.drop s.program.link.dataPos).take names.length) =
      .ok vars') :
    runOps env hie (readCode names) s =
      (.ok .continue, { s with pc := s.pc + 2 * names.length, vars := vars', program := { s.program with link := { s.program.link with dataPos := s.program.link.dataPos + names.length } } }) := by
  rw [read_run env hie names s hcode htr hroom, readSpec_ok _ names s.vars vars' _ hp hst]
  rfl

/-- **a conversion error** (TYPE MISMATCH for a string constant read into a numeric variable, or the
    reverse; OVERFLOW): the list stops at the first target whose store is refused, with that store's
    error; the earlier targets are assigned; and the cursor is `p + i + 1` — **the offending constant
    has been consumed** (the `read` happens before the store) -/
theorem read_list_conversion_error (env : Env) (hie : Bool) (pre : List Str) (n : Str) (post : List Str)
    (s : Runtime) (vars1 : Var) (v : Val) (e : Error)
    (hcode : CodeAt s.program.link.ops s.pc (readCode (pre ++ n :: post))) (htr : s.tron = false)
    (hroom : s.stack.size + 1 ≤ Gen.stackMaxLen)
    (hp : s.program.link.dataPos + pre.length ≤ s.program.link.data.size)
    (hpre : bindParams s.vars pre ((s.program.link.data.toList.drop s.program.link.dataPos).take pre.length) =
      .ok vars1)
    (hv : s.program.link.data[s.program.link.dataPos + pre.length]? = some v) (hs : vars1.store n v = .error e) :
    runOps env hie (readCode (pre ++ n :: post)) s =
      (.error e, { s with pc := s.pc + (2 * pre.length + 2), vars := vars1, program := { s.program with link := { s.program.link with dataPos := s.program.link.dataPos + pre.length + 1 } } }) := by
  rw [read_run env hie _ s hcode htr hroom, readSpec_store_error _ pre n post s.vars vars1 _ v e hp hpre hv hs]
  rfl

/-- **OUT OF DATA**: with fewer constants left than targets, the first `|data| - p` targets are
    assigned, the error is OUT OF DATA (code 4), and the cursor stays at the end of the data -/
theorem read_list_out_of_data (env : Env) (hie : Bool) (pre : List Str) (n : Str) (post : List Str)
    (s : Runtime) (vars1 : Var)
    (hcode : CodeAt s.program.link.ops s.pc (readCode (pre ++ n :: post))) (htr : s.tron = false)
    (hroom : s.stack.size + 1 ≤ Gen.stackMaxLen)
    (hp : s.program.link.dataPos + pre.length = s.program.link.data.size)
    (hpre : bindParams s.vars pre ((s.program.link.data.toList.drop s.program.link.dataPos).take pre.length) =
      .ok vars1) :
    runOps env hie (readCode (pre ++ n :: post)) s =
      (.error (Error.mk' Code.outOfData), { s with pc := s.pc + (2 * pre.length + 1), vars := vars1, program := { s.program with link := { s.program.link with dataPos := s.program.link.data.size } } }) ∧
    (Error.mk' Code.outOfData).code = 4 := by
  rw [read_run env hie _ s hcode htr hroom, readSpec_out_of_data _ pre n post s.vars vars1 _ hp hpre]
  exact ⟨rfl, rfl⟩

/-! ### 6. non-vacuity

  The kernel does not evaluate the parser, so the parses of the example lines are proved by
  unfolding it (`simp`), and the listing-level hypotheses are then checked on the parses
  (`listingOk_of_check`, `dataOf_of_parses`).  All constants are Integers or strings: `Float32` is
  opaque to the kernel. -/

theorem i16_7 : Fmt.parseI16 (Parse.numText ['7']) = some 7 := by decide +kernel
theorem i16_8 : Fmt.parseI16 (Parse.numText ['8']) = some 8 := by decide +kernel

/-- `READ A%,B$` -/
theorem parse_exRead (n : Option Nat) :
    Parse.parse n [.word .read, .whitespace 1, .ident (.integer ['A', '%']), .comma, .ident (.string ['B', '$'])] =
    .ok [.read (0, 4) [.unary (5, 7) (.integer ['A', '%']), .unary (8, 10) (.string ['B', '$'])]] := by
  simp [Parse.parse, Parse.parseTokens, Parse.fuelFor, Parse.statements, Parse.statement, Parse.peek,
    Parse.next, Parse.nextLoop, Parse.col, Parse.isRem, StateT.run, bind, StateT.bind, Except.bind, get,
    getThe, MonadStateOf.get, StateT.get, pure, StateT.pure, Except.pure, set, StateT.set, modify,
    modifyGet, MonadStateOf.modifyGet, StateT.modifyGet, Except.map, Token.text, Word.text,
    Parse.maybe, Parse.varList, Parse.expectVar, Parse.isUserFunction, TIdent.name]

/-- `DATA 7,-8` -/
theorem parse_exData1 (n : Option Nat) :
    Parse.parse n [.word .data, .whitespace 1, .literal (.integer ['7']), .comma, .operator .minus,
      .literal (.integer ['8'])] =
    .ok [.data (9, 9) [.integer (5, 6) 7, .neg (7, 8) (.integer (8, 9) 8)]] := by
  simp [Parse.parse, Parse.parseTokens, Parse.fuelFor, Parse.statements, Parse.statement, Parse.peek,
    Parse.next, Parse.nextLoop, Parse.col, Parse.isRem, StateT.run, bind, StateT.bind, Except.bind, get,
    getThe, MonadStateOf.get, StateT.get, pure, StateT.pure, Except.pure, set, StateT.set, modify,
    modifyGet, MonadStateOf.modifyGet, StateT.modifyGet, Except.map, Token.text, Word.text, Literal.text,
    Parse.descend, Parse.binLoop, Parse.maybe, Parse.literal, Parse.exprList, i16_7, i16_8, Operator.text]

/-- `END` -/
theorem parse_exEnd (n : Option Nat) : Parse.parse n [.word .end] = .ok [.end (0, 3)] := by
  simp [Parse.parse, Parse.parseTokens, Parse.fuelFor, Parse.statements, Parse.statement, Parse.peek,
    Parse.next, Parse.nextLoop, Parse.col, Parse.isRem, StateT.run, bind, StateT.bind, Except.bind, get,
    getThe, MonadStateOf.get, StateT.get, pure, StateT.pure, Except.pure, set, StateT.set, modify,
    modifyGet, MonadStateOf.modifyGet, StateT.modifyGet, Except.map, Token.text, Word.text]

/-- `DATA "X"` -/
theorem parse_exData2 (n : Option Nat) :
    Parse.parse n [.word .data, .whitespace 1, .literal (.string ['X'])] = .ok [.data (8, 8) [.string (5, 8) ['X']]] := by
  simp [Parse.parse, Parse.parseTokens, Parse.fuelFor, Parse.statements, Parse.statement, Parse.peek,
    Parse.next, Parse.nextLoop, Parse.col, Parse.isRem, StateT.run, bind, StateT.bind, Except.bind, get,
    getThe, MonadStateOf.get, StateT.get, pure, StateT.pure, Except.pure, set, StateT.set, modify,
    modifyGet, MonadStateOf.modifyGet, StateT.modifyGet, Except.map, Token.text, Word.text, Literal.text,
    Parse.descend, Parse.binLoop, Parse.maybe, Parse.literal, Parse.exprList, Operator.text]

/-- `10 READ A%,B$` / `20 DATA 7,-8` / `30 END` / `40 DATA "X"` -/
def exL1 : Line := ⟨some 10, [.word .read, .whitespace 1, .ident (.integer ['A', '%']), .comma, .ident (.string ['B', '$'])]⟩
def exL2 : Line := ⟨some 20, [.word .data, .whitespace 1, .literal (.integer ['7']), .comma, .operator .minus,
  .literal (.integer ['8'])]⟩
def exL3 : Line := ⟨some 30, [.word .end]⟩
def exL4 : Line := ⟨some 40, [.word .data, .whitespace 1, .literal (.string ['X'])]⟩

def exAsts : List (List Stmt) :=
  [[.read (0, 4) [.unary (5, 7) (.integer ['A', '%']), .unary (8, 10) (.string ['B', '$'])]],
   [.data (9, 9) [.integer (5, 6) 7, .neg (7, 8) (.integer (8, 9) 8)]],
   [.end (0, 3)],
   [.data (8, 8) [.string (5, 8) ['X']]]]

theorem exParses : Parses [exL1, exL2, exL3, exL4] exAsts :=
  .cons (parse_exRead _) (.cons (parse_exData1 _) (.cons (parse_exEnd _) (.cons (parse_exData2 _) .nil)))

/-- the hypotheses of `data_segment_in_source_order` hold for the example -/
theorem exOk : ListingClean {} [exL1, exL2, exL3, exL4] :=
  listingClean_of_listingOk _ _ (listingOk_of_check _ _ _ exParses (by decide +kernel))

/-- its data segment: `7, -8, "X"` — the DATA lines sit behind and between the code -/
example : (Program.compile [exL1, exL2, exL3, exL4]).link.data.toList = [.int 7, .int (-8), .str ['X']] := by
  rw [data_segment_in_source_order _ (numbered_of_check _ (by decide)) exOk, dataOf_of_parses _ _ exParses]
  decide +kernel

/-- the DATA lines moved in front of the code and renumbered: the same data sequence -/
theorem exMovedParses : Parses [{ exL2 with number := some 1 }, { exL4 with number := some 2 }, exL1, exL3]
    [exAsts[1], exAsts[3], exAsts[0], exAsts[2]] :=
  .cons (parse_exData1 _) (.cons (parse_exData2 _) (.cons (parse_exRead _) (.cons (parse_exEnd _) .nil)))

example : dataOf [{ exL2 with number := some 1 }, { exL4 with number := some 2 }, exL1, exL3] =
    dataOf [exL1, exL2, exL3, exL4] := by
  rw [dataOf_of_parses _ _ exMovedParses, dataOf_of_parses _ _ exParses]
  decide +kernel

/-- DATA inside IF branches counts, THEN branch first; PRINT contributes nothing -/
example : stmtsData [.data (0, 0) [.integer (0, 0) 1], .print (0, 0) [.integer (0, 0) 5],
    .«if» (0, 0) (.integer (0, 0) 1) [.data (0, 0) [.string (0, 0) ['A']]] [.data (0, 0) [.integer (0, 0) 2]]] =
    [.int 1, .str ['A'], .int 2] := by decide

example : (Codegen.codegen {} [.data (0, 0) [.integer (0, 0) 1], .print (0, 0) [.integer (0, 0) 5],
    .«if» (0, 0) (.integer (0, 0) 1) [.data (0, 0) [.string (0, 0) ['A']]] [.data (0, 0) [.integer (0, 0) 2]]]).1.data =
    #[.int 1, .str ['A'], .int 2] := by decide +kernel

/-- the RESTORE fragments -/
example : restoreFrag (8, 10) (some 40) = { ops := #[.restore 0], unlinked := [(0, ((8, 10), 40))] } := rfl
example : restoreFrag (7, 7) none = { ops := #[.restore 0] } := rfl

/-- the linker on `restore 0` waiting for line 40, whose symbol records 2 constants before it -/
def exRestoreLink : Link :=
  { ops := #[.restore 0, .end], symbols := [(10, (0, 0)), (40, (1, 2))], unlinked := [(0, ((8, 10), 40))] }

example : exRestoreLink.link.1.ops = #[.restore 2, .end] := by decide +kernel

/-- the READ list `READ A%,B$` on the data `7, "X", 9` from cursor 0 … -/
def exRun : Runtime :=
  { program := { link := { ops := #[.read, .pop ['A', '%'], .read, .pop ['B', '$'], .end],
                           data := #[.int 7, .str ['X'], .int 9] } } }

theorem exRun_code : CodeAt exRun.program.link.ops exRun.pc (readCode [['A', '%'], ['B', '$']]) := by decide

/-- … assigns both, cursor 2, stack empty, `pc` past the code -/
example (env : Env) (hie : Bool) :
    (runOps env hie (readCode [['A', '%'], ['B', '$']]) exRun).2.program.link.dataPos = 2 ∧
    (runOps env hie (readCode [['A', '%'], ['B', '$']]) exRun).2.vars.fetch ['A', '%'] = .ok (.int 7) ∧
    (runOps env hie (readCode [['A', '%'], ['B', '$']]) exRun).2.vars.fetch ['B', '$'] = .ok (.str ['X']) ∧
    (runOps env hie (readCode [['A', '%'], ['B', '$']]) exRun).2.stack = #[] ∧
    (runOps env hie (readCode [['A', '%'], ['B', '$']]) exRun).2.pc = 4 := by
  rw [read_list_run env hie _ exRun exRun_code rfl (by decide)]
  decide +kernel

/-- `READ B$,A%` on the same data: the Integer 7 cannot be stored into `B$` — TYPE MISMATCH (13),
    nothing assigned, and the cursor is 1: the constant is consumed -/
example : (readSpec exRun.program.link.data [['B', '$'], ['A', '%']] Var.new 0).1.map (·.code) = some 13 ∧
    (readSpec exRun.program.link.data [['B', '$'], ['A', '%']] Var.new 0).2.2 = (1, 2) := by decide +kernel

/-- four targets, three constants: OUT OF DATA (4) after three assignments, cursor 3 -/
example : (readSpec exRun.program.link.data [['A', '%'], ['B', '$'], ['A', '%'], ['A', '%']] Var.new 0).1.map (·.code) =
      some 4 ∧
    (readSpec exRun.program.link.data [['A', '%'], ['B', '$'], ['A', '%'], ['A', '%']] Var.new 0).2.2 = (3, 7) ∧
    (readSpec exRun.program.link.data [['A', '%'], ['B', '$'], ['A', '%'], ['A', '%']] Var.new 0).2.1.fetch ['A', '%'] =
      .ok (.int 9) := by decide +kernel

/-- the code shape of `READ A%,B$` (the AST the parser returns for it) -/
example : acceptStmt (.read (0, 4) ([((5, 7), TIdent.integer ['A', '%']), ((8, 10), TIdent.string ['B', '$'])].map
      fun p => Variable.unary p.1 p.2)) {} =
    { g := { stmt := #[((0, 4), plain #[.read, .pop ['A', '%'], .read, .pop ['B', '$']])] }, errors := [] } := by
  rw [read_code_shape (0, 4) _ (by decide) {} (by decide)]
  rfl

end Thm.C09
end Basic
