import BasicModel.Model.Runtime
import BasicModel.Model.Parse
import BasicModel.Spec.PrintSpec
import BasicModel.Lemmas.C11
import BasicModel.Thm.C07
import BasicModel.Lemmas.PrintList
import BasicModel.Spec.PrintStmt
import BasicModel.Lemmas.PrintRun
/-
  C11 — PRINT lays out output exactly as documented.

  * the number wrapper: a non-negative number is printed with a leading blank, a negative one with
    its minus sign, and PRINT appends one blank after every number (nothing after a string).  For
    Integers the digits are proved to be the decimal digits of |n|; for floats only the *shape* of
    `Val.display` (blank-or-minus in front, the `{}` / `{:E}` switch at more than 9 resp. 17 digits)
    is proved — "shortest decimal that reads back" is `core::fmt`'s contract and stays trusted.
  * zone arithmetic: `,` is `TAB(Gen.printZone)`; from every column it emits between 1 and 14 blanks
    and lands on a multiple of the documented zone width 14.  Stated against the GENERATED constant.
  * TAB / SPC / POS on Integer arguments, all cases (result or the documented OVERFLOW).
  * the column the VM tracks is `Spec.columnAfter` of the emitted text (newline → 0, else +1).
  * the PRINT list desugaring, one unfolding step of `Parse.printList` per kind of token, and the
    whole-list statement `printList_desugar` for lists of C02-fragment expressions, `,` and `;`.
  * the PRINT statement end to end (last section): the specification `Spec.printSpec`
    (Spec/PrintStmt.lean) of a whole list — values, `;`, `,`, TAB, SPC, POS, the final newline —,
    the node the parser builds (`printAst`), the code generated for it (`stmtCode`) and the run of
    that code on the VM: the `print` events carry exactly the specification's texts, `printCol`
    ends as the specification's column, stack and variables are restored; TAB and POS see the
    column at their place in the list; two statements in sequence carry the column over.
    Formulated over `Runtime.step` iterated with an accumulator of printed texts (`runCollect`);
    for the case without error also over repeated `Runtime.execute` slices (`slices`).
-/
namespace Basic
namespace Thm.C11
open RStd Lemmas.C11

/-! ### the number wrapper -/

/-- Integers: blank or minus sign, then the decimal digits of |n| -/
theorem int_display_wrapper (n : Int16) :
    (0 ≤ n.toInt → Val.display (.int n) = ' ' :: natDigits n.toInt.natAbs) ∧
    (n.toInt < 0 → Val.display (.int n) = '-' :: natDigits n.toInt.natAbs) := by
  constructor
  · intro h
    have hs : showInt n.toInt = natDigits n.toInt.natAbs := by
      rw [showInt, if_neg (by omega)]
    simp only [Val.display, hs]
    rw [if_neg (natDigits_head_ne_minus _)]
  · intro h
    have hs : showInt n.toInt = '-' :: natDigits n.toInt.natAbs := by
      rw [showInt, if_pos h]
    simp only [Val.display, hs]
    rw [if_pos (by rfl)]

/-- everything after the first character of a printed Integer is a decimal digit, and there is at
    least one -/
theorem int_display_digits (n : Int16) :
    (Val.display (.int n)).tail ≠ [] ∧ ∀ ch ∈ (Val.display (.int n)).tail, ch.isDigit = true := by
  by_cases h : 0 ≤ n.toInt
  · rw [(int_display_wrapper n).1 h]
    exact ⟨natDigits_ne_nil _, fun ch hc => natDigits_isDigit hc⟩
  · rw [(int_display_wrapper n).2 (by omega)]
    exact ⟨natDigits_ne_nil _, fun ch hc => natDigits_isDigit hc⟩

/-- the digits Rust's `{}` prints for a Single, switching to `{:E}` when they exceed 9 digits -/
def sngText (b : UInt32) : Str :=
  let s := Fmt.fmtFloat Ieee.fp32 9 b.toNat false
  if Fmt.countDigits s > 9 then Fmt.fmtFloat Ieee.fp32 9 b.toNat true else s

/-- the digits Rust's `{}` prints for a Double, switching to `{:E}` when they exceed 17 digits -/
def dblText (b : UInt64) : Str :=
  let s := Fmt.fmtFloat Ieee.fp64 17 b.toNat false
  if Fmt.countDigits s > 17 then Fmt.fmtFloat Ieee.fp64 17 b.toNat true else s

/-- floats: the formatter's text (positional, or scientific past 9 / 17 digits) as is when it starts
    with a minus sign, behind one blank otherwise -/
theorem float_display_switch :
    (∀ b, Val.display (.sng b) = if (sngText b).head? = some '-' then sngText b else ' ' :: sngText b) ∧
    (∀ b, Val.display (.dbl b) = if (dblText b).head? = some '-' then dblText b else ' ' :: dblText b) :=
  ⟨fun _ => rfl, fun _ => rfl⟩

/-- floats: the printed text starts with a blank or a minus sign (shape of `Val.display` only; the
    digits are `core::fmt`'s and trusted) -/
theorem display_float_wrapper (v : Val) (hv : (∃ b, v = .sng b) ∨ (∃ b, v = .dbl b)) :
    (Val.display v).head? = some ' ' ∨ (Val.display v).head? = some '-' := by
  rcases hv with ⟨b, rfl⟩ | ⟨b, rfl⟩
  · rw [float_display_switch.1]
    by_cases h : (sngText b).head? = some '-'
    · rw [if_pos h]; exact Or.inr h
    · rw [if_neg h]; exact Or.inl rfl
  · rw [float_display_switch.2]
    by_cases h : (dblText b).head? = some '-'
    · rw [if_pos h]; exact Or.inr h
    · rw [if_neg h]; exact Or.inl rfl

/-- every number is printed behind a blank or a minus sign -/
theorem number_wrapper_partial (v : Val) (hv : v.isNumeric = true) :
    (Val.display v).head? = some ' ' ∨ (Val.display v).head? = some '-' := by
  -- missing w.r.t. DESIGN `number_wrapper`: for floats the text after the first character is not
  -- characterised (the digits are the trusted `core::fmt` contract)
  cases v with
  | int n =>
    by_cases h : 0 ≤ n.toInt
    · rw [(int_display_wrapper n).1 h]; exact Or.inl rfl
    · rw [(int_display_wrapper n).2 (by omega)]; exact Or.inr rfl
  | sng b => exact display_float_wrapper _ (Or.inl ⟨b, rfl⟩)
  | dbl b => exact display_float_wrapper _ (Or.inr ⟨b, rfl⟩)
  | str s => cases hv
  | ret a => cases hv
  | nxt a => cases hv

/-! ### the column of the print head -/

theorem columnAfter_append (c : Nat) (a b : Str) :
    Spec.columnAfter c (a ++ b) = Spec.columnAfter (Spec.columnAfter c a) b :=
  Lemmas.C11.columnAfter_append c a b

theorem columnAfter_no_newline (c : Nat) (s : Str) (h : '\n' ∉ s) :
    Spec.columnAfter c s = c + s.length :=
  Lemmas.C11.columnAfter_no_newline c s h

theorem columnAfter_after_newline (c : Nat) (a b : Str) :
    Spec.columnAfter c (a ++ '\n' :: b) = Spec.columnAfter 0 b :=
  Lemmas.C11.columnAfter_after_newline c a b

/-- blanks advance the column by their number -/
theorem columnAfter_blanks (c k : Nat) : Spec.columnAfter c (List.replicate k ' ') = c + k := by
  rw [columnAfter_no_newline, List.length_replicate]
  intro h
  exact absurd (List.mem_replicate.1 h).2 (by decide)

/-- PRINT pops one item, emits its text (`printText`: a string as is, a number followed by one
    blank), sets the tracked column to the true column after that text and changes nothing else -/
theorem print_col_tracks (s : Runtime) (item : Val) (h : s.stack.back? = some item) :
    (Runtime.doPrint.run).run s =
      (.ok (.print (printText item)),
       { s with stack := s.stack.pop, printCol := Spec.columnAfter s.printCol (printText item) }) :=
  doPrint_run s item h

/-- the same with the stack given as `st.push item`: the stack afterwards is `st` -/
theorem print_col_tracks_push (s : Runtime) (st : Array Val) (item : Val) (h : s.stack = st.push item) :
    (Runtime.doPrint.run).run s =
      (.ok (.print (printText item)),
       { s with stack := st, printCol := Spec.columnAfter s.printCol (printText item) }) := by
  rw [print_col_tracks s item (by rw [h]; exact Array.back?_push ..), h, Array.pop_push]

/-- PRINT on an empty stack is the internal UNDERFLOW error and changes nothing -/
theorem print_empty_stack (s : Runtime) (h : s.stack.back? = none) :
    (Runtime.doPrint.run).run s = (.error Runtime.underflow, s) :=
  doPrint_run_empty s h

/-- PRINT appends one blank to a number … -/
theorem print_appends_blank (s : Runtime) (v : Val) (hv : v.isNumeric = true)
    (h : s.stack.back? = some v) :
    (Runtime.doPrint.run).run s =
      (.ok (.print (v.display ++ [' '])),
       { s with stack := s.stack.pop, printCol := Spec.columnAfter s.printCol (v.display ++ [' ']) }) := by
  rw [print_col_tracks s v h]
  cases v <;> first | rfl | cases hv

/-- … and nothing to a string -/
theorem print_string_verbatim (s : Runtime) (str : Str) (h : s.stack.back? = some (.str str)) :
    (Runtime.doPrint.run).run s =
      (.ok (.print str),
       { s with stack := s.stack.pop, printCol := Spec.columnAfter s.printCol str }) :=
  print_col_tracks s (.str str) h

/-- a printed Integer occupies sign + digits + one blank columns -/
theorem print_int_width (c : Nat) (n : Int16) :
    Spec.columnAfter c (printText (.int n)) = c + (natDigits n.toInt.natAbs).length + 2 := by
  have hnl : '\n' ∉ natDigits n.toInt.natAbs := fun h => absurd (natDigits_isDigit h) (by decide)
  have : printText (.int n) = (Val.int n).display ++ [' '] := rfl
  rw [this, columnAfter_append]
  by_cases h : 0 ≤ n.toInt
  · rw [(int_display_wrapper n).1 h]
    simp only [Spec.columnAfter]
    rw [columnAfter_no_newline _ _ hnl]
    simp; omega
  · rw [(int_display_wrapper n).2 (by omega)]
    simp only [Spec.columnAfter]
    rw [columnAfter_no_newline _ _ hnl]
    simp; omega

/-! ### zones, TAB, SPC, POS -/

/-- the generated constant is the documented zone width, negated (the "modulo" form of TAB) -/
theorem printZone_documented : Gen.printZone.toInt = -(Spec.zoneWidth : Int) := by decide

/-- `,` = `TAB(Gen.printZone)`: from every column, 1 to 14 blanks, landing on a multiple of 14 -/
theorem comma_zone (c : Nat) :
    ∃ spaces, Func.tab c (.int Gen.printZone) = .ok (.str spaces) ∧ 1 ≤ spaces.length ∧
      spaces.length ≤ 14 ∧ (∀ ch ∈ spaces, ch = ' ') ∧ (c + spaces.length) % 14 = 0 := by
  have hz : Gen.printZone.toInt = -14 := by decide
  refine ⟨List.replicate (14 - c % 14) ' ', ?_, ?_, ?_, ?_, ?_⟩
  · rw [tab_int, hz]; simp
  · rw [List.length_replicate]; omega
  · rw [List.length_replicate]; omega
  · intro ch h; exact (List.mem_replicate.1 h).2
  · rw [List.length_replicate]; omega

/-- in terms of the print head: after the text of a `,` the column is the start of the next zone -/
theorem comma_zone_column (c : Nat) :
    ∃ spaces, Func.tab c (.int Gen.printZone) = .ok (.str spaces) ∧
      Spec.columnAfter c spaces = (c / Spec.zoneWidth + 1) * Spec.zoneWidth := by
  have hz : Gen.printZone.toInt = -14 := by decide
  refine ⟨List.replicate (14 - c % 14) ' ', ?_, ?_⟩
  · rw [tab_int, hz]; simp
  · rw [columnAfter_blanks]; simp only [Spec.zoneWidth]; omega

/-- `TAB(n)`, 0 ≤ n ≤ 255: blanks up to column n; never moves left -/
theorem tab_moves_or_stays (c : Nat) (n : Int16) (h0 : 0 ≤ n.toInt) (h1 : n.toInt ≤ 255) :
    Func.tab c (.int n) = .ok (.str (List.replicate (max c n.toInt.toNat - c) ' ')) := by
  rw [tab_int, if_neg (by omega), if_neg (by omega)]
  congr 3
  split <;> omega

/-- … so the print head ends in column `max c n` -/
theorem tab_column (c : Nat) (n : Int16) (h0 : 0 ≤ n.toInt) (h1 : n.toInt ≤ 255) :
    ∃ spaces, Func.tab c (.int n) = .ok (.str spaces) ∧
      Spec.columnAfter c spaces = max c n.toInt.toNat :=
  ⟨_, tab_moves_or_stays c n h0 h1, by rw [columnAfter_blanks]; omega⟩

/-- `TAB` outside -255..255 is OVERFLOW -/
theorem tab_overflow (c : Nat) (n : Int16) (h : n.toInt > 255 ∨ n.toInt < -255) :
    Func.tab c (.int n) = err Code.overflow := by
  rw [tab_int, if_pos (by omega)]

/-- the generated TAB bounds are the ones the model's `Func.tab` tests (-255 and 255) -/
theorem tab_bounds_generated : Gen.tabMin = -255 ∧ Gen.tabMax = 255 := ⟨rfl, rfl⟩

/-- `TAB(-k)`, 1 ≤ k ≤ 255: to the next multiple of k (always at least one blank) -/
theorem tab_negative (c : Nat) (n : Int16) (h0 : -255 ≤ n.toInt) (h1 : n.toInt < 0) :
    Func.tab c (.int n) =
      .ok (.str (List.replicate ((-n.toInt).toNat - c % (-n.toInt).toNat) ' ')) := by
  rw [tab_int, if_neg (by omega), if_pos h1]

/-- … the column afterwards is a multiple of k, strictly to the right -/
theorem tab_negative_column (c : Nat) (n : Int16) (h0 : -255 ≤ n.toInt) (h1 : n.toInt < 0) :
    ∃ spaces, Func.tab c (.int n) = .ok (.str spaces) ∧
      Spec.columnAfter c spaces % (-n.toInt).toNat = 0 ∧ c < Spec.columnAfter c spaces := by
  refine ⟨_, tab_negative c n h0 h1, ?_, ?_⟩
  · rw [columnAfter_blanks]
    generalize hk : (-n.toInt).toNat = k
    have hk0 : 0 < k := by omega
    have hlt := Nat.mod_lt c hk0
    have hdm := Nat.div_add_mod c k
    have : c + (k - c % k) = k * (c / k + 1) := by rw [Nat.mul_add]; omega
    rw [this, Nat.mul_mod_right]
  · rw [columnAfter_blanks]
    have hk0 : 0 < (-n.toInt).toNat := by omega
    have := Nat.mod_lt c hk0
    omega

/-- `SPC(n)`: n blanks for 0 ≤ n ≤ 255, OVERFLOW otherwise -/
theorem spc_spec (n : Int16) :
    Func.spc (.int n) =
      if 0 ≤ n.toInt ∧ n.toInt ≤ 255 then .ok (.str (List.replicate n.toInt.toNat ' '))
      else err Code.overflow := by
  by_cases h : 0 ≤ n.toInt
  · simp only [Func.spc, Thm.C07.toUsize_nonneg h, bind, Except.bind]
    by_cases h2 : n.toInt ≤ 255
    · rw [if_neg (by omega), if_pos ⟨h, h2⟩]
    · rw [if_pos (by omega), if_neg (by omega)]
  · simp only [Func.spc, Thm.C07.toUsize_neg h, bind, Except.bind]
    rw [if_neg (by omega)]; rfl

/-- the generated SPC bound is the one `Func.spc` tests -/
theorem spc_bound_generated : Gen.spcMax = 255 := rfl

/-- `POS`: the tracked column as an Integer, OVERFLOW past 32767 -/
theorem pos_spec (c : Nat) :
    (c ≤ 32767 → Func.pos c = .ok (.int (Int16.ofNat c)) ∧ (Int16.ofNat c).toInt = c) ∧
    (¬ c ≤ 32767 → Func.pos c = err Code.overflow) := by
  constructor
  · intro h
    refine ⟨by rw [Func.pos, if_pos h], ?_⟩
    exact Int16.toInt_ofNat_of_lt (by show c < 32768; omega)
  · intro h; rw [Func.pos, if_neg h]

/-! ### the PRINT list -/

open Parse

/-- the item a `,` desugars to, at column range `c` -/
def zoneItem (c : Col) : Expr :=
  Expr.var (.array c (.string "TAB".toList) [Expr.integer c Gen.printZone])

/-- (1) `,` contributes exactly `TAB(Gen.printZone)` and clears the linefeed flag -/
theorem printList_comma (fuel n : Nat) (lf : Bool) (acc : List Expr) (st : PState)
    (h : st.peeked = some .comma) :
    (Parse.printList fuel (n+1) lf acc).run st =
      (Parse.printList fuel n false (acc ++ [zoneItem (st.cs, st.ce)])).run { st with peeked := none } := by
  rw [Parse.printList, run_bind_ok (peek_run h)]
  simp only [isEnd, Bool.false_eq_true, if_false]
  rw [run_bind_ok (next_run h), run_bind_ok (col_run _)]
  rfl

/-- (2) `;` contributes nothing and clears the linefeed flag -/
theorem printList_semicolon (fuel n : Nat) (lf : Bool) (acc : List Expr) (st : PState)
    (h : st.peeked = some .semicolon) :
    (Parse.printList fuel (n+1) lf acc).run st =
      (Parse.printList fuel n false acc).run { st with peeked := none } := by
  rw [Parse.printList, run_bind_ok (peek_run h)]
  simp only [isEnd, Bool.false_eq_true, if_false]
  rw [run_bind_ok (next_run h)]

/-- (3) at a statement terminator (`:` or ELSE peeked) the list is complete; the `"\n"` item is
    appended exactly when the linefeed flag is set; the terminator stays peeked -/
theorem printList_end (fuel n : Nat) (lf : Bool) (acc : List Expr) (st : PState) (t : Token)
    (h : st.peeked = some t) (he : isEnd (some t) = true) :
    (Parse.printList fuel (n+1) lf acc).run st =
      .ok (if lf then acc ++ [Expr.string (st.ce, st.ce) ['\n']] else acc, st) := by
  rw [Parse.printList, run_bind_ok (peek_run h)]
  simp only [he, if_true]
  rw [run_bind_ok (col_run _)]
  cases lf <;> rfl

/-- (3') the same at the end of the line (no token left, nothing peeked) -/
theorem printList_end_of_line (fuel n : Nat) (lf : Bool) (acc : List Expr) (st : PState)
    (hp : st.peeked = none) (ht : st.toks = []) :
    (Parse.printList fuel (n+1) lf acc).run st =
      .ok (if lf then acc ++ [Expr.string (st.ce, st.ce) ['\n']] else acc, { st with cs := st.ce }) := by
  rw [Parse.printList, run_bind_ok (peek_run_nil hp ht)]
  simp only [isEnd, if_true]
  rw [run_bind_ok (col_run _)]
  cases lf <;> rfl

/-- (3'') "iff": at a terminator the result ends in the newline item exactly when the flag is set -/
theorem printList_end_newline_iff (fuel n : Nat) (lf : Bool) (acc : List Expr) (st : PState) (t : Token)
    (h : st.peeked = some t) (he : isEnd (some t) = true) :
    ((Parse.printList fuel (n+1) lf acc).run st =
        .ok (acc ++ [Expr.string (st.ce, st.ce) ['\n']], st)) ↔ lf = true := by
  rw [printList_end fuel n lf acc st t h he]
  cases lf
  · simp only [Bool.false_eq_true, if_false, iff_false]
    intro hh
    have hl : acc.length = (acc ++ [Expr.string (st.ce, st.ce) ['\n']]).length := by
      injection hh with hh
      exact congrArg List.length (congrArg Prod.fst hh)
    simp at hl
  · simp

/-- (4) anything else starts an expression item; after it the linefeed flag is set -/
theorem printList_item (fuel n : Nat) (lf : Bool) (acc : List Expr) (st : PState) (t : Token)
    (h : st.peeked = some t) (he : isEnd (some t) = false) (h1 : t ≠ .semicolon) (h2 : t ≠ .comma) :
    (Parse.printList fuel (n+1) lf acc).run st =
      (do let e ← Parse.expression fuel; Parse.printList fuel n true (acc ++ [e])).run st := by
  rw [Parse.printList, run_bind_ok (peek_run h)]
  simp only [he, Bool.false_eq_true, if_false]
  cases t <;> first | rfl | contradiction

/-- (4') with the parsed expression at hand -/
theorem printList_item_ok (fuel n : Nat) (lf : Bool) (acc : List Expr) (st st' : PState) (t : Token) (e : Expr)
    (h : st.peeked = some t) (he : isEnd (some t) = false) (h1 : t ≠ .semicolon) (h2 : t ≠ .comma)
    (hx : (Parse.expression fuel).run st = .ok (e, st')) :
    (Parse.printList fuel (n+1) lf acc).run st = (Parse.printList fuel n true (acc ++ [e])).run st' := by
  rw [printList_item fuel n lf acc st t h he h1 h2, run_bind_ok hx]

/-- (4'') a syntax error in the item is the error of the list -/
theorem printList_item_error (fuel n : Nat) (lf : Bool) (acc : List Expr) (st : PState) (t : Token) (e : Error)
    (h : st.peeked = some t) (he : isEnd (some t) = false) (h1 : t ≠ .semicolon) (h2 : t ≠ .comma)
    (hx : (Parse.expression fuel).run st = .error e) :
    (Parse.printList fuel (n+1) lf acc).run st = .error e := by
  rw [printList_item fuel n lf acc st t h he h1 h2, run_bind_error hx]

/-- The desugaring of the PRINT list, one step of `Parse.printList` per kind of look-ahead token:
    `,` adds `TAB(Gen.printZone)`, `;` adds nothing, both clear the linefeed flag; an item sets it;
    at the end the `"\n"` item is appended iff the flag is set (the statement parser starts with the
    flag set, `Parse.statement`: `printList fuel fuel true []`).

    Partial: these are the step equations only (any tokens, any expressions); the whole-list
    statement is `printList_desugar` below, for lists whose expression items are in the fragment
    of `Thm.C02.parse_render` (Integer literals, unary minus, NOT, the 18 binary operators). -/
theorem printList_desugar_partial (fuel n : Nat) (lf : Bool) (acc : List Expr) (st : PState) :
    (st.peeked = some .comma →
      (Parse.printList fuel (n+1) lf acc).run st =
        (Parse.printList fuel n false (acc ++ [zoneItem (st.cs, st.ce)])).run { st with peeked := none }) ∧
    (st.peeked = some .semicolon →
      (Parse.printList fuel (n+1) lf acc).run st =
        (Parse.printList fuel n false acc).run { st with peeked := none }) ∧
    (∀ t, st.peeked = some t → isEnd (some t) = true →
      (Parse.printList fuel (n+1) lf acc).run st =
        .ok (if lf then acc ++ [Expr.string (st.ce, st.ce) ['\n']] else acc, st)) ∧
    (∀ t, st.peeked = some t → isEnd (some t) = false → t ≠ .semicolon → t ≠ .comma →
      (Parse.printList fuel (n+1) lf acc).run st =
        (do let e ← Parse.expression fuel; Parse.printList fuel n true (acc ++ [e])).run st) :=
  ⟨printList_comma fuel n lf acc st, printList_semicolon fuel n lf acc st,
   fun t => printList_end fuel n lf acc st t, fun t => printList_item fuel n lf acc st t⟩

/-- the zone item carries the generated constant, i.e. `TAB(-14)` -/
theorem zoneItem_documented (c : Col) :
    zoneItem c = Expr.var (.array c (.string ['T', 'A', 'B']) [Expr.integer c (-14)]) := rfl


/-! ### the whole PRINT list -/

section whole_list
open Lemmas.PrintList

theorem zoneItem_eq (c : Col) : Lemmas.PrintList.zoneItem c = zoneItem c := rfl

/-- **PRINT list desugaring, whole list.**  Take any list of items — expressions of the C02
    fragment, `,`, `;` — in which every expression is followed by something that is not a binary
    operator (`Sep`; e.g. no two expressions side by side, `Alternating`), rendered without blanks
    and followed by a statement terminator `t'` (end of line, `:` or ELSE).  For all sufficiently
    large fuel, `printList` started with linefeed flag `lf` returns `acc` followed by: for every
    expression a tree of the same shape, for every `,` exactly `TAB(Gen.printZone)`, for every `;`
    nothing, in order (`Outs`); then the `"\n"` item iff `lfAfter lf items`, i.e. iff the list does
    not end in `;` or `,` (`lfAfter_eq`); and it leaves exactly `t'` unread. -/
theorem printList_desugar_then (lit : Int16 → Str) (t' : List Token) (hend : EndTok t')
    (items : List PItem) (st : PState) (lf : Bool) (acc : List Expr)
    (hg : Lemmas.ParseExpr.Good st)
    (hv : Lemmas.ParseExpr.view st = renderItems lit items ++ t')
    (hfr : ∀ e, PItem.expr e ∈ items → Spec.Frag (Thm.C02.LitOk lit) e)
    (hsep : Sep lit t' items) :
    ∃ N out st', Outs items out ∧ Lemmas.ParseExpr.Good st' ∧ Lemmas.ParseExpr.view st' = t' ∧
      ∀ fuel n, N ≤ fuel → items.length < n →
        (Parse.printList fuel n lf acc).run st =
          .ok (acc ++ out ++ (if lfAfter lf items then [Expr.string (st'.ce, st'.ce) ['\n']] else []),
               st') :=
  printList_spec lit t' hend items st lf acc hg hv hfr hsep

/-- the statement-level instance: `PRINT <items>` up to the end of the line, as `Parse.statement`
    calls it (`printList fuel fuel true []`) -/
theorem printList_desugar (lit : Int16 → Str) (items : List PItem)
    (hfr : ∀ e, PItem.expr e ∈ items → Spec.Frag (Thm.C02.LitOk lit) e)
    (halt : Alternating items) :
    ∃ N out st', Outs items out ∧ st'.toks = [] ∧ st'.peeked = none ∧
      ∀ fuel, N ≤ fuel → items.length < fuel →
        (Parse.printList fuel fuel true []).run { toks := renderItems lit items } =
          .ok (out ++ (if lfAfter true items then [Expr.string (st'.ce, st'.ce) ['\n']] else []),
               st') := by
  have hend : EndTok [] := rfl
  obtain ⟨N, out, st', hout, _, hv, hrun⟩ :=
    printList_desugar_then lit [] hend items { toks := renderItems lit items } true []
      ⟨rfl, renderItems_plain lit items⟩ (by simp [Lemmas.ParseExpr.view]) hfr
      (sep_of_alternating lit hend items halt)
  refine ⟨N, out, st', hout, ?_, ?_, fun fuel hf hn => by simpa using hrun fuel fuel hf hn⟩
  all_goals
    unfold Lemmas.ParseExpr.view at hv
    cases hpk : st'.peeked with
    | some t => rw [hpk] at hv; cases hv
    | none => first | rfl | (rw [hpk] at hv; exact hv)

/-- the newline item is appended iff the list does not end in `;` or `,` -/
theorem newline_iff_not_trailing_separator (items : List PItem) :
    lfAfter true items = (match items.getLast? with
      | none => true
      | some (.expr _) => true
      | some _ => false) :=
  lfAfter_eq true items

/-- each item's contribution, read off `Outs`: the number of parsed items is the number of
    expressions and commas -/
theorem outs_length {items : List PItem} {out : List Expr} (h : Outs items out) :
    out.length = (items.filter fun i => match i with | .semi => false | _ => true).length := by
  induction h with
  | nil => rfl
  | cons hi _ ih =>
    cases hi <;> simp [List.filter, ih]

end whole_list

/-! ### non-vacuity: concrete instances -/

example : Val.display (.int 42) = [' ', '4', '2'] := by
  rw [(int_display_wrapper 42).1 (by decide), natDigits_eq]; rfl
example : Val.display (.int (-7)) = ['-', '7'] := by
  rw [(int_display_wrapper (-7)).2 (by decide), natDigits_eq]; rfl
example : Val.display (.int 0) = [' ', '0'] := by
  rw [(int_display_wrapper 0).1 (by decide), natDigits_eq]; rfl

example : Spec.columnAfter 3 ['a', 'b', '\n', 'c', 'd'] = 2 := by decide
example : Spec.columnAfter 3 ['a', 'b'] = 5 := by decide

example : Func.tab 0 (.int Gen.printZone) = .ok (.str (List.replicate 14 ' ')) := by decide
example : Func.tab 13 (.int Gen.printZone) = .ok (.str [' ']) := by decide
example : Func.tab 14 (.int Gen.printZone) = .ok (.str (List.replicate 14 ' ')) := by decide
example : Func.tab 3 (.int 10) = .ok (.str (List.replicate 7 ' ')) := by decide
example : Func.tab 12 (.int 10) = .ok (.str []) := by decide
example : Func.tab 7 (.int (-5)) = .ok (.str (List.replicate 3 ' ')) := by decide
example : Func.tab 0 (.int 256) = err Code.overflow := by decide
example : Func.tab 0 (.int (-256)) = err Code.overflow := by decide
example : Func.spc (.int 3) = .ok (.str [' ', ' ', ' ']) := by decide
example : Func.spc (.int (-1)) = err Code.overflow := by decide
example : Func.spc (.int 256) = err Code.overflow := by decide
example : Func.pos 17 = .ok (.int 17) := by decide
example : Func.pos 32768 = err Code.overflow := by decide

/-- PRINT of the string "hi" from column 3: the event carries the text, the column is 5 -/
example :
    (Runtime.doPrint.run).run { stack := #[.int 1, .str ['h', 'i']], printCol := 3 } =
      (.ok (.print ['h', 'i']), { stack := #[.int 1], printCol := 5 }) := by
  rw [print_col_tracks_push _ #[.int 1] (.str ['h', 'i']) rfl]; rfl

/-- PRINT of the Integer 42 from column 0: " 42 " and column 4 -/
example :
    (Runtime.doPrint.run).run { stack := #[.int 42] } =
      (.ok (.print [' ', '4', '2', ' ']), { stack := #[], printCol := 4 }) := by
  have hd : Val.display (.int 42) = [' ', '4', '2'] := by
    rw [(int_display_wrapper 42).1 (by decide), natDigits_eq]; rfl
  rw [print_col_tracks_push _ #[] (.int 42) rfl]
  simp only [printText, hd]; rfl

/-- `1,2;` : three items (1, TAB(-14), 2) and no newline item -/
example :
    ((Parse.printList 20 20 true []).run
        { toks := [.literal (.integer ['1']), .comma, .literal (.integer ['2']), .semicolon] }).map (·.1) =
      .ok [Expr.integer (0, 1) 1, zoneItem (1, 2), Expr.integer (2, 3) 2] := by rfl

/-- `1,2` : the same three items and the newline item -/
example :
    ((Parse.printList 20 20 true []).run
        { toks := [.literal (.integer ['1']), .comma, .literal (.integer ['2'])] }).map (·.1) =
      .ok [Expr.integer (0, 1) 1, zoneItem (1, 2), Expr.integer (2, 3) 2, Expr.string (3, 3) ['\n']] := by rfl

/-- `1;2,` : ends in `,` — a zone stop and no newline item; `;` left no trace -/
example :
    ((Parse.printList 20 20 true []).run
        { toks := [.literal (.integer ['1']), .semicolon, .literal (.integer ['2']), .comma] }).map (·.1) =
      .ok [Expr.integer (0, 1) 1, Expr.integer (2, 3) 2, zoneItem (3, 4)] := by rfl

/-- empty list: just the newline -/
example :
    ((Parse.printList 20 20 true []).run { toks := [] }).map (·.1) = .ok [Expr.string (0, 0) ['\n']] := by rfl

/-- `printList_desugar` applies to `1,2;` (hypotheses satisfiable); its flag says: no newline item -/
example : ∃ N out st', Lemmas.PrintList.Outs
      [.expr (Thm.C02.L 1), .comma, .expr (Thm.C02.L 2), .semi] out ∧ st'.toks = [] ∧
      st'.peeked = none ∧ ∀ fuel, N ≤ fuel → 4 < fuel →
        (Parse.printList fuel fuel true []).run
          { toks := [Thm.C02.T Thm.C02.demoLit 1, .comma, Thm.C02.T Thm.C02.demoLit 2, .semicolon] } =
          .ok (out ++ [], st') :=
  printList_desugar Thm.C02.demoLit [.expr (Thm.C02.L 1), .comma, .expr (Thm.C02.L 2), .semi]
    (by
      intro e he
      simp only [List.mem_cons, Lemmas.PrintList.PItem.expr.injEq, reduceCtorEq, List.not_mem_nil,
        or_false, false_or] at he
      rcases he with rfl | rfl <;> exact .int _ _ (by decide))
    ⟨rfl, ⟨rfl, trivial⟩⟩

example : Lemmas.PrintList.lfAfter true [.expr (Thm.C02.L 1), .comma] = false ∧
    Lemmas.PrintList.lfAfter true [.expr (Thm.C02.L 1), .semi, .expr (Thm.C02.L 2)] = true := ⟨rfl, rfl⟩

/-! ### the PRINT statement, end to end

`Spec.printSpec vars col items` (Spec/PrintStmt.lean) is the documented meaning of `PRINT items` from
cursor column `col`: the texts written (`chunks`, one per writing item), the column afterwards, the
error that stopped the list (if any).  Items: `Spec.PrItem` — a value expression, `;`, `,`, `TAB(e)`,
`SPC(e)`, `POS(e)`; well-formed (`PrItem.Ok`) when the expressions are in the fragment `Spec.Pure`
of `Spec.eval`. -/

section statement
open Spec Lemmas.PrintRun Lemmas.ExprCompile

/-! #### (1) the specification -/

/-- a string is written as is -/
theorem itemText_string (s : Str) : itemText (.str s) = s := rfl

/-- a number is written as `Val.display` — a blank or a minus sign in front (`number_wrapper_partial`,
    `int_display_wrapper`, `float_display_switch`) — followed by one blank -/
theorem itemText_number (v : Val) (hv : v.isNumeric = true) :
    itemText v = v.display ++ [' '] ∧
    ((itemText v).head? = some ' ' ∨ (itemText v).head? = some '-') ∧ (itemText v).getLast? = some ' ' := by
  have h : itemText v = v.display ++ [' '] := by cases v <;> first | rfl | cases hv
  refine ⟨h, ?_, by rw [h]; simp⟩
  rw [h]
  rcases number_wrapper_partial v hv with hd | hd
  · left; cases hv' : v.display with
    | nil => rw [hv'] at hd; cases hd
    | cons c cs => rw [hv'] at hd; simpa using hd
  · right; cases hv' : v.display with
    | nil => rw [hv'] at hd; cases hd
    | cons c cs => rw [hv'] at hd; simpa using hd

/-- the text PRINT writes is the one `doPrint` emits (`print_col_tracks`) -/
theorem itemText_printText (v : Val) : itemText v = printText v := itemText_eq_printText v

/-- `,`: between 1 and 14 blanks, ending on a multiple of the zone width 14 — and this is what the
    generated `TAB(Gen.printZone)` computes from the same column -/
theorem zoneBlanks_spec (col : Nat) :
    1 ≤ (zoneBlanks col).length ∧ (zoneBlanks col).length ≤ 14 ∧ (∀ ch ∈ zoneBlanks col, ch = ' ') ∧
    (col + (zoneBlanks col).length) % 14 = 0 ∧
    columnAfter col (zoneBlanks col) = (col / zoneWidth + 1) * zoneWidth ∧
    Func.tab col (.int Gen.printZone) = .ok (.str (zoneBlanks col)) := by
  refine ⟨?_, ?_, ?_, ?_, ?_, tab_printZone col⟩
  · simp only [zoneBlanks, zoneWidth, List.length_replicate]; omega
  · simp only [zoneBlanks, zoneWidth, List.length_replicate]; omega
  · intro ch h; exact (List.mem_replicate.1 h).2
  · simp only [zoneBlanks, zoneWidth, List.length_replicate]; omega
  · simp only [zoneBlanks]; rw [columnAfter_blanks]; simp only [zoneWidth]; omega

/-- what each kind of item contributes at cursor column `col` — TAB and POS take that column -/
theorem itemVal_cases (vars : Var) (col : Nat) (c : Col) (e : Expr) :
    itemVal vars col (.expr e) = some (eval vars e) ∧
    itemVal vars col .semi = none ∧
    itemVal vars col (.comma c) = some (.ok (.str (zoneBlanks col))) ∧
    itemVal vars col (.tab c e) = some (eval vars e >>= Func.tab col) ∧
    itemVal vars col (.spc c e) = some (eval vars e >>= Func.spc) ∧
    itemVal vars col (.pos c e) = some (eval vars e >>= fun _ => Func.pos col) :=
  ⟨rfl, rfl, rfl, rfl, rfl, rfl⟩

/-- the column of the result is the column function of the transcript -/
theorem printSpec_column (vars : Var) (col : Nat) (items : List PrItem) :
    (printSpec vars col items).col = columnAfter col (printSpec vars col items).text :=
  printSpec_col vars items col

theorem printItems_column (vars : Var) (col : Nat) (items : List PrItem) :
    (printItems vars col items).col = columnAfter col (printItems vars col items).text :=
  printItems_col vars items col

/-- **TAB, SPC and POS act on the true cursor column**: an item that follows the (error-free)
    items `pre` is evaluated at the column function of everything `pre` has written, starting from
    the column the statement found -/
theorem item_sees_cursor (vars : Var) (col : Nat) (pre : List PrItem) (it : PrItem) (rest : List PrItem)
    (h : (printItems vars col pre).err = none) :
    printItems vars col (pre ++ it :: rest) =
      { chunks := (printItems vars col pre).chunks ++
          (printItems vars (columnAfter col (printItems vars col pre).text) (it :: rest)).chunks,
        col := (printItems vars (columnAfter col (printItems vars col pre).text) (it :: rest)).col,
        err := (printItems vars (columnAfter col (printItems vars col pre).text) (it :: rest)).err } := by
  rw [printItems_append, h, ← printItems_col]
  rfl

/-- a trailing `;` or `,` suppresses the newline … -/
theorem printSpec_open (vars : Var) (col : Nat) (items : List PrItem) (h : endsOpen items = true) :
    printSpec vars col items = printItems vars col items := by
  simp [printSpec, h]

/-- … otherwise (and if no item failed) a newline is written last and the column is 0 -/
theorem printSpec_closed (vars : Var) (col : Nat) (items : List PrItem) (h : endsOpen items = false)
    (he : (printItems vars col items).err = none) :
    printSpec vars col items = ⟨(printItems vars col items).chunks ++ [['\n']], 0, none⟩ := by
  simp [printSpec, h, he]

/-- an item that fails stops the list: the error, the texts written before it, no newline -/
theorem printSpec_error (vars : Var) (col : Nat) (items : List PrItem) (e : Error)
    (he : (printItems vars col items).err = some e) :
    printSpec vars col items = printItems vars col items := by
  simp [printSpec, he]

/-- `endsOpen`: the last item is `;` or `,` -/
theorem endsOpen_iff (items : List PrItem) :
    endsOpen items = true ↔ items.getLast? = some .semi ∨ ∃ c, items.getLast? = some (.comma c) := by
  unfold endsOpen
  cases items.getLast? with
  | none => simp
  | some x => cases x <;> simp

/-! #### (2) the desugared list and its code -/

theorem zoneExpr_eq (c : Col) : zoneExpr c = zoneItem c := rfl

/-- the statement node: every item's expression (none for `;`, `TAB(Gen.printZone)` for `,`), then
    the newline item unless the list ends in `;` or `,` -/
theorem printAst_eq (c cn : Col) (items : List PrItem) :
    printAst c cn items =
      .print c (astExprs items ++ if endsOpen items then [] else [Expr.string cn ['\n']]) := by
  unfold printAst fullItems
  split
  · simp
  · rw [astExprs_append]; rfl

/-- **the parser** on `PRINT` followed by trees of the C02 fragment, `,` and `;` yields `printAst`
    of the same list (the trees up to their recorded columns), whose meaning is that of the list
    as written -/
theorem print_parse (lit : Int16 → Str) (items : List Lemmas.PrintList.PItem)
    (hfr : ∀ e, Lemmas.PrintList.PItem.expr e ∈ items → Spec.Frag (Thm.C02.LitOk lit) e)
    (halt : Lemmas.PrintList.Alternating items) :
    ∃ (N : Nat) (c cn : Col) (items' : List PrItem) (st' : PState),
      SameItems items items' ∧ (∀ it ∈ items', it.Ok) ∧
      (∀ vars col, printSpec vars col items' = printSpec vars col (items.map ofPItem)) ∧
      st'.toks = [] ∧ st'.peeked = none ∧
      ∀ fuel, N ≤ fuel → items.length < fuel →
        (Parse.statement (fuel + 1)).run { toks := .word .print :: Lemmas.PrintList.renderItems lit items } =
          .ok (printAst c cn items', st') := by
  obtain ⟨N, c, cn, items', st', hs, h1, h2, hrun⟩ := print_statement_parse lit items hfr halt
  exact ⟨N, c, cn, items', st', hs, sameItem_ok hs hfr,
    fun vars col => printSpec_sameItem vars col hs hfr, h1, h2, hrun⟩

/-- the code: per item its expression's code and `print`; then `literal "\n", print` unless the list
    ends in `;` or `,` -/
theorem stmtCode_items (c : Col) (e : Expr) :
    itemCode (.expr e) = flat e ++ [.print] ∧
    itemCode .semi = [] ∧
    itemCode (.comma c) = [.literal (.int Gen.printZone), .tab, .print] ∧
    itemCode (.tab c e) = flat e ++ [.tab, .print] ∧
    itemCode (.spc c e) = flat e ++ [.spc, .print] ∧
    itemCode (.pos c e) = flat e ++ [.literal (.int 1), .pos, .print] := by
  refine ⟨itemCode_expr e, rfl, rfl, ?_, ?_, ?_⟩
  · rw [itemCode_tab, List.append_assoc]; rfl
  · rw [itemCode_spc, List.append_assoc]; rfl
  · rw [itemCode_pos, List.append_assoc]; rfl

/-- **code generation** (`print_codegen_shape` for a whole list): one statement fragment, no data,
    symbols or references, code `stmtCode items`; nothing reported -/
theorem print_codegen (c cn : Col) (items : List PrItem) (hok : ∀ it ∈ items, it.Ok)
    (s : Codegen.VState) (hlen : (stmtCode items).length ≤ 65535) :
    Codegen.acceptStmt (printAst c cn items) s =
      { s with g := { s.g with stmt := s.g.stmt.push (c, plain (stmtCode items).toArray) } } :=
  print_list_codegen_shape c cn items hok s hlen

/-- the one-item instance is `print_codegen_shape` -/
example (c cn : Col) (e : Expr) :
    printAst c cn [.expr e] = .print c [e, .string cn ['\n']] ∧
    stmtCode [.expr e] = flat e ++ [Opcode.print, .literal (.str ['\n']), .print] := by
  refine ⟨rfl, ?_⟩
  simp [stmtCode, printCode, itemCode_expr, endsOpen]

/-! #### (3) the run -/

/-- **PRINT, run.**  Let the code `stmtCode items` of a well-formed list lie at `s.pc` (trace off,
    room on the stack for the code's length) and let `r = printSpec s.vars s.printCol items`.
    * `r.err = none`: iterating `Runtime.step` over the code (`runCollect`: a `print` event hands its
      text to the accumulator and the run goes on) prints exactly `r.chunks`, in order, and ends —
      every step made — in `s` with `pc` behind the code and `printCol = r.col`; stack, variables
      and all other components are those of `s`;
    * `r.err = some e`: the run stops in exactly `e`, having printed exactly `r.chunks` (the texts of
      the items before the failing one); the state differs from `s` in `pc`, `stack` and
      `printCol = r.col` only — whatever fuel is given beyond the code's length. -/
theorem print_statement_run (env : Env) (hie : Bool) (items : List PrItem) (hok : ∀ it ∈ items, it.Ok)
    (s : Runtime) (hcode : CodeAt s.program.link.ops s.pc (stmtCode items)) (htr : s.tron = false)
    (hroom : s.stack.size + (stmtCode items).length ≤ 65535) :
    ((printSpec s.vars s.printCol items).err = none → ∀ acc,
      runCollect env hie (stmtCode items).length s acc =
        (.done,
         { s with pc := s.pc + (stmtCode items).length, printCol := (printSpec s.vars s.printCol items).col },
         acc ++ (printSpec s.vars s.printCol items).chunks)) ∧
    (∀ e, (printSpec s.vars s.printCol items).err = some e → ∃ (pc' : Nat) (stk' : Array Val),
      ∀ n, (stmtCode items).length ≤ n → ∀ acc,
        runCollect env hie n s acc =
          (.error e,
           { s with pc := pc', stack := stk', printCol := (printSpec s.vars s.printCol items).col },
           acc ++ (printSpec s.vars s.printCol items).chunks)) :=
  ⟨fun he acc => (print_run env hie items hok s hcode htr hroom).done he acc,
   (print_run env hie items hok s hcode htr hroom).2⟩

/-- the run continues with whatever follows the statement: `m` more steps from the final state -/
theorem print_statement_run_then (env : Env) (hie : Bool) (items : List PrItem) (hok : ∀ it ∈ items, it.Ok)
    (s : Runtime) (hcode : CodeAt s.program.link.ops s.pc (stmtCode items)) (htr : s.tron = false)
    (hroom : s.stack.size + (stmtCode items).length ≤ 65535)
    (he : (printSpec s.vars s.printCol items).err = none) (m : Nat) (acc : List Str) :
    runCollect env hie ((stmtCode items).length + m) s acc =
      runCollect env hie m
        { s with pc := s.pc + (stmtCode items).length, printCol := (printSpec s.vars s.printCol items).col }
        (acc ++ (printSpec s.vars s.printCol items).chunks) :=
  (print_run env hie items hok s hcode htr hroom).1 he m acc

/-- **compiled and run**: the node compiles to one fragment whose code is `stmtCode items`, and that
    code, wherever it lies, runs as `printSpec` says -/
theorem print_statement_compiled (env : Env) (hie : Bool) (c cn : Col) (items : List PrItem)
    (hok : ∀ it ∈ items, it.Ok) (vs : Codegen.VState) (hlen : (stmtCode items).length ≤ 65535) :
    ∃ frag : Link,
      (Codegen.acceptStmt (printAst c cn items) vs).g.stmt = vs.g.stmt.push (c, frag) ∧
      (Codegen.acceptStmt (printAst c cn items) vs).errors = vs.errors ∧
      frag.ops = (stmtCode items).toArray ∧
      ∀ (s : Runtime), CodeAt s.program.link.ops s.pc frag.ops.toList → s.tron = false →
        s.stack.size + frag.ops.size ≤ 65535 →
        RunsTo env hie frag.ops.size s (printSpec s.vars s.printCol items) :=
  compilePrint_correct env hie c cn items hok vs hlen

/-- **through `Runtime.execute`** (no failing item): a running machine with no errors among its
    direct statements, called once per text with a quantum that covers the code, returns exactly
    the `print` events of the specification, in order, and is left behind the code -/
theorem print_statement_execute (env : Env) (q : Nat) (items : List PrItem) (hok : ∀ it ∈ items, it.Ok)
    (s : Runtime) (hcode : CodeAt s.program.link.ops s.pc (stmtCode items)) (htr : s.tron = false)
    (hroom : s.stack.size + (stmtCode items).length ≤ 65535)
    (hst : s.state = .running) (hde : s.listing.directErrors.isEmpty = true) (hq : (stmtCode items).length ≤ q)
    (herr : (printSpec s.vars s.printCol items).err = none) (acc : List Str) :
    slices env q (printSpec s.vars s.printCol items).chunks.length s acc =
      ({ s with pc := s.pc + (stmtCode items).length, printCol := (printSpec s.vars s.printCol items).col },
       acc ++ (printSpec s.vars s.printCol items).chunks) :=
  print_run_execute env q items hok s hcode htr hroom hst hde hq herr acc

/-! #### (4) the column is carried across statements -/

/-- **two PRINT statements in sequence** print the texts of the first, then the texts of the second
    *computed from the column the first has left* (`(printSpec … a).col`, which is `columnAfter` of
    the first's transcript: 0 after a newline, the true cursor column after a trailing `;` or `,`) -/
theorem print_carry_over (env : Env) (hie : Bool) (a b : List PrItem)
    (hoka : ∀ it ∈ a, it.Ok) (hokb : ∀ it ∈ b, it.Ok) (s : Runtime)
    (hcode : CodeAt s.program.link.ops s.pc (stmtCode a ++ stmtCode b)) (htr : s.tron = false)
    (hroom : s.stack.size + (stmtCode a ++ stmtCode b).length ≤ 65535)
    (h1 : (printSpec s.vars s.printCol a).err = none)
    (h2 : (printSpec s.vars (printSpec s.vars s.printCol a).col b).err = none) (acc : List Str) :
    runCollect env hie (stmtCode a ++ stmtCode b).length s acc =
      (.done,
       { s with pc := s.pc + (stmtCode a ++ stmtCode b).length,
                printCol := (printSpec s.vars (printSpec s.vars s.printCol a).col b).col },
       acc ++ ((printSpec s.vars s.printCol a).chunks ++
         (printSpec s.vars (printSpec s.vars s.printCol a).col b).chunks)) :=
  print_run_two_done env hie a b hoka hokb s hcode htr hroom h1 h2 acc

/-- the column the second statement starts in is the column function of the first's transcript -/
theorem carried_column (vars : Var) (col : Nat) (a : List PrItem) :
    (printSpec vars col a).col = columnAfter col (printSpec vars col a).text := printSpec_col vars a col

end statement

/-! #### (5) non-vacuity: `PRINT "AB";TAB(5);"C",POS(0)` and friends -/

section demo
open Spec Lemmas.PrintRun Lemmas.ExprCompile

/-- the tokens of `PRINT "AB";TAB(5);"C",POS(0)` -/
def demoToks : List Token :=
  [.word .print, .literal (.string "AB".toList), .semicolon, .ident (.plain "TAB".toList), .lparen,
   .literal (.integer "5".toList), .rparen, .semicolon, .literal (.string "C".toList), .comma,
   .ident (.plain "POS".toList), .lparen, .literal (.integer "0".toList), .rparen]

/-- its items, with the column ranges the parser records -/
def demoItems : List PrItem :=
  [.expr (.string (5, 9) "AB".toList), .semi, .tab (10, 16) (.integer (14, 15) 5), .semi,
   .expr (.string (17, 20) "C".toList), .comma (20, 21), .pos (21, 27) (.integer (25, 26) 0)]

theorem demoItems_ok : ∀ it ∈ demoItems, it.Ok := by
  intro it h
  simp only [demoItems, List.mem_cons, List.not_mem_nil, or_false] at h
  rcases h with rfl | rfl | rfl | rfl | rfl | rfl | rfl <;>
    first | trivial | exact Pure.string _ _ | exact Pure.integer _ _

/-- parser state of the demo: `k` tokens read, look-ahead `pk`, column range `cs..ce` -/
def demoSt (k : Nat) (pk : Option Token) (cs ce : Nat) : Parse.PState :=
  { toks := demoToks.drop k, peeked := pk, cs := cs, ce := ce }

/-- **the parser** builds `printAst` of the demo items: strings, `TAB(5)`, `POS(0)`, `,` as
    `TAB(-14)`, `;` as nothing, the newline item last (every step an evaluation of the model) -/
theorem demo_parse :
    (Parse.statement 21).run { toks := demoToks } =
      .ok (printAst (0, 5) (27, 27) demoItems, demoSt 14 none 27 27) := by
  refine statement_print_step (st1 := demoSt 1 (some (.word .print)) 0 5) (st2 := demoSt 1 none 0 5) rfl rfl ?_
  refine (printList_step_item (t := .literal (.string "AB".toList))
    (st1 := demoSt 2 (some (.literal (.string "AB".toList))) 5 9) (st2 := demoSt 3 (some .semicolon) 9 10)
    (e := .string (5, 9) "AB".toList) rfl rfl nofun nofun rfl).trans ?_
  refine (printList_step_semi (st1 := demoSt 3 (some .semicolon) 9 10) (st2 := demoSt 3 none 9 10) rfl rfl).trans ?_
  refine (printList_step_item (t := .ident (.plain "TAB".toList))
    (st1 := demoSt 4 (some (.ident (.plain "TAB".toList))) 10 13) (st2 := demoSt 8 (some .semicolon) 16 17)
    (e := tabCall (10, 16) (.integer (14, 15) 5)) rfl rfl nofun nofun rfl).trans ?_
  refine (printList_step_semi (st1 := demoSt 8 (some .semicolon) 16 17) (st2 := demoSt 8 none 16 17) rfl rfl).trans ?_
  refine (printList_step_item (t := .literal (.string "C".toList))
    (st1 := demoSt 9 (some (.literal (.string "C".toList))) 17 20) (st2 := demoSt 10 (some .comma) 20 21)
    (e := .string (17, 20) "C".toList) rfl rfl nofun nofun rfl).trans ?_
  refine (printList_step_comma (st1 := demoSt 10 (some .comma) 20 21) (st2 := demoSt 10 none 20 21) rfl rfl).trans ?_
  refine (printList_step_item (t := .ident (.plain "POS".toList))
    (st1 := demoSt 11 (some (.ident (.plain "POS".toList))) 21 24) (st2 := demoSt 14 none 27 27)
    (e := posCall (21, 27) (.integer (25, 26) 0)) rfl rfl nofun nofun rfl).trans ?_
  exact printList_step_end (st1 := demoSt 14 none 27 27) (t := none) rfl rfl

/-- the parsed list, spelled out -/
example : printAst (0, 5) (27, 27) demoItems =
    .print (0, 5) [.string (5, 9) "AB".toList, tabCall (10, 16) (.integer (14, 15) 5), .string (17, 20) "C".toList,
      zoneItem (20, 21), posCall (21, 27) (.integer (25, 26) 0), .string (27, 27) ['\n']] := rfl

/-- **the code** -/
theorem demo_code : stmtCode demoItems =
    [.literal (.str "AB".toList), .print, .literal (.int 5), .tab, .print, .literal (.str "C".toList), .print,
     .literal (.int (-14)), .tab, .print, .literal (.int 0), .literal (.int 1), .pos, .print,
     .literal (.str ['\n']), .print] := rfl

/-- **code generation** on the parsed node: exactly that code, nothing reported -/
example : (Codegen.acceptStmt (printAst (0, 5) (27, 27) demoItems) {}).g.stmt =
      #[((0, 5), plain (stmtCode demoItems).toArray)] ∧
    (Codegen.acceptStmt (printAst (0, 5) (27, 27) demoItems) {}).errors = [] := by
  rw [print_codegen (0, 5) (27, 27) demoItems demoItems_ok {} (by rw [demo_code]; decide)]
  exact ⟨rfl, rfl⟩

/-- **the specification from column 0**: `AB`, three blanks to column 5, `C`, eight blanks to the
    zone stop 14, POS(0) = 14 printed as ` 14 `, newline; column 0 afterwards -/
theorem demo_spec_0 (vars : Var) : printSpec vars 0 demoItems =
    ⟨["AB".toList, "   ".toList, "C".toList, "        ".toList, " 14 ".toList, "\n".toList], 0, none⟩ := rfl

/-- **from column 3**: `AB` ends in column 5, so `TAB(5)` writes nothing; the rest as before -/
theorem demo_spec_3 (vars : Var) : printSpec vars 3 demoItems =
    ⟨["AB".toList, [], "C".toList, "        ".toList, " 14 ".toList, "\n".toList], 0, none⟩ := rfl

/-- POS reads the cursor where it stands: `PRINT "AB";POS(0);` from column 3 prints ` 5 ` and stays
    on the line (column 8); from column 0 it prints ` 2 ` -/
example (vars : Var) (c : Col) :
    printSpec vars 3 [.expr (.string c "AB".toList), .semi, .pos c (.integer c 0), .semi] =
      ⟨["AB".toList, " 5 ".toList], 8, none⟩ ∧
    printSpec vars 0 [.expr (.string c "AB".toList), .semi, .pos c (.integer c 0), .semi] =
      ⟨["AB".toList, " 2 ".toList], 5, none⟩ := ⟨rfl, rfl⟩

/-- numbers: blank or minus sign in front, one blank behind; `,` from column 4 goes to column 14 -/
example (vars : Var) (c : Col) :
    printSpec vars 0 [.expr (.integer c 42), .comma c, .expr (.neg c (.integer c 7))] =
      ⟨[" 42 ".toList, "          ".toList, "-7 ".toList, "\n".toList], 0, none⟩ := rfl

/-- SPC and a zone stop at an exact multiple: from column 14 a `,` writes 14 blanks -/
example (vars : Var) (c : Col) :
    printSpec vars 12 [.spc c (.integer c 2), .comma c] =
      ⟨["  ".toList, List.replicate 14 ' '], 28, none⟩ := rfl

/-- an error stops the list: `PRINT "A";TAB(300);"B"` writes `A`, then OVERFLOW; no newline -/
theorem demo_spec_error (vars : Var) (c : Col) :
    printSpec vars 0 [.expr (.string c "A".toList), .semi, .tab c (.integer c 300), .semi,
      .expr (.string c "B".toList)] = ⟨["A".toList], 1, some (Error.mk' Code.overflow)⟩ := rfl

/-- **the run from column 0**, in any machine state that holds the code at `pc` -/
example (env : Env) (hie : Bool) (s : Runtime)
    (hcode : CodeAt s.program.link.ops s.pc (stmtCode demoItems)) (htr : s.tron = false)
    (hroom : s.stack.size + 16 ≤ 65535) (hcol : s.printCol = 0) :
    runCollect env hie 16 s [] =
      (.done, { s with pc := s.pc + 16, printCol := 0 },
       ["AB".toList, "   ".toList, "C".toList, "        ".toList, " 14 ".toList, "\n".toList]) := by
  have h := (print_statement_run env hie demoItems demoItems_ok s hcode htr hroom).1
  rw [hcol, demo_spec_0] at h
  exact h rfl []

/-- **the run from column 3**: TAB(5) prints the empty text, POS still reports 14 -/
example (env : Env) (hie : Bool) (s : Runtime)
    (hcode : CodeAt s.program.link.ops s.pc (stmtCode demoItems)) (htr : s.tron = false)
    (hroom : s.stack.size + 16 ≤ 65535) (hcol : s.printCol = 3) :
    runCollect env hie 16 s [] =
      (.done, { s with pc := s.pc + 16, printCol := 0 },
       ["AB".toList, [], "C".toList, "        ".toList, " 14 ".toList, "\n".toList]) := by
  have h := (print_statement_run env hie demoItems demoItems_ok s hcode htr hroom).1
  rw [hcol, demo_spec_3] at h
  exact h rfl []

/-- a concrete machine: the demo's code is the whole program, the cursor stands in column `col` -/
def demoRt (col : Nat) : Runtime :=
  { program := { link := { ops := (stmtCode demoItems).toArray } }, printCol := col }

example (env : Env) :
    runCollect env false 16 (demoRt 3) [] =
      (.done, { demoRt 3 with pc := 16, printCol := 0 },
       ["AB".toList, [], "C".toList, "        ".toList, " 14 ".toList, "\n".toList]) := by
  have hcode : CodeAt (demoRt 3).program.link.ops (demoRt 3).pc (stmtCode demoItems) :=
    CodeAt.of_append #[] #[] (stmtCode demoItems)
  have h := (print_statement_run env false demoItems demoItems_ok (demoRt 3) hcode rfl (by decide)).1
  exact h rfl []

/-- **the error case, run**: `A` is printed, then the run stops in OVERFLOW with the cursor in column 1 -/
example (env : Env) (hie : Bool) (s : Runtime) (c : Col)
    (hcode : CodeAt s.program.link.ops s.pc (stmtCode
      [.expr (.string c "A".toList), .semi, .tab c (.integer c 300), .semi, .expr (.string c "B".toList)]))
    (htr : s.tron = false) (hroom : s.stack.size + 9 ≤ 65535) (hcol : s.printCol = 0) :
    ∃ pc' stk', ∀ n, 9 ≤ n →
      runCollect env hie n s [] =
        (.error (Error.mk' Code.overflow), { s with pc := pc', stack := stk', printCol := 1 }, ["A".toList]) := by
  have h := (print_statement_run env hie _ (by
    intro it hit
    simp only [List.mem_cons, List.not_mem_nil, or_false] at hit
    rcases hit with rfl | rfl | rfl | rfl | rfl <;>
      first | trivial | exact Pure.string _ _ | exact Pure.integer _ _) s hcode htr hroom).2
  rw [hcol, demo_spec_error] at h
  obtain ⟨pc', stk', hrun⟩ := h _ rfl
  exact ⟨pc', stk', fun n hn => hrun n hn []⟩

/-- **carry-over**: `PRINT "AB";` then `PRINT POS(0)` from column 0 — the second statement starts in
    column 2 and says so -/
example (env : Env) (hie : Bool) (s : Runtime) (c : Col)
    (hcode : CodeAt s.program.link.ops s.pc
      (stmtCode [.expr (.string c "AB".toList), .semi] ++ stmtCode [.pos c (.integer c 0)]))
    (htr : s.tron = false) (hroom : s.stack.size + 8 ≤ 65535) (hcol : s.printCol = 0) :
    runCollect env hie 8 s [] =
      (.done, { s with pc := s.pc + 8, printCol := 0 }, ["AB".toList, " 2 ".toList, "\n".toList]) := by
  have h := print_carry_over env hie [.expr (.string c "AB".toList), .semi] [.pos c (.integer c 0)]
    (by
      intro it hit
      simp only [List.mem_cons, List.not_mem_nil, or_false] at hit
      rcases hit with rfl | rfl <;> first | trivial | exact Pure.string _ _)
    (by
      intro it hit
      simp only [List.mem_cons, List.not_mem_nil, or_false] at hit
      subst hit; exact Pure.integer _ _)
    s hcode htr hroom
  have e1 : printSpec s.vars 0 [.expr (.string c "AB".toList), .semi] = ⟨["AB".toList], 2, none⟩ := rfl
  have e2 : printSpec s.vars 2 [.pos c (.integer c 0)] = ⟨[" 2 ".toList, "\n".toList], 0, none⟩ := rfl
  rw [hcol, e1] at h
  simp only at h
  rw [e2] at h
  exact h trivial rfl []

end demo

end Thm.C11
end Basic
