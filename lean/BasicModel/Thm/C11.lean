import BasicModel.Model.Runtime
import BasicModel.Model.Parse
import BasicModel.Spec.PrintSpec
import BasicModel.Lemmas.C11
import BasicModel.Thm.C07
import BasicModel.Lemmas.PrintList
/-
  C11 — PRINT lays out output exactly as documented.

  * the number wrapper: a non-negative number is printed with a leading blank, a negative one with
    its minus sign, and PRINT appends one blank after every number (nothing after a string).  For
    Integers the digits are proved to be the decimal digits of |n|; for floats only the *shape* of
    `Val.display` (blank-or-minus in front, the `{}` / `{:E}` switch at more than 9 resp. 17 digits)
    is proved — "shortest decimal that reads back" is `core::fmt`'s contract and stays trusted.
  * zone arithmetic: `,` is `TAB(Gen.printZone)`; from every column it emits between 1 and 14 blanks
    and lands on a multiple of the documented zone width 14.  Stated against the GENERATED constant.
  * TAB / SPC / POS on Integer arguments, all cases (result or the documented OVERFLOW).
  * the column the VM tracks is `Spec.columnAfter` of the emitted text (newline → 0, else +1).
  * the PRINT list desugaring, one unfolding step of `Parse.printList` per kind of token, and the
    whole-list statement `printList_desugar` for lists of C02-fragment expressions, `,` and `;`.
-/
namespace Basic
namespace Thm.C11
open RStd Lemmas.C11

/-! ### the number wrapper -/

/-- Integers: blank or minus sign, then the decimal digits of |n| -/
theorem int_display_wrapper (n : Int16) :
    (0 ≤ n.toInt → Val.display (.int n) = ' ' :: natDigits n.toInt.natAbs) ∧
    (n.toInt < 0 → Val.display (.int n) = '-' :: natDigits n.toInt.natAbs) := by
  constructor
  · intro h
    have hs : showInt n.toInt = natDigits n.toInt.natAbs := by
      rw [showInt, if_neg (by omega)]
    simp only [Val.display, hs]
    rw [if_neg (natDigits_head_ne_minus _)]
  · intro h
    have hs : showInt n.toInt = '-' :: natDigits n.toInt.natAbs := by
      rw [showInt, if_pos h]
    simp only [Val.display, hs]
    rw [if_pos (by rfl)]

/-- everything after the first character of a printed Integer is a decimal digit, and there is at
    least one -/
theorem int_display_digits (n : Int16) :
    (Val.display (.int n)).tail ≠ [] ∧ ∀ ch ∈ (Val.display (.int n)).tail, ch.isDigit = true := by
  by_cases h : 0 ≤ n.toInt
  · rw [(int_display_wrapper n).1 h]
    exact ⟨natDigits_ne_nil _, fun ch hc => natDigits_isDigit hc⟩
  · rw [(int_display_wrapper n).2 (by omega)]
    exact ⟨natDigits_ne_nil _, fun ch hc => natDigits_isDigit hc⟩

/-- the digits Rust's `{}` prints for a Single, switching to `{:E}` when they exceed 9 digits -/
def sngText (b : UInt32) : Str :=
  let s := Fmt.fmtFloat Ieee.fp32 9 b.toNat false
  if Fmt.countDigits s > 9 then Fmt.fmtFloat Ieee.fp32 9 b.toNat true else s

/-- the digits Rust's `{}` prints for a Double, switching to `{:E}` when they exceed 17 digits -/
def dblText (b : UInt64) : Str :=
  let s := Fmt.fmtFloat Ieee.fp64 17 b.toNat false
  if Fmt.countDigits s > 17 then Fmt.fmtFloat Ieee.fp64 17 b.toNat true else s

/-- floats: the formatter's text (positional, or scientific past 9 / 17 digits) as is when it starts
    with a minus sign, behind one blank otherwise -/
theorem float_display_switch :
    (∀ b, Val.display (.sng b) = if (sngText b).head? = some '-' then sngText b else ' ' :: sngText b) ∧
    (∀ b, Val.display (.dbl b) = if (dblText b).head? = some '-' then dblText b else ' ' :: dblText b) :=
  ⟨fun _ => rfl, fun _ => rfl⟩

/-- floats: the printed text starts with a blank or a minus sign (shape of `Val.display` only; the
    digits are `core::fmt`'s and trusted) -/
theorem display_float_wrapper (v : Val) (hv : (∃ b, v = .sng b) ∨ (∃ b, v = .dbl b)) :
    (Val.display v).head? = some ' ' ∨ (Val.display v).head? = some '-' := by
  rcases hv with ⟨b, rfl⟩ | ⟨b, rfl⟩
  · rw [float_display_switch.1]
    by_cases h : (sngText b).head? = some '-'
    · rw [if_pos h]; exact Or.inr h
    · rw [if_neg h]; exact Or.inl rfl
  · rw [float_display_switch.2]
    by_cases h : (dblText b).head? = some '-'
    · rw [if_pos h]; exact Or.inr h
    · rw [if_neg h]; exact Or.inl rfl

/-- every number is printed behind a blank or a minus sign -/
theorem number_wrapper_partial (v : Val) (hv : v.isNumeric = true) :
    (Val.display v).head? = some ' ' ∨ (Val.display v).head? = some '-' := by
  -- missing w.r.t. DESIGN `number_wrapper`: for floats the text after the first character is not
  -- characterised (the digits are the trusted `core::fmt` contract)
  cases v with
  | int n =>
    by_cases h : 0 ≤ n.toInt
    · rw [(int_display_wrapper n).1 h]; exact Or.inl rfl
    · rw [(int_display_wrapper n).2 (by omega)]; exact Or.inr rfl
  | sng b => exact display_float_wrapper _ (Or.inl ⟨b, rfl⟩)
  | dbl b => exact display_float_wrapper _ (Or.inr ⟨b, rfl⟩)
  | str s => cases hv
  | ret a => cases hv
  | nxt a => cases hv

/-! ### the column of the print head -/

theorem columnAfter_append (c : Nat) (a b : Str) :
    Spec.columnAfter c (a ++ b) = Spec.columnAfter (Spec.columnAfter c a) b :=
  Lemmas.C11.columnAfter_append c a b

theorem columnAfter_no_newline (c : Nat) (s : Str) (h : '\n' ∉ s) :
    Spec.columnAfter c s = c + s.length :=
  Lemmas.C11.columnAfter_no_newline c s h

theorem columnAfter_after_newline (c : Nat) (a b : Str) :
    Spec.columnAfter c (a ++ '\n' :: b) = Spec.columnAfter 0 b :=
  Lemmas.C11.columnAfter_after_newline c a b

/-- blanks advance the column by their number -/
theorem columnAfter_blanks (c k : Nat) : Spec.columnAfter c (List.replicate k ' ') = c + k := by
  rw [columnAfter_no_newline, List.length_replicate]
  intro h
  exact absurd (List.mem_replicate.1 h).2 (by decide)

/-- PRINT pops one item, emits its text (`printText`: a string as is, a number followed by one
    blank), sets the tracked column to the true column after that text and changes nothing else -/
theorem print_col_tracks (s : Runtime) (item : Val) (h : s.stack.back? = some item) :
    (Runtime.doPrint.run).run s =
      (.ok (.print (printText item)),
       { s with stack := s.stack.pop, printCol := Spec.columnAfter s.printCol (printText item) }) :=
  doPrint_run s item h

/-- the same with the stack given as `st.push item`: the stack afterwards is `st` -/
theorem print_col_tracks_push (s : Runtime) (st : Array Val) (item : Val) (h : s.stack = st.push item) :
    (Runtime.doPrint.run).run s =
      (.ok (.print (printText item)),
       { s with stack := st, printCol := Spec.columnAfter s.printCol (printText item) }) := by
  rw [print_col_tracks s item (by rw [h]; exact Array.back?_push ..), h, Array.pop_push]

/-- PRINT on an empty stack is the internal UNDERFLOW error and changes nothing -/
theorem print_empty_stack (s : Runtime) (h : s.stack.back? = none) :
    (Runtime.doPrint.run).run s = (.error Runtime.underflow, s) :=
  doPrint_run_empty s h

/-- PRINT appends one blank to a number … -/
theorem print_appends_blank (s : Runtime) (v : Val) (hv : v.isNumeric = true)
    (h : s.stack.back? = some v) :
    (Runtime.doPrint.run).run s =
      (.ok (.print (v.display ++ [' '])),
       { s with stack := s.stack.pop, printCol := Spec.columnAfter s.printCol (v.display ++ [' ']) }) := by
  rw [print_col_tracks s v h]
  cases v <;> first | rfl | cases hv

/-- … and nothing to a string -/
theorem print_string_verbatim (s : Runtime) (str : Str) (h : s.stack.back? = some (.str str)) :
    (Runtime.doPrint.run).run s =
      (.ok (.print str),
       { s with stack := s.stack.pop, printCol := Spec.columnAfter s.printCol str }) :=
  print_col_tracks s (.str str) h

/-- a printed Integer occupies sign + digits + one blank columns -/
theorem print_int_width (c : Nat) (n : Int16) :
    Spec.columnAfter c (printText (.int n)) = c + (natDigits n.toInt.natAbs).length + 2 := by
  have hnl : '\n' ∉ natDigits n.toInt.natAbs := fun h => absurd (natDigits_isDigit h) (by decide)
  have : printText (.int n) = (Val.int n).display ++ [' '] := rfl
  rw [this, columnAfter_append]
  by_cases h : 0 ≤ n.toInt
  · rw [(int_display_wrapper n).1 h]
    simp only [Spec.columnAfter]
    rw [columnAfter_no_newline _ _ hnl]
    simp; omega
  · rw [(int_display_wrapper n).2 (by omega)]
    simp only [Spec.columnAfter]
    rw [columnAfter_no_newline _ _ hnl]
    simp; omega

/-! ### zones, TAB, SPC, POS -/

/-- the generated constant is the documented zone width, negated (the "modulo" form of TAB) -/
theorem printZone_documented : Gen.printZone.toInt = -(Spec.zoneWidth : Int) := by decide

/-- `,` = `TAB(Gen.printZone)`: from every column, 1 to 14 blanks, landing on a multiple of 14 -/
theorem comma_zone (c : Nat) :
    ∃ spaces, Func.tab c (.int Gen.printZone) = .ok (.str spaces) ∧ 1 ≤ spaces.length ∧
      spaces.length ≤ 14 ∧ (∀ ch ∈ spaces, ch = ' ') ∧ (c + spaces.length) % 14 = 0 := by
  have hz : Gen.printZone.toInt = -14 := by decide
  refine ⟨List.replicate (14 - c % 14) ' ', ?_, ?_, ?_, ?_, ?_⟩
  · rw [tab_int, hz]; simp
  · rw [List.length_replicate]; omega
  · rw [List.length_replicate]; omega
  · intro ch h; exact (List.mem_replicate.1 h).2
  · rw [List.length_replicate]; omega

/-- in terms of the print head: after the text of a `,` the column is the start of the next zone -/
theorem comma_zone_column (c : Nat) :
    ∃ spaces, Func.tab c (.int Gen.printZone) = .ok (.str spaces) ∧
      Spec.columnAfter c spaces = (c / Spec.zoneWidth + 1) * Spec.zoneWidth := by
  have hz : Gen.printZone.toInt = -14 := by decide
  refine ⟨List.replicate (14 - c % 14) ' ', ?_, ?_⟩
  · rw [tab_int, hz]; simp
  · rw [columnAfter_blanks]; simp only [Spec.zoneWidth]; omega

/-- `TAB(n)`, 0 ≤ n ≤ 255: blanks up to column n; never moves left -/
theorem tab_moves_or_stays (c : Nat) (n : Int16) (h0 : 0 ≤ n.toInt) (h1 : n.toInt ≤ 255) :
    Func.tab c (.int n) = .ok (.str (List.replicate (max c n.toInt.toNat - c) ' ')) := by
  rw [tab_int, if_neg (by omega), if_neg (by omega)]
  congr 3
  split <;> omega

/-- … so the print head ends in column `max c n` -/
theorem tab_column (c : Nat) (n : Int16) (h0 : 0 ≤ n.toInt) (h1 : n.toInt ≤ 255) :
    ∃ spaces, Func.tab c (.int n) = .ok (.str spaces) ∧
      Spec.columnAfter c spaces = max c n.toInt.toNat :=
  ⟨_, tab_moves_or_stays c n h0 h1, by rw [columnAfter_blanks]; omega⟩

/-- `TAB` outside -255..255 is OVERFLOW -/
theorem tab_overflow (c : Nat) (n : Int16) (h : n.toInt > 255 ∨ n.toInt < -255) :
    Func.tab c (.int n) = err Code.overflow := by
  rw [tab_int, if_pos (by omega)]

/-- the generated TAB bounds are the ones the model's `Func.tab` tests (-255 and 255) -/
theorem tab_bounds_generated : Gen.tabMin = -255 ∧ Gen.tabMax = 255 := ⟨rfl, rfl⟩

/-- `TAB(-k)`, 1 ≤ k ≤ 255: to the next multiple of k (always at least one blank) -/
theorem tab_negative (c : Nat) (n : Int16) (h0 : -255 ≤ n.toInt) (h1 : n.toInt < 0) :
    Func.tab c (.int n) =
      .ok (.str (List.replicate ((-n.toInt).toNat - c % (-n.toInt).toNat) ' ')) := by
  rw [tab_int, if_neg (by omega), if_pos h1]

/-- … the column afterwards is a multiple of k, strictly to the right -/
theorem tab_negative_column (c : Nat) (n : Int16) (h0 : -255 ≤ n.toInt) (h1 : n.toInt < 0) :
    ∃ spaces, Func.tab c (.int n) = .ok (.str spaces) ∧
      Spec.columnAfter c spaces % (-n.toInt).toNat = 0 ∧ c < Spec.columnAfter c spaces := by
  refine ⟨_, tab_negative c n h0 h1, ?_, ?_⟩
  · rw [columnAfter_blanks]
    generalize hk : (-n.toInt).toNat = k
    have hk0 : 0 < k := by omega
    have hlt := Nat.mod_lt c hk0
    have hdm := Nat.div_add_mod c k
    have : c + (k - c % k) = k * (c / k + 1) := by rw [Nat.mul_add]; omega
    rw [this, Nat.mul_mod_right]
  · rw [columnAfter_blanks]
    have hk0 : 0 < (-n.toInt).toNat := by omega
    have := Nat.mod_lt c hk0
    omega

/-- `SPC(n)`: n blanks for 0 ≤ n ≤ 255, OVERFLOW otherwise -/
theorem spc_spec (n : Int16) :
    Func.spc (.int n) =
      if 0 ≤ n.toInt ∧ n.toInt ≤ 255 then .ok (.str (List.replicate n.toInt.toNat ' '))
      else err Code.overflow := by
  by_cases h : 0 ≤ n.toInt
  · simp only [Func.spc, Thm.C07.toUsize_nonneg h, bind, Except.bind]
    by_cases h2 : n.toInt ≤ 255
    · rw [if_neg (by omega), if_pos ⟨h, h2⟩]
    · rw [if_pos (by omega), if_neg (by omega)]
  · simp only [Func.spc, Thm.C07.toUsize_neg h, bind, Except.bind]
    rw [if_neg (by omega)]; rfl

/-- the generated SPC bound is the one `Func.spc` tests -/
theorem spc_bound_generated : Gen.spcMax = 255 := rfl

/-- `POS`: the tracked column as an Integer, OVERFLOW past 32767 -/
theorem pos_spec (c : Nat) :
    (c ≤ 32767 → Func.pos c = .ok (.int (Int16.ofNat c)) ∧ (Int16.ofNat c).toInt = c) ∧
    (¬ c ≤ 32767 → Func.pos c = err Code.overflow) := by
  constructor
  · intro h
    refine ⟨by rw [Func.pos, if_pos h], ?_⟩
    exact Int16.toInt_ofNat_of_lt (by show c < 32768; omega)
  · intro h; rw [Func.pos, if_neg h]

/-! ### the PRINT list -/

open Parse

/-- the item a `,` desugars to, at column range `c` -/
def zoneItem (c : Col) : Expr :=
  Expr.var (.array c (.string "TAB".toList) [Expr.integer c Gen.printZone])

/-- (1) `,` contributes exactly `TAB(Gen.printZone)` and clears the linefeed flag -/
theorem printList_comma (fuel n : Nat) (lf : Bool) (acc : List Expr) (st : PState)
    (h : st.peeked = some .comma) :
    (Parse.printList fuel (n+1) lf acc).run st =
      (Parse.printList fuel n false (acc ++ [zoneItem (st.cs, st.ce)])).run { st with peeked := none } := by
  rw [Parse.printList, run_bind_ok (peek_run h)]
  simp only [isEnd, Bool.false_eq_true, if_false]
  rw [run_bind_ok (next_run h), run_bind_ok (col_run _)]
  rfl

/-- (2) `;` contributes nothing and clears the linefeed flag -/
theorem printList_semicolon (fuel n : Nat) (lf : Bool) (acc : List Expr) (st : PState)
    (h : st.peeked = some .semicolon) :
    (Parse.printList fuel (n+1) lf acc).run st =
      (Parse.printList fuel n false acc).run { st with peeked := none } := by
  rw [Parse.printList, run_bind_ok (peek_run h)]
  simp only [isEnd, Bool.false_eq_true, if_false]
  rw [run_bind_ok (next_run h)]

/-- (3) at a statement terminator (`:` or ELSE peeked) the list is complete; the `"\n"` item is
    appended exactly when the linefeed flag is set; the terminator stays peeked -/
theorem printList_end (fuel n : Nat) (lf : Bool) (acc : List Expr) (st : PState) (t : Token)
    (h : st.peeked = some t) (he : isEnd (some t) = true) :
    (Parse.printList fuel (n+1) lf acc).run st =
      .ok (if lf then acc ++ [Expr.string (st.ce, st.ce) ['\n']] else acc, st) := by
  rw [Parse.printList, run_bind_ok (peek_run h)]
  simp only [he, if_true]
  rw [run_bind_ok (col_run _)]
  cases lf <;> rfl

/-- (3') the same at the end of the line (no token left, nothing peeked) -/
theorem printList_end_of_line (fuel n : Nat) (lf : Bool) (acc : List Expr) (st : PState)
    (hp : st.peeked = none) (ht : st.toks = []) :
    (Parse.printList fuel (n+1) lf acc).run st =
      .ok (if lf then acc ++ [Expr.string (st.ce, st.ce) ['\n']] else acc, { st with cs := st.ce }) := by
  rw [Parse.printList, run_bind_ok (peek_run_nil hp ht)]
  simp only [isEnd, if_true]
  rw [run_bind_ok (col_run _)]
  cases lf <;> rfl

/-- (3'') "iff": at a terminator the result ends in the newline item exactly when the flag is set -/
theorem printList_end_newline_iff (fuel n : Nat) (lf : Bool) (acc : List Expr) (st : PState) (t : Token)
    (h : st.peeked = some t) (he : isEnd (some t) = true) :
    ((Parse.printList fuel (n+1) lf acc).run st =
        .ok (acc ++ [Expr.string (st.ce, st.ce) ['\n']], st)) ↔ lf = true := by
  rw [printList_end fuel n lf acc st t h he]
  cases lf
  · simp only [Bool.false_eq_true, if_false, iff_false]
    intro hh
    have hl : acc.length = (acc ++ [Expr.string (st.ce, st.ce) ['\n']]).length := by
      injection hh with hh
      exact congrArg List.length (congrArg Prod.fst hh)
    simp at hl
  · simp

/-- (4) anything else starts an expression item; after it the linefeed flag is set -/
theorem printList_item (fuel n : Nat) (lf : Bool) (acc : List Expr) (st : PState) (t : Token)
    (h : st.peeked = some t) (he : isEnd (some t) = false) (h1 : t ≠ .semicolon) (h2 : t ≠ .comma) :
    (Parse.printList fuel (n+1) lf acc).run st =
      (do let e ← Parse.expression fuel; Parse.printList fuel n true (acc ++ [e])).run st := by
  rw [Parse.printList, run_bind_ok (peek_run h)]
  simp only [he, Bool.false_eq_true, if_false]
  cases t <;> first | rfl | contradiction

/-- (4') with the parsed expression at hand -/
theorem printList_item_ok (fuel n : Nat) (lf : Bool) (acc : List Expr) (st st' : PState) (t : Token) (e : Expr)
    (h : st.peeked = some t) (he : isEnd (some t) = false) (h1 : t ≠ .semicolon) (h2 : t ≠ .comma)
    (hx : (Parse.expression fuel).run st = .ok (e, st')) :
    (Parse.printList fuel (n+1) lf acc).run st = (Parse.printList fuel n true (acc ++ [e])).run st' := by
  rw [printList_item fuel n lf acc st t h he h1 h2, run_bind_ok hx]

/-- (4'') a syntax error in the item is the error of the list -/
theorem printList_item_error (fuel n : Nat) (lf : Bool) (acc : List Expr) (st : PState) (t : Token) (e : Error)
    (h : st.peeked = some t) (he : isEnd (some t) = false) (h1 : t ≠ .semicolon) (h2 : t ≠ .comma)
    (hx : (Parse.expression fuel).run st = .error e) :
    (Parse.printList fuel (n+1) lf acc).run st = .error e := by
  rw [printList_item fuel n lf acc st t h he h1 h2, run_bind_error hx]

/-- The desugaring of the PRINT list, one step of `Parse.printList` per kind of look-ahead token:
    `,` adds `TAB(Gen.printZone)`, `;` adds nothing, both clear the linefeed flag; an item sets it;
    at the end the `"\n"` item is appended iff the flag is set (the statement parser starts with the
    flag set, `Parse.statement`: `printList fuel fuel true []`).

    Partial: these are the step equations only (any tokens, any expressions); the whole-list
    statement is `printList_desugar` below, for lists whose expression items are in the fragment
    of `Thm.C02.parse_render` (Integer literals, unary minus, NOT, the 18 binary operators). -/
theorem printList_desugar_partial (fuel n : Nat) (lf : Bool) (acc : List Expr) (st : PState) :
    (st.peeked = some .comma →
      (Parse.printList fuel (n+1) lf acc).run st =
        (Parse.printList fuel n false (acc ++ [zoneItem (st.cs, st.ce)])).run { st with peeked := none }) ∧
    (st.peeked = some .semicolon →
      (Parse.printList fuel (n+1) lf acc).run st =
        (Parse.printList fuel n false acc).run { st with peeked := none }) ∧
    (∀ t, st.peeked = some t → isEnd (some t) = true →
      (Parse.printList fuel (n+1) lf acc).run st =
        .ok (if lf then acc ++ [Expr.string (st.ce, st.ce) ['\n']] else acc, st)) ∧
    (∀ t, st.peeked = some t → isEnd (some t) = false → t ≠ .semicolon → t ≠ .comma →
      (Parse.printList fuel (n+1) lf acc).run st =
        (do let e ← Parse.expression fuel; Parse.printList fuel n true (acc ++ [e])).run st) :=
  ⟨printList_comma fuel n lf acc st, printList_semicolon fuel n lf acc st,
   fun t => printList_end fuel n lf acc st t, fun t => printList_item fuel n lf acc st t⟩

/-- the zone item carries the generated constant, i.e. `TAB(-14)` -/
theorem zoneItem_documented (c : Col) :
    zoneItem c = Expr.var (.array c (.string ['T', 'A', 'B']) [Expr.integer c (-14)]) := rfl


/-! ### the whole PRINT list -/

section whole_list
open Lemmas.PrintList

theorem zoneItem_eq (c : Col) : Lemmas.PrintList.zoneItem c = zoneItem c := rfl

/-- **PRINT list desugaring, whole list.**  Take any list of items — expressions of the C02
    fragment, `,`, `;` — in which every expression is followed by something that is not a binary
    operator (`Sep`; e.g. no two expressions side by side, `Alternating`), rendered without blanks
    and followed by a statement terminator `t'` (end of line, `:` or ELSE).  For all sufficiently
    large fuel, `printList` started with linefeed flag `lf` returns `acc` followed by: for every
    expression a tree of the same shape, for every `,` exactly `TAB(Gen.printZone)`, for every `;`
    nothing, in order (`Outs`); then the `"\n"` item iff `lfAfter lf items`, i.e. iff the list does
    not end in `;` or `,` (`lfAfter_eq`); and it leaves exactly `t'` unread. -/
theorem printList_desugar_then (lit : Int16 → Str) (t' : List Token) (hend : EndTok t')
    (items : List PItem) (st : PState) (lf : Bool) (acc : List Expr)
    (hg : Lemmas.ParseExpr.Good st)
    (hv : Lemmas.ParseExpr.view st = renderItems lit items ++ t')
    (hfr : ∀ e, PItem.expr e ∈ items → Spec.Frag (Thm.C02.LitOk lit) e)
    (hsep : Sep lit t' items) :
    ∃ N out st', Outs items out ∧ Lemmas.ParseExpr.Good st' ∧ Lemmas.ParseExpr.view st' = t' ∧
      ∀ fuel n, N ≤ fuel → items.length < n →
        (Parse.printList fuel n lf acc).run st =
          .ok (acc ++ out ++ (if lfAfter lf items then [Expr.string (st'.ce, st'.ce) ['\n']] else []),
               st') :=
  printList_spec lit t' hend items st lf acc hg hv hfr hsep

/-- the statement-level instance: `PRINT <items>` up to the end of the line, as `Parse.statement`
    calls it (`printList fuel fuel true []`) -/
theorem printList_desugar (lit : Int16 → Str) (items : List PItem)
    (hfr : ∀ e, PItem.expr e ∈ items → Spec.Frag (Thm.C02.LitOk lit) e)
    (halt : Alternating items) :
    ∃ N out st', Outs items out ∧ st'.toks = [] ∧ st'.peeked = none ∧
      ∀ fuel, N ≤ fuel → items.length < fuel →
        (Parse.printList fuel fuel true []).run { toks := renderItems lit items } =
          .ok (out ++ (if lfAfter true items then [Expr.string (st'.ce, st'.ce) ['\n']] else []),
               st') := by
  have hend : EndTok [] := rfl
  obtain ⟨N, out, st', hout, _, hv, hrun⟩ :=
    printList_desugar_then lit [] hend items { toks := renderItems lit items } true []
      ⟨rfl, renderItems_plain lit items⟩ (by simp [Lemmas.ParseExpr.view]) hfr
      (sep_of_alternating lit hend items halt)
  refine ⟨N, out, st', hout, ?_, ?_, fun fuel hf hn => by simpa using hrun fuel fuel hf hn⟩
  all_goals
    unfold Lemmas.ParseExpr.view at hv
    cases hpk : st'.peeked with
    | some t => rw [hpk] at hv; cases hv
    | none => first | rfl | (rw [hpk] at hv; exact hv)

/-- the newline item is appended iff the list does not end in `;` or `,` -/
theorem newline_iff_not_trailing_separator (items : List PItem) :
    lfAfter true items = (match items.getLast? with
      | none => true
      | some (.expr _) => true
      | some _ => false) :=
  lfAfter_eq true items

/-- each item's contribution, read off `Outs`: the number of parsed items is the number of
    expressions and commas -/
theorem outs_length {items : List PItem} {out : List Expr} (h : Outs items out) :
    out.length = (items.filter fun i => match i with | .semi => false | _ => true).length := by
  induction h with
  | nil => rfl
  | cons hi _ ih =>
    cases hi <;> simp [List.filter, ih]

end whole_list

/-! ### non-vacuity: concrete instances -/

example : Val.display (.int 42) = [' ', '4', '2'] := by
  rw [(int_display_wrapper 42).1 (by decide), natDigits_eq]; rfl
example : Val.display (.int (-7)) = ['-', '7'] := by
  rw [(int_display_wrapper (-7)).2 (by decide), natDigits_eq]; rfl
example : Val.display (.int 0) = [' ', '0'] := by
  rw [(int_display_wrapper 0).1 (by decide), natDigits_eq]; rfl

example : Spec.columnAfter 3 ['a', 'b', '\n', 'c', 'd'] = 2 := by decide
example : Spec.columnAfter 3 ['a', 'b'] = 5 := by decide

example : Func.tab 0 (.int Gen.printZone) = .ok (.str (List.replicate 14 ' ')) := by decide
example : Func.tab 13 (.int Gen.printZone) = .ok (.str [' ']) := by decide
example : Func.tab 14 (.int Gen.printZone) = .ok (.str (List.replicate 14 ' ')) := by decide
example : Func.tab 3 (.int 10) = .ok (.str (List.replicate 7 ' ')) := by decide
example : Func.tab 12 (.int 10) = .ok (.str []) := by decide
example : Func.tab 7 (.int (-5)) = .ok (.str (List.replicate 3 ' ')) := by decide
example : Func.tab 0 (.int 256) = err Code.overflow := by decide
example : Func.tab 0 (.int (-256)) = err Code.overflow := by decide
example : Func.spc (.int 3) = .ok (.str [' ', ' ', ' ']) := by decide
example : Func.spc (.int (-1)) = err Code.overflow := by decide
example : Func.spc (.int 256) = err Code.overflow := by decide
example : Func.pos 17 = .ok (.int 17) := by decide
example : Func.pos 32768 = err Code.overflow := by decide

/-- PRINT of the string "hi" from column 3: the event carries the text, the column is 5 -/
example :
    (Runtime.doPrint.run).run { stack := #[.int 1, .str ['h', 'i']], printCol := 3 } =
      (.ok (.print ['h', 'i']), { stack := #[.int 1], printCol := 5 }) := by
  rw [print_col_tracks_push _ #[.int 1] (.str ['h', 'i']) rfl]; rfl

/-- PRINT of the Integer 42 from column 0: " 42 " and column 4 -/
example :
    (Runtime.doPrint.run).run { stack := #[.int 42] } =
      (.ok (.print [' ', '4', '2', ' ']), { stack := #[], printCol := 4 }) := by
  have hd : Val.display (.int 42) = [' ', '4', '2'] := by
    rw [(int_display_wrapper 42).1 (by decide), natDigits_eq]; rfl
  rw [print_col_tracks_push _ #[] (.int 42) rfl]
  simp only [printText, hd]; rfl

/-- `1,2;` : three items (1, TAB(-14), 2) and no newline item -/
example :
    ((Parse.printList 20 20 true []).run
        { toks := [.literal (.integer ['1']), .comma, .literal (.integer ['2']), .semicolon] }).map (·.1) =
      .ok [Expr.integer (0, 1) 1, zoneItem (1, 2), Expr.integer (2, 3) 2] := by rfl

/-- `1,2` : the same three items and the newline item -/
example :
    ((Parse.printList 20 20 true []).run
        { toks := [.literal (.integer ['1']), .comma, .literal (.integer ['2'])] }).map (·.1) =
      .ok [Expr.integer (0, 1) 1, zoneItem (1, 2), Expr.integer (2, 3) 2, Expr.string (3, 3) ['\n']] := by rfl

/-- `1;2,` : ends in `,` — a zone stop and no newline item; `;` left no trace -/
example :
    ((Parse.printList 20 20 true []).run
        { toks := [.literal (.integer ['1']), .semicolon, .literal (.integer ['2']), .comma] }).map (·.1) =
      .ok [Expr.integer (0, 1) 1, Expr.integer (2, 3) 2, zoneItem (3, 4)] := by rfl

/-- empty list: just the newline -/
example :
    ((Parse.printList 20 20 true []).run { toks := [] }).map (·.1) = .ok [Expr.string (0, 0) ['\n']] := by rfl

/-- `printList_desugar` applies to `1,2;` (hypotheses satisfiable); its flag says: no newline item -/
example : ∃ N out st', Lemmas.PrintList.Outs
      [.expr (Thm.C02.L 1), .comma, .expr (Thm.C02.L 2), .semi] out ∧ st'.toks = [] ∧
      st'.peeked = none ∧ ∀ fuel, N ≤ fuel → 4 < fuel →
        (Parse.printList fuel fuel true []).run
          { toks := [Thm.C02.T Thm.C02.demoLit 1, .comma, Thm.C02.T Thm.C02.demoLit 2, .semicolon] } =
          .ok (out ++ [], st') :=
  printList_desugar Thm.C02.demoLit [.expr (Thm.C02.L 1), .comma, .expr (Thm.C02.L 2), .semi]
    (by
      intro e he
      simp only [List.mem_cons, Lemmas.PrintList.PItem.expr.injEq, reduceCtorEq, List.not_mem_nil,
        or_false, false_or] at he
      rcases he with rfl | rfl <;> exact .int _ _ (by decide))
    ⟨rfl, ⟨rfl, trivial⟩⟩

example : Lemmas.PrintList.lfAfter true [.expr (Thm.C02.L 1), .comma] = false ∧
    Lemmas.PrintList.lfAfter true [.expr (Thm.C02.L 1), .semi, .expr (Thm.C02.L 2)] = true := ⟨rfl, rfl⟩

end Thm.C11
end Basic
