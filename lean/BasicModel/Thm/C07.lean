import BasicModel.Gen.Limits
import BasicModel.Model.Func
import BasicModel.Spec.StrSpec
/-
  C07 — string operations work on characters, as documented, within 0..255.

  Strings are `List Char` in the model, so "counts in characters / never splits a character" is
  built into the types *of the model*; that the Rust code (which slices UTF-8 at byte offsets taken
  from `char_indices`) agrees is the job of the correspondence, which runs every function over a
  grid of 1-, 2-, 3- and 4-byte characters.  The theorems give, for all strings and all Integer
  arguments, the exact documented result or the documented error.
-/
namespace Basic
namespace Thm.C07

theorem toUsize_nonneg {n : Int16} (h : 0 ≤ n.toInt) : (Val.int n).toUsize = .ok n.toInt.toNat := by
  simp only [Val.toUsize, Val.toUnsigned, ge_iff_le, h, if_true]

theorem toUsize_neg {n : Int16} (h : ¬ 0 ≤ n.toInt) : (Val.int n).toUsize = err Code.overflow := by
  simp only [Val.toUsize, Val.toUnsigned, ge_iff_le, h, if_false]

theorem toU16_nonneg {n : Int16} (h : 0 ≤ n.toInt) : (Val.int n).toU16 = .ok n.toInt.toNat := by
  simp only [Val.toU16, Val.toUnsigned, ge_iff_le, h, if_true]

/-- LEFT$ = `take`; a negative count is OVERFLOW -/
theorem left_spec (s : Str) (n : Int16) :
    Func.left (.str s) (.int n) =
      if 0 ≤ n.toInt then .ok (.str (Spec.left s n.toInt.toNat)) else err Code.overflow := by
  by_cases h : 0 ≤ n.toInt
  · rw [if_pos h, Func.left, toUsize_nonneg h]; rfl
  · rw [if_neg h, Func.left, toUsize_neg h]; rfl

/-- RIGHT$ = `drop (length - n)`; a negative count is OVERFLOW -/
theorem right_spec (s : Str) (n : Int16) :
    Func.right (.str s) (.int n) =
      if 0 ≤ n.toInt then .ok (.str (Spec.right s n.toInt.toNat)) else err Code.overflow := by
  by_cases h : 0 ≤ n.toInt
  · rw [if_pos h, Func.right, toUsize_nonneg h]
    show (if n.toInt.toNat = 0 then _ else _) = _
    by_cases h0 : n.toInt.toNat = 0
    · rw [if_pos h0, Spec.right, h0]; simp
    · rw [if_neg h0]; rfl
  · rw [if_neg h, Func.right, toUsize_neg h]; rfl

/-- MID$(s,p): position 0 and negative positions are OVERFLOW, otherwise the tail from p -/
theorem mid2_spec (s : Str) (p : Int16) :
    Func.mid [.str s, .int p] =
      if 0 < p.toInt then .ok (.str (Spec.mid s p.toInt.toNat none)) else err Code.overflow := by
  show (do
    let pos ← (Val.int p).toUsize
    if pos = 0 then err Code.overflow
    else do
      let string ← (Val.str s).toStr
      Except.ok (Val.str (string.drop (pos - 1)))) = _
  by_cases h : 0 ≤ p.toInt
  · rw [toUsize_nonneg h]
    show (if p.toInt.toNat = 0 then _ else _) = _
    by_cases h0 : p.toInt.toNat = 0
    · rw [if_pos h0, if_neg (by omega)]
    · rw [if_neg h0, if_pos (by omega)]; rfl
  · rw [toUsize_neg h, if_neg (by omega)]; rfl

/-- MID$(s,p,l) = `(drop (p-1)).take l` -/
theorem mid3_spec (s : Str) (p l : Int16) (hl : 0 ≤ l.toInt) :
    Func.mid [.str s, .int p, .int l] =
      if 0 < p.toInt then .ok (.str (Spec.mid s p.toInt.toNat (some l.toInt.toNat))) else err Code.overflow := by
  show (do
    let n ← (Val.int l).toU16
    let pos ← (Val.int p).toUsize
    if pos = 0 then err Code.overflow
    else do
      let string ← (Val.str s).toStr
      Except.ok (Val.str ((string.drop (pos - 1)).take n))) = _
  rw [toU16_nonneg hl]
  by_cases h : 0 ≤ p.toInt
  · show (do
      let pos ← (Val.int p).toUsize
      if pos = 0 then err Code.overflow
      else do
        let string ← (Val.str s).toStr
        Except.ok (Val.str ((string.drop (pos - 1)).take l.toInt.toNat))) = _
    rw [toUsize_nonneg h]
    show (if p.toInt.toNat = 0 then _ else _) = _
    by_cases h0 : p.toInt.toNat = 0
    · rw [if_pos h0, if_neg (by omega)]
    · rw [if_neg h0, if_pos (by omega)]; rfl
  · show (do
      let pos ← (Val.int p).toUsize
      if pos = 0 then err Code.overflow
      else do
        let string ← (Val.str s).toStr
        Except.ok (Val.str ((string.drop (pos - 1)).take l.toInt.toNat))) = _
    rw [toUsize_neg h, if_neg (by omega)]; rfl

/-- the model's substring search is the least-offset search of the specification -/
theorem findSub_spec (pat : Str) : ∀ (x : Str) (i : Nat),
    Func.findSub pat x i =
      ((List.range (x.length + 1)).find? (fun k => Spec.occursAt x pat k)).map (· + i)
  | [], i => by
    simp only [Func.findSub, List.length_nil, Nat.zero_add, List.range_one, Spec.occursAt, List.drop_nil]
    cases pat <;> simp [List.find?, List.isPrefixOf]
  | c :: cs, i => by
    have ih := findSub_spec pat cs (i + 1)
    simp only [Func.findSub]
    rw [show (c :: cs).length + 1 = (cs.length + 1) + 1 from rfl, List.range_succ_eq_map, List.find?_cons]
    simp only [Spec.occursAt, List.drop_zero]
    by_cases h : pat.isPrefixOf (c :: cs) = true
    · simp [h]
    · simp only [h, Bool.false_eq_true, if_false, ih, List.find?_map]
      simp only [Option.map_map]
      congr 1
      funext k; simp [Nat.add_comm, Nat.add_left_comm]

/-- LEN counts characters; a string longer than 32767 characters would be OVERFLOW -/
theorem len_spec (s : Str) (h : s.length ≤ 32767) :
    Func.len (.str s) = .ok (.int (Int16.ofNat s.length)) := by
  simp [Func.len, Val.toStr, bind, Except.bind, Val.ofUsize, h]

/-- concatenation is list append -/
theorem concat_spec (a b : Str) : Ops.sum (.str a) (.str b) = .ok (.str (a ++ b)) := rfl

/-- SPC(n) / STRING$(n, c): n copies; more than 255 is OVERFLOW -/
theorem spc_spec (n : Int16) (h : 0 ≤ n.toInt) :
    Func.spc (.int n) = if n.toInt.toNat > 255 then err Code.overflow
      else .ok (.str (List.replicate n.toInt.toNat ' ')) := by
  rw [Func.spc, toUsize_nonneg h]
  show (if n.toInt.toNat > 255 then _ else _) = _
  split <;> rfl

theorem string_spec (n : Int16) (c : Char) (rest : Str) (h : 0 ≤ n.toInt) :
    Func.string (.int n) (.str (c :: rest)) = if n.toInt.toNat > 255 then err Code.overflow
      else .ok (.str (List.replicate n.toInt.toNat c)) := by
  rw [Func.string, toUsize_nonneg h]
  show (if n.toInt.toNat > 255 then _ else _) = _
  split <;> rfl

/-- ASC of a non-empty string is the code point of its first character (as an Integer when it fits) -/
theorem asc_spec (c : Char) (rest : Str) (h : c.toNat ≤ 32767) :
    Func.asc (.str (c :: rest)) = .ok (.int (Int16.ofNat c.toNat)) := by
  simp [Func.asc, Val.toStr, bind, Except.bind, h]

theorem asc_empty : Func.asc (.str []) = err Code.illegalFunctionCall := rfl

/-- comparison is lexicographic by code point; `<` and `>=` are complementary on strings -/
theorem compare_total (a b : Str) :
    Ops.less (.str a) (.str b) = .ok (Ops.truth (RStd.strLt a b)) ∧
    Ops.greaterEqual (.str a) (.str b) = .ok (Ops.truth (!RStd.strLt a b)) := by
  constructor <;> simp [Ops.less, Ops.greaterEqual, Ops.lessBool, Ops.lessEqualBool, RStd.strLe, bind, Except.bind, pure, Except.pure]

theorem strLt_irrefl : ∀ a : Str, RStd.strLt a a = false
  | [] => rfl
  | c :: cs => by simp [RStd.strLt, strLt_irrefl cs]

/-- the unsigned conversions fail only with OVERFLOW or TYPE MISMATCH -/
theorem toUnsigned_err (a b c : Nat) (v : Val) (e : Error) (h : Val.toUnsigned a b c v = .error e) :
    e.code = Code.overflow ∨ e.code = Code.typeMismatch := by
  cases v with
  | int n =>
    simp only [Val.toUnsigned] at h
    split at h
    · cases h
    · injection h with h; subst h; exact .inl rfl
  | sng bits =>
    simp only [Val.toUnsigned] at h
    cases hz : Val.floorZ (.sng bits) with
    | none => rw [hz] at h; injection h with h; subst h; exact .inl rfl
    | some z =>
      rw [hz] at h; simp only at h
      split at h
      · cases h
      · injection h with h; subst h; exact .inl rfl
  | dbl bits =>
    simp only [Val.toUnsigned] at h
    cases hz : Val.floorZ (.dbl bits) with
    | none => rw [hz] at h; injection h with h; subst h; exact .inl rfl
    | some z =>
      rw [hz] at h; simp only at h
      split at h
      · cases h
      · injection h with h; subst h; exact .inl rfl
  | str _ => simp only [Val.toUnsigned] at h; injection h with h; subst h; exact .inr rfl
  | ret _ => simp only [Val.toUnsigned] at h; injection h with h; subst h; exact .inr rfl
  | nxt _ => simp only [Val.toUnsigned] at h; injection h with h; subst h; exact .inr rfl

/-- LEFT$ never faults: for every argument value it returns a string or OVERFLOW / TYPE MISMATCH -/
theorem no_fault_left (s : Str) (n : Val) (e : Error) (h : Func.left (.str s) n = .error e) :
    e.code = Code.overflow ∨ e.code = Code.typeMismatch := by
  simp only [Func.left, bind, Except.bind] at h
  cases hu : n.toUsize with
  | error e' =>
    rw [hu] at h; simp only at h
    injection h with h; subst h
    exact toUnsigned_err _ _ _ n e' hu
  | ok k => rw [hu] at h; simp [Val.toStr, pure, Except.pure] at h

/-! non-vacuity (multi-byte characters count as one) -/
example : Func.left (.str "日本語".toList) (.int 2) = .ok (.str "日本".toList) := by decide
example : Func.right (.str "éa😀".toList) (.int 1) = .ok (.str "😀".toList) := by decide
example : Func.mid [.str "abc".toList, .int 4] = .ok (.str []) := by decide
example : Func.mid [.str "abc".toList, .int 0] = err Code.overflow := by decide
example : Func.mid [.str "aébc".toList, .int 2, .int 2] = .ok (.str "éb".toList) := by decide
example : Func.instr [.str "abc".toList, .str "z".toList] = .ok (.int 0) := by decide
example : Func.instr [.int 5, .str "abcdeb".toList, .str "b".toList] = .ok (.int 6) := by decide
example : Func.instr [.int (-1), .str "abc".toList, .str "b".toList] = err Code.illegalFunctionCall := by decide
example : Func.left (.str "abc".toList) (.int (-1)) = err Code.overflow := by decide
example : Func.spc (.int 256) = err Code.overflow := by decide

/-- the 255-character limits re-extracted from var.rs, parse.rs and function.rs; `Gen/Limits.lean` is regenerated from /repo/src on every run, so editing one of these
    constants in the Rust source breaks this obligation -/
theorem generated_limits_documented : Gen.stringMaxLen = 255 ∧ Gen.literalMaxLen = 255 ∧ Gen.spcMax = 255 ∧ Gen.stringFnMax = 255 := by decide

end Thm.C07
end Basic
