import BasicModel.Model.Val
/-
  Specification of variable memory as property C06 states it — an abstract typed store, written
  independently of `Model/Var.lean` (it shares only the value layer `Val` and its numeric
  conversions, which C08 covers):

  * every name has a type: its suffix (`$ ! # %`) or else the DEFtype of its first letter;
  * a scalar is a total map name → value: unassigned names read as 0 / "" of their type;
    an assignment converts to the type of the name (numeric ↔ string is TYPE MISMATCH, a float that
    does not fit an Integer is OVERFLOW, a string longer than 255 is STRING TOO LONG);
  * an array has declared bounds (one per dimension) and a map from index lists to values; its first
    use declares it with bound 10 in every dimension; an access needs exactly as many subscripts
    as dimensions, each in 0..bound; any other list of numbers (negative, beyond the bound, beyond
    the Integer range, NaN, infinite, wrong count) is SUBSCRIPT OUT OF RANGE; a declared bound is an
    Integer (0..32767); DIM of a declared array is REDIMENSIONED ARRAY; ERASE forgets declaration and elements (ILLEGAL FUNCTION CALL when not
    declared); scalars, arrays and elements are separate maps (no sharing by construction).

  Not specified here (the finder's scripts avoid it, see `harness/src/varlayer.rs::gen_spec_script`):
  DEFtype while an undecorated variable or element holds a value (the property does not say what
  happens to it), names whose first character is not `A`..`Z`, `Return`/`Next` values, the pool limit,
  and which of TYPE MISMATCH / SUBSCRIPT OUT OF RANGE is reported when a subscript list contains both a
  string and a number beyond the Integer range.
  Errors are bare codes; the sign of a float zero is not observed.
-/
namespace Basic
namespace Spec

inductive STy where | int | sng | dbl | str
deriving DecidableEq, Repr

def STy.zero : STy → Val
  | .int => .int 0 | .sng => .sng 0 | .dbl => .dbl 0 | .str => .str []

structure VStore where
  deftype : Nat → STy := fun _ => .sng
  scalar : Str → Option Val := fun _ => none
  bounds : Str → Option (List Int) := fun _ => none
  element : Str → List Int → Option Val := fun _ _ => none

abbrev SRes (α : Type) := Except Nat α

def typeOfName (s : VStore) (name : Str) : STy :=
  match name.reverse with
  | '$' :: _ => .str
  | '!' :: _ => .sng
  | '#' :: _ => .dbl
  | '%' :: _ => .int
  | _ => match name with
    | c :: _ => s.deftype (c.toNat - 65)
    | [] => .sng

/-- assignment conversion to the type of the variable -/
def convert (t : STy) (v : Val) : SRes Val :=
  match t, v with
  | .str, .str x => if x.length > 255 then .error Code.stringTooLong else .ok v
  | .str, _ => .error Code.typeMismatch
  | _, .str _ => .error Code.typeMismatch
  | .int, x => match x.toI16 with
    | .ok n => .ok (.int n)
    | .error e => .error e.code
  | .sng, x => match x.toF32 with
    | .ok y => .ok (.sng (F.b32 y))
    | .error e => .error e.code
  | .dbl, x => match x.toF64 with
    | .ok y => .ok (.dbl (F.b64 y))
    | .error e => .error e.code

def fetch (s : VStore) (name : Str) : Val :=
  match s.scalar name with
  | some v => v
  | none => (typeOfName s name).zero

def store (s : VStore) (name : Str) (v : Val) : SRes VStore := do
  let x ← convert (typeOfName s name) v
  .ok { s with scalar := fun n => if n = name then some x else s.scalar n }

/-- a subscript as a mathematical integer: ⌊x⌋ -/
def subscript : Val → SRes Int
  | .int n => .ok n.toInt
  | .str _ => .error Code.typeMismatch
  | x => match x.floorZ with
    | some z => .ok z
    | none => .error Code.subscriptOutOfRange

/-- subscripts left to right: each must be a number whose value is a non-negative Integer
    (0..32767); a number outside that can be in no array's bounds and is rejected on the spot, before
    an undeclared array is declared by this use -/
def subscripts : List Val → SRes (List Int)
  | [] => .ok []
  | x :: r => do
    let z ← subscript x
    if z < 0 ∨ z > 32767 then .error Code.subscriptOutOfRange
    else do
      let rest ← subscripts r
      .ok (z :: rest)

def inBounds : List Int → List Int → Bool
  | [], [] => true
  | i :: is, b :: bs => decide (0 ≤ i ∧ i ≤ b) && inBounds is bs
  | _, _ => false

/-- an array access: declares on first use; the store is returned in every case because the
    declaration is part of "first use" -/
def access (s : VStore) (name : Str) (idx : List Val) : VStore × SRes (List Int) :=
  match subscripts idx with
  | .error c => (s, .error c)
  | .ok is =>
    let (s', bs) := match s.bounds name with
      | some bs => (s, bs)
      | none =>
        let bs := List.replicate is.length (10 : Int)
        ({ s with bounds := fun n => if n = name then some bs else s.bounds n }, bs)
    if inBounds is bs then (s', .ok is) else (s', .error Code.subscriptOutOfRange)

def fetchArr (s : VStore) (name : Str) (idx : List Val) : VStore × SRes Val :=
  match access s name idx with
  | (s', .error c) => (s', .error c)
  | (s', .ok is) =>
    (s', .ok (match s'.element name is with
      | some v => v
      | none => (typeOfName s' name).zero))

def storeArr (s : VStore) (name : Str) (idx : List Val) (v : Val) : VStore × SRes Unit :=
  match access s name idx with
  | (s', .error c) => (s', .error c)
  | (s', .ok is) =>
    match convert (typeOfName s' name) v with
    | .error c => (s', .error c)
    | .ok x =>
      ({ s' with element := fun n js => if n = name ∧ js = is then some x else s'.element n js }, .ok ())

def dim (s : VStore) (name : Str) (idx : List Val) : SRes VStore :=
  match s.bounds name with
  | some _ => .error Code.redimensionedArray
  | none => do
    let bs ← subscripts idx
    .ok { s with bounds := fun n => if n = name then some bs else s.bounds n }

def erase (s : VStore) (name : Str) : SRes VStore :=
  match s.bounds name with
  | none => .error Code.illegalFunctionCall
  | some _ =>
    .ok { s with bounds := fun n => if n = name then none else s.bounds n,
                 element := fun n js => if n = name then none else s.element n js }

/-- DEFtype for the letters `a`..`b` (indices 0..25, `a ≤ b`); only specified while no undecorated
    variable holds a value -/
def deftype (s : VStore) (t : STy) (a b : Nat) : VStore :=
  { s with deftype := fun i => if a ≤ i ∧ i ≤ b then t else s.deftype i }

def clear (_ : VStore) : VStore := {}

end Spec
end Basic
