import BasicModel.Spec.Eval
import BasicModel.Model.Fmt
import BasicModel.Lemmas.C17
/-
  What `INPUT [,]["prompt";] v₁,…,vₖ` means, written BY HAND from the text of property C17 and
  independently of the compiler and of the VM: nothing in this file mentions an opcode, a stack or a
  machine state.  The only things taken from the model are the pure functions the property itself
  refers to: `RStd.trim` (blank stripping), `Val.ofStr` ("the number the field spells" — the reader
  shared with VAL; it is reused, not re-implemented), `Var.store` / `Var.storeArray` ("converted to
  the target's type") and `RStd.utf8Len` / `Gen.maxLineLen` (the line buffer).

    * the prompt shown is the prompt text followed by `"? "`; the caps flag is off exactly for the
      leading-comma form;
    * the reply is split at the commas outside double quotes (`Lemmas.C17.splitOutside`); with ONE
      target the whole reply is its field;
    * each field is trimmed; a `$` target takes the field with one pair of enclosing quotes removed;
      a numeric target takes the number the field spells (the blank field is 0), converted to the
      target's type by the store;
    * a reply longer than the line buffer, a number of fields different from the number of targets,
      or a field the store refuses: `Redo` — and since the assignments are made on a COPY that is
      thrown away, nothing is assigned.
-/
namespace Basic
namespace Spec
open Basic.Lemmas.C17 (splitOutside)

/-- a target of INPUT: a scalar variable, or an array element whose subscripts are expressions -/
inductive InTarget where
  | scalar (name : Str)
  | elem (name : Str) (subs : List Expr)

def InTarget.name : InTarget → Str
  | .scalar n => n
  | .elem n _ => n

/-- `"…"` ↦ `…`: one enclosing pair of double quotes is removed -/
def unquote (f : Str) : Str :=
  if f.length ≥ 2 ∧ f.head? = some '"' ∧ f.getLast? = some '"' then (f.drop 1).dropLast else f

/-- the value a field of the reply stands for, given the name of its target: blanks stripped; for a
    `$` name the text (unquoted), otherwise the number it spells (`Val.ofStr`, nothing = 0).  A text
    that spells no number stays a text, which a numeric target then refuses. -/
def fieldValue (name field : Str) : Val :=
  let f := RStd.trim field
  if name.getLast? = some '$' then .str (unquote f)
  else if f = [] then .int 0
  else Val.ofStr f

/-- subscripts: left to right, all in the same variables -/
def evalSubs (vars : Var) : List Expr → Res (List Val)
  | [] => .ok []
  | e :: rest => do
    let v ← eval vars e
    let vs ← evalSubs vars rest
    .ok (v :: vs)

/-- assigning one value to one target in the variables `vars` (conversion to the target's type is
    the store's).  The store that results and whether the assignment was accepted.  The subscripts of
    an element are evaluated in `vars`, i.e. they see the targets assigned before. -/
def assignTarget (vars : Var) : InTarget → Val → Var × Res Unit
  | .scalar n, x =>
    match vars.store n x with
    | .ok v => (v, .ok ())
    | .error e => (vars, .error e)
  | .elem n subs, x =>
    match evalSubs vars subs with
    | .ok idx => vars.storeArray n idx x
    | .error e => (vars, .error e)

/-- the fields are assigned to the targets left to right, on a working copy of the variables:
    the copy reached, and whether every field was accepted.  (A caller that wants "all or nothing"
    uses the copy only when the flag is `true` — see `inputSpec`.) -/
def assignAll (vars : Var) : List InTarget → List Str → Var × Bool
  | [], _ => (vars, true)
  | _ :: _, [] => (vars, false)
  | t :: ts, f :: fs =>
    match assignTarget vars t (fieldValue t.name f) with
    | (v, .ok ()) => assignAll v ts fs
    | (v, .error _) => (v, false)

/-- the fields of a reply for `k` targets -/
def replyFields (k : Nat) (reply : Str) : List Str :=
  if k ≤ 1 then [reply] else splitOutside reply false

/-- the reply is refused -/
inductive Redo where
  | redo
deriving DecidableEq, Repr

/-- **INPUT, one reply.**  `ok v'`: the reply is accepted and `v'` are the variables afterwards;
    `error redo`: REDO FROM START — the caller keeps the variables it had. -/
def inputSpec (vars : Var) (targets : List InTarget) (reply : Str) : Except Redo Var :=
  if RStd.utf8Len reply > Gen.maxLineLen then .error .redo
  else
    let fs := replyFields targets.length reply
    if fs.length ≠ targets.length then .error .redo
    else
      match assignAll vars targets fs with
      | (v, true) => .ok v
      | (_, false) => .error .redo

/-- the prompt shown: the prompt text (possibly empty), a question mark, a blank -/
def inputPrompt (prompt : Str) : Str := prompt ++ ['?', ' ']

/-- the caps flag handed to the terminal: off exactly for the leading-comma form `INPUT ,…` -/
def inputCaps (leadingComma : Bool) : Bool := !leadingComma

end Spec
end Basic
