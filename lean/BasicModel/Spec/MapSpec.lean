import BasicModel.Model.Token
/-
  Specification of the program store as property C15 states it: a map from line numbers to lines
  (a *function* `Nat → Option Line`, nothing shaped like the B-tree or the sorted list of the
  model), with the obvious insert / delete / range delete, and `listSpec lo hi` = the stored lines
  with numbers in the inclusive range, in ascending order.

  `listSpecOn cands` is the same list computed from a finite candidate set of keys (the finder uses
  the numbers mentioned in the history, so that a LIST up to 65529 does not cost 65 530 probes);
  `Thm/C15.lean: listSpecOn_eq_listSpec` proves it equal to `listSpec` whenever `cands` covers the
  keys of the map in the range.
-/
namespace Basic
namespace Spec

abbrev LMap := Nat → Option Line

def LMap.empty : LMap := fun _ => none

def LMap.insert (m : LMap) (n : Nat) (x : Line) : LMap := fun k => if k = n then some x else m k

def LMap.delete (m : LMap) (n : Nat) : LMap := fun k => if k = n then none else m k

def LMap.deleteRange (m : LMap) (lo hi : Nat) : LMap :=
  fun k => if lo ≤ k ∧ k ≤ hi then none else m k

/-- the stored lines with `lo ≤ number ≤ hi`, ascending -/
def listSpec (m : LMap) (lo hi : Nat) : List (Nat × Line) :=
  (List.range' lo (hi + 1 - lo)).filterMap fun k => (m k).map fun x => (k, x)

/-- whether some line lies in the range (the result of a range delete) -/
def anyInRange (m : LMap) (lo hi : Nat) : Bool := !(listSpec m lo hi).isEmpty

/-- ordered insertion of a key into a strictly ascending list (duplicates dropped) -/
def insKey (k : Nat) : List Nat → List Nat
  | [] => [k]
  | a :: r => if k < a then k :: a :: r else if k = a then a :: r else a :: insKey k r

def sortKeys (cands : List Nat) : List Nat := cands.foldl (fun acc k => insKey k acc) []

def listSpecOn (cands : List Nat) (m : LMap) (lo hi : Nat) : List (Nat × Line) :=
  ((sortKeys cands).filter fun k => decide (lo ≤ k ∧ k ≤ hi)).filterMap fun k => (m k).map fun x => (k, x)

end Spec
end Basic
