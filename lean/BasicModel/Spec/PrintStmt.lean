import BasicModel.Spec.Eval
import BasicModel.Spec.PrintSpec
/-
  The documented meaning of a whole PRINT statement, written BY HAND as a pure function of
  (variables, cursor column, list of items): the texts written, the column afterwards, and the
  error (if any) that stopped the statement.  Nothing here mentions the parser's desugaring
  (`,` as `TAB(-14)`, the implicit newline item), an opcode, a stack or the machine state.

  Items: a value expression (`Spec.eval`: a string is written as is, a number through
  `Val.display` — blank or minus sign in front — followed by one blank), `;` (nothing), `,`
  (blanks up to the next multiple of `Spec.zoneWidth`, at least one), `TAB(e)`, `SPC(e)`, `POS(e)`
  (`Func.tab` / `Func.pos` take the column *at that point of the list*), and, unless the list ends
  in `;` or `,`, a final newline.
-/
namespace Basic
namespace Spec

/-- an item of a PRINT list (the column ranges are the ones the parser records; they have no
    meaning) -/
inductive PrItem where
  | expr (e : Expr)
  | semi
  | comma (c : Col)
  | tab (c : Col) (e : Expr)
  | spc (c : Col) (e : Expr)
  | pos (c : Col) (e : Expr)

/-- what PRINT writes for a value: a string as is, a number followed by one blank -/
def itemText : Val → Str
  | .str s => s
  | v => v.display ++ [' ']

/-- the blanks a `,` writes from column `col`: up to the next multiple of the zone width -/
def zoneBlanks (col : Nat) : Str := List.replicate (zoneWidth - col % zoneWidth) ' '

/-- the value an item contributes at cursor column `col` (`none`: the item writes nothing) -/
def itemVal (vars : Var) (col : Nat) : PrItem → Option (Res Val)
  | .expr e => some (eval vars e)
  | .semi => none
  | .comma _ => some (.ok (.str (zoneBlanks col)))
  | .tab _ e => some (eval vars e >>= Func.tab col)
  | .spc _ e => some (eval vars e >>= Func.spc)
  | .pos _ e => some (eval vars e >>= fun _ => Func.pos col)

/-- outcome of a PRINT list: the texts written (one per writing item, in order), the cursor column
    afterwards, and the error that stopped the list, if any -/
structure PrintResult where
  chunks : List Str
  col : Nat
  err : Option Error
deriving DecidableEq, Repr

/-- the transcript: everything written, concatenated -/
def PrintResult.text (r : PrintResult) : Str := r.chunks.flatten

/-- the items of a list, left to right, from cursor column `col`: every item sees the column the
    items before it have left; the first failing item stops the list -/
def printItems (vars : Var) : Nat → List PrItem → PrintResult
  | col, [] => ⟨[], col, none⟩
  | col, it :: rest =>
    match itemVal vars col it with
    | none => printItems vars col rest
    | some (.error e) => ⟨[], col, some e⟩
    | some (.ok v) =>
      let r := printItems vars (columnAfter col (itemText v)) rest
      { r with chunks := itemText v :: r.chunks }

/-- the list ends in `;` or `,` -/
def endsOpen (items : List PrItem) : Bool :=
  match items.getLast? with
  | some .semi => true
  | some (.comma _) => true
  | _ => false

/-- **PRINT items**: the items, then a newline unless the list ends in `;` or `,` -/
def printSpec (vars : Var) (col : Nat) (items : List PrItem) : PrintResult :=
  let r := printItems vars col items
  if r.err.isSome || endsOpen items then r
  else { chunks := r.chunks ++ [['\n']], col := 0, err := none }

/-- well-formed items: the value expressions and the arguments of TAB, SPC, POS are in the
    fragment `Spec.Pure` -/
def PrItem.Ok : PrItem → Prop
  | .expr e => Pure e
  | .semi => True
  | .comma _ => True
  | .tab _ e => Pure e
  | .spc _ e => Pure e
  | .pos _ e => Pure e

end Spec
end Basic
