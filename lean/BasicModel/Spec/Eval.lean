import BasicModel.Model.Ast
import BasicModel.Model.Ops
import BasicModel.Model.Func
import BasicModel.Model.Var
import BasicModel.Spec.PrecSpec
/-
  A direct recursive evaluator for expression trees, written BY HAND and independently of the
  compiler (`Model/Codegen.lean`) and of the VM (`Model/Runtime.lean`): nothing in this file
  mentions an opcode, a fragment, a stack or `Gen.*`.

  The fragment `Spec.Pure`:
    * numeric and string literals,
    * reads of scalar variables (the value is `Var.fetch`),
    * unary minus, NOT, the 18 binary operators (`Spec.meaningOf`), left operand first: an error in
      the left operand wins over an error in the right one,
    * calls `F(e)` of the one-argument built-in functions that depend on their argument only
      (`Spec.builtin1`; TAB, which reads the print column, and the built-ins of other arities are
      outside).
  Outside the fragment: array element reads, FN calls, zero-argument built-ins (DATE$, TIME$,
  INKEY$ — a scalar "variable" of that name is not a variable read) and calls with several
  arguments.
-/
namespace Basic
namespace Spec

/-- the one-argument built-in functions whose value depends on the argument only, by name -/
def builtin1Table : List (String × (Val → Res Val)) := [
  ("ABS", Func.abs), ("ASC", Func.asc), ("ATN", Func.atn), ("CDBL", Func.cdbl), ("CHR$", Func.chr),
  ("CINT", Func.cint), ("COS", Func.cos), ("CSNG", Func.csng), ("EXP", Func.exp), ("FIX", Func.fix),
  ("HEX$", Func.hex), ("INT", Func.int), ("LEN", Func.len), ("LOG", Func.log), ("OCT$", Func.oct),
  ("SGN", Func.sgn), ("SIN", Func.sin), ("SPC", Func.spc), ("SQR", Func.sqr), ("STR$", Func.str),
  ("TAN", Func.tan), ("VAL", Func.val)]

def builtin1 (name : Str) : Option (Val → Res Val) :=
  (builtin1Table.find? fun r => r.1.toList == name).map (·.2)

/-- the names that are functions of no argument: not variables -/
def zeroArgNames : List String := ["DATE$", "INKEY$", "TIME$"]

def isZeroArg (name : Str) : Bool := zeroArgNames.any fun n => n.toList == name

/-- what is reported for a tree outside the fragment (never compared with the machine) -/
def outside : Error := (Error.mk' Code.internalError).withMsg "OUTSIDE THE PURE FRAGMENT"

/-- the value of a tree, given the variables -/
def eval (vars : Var) : Expr → Res Val
  | .single _ b => .ok (.sng b)
  | .double _ b => .ok (.dbl b)
  | .integer _ n => .ok (.int n)
  | .string _ s => .ok (.str s)
  | .var (.unary _ i) => vars.fetch i.name
  | .var (.array _ i [e]) =>
    match builtin1 i.name with
    | some f => eval vars e >>= f
    | none => .error outside
  | .var (.array _ _ _) => .error outside
  | .neg _ e => eval vars e >>= Ops.negate
  | .not _ e => eval vars e >>= Ops.not
  | .bin op _ l r => do
    let a ← eval vars l
    let b ← eval vars r
    meaningOf op a b

/-- the fragment -/
inductive Pure : Expr → Prop where
  | single (c : Col) (b : UInt32) : Pure (.single c b)
  | double (c : Col) (b : UInt64) : Pure (.double c b)
  | integer (c : Col) (n : Int16) : Pure (.integer c n)
  | string (c : Col) (s : Str) : Pure (.string c s)
  | scalar (c : Col) (i : TIdent) : isZeroArg i.name = false → Pure (.var (.unary c i))
  | call (c : Col) (i : TIdent) (e : Expr) : (builtin1 i.name).isSome = true → Pure e →
      Pure (.var (.array c i [e]))
  | neg (c : Col) (e : Expr) : Pure e → Pure (.neg c e)
  | not (c : Col) (e : Expr) : Pure e → Pure (.not c e)
  | bin (op : BinOp) (c : Col) (l r : Expr) : Pure l → Pure r → Pure (.bin op c l r)

/-- the fragment, as a test -/
def isPure : Expr → Bool
  | .single _ _ | .double _ _ | .integer _ _ | .string _ _ => true
  | .var (.unary _ i) => !isZeroArg i.name
  | .var (.array _ i [e]) => (builtin1 i.name).isSome && isPure e
  | .var (.array _ _ _) => false
  | .neg _ e => isPure e
  | .not _ e => isPure e
  | .bin _ _ l r => isPure l && isPure r

theorem isPure_of_pure {e : Expr} (h : Pure e) : isPure e = true := by
  induction h with
  | single | double | integer | string => rfl
  | scalar c i h => simp [isPure, h]
  | call c i e hf _ ih => simp [isPure, hf, ih]
  | neg c e _ ih => simpa [isPure] using ih
  | not c e _ ih => simpa [isPure] using ih
  | bin op c l r _ _ ihl ihr => simp [isPure, ihl, ihr]

theorem pure_of_isPure : ∀ (e : Expr), isPure e = true → Pure e
  | .single c b, _ => .single c b
  | .double c b, _ => .double c b
  | .integer c n, _ => .integer c n
  | .string c s, _ => .string c s
  | .var (.unary c i), h => .scalar c i (by simpa [isPure] using h)
  | .var (.array c i []), h => by simp [isPure] at h
  | .var (.array c i [e]), h => by
    simp only [isPure, Bool.and_eq_true] at h
    exact .call c i e h.1 (pure_of_isPure e h.2)
  | .var (.array c i (_ :: _ :: _)), h => by simp [isPure] at h
  | .neg c e, h => .neg c e (pure_of_isPure e (by simpa [isPure] using h))
  | .not c e, h => .not c e (pure_of_isPure e (by simpa [isPure] using h))
  | .bin op c l r, h => by
    simp only [isPure, Bool.and_eq_true] at h
    exact .bin op c l r (pure_of_isPure l h.1) (pure_of_isPure r h.2)

theorem pure_iff (e : Expr) : Pure e ↔ isPure e = true := ⟨isPure_of_pure, pure_of_isPure e⟩

instance : DecidablePred Pure := fun e => decidable_of_iff _ (pure_iff e).symm

end Spec
end Basic
