/-
  Specification of WHILE/WEND pairing: bracket matching over the marks in code order.
  `true` = opening mark (WHILE), `false` = closing mark (WEND).  Independent of `Link`.
-/
namespace Basic
namespace Spec

/-- bracket matching with the opening marks still unmatched in `open_` (innermost first):
    the pairs (opening, closing) in the order the closings occur, the closings that found no
    opening, and the openings never closed (innermost first) -/
def bracketAux {α : Type} : List (Bool × α) → List α → List (α × α) × List α × List α
  | [], open_ => ([], [], open_)
  | (true, x) :: rest, open_ => bracketAux rest (x :: open_)
  | (false, x) :: rest, [] =>
    let r := bracketAux rest []
    (r.1, x :: r.2.1, r.2.2)
  | (false, x) :: rest, w :: open_ =>
    let r := bracketAux rest open_
    ((w, x) :: r.1, r.2.1, r.2.2)

/-- every closing mark is paired with the nearest preceding opening mark that is still unmatched -/
def bracketMatch {α : Type} (ws : List (Bool × α)) : List (α × α) × List α × List α := bracketAux ws []

/-- a segment without unmatched closings only adds its unmatched openings to the context -/
theorem bracketAux_append {α : Type} (ws rest : List (Bool × α)) (st ext : List α) (p : List (α × α)) (wh : List α)
    (h : bracketAux ws st = (p, [], wh)) :
    bracketAux (ws ++ rest) (st ++ ext) =
      (p ++ (bracketAux rest (wh ++ ext)).1, (bracketAux rest (wh ++ ext)).2.1, (bracketAux rest (wh ++ ext)).2.2) := by
  induction ws generalizing st p with
  | nil =>
    simp only [bracketAux] at h
    injection h with h1 h2
    injection h2 with _ h3
    subst h1; subst h3
    simp
  | cons hd tl ih =>
    obtain ⟨k, x⟩ := hd
    cases k with
    | true =>
      simp only [bracketAux] at h
      simp only [List.cons_append, bracketAux]
      exact ih (x :: st) p h
    | false =>
      cases st with
      | nil =>
        simp only [bracketAux] at h
        injection h with _ h2
        injection h2 with h3 _
        cases h3
      | cons w st' =>
        simp only [bracketAux] at h
        injection h with h1 h2
        injection h2 with h3 h4
        subst h1
        simp only [List.cons_append, bracketAux]
        have := ih st' (bracketAux tl st').1 (by rw [← h3, ← h4])
        rw [this]

/-- nesting: `WHILE w … WEND e` around a balanced body pairs `w` with `e`, after the body's own pairs,
    whatever precedes (context `st`) and follows (`rest`) -/
theorem bracketAux_nested {α : Type} (w e : α) (body rest : List (Bool × α)) (st : List α) (p : List (α × α))
    (hbody : bracketMatch body = (p, [], [])) :
    bracketAux ((true, w) :: body ++ (false, e) :: rest) st =
      (p ++ (w, e) :: (bracketAux rest st).1, (bracketAux rest st).2.1, (bracketAux rest st).2.2) := by
  have := bracketAux_append body ((false, e) :: rest) [] (w :: st) p [] hbody
  simp only [List.nil_append] at this
  simp only [List.cons_append, bracketAux]
  rw [this]
  simp only [bracketAux]

example : bracketMatch [(true, 1), (true, 2), (false, 3), (false, 4)] = ([(2, 3), (1, 4)], [], []) := by decide
example : bracketMatch [(false, 1), (true, 2), (true, 3), (false, 4)] = ([(3, 4)], [1], [2]) := by decide
example : bracketMatch [(true, 1), (false, 2), (true, 3), (false, 4), (false, 5)] = ([(1, 2), (3, 4)], [5], []) := by decide

end Spec
end Basic
