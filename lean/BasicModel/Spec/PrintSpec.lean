import BasicModel.Model.Err
/-
  Specification of the PRINT layout (src/doc: "PRINT", "TAB", "SPC", "POS"): the column of the
  print head after a text has been written, as a function of the transcript alone.
-/
namespace Basic
namespace Spec

/-- documented width of a print zone (`,` in a PRINT list advances to the next multiple) -/
def zoneWidth : Nat := 14

/-- column of the print head after `text` has been written starting in column `c`:
    a newline returns to column 0, every other character advances by one -/
def columnAfter : Nat → Str → Nat
  | c, [] => c
  | c, ch :: s => columnAfter (if ch = '\n' then 0 else c + 1) s

end Spec
end Basic
