import BasicModel.Model.Err
/-
  Specification of 16-bit Integer arithmetic, as the manual states it: the mathematically exact
  result over the integers when it lies in -32768..32767, else OVERFLOW; DIVISION BY ZERO for a zero
  divisor.  Independent of the model (`Model/Ops.lean`); `Thm/C08.lean` proves the model meets it and
  the finder evaluates it against the implementation.
-/
namespace Basic
namespace Spec

def inRange (z : Int) : Bool := -32768 ≤ z && z ≤ 32767

def checked (z : Int) : Except Nat Int := if inRange z then .ok z else .error Code.overflow

def intBin (op : String) (a b : Int) : Option (Except Nat Int) :=
  match op with
  | "add" => some (checked (a + b))
  | "sub" => some (checked (a - b))
  | "mul" => some (checked (a * b))
  | "divint" => some (if b = 0 then .error Code.divisionByZero else checked (a.tdiv b))
  | "mod" => some (if b = 0 then .error Code.divisionByZero else checked (a.tmod b))
  | "pow" => if b ≥ 0 then some (checked (a ^ b.toNat)) else none
  | _ => none

def intUn (op : String) (a : Int) : Option (Except Nat Int) :=
  match op with
  | "neg" => some (checked (-a))
  | "abs" => some (checked a.natAbs)
  | _ => none

end Spec
end Basic
