import BasicModel.Model.Ast
import BasicModel.Model.Ops
import BasicModel.Model.Opcode
/-
  Specification of operator precedence, meaning and result types, written BY HAND from the manual
  (`/repo/src/doc/chapter_1.rs`, "operators, listed in order of precedence"):

      13 ^ | 12 unary - + | 11 * / | 10 \ | 9 MOD | 8 + - | 7 = <> < <= > >= | 6 NOT (unary)
      5 AND | 4 OR | 3 XOR | 2 IMP | 1 EQV

  Nothing in this file mentions `Gen.*` (the tables generated from the Rust source) or the parser;
  `Thm/C02.lean` proves that the generated tables and the parser agree with it.
-/
namespace Basic
namespace Spec

/-- precedence of an operator token *used as a binary operator* (NOT is unary only: level 0,
    "not a binary operator") -/
def documentedPrec : Operator → Nat
  | .caret => 13
  | .multiply | .divide => 11
  | .divideInt => 10
  | .modulo => 9
  | .plus | .minus => 8
  | .equal | .notEqual | .less | .lessEqual | .greater | .greaterEqual => 7
  | .not => 0
  | .and => 5
  | .or => 4
  | .xor => 3
  | .imp => 2
  | .eqv => 1

/-- precedence of an operator token *used as a unary operator* (0: not a unary operator) -/
def documentedUnaryPrec : Operator → Nat
  | .plus | .minus => 12
  | .not => 6
  | _ => 0

/-- the operator token that spells a binary AST node -/
def operatorOf : BinOp → Operator
  | .power => .caret | .multiply => .multiply | .divide => .divide | .divideInt => .divideInt
  | .modulo => .modulo | .add => .plus | .subtract => .minus | .equal => .equal
  | .notEqual => .notEqual | .less => .less | .lessEqual => .lessEqual | .greater => .greater
  | .greaterEqual => .greaterEqual | .and => .and | .or => .or | .xor => .xor | .imp => .imp
  | .eqv => .eqv

/-- documented precedence level of a binary AST node -/
def precOf (b : BinOp) : Nat := documentedPrec (operatorOf b)

/-- the documented meaning of each binary operator on values -/
def meaningOf : BinOp → (Val → Val → Res Val)
  | .power => Ops.power
  | .multiply => Ops.multiply
  | .divide => Ops.divide
  | .divideInt => Ops.divint
  | .modulo => Ops.remainder
  | .add => Ops.sum
  | .subtract => Ops.subtract
  | .equal => Ops.equal
  | .notEqual => Ops.notEqual
  | .less => Ops.less
  | .lessEqual => Ops.lessEqual
  | .greater => Ops.greater
  | .greaterEqual => Ops.greaterEqual
  | .and => Ops.and
  | .or => Ops.or
  | .xor => Ops.xor
  | .imp => Ops.imp
  | .eqv => Ops.eqv

/-! ### result types (manual: "Integer → Single → Double promotion", `/` quirk, `\` MOD and the
    logical operators on 16-bit Integers, relational operators 0 / −1) -/

/-- the wider of two numeric types: Integer < Single < Double -/
def promote : Ty → Ty → Ty
  | .dbl, _ | _, .dbl => .dbl
  | .sng, _ | _, .sng => .sng
  | _, _ => .int

inductive OpClass where
  | arith      -- + - *       : promoted type
  | divide     -- /           : promoted type, but Integer/Integer is Single
  | power      -- ^           : promoted type; Integer ^ negative Integer is Single
  | integer    -- \ MOD AND OR XOR IMP EQV : always Integer
  | relational -- = <> < <= > >= : Integer 0 / −1
deriving DecidableEq, Repr

def classOf : BinOp → OpClass
  | .add | .subtract | .multiply => .arith
  | .divide => .divide
  | .power => .power
  | .divideInt | .modulo | .and | .or | .xor | .imp | .eqv => .integer
  | .equal | .notEqual | .less | .lessEqual | .greater | .greaterEqual => .relational

/-- documented result type of `a op b` for numeric operand types `ta`, `tb`;
    `expNonneg` says whether an Integer exponent is ≥ 0 (only matters for `^` on two Integers) -/
def resultTy (op : BinOp) (ta tb : Ty) (expNonneg : Bool := true) : Ty :=
  match classOf op with
  | .arith => promote ta tb
  | .divide => if ta = .int ∧ tb = .int then .sng else promote ta tb
  | .power => if ta = .int ∧ tb = .int then (if expNonneg then .int else .sng) else promote ta tb
  | .integer => .int
  | .relational => .int

/-! ### rendering of expression trees with exactly the parentheses the documented table requires -/

/-- level of a tree as an operand: binary node = its operator's level, unary minus 12, NOT 6,
    everything else is atomic -/
def level : Expr → Nat
  | .bin op _ _ _ => precOf op
  | .neg _ _ => 12
  | .not _ _ => 6
  | _ => 100

/-- level that governs whether the parser, *starting* at this tree, may be entered at precedence
    `p`: only a binary node needs `p` below its operator; a unary node or a literal is a primary -/
def plevel : Expr → Nat
  | .bin op _ _ _ => precOf op
  | _ => 100

/-- does operand `e` of an operator of level `q` need parentheses?  Left operands (`strict = false`)
    iff `level e < q`; right operands and operands of unary operators (`strict = true`) iff
    `level e ≤ q` — binary operators associate to the left. -/
def needsParens (q : Nat) (strict : Bool) (e : Expr) : Bool :=
  if strict then level e ≤ q else level e < q

/-- The listed tokens of a tree (no blanks).  `lit n` is the text of the Integer literal `n`.
    Only Integer literals, unary minus, NOT and the 18 binary operators are rendered (the fragment
    `Spec.Frag`); any other node renders as nothing. -/
def render (lit : Int16 → Str) : Expr → List Token
  | .integer _ n => [.literal (.integer (lit n))]
  | .neg _ e =>
    .operator .minus ::
      (if needsParens 12 true e then .lparen :: render lit e ++ [.rparen] else render lit e)
  | .not _ e =>
    .operator .not ::
      (if needsParens 6 true e then .lparen :: render lit e ++ [.rparen] else render lit e)
  | .bin op _ l r =>
    (if needsParens (precOf op) false l then .lparen :: render lit l ++ [.rparen] else render lit l)
      ++ .operator (operatorOf op) ::
    (if needsParens (precOf op) true r then .lparen :: render lit r ++ [.rparen] else render lit r)
  | _ => []

/-- an operand, parenthesised iff required -/
def child (lit : Int16 → Str) (q : Nat) (strict : Bool) (e : Expr) : List Token :=
  if needsParens q strict e then .lparen :: render lit e ++ [.rparen] else render lit e

/-- the fragment of trees that `render` covers; `ok n` says that `lit n` reads back as `n` -/
inductive Frag (ok : Int16 → Prop) : Expr → Prop where
  | int (c : Col) (n : Int16) : ok n → Frag ok (.integer c n)
  | neg (c : Col) (e : Expr) : Frag ok e → Frag ok (.neg c e)
  | not (c : Col) (e : Expr) : Frag ok e → Frag ok (.not c e)
  | bin (op : BinOp) (c : Col) (l r : Expr) : Frag ok l → Frag ok r → Frag ok (.bin op c l r)

/-- **Any legal parenthesisation.**  `Renders lit ok e ts lv plv`: the token list `ts` is a listing
    of the tree `e` whose parentheses are a *superset* of the ones the documented table requires.
    `lv` is the level of the listing as an operand (a parenthesised listing is atomic: 100) and
    `plv` the level that governs entering it (`plevel`).  An operand may stand bare only if its
    level allows it: left operand `q ≤ lv`, right operand and operand of a unary operator `q < lv`;
    redundant parentheses (`paren`) are always allowed, around anything, any number of times. -/
inductive Renders (lit : Int16 → Str) (ok : Int16 → Prop) : Expr → List Token → Nat → Nat → Prop where
  | int (c : Col) (n : Int16) : ok n → Renders lit ok (.integer c n) [.literal (.integer (lit n))] 100 100
  | paren {e ts lv plv} : Renders lit ok e ts lv plv →
      Renders lit ok e (.lparen :: ts ++ [.rparen]) 100 100
  | neg (c : Col) {x ts lv plv} : Renders lit ok x ts lv plv → 12 < lv →
      Renders lit ok (.neg c x) (.operator .minus :: ts) 12 100
  | not (c : Col) {x ts lv plv} : Renders lit ok x ts lv plv → 6 < lv →
      Renders lit ok (.not c x) (.operator .not :: ts) 6 100
  | bin (op : BinOp) (c : Col) {l r tl tr lvl plvl lvr plvr} :
      Renders lit ok l tl lvl plvl → Renders lit ok r tr lvr plvr →
      precOf op ≤ lvl → precOf op < lvr →
      Renders lit ok (.bin op c l r) (tl ++ .operator (operatorOf op) :: tr) (precOf op) (precOf op)

end Spec

/-- a tree with its columns erased (inside the fragment; variables are left alone) -/
def Expr.shape : Expr → Expr
  | .integer _ n => .integer (0, 0) n
  | .single _ b => .single (0, 0) b
  | .double _ b => .double (0, 0) b
  | .string _ s => .string (0, 0) s
  | .neg _ e => .neg (0, 0) (Expr.shape e)
  | .not _ e => .not (0, 0) (Expr.shape e)
  | .bin op _ l r => .bin op (0, 0) (Expr.shape l) (Expr.shape r)
  | .var v => .var v

end Basic
