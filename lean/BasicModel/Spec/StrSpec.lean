import BasicModel.Model.Err
/-
  Specification of the string functions on character lists, as the manual words them
  (src/doc/chapter_3.rs): positions are 1-based and count characters.
-/
namespace Basic
namespace Spec

/-- LEFT$(s, n): the leftmost n characters -/
def left (s : Str) (n : Nat) : Str := s.take n
/-- RIGHT$(s, n): the rightmost n characters -/
def right (s : Str) (n : Nat) : Str := s.drop (s.length - n)
/-- MID$(s, p [, l]): begins with the character in position p (1-based), at most l characters -/
def mid (s : Str) (p : Nat) (l : Option Nat) : Str :=
  match l with
  | none => s.drop (p - 1)
  | some l => (s.drop (p - 1)).take l

/-- does `y` occur in `x` at 0-based offset `i`? -/
def occursAt (x y : Str) (i : Nat) : Bool := y.isPrefixOf (x.drop i)

/-- INSTR(start, x, y): the least 1-based position ≥ start at which y occurs in x, searching only
    start positions inside x; 0 if there is none -/
def instr (start : Nat) (x y : Str) : Nat :=
  if start - 1 ≥ x.length then 0
  else match (List.range (x.length + 1 - (start - 1))).find? (fun k => occursAt x y (start - 1 + k)) with
    | some k => start + k
    | none => 0

end Spec
end Basic
