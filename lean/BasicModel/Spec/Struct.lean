import BasicModel.Spec.Eval
/-
  A big-step semantics for the STRUCTURED statements, written BY HAND from the manual
  (`src/doc/statements/{let,if,while,for,next}.rs`) and independently of the compiler and of the VM:
  nothing in this file mentions an opcode, a code address, a stack or a fragment.

    p ::= v = e | p : q | IF c THEN p | IF c THEN p ELSE q | WHILE c : p : WEND
        | FOR v = a TO b STEP s : p : NEXT v

  A statement transforms the variable store (`Var`) or stops in an error; a loop that does not end
  within the fuel has no answer (`none`).  Expressions are evaluated by `Spec.eval` (the fragment
  `Spec.Pure`).

  What the manual says and this file spells out:
    * IF / WHILE: a number is false iff it is zero; a string is TYPE MISMATCH (`truthy`).
    * WHILE tests before every pass (zero passes are possible).
    * FOR: the start value is evaluated and ASSIGNED first; then the limit, then the step are
      evaluated ONCE, in the store that already holds the new loop variable ("the first iteration will
      evaluate x, then y, then z"); the body runs; NEXT adds the step to the CURRENT value of the loop
      variable, stores it (so an Integer loop variable overflowing is the error of the addition,
      OVERFLOW, and the loop stops there) and compares the SUM — as computed, before the conversion
      the store applies — with the limit: for a negative step the loop ends when `sum < limit`,
      otherwise when `limit < sum`.  "The first iteration always executes even if starting past the
      end."
    * the sign of the step is the sign of its value converted to Double (`stepNeg`).  `Float` is
      opaque to the kernel, so the test is a parameter `neg` of `execWith`/`nextStep`/`forIter`;
      `exec` is the instance `neg := stepNeg`.
    * `intFor` is the same iteration read on an Integer counter with Integer limit and step
      (`Thm.C01.for_integer` relates the two).
-/
namespace Basic
namespace Spec

/-- the truth value of a condition: a number is true iff it is not zero; anything else is TYPE MISMATCH -/
def truthy : Val → Res Bool
  | .int n => .ok (!(n == 0))
  | .sng b => .ok (!(F.f32 b == 0))
  | .dbl b => .ok (!(F.f64 b == 0))
  | _ => .error (Error.mk' Code.typeMismatch)

/-- is the step negative?  (its value as a Double is compared with 0; `none`: not a number) -/
def stepNeg (v : Val) : Option Bool :=
  match v.toF64 with
  | .ok st => some (decide (st < 0))
  | .error _ => none

/-- the structured statements -/
inductive SStmt where
  /-- `LET name = e` (scalar variable) -/
  | assign (name : Str) (e : Expr)
  /-- `p : q` -/
  | seq (p q : SStmt)
  /-- `IF c THEN p` -/
  | ifThen (c : Expr) (p : SStmt)
  /-- `IF c THEN p ELSE q` -/
  | ifThenElse (c : Expr) (p q : SStmt)
  /-- `WHILE c : p : WEND` -/
  | while (c : Expr) (p : SStmt)
  /-- `FOR name = a TO b STEP s : p : NEXT name` -/
  | for (name : Str) (a b s : Expr) (p : SStmt)
deriving Inhabited

/-- every expression of the statement lies in the fragment `Spec.Pure` -/
def SStmt.Pure : SStmt → Prop
  | .assign _ e => Spec.Pure e
  | .seq p q => p.Pure ∧ q.Pure
  | .ifThen c p => Spec.Pure c ∧ p.Pure
  | .ifThenElse c p q => Spec.Pure c ∧ p.Pure ∧ q.Pure
  | .while c p => Spec.Pure c ∧ p.Pure
  | .for _ a b s p => Spec.Pure a ∧ Spec.Pure b ∧ Spec.Pure s ∧ p.Pure

def SStmt.decPure : (p : SStmt) → Decidable p.Pure
  | .assign _ e => inferInstanceAs (Decidable (Spec.Pure e))
  | .seq p q => @instDecidableAnd _ _ p.decPure q.decPure
  | .ifThen _ p => @instDecidableAnd _ _ inferInstance p.decPure
  | .ifThenElse _ p q => @instDecidableAnd _ _ inferInstance (@instDecidableAnd _ _ p.decPure q.decPure)
  | .while _ p => @instDecidableAnd _ _ inferInstance p.decPure
  | .for _ _ _ _ p =>
    @instDecidableAnd _ _ inferInstance (@instDecidableAnd _ _ inferInstance
      (@instDecidableAnd _ _ inferInstance p.decPure))

instance : DecidablePred SStmt.Pure := SStmt.decPure

/-- a transformer of the store: `none` = no answer (within the fuel) -/
abbrev Trans := Var → Option (Res Var)

/-- the condition of IF and WHILE -/
def holds (σ : Var) (c : Expr) : Res Bool := eval σ c >>= truthy

/-- `LET name = e` -/
def assignT (name : Str) (e : Expr) : Trans := fun σ => some (eval σ e >>= σ.store name)

/-- `f`, then `g` -/
def seqT (f g : Trans) : Trans := fun σ =>
  match f σ with
  | none => none
  | some (.error e) => some (.error e)
  | some (.ok σ') => g σ'

/-- `IF c THEN f ELSE g` -/
def iteT (c : Expr) (f g : Trans) : Trans := fun σ =>
  match holds σ c with
  | .error e => some (.error e)
  | .ok true => f σ
  | .ok false => g σ

/-- the empty ELSE -/
def skipT : Trans := fun σ => some (.ok σ)

/-- one unrolling of `WHILE c : f : WEND`, `g` being the rest of the loop -/
def whileStepT (c : Expr) (f g : Trans) : Trans := iteT c (seqT f g) skipT

/-- `WHILE c : f : WEND`, at most `n` tests of the condition -/
def whileT (c : Expr) (f : Trans) : Nat → Trans
  | 0 => fun _ => none
  | n+1 => whileStepT c f (whileT c f n)

/-- what FOR does before the first pass: the new store, the limit and the step -/
def forInit (σ : Var) (name : Str) (a b s : Expr) : Res (Var × Val × Val) := do
  let x ← eval σ a
  let σ1 ← σ.store name x
  let t ← eval σ1 b
  let st ← eval σ1 s
  pure (σ1, t, st)

/-- what NEXT does: the new store and "go round again"; `none`: the step has no sign -/
def nextStep (neg : Val → Option Bool) (σ : Var) (name : Str) (toV stepV : Val) : Option (Res (Var × Bool)) :=
  match σ.fetch name >>= (Ops.sum · stepV) with
  | .error e => some (.error e)
  | .ok cur =>
    match σ.store name cur with
    | .error e => some (.error e)
    | .ok σ' =>
      match neg stepV with
      | none => none
      | some b =>
        match (if b then Ops.less cur toV else Ops.less toV cur) with
        | .error e => some (.error e)
        | .ok done => some (.ok (σ', !(done == .int (-1))))

/-- one pass of a FOR loop — the body `f`, then NEXT —, `g` being the rest of the loop -/
def forStepT (neg : Val → Option Bool) (f : Trans) (name : Str) (toV stepV : Val) (g : Trans) : Trans := fun σ =>
  match f σ with
  | none => none
  | some (.error e) => some (.error e)
  | some (.ok σ1) =>
    match nextStep neg σ1 name toV stepV with
    | none => none
    | some (.error e) => some (.error e)
    | some (.ok (σ2, true)) => g σ2
    | some (.ok (σ2, false)) => some (.ok σ2)

/-- the passes of a FOR loop, at most `n` of them -/
def forIter (neg : Val → Option Bool) (f : Trans) (name : Str) (toV stepV : Val) : Nat → Trans
  | 0 => fun _ => none
  | n+1 => forStepT neg f name toV stepV (forIter neg f name toV stepV n)

/-- `FOR name = a TO b STEP s : f : NEXT name`, at most `n` passes -/
def forT (neg : Val → Option Bool) (name : Str) (a b s : Expr) (f : Trans) (n : Nat) : Trans := fun σ =>
  match forInit σ name a b s with
  | .error e => some (.error e)
  | .ok (σ1, t, st) => forIter neg f name t st n σ1

/-- **the semantics**: `fuel` bounds the nesting depth plus the number of passes of every loop -/
def execWith (neg : Val → Option Bool) : Nat → Var → SStmt → Option (Res Var)
  | 0, _, _ => none
  | _+1, σ, .assign name e => assignT name e σ
  | fuel+1, σ, .seq p q => seqT (fun σ => execWith neg fuel σ p) (fun σ => execWith neg fuel σ q) σ
  | fuel+1, σ, .ifThen c p => iteT c (fun σ => execWith neg fuel σ p) skipT σ
  | fuel+1, σ, .ifThenElse c p q => iteT c (fun σ => execWith neg fuel σ p) (fun σ => execWith neg fuel σ q) σ
  | fuel+1, σ, .while c p =>
    whileStepT c (fun σ => execWith neg fuel σ p) (fun σ => execWith neg fuel σ (.while c p)) σ
  | fuel+1, σ, .for name a b s p => forT neg name a b s (fun σ => execWith neg fuel σ p) fuel σ

/-- the semantics with the sign of the step as the manual's machine computes it -/
def exec (fuel : Nat) (σ : Var) (p : SStmt) : Option (Res Var) := execWith stepNeg fuel σ p

/-! ### reading aids -/

/-- an oracle `neg'` that answers less often than `neg` but never differently -/
def NegLe (neg' neg : Val → Option Bool) : Prop := ∀ v b, neg' v = some b → neg v = some b

/-- **the documented iteration, Integer reading**: the counter holds `i` when the body starts; after the
    body the step is added (16-bit, OVERFLOW otherwise) and stored; the loop is left when the new value
    has passed the limit in the direction of the step, else the body runs again with the new value -/
def intFor (f : Trans) (name : Str) (t k : Int16) : Nat → Int16 → Trans
  | 0, _ => fun _ => none
  | n+1, i => fun σ =>
    match f σ with
    | none => none
    | some (.error e) => some (.error e)
    | some (.ok σ1) =>
      match RStd.checkedAdd i k with
      | none => some (.error (Error.mk' Code.overflow))
      | some j =>
        match σ1.store name (.int j) with
        | .error e => some (.error e)
        | .ok σ2 =>
          if (if k < 0 then j < t else t < j) then some (.ok σ2) else intFor f name t k n j σ2

end Spec
end Basic
