import BasicModel.Proto
import BasicModel.Model.Parse
/-
  Canonical text of tokens and ASTs (shared with harness/src/astproto.rs).
-/
namespace Basic
namespace Proto

def wordName : Word → String
  | .clear => "Clear" | .cls => "Cls" | .cont => "Cont" | .data => "Data" | .def => "Def"
  | .defdbl => "Defdbl" | .defint => "Defint" | .defsng => "Defsng" | .defstr => "Defstr"
  | .delete => "Delete" | .dim => "Dim" | .else => "Else" | .end => "End" | .erase => "Erase"
  | .for => "For" | .gosub => "Gosub" | .goto => "Goto" | .if => "If" | .input => "Input"
  | .let => "Let" | .list => "List" | .load => "Load" | .new => "New" | .next => "Next" | .on => "On"
  | .print => "Print" | .read => "Read" | .rem1 => "Rem1" | .rem2 => "Rem2" | .renum => "Renum"
  | .restore => "Restore" | .return => "Return" | .save => "Save" | .step => "Step" | .stop => "Stop"
  | .swap => "Swap" | .run => "Run" | .then => "Then" | .to => "To" | .troff => "Troff" | .tron => "Tron"
  | .wend => "Wend" | .while => "While"

def allWords : List Word :=
  [.clear, .cls, .cont, .data, .def, .defdbl, .defint, .defsng, .defstr, .delete, .dim, .else, .end,
   .erase, .for, .gosub, .goto, .if, .input, .let, .list, .load, .new, .next, .on, .print, .read,
   .rem1, .rem2, .renum, .restore, .return, .save, .step, .stop, .swap, .run, .then, .to, .troff,
   .tron, .wend, .while]

def operatorName : Operator → String
  | .caret => "Caret" | .multiply => "Multiply" | .divide => "Divide" | .divideInt => "DivideInt"
  | .modulo => "Modulo" | .plus => "Plus" | .minus => "Minus" | .equal => "Equal"
  | .notEqual => "NotEqual" | .less => "Less" | .lessEqual => "LessEqual" | .greater => "Greater"
  | .greaterEqual => "GreaterEqual" | .not => "Not" | .and => "And" | .or => "Or" | .xor => "Xor"
  | .imp => "Imp" | .eqv => "Eqv"

def allOperators : List Operator :=
  [.caret, .multiply, .divide, .divideInt, .modulo, .plus, .minus, .equal, .notEqual, .less,
   .lessEqual, .greater, .greaterEqual, .not, .and, .or, .xor, .imp, .eqv]

def showToken : Token → String
  | .unknown s => "U" ++ hexOfStr s
  | .whitespace n => s!"W{n}"
  | .literal (.single s) => "Ls" ++ hexOfStr s
  | .literal (.double s) => "Ld" ++ hexOfStr s
  | .literal (.integer s) => "Li" ++ hexOfStr s
  | .literal (.hex s) => "Lh" ++ hexOfStr s
  | .literal (.octal s) => "Lo" ++ hexOfStr s
  | .literal (.string s) => "Lq" ++ hexOfStr s
  | .word w => "K" ++ wordName w
  | .operator o => "O" ++ operatorName o
  | .ident (.plain s) => "Ip" ++ hexOfStr s
  | .ident (.string s) => "Is" ++ hexOfStr s
  | .ident (.single s) => "If" ++ hexOfStr s
  | .ident (.double s) => "Id" ++ hexOfStr s
  | .ident (.integer s) => "Ii" ++ hexOfStr s
  | .lparen => "PL" | .rparen => "PR" | .comma => "PC" | .colon => "PN" | .semicolon => "PS"

def readToken (s : String) : Option Token :=
  match s.toList with
  | 'U' :: r => some (.unknown (strOfHex (String.ofList r)))
  | 'W' :: r => (String.ofList r).toNat?.map .whitespace
  | 'L' :: k :: r =>
    let t := strOfHex (String.ofList r)
    (match k with
     | 's' => some (.literal (.single t)) | 'd' => some (.literal (.double t))
     | 'i' => some (.literal (.integer t)) | 'h' => some (.literal (.hex t))
     | 'o' => some (.literal (.octal t)) | 'q' => some (.literal (.string t)) | _ => none)
  | 'K' :: r => (allWords.find? fun w => wordName w == String.ofList r).map .word
  | 'O' :: r => (allOperators.find? fun o => operatorName o == String.ofList r).map .operator
  | 'I' :: k :: r =>
    let t := strOfHex (String.ofList r)
    (match k with
     | 'p' => some (.ident (.plain t)) | 's' => some (.ident (.string t))
     | 'f' => some (.ident (.single t)) | 'd' => some (.ident (.double t))
     | 'i' => some (.ident (.integer t)) | _ => none)
  | ['P', 'L'] => some .lparen | ['P', 'R'] => some .rparen | ['P', 'C'] => some .comma
  | ['P', 'N'] => some .colon | ['P', 'S'] => some .semicolon
  | _ => none

def showCol (c : Col) : String := s!"{c.1}-{c.2}"

def showIdent : TIdent → String
  | .plain s => "P:" ++ hexOfStr s
  | .string s => "S:" ++ hexOfStr s
  | .single s => "F:" ++ hexOfStr s
  | .double s => "D:" ++ hexOfStr s
  | .integer s => "I:" ++ hexOfStr s

mutual
def showVar : Variable → String
  | .unary c i => s!"(U {showCol c} {showIdent i})"
  | .array c i es => s!"(A {showCol c} {showIdent i} [{showExprs es}])"
def showExpr : Expr → String
  | .var v => s!"(V {showVar v})"
  | .single c b => s!"(Sng {showCol c} {hexNat 8 (canon32 b).toNat})"
  | .double c b => s!"(Dbl {showCol c} {hexNat 16 (canon64 b).toNat})"
  | .integer c n => s!"(Int {showCol c} {n.toInt})"
  | .string c s => s!"(Str {showCol c} {hexOfStr s})"
  | .neg c e => s!"(Negation {showCol c} {showExpr e})"
  | .not c e => s!"(Not {showCol c} {showExpr e})"
  | .bin op c l r => s!"({op.name} {showCol c} {showExpr l} {showExpr r})"
def showExprs : List Expr → String
  | [] => ""
  | [e] => showExpr e
  | e :: es => showExpr e ++ " " ++ showExprs es
end

def showVars (vs : List Variable) : String := " ".intercalate (vs.map showVar)

mutual
def showStmt : Stmt → String
  | .clear c => s!"(Clear {showCol c})"
  | .cls c => s!"(Cls {showCol c})"
  | .cont c => s!"(Cont {showCol c})"
  | .data c es => s!"(Data {showCol c} [{showExprs es}])"
  | .def c v ps e => s!"(Def {showCol c} {showVar v} [{showVars ps}] {showExpr e})"
  | .defdbl c a b => s!"(Defdbl {showCol c} {showVar a} {showVar b})"
  | .defint c a b => s!"(Defint {showCol c} {showVar a} {showVar b})"
  | .defsng c a b => s!"(Defsng {showCol c} {showVar a} {showVar b})"
  | .defstr c a b => s!"(Defstr {showCol c} {showVar a} {showVar b})"
  | .delete c a b => s!"(Delete {showCol c} {showExpr a} {showExpr b})"
  | .dim c vs => s!"(Dim {showCol c} [{showVars vs}])"
  | .end c => s!"(End {showCol c})"
  | .erase c vs => s!"(Erase {showCol c} [{showVars vs}])"
  | .for c v a b s => s!"(For {showCol c} {showVar v} {showExpr a} {showExpr b} {showExpr s})"
  | .gosub c e => s!"(Gosub {showCol c} {showExpr e})"
  | .goto c e => s!"(Goto {showCol c} {showExpr e})"
  | .if c p th el => s!"(If {showCol c} {showExpr p} [{showStmts th}] [{showStmts el}])"
  | .input c caps pr vs => s!"(Input {showCol c} {showExpr caps} {showExpr pr} [{showVars vs}])"
  | .let c v e => s!"(Let {showCol c} {showVar v} {showExpr e})"
  | .list c a b => s!"(List {showCol c} {showExpr a} {showExpr b})"
  | .load c e => s!"(Load {showCol c} {showExpr e})"
  | .mid c v p l e => s!"(Mid {showCol c} {showVar v} {showExpr p} {showExpr l} {showExpr e})"
  | .new c => s!"(New {showCol c})"
  | .next c vs => s!"(Next {showCol c} [{showVars vs}])"
  | .onGoto c e ls => s!"(OnGoto {showCol c} {showExpr e} [{showExprs ls}])"
  | .onGosub c e ls => s!"(OnGosub {showCol c} {showExpr e} [{showExprs ls}])"
  | .print c es => s!"(Print {showCol c} [{showExprs es}])"
  | .read c vs => s!"(Read {showCol c} [{showVars vs}])"
  | .renum c a b s => s!"(Renum {showCol c} {showExpr a} {showExpr b} {showExpr s})"
  | .restore c e => s!"(Restore {showCol c} {showExpr e})"
  | .return c => s!"(Return {showCol c})"
  | .run c e => s!"(Run {showCol c} {showExpr e})"
  | .save c e => s!"(Save {showCol c} {showExpr e})"
  | .stop c => s!"(Stop {showCol c})"
  | .swap c a b => s!"(Swap {showCol c} {showVar a} {showVar b})"
  | .troff c => s!"(Troff {showCol c})"
  | .tron c => s!"(Tron {showCol c})"
  | .wend c => s!"(Wend {showCol c})"
  | .while c e => s!"(While {showCol c} {showExpr e})"
def showStmts : List Stmt → String
  | [] => ""
  | [s] => showStmt s
  | s :: ss => showStmt s ++ " " ++ showStmts ss
end

def showParse : Except Error (List Stmt) → String
  | .ok ss => s!"ok [{showStmts ss}]"
  | .error e => "err " ++ showErr e

end Proto
end Basic
