import BasicModel.Model.Token
/-
  `src/lang/ast.rs` — abstract syntax.  Every node carries the column range (in characters of the
  listed line, line number excluded) that the parser recorded for it.
  The 18 binary expression constructors of the Rust enum are one constructor `bin` with a tag.
-/
namespace Basic

abbrev Col := Nat × Nat

inductive BinOp where
  | power | multiply | divide | divideInt | modulo | add | subtract | equal | notEqual | less
  | lessEqual | greater | greaterEqual | and | or | xor | imp | eqv
deriving DecidableEq, Repr, Inhabited

mutual
inductive Variable where
  | unary (c : Col) (i : TIdent)
  | array (c : Col) (i : TIdent) (es : List Expr)
inductive Expr where
  | var (v : Variable)
  | single (c : Col) (bits : UInt32)
  | double (c : Col) (bits : UInt64)
  | integer (c : Col) (n : Int16)
  | string (c : Col) (s : Str)
  | neg (c : Col) (e : Expr)
  | not (c : Col) (e : Expr)
  | bin (op : BinOp) (c : Col) (l r : Expr)
end

instance : Inhabited Variable := ⟨.unary (0, 0) (.plain [])⟩
instance : Inhabited Expr := ⟨.integer (0, 0) 0⟩

inductive Stmt where
  | clear (c : Col)
  | cls (c : Col)
  | cont (c : Col)
  | data (c : Col) (es : List Expr)
  | «def» (c : Col) (v : Variable) (ps : List Variable) (e : Expr)
  | defdbl (c : Col) (a b : Variable)
  | defint (c : Col) (a b : Variable)
  | defsng (c : Col) (a b : Variable)
  | defstr (c : Col) (a b : Variable)
  | delete (c : Col) (a b : Expr)
  | dim (c : Col) (vs : List Variable)
  | «end» (c : Col)
  | erase (c : Col) (vs : List Variable)
  | «for» (c : Col) (v : Variable) (a b s : Expr)
  | gosub (c : Col) (e : Expr)
  | goto (c : Col) (e : Expr)
  | «if» (c : Col) (p : Expr) (th el : List Stmt)
  | input (c : Col) (caps prompt : Expr) (vs : List Variable)
  | «let» (c : Col) (v : Variable) (e : Expr)
  | list (c : Col) (a b : Expr)
  | load (c : Col) (e : Expr)
  | mid (c : Col) (v : Variable) (pos len e : Expr)
  | new (c : Col)
  | next (c : Col) (vs : List Variable)
  | onGoto (c : Col) (e : Expr) (ls : List Expr)
  | onGosub (c : Col) (e : Expr) (ls : List Expr)
  | print (c : Col) (es : List Expr)
  | read (c : Col) (vs : List Variable)
  | renum (c : Col) (a b s : Expr)
  | restore (c : Col) (e : Expr)
  | «return» (c : Col)
  | run (c : Col) (e : Expr)
  | save (c : Col) (e : Expr)
  | stop (c : Col)
  | swap (c : Col) (a b : Variable)
  | troff (c : Col)
  | tron (c : Col)
  | wend (c : Col)
  | «while» (c : Col) (e : Expr)

instance : Inhabited Stmt := ⟨.end (0, 0)⟩

def BinOp.ofOperator : Operator → Option BinOp
  | .caret => some .power | .multiply => some .multiply | .divide => some .divide
  | .divideInt => some .divideInt | .modulo => some .modulo | .plus => some .add
  | .minus => some .subtract | .equal => some .equal | .notEqual => some .notEqual
  | .less => some .less | .lessEqual => some .lessEqual | .greater => some .greater
  | .greaterEqual => some .greaterEqual | .not => none | .and => some .and | .or => some .or
  | .xor => some .xor | .imp => some .imp | .eqv => some .eqv

/-- the Rust constructor names, for the canonical s-expression -/
def BinOp.name : BinOp → String
  | .power => "Power" | .multiply => "Multiply" | .divide => "Divide" | .divideInt => "DivideInt"
  | .modulo => "Modulo" | .add => "Add" | .subtract => "Subtract" | .equal => "Equal"
  | .notEqual => "NotEqual" | .less => "Less" | .lessEqual => "LessEqual" | .greater => "Greater"
  | .greaterEqual => "GreaterEqual" | .and => "And" | .or => "Or" | .xor => "Xor" | .imp => "Imp"
  | .eqv => "Eqv"

end Basic
