import BasicModel.Model.Lex
import BasicModel.Model.Parse
import BasicModel.Model.Ieee
/-
  `Line::renum` and `RenumVisitor` of `src/lang/line.rs`.

  The visitor is driven by `Statement::accept`, which is post-order; `RenumVisitor` implements
  `visit_statement` only, so what matters is the order in which statements are visited: the
  statements of a line from left to right, and for IF its THEN statements, then its ELSE
  statements, then the IF itself (which has no line-number operand).
  Every line-number operand whose value is a key of `changes` is pushed as (column, new number);
  the replacements are then applied to the printed token text from the last pushed to the first,
  by character positions, and the result is lexed again.
-/
namespace Basic
namespace Lex

open Ieee in
/-- the `f64` value `m · 2^q` is greater than `k` -/
def mqGreater (m : Nat) (q : Int) (k : Nat) : Bool :=
  if q ≥ 0 then m * 2 ^ q.toNat > k else m > k * 2 ^ (-q).toNat

open Ieee in
/-- the checks of `RenumVisitor::line` on a float operand, and `n as u16`:
    `none` when `n < 0.0 || n > 65529.0`; NaN passes both comparisons and is cast to 0 -/
def lineOfFloat (f : Fp) (bits : Nat) : Option Nat :=
  match decode f bits with
  | .nan => some 0
  | .inf _ => none
  | .zero _ => some 0
  | .finite neg m q _ =>
    if neg then none
    else if mqGreater m q maxLineNumber then none
    else some (floorMQ false m q).toNat

/-- the `(col, n)` of `RenumVisitor::line`: column and line number of a numeric-literal operand that
    passes the range checks; `f32 as f64` is exact, so a Single is decoded as it is -/
def lineOperand : Expr → Option (Col × Nat)
  | .single c b => (lineOfFloat Ieee.fp32 b.toNat).map fun n => (c, n)
  | .double c b => (lineOfFloat Ieee.fp64 b.toNat).map fun n => (c, n)
  | .integer c n => if n.toInt < 0 then none else some (c, n.toInt.toNat)
  | _ => none

/-- `RenumVisitor::line`: what it pushes on `replace` -/
def lineRef (changes : List (Nat × Nat)) (e : Expr) : List (Col × Nat) :=
  match lineOperand e with
  | some (c, n) =>
    if c.1 = c.2 then []                       -- no number was written in the source
    else match changes.lookup n with
      | some new => [(c, new)]
      | none => []
  | none => []

mutual
/-- `Statement::accept` with `RenumVisitor`: the pushes, in order -/
def visitStmt (changes : List (Nat × Nat)) : Stmt → List (Col × Nat)
  | .goto _ e | .gosub _ e | .restore _ e | .run _ e => lineRef changes e
  | .delete _ a b | .list _ a b => lineRef changes a ++ lineRef changes b
  | .onGoto _ _ ls | .onGosub _ _ ls => ls.flatMap (lineRef changes)
  | .if _ _ th el => visitStmts changes th ++ visitStmts changes el
  | _ => []
def visitStmts (changes : List (Nat × Nat)) : List Stmt → List (Col × Nat)
  | [] => []
  | st :: sts => visitStmt changes st ++ visitStmts changes sts
end

/-- `s.replace_range(byte_at(col.start)..byte_at(col.end), &num.to_string())`, by characters;
    positions past the end are clamped to the end -/
def spliceNumber (s : Str) (r : Col × Nat) : Str :=
  s.take r.1.1 ++ RStd.natDigits r.2 ++ s.drop r.1.2

/-- `while let Some(r) = replace.pop() { splice }`: from the last pushed to the first -/
def applyReplacements (reps : List (Col × Nat)) (s : Str) : Str :=
  reps.foldr (fun r s => spliceNumber s r) s

/-- `Line::renum` -/
def lineRenum (changes : List (Nat × Nat)) (line : Line) : Line :=
  let number := match line.number with
    | some n => (changes.lookup n).or (some n)
    | none => none
  match Parse.parse line.number line.tokens with
  | .error _ => ⟨line.number, line.tokens⟩      -- (sic) an unparsable line keeps its old number too
  | .ok ast =>
    let reps := visitStmts changes ast
    if reps.isEmpty then ⟨number, line.tokens⟩
    else ⟨number, (lex (applyReplacements reps (printTokens line.tokens))).2⟩

end Lex
end Basic
