import BasicModel.Model.Std
/-
  Decimal <-> binary floating point, by exact rational arithmetic.

  * `shortest`  — the digits Rust's `{}` / `{:E}` print: the shortest decimal that reads back to the
                  same float, closest to the true value among those (core::fmt's contract; trusted,
                  validated against Rust on random bit patterns by the correspondence).
  * `parseF32/parseF64` — `str::parse::<f32|f64>`: grammar of `core::num::dec2flt` and
                  round-half-even directly to 24 / 53 bits.
  * integer parsing (`parse::<i16|u16>`, `from_str_radix`).
-/
namespace Basic
namespace Fmt
open RStd Ieee

def pow2 (q : Int) : Rat := (2 : Rat) ^ q
def pow10 (k : Int) : Rat := (10 : Rat) ^ k

/-- floor(log10 v) for v > 0, by search from an estimate -/
def floorLog10 (v : Rat) : Int :=
  let rec up (fuel : Nat) (k : Int) : Int :=
    match fuel with
    | 0 => k
    | fuel+1 => if pow10 (k+1) ≤ v then up fuel (k+1) else k
  let rec down (fuel : Nat) (k : Int) : Int :=
    match fuel with
    | 0 => k
    | fuel+1 => if v < pow10 k then down fuel (k-1) else k
  up 700 (down 700 0)

/-- shortest round-trip digits: `(D, n, k)` with value ≈ D * 10^k, D having n digits -/
def shortest (maxDigits : Nat) (m : Nat) (q : Int) (lowerHalf : Bool) : Nat × Nat × Int :=
  let v : Rat := (m : Rat) * pow2 q
  let hi := v + pow2 q / 2
  let lo := v - (if lowerHalf then pow2 q / 4 else pow2 q / 2)
  let even := m % 2 = 0
  let inside (x : Rat) : Bool := if even then lo ≤ x && x ≤ hi else lo < x && x < hi
  let l10 := floorLog10 v
  let rec go (fuel n : Nat) : Nat × Nat × Int :=
    match fuel with
    | 0 => (0, 1, 0)
    | fuel+1 =>
      let k : Int := l10 + 1 - (n : Int)
      let scaled := v / pow10 k
      let d := scaled.floor.toNat
      let c1 : Rat := (d : Rat) * pow10 k
      let c2 : Rat := ((d + 1 : Nat) : Rat) * pow10 k
      let in1 := inside c1 && d ≥ 10 ^ (n - 1)
      let in2 := inside c2
      let pick : Option Nat :=
        if in1 && in2 then (if v - c1 < c2 - v then some d else some (d+1))
        else if in1 then some d else if in2 then some (d+1) else none
      match pick with
      | some dd => if dd = 10 ^ n then (10 ^ (n-1), n, k + 1) else (dd, n, k)
      | none => go fuel (n+1)
  go maxDigits 1

def zeros (n : Nat) : Str := List.replicate n '0'

/-- positional notation, as Rust's `{}` for floats -/
def plain (d n : Nat) (k : Int) : Str :=
  let ds := natDigits d
  if k ≥ 0 then ds ++ zeros k.toNat
  else
    let pp : Int := (n : Int) + k
    if pp > 0 then ds.take pp.toNat ++ '.' :: ds.drop pp.toNat
    else '0' :: '.' :: zeros (-pp).toNat ++ ds

/-- scientific notation, as Rust's `{:E}` -/
def sci (d n : Nat) (k : Int) : Str :=
  let ds := natDigits d
  let e : Int := k + (n : Int) - 1
  let mant := match ds with
    | [] => []
    | c :: rest => if rest.isEmpty then [c] else c :: '.' :: rest
  mant ++ 'E' :: showInt e

def fmtFloat (f : Fp) (maxDigits : Nat) (bits : Nat) (scientific : Bool) : Str :=
  match decode f bits with
  | .nan => "NaN".toList
  | .inf neg => (if neg then "-inf" else "inf").toList
  | .zero neg => (if neg then ['-'] else []) ++ (if scientific then "0E0".toList else ['0'])
  | .finite neg m q lh =>
    let (d, n, k) := shortest maxDigits m q lh
    (if neg then ['-'] else []) ++ (if scientific then sci d n k else plain d n k)

def countDigits (s : Str) : Nat := (s.filter Char.isDigit).length

/-! ### decimal → float -/

def isDigit (c : Char) : Bool := '0' ≤ c && c ≤ '9'
def digitVal (c : Char) : Nat := c.toNat - 48

def takeDigits : Str → Str × Str
  | [] => ([], [])
  | c :: cs => if isDigit c then let (a, b) := takeDigits cs; (c :: a, b) else ([], c :: cs)

def digitsToNat (s : Str) : Nat := s.foldl (fun acc c => acc * 10 + digitVal c) 0

def lower (s : Str) : Str := s.map Char.toLower

inductive Parsed where
  | num (neg : Bool) (mant : Nat) (e10 : Int) (ndig : Nat)
  | inf (neg : Bool)
  | nan (neg : Bool)
deriving Repr

/-- grammar of `core::num::dec2flt` -/
def parseDecimal (s : Str) : Option Parsed :=
  let (neg, s) := match s with
    | '-' :: r => (true, r)
    | '+' :: r => (false, r)
    | _ => (false, s)
  let ls := lower s
  if ls = "inf".toList || ls = "infinity".toList then some (.inf neg)
  else if ls = "nan".toList then some (.nan neg)
  else
    let (ip, r1) := takeDigits s
    let (fp, r2, hadDot) := match r1 with
      | '.' :: r => let (f, r') := takeDigits r; (f, r', true)
      | _ => ([], r1, false)
    let _ := hadDot
    if ip.isEmpty && fp.isEmpty then none
    else
      let mant := digitsToNat (ip ++ fp)
      let nd := (ip ++ fp).length
      match r2 with
      | [] => some (.num neg mant (-(fp.length : Int)) nd)
      | c :: r =>
        if c = 'e' || c = 'E' then
          let (eneg, r) := match r with
            | '-' :: r' => (true, r')
            | '+' :: r' => (false, r')
            | _ => (false, r)
          let (ed, rest) := takeDigits r
          if ed.isEmpty || !rest.isEmpty then none
          else
            -- clamp absurd exponents (the value is 0 or inf anyway)
            let ev : Int := if ed.length > 6 then 1000000 else (digitsToNat ed : Int)
            let ev := if eneg then -ev else ev
            some (.num neg mant (ev - (fp.length : Int)) nd)
        else none

/-- floor(log2 v) for v > 0 -/
def floorLog2 (v : Rat) : Int :=
  let est : Int := (Nat.log2 v.num.natAbs : Int) - (Nat.log2 v.den : Int)
  let rec up (fuel : Nat) (k : Int) : Int :=
    match fuel with
    | 0 => k
    | fuel+1 => if pow2 (k+1) ≤ v then up fuel (k+1) else k
  let rec down (fuel : Nat) (k : Int) : Int :=
    match fuel with
    | 0 => k
    | fuel+1 => if v < pow2 k then down fuel (k-1) else k
  up 4 (down 4 est)

def roundHalfEven (x : Rat) : Nat :=
  let fl := x.floor
  let r := x - (fl : Rat)
  let half : Rat := 1 / 2
  (if r < half then fl else if half < r then fl + 1 else if fl % 2 = 0 then fl else fl + 1).toNat

/-- encode sign/m/q (value = m·2^q, already rounded to ≤ p bits) as bits; overflow → inf -/
def encode (f : Fp) (neg : Bool) (m : Nat) (q : Int) : Nat :=
  let signBit := if neg then 2 ^ (f.p - 1 + f.ew) else 0
  let infBits := (2 ^ f.ew - 1) * 2 ^ (f.p - 1)
  if m = 0 then signBit
  else
    -- normalise m = 2^p (rounding carried)
    let (m, q) := if m ≥ 2 ^ f.p then (m / 2, q + 1) else (m, q)
    if m < 2 ^ (f.p - 1) then signBit + m   -- subnormal (q = qmin)
    else
      let e : Int := q - f.qmin + 1
      if e ≥ (2 ^ f.ew - 1 : Nat) then signBit + infBits
      else signBit + e.toNat * 2 ^ (f.p - 1) + (m - 2 ^ (f.p - 1))

/-- nearest float (ties to even) to `mant · 10^e10` -/
def roundDecimal (f : Fp) (neg : Bool) (mant : Nat) (e10 : Int) (ndig : Nat) : Nat :=
  let signBit := if neg then 2 ^ (f.p - 1 + f.ew) else 0
  let infBits := (2 ^ f.ew - 1) * 2 ^ (f.p - 1)
  if mant = 0 then signBit
  else if e10 + (ndig : Int) > 400 then signBit + infBits
  else if e10 + (ndig : Int) < -400 then signBit
  else
    let v : Rat := (mant : Rat) * pow10 e10
    let e2 := floorLog2 v
    let q : Int := max (e2 - ((f.p : Int) - 1)) f.qmin
    let m := roundHalfEven (v / pow2 q)
    encode f neg m q

def nanBits (f : Fp) : Nat := (2 ^ f.ew - 1) * 2 ^ (f.p - 1) + 2 ^ (f.p - 2)

def parseFloat (f : Fp) (s : Str) : Option Nat :=
  match parseDecimal s with
  | none => none
  | some (.inf neg) => some ((if neg then 2 ^ (f.p - 1 + f.ew) else 0) + (2 ^ f.ew - 1) * 2 ^ (f.p - 1))
  | some (.nan _) => some (nanBits f)
  | some (.num neg mant e10 nd) => some (roundDecimal f neg mant e10 nd)

def parseF32 (s : Str) : Option UInt32 := (parseFloat fp32 s).map UInt32.ofNat
def parseF64 (s : Str) : Option UInt64 := (parseFloat fp64 s).map UInt64.ofNat

/-- `str::parse::<i16>()` -/
def parseI16 (s : Str) : Option Int16 :=
  let (neg, r) := match s with
    | '-' :: r => (true, r)
    | '+' :: r => (false, r)
    | _ => (false, s)
  if r.isEmpty || !r.all isDigit then none
  else
    let r' := r.dropWhile (· = '0')
    if r'.length > 6 then none
    else
      let n : Int := digitsToNat r'
      let z := if neg then -n else n
      if inI16 z then some (Int16.ofInt z) else none

/-- `str::parse::<u16>()` -/
def parseU16 (s : Str) : Option Nat :=
  let r := match s with
    | '+' :: r => r
    | _ => s
  if r.isEmpty || !r.all isDigit then none
  else
    let r' := r.dropWhile (· = '0')
    if r'.length > 6 then none
    else
      let n := digitsToNat r'
      if n ≤ 65535 then some n else none

def radixDigit (radix : Nat) (c : Char) : Option Nat :=
  let d := if isDigit c then some (digitVal c)
    else if 'a' ≤ c && c ≤ 'z' then some (c.toNat - 87)
    else if 'A' ≤ c && c ≤ 'Z' then some (c.toNat - 55)
    else none
  match d with
  | some d => if d < radix then some d else none
  | none => none

/-- `i16::from_str_radix(s, radix)` -/
def parseI16Radix (s : Str) (radix : Nat) : Option Int16 :=
  let (neg, r) := match s with
    | '-' :: r => (true, r)
    | '+' :: r => (false, r)
    | _ => (false, s)
  if r.isEmpty then none
  else
    let rec go : Str → Nat → Option Nat
      | [], acc => some acc
      | c :: cs, acc => match radixDigit radix c with
        | some d => if acc > 100000 then none else go cs (acc * radix + d)
        | none => none
    match go r 0 with
    | none => none
    | some n =>
      let z : Int := if neg then -(n : Int) else n
      if inI16 z then some (Int16.ofInt z) else none

end Fmt

/-! ### `Display for Val` and `From<&str> for Val` -/

open Fmt RStd Ieee in
/-- `impl Display for Val` -/
def Val.display : Val → Str
  | .str s => s
  | .int n => let s := showInt n.toInt; if s.head? = some '-' then s else ' ' :: s
  | .sng b =>
    let s := fmtFloat fp32 9 b.toNat false
    let s := if countDigits s > 9 then fmtFloat fp32 9 b.toNat true else s
    if s.head? = some '-' then s else ' ' :: s
  | .dbl b =>
    let s := fmtFloat fp64 17 b.toNat false
    let s := if countDigits s > 17 then fmtFloat fp64 17 b.toNat true else s
    if s.head? = some '-' then s else ' ' :: s
  | _ => []

open Fmt in
/-- `impl From<&str> for Val` (INPUT fields, VAL, DATA-less conversions) -/
def Val.ofStr (string : Str) : Val :=
  let radix : Option Val := match string with
    | '&' :: rest =>
      (match rest with
       | c :: r =>
         if c = 'H' || c = 'h' then (parseI16Radix r 16).map Val.int
         else (parseI16Radix rest 8).map Val.int
       | [] => none)
    | _ => none
  match radix with
  | some v => v
  | none =>
    let s := string.map (fun c => if c = 'D' then 'E' else if c = 'd' then 'e' else c)
    let s := match s.getLast? with
      | some '!' | some '#' | some '%' => s.dropLast
      | _ => s
    match parseF64 s with
    | some b => .dbl b
    | none => .str string

end Basic
