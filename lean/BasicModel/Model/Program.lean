import BasicModel.Model.Codegen
import BasicModel.Model.Parse
/-
  `src/mach/program.rs` — program memory: the linked object plus compile-time diagnostics.
-/
namespace Basic

structure Program where
  errors : List Error := []
  indirectErrors : List Error := []
  directAddress : Nat := 0
  lineNumber : Option Nat := none
  link : Link := {}
deriving Inhabited

namespace Program

/-- `Program::clear` -/
def clear (p : Program) : Program :=
  { errors := [], indirectErrors := [], directAddress := 0, lineNumber := none, link := p.link.clear }

/-- `Program::link` -/
def linkProg (p : Program) : Program :=
  let pushEnd (p : Program) : Program :=
    let (l, r) := p.link.push .end
    match r with
    | .ok () => { p with link := l }
    | .error e => { p with link := l, errors := p.errors ++ [e] }
  let p := match p.link.ops.back? with
    | some .end => if p.link.hasLineAtEnd then pushEnd p else p
    | _ => pushEnd p
  let (l, linkErrs) := p.link.link
  let p := { p with link := l }
  let p := if p.errors.isEmpty then { p with errors := linkErrs } else p
  if p.directAddress = 0 then
    { p with indirectErrors := p.errors, errors := [], directAddress := p.link.ops.size,
             link := p.link.setStartOfDirect p.link.ops.size }
  else p

/-- one iteration of the loop in `Program::codegen` -/
def codegenLine (p : Program) (line : Line) : Program :=
  let p := if line.number.isNone then p.linkProg else p
  let p := { p with lineNumber := line.number }
  let p := match line.number with
    | some n => { p with link := p.link.pushSymbol n }
    | none => { p with link := { p.link with ops := p.link.ops.extract 0 p.directAddress }, errors := [] }
  match Parse.parse line.number line.tokens with
  | .error e => { p with errors := p.errors ++ [e] }
  | .ok ast =>
    let (link, errs) := Codegen.codegen p.link ast
    let p := { p with link := link, errors := p.errors ++ errs.map (·.inLine p.lineNumber) }
    if line.number.isNone then
      let (l, r) := p.link.push .end
      match r with
      | .ok () => { p with link := l }
      | .error e => { p with link := l, errors := p.errors ++ [e] }
    else p

def codegenLines (p : Program) (lines : List Line) : Program := lines.foldl codegenLine p

/-- compile a whole listing (ascending lines) from scratch and link it -/
def compile (lines : List Line) : Program := (codegenLines {} lines).linkProg

end Program
end Basic
