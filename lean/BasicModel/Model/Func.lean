import BasicModel.Model.Fmt
import BasicModel.Model.Ops
/-
  `src/mach/function.rs` — built-in functions.  Strings are `List Char`; the Rust code obtains
  every slice position from `char_indices()`, so all slicing is at character boundaries.
-/
namespace Basic
open F RStd

namespace Func

@[inline] def num1 (fs : Float32 → Float32) (fd : Float → Float) : Val → Res Val
  | .int n => .ok (.sng (b32 (fs (i2s n))))
  | .sng b => .ok (.sng (b32 (fs (f32 b))))
  | .dbl b => .ok (.dbl (b64 (fd (f64 b))))
  | _ => err Code.typeMismatch

def abs : Val → Res Val
  | .int n => match checkedAbs n with
    | some r => .ok (.int r)
    | none => err Code.overflow
  | .sng b => .ok (.sng (b32 (f32 b).abs))
  | .dbl b => .ok (.dbl (b64 (f64 b).abs))
  | _ => err Code.typeMismatch

def asc (v : Val) : Res Val := do
  let s ← v.toStr
  match s with
  | ch :: _ =>
    let n := ch.toNat
    if n ≤ 32767 then .ok (.int (Int16.ofNat n))
    else if n ≤ 16777216 then .ok (.sng (b32 (Float32.ofNat n)))
    else .ok (.dbl (b64 (Float.ofNat n)))
  | [] => err Code.illegalFunctionCall

def atn := num1 Float32.atan Float.atan
def cos := num1 Float32.cos Float.cos
def exp := num1 Float32.exp Float.exp
def log := num1 Float32.log Float.log
def sin := num1 Float32.sin Float.sin
def sqr := num1 Float32.sqrt Float.sqrt
def tan := num1 Float32.tan Float.tan

def cdbl : Val → Res Val
  | .int n => .ok (.dbl (b64 (i2d n)))
  | .sng b => .ok (.dbl (b64 (s2d (f32 b))))
  | .dbl b => .ok (.dbl b)
  | _ => err Code.typeMismatch

def csng : Val → Res Val
  | .int n => .ok (.sng (b32 (i2s n)))
  | .sng b => .ok (.sng b)
  | .dbl b => .ok (.sng (b32 (d2s (f64 b))))
  | _ => err Code.typeMismatch

/-- `char::try_from(u32)`: scalar values only -/
def charOfNat (n : Nat) : Option Char :=
  if h : Nat.isValidChar n then some ⟨UInt32.ofNat n, by
    have : n < 2^32 := by
      rcases h with h | h
      · omega
      · omega
    simpa [UInt32.isValidChar, UInt32.toNat_ofNat, Nat.mod_eq_of_lt this] using h⟩ else none

def chr (v : Val) : Res Val := do
  let n ← v.toU32
  match charOfNat n with
  | some c => .ok (.str [c])
  | none => err Code.overflow

def cint (v : Val) : Res Val := do return .int (← v.toI16)

def fix : Val → Res Val
  | .int n => .ok (.int n)
  | .sng b => .ok (.sng (b32 (trunc32 (f32 b))))
  | .dbl b => .ok (.dbl (b64 (trunc64 (f64 b))))
  | _ => err Code.typeMismatch

def int : Val → Res Val
  | .int n => .ok (.int n)
  | .sng b => .ok (.sng (b32 (f32 b).floor))
  | .dbl b => .ok (.dbl (b64 (f64 b).floor))
  | _ => err Code.typeMismatch

/-- `format!("{:X}", i16)` / `{:o}`: two's complement of the 16-bit pattern -/
def hex (v : Val) : Res Val := do
  let n ← v.toI16
  return .str (toBase 16 n.toUInt16.toNat)
def oct (v : Val) : Res Val := do
  let n ← v.toI16
  return .str (toBase 8 n.toUInt16.toNat)

/-- first index `i` such that `pat` is a prefix of `s.drop i` -/
def findSub (pat : Str) : Str → Nat → Option Nat
  | [], i => if pat.isEmpty then some i else none
  | c :: cs, i => if pat.isPrefixOf (c :: cs) then some i else findSub pat cs (i+1)

/-- `Function::instr`; `args` bottom-first: `[start?, string, pattern]` -/
def instr (args : List Val) : Res Val := do
  match args.reverse with
  | pat :: str :: rest =>
    let pattern ← pat.toStr
    let string ← str.toStr
    let start : Int ← match rest with
      | n :: _ => do let i ← n.toI16; pure i.toInt
      | [] => pure 1
    if start = 0 then errMsg Code.illegalFunctionCall "START IS 0"
    else if start < 0 then err Code.illegalFunctionCall
    else
      let st := start.toNat
      if st - 1 ≥ string.length then .ok (.int 0)
      else match findSub pattern (string.drop (st - 1)) 0 with
        | some i => Val.ofUsize (i + st)
        | none => .ok (.int 0)
  | _ => errMsg Code.internalError "UNDERFLOW"

def left (string len : Val) : Res Val := do
  let n ← len.toUsize
  let s ← string.toStr
  return .str (s.take n)

def len (string : Val) : Res Val := do
  let s ← string.toStr
  Val.ofUsize s.length

/-- `Function::mid`; `args` bottom-first: `[string, pos, len?]` -/
def mid (args : List Val) : Res Val := do
  let (len?, rest) ← match args.reverse with
    | l :: p :: s :: [] => do let n ← l.toU16; pure (some n, [p, s])
    | r => pure (none, r)
  match rest with
  | p :: s :: _ =>
    let pos ← p.toUsize
    if pos = 0 then err Code.overflow
    else
      let string ← s.toStr
      let tail := string.drop (pos - 1)
      match len? with
      | none => .ok (.str tail)
      | some l => .ok (.str (tail.take l))
  | _ => errMsg Code.internalError "UNDERFLOW"

def pos (printCol : Nat) : Res Val :=
  if printCol ≤ 32767 then .ok (.int (Int16.ofNat printCol)) else err Code.overflow

def right (string len : Val) : Res Val := do
  let n ← len.toUsize
  if n = 0 then .ok (.str [])
  else
    let s ← string.toStr
    return .str (s.drop (s.length - n))

def sgn : Val → Res Val
  | .int n => .ok (.int (if n = 0 then 0 else if n.toInt < 0 then -1 else 1))
  | .sng b => let x := f32 b; .ok (.int (if x == 0 then 0 else if b.toNat ≥ 2^31 then -1 else 1))
  | .dbl b => let x := f64 b; .ok (.int (if x == 0 then 0 else if b.toNat ≥ 2^63 then -1 else 1))
  | _ => err Code.typeMismatch

def spc (v : Val) : Res Val := do
  let n ← v.toUsize
  if n > 255 then err Code.overflow else .ok (.str (List.replicate n ' '))

def str (v : Val) : Res Val :=
  if v.isNumeric then .ok (.str v.display) else err Code.typeMismatch

def string (num ch : Val) : Res Val := do
  let n ← num.toUsize
  if n > 255 then err Code.overflow
  else
    let c ← match ch with
      | .str s => (match s with
        | c :: _ => pure c
        | [] => err Code.illegalFunctionCall)
      | v => do
        let k ← v.toU32
        match charOfNat k with
        | some c => pure c
        | none => err Code.overflow
    return .str (List.replicate n c)

def tab (printCol : Nat) (v : Val) : Res Val := do
  let t ← v.toI16
  let t := t.toInt
  if t < -255 || t > 255 then err Code.overflow
  else
    let len : Nat :=
      if t < 0 then let k := (-t).toNat; k - printCol % k
      else if t.toNat > printCol then t.toNat - printCol else 0
    return .str (List.replicate len ' ')

/-- `str::trim` (Unicode White_Space) -/
def trim (s : Str) : Str := RStd.trim s

/-- `Function::val`: longest prefix of the trimmed string that `Val::from` accepts as a number -/
def val (v : Val) : Res Val :=
  match v with
  | .str s =>
    let rec go (fuel : Nat) (s : Str) : Val :=
      match fuel with
      | 0 => .int 0
      | fuel+1 =>
        if s.isEmpty then .int 0
        else match Val.ofStr s with
          | .str _ => go fuel s.dropLast
          | w => w
    .ok (go (s.length + 1) (trim s))
  | _ => err Code.typeMismatch

/-- `Function::rnd`; `args` is the popped vector (at most one value) -/
def rnd (st : Nat × Nat × Nat) (args : List Val) : Res ((Nat × Nat × Nat) × Val) := do
  let v : Float32 ← match args.reverse with
    | a :: _ => a.toF32
    | [] => pure 1
  let st := if v < 0 then
      -- u32::from_le_bytes(val.to_be_bytes()) & 0x00FF_FFFF : byte-swap then mask
      let b := (b32 v).toNat
      let sw := (b % 256) * 2^24 + (b / 256 % 256) * 2^16 + (b / 65536 % 256) * 2^8 + b / 2^24
      let seed := sw % 2^24
      (seed, seed, seed) else st
  let st := if v != 0 then ((171 * st.1) % 30269, (172 * st.2.1) % 30307, (170 * st.2.2) % 30323) else st
  let x : Float32 := Float32.ofNat st.1 / 30269.0 + Float32.ofNat st.2.1 / 30307.0 + Float32.ofNat st.2.2 / 30323.0
  -- `% 1.0` on a non-negative float: subtract the integer part (fmodf is exact)
  let r := x - x.floor
  return (st, .sng (b32 r))

end Func
end Basic
