import BasicModel.Model.Err
/-
  IEEE-754 binary32 / binary64 bit patterns decoded by integer arithmetic (no `Float` involved):
  class, sign, integer mantissa `m` and exponent `q` with value = m · 2^q.  `floorInt` is the exact
  floor used by the float → Integer conversions; it is proved about in `Lemmas/Ieee.lean`.
-/
namespace Basic
namespace Ieee

/-- IEEE-754 format parameters: mantissa bits (with hidden bit) and exponent field width -/
structure Fp where
  p : Nat      -- precision incl. hidden bit (24 / 53)
  ew : Nat     -- exponent field width (8 / 11)

def fp32 : Fp := ⟨24, 8⟩
def fp64 : Fp := ⟨53, 11⟩
def Fp.bias (f : Fp) : Nat := 2 ^ (f.ew - 1) - 1
/-- exponent of the least significant bit of subnormals -/
def Fp.qmin (f : Fp) : Int := 1 - (f.bias : Int) - ((f.p : Int) - 1)

inductive Decoded where
  | zero (neg : Bool)
  | finite (neg : Bool) (m : Nat) (q : Int) (lowerHalf : Bool)   -- value = m * 2^q
  | inf (neg : Bool)
  | nan
deriving Repr

def decode (f : Fp) (bits : Nat) : Decoded :=
  let fracBits := f.p - 1
  let frac := bits % 2 ^ fracBits
  let e := (bits / 2 ^ fracBits) % 2 ^ f.ew
  let neg := (bits / 2 ^ (fracBits + f.ew)) % 2 = 1
  if e = 2 ^ f.ew - 1 then (if frac = 0 then .inf neg else .nan)
  else if e = 0 then (if frac = 0 then .zero neg else .finite neg frac f.qmin false)
  else .finite neg (frac + 2 ^ fracBits) ((e : Int) - 1 + f.qmin) (frac = 0 && e > 1)


/-- ⌊± m · 2^q⌋ as an integer -/
def floorMQ (neg : Bool) (m : Nat) (q : Int) : Int :=
  let z : Int := if neg then -(m : Int) else (m : Int)
  if q ≥ 0 then z * (2 : Int) ^ q.toNat else z / (2 : Int) ^ (-q).toNat

/-- floor of a finite float; `none` for NaN and ±inf -/
def floorInt (f : Fp) (bits : Nat) : Option Int :=
  match decode f bits with
  | .zero _ => some 0
  | .finite neg m q _ => some (floorMQ neg m q)
  | .inf _ => none
  | .nan => none

end Ieee
end Basic
