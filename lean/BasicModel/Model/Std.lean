import BasicModel.Model.Val
/-
  Documented meaning of the Rust `std` / compiler-rt operations the interpreter relies on
  (trusted base, exercised by the correspondence): checked integer arithmetic, `powi`,
  string ordering, numeral parsing and printing of integers.
-/
namespace Basic
namespace RStd

def inI16 (z : Int) : Bool := -32768 ≤ z && z ≤ 32767

/-- `i16::checked_add` -/
def checkedAdd (a b : Int16) : Option Int16 :=
  if inI16 (a.toInt + b.toInt) then some (a + b) else none
/-- `i16::checked_sub` -/
def checkedSub (a b : Int16) : Option Int16 :=
  if inI16 (a.toInt - b.toInt) then some (a - b) else none
/-- `i16::checked_mul` -/
def checkedMul (a b : Int16) : Option Int16 :=
  if inI16 (a.toInt * b.toInt) then some (a * b) else none
/-- `i16::checked_neg` -/
def checkedNeg (a : Int16) : Option Int16 :=
  if inI16 (- a.toInt) then some (-a) else none
/-- `i16::checked_abs` -/
def checkedAbs (a : Int16) : Option Int16 :=
  if a.toInt < 0 then checkedNeg a else some a
/-- `i16::checked_div`: `None` on a zero divisor and on `MIN / -1` -/
def checkedDiv (a b : Int16) : Option Int16 :=
  if b = 0 then none
  else if inI16 (a.toInt.tdiv b.toInt) then some (Int16.ofInt (a.toInt.tdiv b.toInt)) else none
/-- `i16::checked_rem`: `None` on a zero divisor and on `MIN % -1` -/
def checkedRem (a b : Int16) : Option Int16 :=
  if b = 0 then none
  else if inI16 (a.toInt.tdiv b.toInt) then some (Int16.ofInt (a.toInt.tmod b.toInt)) else none
/-- `i16::checked_pow(exp : u32)`; square-and-multiply over `checked_mul` overflows exactly when the
    true power is out of range -/
def checkedPow (a : Int16) (n : Nat) : Option Int16 :=
  if inI16 (a.toInt ^ n) then some (Int16.ofInt (a.toInt ^ n)) else none

/-- compiler-rt `__powisf2` (what `f32::powi` lowers to) -/
def powi32 (a : Float32) (b : Int) : Float32 :=
  let rec go (fuel : Nat) (a r : Float32) (b : Nat) : Float32 :=
    match fuel with
    | 0 => r
    | fuel+1 =>
      let r := if b % 2 = 1 then r * a else r
      let b := b / 2
      if b = 0 then r else go fuel (a * a) r b
  let r := go 40 a 1 b.natAbs
  if b < 0 then 1 / r else r

/-- compiler-rt `__powidf2` -/
def powi64 (a : Float) (b : Int) : Float :=
  let rec go (fuel : Nat) (a r : Float) (b : Nat) : Float :=
    match fuel with
    | 0 => r
    | fuel+1 =>
      let r := if b % 2 = 1 then r * a else r
      let b := b / 2
      if b = 0 then r else go fuel (a * a) r b
  let r := go 40 a 1 b.natAbs
  if b < 0 then 1 / r else r

/-- `str` ordering (`<` on `Rc<str>`): lexicographic by UTF-8 bytes = by code points -/
def strLt : Str → Str → Bool
  | [], [] => false
  | [], _ :: _ => true
  | _ :: _, [] => false
  | a :: as, b :: bs => if a.val < b.val then true else if b.val < a.val then false else strLt as bs

def strLe (a b : Str) : Bool := !strLt b a

/-- `char::is_whitespace` (Unicode White_Space) -/
def isWhitespace (c : Char) : Bool :=
  let n := c.toNat
  (9 ≤ n && n ≤ 13) || n = 32 || n = 0x85 || n = 0xA0 || n = 0x1680 || (0x2000 ≤ n && n ≤ 0x200A) ||
  n = 0x2028 || n = 0x2029 || n = 0x202F || n = 0x205F || n = 0x3000

/-- `str::trim` -/
def trim (s : Str) : Str := ((s.dropWhile isWhitespace).reverse.dropWhile isWhitespace).reverse

/-- `str::len()`: length in UTF-8 bytes -/
def utf8Len (s : Str) : Nat := (s.map Char.utf8Size).sum

/-- decimal digits of a natural number, most significant first -/
def natDigits (n : Nat) : Str := (toString n).toList

/-- `format!("{}", i16)` -/
def showInt (z : Int) : Str := if z < 0 then '-' :: natDigits z.natAbs else natDigits z.natAbs

def hexDigit (d : Nat) : Char := if d < 10 then Char.ofNat (48 + d) else Char.ofNat (55 + d)

def toBase (base : Nat) (n : Nat) : Str :=
  let rec go (fuel n : Nat) (acc : Str) : Str :=
    match fuel with
    | 0 => acc
    | fuel+1 => if n < base then hexDigit n :: acc else go fuel (n / base) (hexDigit (n % base) :: acc)
  go 64 n []

end RStd
end Basic
