import BasicModel.Model.Std
/-
  `src/lang/token.rs` — token types and their `Display` (the listed text).
-/
namespace Basic

inductive Literal where
  | single (s : Str) | double (s : Str) | integer (s : Str) | hex (s : Str) | octal (s : Str) | string (s : Str)
deriving DecidableEq, Repr, Inhabited

inductive Word where
  | clear | cls | cont | data | «def» | defdbl | defint | defsng | defstr | delete | dim | «else» | «end»
  | erase | «for» | gosub | goto | «if» | input | «let» | list | load | new | next | on | print | read
  | rem1 | rem2 | renum | restore | «return» | save | step | stop | swap | run | «then» | to | troff
  | tron | wend | «while»
deriving DecidableEq, Repr, Inhabited

inductive Operator where
  | caret | multiply | divide | divideInt | modulo | plus | minus | equal | notEqual | less | lessEqual
  | greater | greaterEqual | not | and | or | xor | imp | eqv
deriving DecidableEq, Repr, Inhabited

inductive TIdent where
  | plain (s : Str) | string (s : Str) | single (s : Str) | double (s : Str) | integer (s : Str)
deriving DecidableEq, Repr, Inhabited

def TIdent.name : TIdent → Str
  | .plain s | .string s | .single s | .double s | .integer s => s

inductive Token where
  | unknown (s : Str)
  | whitespace (n : Nat)
  | literal (l : Literal)
  | word (w : Word)
  | operator (o : Operator)
  | ident (i : TIdent)
  | lparen | rparen | comma | colon | semicolon
deriving DecidableEq, Repr, Inhabited

def Literal.text : Literal → Str
  | .single s | .double s | .integer s => s
  | .hex s => '&' :: 'H' :: s
  | .octal s => '&' :: s
  | .string s => '"' :: s ++ ['"']

def Word.text : Word → Str
  | .clear => "CLEAR".toList | .cls => "CLS".toList | .cont => "CONT".toList | .data => "DATA".toList
  | .def => "DEF".toList | .defdbl => "DEFDBL".toList | .defint => "DEFINT".toList
  | .defsng => "DEFSNG".toList | .defstr => "DEFSTR".toList | .delete => "DELETE".toList
  | .dim => "DIM".toList | .else => "ELSE".toList | .end => "END".toList | .erase => "ERASE".toList
  | .for => "FOR".toList | .gosub => "GOSUB".toList | .goto => "GOTO".toList | .if => "IF".toList
  | .input => "INPUT".toList | .let => "LET".toList | .list => "LIST".toList | .load => "LOAD".toList
  | .new => "NEW".toList | .next => "NEXT".toList | .on => "ON".toList | .print => "PRINT".toList
  | .read => "READ".toList | .rem1 => "REM".toList | .rem2 => "'".toList | .renum => "RENUM".toList
  | .restore => "RESTORE".toList | .return => "RETURN".toList | .run => "RUN".toList
  | .save => "SAVE".toList | .step => "STEP".toList | .stop => "STOP".toList | .swap => "SWAP".toList
  | .then => "THEN".toList | .to => "TO".toList | .troff => "TROFF".toList | .tron => "TRON".toList
  | .wend => "WEND".toList | .while => "WHILE".toList

def Operator.text : Operator → Str
  | .caret => "^".toList | .multiply => "*".toList | .divide => "/".toList | .divideInt => "\\".toList
  | .modulo => "MOD".toList | .plus => "+".toList | .minus => "-".toList | .equal => "=".toList
  | .notEqual => "<>".toList | .less => "<".toList | .lessEqual => "<=".toList | .greater => ">".toList
  | .greaterEqual => ">=".toList | .not => "NOT".toList | .and => "AND".toList | .or => "OR".toList
  | .xor => "XOR".toList | .imp => "IMP".toList | .eqv => "EQV".toList

def Operator.isWord : Operator → Bool
  | .modulo | .not | .and | .or | .xor | .imp | .eqv => true
  | _ => false

/-- `impl Display for Token` -/
def Token.text : Token → Str
  | .unknown s => s
  | .whitespace n => List.replicate n ' '
  | .literal l => l.text
  | .word w => w.text
  | .operator o => o.text
  | .ident i => i.name
  | .lparen => ['('] | .rparen => [')'] | .comma => [','] | .colon => [':'] | .semicolon => [';']

def Token.isWord : Token → Bool
  | .word _ | .ident _ | .literal _ => true
  | .operator o => o.isWord
  | _ => false

def printTokens (ts : List Token) : Str := ts.flatMap Token.text

/-- `impl Display for Line` -/
def printLine (number : Option Nat) (ts : List Token) : Str :=
  match number with
  | some n => RStd.natDigits n ++ ' ' :: printTokens ts
  | none => printTokens ts

/-- a lexed source line (`lang::Line`) -/
structure Line where
  number : Option Nat
  tokens : List Token
deriving Inhabited, DecidableEq

end Basic
