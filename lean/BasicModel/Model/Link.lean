import BasicModel.Model.Opcode
import BasicModel.Model.Ops
import BasicModel.Model.Ast
import BasicModel.Gen.Limits
/-
  `src/mach/link.rs` — linkable object: code and data segments, symbol table, pending references.
  `ops`/`data` are the size-limited `Stack`s of the Rust code (element is pushed, then the length is
  tested against 65 535).  `symbols` is the `BTreeMap` (kept sorted by key), `unlinked` the `HashMap`
  (association list; iteration order of the Rust map is unspecified, consumers sort).
-/
namespace Basic

abbrev Symbol := Int

structure Link where
  currentSymbol : Symbol := 0
  ops : Array Opcode := #[]
  data : Array Val := #[]
  dataPos : Nat := 0
  directSet : Bool := false
  symbols : List (Symbol × (Nat × Nat)) := []
  unlinked : List (Nat × (Col × Symbol)) := []
  whiles : List (Bool × Col × Nat × Symbol) := []
deriving Inhabited

namespace Link

def opsOverflow : Error := (Error.mk' Code.outOfMemory).withMsg "PROGRAM SIZE LIMIT EXCEEDED"
def dataOverflow : Error := (Error.mk' Code.outOfMemory).withMsg "DATA SIZE LIMIT EXCEEDED"

/-- sorted insert (replace on equal key) — `BTreeMap::insert` -/
def symInsert (k : Symbol) (v : Nat × Nat) : List (Symbol × (Nat × Nat)) → List (Symbol × (Nat × Nat))
  | [] => [(k, v)]
  | (k', v') :: rest =>
    if k < k' then (k, v) :: (k', v') :: rest
    else if k = k' then (k, v) :: rest
    else (k', v') :: symInsert k v rest

/-- `HashMap::insert` on an association list -/
def unlInsert (k : Nat) (v : Col × Symbol) (m : List (Nat × (Col × Symbol))) : List (Nat × (Col × Symbol)) :=
  (k, v) :: m.filter (fun p => p.1 ≠ k)

/-- `Stack::push` on the code segment: push, then `len > 65535` is OUT OF MEMORY -/
def push (l : Link) (op : Opcode) : Link × Except Error Unit :=
  let l := { l with ops := l.ops.push op }
  (l, if l.ops.size > Gen.stackMaxLen then .error opsOverflow else .ok ())

def pushData (l : Link) (v : Val) : Link × Except Error Unit :=
  let l := { l with data := l.data.push v }
  (l, if l.data.size > Gen.stackMaxLen then .error dataOverflow else .ok ())

def pushSymbol (l : Link) (sym : Symbol) : Link :=
  { l with symbols := symInsert sym (l.ops.size, l.data.size) l.symbols }

def nextSymbol (l : Link) : Link × Symbol :=
  let s := l.currentSymbol - 1
  ({ l with currentSymbol := s }, s)

/-- `Link::append` -/
def append (self link : Link) : Link × Except Error Unit :=
  if self.directSet && !link.data.isEmpty then (self, .error (Error.mk' Code.illegalDirect))
  else
    let oo := self.ops.size
    let do_ := self.data.size
    let so := self.currentSymbol
    let symbols := link.symbols.foldl (fun m (s, (oa, da)) =>
      symInsert (if s < 0 then s + so else s) (oa + oo, da + do_) m) self.symbols
    -- HashMap iteration order is unspecified; keys of `link.unlinked` are distinct, so the result
    -- as a finite map does not depend on it
    let unlinked := link.unlinked.foldr (fun (a, (c, s)) m =>
      unlInsert (a + oo) (c, if s < 0 then s + so else s) m) self.unlinked
    let whiles := self.whiles ++ link.whiles.map (fun (k, c, a, s) => (k, c, a + oo, s + so))
    let self := { self with symbols := symbols, unlinked := unlinked, whiles := whiles,
                            currentSymbol := self.currentSymbol + link.currentSymbol,
                            ops := self.ops ++ link.ops }
    if self.ops.size > Gen.stackMaxLen then (self, .error opsOverflow)
    else
      let self := { self with data := self.data ++ link.data }
      (self, if self.data.size > Gen.stackMaxLen then .error dataOverflow else .ok ())

/-- `Link::line_number_for` -/
def lineNumberFor (l : Link) (opAddr : Nat) : Option Nat :=
  let cands := (l.symbols.filter (fun p => p.1 ≥ 0)).reverse
  match cands.find? (fun p => opAddr ≥ p.2.1) with
  | some (k, _) => if k ≤ (Gen.maxLineNumber : Int) then some k.toNat else none
  | none => none

/-- `Link::has_line_at_end`: something can branch to the very end of the code — a program line
    that compiled to nothing, or a local label such as the ELSE of a trailing IF (fix D20: any symbol) -/
def hasLineAtEnd (l : Link) : Bool :=
  l.symbols.any (fun p => p.2.1 == l.ops.size)

def readData (l : Link) : Link × Except Error Val :=
  match l.data[l.dataPos]? with
  | some v => ({ l with dataPos := l.dataPos + 1 }, .ok v)
  | none => (l, .error (Error.mk' Code.outOfData))

def restoreData (l : Link) (addr : Nat) : Link := { l with dataPos := addr }

/-- `Link::clear` (note: `data_pos` and `whiles` are not reset by the Rust code) -/
def clear (l : Link) : Link :=
  { l with currentSymbol := 0, directSet := false, ops := #[], data := #[], symbols := [], unlinked := [] }

def setStartOfDirect (l : Link) (opAddr : Nat) : Link :=
  { l with directSet := true,
           symbols := symInsert ((Gen.maxLineNumber : Int) + 1) (opAddr, l.data.size) l.symbols }

def mkErr (code : Nat) (line : Option Nat) (c : Col) : Error :=
  ((Error.mk' code).inLine line).inCol c.1 c.2

/-- `Link::link_whiles`: WHILE/WEND matched as brackets in code order -/
def linkWhiles (l : Link) : Link × List Error :=
  let rec go (ws : List (Bool × Col × Nat × Symbol)) (stack : List (Col × Nat × Symbol))
      (unl : List (Nat × (Col × Symbol))) (errs : List Error) :
      List (Nat × (Col × Symbol)) × List Error × List (Col × Nat × Symbol) :=
    match ws with
    | [] => (unl, errs, stack)
    | (true, c, a, s) :: rest => go rest ((c, a, s) :: stack) unl errs
    | (false, c, a, s) :: rest =>
      match stack with
      | [] => go rest [] unl (errs ++ [mkErr Code.wendWithoutWhile (l.lineNumberFor a) c])
      | (wc, wa, ws') :: st =>
        go rest st (unlInsert a (c, ws') (unlInsert wa (wc, s) unl)) errs
  let (unl, errs, stack) := go l.whiles [] l.unlinked []
  let errs := errs ++ stack.map (fun (c, a, _) => mkErr Code.whileWithoutWend (l.lineNumberFor a) c)
  ({ l with whiles := [], unlinked := unl }, errs)

/-- patch one pending reference — the body of the loop in `Link::link` -/
def linkOne (l : Link) (opAddr : Nat) (c : Col) (sym : Symbol) : Link × Option Error :=
  let failure := some (((Error.mk' Code.internalError).inLine (l.lineNumberFor opAddr)).inCol c.1 c.2 |>.withMsg "LINK FAILURE")
  match l.symbols.lookup sym with
  | none =>
    if sym ≥ 0 then (l, some (mkErr Code.undefinedLine (l.lineNumberFor opAddr) c))
    else (l, failure)
  | some (opDest, dataDest) =>
    match l.ops[opAddr]? with
    | some (.ifNot _) => ({ l with ops := l.ops.setIfInBounds opAddr (.ifNot opDest) }, none)
    | some (.jump _) => ({ l with ops := l.ops.setIfInBounds opAddr (.jump opDest) }, none)
    | some (.literal (.ret _)) => ({ l with ops := l.ops.setIfInBounds opAddr (.literal (.ret opDest)) }, none)
    | some (.literal (.nxt _)) => ({ l with ops := l.ops.setIfInBounds opAddr (.literal (.nxt opDest)) }, none)
    | some (.restore _) => ({ l with ops := l.ops.setIfInBounds opAddr (.restore dataDest) }, none)
    | _ => (l, failure)

/-- `Link::link`; the errors after the WHILE/WEND ones come out in `HashMap` order in the Rust code -/
def link (l : Link) : Link × List Error :=
  let (l, errs) := l.linkWhiles
  let pending := l.unlinked
  let l := { l with unlinked := [] }
  let (l, errs) := pending.foldl (fun (l, errs) (a, (c, s)) =>
    match linkOne l a c s with
    | (l, some e) => (l, errs ++ [e])
    | (l, none) => (l, errs)) (l, errs)
  ({ l with symbols := l.symbols.filter (fun p => p.1 ≥ 0), currentSymbol := 0 }, errs)

/-! ### the `push_*` helpers used by codegen (each returns the link even when the push overflows) -/

def addUnlinked (l : Link) (c : Col) (sym : Symbol) : Link :=
  { l with unlinked := unlInsert l.ops.size (c, sym) l.unlinked }

def symbolForLineNumber : Option Nat → Except Error Symbol
  | some n => .ok n
  | none => .error ((Error.mk' Code.internalError).withMsg "NO SYMBOL FOR LINE NUMBER")

end Link
end Basic
