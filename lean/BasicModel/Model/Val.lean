import BasicModel.Model.Ieee
/-
  Runtime values (`src/mach/val.rs`): the `Val` enum and its `TryFrom` conversions.
  Floats are carried as IEEE-754 bit patterns (decidable equality, kernel-reducible literals);
  arithmetic on them goes through Lean's `Float32`/`Float` (same hardware / libm as Rust) and is
  *opaque* in every theorem.
-/
namespace Basic

inductive Val where
  | str (s : Str)
  | sng (b : UInt32)
  | dbl (b : UInt64)
  | int (n : Int16)
  | ret (a : Nat)
  | nxt (a : Nat)
deriving DecidableEq, Repr, Inhabited

inductive Ty where | str | sng | dbl | int | ret | nxt
deriving DecidableEq, Repr

def Val.ty : Val → Ty
  | .str _ => .str | .sng _ => .sng | .dbl _ => .dbl | .int _ => .int | .ret _ => .ret | .nxt _ => .nxt

/-! ### float plumbing (bit patterns in, bit patterns out) -/
namespace F
@[inline] def f32 (b : UInt32) : Float32 := Float32.ofBits b
@[inline] def f64 (b : UInt64) : Float := Float.ofBits b
@[inline] def b32 (x : Float32) : UInt32 := x.toBits
@[inline] def b64 (x : Float) : UInt64 := x.toBits
/-- `i16 as f32` (exact) -/
@[inline] def i2s (n : Int16) : Float32 := Float32.ofInt n.toInt
/-- `i16 as f64` (exact) -/
@[inline] def i2d (n : Int16) : Float := Float.ofInt n.toInt
@[inline] def s2d (x : Float32) : Float := x.toFloat
@[inline] def d2s (x : Float) : Float32 := x.toFloat32
def trunc32 (x : Float32) : Float32 := if x < 0 then x.ceil else x.floor
def trunc64 (x : Float) : Float := if x < 0 then x.ceil else x.floor
end F

open F

open Ieee in
/-- `floor` of a float `Val` as an exact integer (`none`: NaN, ±inf) -/
def Val.floorZ : Val → Option Int
  | .sng b => floorInt fp32 b.toNat
  | .dbl b => floorInt fp64 b.toNat
  | _ => none

/-- `i16::try_from(Val)`: Integer as is; floats by `floor` with a range test
    (`num.floor() >= -32768.0 && num.floor() <= 32767.0`, then an exact cast); others TYPE MISMATCH -/
def Val.toI16 : Val → Res Int16
  | .int n => .ok n
  | .sng b => match Val.floorZ (.sng b) with
    | some z => if -32768 ≤ z ∧ z ≤ 32767 then .ok (Int16.ofInt z) else err Code.overflow
    | none => err Code.overflow
  | .dbl b => match Val.floorZ (.dbl b) with
    | some z => if -32768 ≤ z ∧ z ≤ 32767 then .ok (Int16.ofInt z) else err Code.overflow
    | none => err Code.overflow
  | _ => err Code.typeMismatch

/-- shared shape of the unsigned conversions: `0 <= floor <= bound`, then a saturating cast to `cap` -/
def Val.toUnsigned (boundS boundD cap : Nat) : Val → Res Nat
  | .int n => if n.toInt >= 0 then .ok n.toInt.toNat else err Code.overflow
  | .sng b => match Val.floorZ (.sng b) with
    | some z => if 0 ≤ z ∧ z ≤ boundS then .ok (min z.toNat cap) else err Code.overflow
    | none => err Code.overflow
  | .dbl b => match Val.floorZ (.dbl b) with
    | some z => if 0 ≤ z ∧ z ≤ boundD then .ok (min z.toNat cap) else err Code.overflow
    | none => err Code.overflow
  | _ => err Code.typeMismatch

/-- `u16::try_from(Val)` -/
def Val.toU16 : Val → Res Nat := Val.toUnsigned 65535 65535 65535

/-- `u32::try_from(Val)`; `u32::MAX as f32` rounds up to 2^32 and the cast saturates -/
def Val.toU32 : Val → Res Nat := Val.toUnsigned 4294967296 4294967295 4294967295

/-- `usize::try_from(Val)` on a 64-bit target; `usize::MAX as f32|f64` is 2^64, the cast saturates -/
def Val.toUsize : Val → Res Nat :=
  Val.toUnsigned 18446744073709551616 18446744073709551616 18446744073709551615

def Val.toF32 : Val → Res Float32
  | .int n => .ok (i2s n)
  | .sng b => .ok (f32 b)
  | .dbl b => .ok (d2s (f64 b))
  | _ => err Code.typeMismatch

def Val.toF64 : Val → Res Float
  | .int n => .ok (i2d n)
  | .sng b => .ok (s2d (f32 b))
  | .dbl b => .ok (f64 b)
  | _ => err Code.typeMismatch

def Val.toStr : Val → Res Str
  | .str s => .ok s
  | _ => err Code.typeMismatch

/-- `LineNumber::max_value()` -/
def maxLineNumber : Nat := 65529

/-- `LineNumber::try_from(Val)` -/
def Val.toLineNumber (v : Val) : Res (Option Nat) := do
  let n ← v.toU16
  if n ≤ maxLineNumber then .ok (some n) else err Code.undefinedLine

/-- `Val::try_from(LineNumber)` -/
def Val.ofLineNumber : Option Nat → Res Val
  | some n => .ok (.sng (b32 (Float32.ofNat n)))
  | none => err Code.undefinedLine

/-- `Val::try_from(usize)` -/
def Val.ofUsize (n : Nat) : Res Val :=
  if n ≤ 32767 then .ok (.int (Int16.ofNat n)) else err Code.overflow

def Val.isNumeric : Val → Bool
  | .sng _ | .dbl _ | .int _ => true
  | _ => false

end Basic
