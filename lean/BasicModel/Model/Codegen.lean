import BasicModel.Model.Link
import BasicModel.Gen.Builtins
/-
  `src/mach/codegen.rs` — AST → relocatable fragments, by a post-order visitor with three stacks
  (variables, expressions, statements).  A generator function works on the fragment under
  construction (`cur`); when it fails, what it has pushed so far stays in the fragment, exactly as
  with the Rust `&mut Link`.
-/
namespace Basic
namespace Codegen

structure VarItem where
  col : Col
  name : Str
  link : Link
  argLen : Option Nat
deriving Inhabited

structure GState where
  var : Array VarItem := #[]
  expr : Array (Col × Link) := #[]
  stmt : Array (Col × Link) := #[]
  cur : Link := {}
deriving Inhabited

abbrev GM := ExceptT Error (StateM GState)

def underflow : Error := (Error.mk' Code.internalError).withMsg "UNDERFLOW"

def liftE {α} (r : Except Error α) : GM α :=
  match r with
  | .ok a => pure a
  | .error e => throw e

def popExpr : GM (Col × Link) := do
  let s ← get
  match s.expr.back? with
  | some x => set { s with expr := s.expr.pop }; pure x
  | none => throw underflow

def popVar : GM VarItem := do
  let s ← get
  match s.var.back? with
  | some x => set { s with var := s.var.pop }; pure x
  | none => throw underflow

def popNExpr (n : Nat) : GM (List (Col × Link)) := do
  let s ← get
  if n > s.expr.size then throw underflow
  else
    let k := s.expr.size - n
    set { s with expr := s.expr.extract 0 k }
    pure (s.expr.extract k s.expr.size).toList

def popNVar (n : Nat) : GM (List VarItem) := do
  let s ← get
  if n > s.var.size then throw underflow
  else
    let k := s.var.size - n
    set { s with var := s.var.extract 0 k }
    pure (s.var.extract k s.var.size).toList

def popNStmt (n : Nat) : GM (List (Col × Link)) := do
  let s ← get
  if n > s.stmt.size then throw underflow
  else
    let k := s.stmt.size - n
    set { s with stmt := s.stmt.extract 0 k }
    pure (s.stmt.extract k s.stmt.size).toList

/-- `link.push(op)?` -/
def lpush (op : Opcode) : GM Unit := do
  let s ← get
  let (l, r) := s.cur.push op
  set { s with cur := l }
  liftE r

/-- `link.append(frag)?` -/
def lappend (frag : Link) : GM Unit := do
  let s ← get
  let (l, r) := s.cur.append frag
  set { s with cur := l }
  liftE r

def lnextSymbol : GM Symbol := do
  let s ← get
  let (l, sym) := s.cur.nextSymbol
  set { s with cur := l }
  pure sym

def lpushSymbol (sym : Symbol) : GM Unit :=
  modify fun s => { s with cur := s.cur.pushSymbol sym }

def laddUnlinked (c : Col) (sym : Symbol) : GM Unit :=
  modify fun s => { s with cur := s.cur.addUnlinked c sym }

def lenVal (n : Nat) : GM Val := liftE (Val.ofUsize n)

/-! ### `Link::push_*` -/

def pushJump (c : Col) (sym : Symbol) : GM Unit := do laddUnlinked c sym; lpush (.jump 0)
def pushIfnot (c : Col) (sym : Symbol) : GM Unit := do laddUnlinked c sym; lpush (.ifNot 0)
def pushReturnVal (c : Col) (sym : Symbol) : GM Unit := do laddUnlinked c sym; lpush (.literal (.ret 0))

def pushGoto (c : Col) (ln : Option Nat) : GM Unit := do
  let sym ← liftE (Link.symbolForLineNumber ln)
  laddUnlinked c sym
  lpush (.jump 0)

def pushGosub (c : Col) (ln : Option Nat) : GM Unit := do
  let ret ← lnextSymbol
  pushReturnVal c ret
  let sym ← liftE (Link.symbolForLineNumber ln)
  laddUnlinked c sym
  lpush (.jump 0)
  lpushSymbol ret

def pushFor (c : Col) : GM Unit := do
  let nxt ← lnextSymbol
  laddUnlinked c nxt
  lpush (.literal (.nxt 0))
  lpushSymbol nxt

def pushRestore (c : Col) (ln : Option Nat) : GM Unit := do
  if ln.isSome then
    let sym ← liftE (Link.symbolForLineNumber ln)
    laddUnlinked c sym
  lpush (.restore 0)

def pushRun (c : Col) (ln : Option Nat) : GM Unit := do
  lpush .clear
  if ln.isSome then
    let sym ← liftE (Link.symbolForLineNumber ln)
    laddUnlinked c sym
  lpush (.jump 0)

def pushWend (c : Col) : GM Unit := do
  let sym ← lnextSymbol
  modify fun s => { s with cur := { s.cur with whiles := s.cur.whiles ++ [(false, c, s.cur.ops.size, sym)] } }
  lpush (.jump 0)
  lpushSymbol sym

def pushWhile (c : Col) (expr : Link) : GM Unit := do
  let sym ← lnextSymbol
  lpushSymbol sym
  lappend expr
  modify fun s => { s with cur := { s.cur with whiles := s.cur.whiles ++ [(true, c, s.cur.ops.size, sym)] } }
  lpush (.ifNot 0)

def pushDefFn (c : Col) (ident : Str) (vars : List Str) (exprOps : Link) : GM Unit := do
  let len ← lenVal vars.length
  lpush (.literal len)
  lpush (.def ident)
  let skip ← lnextSymbol
  pushJump c skip
  for v in vars do
    lpush (.pop v)
  lappend exprOps
  lpush .return
  lpushSymbol skip

/-- `LineNumber::try_from(&Link)`: a fragment that is exactly one numeric literal in 0..65529 -/
def lineNumberOfLink (l : Link) : Except Error (Option Nat) :=
  if l.ops.size = 1 then
    match (l.ops[0]? : Option Opcode) with
    | some (.literal v) => v.toLineNumber
    | _ => .error ((Error.mk' Code.undefinedLine).withMsg "INVALID LINE NUMBER")
  else .error ((Error.mk' Code.undefinedLine).withMsg "INVALID LINE NUMBER")

/-- `Rc<str>::try_from(&Link)` -/
def stringOfLink (l : Link) : Option Str :=
  if l.ops.size = 1 then
    match (l.ops[0]? : Option Opcode) with
    | some (.literal (.str s)) => some s
    | _ => none
  else none

/-- `Link::transform_to_data` (on a detached fragment) -/
def transformToData (l : Link) (c : Col) : Link × Except Error Unit :=
  let bad : Except Error Unit := .error (((Error.mk' Code.syntaxError).inCol c.1 c.2).withMsg "EXPECTED LITERAL")
  if l.ops.size = 1 then
    match (l.ops[0]? : Option Opcode) with
    | some (.literal v) =>
      let l := { l with ops := #[] }
      let (l, r) := l.pushData v
      (l, r)
    | _ => ({ l with ops := #[] }, bad)
  else if l.ops.size = 2 then
    match (l.ops[0]? : Option Opcode), (l.ops[1]? : Option Opcode) with
    | some (.literal v), some .neg =>
      let l := { l with ops := #[] }
      (match Ops.negate v with
       | .ok nv => l.pushData nv
       | .error e => (l, .error e))
    | _, _ => ({ l with ops := #[] }, bad)
  else (l, bad)

/-! ### `VarItem` -/

def syntaxAt (c : Col) (msg : String) : Error := ((Error.mk' Code.syntaxError).inCol c.1 c.2).withMsg msg

def testForBuiltIn (v : VarItem) (strict : Bool) : Except Error Unit :=
  match Gen.opcodeAndArity v.name with
  | some (_, lo, hi) =>
    if lo = 0 && hi = 0 && v.argLen.isSome && !strict then .ok ()
    else if !(lo = 0 && hi = 0) && v.argLen.isNone && !strict then .ok ()
    else .error (syntaxAt v.col "RESERVED FOR BUILT-IN")
  | none => .ok ()

def pushAsDim (v : VarItem) : GM Col := do
  liftE (testForBuiltIn v true)
  match v.argLen with
  | some len =>
    if len > 0 then
      lappend v.link
      lpush (.literal (← lenVal len))
      lpush (.dimArr v.name)
      pure v.col
    else throw (syntaxAt v.col "NOT AN ARRAY")
  | none => throw (syntaxAt v.col "NOT AN ARRAY")

def pushAsPopUnary (v : VarItem) : GM Col := do
  liftE (testForBuiltIn v false)
  lpush (.pop v.name)
  pure v.col

def pushAsPop (v : VarItem) : GM Col := do
  liftE (testForBuiltIn v false)
  match v.argLen with
  | some len =>
    if len > 0 then
      lappend v.link
      lpush (.literal (← lenVal len))
      lpush (.popArr v.name)
    else throw (syntaxAt v.col "MISSING INDEX EXPRESSION")
  | none => lpush (.pop v.name)
  pure v.col

def pushAsExpression (v : VarItem) : GM Col := do
  lappend v.link
  let handled ← (do
    match Gen.opcodeAndArity v.name with
    | some (opcode, lo, hi) =>
      if lo = 0 && hi = 0 && v.argLen.isNone then
        lpush opcode
        pure true
      else match v.argLen with
        | some len =>
          if lo ≤ len && len ≤ hi then
            if lo ≠ hi then lpush (.literal (← lenVal len))
            lpush opcode
            pure true
          else throw (((Error.mk' Code.illegalFunctionCall).inCol v.col.1 v.col.2).withMsg "WRONG NUMBER OF ARGUMENTS")
        | none => pure false
    | none => pure false)
  if handled then pure v.col
  else
    match v.argLen with
    | none => lpush (.push v.name)
    | some len =>
      if "FN".toList.isPrefixOf v.name then
        lpush (.literal (← lenVal len))
        lpush (.fn v.name)
      else
        lpush (.literal (← lenVal len))
        lpush (.pushArr v.name)
    pure v.col

/-! ### `Generator` -/

def exprPopLineNumber : GM (Col × Option Nat) := do
  let (c, ops) ← popExpr
  match lineNumberOfLink ops with
  | .ok ln => pure (c, ln)
  | .error e => throw (e.inCol c.1 c.2)

def genVariable : Variable → GM (Col × Str × Option Nat)
  | .unary c i => pure (c, i.name, none)
  | .array c i es => do
    let len := es.length
    let frags ← popNExpr len
    for (_, ops) in frags do
      lappend ops
    pure (c, i.name, some len)

def unaryExpr (op : Opcode) (c : Col) : GM Col := do
  let (ec, ops) ← popExpr
  lappend ops
  lpush op
  pure (c.1, ec.2)

def binaryExpr (op : Opcode) : GM Col := do
  let (cr, rhs) ← popExpr
  let (cl, lhs) ← popExpr
  lappend lhs
  lappend rhs
  lpush op
  pure (cl.1, cr.2)

def genExpression : Expr → GM Col
  | .single c b => do lpush (.literal (.sng b)); pure c
  | .double c b => do lpush (.literal (.dbl b)); pure c
  | .integer c n => do lpush (.literal (.int n)); pure c
  | .string c s => do lpush (.literal (.str s)); pure c
  | .var _ => do let v ← popVar; pushAsExpression v
  | .neg c _ => unaryExpr Gen.opcodeOfNegation c
  | .not c _ => unaryExpr Gen.opcodeOfNot c
  | .bin op _ _ _ => binaryExpr (Gen.opcodeOfBinOp op)

def defType (op : Opcode) (c : Col) : GM Col := do
  let to ← popVar
  let from_ ← popVar
  lpush (.literal (.str from_.name))
  lpush (.literal (.str to.name))
  lpush op
  pure c

def rangeStmt (op : Opcode) (c : Col) : GM Col := do
  let (cTo, lnTo) ← exprPopLineNumber
  let (_, lnFrom) ← exprPopLineNumber
  lpush (.literal (← liftE (Val.ofLineNumber lnFrom)))
  lpush (.literal (← liftE (Val.ofLineNumber lnTo)))
  lpush op
  pure (c.1, cTo.2)

def genOn (c : Col) (len : Nat) (isGosub : Bool) : GM Col := do
  let lineNumbers ← popNExpr len
  let lenV ← lenVal len
  let (subCol, varOps) ← popExpr
  let ret ← lnextSymbol
  if isGosub then pushReturnVal c ret
  lpush (.literal lenV)
  lappend varOps
  lpush .on
  let mut subEnd := subCol.2
  for (column, ops) in lineNumbers do
    subEnd := column.2
    match lineNumberOfLink ops with
    | .ok ln => pushGoto column ln
    | .error e => throw (e.inCol column.1 column.2)
  if isGosub then
    lpush .return
    lpushSymbol ret
  pure (c.1, subEnd)

def genStatement : Stmt → GM Col
  | .clear c => do lpush .clear; pure c
  | .cls c => do lpush .cls; pure c
  | .cont c => do lpush .cont; pure c
  | .data c v => do
    let exprs ← popNExpr v.length
    for (ec, el) in exprs do
      let (el, r) := transformToData el ec
      liftE r
      lappend el
    pure c
  | .def c _ v _ => do
    let vars ← popNVar v.length
    let fnName ← popVar
    let (_, exprOps) ← popExpr
    pushDefFn c fnName.name (vars.map (·.name)) exprOps
    pure c
  | .defdbl c _ _ => defType .defdbl c
  | .defint c _ _ => defType .defint c
  | .defsng c _ _ => defType .defsng c
  | .defstr c _ _ => defType .defstr c
  | .delete c _ _ => rangeStmt .delete c
  | .dim c v => do
    let vars ← popNVar v.length
    let mut col := c
    for var in vars do
      let sub ← pushAsDim var
      col := (col.1, sub.2)
    pure col
  | .end c => do lpush .end; pure c
  | .erase c v => do
    let vars ← popNVar v.length
    for var in vars do
      lpush (.eraseArr var.name)
    pure c
  | .for c _ _ _ _ => do
    let (stepCol, stepOps) ← popExpr
    let (_, toOps) ← popExpr
    let (_, fromOps) ← popExpr
    let var ← popVar
    lappend fromOps
    let _ ← pushAsPopUnary var
    lappend toOps
    lappend stepOps
    lpush (.literal (.str var.name))
    pushFor (c.1, stepCol.2)
    pure (c.1, stepCol.2)
  | .gosub c _ => do
    let (sub, ln) ← exprPopLineNumber
    pushGosub sub ln
    pure (c.1, sub.2)
  | .goto c _ => do
    let (sub, ln) ← exprPopLineNumber
    pushGoto sub ln
    pure (c.1, sub.2)
  | .if c _ th el => do
    let (_, predicate) ← popExpr
    lappend predicate
    let elseSym ← lnextSymbol
    pushIfnot c elseSym
    let elses ← popNStmt el.length
    let thens ← popNStmt th.length
    for (_, ops) in thens do
      lappend ops
    if el.length = 0 then lpushSymbol elseSym
    else
      let fin ← lnextSymbol
      pushJump c fin
      lpushSymbol elseSym
      for (_, ops) in elses do
        lappend ops
      lpushSymbol fin
    pure c
  | .input c _ _ v => do
    let (_, prompt) ← popExpr
    let (_, caps) ← popExpr
    lappend prompt
    lappend caps
    lpush (.literal (← lenVal v.length))
    let vars ← popNVar v.length
    for var in vars do
      lpush (.input var.name)
      let _ ← pushAsPop var
    lpush (.input [])
    pure c
  | .let c _ _ => do
    let (ec, ops) ← popExpr
    lappend ops
    let var ← popVar
    let _ ← pushAsPop var
    pure (c.1, ec.2)
  | .list c _ _ => rangeStmt .list c
  | .load c _ => do
    let (sub, ops) ← popExpr
    lappend ops
    lpush .load
    pure (c.1, sub.2)
  | .mid c _ _ _ _ => do
    let var ← popVar
    let (ec, exprLink) ← popExpr
    let (_, lenLink) ← popExpr
    let (_, posLink) ← popExpr
    let _ ← pushAsExpression var
    lappend exprLink
    lappend lenLink
    lappend posLink
    lpush .letMid
    let _ ← pushAsPop var
    pure (c.1, ec.2)
  | .new c => do lpush .new; pure c
  | .next c v => do
    let vars ← popNVar v.length
    for var in vars do
      liftE (testForBuiltIn var false)
      lpush (.next var.name)
    pure c
  | .onGoto c _ v => genOn c v.length false
  | .onGosub c _ v => genOn c v.length true
  | .print c v => do
    let exprs ← popNExpr v.length
    for (_, ops) in exprs do
      lappend ops
      lpush .print
    pure c
  | .read c v => do
    let vars ← popNVar v.length
    for var in vars do
      lpush .read
      let _ ← pushAsPop var
    pure c
  | .renum c _ _ _ => do
    let (_, step) ← exprPopLineNumber
    let (_, oldStart) ← exprPopLineNumber
    let (_, newStart) ← exprPopLineNumber
    match newStart, oldStart, step with
    | some n, some o, some s =>
      lpush (.literal (.sng (F.b32 (Float32.ofNat n))))
      lpush (.literal (.sng (F.b32 (Float32.ofNat o))))
      lpush (.literal (.sng (F.b32 (Float32.ofNat s))))
      lpush .renum
    | _, _, _ => pure ()
    pure c
  | .restore c _ => do
    let (sub, ops) ← popExpr
    let ln := match lineNumberOfLink ops with
      | .ok ln => ln
      | .error _ => none
    pushRestore sub ln
    pure c
  | .return c => do lpush .return; pure c
  | .run c _ => do
    let (sub, ops) ← popExpr
    match stringOfLink ops with
    | some filename =>
      lpush (.literal (.str filename))
      lpush .loadRun
    | none =>
      match lineNumberOfLink ops with
      | .ok ln => pushRun sub ln
      | .error _ => pushRun sub none
    pure (c.1, sub.2)
  | .save c _ => do
    let (sub, ops) ← popExpr
    lappend ops
    lpush .save
    pure (c.1, sub.2)
  | .stop c => do lpush .stop; pure c
  | .swap c _ _ => do
    let var1 ← popVar
    let var2 ← popVar
    liftE (testForBuiltIn var1 false)
    liftE (testForBuiltIn var2 false)
    let _ ← pushAsExpression var1
    let _ ← pushAsExpression var2
    lpush .swap
    let _ ← pushAsPop var1
    let _ ← pushAsPop var2
    pure c
  | .troff c => do lpush .troff; pure c
  | .tron c => do lpush .tron; pure c
  | .wend c => do pushWend c; pure c
  | .while c _ => do
    let (sub, ops) ← popExpr
    pushWhile c ops
    pure (c.1, sub.2)

/-! ### the visitor (`Visitor` in codegen.rs, `AcceptVisitor` in ast.rs) -/

/-- what the visitor threads through: generator stacks and the errors reported to the program -/
structure VState where
  g : GState := {}
  errors : List Error := []     -- errors raised while visiting, in order (line number added by the caller)
deriving Inhabited

/-- run a generator function on a fresh fragment; returns its result and the fragment -/
def runFresh {α} (m : GM α) (g : GState) : Except Error α × Link × GState :=
  let (r, g') := (m.run).run { g with cur := {} }
  (r, g'.cur, { g' with cur := g.cur })

def visitVariable (v : Variable) (s : VState) : VState :=
  let (r, link, g) := runFresh (genVariable v) s.g
  match r with
  | .ok (c, name, len) => { s with g := { g with var := g.var.push ⟨c, name, link, len⟩ } }
  | .error e => { g := { g with var := g.var.push ⟨(0, 0), [], link, none⟩ }, errors := s.errors ++ [e] }

def visitExpression (e : Expr) (s : VState) : VState :=
  let (r, link, g) := runFresh (genExpression e) s.g
  match r with
  | .ok c => { s with g := { g with expr := g.expr.push (c, link) } }
  | .error e => { g := { g with expr := g.expr.push ((0, 0), link) }, errors := s.errors ++ [e] }

def visitStatement (st : Stmt) (s : VState) : VState :=
  let (r, link, g) := runFresh (genStatement st) s.g
  match r with
  | .ok c => { s with g := { g with stmt := g.stmt.push (c, link) } }
  | .error e => { g := { g with stmt := g.stmt.push ((0, 0), link) }, errors := s.errors ++ [e] }

mutual
def acceptVar : Variable → VState → VState
  | .unary c i, s => visitVariable (.unary c i) s
  | .array c i es, s => visitVariable (.array c i es) (acceptExprs es s)
def acceptExpr : Expr → VState → VState
  | .var v, s => visitExpression (.var v) (acceptVar v s)
  | .neg c e, s => visitExpression (.neg c e) (acceptExpr e s)
  | .not c e, s => visitExpression (.not c e) (acceptExpr e s)
  | .bin op c l r, s => visitExpression (.bin op c l r) (acceptExpr r (acceptExpr l s))
  | e, s => visitExpression e s
def acceptExprs : List Expr → VState → VState
  | [], s => s
  | e :: es, s => acceptExprs es (acceptExpr e s)
end

def acceptVars (vs : List Variable) (s : VState) : VState := vs.foldl (fun s v => acceptVar v s) s

mutual
def acceptStmt : Stmt → VState → VState
  | .data c es, s => visitStatement (.data c es) (acceptExprs es s)
  | .print c es, s => visitStatement (.print c es) (acceptExprs es s)
  | .def c v ps e, s => visitStatement (.def c v ps e) (acceptExpr e (acceptVars ps (acceptVar v s)))
  | .defdbl c a b, s => visitStatement (.defdbl c a b) (acceptVar b (acceptVar a s))
  | .defint c a b, s => visitStatement (.defint c a b) (acceptVar b (acceptVar a s))
  | .defsng c a b, s => visitStatement (.defsng c a b) (acceptVar b (acceptVar a s))
  | .defstr c a b, s => visitStatement (.defstr c a b) (acceptVar b (acceptVar a s))
  | .swap c a b, s => visitStatement (.swap c a b) (acceptVar b (acceptVar a s))
  | .mid c v e1 e2 e3, s =>
    visitStatement (.mid c v e1 e2 e3) (acceptExpr e3 (acceptExpr e2 (acceptExpr e1 (acceptVar v s))))
  | .for c v e1 e2 e3, s =>
    visitStatement (.for c v e1 e2 e3) (acceptExpr e3 (acceptExpr e2 (acceptExpr e1 (acceptVar v s))))
  | .gosub c e, s => visitStatement (.gosub c e) (acceptExpr e s)
  | .goto c e, s => visitStatement (.goto c e) (acceptExpr e s)
  | .load c e, s => visitStatement (.load c e) (acceptExpr e s)
  | .restore c e, s => visitStatement (.restore c e) (acceptExpr e s)
  | .run c e, s => visitStatement (.run c e) (acceptExpr e s)
  | .save c e, s => visitStatement (.save c e) (acceptExpr e s)
  | .while c e, s => visitStatement (.while c e) (acceptExpr e s)
  | .if c p th el, s => visitStatement (.if c p th el) (acceptStmts el (acceptStmts th (acceptExpr p s)))
  | .let c v e, s => visitStatement (.let c v e) (acceptExpr e (acceptVar v s))
  | .delete c a b, s => visitStatement (.delete c a b) (acceptExpr b (acceptExpr a s))
  | .list c a b, s => visitStatement (.list c a b) (acceptExpr b (acceptExpr a s))
  | .input c e1 e2 vs, s => visitStatement (.input c e1 e2 vs) (acceptVars vs (acceptExpr e2 (acceptExpr e1 s)))
  | .onGoto c e ls, s => visitStatement (.onGoto c e ls) (acceptExprs ls (acceptExpr e s))
  | .onGosub c e ls, s => visitStatement (.onGosub c e ls) (acceptExprs ls (acceptExpr e s))
  | .renum c a b st, s => visitStatement (.renum c a b st) (acceptExpr st (acceptExpr b (acceptExpr a s)))
  | .dim c vs, s => visitStatement (.dim c vs) (acceptVars vs s)
  | .erase c vs, s => visitStatement (.erase c vs) (acceptVars vs s)
  | .next c vs, s => visitStatement (.next c vs) (acceptVars vs s)
  | .read c vs, s => visitStatement (.read c vs) (acceptVars vs s)
  | st, s => visitStatement st s
def acceptStmts : List Stmt → VState → VState
  | [], s => s
  | st :: sts, s => acceptStmts sts (acceptStmt st s)
end

/-- `codegen(program, ast)`: visit, then append every statement fragment to the program's link;
    returns the new link and the errors to report (the first failing append stops the loop) -/
def codegen (link : Link) (ast : List Stmt) : Link × List Error :=
  let s := acceptStmts ast {}
  let rec appendAll (frags : List (Col × Link)) (link : Link) (errs : List Error) : Link × List Error :=
    match frags with
    | [] => (link, errs)
    | (_, f) :: rest =>
      match link.append f with
      | (link, .ok ()) => appendAll rest link errs
      | (link, .error e) => (link, errs ++ [e])
  appendAll s.g.stmt.toList link s.errors

end Codegen
end Basic
