import BasicModel.Model.Val
/-
  `src/mach/opcode.rs` — the virtual machine's instruction set.
-/
namespace Basic

inductive Opcode where
  | literal (v : Val) | push (n : Str) | pop (n : Str) | pushArr (n : Str) | popArr (n : Str)
  | dimArr (n : Str) | eraseArr (n : Str)
  | ifNot (a : Nat) | jump (a : Nat) | next (n : Str) | on | «return»
  | clear | cls | cont | «def» (n : Str) | defdbl | defint | defsng | defstr | delete | «end»
  | fn (n : Str) | input (n : Str) | letMid | list | load | loadRun | new | print | read | renum
  | restore (a : Nat) | save | stop | swap | troff | tron
  | neg | pow | mul | div | divInt | mod | add | sub | eq | notEq | lt | ltEq | gt | gtEq | not
  | and | or | xor | imp | eqv
  | abs | asc | atn | cdbl | chr | cint | cos | csng | date | exp | fix | hex | inkey | instr | int
  | left | len | log | mid | oct | pos | right | rnd | sgn | sin | spc | sqr | str | string | tab
  | tan | time | val
deriving DecidableEq, Repr, Inhabited

end Basic
