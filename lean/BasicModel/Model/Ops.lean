import BasicModel.Model.Std
/-
  `src/mach/operation.rs` — the operators of the language on `Val`.
  Arm for arm after the Rust `match`es.
-/
namespace Basic
open F RStd

namespace Ops

def negate : Val → Res Val
  | .int n => match checkedNeg n with
    | some r => .ok (.int r)
    | none => err Code.overflow
  | .sng b => .ok (.sng (b32 (- f32 b)))
  | .dbl b => .ok (.dbl (b64 (- f64 b)))
  | _ => err Code.typeMismatch

def power : Val → Val → Res Val
  | .int l, .int r =>
    if r.toInt ≥ 0 then
      match checkedPow l r.toInt.toNat with
      | some i => .ok (.int i)
      | none => err Code.overflow
    else .ok (.sng (b32 (powi32 (i2s l) r.toInt)))
  | .int l, .sng r => .ok (.sng (b32 ((i2s l).pow (f32 r))))
  | .int l, .dbl r => .ok (.dbl (b64 ((i2d l).pow (f64 r))))
  | .sng l, .int r => .ok (.sng (b32 (powi32 (f32 l) r.toInt)))
  | .sng l, .sng r => .ok (.sng (b32 ((f32 l).pow (f32 r))))
  | .sng l, .dbl r => .ok (.dbl (b64 ((s2d (f32 l)).pow (f64 r))))
  | .dbl l, .int r => .ok (.dbl (b64 (powi64 (f64 l) r.toInt)))
  | .dbl l, .sng r => .ok (.dbl (b64 ((f64 l).pow (s2d (f32 r)))))
  | .dbl l, .dbl r => .ok (.dbl (b64 ((f64 l).pow (f64 r))))
  | _, _ => err Code.typeMismatch

/-- shared shape of `multiply`, `divide`(floats), `sum`, `subtract` on numeric operands -/
@[inline] def arith (fi : Int16 → Int16 → Res Val)
    (fs : Float32 → Float32 → Float32) (fd : Float → Float → Float) : Val → Val → Res Val
  | .int l, .int r => fi l r
  | .int l, .sng r => .ok (.sng (b32 (fs (i2s l) (f32 r))))
  | .int l, .dbl r => .ok (.dbl (b64 (fd (i2d l) (f64 r))))
  | .sng l, .int r => .ok (.sng (b32 (fs (f32 l) (i2s r))))
  | .sng l, .sng r => .ok (.sng (b32 (fs (f32 l) (f32 r))))
  | .sng l, .dbl r => .ok (.dbl (b64 (fd (s2d (f32 l)) (f64 r))))
  | .dbl l, .int r => .ok (.dbl (b64 (fd (f64 l) (i2d r))))
  | .dbl l, .sng r => .ok (.dbl (b64 (fd (f64 l) (s2d (f32 r)))))
  | .dbl l, .dbl r => .ok (.dbl (b64 (fd (f64 l) (f64 r))))
  | _, _ => err Code.typeMismatch

def ofChecked : Option Int16 → Res Val
  | some i => .ok (.int i)
  | none => err Code.overflow

def multiply : Val → Val → Res Val :=
  arith (fun l r => ofChecked (checkedMul l r)) (· * ·) (· * ·)

def divide : Val → Val → Res Val :=
  arith (fun l r => .ok (.sng (b32 (i2s l / i2s r)))) (· / ·) (· / ·)

def divint (lhs rhs : Val) : Res Val := do
  let l ← lhs.toI16
  let r ← rhs.toI16
  if r = 0 then err Code.divisionByZero
  else match checkedDiv l r with
    | some n => .ok (.int n)
    | none => err Code.overflow

def remainder (lhs rhs : Val) : Res Val := do
  let l ← lhs.toI16
  let r ← rhs.toI16
  if r = 0 then err Code.divisionByZero
  else match checkedRem l r with
    | some n => .ok (.int n)
    | none => .ok (.int 0)

def sum : Val → Val → Res Val
  | .str l, .str r => .ok (.str (l ++ r))
  | .str _, _ => err Code.typeMismatch
  | l, r => arith (fun l r => ofChecked (checkedAdd l r)) (· + ·) (· + ·) l r

def subtract : Val → Val → Res Val :=
  arith (fun l r => ofChecked (checkedSub l r)) (· - ·) (· - ·)

def eps32 : Float32 := f32 0x34000000
def eps64 : Float := f64 0x3CB0000000000000

def equalBool : Val → Val → Res Bool
  | .int l, .int r => .ok (l == r)
  | .int l, .sng r => .ok ((i2s l - f32 r).abs <= eps32)
  | .int l, .dbl r => .ok ((i2d l - f64 r).abs <= eps64)
  | .sng l, .int r => .ok ((f32 l - i2s r).abs <= eps32)
  | .sng l, .sng r => .ok ((f32 l - f32 r).abs <= eps32)
  | .sng l, .dbl r => .ok ((s2d (f32 l) - f64 r).abs <= eps64)
  | .dbl l, .int r => .ok ((f64 l - i2d r).abs <= eps64)
  | .dbl l, .sng r => .ok ((f64 l - s2d (f32 r)).abs <= eps64)
  | .dbl l, .dbl r => .ok ((f64 l - f64 r).abs <= eps64)
  | .str l, .str r => .ok (l == r)
  | _, _ => err Code.typeMismatch

def lessBool : Val → Val → Res Bool
  | .int l, .int r => .ok (l < r)
  | .int l, .sng r => .ok (i2s l < f32 r)
  | .int l, .dbl r => .ok (i2d l < f64 r)
  | .sng l, .int r => .ok (f32 l < i2s r)
  | .sng l, .sng r => .ok (f32 l < f32 r)
  | .sng l, .dbl r => .ok (s2d (f32 l) < f64 r)
  | .dbl l, .int r => .ok (f64 l < i2d r)
  | .dbl l, .sng r => .ok (f64 l < s2d (f32 r))
  | .dbl l, .dbl r => .ok (f64 l < f64 r)
  | .str l, .str r => .ok (strLt l r)
  | _, _ => err Code.typeMismatch

def lessEqualBool : Val → Val → Res Bool
  | .int l, .int r => .ok (l <= r)
  | .int l, .sng r => .ok (i2s l <= f32 r)
  | .int l, .dbl r => .ok (i2d l <= f64 r)
  | .sng l, .int r => .ok (f32 l <= i2s r)
  | .sng l, .sng r => .ok (f32 l <= f32 r)
  | .sng l, .dbl r => .ok (s2d (f32 l) <= f64 r)
  | .dbl l, .int r => .ok (f64 l <= i2d r)
  | .dbl l, .sng r => .ok (f64 l <= s2d (f32 r))
  | .dbl l, .dbl r => .ok (f64 l <= f64 r)
  | .str l, .str r => .ok (strLe l r)
  | _, _ => err Code.typeMismatch

def truth (b : Bool) : Val := .int (if b then -1 else 0)

def equal (l r : Val) : Res Val := do return truth (← equalBool l r)
def notEqual (l r : Val) : Res Val := do return truth (!(← equalBool l r))
def less (l r : Val) : Res Val := do return truth (← lessBool l r)
def greater (l r : Val) : Res Val := do return truth (← lessBool r l)
def lessEqual (l r : Val) : Res Val := do return truth (← lessEqualBool l r)
def greaterEqual (l r : Val) : Res Val := do return truth (← lessEqualBool r l)

@[inline] def logic2 (f : Int16 → Int16 → Int16) (lhs rhs : Val) : Res Val := do
  let l ← lhs.toI16
  let r ← rhs.toI16
  return .int (f l r)

def and := logic2 (· &&& ·)
def or := logic2 (· ||| ·)
def xor := logic2 (· ^^^ ·)
def imp := logic2 (fun l r => ~~~l ||| r)
def eqv := logic2 (fun l r => ~~~(l ^^^ r))
def not (v : Val) : Res Val := do return .int (~~~(← v.toI16))

end Ops
end Basic
