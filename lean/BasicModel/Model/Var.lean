import BasicModel.Model.Std
/-
  `src/mach/var.rs` — variable memory, ported function by function.

  * `vars`/`dims` are association lists (model of `HashMap`); their order is never observable:
    every answer is a lookup or a dump sorted by key.
  * `types` is the `[VarType; 26]` array, as a function on indices; every index computed by the
    Rust code is range-checked *here* (an out-of-range index is a Rust panic = `fault`).
  * Functions of the Rust code that can change the state *and* fail (`build_array_key` inserts the
    automatic dimension before its checks) return `Var × Res α`; the others `Res Var`.
-/
namespace Basic

/-! ### association lists (finite maps with decidable keys) -/
namespace AL
variable {κ : Type} {α : Type} [DecidableEq κ]

/-- `HashMap::get` -/
def get (k : κ) : List (κ × α) → Option α
  | [] => none
  | (k', v) :: r => if k' = k then some v else get k r

/-- `HashMap::remove` (all entries with that key) -/
def erase (k : κ) (l : List (κ × α)) : List (κ × α) := l.filter (fun p => decide (p.1 ≠ k))

/-- `HashMap::insert` / assignment through `get_mut`
    (always equal to `(k, v) :: erase k l`, lemma `AL.set_eq`; the test only avoids a copy) -/
def set (k : κ) (v : α) (l : List (κ × α)) : List (κ × α) :=
  if (get k l).isSome then (k, v) :: erase k l else (k, v) :: l

def contains (k : κ) (l : List (κ × α)) : Bool := (get k l).isSome

end AL

inductive VarTy where
  | integer | single | double | string
deriving DecidableEq, Repr

instance : Inhabited VarTy := ⟨.single⟩

def VarTy.letter : VarTy → Char
  | .integer => 'I' | .single => 'S' | .double => 'D' | .string => 'T'

def VarTy.toTy : VarTy → Ty
  | .integer => .int | .single => .sng | .double => .dbl | .string => .str

/-- the value an unassigned variable of that type reads as -/
def VarTy.default : VarTy → Val
  | .integer => .int 0 | .single => .sng 0 | .double => .dbl 0 | .string => .str []

structure Var where
  vars : List (Str × Val) := []
  dims : List (Str × List Int16) := []
  types : Nat → VarTy := fun _ => .single

namespace Var

/-- `Var::new()` / `Var::default()` -/
def new : Var := {}

/-- `clear` -/
def clear (_ : Var) : Var := {}

/-- the type named by the last character of a name, if it is one of `$ ! # %` -/
def suffixTy (name : Str) : Option VarTy :=
  match name.getLast? with
  | some c =>
    if c = '!' then some .single else if c = '#' then some .double
    else if c = '%' then some .integer else if c = '$' then some .string else none
  | none => none

/-- `c as usize - 'A' as usize` with release (wrapping) arithmetic on a 64-bit target -/
def letterIndex (c : Char) : Nat :=
  if 65 ≤ c.toNat then c.toNat - 65 else 18446744073709551616 - (65 - c.toNat)

/-- type of a name: by suffix, else by the DEFtype of its first letter (`letter_type`).  `none`: the
    empty name, or a first character outside `A..Z` (fix D21: the table is looked up with a checked
    index; this used to be a panic). -/
def tyOf (v : Var) (name : Str) : Res (Option VarTy) :=
  match suffixTy name with
  | some t => .ok (some t)
  | none =>
    match name with
    | [] => .ok none
    | c :: _ =>
      if letterIndex c < 26 then .ok (some (v.types (letterIndex c)))
      else .ok none

/-- `fetch` -/
def fetch (v : Var) (name : Str) : Res Val :=
  match AL.get name v.vars with
  | some x => .ok x
  | none => do
    match ← v.tyOf name with
    | some t => .ok t.default
    | none => .ok (.sng 0)

/-- the test of `update_val`: `""`, `0`, `±0.0` -/
def isDefault : Val → Bool
  | .str s => s.isEmpty
  | .int n => n == 0
  | .sng b => b == 0 || b == 0x80000000
  | .dbl b => b == 0 || b == 0x8000000000000000
  | .ret _ | .nxt _ => false

/-- `update_val` -/
def updateVal (v : Var) (name : Str) (value : Val) : Var :=
  if isDefault value then { v with vars := AL.erase name v.vars }
  else { v with vars := AL.set name value v.vars }

/-- `insert_string` -/
def insertString (v : Var) (name : Str) (value : Val) : Res Var :=
  match value with
  | .str s =>
    if s.length > 255 then errMsg Code.stringTooLong "MAXIMUM STRING LENGTH IS 255"
    else .ok (v.updateVal name value)
  | _ => err Code.typeMismatch

/-- `insert_integer` -/
def insertInteger (v : Var) (name : Str) (value : Val) : Res Var :=
  match value with
  | .int _ => .ok (v.updateVal name value)
  | _ => do let n ← value.toI16; .ok (v.updateVal name (.int n))

/-- `insert_single` -/
def insertSingle (v : Var) (name : Str) (value : Val) : Res Var :=
  match value with
  | .sng _ => .ok (v.updateVal name value)
  | _ => do let x ← value.toF32; .ok (v.updateVal name (.sng (F.b32 x)))

/-- `insert_double` -/
def insertDouble (v : Var) (name : Str) (value : Val) : Res Var :=
  match value with
  | .dbl _ => .ok (v.updateVal name value)
  | _ => do let x ← value.toF64; .ok (v.updateVal name (.dbl (F.b64 x)))

def insertTy (v : Var) (t : VarTy) (name : Str) (value : Val) : Res Var :=
  match t with
  | .integer => v.insertInteger name value
  | .single => v.insertSingle name value
  | .double => v.insertDouble name value
  | .string => v.insertString name value

/-- `store`: the pool test comes first; it refuses only a name that is not in the pool yet (D23) -/
def store (v : Var) (name : Str) (value : Val) : Res Var :=
  if v.vars.length > 65535 ∧ ¬ AL.contains name v.vars then err Code.outOfMemory
  else do
    match ← v.tyOf name with
    | some t => v.insertTy t name value
    | none => err Code.internalError

/-- `vec_val_to_vec_i16`: per subscript, first the conversion, then the sign test; a *number* that
    does not fit an Integer is SUBSCRIPT OUT OF RANGE like any other, a non-number keeps the
    conversion's own error (TYPE MISMATCH) -/
def vecValToVecI16 : List Val → Res (List Int16)
  | [] => .ok []
  | x :: r =>
    match x.toI16 with
    | .ok n =>
      if n < 0 then err Code.subscriptOutOfRange
      else do
        let rest ← vecValToVecI16 r
        .ok (n :: rest)
    | .error e => if x.isNumeric then err Code.subscriptOutOfRange else .error e

/-- the key text of an array element: `name,i1,i2,name` -/
def arrayKey (name : Str) (idx : List Int16) : Str :=
  name ++ idx.flatMap (fun b => ',' :: RStd.showInt b.toInt) ++ ',' :: name

/-- `requested.iter().zip(dimensioned)` all `r <= d` -/
def withinBounds : List Int16 → List Int16 → Bool
  | r :: rs, d :: ds => if r > d then false else withinBounds rs ds
  | _, _ => true

/-- `build_array_key`; the automatic dimension is inserted before the checks and stays -/
def buildArrayKey (v : Var) (name : Str) (arr : List Val) : Var × Res Str :=
  match vecValToVecI16 arr with
  | .error e => (v, .error e)
  | .ok requested =>
    let vd : Var × List Int16 :=
      match AL.get name v.dims with
      | some d => (v, d)
      | none =>
        let d := List.replicate requested.length (10 : Int16)
        ({ v with dims := AL.set name d v.dims }, d)
    if vd.2.length ≠ requested.length then (vd.1, err Code.subscriptOutOfRange)
    else if withinBounds requested vd.2 then (vd.1, .ok (arrayKey name requested))
    else (vd.1, err Code.subscriptOutOfRange)

/-- `store_array` -/
def storeArray (v : Var) (name : Str) (arr : List Val) (value : Val) : Var × Res Unit :=
  match v.buildArrayKey name arr with
  | (v', .error e) => (v', .error e)
  | (v', .ok key) =>
    match v'.store key value with
    | .ok v'' => (v'', .ok ())
    | .error e => (v', .error e)

/-- `fetch_array` -/
def fetchArray (v : Var) (name : Str) (arr : List Val) : Var × Res Val :=
  match v.buildArrayKey name arr with
  | (v', .error e) => (v', .error e)
  | (v', .ok key) => (v', v'.fetch key)

/-- `starts_with` on keys -/
def startsWith : Str → Str → Bool
  | _, [] => true
  | [], _ :: _ => false
  | a :: as, b :: bs => a == b && startsWith as bs

/-- `erase_array` -/
def eraseArray (v : Var) (name : Str) : Res Var :=
  match AL.get name v.dims with
  | none => errMsg Code.illegalFunctionCall "ARRAY NOT DIMENSIONED"
  | some _ =>
    .ok { v with dims := AL.erase name v.dims,
                 vars := v.vars.filter (fun p => !startsWith p.1 (name ++ [','])) }

/-- `dimension_array` -/
def dimensionArray (v : Var) (name : Str) (arr : List Val) : Res Var :=
  if AL.contains name v.dims then err Code.redimensionedArray
  else do
    let vi ← vecValToVecI16 arr
    .ok { v with dims := AL.set name vi v.dims }

/-- the `retain` predicate of `def` -/
def defKeeps (t : VarTy) (p : Str × Val) : Bool :=
  if (suffixTy p.1).isSome then true
  else match p.2 with
    | .int _ => t == .integer
    | .sng _ => t == .single
    | .dbl _ => t == .double
    | .str _ => t == .string
    | .ret _ | .nxt _ => true

/-- `def`: `for idx in (from - 'A')..=(to - 'A') { types[idx] = t }` then the `retain`.
    An empty range does nothing.  Operands that are not letters `A..Z` are ILLEGAL FUNCTION CALL
    (fix D22: the loop used to index the table out of bounds, a panic). -/
def defTy (v : Var) (t : VarTy) (frm to : Val) : Res Var := do
  let f ← frm.toStr
  let u ← to.toStr
  match f, u with
  | fc :: _, tc :: _ =>
    let lo := letterIndex fc
    let hi := letterIndex tc
    if ¬ (lo < 26 ∧ hi < 26) then err Code.illegalFunctionCall
    else
      .ok { v with types := fun i => if lo ≤ i ∧ i ≤ hi then t else v.types i,
                   vars := v.vars.filter (defKeeps t) }
  | _, _ => err Code.illegalFunctionCall

def defint (v : Var) (frm to : Val) : Res Var := v.defTy .integer frm to
def defsng (v : Var) (frm to : Val) : Res Var := v.defTy .single frm to
def defdbl (v : Var) (frm to : Val) : Res Var := v.defTy .double frm to
def defstr (v : Var) (frm to : Val) : Res Var := v.defTy .string frm to

/-- the 26 letters of `verif_parts` -/
def typeLetters (v : Var) : Str := (List.range 26).map fun i => (v.types i).letter

end Var
end Basic
