import BasicModel.Model.Token
import BasicModel.Gen.Limits
/-
  `src/mach/listing.rs` — the program store: `BTreeMap<LineNumber, Line>` as a list sorted strictly
  ascending by key, plus the diagnostics of the last compile.
-/
namespace Basic

structure Listing where
  source : List (Nat × Line) := []
  indirectErrors : List Error := []
  directErrors : List Error := []
deriving Inhabited

namespace Listing

def clear (_ : Listing) : Listing := {}

def isEmpty (l : Listing) : Bool := l.source.isEmpty

def insertSorted (k : Nat) (v : Line) : List (Nat × Line) → List (Nat × Line)
  | [] => [(k, v)]
  | (k', v') :: rest =>
    if k < k' then (k, v) :: (k', v') :: rest
    else if k = k' then (k, v) :: rest
    else (k', v') :: insertSorted k v rest

/-- `Listing::insert` -/
def insert (l : Listing) (line : Line) : Listing :=
  match line.number with
  | some n => { l with source := insertSorted n line l.source }
  | none => l

/-- `Listing::remove`; the flag says whether a line was removed -/
def remove (l : Listing) (n : Option Nat) : Listing × Bool :=
  match n with
  | some n =>
    let found := l.source.any (·.1 = n)
    ({ l with source := l.source.filter (·.1 ≠ n) }, found)
  | none => (l, false)

/-- is key `k` inside the inclusive range over `Option<u16>` (`None < Some _`)? -/
def inRange (lo hi : Option Nat) (k : Nat) : Bool :=
  (match lo with | none => true | some a => a ≤ k) && (match hi with | none => false | some b => k ≤ b)

/-- `Listing::remove_range` -/
def removeRange (l : Listing) (lo hi : Option Nat) : Listing × Bool :=
  let hit := l.source.any (fun p => inRange lo hi p.1)
  if hit then ({ l with source := l.source.filter (fun p => !inRange lo hi p.1) }, true) else (l, false)

def lines (l : Listing) : List Line := l.source.map (·.2)

/-- `Error::column()`: the stored column shifted by the width of the line number and a blank -/
def errorColumn (e : Error) : Nat × Nat :=
  match e.line with
  | some n => let off := (toString n).length + 1; (e.colStart + off, e.colEnd + off)
  | none => (e.colStart, e.colEnd)

/-- `Listing::list_line`: the first line inside the range and the range that remains -/
def listLine (l : Listing) (lo hi : Option Nat) :
    Option ((Str × List (Nat × Nat)) × (Option Nat × Option Nat)) :=
  -- an inverted range makes `BTreeMap::range` panic in the Rust code; callers never build one
  match l.source.find? (fun p => inRange lo hi p.1) with
  | none => none
  | some (k, line) =>
    let next : Option Nat × Option Nat :=
      if (match hi with | some b => decide (k < b) | none => false) then (some (k + 1), hi)
      else (some (Gen.maxLineNumber + 1), some (Gen.maxLineNumber + 1))
    let cols := (l.indirectErrors.filter (fun e => e.line = some k)).map errorColumn
    some ((printLine line.number line.tokens, cols), next)

/-- the `changes` map of `Listing::renum` (old number ↦ new number), or the error -/
def renumPlan (keys : List Nat) (newStart oldStart step : Nat) : Res (List (Nat × Nat)) :=
  let rec go : List Nat → Nat → Nat → List (Nat × Nat) → Res (List (Nat × Nat))
    | [], _, _, acc => .ok acc.reverse
    | ln :: rest, oldEnd, newNum, acc =>
      if ln ≥ oldStart then
        if oldEnd ≤ Gen.maxLineNumber && oldEnd ≥ newStart then err Code.illegalFunctionCall
        else if newNum > Gen.maxLineNumber then err Code.overflow
        else if newNum + step > 65535 then err Code.overflow
        else go rest oldEnd (newNum + step) ((ln, newNum) :: acc)
      else go rest ln newNum acc
  go keys (Gen.maxLineNumber + 1) newStart []

/-- `Listing::renum` -/
def renum (lineRenum : List (Nat × Nat) → Line → Line) (l : Listing) (newStart oldStart step : Nat) : Res Listing := do
  let changes ← renumPlan (l.source.map (·.1)) newStart oldStart step
  let lines := l.lines.map (lineRenum changes)
  .ok { l with source := lines.foldl (fun src ln => match ln.number with
      | some n => insertSorted n ln src
      | none => src) [] }

/-- `Listing::line` -/
def line (l : Listing) (num : Nat) : Option (Str × List (Nat × Nat)) :=
  if num > Gen.maxLineNumber then none else (l.listLine (some num) (some num)).map (·.1)

end Listing
end Basic
