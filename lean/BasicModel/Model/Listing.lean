import BasicModel.Model.Token
/-
  `src/mach/listing.rs` — the program store, ported function by function.

  `source` models `BTreeMap<LineNumber, Line>` (`LineNumber = Option<u16>`, `None < Some _`) as an
  association list kept sorted strictly ascending by key.  Only `Some n` keys occur: both call sites
  of `insert` (`Runtime::enter_indirect`, `load_str`) test `is_direct()` first; inserting a line
  without a number is outside the model and leaves the listing unchanged.

  `rooted` is a ghost of the B-tree: a map that has ever held an element keeps an allocated (possibly
  empty) root until it is replaced by a fresh map (`clear`, `renum`), and
  `BTreeMap::range(lo..=hi)` *panics* for `lo > hi` exactly when a root exists.  `rangeFaults` is
  that panic condition; `removeRangeR`/`listLineR` are the functions with the panic modelled.
  For `lo ≤ hi` (all the parser ever produces) they agree with the total `removeRange`/`listLine`.
-/
namespace Basic

structure Listing where
  source : List (Nat × Line) := []
  indirectErrors : List Error := []
  directErrors : List Error := []
  rooted : Bool := false

namespace Listing

/-- `LineNumber::max_value() + 1` -/
def endMark : Nat := maxLineNumber + 1

/-- `clear` -/
def clear (_ : Listing) : Listing := {}

/-- `is_empty` -/
def isEmpty (l : Listing) : Bool := l.source.isEmpty

/-- `BTreeMap::insert` on the sorted association list: replace, or insert in order -/
def insertSorted (n : Nat) (line : Line) : List (Nat × Line) → List (Nat × Line)
  | [] => [(n, line)]
  | (k, x) :: r =>
    if n < k then (n, line) :: (k, x) :: r
    else if n = k then (n, line) :: r
    else (k, x) :: insertSorted n line r

/-- `BTreeMap::get` -/
def get? (l : Listing) (n : Nat) : Option Line := (l.source.find? (fun p => p.1 == n)).map (·.2)

/-- `insert` (the line previously stored under that number is `l.get? n`) -/
def insert (l : Listing) (line : Line) : Listing :=
  match line.number with
  | some n => { l with source := insertSorted n line l.source, rooted := true }
  | none => l

/-- `remove`; the flag says whether a line was removed (`.is_some()` of the Rust result) -/
def remove (l : Listing) (n : Option Nat) : Listing × Bool :=
  match n with
  | none => (l, false)
  | some n =>
    ({ l with source := l.source.filter (fun p => p.1 != n) }, l.source.any (fun p => p.1 == n))

/-- membership of the key `Some k` in `lo..=hi` over `Option<u16>` (`None < Some _`) -/
def inRange (lo hi : Option Nat) (k : Nat) : Bool :=
  (match lo with | none => true | some a => decide (a ≤ k)) &&
  (match hi with | none => false | some b => decide (k ≤ b))

/-- `lo > hi` in the order of `Option<u16>` -/
def inverted (lo hi : Option Nat) : Bool :=
  match lo, hi with
  | some _, none => true
  | some a, some b => decide (b < a)
  | none, _ => false

/-- `self.source.range(lo..=hi)` panics ("range start is greater than range end in BTreeMap") -/
def rangeFaults (l : Listing) (lo hi : Option Nat) : Bool := l.rooted && inverted lo hi

/-- `remove_range`; the flag is the Rust return value -/
def removeRange (l : Listing) (lo hi : Option Nat) : Listing × Bool :=
  if l.source.any (fun p => inRange lo hi p.1) then
    ({ l with source := l.source.filter (fun p => !inRange lo hi p.1) }, true)
  else (l, false)

def removeRangeR (l : Listing) (lo hi : Option Nat) : Res (Listing × Bool) :=
  if l.rangeFaults lo hi then fault "listing.rs remove_range: BTreeMap::range start > end"
  else .ok (l.removeRange lo hi)

/-- `lines` (ascending) -/
def lines (l : Listing) : List Line := l.source.map (·.2)

/-- `Error::column()` of an error located in line `n` -/
def errColumn (n : Nat) (e : Error) : Nat × Nat :=
  let offset := (RStd.natDigits n).length + 1
  (e.colStart + offset, e.colEnd + offset)

/-- `Error::column()`: the stored column shifted by the width of the line number and a blank
    (same function as `errColumn`, keyed by the error's own line; see `Thm.C15.errColumn_eq`) -/
def errorColumn (e : Error) : Nat × Nat :=
  match e.line with
  | some n => let off := (toString n).length + 1; (e.colStart + off, e.colEnd + off)
  | none => (e.colStart, e.colEnd)

/-- `list_line`: the first line in the range (if any), as listed text with the columns of the
    compile errors located in it, and the range to continue with -/
def listLine (l : Listing) (lo hi : Option Nat) :
    Option ((Str × List (Nat × Nat)) × (Option Nat × Option Nat)) :=
  match l.source.find? (fun p => inRange lo hi p.1) with
  | none => none
  | some (n, line) =>
    let range' : Option Nat × Option Nat :=
      match hi with
      | some b => if n < b then (some (n + 1), hi) else (some endMark, some endMark)
      | none => (some endMark, some endMark)
    let columns := l.indirectErrors.filterMap fun e =>
      if e.line = some n then some (errColumn n e) else none
    some ((printLine line.number line.tokens, columns), range')

def listLineR (l : Listing) (lo hi : Option Nat) :
    Res (Option ((Str × List (Nat × Nat)) × (Option Nat × Option Nat))) :=
  if l.rangeFaults lo hi then fault "listing.rs list_line: BTreeMap::range start > end"
  else .ok (l.listLine lo hi)

/-- `line` -/
def line (l : Listing) (num : Nat) : Option (Str × List (Nat × Nat)) :=
  if num > maxLineNumber then none
  else (l.listLine (some num) (some num)).map (·.1)

/-- the loop of `renum` that computes `changes`, over the keys in ascending order.
    `oldEnd`/`newNum` are the loop variables; arguments are `u16` (≤ 65535). -/
def renumGo (newStart oldStart step : Nat) : List Nat → Nat → Nat → Res (List (Nat × Nat))
  | [], _, _ => .ok []
  | ln :: r, oldEnd, newNum =>
    if ln ≥ oldStart then
      if oldEnd ≤ maxLineNumber ∧ oldEnd ≥ newStart then err Code.illegalFunctionCall
      else if newNum > maxLineNumber then err Code.overflow
      else if newNum + step > 65535 then err Code.overflow
      else do
        let rest ← renumGo newStart oldStart step r oldEnd (newNum + step)
        .ok ((ln, newNum) :: rest)
    else renumGo newStart oldStart step r ln newNum

/-- the `changes` map of `renum` (as an association list, ascending by old number);
    a step of 0 is rejected before anything else -/
def renumPlan (keys : List Nat) (newStart oldStart step : Nat) : Res (List (Nat × Nat)) :=
  if step = 0 then err Code.illegalFunctionCall
  else renumGo newStart oldStart step keys endMark newStart

/-- `new_source.insert(line.number(), line)` for every line, in order -/
def rebuild (ls : List Line) : List (Nat × Line) :=
  ls.foldl (fun acc line => match line.number with
    | some n => insertSorted n line acc
    | none => acc) []

/-- `renum`; `lineRenum changes line` is `Line::renum` -/
def renum (lineRenum : List (Nat × Nat) → Line → Line) (l : Listing)
    (newStart oldStart step : Nat) : Res Listing := do
  let changes ← renumPlan (l.source.map (·.1)) newStart oldStart step
  .ok { l with source := rebuild (l.lines.map (lineRenum changes)), rooted := !l.source.isEmpty }

/-- the line-number part of `Line::renum` (what it does to a line without references) -/
def renumNumberOnly (changes : List (Nat × Nat)) (line : Line) : Line :=
  match line.number with
  | some n =>
    match changes.find? (fun p => p.1 == n) with
    | some p => { line with number := some p.2 }
    | none => line
  | none => line

/-- `str::len()` -/
def utf8Len (s : Str) : Nat := (s.map (fun c => c.utf8Size)).sum

/-- `MAX_LINE_LEN` -/
def maxLineLen : Nat := 1024

/-- `load_str`; `lexFn` is `lex` -/
def loadStr (lexFn : Str → Option Nat × List Token) (l : Listing) (s : Str) : Res Listing :=
  if utf8Len s > maxLineLen then err Code.lineBufferOverflow
  else
    let nt := lexFn s
    let line : Line := { number := nt.1, tokens := nt.2 }
    -- fix D19: the listed line must fit the line buffer too
    if utf8Len (printLine line.number line.tokens) > maxLineLen then err Code.lineBufferOverflow
    else if line.tokens.isEmpty then
      match line.number with
      | some n => .ok (l.remove (some n)).1
      | none => .ok l
    else if line.number.isNone then err Code.directStatementInFile
    else .ok (l.insert line)

end Listing
end Basic
