/-
  Error values of the interpreter (`src/lang/error.rs`).
  `Error` mirrors the Rust struct: numeric code, optional line number, column range, message.
  A *panic* of the Rust code is modelled as the distinguished code `faultCode` (never produced by
  `error!`), so "no panic" is a statement about results, not a by-product of Lean's totality.
-/
namespace Basic

abbrev Str := List Char

structure Error where
  code : Nat
  line : Option Nat := none
  colStart : Nat := 0
  colEnd : Nat := 0
  msg : String := ""
deriving DecidableEq, Repr, Inhabited

namespace Code
def «break» := 0
def nextWithoutFor := 1
def syntaxError := 2
def returnWithoutGosub := 3
def outOfData := 4
def illegalFunctionCall := 5
def overflow := 6
def outOfMemory := 7
def undefinedLine := 8
def subscriptOutOfRange := 9
def redimensionedArray := 10
def divisionByZero := 11
def illegalDirect := 12
def typeMismatch := 13
def outOfStringSpace := 14
def stringTooLong := 15
def cantContinue := 17
def undefinedUserFunction := 18
def redoFromStart := 21
def lineBufferOverflow := 23
def forWithoutNext := 26
def whileWithoutWend := 29
def wendWithoutWhile := 30
def internalError := 51
def directStatementInFile := 66
/-- not an `ErrorCode` of the repo: stands for a Rust panic / abort -/
def fault := 1000
end Code

namespace Error
def mk' (code : Nat) : Error := { code := code }
def withMsg (e : Error) (m : String) : Error := { e with msg := m }
def inLine (e : Error) (l : Option Nat) : Error := { e with line := l }
def inCol (e : Error) (s t : Nat) : Error := { e with colStart := s, colEnd := t }
def isFault (e : Error) : Bool := e.code == Code.fault
end Error

instance instDecEqExcept {ε α : Type} [DecidableEq ε] [DecidableEq α] : DecidableEq (Except ε α) :=
  fun a b => match a, b with
  | .ok x, .ok y => if h : x = y then isTrue (by rw [h]) else isFalse (fun h' => h (by injection h'))
  | .error x, .error y => if h : x = y then isTrue (by rw [h]) else isFalse (fun h' => h (by injection h'))
  | .ok _, .error _ => isFalse (fun h => by cases h)
  | .error _, .ok _ => isFalse (fun h => by cases h)

abbrev Res (α : Type) := Except Error α

def err {α} (code : Nat) : Res α := .error (Error.mk' code)
def errMsg {α} (code : Nat) (m : String) : Res α := .error ((Error.mk' code).withMsg m)
def fault {α} (site : String) : Res α := .error ((Error.mk' Code.fault).withMsg site)

end Basic
